(* Header-level losslessness for UDP flows: the packets the kernel makes of a
   coalesced UDP buffer equal the packets merged into it in every byte the
   property compares (canon_gen with the IPv6 flow label masked, see finding F8).
   Invariant: every member's header agrees with the buffer's header outside the
   excepted fields. *)
From WG Require Import Base.Prelude Gen.Constants Gro.Bytes Gro.Model Gro.KernelSpec Gro.Spec Gro.Proofs Gro.Csum.
Local Open Scope N_scope.

Lemma len_slice l x y : x <= y -> y <= len l -> len (slice l x y) = y - x.
Proof. intros H1 H2. unfold slice. rewrite len_take; rewrite ?len_drop; lia. Qed.
Lemma byte_at_slice l x y k : k < y - x -> byte_at (slice l x y) k = byte_at l (x + k).
Proof. intros H. unfold slice. rewrite byte_at_take by exact H. apply byte_at_drop. Qed.
Lemma slice_eq_bytes a b x y : slice a x y = slice b x y -> forall k, x <= k -> k < y -> byte_at a k = byte_at b k.
Proof.
  intros E k H1 H2. pose proof (f_equal (fun l => byte_at l (k - x)) E) as Hb. cbv beta in Hb.
  rewrite !byte_at_slice in Hb by lia. replace (x + (k - x)) with k in Hb by lia. exact Hb.
Qed.

Lemma app_inv_len (a a' b b' : list N) : len a = len a' -> a ++ b = a' ++ b' -> a = a' /\ b = b'.
Proof.
  revert a'; induction a as [|x a IH]; intros [|y a'] Hl E; try (cbn in Hl; lia); [auto|].
  cbn [app] in E. inversion E; subst. destruct (IH a') as [-> ->]; auto. unfold len in *. cbn [length] in Hl. lia.
Qed.

(* equal UDP flow keys: equal addresses and ports *)
Lemma udp_key_bytes a b (v6 : bool) (iph := if v6 then 40 else 20) :
  iph + 4 <= len a -> iph + 4 <= len b -> flow_key a v6 iph false = flow_key b v6 iph false ->
  forall k, (if v6 then 8 else 12) <= k -> k < iph + 4 -> byte_at a k = byte_at b k.
Proof.
  intros Ha Hb E k H1 H2. unfold flow_key in E. inversion E as [E']. clear E.
  rewrite !app_nil_r in E'.
  apply app_inv_len in E' as [E1 E2].
  - destruct (N.lt_ge_cases k iph).
    + apply (slice_eq_bytes a b _ _ E1 k); unfold tun_ipv6SrcAddrOffset, tun_ipv4SrcAddrOffset, iph in *; destruct v6; lia.
    + apply (slice_eq_bytes a b _ _ E2 k); lia.
  - unfold tun_ipv6SrcAddrOffset, tun_ipv4SrcAddrOffset, iph in *. destruct v6; rewrite !len_slice; lia.
Qed.

Lemma ip_can_facts a b : ip_headers_can_coalesce a b = true ->
  if byte_at a 0 / 16 =? 6
  then byte_at a 0 = byte_at b 0 /\ byte_at a 1 = byte_at b 1 /\ byte_at a 2 = byte_at b 2 /\ byte_at a 3 = byte_at b 3 /\ byte_at a 7 = byte_at b 7
  else byte_at a 1 = byte_at b 1 /\ byte_at a 6 / 32 = byte_at b 6 / 32 /\ byte_at a 8 = byte_at b 8.
Proof.
  unfold ip_headers_can_coalesce. destruct (_ || _); [discriminate|]. destruct (byte_at a 0 / 16 =? 6).
  - destruct (N.eqb_spec (byte_at a 0) (byte_at b 0)); cbn [negb orb]; [|discriminate].
    destruct (N.eqb_spec (byte_at a 1) (byte_at b 1)); cbn [negb orb]; [|discriminate].
    destruct (N.eqb_spec (byte_at a 2) (byte_at b 2)); cbn [negb orb]; [|discriminate].
    destruct (N.eqb_spec (byte_at a 3) (byte_at b 3)); cbn [negb]; [|discriminate].
    destruct (N.eqb_spec (byte_at a 7) (byte_at b 7)); cbn [negb]; [auto|discriminate].
  - destruct (N.eqb_spec (byte_at a 1) (byte_at b 1)); cbn [negb]; [|discriminate].
    destruct (N.eqb_spec (byte_at a 6 / 32) (byte_at b 6 / 32)); cbn [negb]; [|discriminate].
    destruct (N.eqb_spec (byte_at a 8) (byte_at b 8)); cbn [negb]; [auto|discriminate].
Qed.

(* ------------------------------------------------ header agreement (UDP) *)
(* bytes of the IP + UDP header the property compares: everything below the
   UDP length field except IPv4 total length / ID / checksum and IPv6 payload length *)
Definition umasked (v6 : bool) (k : N) : bool :=
  if v6 then (4 <=? k) && (k <? 6) else ((2 <=? k) && (k <? 6)) || ((10 <=? k) && (k <? 12)).
Definition uagree (v6 : bool) (a b : list N) : Prop :=
  (forall k, k < (if v6 then 40 else 20) + 4 -> umasked v6 k = false -> byte_at a k = byte_at b k) /\
  (v6 = true -> byte_at a 1 / 16 = byte_at b 1 / 16).

Lemma uagree_refl v6 a : uagree v6 a a.
Proof. split; auto. Qed.
Lemma uagree_sym v6 a b : uagree v6 a b -> uagree v6 b a.
Proof. intros [H1 H2]. split; [intros k Hk Hm; symmetry; auto|intros Hv; symmetry; auto]. Qed.
Lemma uagree_trans v6 a b c : uagree v6 a b -> uagree v6 b c -> uagree v6 a c.
Proof. intros [H1 H2] [H3 H4]. split; [intros k Hk Hm; rewrite H1, H3; auto|intros Hv; rewrite H2, H4; auto]. Qed.

(* what udpPacketsCanCoalesce + equal keys + the classification give *)
Lemma udp_merge_agree (v6 : bool) tcpha tcphb a b :
  hdr_facts false v6 tcpha a -> hdr_facts false v6 tcphb b ->
  (if v6 then 40 else 20) + 4 <= len a -> (if v6 then 40 else 20) + 4 <= len b ->
  flow_key a v6 (if v6 then 40 else 20) false = flow_key b v6 (if v6 then 40 else 20) false ->
  ip_headers_can_coalesce a b = true -> uagree v6 a b.
Proof.
  intros [A1 [A2 [A3 _]]] [B1 [B2 [B3 _]]] La Lb Hk Hip.
  pose proof (ip_can_facts a b Hip) as Hf. rewrite A1 in Hf.
  pose proof (udp_key_bytes a b v6 La Lb Hk) as Hkb.
  destruct v6.
  - cbn [N.eqb Pos.eqb] in Hf. destruct Hf as [E0 [E1 [E2 [E3 E7]]]]. split; [|intros _; rewrite E1; reflexivity].
    intros k Hk40 Hm. unfold umasked in Hm.
    destruct (N.eq_dec k 0) as [->|]; [exact E0|].
    destruct (N.eq_dec k 1) as [->|]; [exact E1|].
    destruct (N.eq_dec k 2) as [->|]; [exact E2|].
    destruct (N.eq_dec k 3) as [->|]; [exact E3|].
    destruct (N.eq_dec k 6) as [->|]; [rewrite A3, B3; reflexivity|].
    destruct (N.eq_dec k 7) as [->|]; [exact E7|].
    apply Hkb; [|lia]. destruct (N.leb_spec 4 k), (N.ltb_spec k 6); cbn [andb] in Hm; try discriminate; lia.
  - cbn [N.eqb Pos.eqb] in Hf. destruct Hf as [E1 [E6 E8]]. split; [|discriminate].
    destruct (A2 eq_refl) as [A5 [A6 A7]]. destruct (B2 eq_refl) as [B5 [B6 B7]].
    intros k Hk20 Hm. unfold umasked in Hm.
    destruct (N.eq_dec k 0) as [->|].
    { pose proof (N.div_mod (byte_at a 0) 16). pose proof (N.div_mod (byte_at b 0) 16). lia. }
    destruct (N.eq_dec k 1) as [->|]; [exact E1|].
    destruct (N.eq_dec k 6) as [->|]. { clear - A6 B6 E6. lia. }
    destruct (N.eq_dec k 7) as [->|]; [congruence|].
    destruct (N.eq_dec k 8) as [->|]; [exact E8|].
    destruct (N.eq_dec k 9) as [->|]; [rewrite A3, B3; reflexivity|].
    apply Hkb; [|lia].
    destruct (N.leb_spec 2 k), (N.ltb_spec k 6), (N.leb_spec 10 k), (N.ltb_spec k 12); cbn [andb orb] in Hm; try discriminate; lia.
Qed.

(* ---------------------------------------------- invariant over the loop *)
Definition item_u (inp : list buf) (tcp : bool) (it : item) (P : list N) (mem : list N) : Prop :=
  tcp = false ->
  it_key it = flow_key P (it_v6 it) (it_iph it) false /\
  forall m, In m mem -> uagree (it_v6 it) (b_pkt (get_buf inp m)) P /\ it_iph it + 8 <= len (b_pkt (get_buf inp m)).
Definition item_ok3 (inp : list buf) (capsb : Prop) (tcp : bool) (it : item) (P : list N) (mem : list N) : Prop :=
  item_ok2 inp capsb tcp it P mem /\ item_u inp tcp it P mem.

Lemma fresh_item_ok3 inp (capsb : Prop) tcp pkt k v6 new :
  fresh_item tcp pkt k v6 new -> pkt = b_pkt (get_buf inp k) -> item_ok3 inp capsb tcp new pkt [k].
Proof.
  intros Hf Hp. split; [eapply fresh_item_ok2; eauto|]. intros ->.
  destruct Hf as [_ [_ [Hv [_ [_ [Hl [_ [_ [_ [Hkey _]]]]]]]]]]. rewrite Hv. split; [exact Hkey|].
  intros m [<-|[]]. rewrite <- Hp. split; [apply uagree_refl|exact Hl].
Qed.

Lemma udp_can_ip pkt iph gso it target : udp_can_coalesce pkt iph gso it target = CanAppend -> ip_headers_can_coalesce pkt target = true.
Proof. unfold udp_can_coalesce. destruct (ip_headers_can_coalesce pkt target); [reflexivity|discriminate]. Qed.

Lemma uagree_ext (v6 : bool) a b b' : (forall k, k < (if v6 then 40 else 20) + 4 -> byte_at b' k = byte_at b k) -> uagree v6 a b -> uagree v6 a b'.
Proof.
  intros He [H1 H2]. split; [intros k Hk Hm; rewrite He by exact Hk; auto|].
  intros Hv. rewrite He by (subst v6; lia). auto.
Qed.

Lemma merge_item_ok3 inp off (capsb : Prop) tcp pkt k v6 p it it' bufs bufs' mem :
  True ->
  merged_ok tcp pkt k off v6 p it it' bufs bufs' ->
  pkt = b_pkt (get_buf inp k) -> b_pkt (get_buf bufs k) = pkt ->
  it_idx it <> k -> (N.to_nat (it_idx it) < length bufs)%nat ->
  item_ok3 inp capsb tcp it (b_pkt (get_buf bufs (it_idx it))) mem ->
  item_ok3 inp capsb tcp it' (b_pkt (get_buf bufs' (it_idx it))) (if p then k :: mem else mem ++ [k]).
Proof.
  intros HC Hmo Hpk Hbk Hne Hlt [Hok2 Hu].
  split; [eapply merge_item_ok2; eauto|]. intros ->. specialize (Hu eq_refl). destruct Hu as [Hkey Hag].
  destruct Hok2 as [[Hhl [Hg1 [Hiph [Hhd [_ [_ [_ _]]]]]]] [Hh _]].
  destruct Hmo as [new [Hf [Hk2 [Hp [Hcan Hco]]]]].
  pose proof (merge_iph _ _ _ _ _ _ Hf Hk2 Hiph Hhd) as Hi.
  destruct Hf as [Hfi [Hfm [Hfv [Hfiph [Hft [Hfl [Hfg [Hfg1 [Hfmax [Hfkey [Hfh _]]]]]]]]]]].
  assert (Hv : it_v6 it = v6) by (rewrite Hk2, Hfkey, flow_key_hd in Hhd; apply v6_flag_inj in Hhd; auto).
  destruct (coalesce_udp_success _ _ _ _ _ _ _ Hco) as [[Sk [Sv [Si [Sip [St Sm]]]]] [Hg' [Hb' Hroom]]].
  subst p. rewrite Hb'. rewrite get_set_buf_same by exact Hlt. cbn [with_pkt b_pkt].
  set (P := b_pkt (get_buf bufs (it_idx it))) in *.
  unfold hl_of in Hhl, Hfl. unfold UDPH, tun_udphLen in *.
  assert (Hpre : forall q, q < (if it_v6 it then 40 else 20) + 4 -> byte_at (P ++ drop (it_iph it + 8) pkt) q = byte_at P q).
  { intros q Hq. apply byte_at_app_l. rewrite Hiph in Hhl. lia. }
  rewrite Sv, Sk, Sip. split.
  - rewrite Hkey. unfold flow_key. rewrite !slice_app_l; [reflexivity| |];
      unfold tun_ipv6SrcAddrOffset, tun_ipv4SrcAddrOffset; rewrite Hiph in *; destruct (it_v6 it); lia.
  - intros m Hm. apply in_app_or in Hm as [Hm|[<-|[]]].
    { destruct (Hag m Hm) as [G1 G2]. split; [apply (uagree_ext _ _ P); [exact Hpre|exact G1]|exact G2]. }
    split; [|rewrite <- Hpk, Hi; exact Hfl].
    apply (uagree_ext _ _ P); [exact Hpre|].
    rewrite <- Hpk, Hv. apply (udp_merge_agree v6 (it_tcph new) (it_tcph it)).
    + exact Hfh.
    + rewrite <- Hv. exact Hh.
    + rewrite <- Hfiph. lia.
    + rewrite <- Hv, <- Hiph. lia.
    + rewrite <- Hfiph at 1. rewrite <- Hfkey, <- Hk2, Hkey, Hv, Hi, Hfiph. reflexivity.
    + eapply udp_can_ip. exact Hcan.
Qed.

Lemma loop_inv_u udp off inp k (capsb : Prop) :
  (k <= length inp)%nat -> s_err (loop_k udp off inp k) = false ->
  allQ (item_ok3 inp capsb) (loop_k udp off inp k).
Proof.
  induction k as [|k IH]; intros Hk He.
  - intros tcp it H. destruct tcp; destruct H.
  - pose proof (loop_inv_all udp off inp k ltac:(lia)) as Hall.
    unfold loop_k in *. rewrite indices_S, fold_left_app in *. cbn [fold_left] in *. rewrite N.add_0_l in *.
    pose proof (err_sticky _ _ _ _ He) as He0. pose proof (IH ltac:(lia) He0) as IQ. destruct (Hall He0) as [I [I2 _]].
    destruct (gro_step_spec udp off _ (N.of_nat k) (i_kt _ _ _ I) (i_ku _ _ _ I) He0 (inv_range inp k _ (Nat.lt_le_incl _ _ Hk) I) He) as [bz [Hz [_ Hs]]].
    eapply (allQ_step inp off (item_ok3 inp capsb) (fun _ => True)); [| | |apply (inv_zero _ _ _ _ I Hz)|apply (i_nodup _ _ I2)|exact Logic.I|apply allQ_zero; [exact IQ|exact Hz]|exact Hs].
    + intros. eapply fresh_item_ok3; eauto.
    + intros. eapply merge_item_ok3; eauto.
    + lia.
Qed.

(* ------------------------------------- canon of a UDP datagram, bytewise *)
Lemma byte_at_repeat0 n k : byte_at (repeat 0 n) k = 0.
Proof. unfold byte_at. generalize (N.to_nat k). induction n as [|n IH]; intros [|q]; cbn; auto. Qed.
Lemma len_repeat0 n : len (repeat 0 (N.to_nat n)) = n.
Proof. unfold len. rewrite repeat_length. lia. Qed.
Lemma len_zero_at p i n : len (zero_at p i n) = len p.
Proof. unfold zero_at. destruct (N.ltb_spec (len p) (i + n)); [reflexivity|]. apply len_put_bytes. rewrite len_repeat0. lia. Qed.
Lemma byte_at_zero_at p i n k : i + n <= len p ->
  byte_at (zero_at p i n) k = if (i <=? k) && (k <? i + n) then 0 else byte_at p k.
Proof.
  intros H. unfold zero_at. destruct (N.ltb_spec (len p) (i + n)); [lia|].
  rewrite byte_at_put_bytes by (rewrite len_repeat0; lia). rewrite len_repeat0.
  destruct (N.ltb_spec k i), (N.leb_spec i k); try lia; cbn [andb]; [reflexivity|].
  destruct (N.ltb_spec k (i + n)); [apply byte_at_repeat0|reflexivity].
Qed.
Lemma len_put_byte p i x : i + 1 <= len p -> len (put_byte p i x) = len p.
Proof. intros. unfold put_byte. apply len_put_bytes. cbn [len length N.of_nat]. lia. Qed.
Lemma byte_at_put_byte p i x k : i + 1 <= len p -> byte_at (put_byte p i x) k = if k =? i then x else byte_at p k.
Proof.
  intros H. unfold put_byte. rewrite byte_at_put_bytes by (cbn [len length N.of_nat]; lia). change (len [x]) with 1.
  destruct (N.eqb_spec k i) as [->|Hne].
  - destruct (N.ltb_spec i i); [lia|]. destruct (N.ltb_spec i (i + 1)); [|lia]. replace (i - i) with 0 by lia. reflexivity.
  - destruct (N.ltb_spec k i); [reflexivity|]. destruct (N.ltb_spec k (i + 1)); [lia|reflexivity].
Qed.

(* the canonical form of an unfragmented UDP datagram *)
Definition ucanon_byte (v6 : bool) (p : list N) (k : N) : N :=
  let iph := if v6 then 40 else 20 in
  if (iph + 4 <=? k) && (k <? iph + 8) then 0
  else if v6 then (if (4 <=? k) && (k <? 6) then 0 else byte_at p k)
  else if ((2 <=? k) && (k <? 6)) || ((10 <=? k) && (k <? 12)) then 0 else byte_at p k.

Lemma canon_udp (v6 : bool) tcph p psh :
  hdr_facts false v6 tcph p -> (if v6 then 40 else 20) + 8 <= len p ->
  len (canon_gen false psh p) = len p /\ forall k, byte_at (canon_gen false psh p) k = ucanon_byte v6 p k.
Proof.
  intros Hf Hl. unfold canon_gen. rewrite (l3_parse_of_facts false v6 tcph p Hf) by (destruct v6; lia).
  change (17 =? 6) with false. change (17 =? 17) with true. cbn [andb].
  destruct (N.leb_spec ((if v6 then 40 else 20) + 8) (len p)); [|lia].
  destruct v6; cbn [andb].
  - set (a := zero_at p 4 2). assert (La : len a = len p) by apply len_zero_at.
    split; [rewrite len_zero_at; exact La|].
    intros k. rewrite byte_at_zero_at by lia. unfold ucanon_byte.
    change (40 + 4 + 4) with (40 + 8).
    destruct ((40 + 4 <=? k) && (k <? 40 + 8)) eqn:E1; [reflexivity|].
    unfold a. rewrite byte_at_zero_at by lia. change (4 + 2) with 6. reflexivity.
  - set (a := zero_at p 2 4). assert (La : len a = len p) by apply len_zero_at.
    set (b := zero_at a 10 2). assert (Lb : len b = len p) by (unfold b; rewrite len_zero_at; exact La).
    split; [rewrite len_zero_at; exact Lb|].
    intros k. rewrite byte_at_zero_at by lia. unfold ucanon_byte.
    change (20 + 4 + 4) with (20 + 8).
    destruct ((20 + 4 <=? k) && (k <? 20 + 8)) eqn:E1; [reflexivity|].
    + unfold b. rewrite byte_at_zero_at by lia. unfold a. rewrite byte_at_zero_at by lia.
      destruct (N.leb_spec 2 k), (N.ltb_spec k (2 + 4)), (N.leb_spec 10 k), (N.ltb_spec k (10 + 2)), (N.ltb_spec k 6), (N.ltb_spec k 12);
        cbn [andb orb]; try reflexivity; lia.
Qed.

(* two datagrams that agree on the compared header bytes and on the payload have the same canonical form *)
Lemma canon_udp_eq (v6 : bool) tcph a b psh :
  hdr_facts false v6 tcph a -> hdr_facts false v6 tcph b ->
  (if v6 then 40 else 20) + 8 <= len a -> len a = len b -> uagree v6 a b ->
  (forall k, (if v6 then 40 else 20) + 8 <= k -> byte_at a k = byte_at b k) ->
  canon_gen false psh a = canon_gen false psh b.
Proof.
  intros Ha Hb Hl Hlen [Hu1 Hu2] Hpay.
  destruct (canon_udp v6 tcph a psh Ha Hl) as [La Ba]. destruct (canon_udp v6 tcph b psh Hb ltac:(lia)) as [Lb Bb].
  apply list_ext; [lia|]. intros k _. rewrite Ba, Bb. unfold ucanon_byte.
  destruct ((_ <=? k) && (k <? _)) eqn:E1; [reflexivity|].
  destruct v6.
  - destruct ((4 <=? k) && (k <? 6)) eqn:E2; [reflexivity|].
    destruct (N.lt_ge_cases k (40 + 4)) as [Hlt|Hge].
    + apply Hu1; [exact Hlt|]. exact E2.
    + apply Hpay. destruct (N.leb_spec (40 + 4) k), (N.ltb_spec k (40 + 8)); cbn [andb] in E1; try discriminate; lia.
  - destruct (((2 <=? k) && (k <? 6)) || ((10 <=? k) && (k <? 12))) eqn:E2; [reflexivity|].
    destruct (N.lt_ge_cases k (20 + 4)) as [Hlt|Hge].
    + apply Hu1; [exact Hlt|]. exact E2.
    + apply Hpay. destruct (N.leb_spec (20 + 4) k), (N.ltb_spec k (20 + 8)); cbn [andb] in E1; try discriminate; lia.
Qed.

(* ------------------------- accounting and kernel keep the compared bytes *)
Lemma acc_buf_udp_agree (it : item) (b : buf) :
  0 < it_merged it -> it_iph it = (if it_v6 it then 40 else 20) ->
  hl_of false it <= len (b_pkt b) -> len (b_pkt b) <= 65535 ->
  uagree (it_v6 it) (b_pkt (acc_buf false it b)) (b_pkt b).
Proof.
  intros Hm Hiph Hl Hmax. unfold acc_buf. destruct (N.ltb_spec 0 (it_merged it)); [|lia]. cbn [b_pkt].
  unfold hl_of in *. unfold UDPH, tun_udphLen in *.
  destruct (it_v6 it); rewrite Hiph in *; set (P := b_pkt b) in *.
  - set (p1 := put_be16 P 4 ((len P - 40) mod 65536)).
    assert (L1 : len p1 = len P) by (apply put_be16_len; lia).
    set (p2 := put_be16 p1 (40 + 4) ((len P - 40) mod 65536)).
    assert (L2 : len p2 = len P) by (unfold p2; rewrite put_be16_len; lia).
    assert (B : forall k, k < 44 -> (k < 4 \/ 6 <= k) ->
              byte_at (put_be16 p2 (40 + 6) (checksum [] (pseudo_sum IPPROTO_UDP (slice p2 tun_ipv6SrcAddrOffset (tun_ipv6SrcAddrOffset + 16))
                 (slice p2 (tun_ipv6SrcAddrOffset + 16) (tun_ipv6SrcAddrOffset + 16 * 2)) ((len P - 40) mod 65536)))) k = byte_at P k).
    { intros k Hk Hk2. rewrite byte_at_put_be16_other by lia. unfold p2. rewrite byte_at_put_be16_other by lia.
      unfold p1. apply byte_at_put_be16_other; lia. }
    split.
    + intros k Hk Hmk. apply B; [lia|]. unfold umasked in Hmk.
      destruct (N.leb_spec 4 k), (N.ltb_spec k 6); cbn [andb] in Hmk; try discriminate; lia.
    + intros _. rewrite B by lia. reflexivity.
  - set (p1 := put_bytes P 10 [0; 0]).
    assert (L1 : len p1 = len P) by (apply len_put_bytes; cbn [len length N.of_nat]; lia).
    set (p2 := put_be16 p1 2 (len P mod 65536)).
    assert (L2 : len p2 = len P) by (unfold p2; rewrite put_be16_len; lia).
    set (p3 := put_be16 p2 10 (cnot16 (checksum (take 20 p2) 0))).
    assert (L3 : len p3 = len P) by (unfold p3; rewrite put_be16_len; lia).
    set (p4 := put_be16 p3 (20 + 4) ((len P - 20) mod 65536)).
    assert (L4 : len p4 = len P) by (unfold p4; rewrite put_be16_len; lia).
    split; [|discriminate].
    intros k Hk Hmk. unfold umasked in Hmk.
    assert (Hk2 : k < 2 \/ (6 <= k /\ k < 10) \/ 12 <= k).
    { destruct (N.leb_spec 2 k), (N.ltb_spec k 6), (N.leb_spec 10 k), (N.ltb_spec k 12); cbn [andb orb] in Hmk; try discriminate; lia. }
    rewrite byte_at_put_be16_other by lia. unfold p4. rewrite byte_at_put_be16_other by lia.
    unfold p3. rewrite byte_at_put_be16_other by lia. unfold p2. rewrite byte_at_put_be16_other by lia.
    unfold p1. apply byte_at_put_bytes_other; cbn [len length N.of_nat]; lia.
Qed.

Lemma seg_udp_agree (v6 : bool) (tcph : N) (v : vhdr) (F : list N) (ltot i : N) (seg : list N) (lst : bool) :
  let iph := if v6 then 40 else 20 in
  v_cstart v = iph -> v_coff v = 6 -> v_hdrlen v = iph + 8 ->
  hdr_facts false v6 tcph F -> iph + 8 <= len F ->
  let s := build_segment v false (take (iph + 8) F) ltot i seg lst in
  len s = iph + 8 + len seg /\ (forall k, iph + 8 <= k -> byte_at s k = byte_at seg (k - (iph + 8))) /\ uagree v6 s F.
Proof.
  intros iph Hcs Hco Hhl [F1 _] Hlf s. subst s.
  set (hl := iph + 8) in *. set (H := take hl F).
  assert (LH : len H = hl) by (apply len_take; exact Hlf).
  assert (Hiph : 20 <= iph /\ iph <= 40) by (unfold iph; destruct v6; lia).
  assert (BH : forall k, k < hl -> byte_at H k = byte_at F k) by (intros k Hk; apply byte_at_take; exact Hk).
  assert (Hv6 : is_v6 H = v6).
  { unfold is_v6. rewrite BH by lia. rewrite F1. destruct v6; reflexivity. }
  rewrite build_segment_eq. cbv zeta. rewrite Hv6, Hcs, Hco, Hhl.
  set (slen := hl + len seg).
  set (h1 := seg_h1 v6 H iph slen i).
  assert (Lh1 : len h1 = hl) by (unfold h1; rewrite seg_h1_len; lia).
  unfold seg_h2. rewrite Hcs.
  set (h2 := put_be16 h1 (iph + 4) (slen - iph)).
  assert (Lh2 : len h2 = hl) by (unfold h2; rewrite put_be16_len; lia).
  set (h3 := put_bytes h2 (iph + 6) [0; 0]).
  assert (Lh3 : len h3 = hl) by (unfold h3; rewrite len_put_bytes; [exact Lh2|]; change (len [0; 0]) with 2; lia).
  set (c' := seg_c v false H h2 ltot slen seg).
  set (Hs := put_be16 h3 (iph + 6) c').
  assert (LHs : len Hs = hl) by (unfold Hs; rewrite put_be16_len; lia).
  assert (B : forall k, k < iph + 4 -> (if v6 return Prop then k < 4 \/ 6 <= k else k < 2 \/ (6 <= k /\ k < 10) \/ 12 <= k) ->
              byte_at (Hs ++ seg) k = byte_at F k).
  { intros k Hk Hk2. rewrite byte_at_app_l by lia. unfold Hs. rewrite byte_at_put_be16_other by lia.
    unfold h3. rewrite byte_at_put_bytes_other by (change (len [0; 0]) with 2; lia).
    unfold h2. rewrite byte_at_put_be16_other by lia. unfold h1. rewrite seg_h1_byte by (try exact Hk2; lia). apply BH. lia. }
  refine (conj _ (conj _ (conj _ _))).
  - rewrite len_app, LHs. reflexivity.
  - intros k Hk. rewrite byte_at_app_r by lia. rewrite LHs. reflexivity.
  - intros k Hk Hmk. apply B; [exact Hk|]. unfold umasked in Hmk. destruct v6.
    + destruct (N.leb_spec 4 k), (N.ltb_spec k 6); cbn [andb] in Hmk; try discriminate; lia.
    + destruct (N.leb_spec 2 k), (N.ltb_spec k 6), (N.leb_spec 10 k), (N.ltb_spec k 12); cbn [andb orb] in Hmk; try discriminate; lia.
  - intros ->. rewrite B by (unfold iph; lia). reflexivity.
Qed.

Lemma hdr_facts_uagree (v6 : bool) t a b : uagree v6 a b -> hdr_facts false v6 t b -> hdr_facts false v6 t a.
Proof.
  intros [H1 _] [F1 [F2 [F3 _]]]. unfold hdr_facts.
  assert (E0 : byte_at a 0 = byte_at b 0) by (apply H1; [destruct v6; lia|destruct v6; reflexivity]).
  rewrite E0. refine (conj F1 (conj _ (conj _ _))).
  - intros ->. assert (E6 : byte_at a 6 = byte_at b 6) by (apply H1; [lia|reflexivity]).
    assert (E7 : byte_at a 7 = byte_at b 7) by (apply H1; [lia|reflexivity]). rewrite E6, E7. apply F2. reflexivity.
  - rewrite H1; [exact F3|destruct v6; lia|destruct v6; reflexivity].
  - discriminate.
Qed.

Lemma build_all_map {A} (f : list N -> A) (g : N -> A) v tcp H ltot (pl : N -> list N) (mem : list N) :
  (forall m, In m mem -> forall i lst, f (build_segment v tcp H ltot i (pl m) lst) = g m) ->
  forall i, map f (build_all v tcp H ltot i (map pl mem)) = map g mem.
Proof.
  induction mem as [|m mem IH]; intros Hm i; cbn [map build_all]; [reflexivity|].
  rewrite Hm by (left; reflexivity). f_equal. apply IH. intros m' Hm' i' lst. apply Hm. right. exact Hm'.
Qed.

(* ------------------------ theorem: UDP flows are lossless, header and all *)
(* The datagrams the kernel makes of a coalesced UDP buffer are, in order, the
   datagrams merged into it -- equal in every byte the property compares (canon:
   addresses, ports, payload, IP header fields incl. the IPv6 flow label, other
   than total/payload length, IPv4 ID and checksums). *)
Theorem gro_udp_lossless : forall (canUDP : bool) (offset : N) (bufs : list buf) (j : N),
  let s := handle_gro canUDP offset bufs in
  s_err s = false -> merged_into (s_trace s) j ->
  let b := get_buf (s_bufs s) j in
  v_gso (dec_vhdr (b_hdr b)) = GSO_UDP_L4 ->
  map canon (kernel_segment (b_hdr b) (b_pkt b)) =
  map (fun m => canon (b_pkt (get_buf bufs m))) (members (s_trace s) j).
Proof.
  intros udp off inp j s He. subst s. unfold handle_gro in *. rewrite gro_loop_is in *.
  set (s0 := loop_k udp off inp (length inp)) in *.
  assert (He0 : s_err s0 = false) by (destruct (s_err s0) eqn:E; [cbn iota in He; congruence|reflexivity]).
  rewrite He0 in *. cbn [s_trace s_tw s_bufs]. intros Hmj.
  destruct (loop_inv_all udp off inp (length inp) (le_n _) He0) as [I [I2 I3]]. fold s0 in I, I2, I3.
  pose proof (loop_inv_u udp off inp (length inp) True (le_n _) He0) as IQ. fold s0 in IQ.
  destruct (i_cover _ I3 j Hmj) as [tcp [it [Hin Hidx]]].
  pose proof (sel_total_in _ _ _ Hin) as Hint.
  destruct (i_items _ _ _ I it Hint) as [Htw _].
  destruct (IQ tcp it Hin) as [[[Hhl [Hg1 [Hiph [Hhd [Htc [Hmz [Hml Hch]]]]]]] [Hhf Hlen]] Hu].
  destruct (i_bounds _ I3 tcp it Hin) as [Bg Bh].
  pose proof (members_length_merged _ _ Hmj) as Hlen2.
  rewrite Hidx in *.
  assert (Hmpos : 0 < it_merged it) by (unfold len in Hml; lia).
  assert (Hjlt : (N.to_nat j < length (s_bufs s0))%nat).
  { rewrite (i_tw _ _ _ I) in Htw. apply tw_of_bound in Htw. rewrite (i_tr _ _ _ I) in Htw. rewrite (i_len _ _ _ I). lia. }
  assert (Hfin : get_buf (account false (account true (s_bufs s0) (s_tcp s0)) (s_udp s0)) j = acc_buf tcp it (get_buf (s_bufs s0) j)).
  { rewrite !account_flat. pose proof (i_nodup _ _ I2) as Hn.
    destruct tcp; unfold sel in Hin.
    - rewrite fold_account_other.
      + rewrite <- Hidx. apply fold_account_get; [apply (sel_nodup s0 true Hn)|exact Hin|rewrite Hidx; exact Hjlt].
      + intros y Hy E. apply (sel_cross_idx s0 true it y Hn Hin Hy). congruence.
    - rewrite <- Hidx. rewrite fold_account_get; [|apply (sel_nodup s0 false Hn)|exact Hin|rewrite fold_account_length, Hidx; exact Hjlt].
      rewrite fold_account_other; [reflexivity|].
      intros y Hy E. apply (sel_cross_idx s0 false it y Hn Hin Hy). congruence. }
  rewrite Hfin.
  set (B := get_buf (s_bufs s0) j) in *. set (P := b_pkt B) in *.
  destruct (acc_buf_payload tcp it B Hmpos Hiph Htc Hhl) as [Hd [Hl Hh]].
  assert (Hdec0 : v_gso (dec_vhdr (b_hdr (acc_buf tcp it B))) = if tcp then (if it_v6 it then GSO_TCPV6 else GSO_TCPV4) else GSO_UDP_L4).
  { rewrite Hh, dec_enc_vhdr; [reflexivity|lia|lia| |destruct tcp; lia]. rewrite Hiph. destruct (it_v6 it); lia. }
  intros Hudp. rewrite Hdec0 in Hudp.
  destruct tcp; [destruct (it_v6 it); discriminate|]. clear Hudp Hdec0.
  destruct (Hu eq_refl) as [Hkey Hag].
  pose proof (acc_buf_bytes false it B Hmpos Hiph Htc Hhl Hlen) as Hb. cbn zeta in Hb. fold P in Hb, Hl, Hd.
  pose proof (acc_buf_udp_agree it B Hmpos Hiph Hhl Hlen) as HaFP. fold P in HaFP.
  set (F := b_pkt (acc_buf false it B)) in *.
  assert (HhF : hdr_facts false (it_v6 it) (it_tcph it) F) by (eapply hdr_facts_uagree; eauto).
  assert (Hgt : it_gso it < len P - hl_of false it).
  { rewrite <- len_drop. apply chunks_two; [exact Hg1|]. rewrite Hch, map_length. exact Hlen2. }
  assert (Hv6 : is_v6 F = it_v6 it).
  { unfold is_v6. destruct HhF as [F1 _]. rewrite F1. destruct (it_v6 it); reflexivity. }
  assert (Hl3 : l3_len F = len F).
  { unfold l3_len. rewrite Hv6, Hl. destruct Hb as [_ [B1 _]]. unfold hl_of in Hhl. rewrite Hiph in Hhl. destruct (it_v6 it).
    - destruct B1 as [_ B4]. rewrite B4. unfold UDPH, tun_udphLen in *. lia.
    - destruct B1 as [_ [_ [_ B4]]]. exact B4. }
  assert (Ehl : hl_of false it = (if it_v6 it then 40 else 20) + 8) by (unfold hl_of; rewrite Hiph; reflexivity).
  assert (Hdec : dec_vhdr (b_hdr (acc_buf false it B)) =
                 {| v_flags := K_NEEDS_CSUM; v_gso := K_GSO_UDP_L4;
                    v_hdrlen := hl_of false it; v_gsosize := it_gso it;
                    v_cstart := if it_v6 it then 40 else 20; v_coff := 6 |}).
  { rewrite Hh, Hiph. apply dec_enc_vhdr; [lia|lia| |lia]. destruct (it_v6 it); lia. }
  rewrite (kernel_segment_gso false (it_v6 it) _ F (hl_of false it) (it_gso it) Hdec Hv6 Hl3);
    [|rewrite Hl; lia|rewrite Ehl; lia|exact Hg1].
  rewrite Hd, Hch. rewrite Ehl.
  apply build_all_map. intros m Hm i lst.
  destruct (Hag m Hm) as [Gm Lm]. rewrite Hiph in Lm.
  destruct (seg_udp_agree (it_v6 it) (it_tcph it)
              {| v_flags := K_NEEDS_CSUM; v_gso := K_GSO_UDP_L4; v_hdrlen := (if it_v6 it then 40 else 20) + 8;
                 v_gsosize := it_gso it; v_cstart := if it_v6 it then 40 else 20; v_coff := 6 |}
              F (len F - (if it_v6 it then 40 else 20)) i (payload_of inp ((if it_v6 it then 40 else 20) + 8) m) lst
              eq_refl eq_refl eq_refl HhF ltac:(rewrite Hl, <- Ehl; exact Hhl)) as [Ls [Ps As]].
  set (sg := build_segment _ false _ _ i _ lst) in *.
  assert (Lpl : len (payload_of inp ((if it_v6 it then 40 else 20) + 8) m) = len (b_pkt (get_buf inp m)) - ((if it_v6 it then 40 else 20) + 8))
    by (unfold payload_of; apply len_drop).
  assert (Agree : uagree (it_v6 it) sg (b_pkt (get_buf inp m))).
  { eapply uagree_trans; [exact As|]. eapply uagree_trans; [exact HaFP|]. apply uagree_sym. exact Gm. }
  unfold canon. apply (canon_udp_eq (it_v6 it) (it_tcph it)).
  - eapply hdr_facts_uagree; [exact As|exact HhF].
  - eapply hdr_facts_uagree; [exact Gm|exact Hhf].
  - rewrite Ls. lia.
  - rewrite Ls, Lpl. lia.
  - exact Agree.
  - intros k Hk. rewrite Ps by exact Hk. unfold payload_of. rewrite byte_at_drop. f_equal. lia.
Qed.
Print Assumptions gro_udp_lossless.
