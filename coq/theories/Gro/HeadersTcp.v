(* Header-level losslessness for TCP flows (append and prepend): the segments the
   kernel makes of a coalesced TCP buffer equal the segments merged into it in
   every byte the property compares, including the sequence numbers
   (canon_gen with the IPv6 flow label and the PSH bit masked: the model loses
   them, findings F8 and gro-prepend-drops-psh). *)
From WG Require Import Base.Prelude Gen.Constants Gro.Bytes Gro.Model Gro.KernelSpec Gro.Spec Gro.Proofs Gro.Csum Gro.Headers.
Local Open Scope N_scope.

Definition U32' : N := 4294967296.

(* ------------------------------------------------- what the TCP tests give *)
Lemma tcp_can_all pkt iph tcph seq psh gso it target mode :
  tcp_can_coalesce pkt iph tcph seq psh gso it target = mode -> mode <> Unavail ->
  tcph = it_tcph it /\
  (20 < tcph -> slice pkt (iph + 20) (iph + tcph) = slice target (it_iph it + 20) (iph + tcph)) /\
  ip_headers_can_coalesce pkt target = true /\
  (mode = CanAppend -> seq = (it_seq it + (it_gso it + it_merged it * it_gso it) mod 65536) mod U32') /\
  (mode = CanPrepend -> (seq + gso) mod U32' = it_seq it).
Proof.
  unfold tcp_can_coalesce, U32, U32'. intros H Hne.
  destruct (N.eqb_spec tcph (it_tcph it)); cbn [negb] in H; [|congruence].
  destruct (N.ltb_spec 20 tcph); cbn [andb] in H.
  - destruct (list_eqb (slice pkt (iph + 20) (iph + tcph)) (slice target (it_iph it + 20) (iph + tcph))) eqn:Eo; cbn [negb] in H; [|congruence].
    apply list_eqb_eq in Eo.
    destruct (ip_headers_can_coalesce pkt target); cbn [negb] in H; [|congruence].
    refine (conj e (conj (fun _ => Eo) (conj eq_refl _))).
    destruct (N.eqb_spec seq ((it_seq it + (it_gso it + it_merged it * it_gso it) mod 65536) mod 4294967296)).
    + split; [auto|]. intros ->. destruct (it_psh it); [congruence|]. destruct (negb _); [congruence|]. destruct (_ <? _); congruence.
    + destruct (N.eqb_spec ((seq + gso) mod 4294967296) (it_seq it)); [|congruence].
      split; [|auto]. intros ->. destruct psh; [congruence|]. destruct (_ <? _); [congruence|]. destruct (_ && _); congruence.
  - destruct (ip_headers_can_coalesce pkt target); cbn [negb] in H; [|congruence].
    split; [exact e|]. split; [intros Hc; exfalso; lia|]. split; [reflexivity|].
    destruct (N.eqb_spec seq ((it_seq it + (it_gso it + it_merged it * it_gso it) mod 65536) mod 4294967296)).
    + split; [auto|]. intros ->. destruct (it_psh it); [congruence|]. destruct (negb _); [congruence|]. destruct (_ <? _); congruence.
    + destruct (N.eqb_spec ((seq + gso) mod 4294967296) (it_seq it)); [|congruence].
      split; [|auto]. intros ->. destruct psh; [congruence|]. destruct (_ <? _); [congruence|]. destruct (_ && _); congruence.
Qed.

(* equal TCP flow keys: equal addresses, ports and acknowledgement number *)
Lemma tcp_key_bytes a b (v6 : bool) (iph := if v6 then 40 else 20) :
  iph + 12 <= len a -> iph + 12 <= len b -> flow_key a v6 iph true = flow_key b v6 iph true ->
  forall k, ((if v6 then 8 else 12) <= k /\ k < iph + 4) \/ (iph + 8 <= k /\ k < iph + 12) -> byte_at a k = byte_at b k.
Proof.
  intros Ha Hb E k Hk. unfold flow_key in E. inversion E as [E']. clear E.
  apply app_inv_len in E' as [E1 E2].
  - apply app_inv_len in E2 as [E2 E3]; [|rewrite !len_slice; lia].
    destruct Hk as [[H1 H2]|[H1 H2]].
    + destruct (N.lt_ge_cases k iph).
      * apply (slice_eq_bytes a b _ _ E1 k); unfold tun_ipv6SrcAddrOffset, tun_ipv4SrcAddrOffset, iph in *; destruct v6; lia.
      * apply (slice_eq_bytes a b _ _ E2 k); lia.
    + apply (slice_eq_bytes a b _ _ E3 k); lia.
  - unfold tun_ipv6SrcAddrOffset, tun_ipv4SrcAddrOffset, iph in *. destruct v6; rewrite !len_slice; lia.
Qed.

(* ------------------------------------------------ header agreement (TCP) *)
Definition tmasked (v6 : bool) (k : N) : bool :=
  let iph := if v6 then 40 else 20 in
  umasked v6 k || ((iph + 4 <=? k) && (k <? iph + 8)) || ((iph + 12 <=? k) && (k <? iph + 20)).
Definition tagree (v6 : bool) (hl : N) (a b : list N) : Prop :=
  (forall k, k < hl -> tmasked v6 k = false -> byte_at a k = byte_at b k) /\
  (v6 = true -> byte_at a 1 / 16 = byte_at b 1 / 16) /\
  byte_at a ((if v6 then 40 else 20) + 12) / 16 = byte_at b ((if v6 then 40 else 20) + 12) / 16.

Lemma tmasked_false6 k : tmasked true k = false -> (k < 4 \/ 6 <= k) /\ (k < 44 \/ 48 <= k) /\ (k < 52 \/ 60 <= k).
Proof.
  unfold tmasked, umasked. rewrite !orb_false_iff, !andb_false_iff, !N.leb_gt, !N.ltb_ge. lia.
Qed.
Lemma tmasked_false4 k : tmasked false k = false -> (k < 2 \/ (6 <= k /\ k < 10) \/ 12 <= k) /\ (k < 24 \/ 28 <= k) /\ (k < 32 \/ 40 <= k).
Proof.
  unfold tmasked, umasked. rewrite !orb_false_iff, !andb_false_iff, !N.leb_gt, !N.ltb_ge. lia.
Qed.

Lemma tagree_refl v6 hl a : tagree v6 hl a a.
Proof. repeat split; auto. Qed.
Lemma tagree_sym v6 hl a b : tagree v6 hl a b -> tagree v6 hl b a.
Proof. intros [H1 [H2 H3]]. repeat split; [intros k Hk Hm; symmetry; auto|intros Hv; symmetry; auto|symmetry; auto]. Qed.
Lemma tagree_trans v6 hl a b c : tagree v6 hl a b -> tagree v6 hl b c -> tagree v6 hl a c.
Proof.
  intros [H1 [H2 H3]] [H4 [H5 H6]]. repeat split; [intros k Hk Hm; rewrite H1, H4; auto|intros Hv; rewrite H2, H5; auto|congruence].
Qed.
(* b' has the bytes of b below hl, except possibly the flags byte *)
Lemma tagree_ext (v6 : bool) hl a b b' : (if v6 then 40 else 20) + 20 <= hl ->
  (forall k, k < hl -> k <> (if v6 then 40 else 20) + 13 -> byte_at b' k = byte_at b k) -> tagree v6 hl a b -> tagree v6 hl a b'.
Proof.
  intros Hhl He [H1 [H2 H3]]. repeat split.
  - intros k Hk Hm. rewrite He; [auto|exact Hk|]. intros ->.
    destruct v6; [apply tmasked_false6 in Hm|apply tmasked_false4 in Hm]; lia.
  - intros Hv. rewrite He; [auto| |]; subst v6; lia.
  - rewrite He; [exact H3| |]; destruct v6; lia.
Qed.

Lemma tcp_merge_agree (v6 : bool) tcph hl a b :
  hl = (if v6 then 40 else 20) + tcph -> 20 <= tcph ->
  hdr_facts true v6 tcph a -> hdr_facts true v6 tcph b -> hl <= len a -> hl <= len b ->
  flow_key a v6 (if v6 then 40 else 20) true = flow_key b v6 (if v6 then 40 else 20) true ->
  ip_headers_can_coalesce a b = true ->
  (20 < tcph -> slice a ((if v6 then 40 else 20) + 20) hl = slice b ((if v6 then 40 else 20) + 20) hl) ->
  tagree v6 hl a b.
Proof.
  intros Ehl Ht [A1 [A2 [A3 A4]]] [B1 [B2 [B3 B4]]] La Lb Hk Hip Hopt.
  pose proof (ip_can_facts a b Hip) as Hf. rewrite A1 in Hf.
  pose proof (tcp_key_bytes a b v6 ltac:(destruct v6; lia) ltac:(destruct v6; lia) Hk) as Hkb.
  assert (Hob : forall k, (if v6 then 40 else 20) + 20 <= k -> k < hl -> byte_at a k = byte_at b k).
  { intros k H1 H2. apply (slice_eq_bytes a b _ _ (Hopt ltac:(lia)) k H1 H2). }
  specialize (A4 eq_refl). specialize (B4 eq_refl).
  assert (Hnib : byte_at a ((if v6 then 40 else 20) + 12) / 16 = byte_at b ((if v6 then 40 else 20) + 12) / 16) by lia.
  destruct v6.
  - cbn [N.eqb Pos.eqb] in Hf. destruct Hf as [E0 [E1 [E2 [E3 E7]]]]. refine (conj _ (conj (fun _ => f_equal (fun x => x / 16) E1) Hnib)).
    intros k Hkl Hm.
    destruct (N.eq_dec k 0) as [->|]; [exact E0|].
    destruct (N.eq_dec k 1) as [->|]; [exact E1|].
    destruct (N.eq_dec k 2) as [->|]; [exact E2|].
    destruct (N.eq_dec k 3) as [->|]; [exact E3|].
    destruct (N.eq_dec k 6) as [->|]; [rewrite A3, B3; reflexivity|].
    destruct (N.eq_dec k 7) as [->|]; [exact E7|].
    destruct (N.lt_ge_cases k (40 + 20)) as [Hlt|Hge]; [|apply Hob; lia].
    apply Hkb. apply tmasked_false6 in Hm. lia.
  - cbn [N.eqb Pos.eqb] in Hf. destruct Hf as [E1 [E6 E8]]. refine (conj _ (conj _ Hnib)); [|discriminate].
    destruct (A2 eq_refl) as [A5 [A6 A7]]. destruct (B2 eq_refl) as [B5 [B6 B7]].
    intros k Hkl Hm.
    destruct (N.eq_dec k 0) as [->|].
    { pose proof (N.div_mod (byte_at a 0) 16). pose proof (N.div_mod (byte_at b 0) 16). lia. }
    destruct (N.eq_dec k 1) as [->|]; [exact E1|].
    destruct (N.eq_dec k 6) as [->|]. { clear - A6 B6 E6. lia. }
    destruct (N.eq_dec k 7) as [->|]; [congruence|].
    destruct (N.eq_dec k 8) as [->|]; [exact E8|].
    destruct (N.eq_dec k 9) as [->|]; [rewrite A3, B3; reflexivity|].
    destruct (N.lt_ge_cases k (20 + 20)) as [Hlt|Hge]; [|apply Hob; lia].
    apply Hkb. apply tmasked_false4 in Hm. lia.
Qed.

(* ------------------------------------------------------ sequence numbers *)
Fixpoint seq_chain (inp : list buf) (iph hl : N) (s : N) (mem : list N) : Prop :=
  match mem with
  | [] => True
  | m :: r => be32 (b_pkt (get_buf inp m)) (iph + 4) mod U32' = s mod U32' /\
              seq_chain inp iph hl (s + len (payload_of inp hl m)) r
  end.
Definition tot (inp : list buf) (hl : N) (mem : list N) : N := len (concat (map (payload_of inp hl) mem)).

Lemma seq_chain_cong inp iph hl mem : forall s s', s mod U32' = s' mod U32' -> seq_chain inp iph hl s mem -> seq_chain inp iph hl s' mem.
Proof.
  induction mem as [|m r IH]; intros s s' E H; [exact I|]. cbn [seq_chain] in *. destruct H as [H1 H2].
  split; [congruence|]. eapply IH; [|exact H2].
  rewrite (N.add_mod s), (N.add_mod s'), E by (unfold U32'; lia). reflexivity.
Qed.
Lemma seq_chain_app inp iph hl a b : forall s,
  seq_chain inp iph hl s (a ++ b) <-> seq_chain inp iph hl s a /\ seq_chain inp iph hl (s + tot inp hl a) b.
Proof.
  induction a as [|m r IH]; intros s; cbn [app seq_chain].
  - unfold tot. cbn. rewrite N.add_0_r. tauto.
  - rewrite IH. unfold tot. cbn [map concat]. rewrite len_app, N.add_assoc. tauto.
Qed.

Lemma chunks_count n : 1 <= n -> forall l, len l mod n = 0 -> len l = n * N.of_nat (length (chunks n l)).
Proof.
  intros Hn l. remember (length l) as m eqn:Hm. revert l Hm.
  induction m as [m IH] using lt_wf_ind. intros l Hm Hmod.
  destruct l as [|x l'] eqn:El; [rewrite chunks_nil; cbn; lia|]. rewrite <- El in *.
  assert (Hne : l <> []) by (rewrite El; discriminate).
  assert (Hll : n <= len l).
  { assert (0 < len l) by (rewrite El; unfold len; cbn [length]; lia).
    destruct (N.le_gt_cases n (len l)); [assumption|]. rewrite N.mod_small in Hmod by assumption. lia. }
  rewrite chunks_unfold by auto. cbn [length].
  assert (Hd : len (drop n l) = len l - n) by apply len_drop.
  rewrite (IH (length (drop n l))) in Hd; auto.
  - lia.
  - unfold drop. rewrite skipn_length. subst m. unfold len in Hll. lia.
  - rewrite len_drop.
    assert (len l = n * (len l / n)) by (pose proof (N.div_mod (len l) n); lia).
    set (q := len l / n) in *. assert (1 <= q) by nia.
    replace (len l - n) with (n * (q - 1)) by nia. rewrite N.mul_comm. apply N.mod_mul. lia.
Qed.

Lemma coalesce_tcp_seq mode pkt pktI gso seq psh it bufs off v6 it' bufs' :
  coalesce_tcp mode pkt pktI gso seq psh it bufs off v6 = (Success, it', bufs') ->
  it_seq it' = if is_prepend mode then seq else it_seq it.
Proof.
  unfold coalesce_tcp. destruct (tun_maxUint16 <? _); [discriminate|]. destruct mode; cbn [is_prepend].
  1,2: destruct (no_room _ _ _); [discriminate|]; destruct (_ && _); [discriminate|];
       destruct (negb (checksum_valid pkt _ _ _)); [discriminate|]; intros H; inversion H; reflexivity.
  destruct (no_room _ _ _); [discriminate|]. destruct psh; [discriminate|].
  destruct (_ && _); [discriminate|]. destruct (negb (checksum_valid pkt _ _ _)); [discriminate|].
  intros H; inversion H; reflexivity.
Qed.

(* ---------------------------------------------- invariant over the loop *)
Definition flags_ok (p : list N) (iph : N) : Prop := byte_at p (iph + 13) = 16 \/ byte_at p (iph + 13) = 24.

(* PSH: only the last member of a buffer may carry it, and the buffer's flags byte is the last member's *)
Fixpoint psh_last (inp : list buf) (iph : N) (mem : list N) (f : N) : Prop :=
  match mem with
  | [] => True
  | [m] => byte_at (b_pkt (get_buf inp m)) (iph + 13) = f
  | m :: r => byte_at (b_pkt (get_buf inp m)) (iph + 13) = 16 /\ psh_last inp iph r f
  end.
Lemma psh_last_all16 inp iph mem : psh_last inp iph mem 16 -> forall m, In m mem -> byte_at (b_pkt (get_buf inp m)) (iph + 13) = 16.
Proof.
  induction mem as [|m r IH]; intros H x Hx; [destruct Hx|]. destruct r as [|m2 r2].
  - destruct Hx as [<-|[]]. exact H.
  - destruct H as [H1 H2]. destruct Hx as [<-|Hx]; [exact H1|]. apply IH; assumption.
Qed.
Lemma psh_last_snoc inp iph mem k f : (forall m, In m mem -> byte_at (b_pkt (get_buf inp m)) (iph + 13) = 16) ->
  byte_at (b_pkt (get_buf inp k)) (iph + 13) = f -> psh_last inp iph (mem ++ [k]) f.
Proof.
  induction mem as [|m r IH]; intros H Hk; [exact Hk|]. cbn [app]. destruct (r ++ [k]) as [|y z] eqn:E.
  - destruct r; discriminate.
  - change (byte_at (b_pkt (get_buf inp m)) (iph + 13) = 16 /\ psh_last inp iph (y :: z) f).
    split; [apply H; left; reflexivity|]. apply IH; [intros x Hx; apply H; right; exact Hx|exact Hk].
Qed.

Definition item_t (inp : list buf) (capsb : Prop) (tcp : bool) (it : item) (P : list N) (mem : list N) : Prop :=
  capsb -> tcp = true ->
  it_key it = flow_key P (it_v6 it) (it_iph it) true /\
  it_seq it mod U32' = be32 P (it_iph it + 4) mod U32' /\
  flags_ok P (it_iph it) /\
  it_psh it = (byte_at P (it_iph it + 13) =? 24) /\
  psh_last inp (it_iph it) mem (byte_at P (it_iph it + 13)) /\
  (forall m, In m mem -> tagree (it_v6 it) (hl_of true it) (b_pkt (get_buf inp m)) P /\
                         hl_of true it <= len (b_pkt (get_buf inp m)) /\ flags_ok (b_pkt (get_buf inp m)) (it_iph it)) /\
  seq_chain inp (it_iph it) (hl_of true it) (it_seq it) mem.
Definition item_ok4 (inp : list buf) (capsb : Prop) (tcp : bool) (it : item) (P : list N) (mem : list N) : Prop :=
  item_ok3 inp capsb tcp it P mem /\ item_t inp capsb tcp it P mem.

Lemma fresh_item_ok4 inp (capsb : Prop) tcp pkt k v6 new :
  fresh_item tcp pkt k v6 new -> pkt = b_pkt (get_buf inp k) -> item_ok4 inp capsb tcp new pkt [k].
Proof.
  intros Hf Hp. split; [eapply fresh_item_ok3; eauto|]. intros _ ->.
  destruct Hf as [_ [_ [Hv [_ [_ [Hl [_ [_ [_ [Hkey [_ Htf]]]]]]]]]]]. destruct (Htf eq_refl) as [Hs [Hfl [Hps _]]].
  rewrite Hv. refine (conj Hkey (conj _ (conj Hfl (conj Hps (conj _ (conj _ _)))))).
  - rewrite Hs. reflexivity.
  - cbn [psh_last]. rewrite <- Hp. reflexivity.
  - intros m [<-|[]]. rewrite <- Hp. refine (conj (tagree_refl _ _ _) (conj Hl Hfl)).
  - cbn [seq_chain]. rewrite <- Hp, Hs. auto.
Qed.

Lemma flags_lor p iph : flags_ok p iph -> N.lor (byte_at p (iph + 13)) 8 = 24.
Proof. intros [H|H]; rewrite H; reflexivity. Qed.

Lemma be32_ext a b i : (forall k, i <= k -> k < i + 4 -> byte_at a k = byte_at b k) -> be32 a i = be32 b i.
Proof. intros H. unfold be32. rewrite !H by lia. reflexivity. Qed.

Lemma slice_ext2 a b x y : y <= len a -> y <= len b -> (forall k, x <= k -> k < y -> byte_at a k = byte_at b k) -> slice a x y = slice b x y.
Proof.
  intros Ha Hb He. unfold slice. destruct (N.le_gt_cases x y) as [Hxy|Hxy]; [|replace (y - x) with 0 by lia; reflexivity].
  apply list_ext.
  - rewrite !len_take; rewrite ?len_drop; lia.
  - intros k Hk. rewrite len_take in Hk by (rewrite len_drop; lia). rewrite !byte_at_take, !byte_at_drop by lia. apply He; lia.
Qed.
Lemma flow_key_ext a b (v6 : bool) iph (tcp : bool) : iph + 12 <= len a -> iph + 12 <= len b ->
  (forall k, k < iph + 12 -> byte_at a k = byte_at b k) -> (if v6 then 40 else 20) <= iph ->
  flow_key a v6 iph tcp = flow_key b v6 iph tcp.
Proof.
  intros Hl Hlb He Hi. unfold flow_key. unfold tun_ipv6SrcAddrOffset, tun_ipv4SrcAddrOffset.
  f_equal. f_equal; [|f_equal; [|destruct tcp; [|reflexivity]]];
    (apply slice_ext2; [destruct v6; lia|destruct v6; lia|intros k H1 H2; apply He; destruct v6; lia]).
Qed.

Lemma lhs_eq g m n : m + 1 = n -> g * n <= 65535 -> (g + m * g) mod 65536 = g * n.
Proof. intros <- H. replace (g + m * g) with (g * (m + 1)) by ring. apply N.mod_small. lia. Qed.

(* keep arithmetic-heavy hypotheses out of lia's sight *)
Definition hide (P : Prop) : Prop := P.
Ltac hide H := let T := type of H in change (hide T) in H.
Ltac unhide H := unfold hide in H.

Lemma merge_item_ok4 inp off (capsb : Prop) tcp pkt k v6 p it it' bufs bufs' mem :
  True ->
  merged_ok tcp pkt k off v6 p it it' bufs bufs' ->
  pkt = b_pkt (get_buf inp k) -> b_pkt (get_buf bufs k) = pkt ->
  it_idx it <> k -> (N.to_nat (it_idx it) < length bufs)%nat ->
  item_ok4 inp capsb tcp it (b_pkt (get_buf bufs (it_idx it))) mem ->
  item_ok4 inp capsb tcp it' (b_pkt (get_buf bufs' (it_idx it))) (if p then k :: mem else mem ++ [k]).
Proof.
  intros HC Hmo Hpk Hbk Hne Hlt [Hok3 Ht].
  split; [eapply merge_item_ok3; eauto|]. intros Hcb ->. specialize (Ht Hcb eq_refl).
  destruct Ht as [Hkey [Hseq [Hfl [Hpsh [Hpl [Hag Hchain]]]]]].
  destruct Hok3 as [[[Hhl [Hg1 [Hiph [Hhd [Htc [Hmz [Hml Hch]]]]]]] [Hh Hlen]] _].
  destruct Hmo as [new [Hf [Hk2 [mode [Hp [Hmode [Hcan Hco]]]]]]].
  pose proof (merge_iph _ _ _ _ _ _ Hf Hk2 Hiph Hhd) as Hi.
  destruct Hf as [Hfi [Hfm [Hfv [Hfiph [Hft [Hfl0 [Hfg [Hfg1 [Hfmax [Hfkey [Hfh Htf]]]]]]]]]]].
  destruct (Htf eq_refl) as [Hns [Hnfl [Hnpsh _]]].
  assert (Hv : it_v6 it = v6) by (rewrite Hk2, Hfkey, flow_key_hd in Hhd; apply v6_flag_inj in Hhd; auto).
  destruct (coalesce_tcp_success _ _ _ _ _ _ _ _ _ _ _ _ Hco) as [[Sk [Sv [Si [Sip [St Sm]]]]] [Hb' [Hg' Hroom]]].
  pose proof (coalesce_tcp_seq _ _ _ _ _ _ _ _ _ _ _ _ Hco) as Sseq.
  pose proof (coalesce_tcp_psh _ _ _ _ _ _ _ _ _ _ _ _ Hco) as Spsh.
  destruct (tcp_can_all _ _ _ _ _ _ _ _ _ Hcan Hmode) as [Etc [Eopt [Eip [Eapp Epre]]]].
  set (P := b_pkt (get_buf bufs (it_idx it))) in *.
  hide Eapp. hide Epre. hide Hroom. hide Hg'. hide Hseq. hide Hchain. hide Hcan. hide Hco.
  unfold hl_of in *. rewrite Sip, St, Sv, Sk, Spsh.
  set (iph := it_iph it) in *. set (tcph := it_tcph it) in *.
  assert (Eiph : iph = if v6 then 40 else 20) by (rewrite <- Hv; exact Hiph).
  rewrite <- Hi in *. rewrite Etc in *. clear Hi Etc Hft.
  assert (Hplen : iph + tcph <= len pkt) by exact Hfl0.
  rewrite Hv in *.
  (* the new segment agrees with the buffer *)
  assert (Agree : tagree v6 (iph + tcph) pkt P).
  { apply (tcp_merge_agree v6 tcph); auto.
    - rewrite Eiph. reflexivity.
    - rewrite <- Eiph. rewrite <- Hfkey, <- Hk2. exact Hkey.
    - intros H20. rewrite <- Eiph. apply Eopt. exact H20. }
  destruct mode; [contradiction| |]; cbn [is_prepend] in *; subst p.
  - (* append *)
    rewrite Hb'. unfold tcp_merge_bufs. cbn [is_prepend]. rewrite get_set_buf_same by exact Hlt. cbn [with_pkt b_pkt]. fold P. fold iph tcph.
    change FLAGS_OFF with 13. change PSH with 8.
    set (head' := if it_psh new then put_byte P (iph + 13) (N.lor (byte_at P (iph + 13)) 8) else P).
    assert (Hfo : iph + 13 + 1 <= len P) by (clear - Hhl Htc; lia).
    assert (Hh1 : len head' = len P).
    { unfold head'. destruct (it_psh new); [|reflexivity]. apply len_put_byte. exact Hfo. }
    assert (Bh : forall q, q < iph + tcph -> q <> iph + 13 -> byte_at (head' ++ drop (iph + tcph) pkt) q = byte_at P q).
    { intros q Hq Hq13. rewrite byte_at_app_l by lia. unfold head'. destruct (it_psh new); [|reflexivity].
      rewrite byte_at_put_byte by exact Hfo. destruct (N.eqb_spec q (iph + 13)); [contradiction|reflexivity]. }
    assert (Hext : forall x, tagree v6 (iph + tcph) x P -> tagree v6 (iph + tcph) x (head' ++ drop (iph + tcph) pkt)).
    { intros x. apply tagree_ext; [lia|]. rewrite <- Eiph. exact Bh. }
    assert (Hnp : it_psh it = false) by (unhide Hcan; apply (tcp_can_append_facts _ _ _ _ _ _ _ _ Hcan)).
    assert (HP16 : byte_at P (iph + 13) = 16).
    { rewrite Hnp in Hpsh. destruct Hfl as [E|E]; [exact E|]. rewrite E in Hpsh. discriminate. }
    assert (Hfl' : byte_at (head' ++ drop (iph + tcph) pkt) (iph + 13) = byte_at pkt (iph + 13)).
    { rewrite byte_at_app_l by (rewrite Hh1; clear - Hfo; lia). unfold head'. rewrite Hnpsh.
      destruct Hnfl as [E|E]; rewrite E; cbn [N.eqb Pos.eqb]; [exact HP16|].
      rewrite byte_at_put_byte by exact Hfo. rewrite N.eqb_refl, HP16. reflexivity. }
    refine (conj _ (conj _ (conj _ (conj _ (conj _ (conj _ _)))))).
    + rewrite Hkey. symmetry. apply flow_key_ext.
      * rewrite len_app, Hh1. lia.
      * lia.
      * intros q Hq. apply Bh; lia.
      * rewrite Eiph. destruct v6; lia.
    + unhide Hseq. rewrite Sseq, Hseq. f_equal. apply be32_ext. intros q H1 H2. symmetry. apply Bh; lia.
    + unfold flags_ok. rewrite Hfl'. exact Hnfl.
    + rewrite Hfl', Hnp, <- Hnpsh. destruct (it_psh new); reflexivity.
    + rewrite Hfl'. apply psh_last_snoc; [|rewrite <- Hpk; reflexivity].
      apply psh_last_all16. rewrite <- HP16. exact Hpl.
    + intros m Hm. apply in_app_or in Hm as [Hm|[<-|[]]].
      * destruct (Hag m Hm) as [G1 [G2 G3]]. refine (conj (Hext _ G1) (conj G2 G3)).
      * rewrite <- Hpk. refine (conj (Hext _ Agree) (conj Hplen Hnfl)).
    + unhide Hchain. unhide Eapp. unhide Hcan. rewrite Sseq. apply seq_chain_app. split; [exact Hchain|]. cbn [seq_chain]. split; [|exact I].
      rewrite <- Hpk, <- Hns. rewrite (Eapp eq_refl). rewrite N.mod_mod by (unfold U32'; lia).
      f_equal. f_equal.
      (* the uint16 lhsLen is the number of payload bytes in the buffer *)
      destruct (tcp_can_append_facts _ _ _ _ _ _ _ _ Hcan) as [_ [Hmod _]]. fold P in Hmod.
      assert (Hd : drop (iph + tcph) P = concat (map (payload_of inp (iph + tcph)) mem)) by (rewrite <- Hch; symmetry; apply concat_chunks; exact Hg1).
      unfold tot. rewrite <- Hd.
      assert (Hc : len (drop (iph + tcph) P) = it_gso it * N.of_nat (length (chunks (it_gso it) (drop (iph + tcph) P)))).
      { apply chunks_count; [exact Hg1|]. rewrite len_drop. exact Hmod. }
      rewrite Hch, map_length in Hc. unfold len in Hml. rewrite Hc.
      apply lhs_eq; [exact Hml|]. rewrite <- Hc, len_drop. clear - Hlen. lia.
  - (* prepend *)
    rewrite Hb'. unfold tcp_merge_bufs. cbn [is_prepend].
    rewrite get_set_buf_same by (rewrite set_buf_length; exact Hlt). cbn [with_pkt b_pkt]. fold P. fold iph tcph.
    change FLAGS_OFF with 13. change PSH with 8.
    set (pkt' := if it_psh it then put_byte pkt (iph + 13) (N.lor (byte_at pkt (iph + 13)) 8) else pkt).
    assert (Hfo : iph + 13 + 1 <= len pkt) by (clear - Hplen Htc; lia).
    assert (Lp : len pkt' = len pkt) by (unfold pkt'; destruct (it_psh it); [apply len_put_byte; exact Hfo|reflexivity]).
    assert (Hnp : it_psh new = false) by (unhide Hcan; apply (tcp_can_prepend_facts _ _ _ _ _ _ _ _ Hcan)).
    assert (Hp16 : byte_at pkt (iph + 13) = 16).
    { rewrite Hnp in Hnpsh. destruct Hnfl as [E|E]; [exact E|]. rewrite E in Hnpsh. discriminate. }
    assert (Bp : forall q, q < iph + tcph -> q <> iph + 13 -> byte_at (pkt' ++ drop (iph + tcph) P) q = byte_at pkt q).
    { intros q Hq Hq13. rewrite byte_at_app_l by (rewrite Lp; clear - Hq Hplen; lia). unfold pkt'. destruct (it_psh it); [|reflexivity].
      rewrite byte_at_put_byte by exact Hfo. destruct (N.eqb_spec q (iph + 13)); [contradiction|reflexivity]. }
    assert (Hfl' : byte_at (pkt' ++ drop (iph + tcph) P) (iph + 13) = byte_at P (iph + 13)).
    { rewrite byte_at_app_l by (rewrite Lp; clear - Hfo; lia). unfold pkt'. rewrite Hpsh.
      destruct Hfl as [E|E]; rewrite E; cbn [N.eqb Pos.eqb]; [exact Hp16|].
      rewrite byte_at_put_byte by exact Hfo. rewrite N.eqb_refl, Hp16. reflexivity. }
    assert (Hext : forall x, tagree v6 (iph + tcph) x pkt -> tagree v6 (iph + tcph) x (pkt' ++ drop (iph + tcph) P)).
    { intros x. apply tagree_ext; [clear - Eiph Htc; lia|]. rewrite <- Eiph. exact Bp. }
    assert (Hlp : iph + 12 <= len pkt) by (clear - Hplen Htc; lia).
    refine (conj _ (conj _ (conj _ (conj _ (conj _ (conj _ _)))))).
    + rewrite Hk2, Hfkey. symmetry. apply flow_key_ext.
      * rewrite len_app, Lp. clear - Hlp. lia.
      * exact Hlp.
      * intros q Hq. apply Bp; clear - Hq Htc; lia.
      * rewrite Eiph. destruct v6; lia.
    + rewrite Sseq, Hns. f_equal. apply be32_ext. intros q H1 H2. symmetry. apply Bp; clear - H1 H2 Htc; lia.
    + unfold flags_ok. rewrite Hfl'. exact Hfl.
    + rewrite Hfl'. exact Hpsh.
    + rewrite Hfl'. destruct mem as [|m0 r0]; [cbn in Hml; clear - Hml; exfalso; lia|].
      change (psh_last inp iph (k :: m0 :: r0) (byte_at P (iph + 13))) with
        (byte_at (b_pkt (get_buf inp k)) (iph + 13) = 16 /\ psh_last inp iph (m0 :: r0) (byte_at P (iph + 13))).
      split; [rewrite <- Hpk; exact Hp16|exact Hpl].
    + intros m [<-|Hm].
      * rewrite <- Hpk. refine (conj (Hext _ (tagree_refl _ _ _)) (conj Hplen Hnfl)).
      * destruct (Hag m Hm) as [G1 [G2 G3]]. refine (conj (Hext _ _) (conj G2 G3)).
        eapply tagree_trans; [exact G1|]. apply tagree_sym. exact Agree.
    + unhide Hchain. unhide Epre. rewrite Sseq. cbn [seq_chain]. split.
      * rewrite <- Hpk, Hns. reflexivity.
      * eapply seq_chain_cong; [|exact Hchain].
        rewrite <- (Epre eq_refl). rewrite N.mod_mod by (unfold U32'; lia). f_equal. f_equal.
        unfold payload_of. rewrite <- Hpk, len_drop. exact Hfg.
Qed.

Lemma loop_inv_t udp off inp k (capsb : Prop) :
  (k <= length inp)%nat -> s_err (loop_k udp off inp k) = false ->
  allQ (item_ok4 inp capsb) (loop_k udp off inp k).
Proof.
  induction k as [|k IH]; intros Hk He.
  - intros tcp it H. destruct tcp; destruct H.
  - pose proof (loop_inv_all udp off inp k ltac:(lia)) as Hall.
    unfold loop_k in *. rewrite indices_S, fold_left_app in *. cbn [fold_left] in *. rewrite N.add_0_l in *.
    pose proof (err_sticky _ _ _ _ He) as He0. pose proof (IH ltac:(lia) He0) as IQ. destruct (Hall He0) as [I [I2 _]].
    destruct (gro_step_spec udp off _ (N.of_nat k) (i_kt _ _ _ I) (i_ku _ _ _ I) He0 (inv_range inp k _ (Nat.lt_le_incl _ _ Hk) I) He) as [bz [Hz [_ Hs]]].
    eapply (allQ_step inp off (item_ok4 inp capsb) (fun _ => True)); [| | |apply (inv_zero _ _ _ _ I Hz)|apply (i_nodup _ _ I2)|exact Logic.I|apply allQ_zero; [exact IQ|exact Hz]|exact Hs].
    + intros. eapply fresh_item_ok4; eauto.
    + intros. eapply merge_item_ok4; eauto.
    + lia.
Qed.

(* ------------------------- accounting and kernel keep the compared bytes *)
Lemma acc_buf_tcp_bytes (it : item) (b : buf) :
  0 < it_merged it -> it_iph it = (if it_v6 it then 40 else 20) -> 20 <= it_tcph it ->
  hl_of true it <= len (b_pkt b) -> len (b_pkt b) <= 65535 ->
  forall q, q < hl_of true it ->
    (if it_v6 it return Prop then q < 4 \/ 6 <= q else q < 2 \/ (4 <= q /\ q < 10) \/ 12 <= q) ->
    (q < it_iph it + 16 \/ it_iph it + 18 <= q) ->
    byte_at (b_pkt (acc_buf true it b)) q = byte_at (b_pkt b) q.
Proof.
  intros Hm Hiph Ht Hl Hmax q Hq Hq1 Hq2. unfold acc_buf. destruct (N.ltb_spec 0 (it_merged it)); [|lia]. cbn [b_pkt].
  unfold hl_of in *. destruct (it_v6 it); rewrite Hiph in *; set (P := b_pkt b) in *.
  - set (p1 := put_be16 P 4 ((len P - 40) mod 65536)).
    assert (L1 : len p1 = len P) by (apply put_be16_len; lia).
    rewrite byte_at_put_be16_other by lia. unfold p1. apply byte_at_put_be16_other; lia.
  - set (p1 := put_bytes P 10 [0; 0]).
    assert (L1 : len p1 = len P) by (apply len_put_bytes; cbn [len length N.of_nat]; lia).
    set (p2 := put_be16 p1 2 (len P mod 65536)).
    assert (L2 : len p2 = len P) by (unfold p2; rewrite put_be16_len; lia).
    set (p3 := put_be16 p2 10 (cnot16 (checksum (take 20 p2) 0))).
    assert (L3 : len p3 = len P) by (unfold p3; rewrite put_be16_len; lia).
    rewrite byte_at_put_be16_other by lia. unfold p3. rewrite byte_at_put_be16_other by lia.
    unfold p2. rewrite byte_at_put_be16_other by lia. unfold p1. apply byte_at_put_bytes_other; cbn [len length N.of_nat]; lia.
Qed.

Lemma seg_tcp_bytes (v6 : bool) (tcph : N) (v : vhdr) (F : list N) (ltot i : N) (seg : list N) (lst : bool) :
  let iph := if v6 then 40 else 20 in
  let hl := iph + tcph in
  v_cstart v = iph -> v_coff v = 16 -> v_hdrlen v = hl -> 20 <= tcph ->
  hdr_facts true v6 tcph F -> hl <= len F ->
  let s := build_segment v true (take hl F) ltot i seg lst in
  len s = hl + len seg /\ (forall k, hl <= k -> byte_at s k = byte_at seg (k - hl)) /\
  (forall q, q < hl -> (if v6 return Prop then q < 4 \/ 6 <= q else q < 2 \/ (6 <= q /\ q < 10) \/ 12 <= q) ->
             (q < iph + 4 \/ iph + 8 <= q) -> q <> iph + 13 -> (q < iph + 16 \/ iph + 18 <= q) -> byte_at s q = byte_at F q) /\
  (forall j, j < 4 -> byte_at s (iph + 4 + j) = byte_at (enc_be32 ((be32 F (iph + 4) + i * v_gsosize v) mod 4294967296)) j) /\
  byte_at s (iph + 13) = (if lst then byte_at F (iph + 13) else N.land (byte_at F (iph + 13)) 246).
Proof.
  intros iph hl Hcs Hco Hhl Ht [F1 _] Hlf s. subst s.
  set (H := take hl F).
  assert (LH : len H = hl) by (apply len_take; exact Hlf).
  assert (Hiph : 20 <= iph /\ iph <= 40) by (unfold iph; destruct v6; lia).
  assert (BH : forall k, k < hl -> byte_at H k = byte_at F k) by (intros k Hk; apply byte_at_take; exact Hk).
  assert (Hv6 : is_v6 H = v6).
  { unfold is_v6. rewrite BH by (unfold hl; lia). rewrite F1. destruct v6; reflexivity. }
  rewrite build_segment_eq. cbv zeta. rewrite Hv6, Hcs, Hco, Hhl.
  set (slen := hl + len seg).
  set (h1 := seg_h1 v6 H iph slen i).
  assert (Lh1 : len h1 = hl) by (unfold h1; rewrite seg_h1_len; unfold hl in *; lia).
  unfold seg_h2. rewrite Hcs.
  assert (EH : be32 H (iph + 4) = be32 F (iph + 4)) by (apply be32_ext; intros k H1 H2; apply BH; unfold hl; lia).
  rewrite EH.
  set (X := (be32 F (iph + 4) + i * v_gsosize v) mod 4294967296).
  set (a := put_bytes h1 (iph + 4) (enc_be32 X)).
  assert (La : len a = hl) by (unfold a; rewrite len_put_bytes; [exact Lh1|]; rewrite len_enc_be32; unfold hl in *; lia).
  set (h2 := if lst then a else put_byte a (iph + 13) (N.land (byte_at a (iph + 13)) 246)).
  assert (Lh2 : len h2 = hl) by (unfold h2; destruct lst; [exact La|]; rewrite len_put_byte; unfold hl in *; lia).
  set (h3 := put_bytes h2 (iph + 16) [0; 0]).
  assert (Lh3 : len h3 = hl) by (unfold h3; rewrite len_put_bytes; [exact Lh2|]; change (len [0; 0]) with 2; unfold hl in *; lia).
  set (c' := seg_c v true H h2 ltot slen seg).
  set (Hs := put_be16 h3 (iph + 16) c').
  assert (LHs : len Hs = hl) by (unfold Hs; rewrite put_be16_len; unfold hl in *; lia).
  assert (Ba : forall q, q < hl -> (q < iph + 16 \/ iph + 18 <= q) -> byte_at (Hs ++ seg) q = byte_at h2 q).
  { intros q Hq Hq2. rewrite byte_at_app_l by lia. unfold Hs. rewrite byte_at_put_be16_other by (unfold hl in *; lia).
    unfold h3. apply byte_at_put_bytes_other; change (len [0; 0]) with 2; unfold hl in *; lia. }
  assert (Bb : forall q, q < hl -> q <> iph + 13 -> byte_at h2 q = byte_at a q).
  { intros q Hq Hq13. unfold h2. destruct lst; [reflexivity|]. rewrite byte_at_put_byte by (unfold hl in *; lia).
    destruct (N.eqb_spec q (iph + 13)); [contradiction|reflexivity]. }
  assert (Bh1 : forall q, q < hl -> (if v6 return Prop then q < 4 \/ 6 <= q else q < 2 \/ (6 <= q /\ q < 10) \/ 12 <= q) -> byte_at h1 q = byte_at F q).
  { intros q Hq Hq1. unfold h1. rewrite seg_h1_byte by (try exact Hq1; unfold hl in *; lia). apply BH. exact Hq. }
  refine (conj _ (conj _ (conj _ (conj _ _)))).
  - rewrite len_app, LHs. reflexivity.
  - intros k Hk. rewrite byte_at_app_r by lia. rewrite LHs. reflexivity.
  - intros q Hq Hq1 Hq4 Hq13 Hq16. rewrite Ba, Bb by assumption. unfold a.
    rewrite byte_at_put_bytes_other by (rewrite len_enc_be32; unfold hl in *; lia). apply Bh1; assumption.
  - intros j Hj. rewrite Ba by (unfold hl in *; lia). rewrite Bb by (unfold hl in *; lia). unfold a.
    rewrite byte_at_put_bytes by (rewrite len_enc_be32; unfold hl in *; lia). rewrite len_enc_be32.
    destruct (N.ltb_spec (iph + 4 + j) (iph + 4)); [lia|]. destruct (N.ltb_spec (iph + 4 + j) (iph + 4 + 4)); [|lia].
    f_equal. lia.
  - rewrite Ba by (unfold hl in *; lia). unfold h2.
    assert (Ea : byte_at a (iph + 13) = byte_at F (iph + 13)).
    { unfold a. rewrite byte_at_put_bytes_other by (rewrite len_enc_be32; unfold hl in *; lia). apply Bh1; [unfold hl in *; lia|]. destruct v6; unfold iph; lia. }
    destruct lst; [exact Ea|]. rewrite byte_at_put_byte by (unfold hl in *; lia). rewrite N.eqb_refl, Ea. reflexivity.
Qed.

(* ------------------------------------- canon of a TCP segment, bytewise *)
Definition tcanon_byte (v6 : bool) (p : list N) (k : N) : N :=
  let iph := if v6 then 40 else 20 in
  if (iph + 14 <=? k) && (k <? iph + 20) then 0
  else if k =? iph + 12 then (byte_at p (iph + 12) / 16) * 16
  else if v6 then (if (4 <=? k) && (k <? 6) then 0 else byte_at p k)
  else if ((2 <=? k) && (k <? 6)) || ((10 <=? k) && (k <? 12)) then 0 else byte_at p k.

Lemma canon_tcp (v6 : bool) tcph p :
  hdr_facts true v6 tcph p -> (if v6 then 40 else 20) + 20 <= len p ->
  len (canon p) = len p /\ forall k, byte_at (canon p) k = tcanon_byte v6 p k.
Proof.
  intros Hf Hl. unfold canon, canon_gen. rewrite (l3_parse_of_facts true v6 tcph p Hf) by (destruct v6; lia).
  change (6 =? 6) with true. cbn [andb].
  destruct (N.leb_spec ((if v6 then 40 else 20) + 20) (len p)); [|lia].
  destruct v6; cbn [andb].
  - set (a := zero_at p 4 2). assert (La : len a = len p) by apply len_zero_at.
    set (b := put_byte a (40 + 12) (byte_at a (40 + 12) / 16 * 16)). assert (Lb : len b = len p) by (unfold b; rewrite len_put_byte; lia).
    split; [rewrite len_zero_at; exact Lb|].
    assert (Ba : forall k, byte_at a k = if (4 <=? k) && (k <? 6) then 0 else byte_at p k).
    { intros k. unfold a. rewrite byte_at_zero_at by lia. reflexivity. }
    intros k. rewrite byte_at_zero_at by lia. unfold tcanon_byte. change (40 + 14 + 6) with (40 + 20).
    destruct ((40 + 14 <=? k) && (k <? 40 + 20)); [reflexivity|].
    unfold b. rewrite byte_at_put_byte by lia. destruct (N.eqb_spec k (40 + 12)) as [->|Hk12]; [rewrite Ba; reflexivity|apply Ba].
  - set (a0 := zero_at p 2 4). assert (La0 : len a0 = len p) by apply len_zero_at.
    set (a := zero_at a0 10 2). assert (La : len a = len p) by (unfold a; rewrite len_zero_at; exact La0).
    set (b := put_byte a (20 + 12) (byte_at a (20 + 12) / 16 * 16)). assert (Lb : len b = len p) by (unfold b; rewrite len_put_byte; lia).
    split; [rewrite len_zero_at; exact Lb|].
    assert (Ba : forall k, byte_at a k = if ((2 <=? k) && (k <? 6)) || ((10 <=? k) && (k <? 12)) then 0 else byte_at p k).
    { intros k. unfold a. rewrite byte_at_zero_at by lia. unfold a0. rewrite byte_at_zero_at by lia.
      destruct (N.leb_spec 2 k), (N.ltb_spec k (2 + 4)), (N.leb_spec 10 k), (N.ltb_spec k (10 + 2)), (N.ltb_spec k 6), (N.ltb_spec k 12);
        cbn [andb orb]; try reflexivity; lia. }
    intros k. rewrite byte_at_zero_at by lia. unfold tcanon_byte. change (20 + 14 + 6) with (20 + 20).
    destruct ((20 + 14 <=? k) && (k <? 20 + 20)); [reflexivity|].
    unfold b. rewrite byte_at_put_byte by lia. destruct (N.eqb_spec k (20 + 12)) as [->|Hk12]; [rewrite Ba; reflexivity|apply Ba].
Qed.

Lemma canon_tcp_eq (v6 : bool) tcph a b :
  let iph := if v6 then 40 else 20 in
  hdr_facts true v6 tcph a -> hdr_facts true v6 tcph b -> 20 <= tcph ->
  iph + tcph <= len a -> len a = len b -> tagree v6 (iph + tcph) a b ->
  (forall q, iph + 4 <= q -> q < iph + 8 -> byte_at a q = byte_at b q) ->
  byte_at a (iph + 13) = byte_at b (iph + 13) ->
  (forall k, iph + tcph <= k -> byte_at a k = byte_at b k) ->
  canon a = canon b.
Proof.
  intros iph Ha Hb Ht Hl Hlen [Hu1 [Hu2 Hu3]] Hseq Hfl Hpay.
  destruct (canon_tcp v6 tcph a Ha ltac:(fold iph; lia)) as [La Ba]. destruct (canon_tcp v6 tcph b Hb ltac:(fold iph; lia)) as [Lb Bb].
  apply list_ext; [lia|]. intros k _. rewrite Ba, Bb. unfold tcanon_byte. fold iph.
  destruct ((iph + 14 <=? k) && (k <? iph + 20)) eqn:E1; [reflexivity|].
  destruct (N.eqb_spec k (iph + 12)); [fold iph in Hu3; rewrite Hu3; reflexivity|].
  assert (Hmain : umasked v6 k = false -> byte_at a k = byte_at b k).
  { intros Hm. destruct (N.lt_ge_cases k (iph + tcph)) as [Hlt|Hge]; [|apply Hpay; exact Hge].
    destruct (N.eq_dec k (iph + 13)) as [->|H13]; [exact Hfl|].
    destruct (N.le_gt_cases (iph + 4) k) as [H4|H4].
    - destruct (N.lt_ge_cases k (iph + 8)) as [H8|H8]; [apply Hseq; assumption|].
      apply Hu1; [exact Hlt|]. unfold tmasked. fold iph. rewrite Hm.
      destruct (N.leb_spec (iph + 4) k), (N.ltb_spec k (iph + 8)), (N.leb_spec (iph + 12) k), (N.ltb_spec k (iph + 20)); cbn [andb orb]; try reflexivity; try lia.
    - apply Hu1; [exact Hlt|]. unfold tmasked. fold iph. rewrite Hm.
      destruct (N.leb_spec (iph + 4) k), (N.ltb_spec k (iph + 8)), (N.leb_spec (iph + 12) k), (N.ltb_spec k (iph + 20)); cbn [andb orb]; try reflexivity; lia. }
  unfold umasked in Hmain. destruct v6.
  - destruct ((4 <=? k) && (k <? 6)) eqn:E2; [reflexivity|]. apply Hmain. reflexivity.
  - destruct (((2 <=? k) && (k <? 6)) || ((10 <=? k) && (k <? 12))) eqn:E2; [reflexivity|]. apply Hmain. reflexivity.
Qed.

(* --------------------------------------------------- bytes below 256 *)
Definition bytes_ok (inp : list buf) : Prop := forall b, In b inp -> forall x, In x (b_pkt b) -> x < 256.
Lemma byte_at_lt256 inp m q : bytes_ok inp -> byte_at (b_pkt (get_buf inp m)) q < 256.
Proof.
  intros H. unfold get_buf. destruct (nth_in_or_default (N.to_nat m) inp dummy_buf) as [Hi|Hi].
  - unfold byte_at. destruct (nth_in_or_default (N.to_nat q) (b_pkt (nth (N.to_nat m) inp dummy_buf)) 0) as [Hj|Hj].
    + eapply H; eauto.
    + rewrite Hj. lia.
  - rewrite Hi. unfold byte_at. cbn. destruct (N.to_nat q); cbn; lia.
Qed.

Lemma be32_bytes l i : (forall j, j < 4 -> byte_at l (i + j) < 256) ->
  be32 l i < 4294967296 /\ forall j, j < 4 -> byte_at l (i + j) = byte_at (enc_be32 (be32 l i)) j.
Proof.
  intros H. pose proof (H 0 ltac:(lia)) as H0. pose proof (H 1 ltac:(lia)) as H1. pose proof (H 2 ltac:(lia)) as H2. pose proof (H 3 ltac:(lia)) as H3.
  rewrite N.add_0_r in H0. replace (i + 1 + 1) with (i + 2) in * by lia.
  unfold be32. replace (i + 2) with (i + 1 + 1) by lia. replace (i + 3) with (i + 1 + 1 + 1) by lia.
  replace (i + 1 + 1) with (i + 2) in * by lia. replace (i + 2 + 1) with (i + 3) in * by lia.
  set (b0 := byte_at l i) in *. set (b1 := byte_at l (i + 1)) in *. set (b2 := byte_at l (i + 2)) in *. set (b3 := byte_at l (i + 3)) in *.
  split; [lia|]. intros j Hj. unfold enc_be32, byte_at at 2.
  assert (E0 : ((b0 * 256 + b1) * 256 + b2) * 256 + b3 = b0 * 16777216 + b1 * 65536 + b2 * 256 + b3) by lia.
  rewrite E0. clear E0.
  destruct (N.eq_dec j 0) as [->|]; [rewrite N.add_0_r; fold b0; change (N.to_nat 0) with 0%nat; cbn [nth]; lia|].
  destruct (N.eq_dec j 1) as [->|]; [fold b1; change (N.to_nat 1) with 1%nat; cbn [nth]; lia|].
  destruct (N.eq_dec j 2) as [->|]; [fold b2; change (N.to_nat 2) with 2%nat; cbn [nth]; lia|].
  assert (j = 3) by lia. subst j. fold b3. change (N.to_nat 3) with 3%nat. cbn [nth]. lia.
Qed.

Lemma mod_add_step s a g : s mod U32' = a mod U32' -> (s + g) mod U32' = (a + g) mod U32'.
Proof. intros H. rewrite (N.add_mod s), (N.add_mod a), H by (unfold U32'; lia). reflexivity. Qed.

Lemma flags_mask x : x = 16 \/ x = 24 -> N.land x 247 = 16 /\ N.land (N.land x 246) 247 = 16.
Proof. intros [->| ->]; split; reflexivity. Qed.

(* the header facts follow the compared bytes *)
Lemma hdr_facts_tagree (v6 : bool) tcph hl a b : (if v6 then 40 else 20) + 20 <= hl ->
  tagree v6 hl a b -> hdr_facts true v6 tcph b -> hdr_facts true v6 tcph a.
Proof.
  intros Hhl [H1 [_ H3]] [F1 [F2 [F3 F4]]]. unfold hdr_facts.
  assert (E : forall k, (k = 0 \/ (v6 = false /\ (k = 6 \/ k = 7 \/ k = 9)) \/ (v6 = true /\ k = 6)) -> byte_at a k = byte_at b k).
  { intros k Hk. apply H1; [destruct v6; lia|]. unfold tmasked, umasked.
    destruct v6; destruct Hk as [->|[[Hv Hk]|[Hv Hk]]]; try discriminate; try reflexivity;
      [subst k; reflexivity|destruct Hk as [->|[->| ->]]; reflexivity]. }
  rewrite (E 0) by (left; reflexivity). refine (conj F1 (conj _ (conj _ _))).
  - intros ->. rewrite (E 6) by (right; left; split; [reflexivity|left; reflexivity]).
    rewrite (E 7) by (right; left; split; [reflexivity|right; left; reflexivity]). apply F2. reflexivity.
  - destruct v6; [rewrite (E 6) by (right; right; split; reflexivity)|rewrite (E 9) by (right; left; split; [reflexivity|right; right; reflexivity])]; exact F3.
  - intros _. rewrite H3. apply F4. reflexivity.
Qed.

Section TcpAssembly.
  Variables (inp : list buf) (v6 : bool) (tcph : N) (v : vhdr) (F : list N) (ltot : N).
  Let iph := if v6 then 40 else 20.
  Let hl := iph + tcph.
  Let g := v_gsosize v.
  Let pl := payload_of inp hl.
  Hypothesis Hbytes : bytes_ok inp.
  Hypothesis Hcs : v_cstart v = iph.
  Hypothesis Hco : v_coff v = 16.
  Hypothesis Hhl : v_hdrlen v = hl.
  Hypothesis Ht : 20 <= tcph.
  Hypothesis HhF : hdr_facts true v6 tcph F.
  Hypothesis Hlf : hl <= len F.
  Hypothesis HflF : flags_ok F iph.
  Hypothesis Hg1 : 1 <= g.

  Definition member_ok (m : N) : Prop :=
    tagree v6 hl (b_pkt (get_buf inp m)) F /\ hl <= len (b_pkt (get_buf inp m)) /\ flags_ok (b_pkt (get_buf inp m)) iph.

  Lemma tcp_segment_canon m i lst :
    member_ok m -> byte_at (b_pkt (get_buf inp m)) (iph + 13) = (if lst : bool then byte_at F (iph + 13) else 16) ->
    be32 (b_pkt (get_buf inp m)) (iph + 4) mod U32' = (be32 F (iph + 4) + i * g) mod U32' ->
    canon (build_segment v true (take hl F) ltot i (pl m) lst) = canon (b_pkt (get_buf inp m)).
  Proof.
    intros [Ag [Lm Fm]] Hfm Hseq.
    destruct (seg_tcp_bytes v6 tcph v F ltot i (pl m) lst Hcs Hco Hhl Ht HhF Hlf) as [Ls [Ps [Bs [Sq Fl]]]].
    fold iph hl in Ls, Ps, Bs, Sq, Fl. fold g in Sq.
    set (sg := build_segment v true (take hl F) ltot i (pl m) lst) in *.
    set (M := b_pkt (get_buf inp m)) in *.
    assert (Lpl : len (pl m) = len M - hl) by (unfold pl, payload_of; apply len_drop).
    (* the segment agrees with the buffer on the compared header bytes *)
    assert (AsF : tagree v6 hl sg F).
    { refine (conj _ (conj _ _)).
      - intros k Hk Hm. apply Bs; [exact Hk| | | |]; unfold iph in *;
          (destruct v6; [apply tmasked_false6 in Hm|apply tmasked_false4 in Hm]; lia).
      - intros ->. rewrite Bs; [reflexivity| | | | |]; unfold hl, iph in *; lia.
      - fold iph. rewrite Bs; [reflexivity| | | | |]; unfold hl, iph in *; destruct v6; lia. }
    apply (canon_tcp_eq v6 tcph); fold iph; fold hl.
    - eapply (hdr_facts_tagree v6 tcph hl); [unfold hl; fold iph; lia|exact AsF|exact HhF].
    - eapply (hdr_facts_tagree v6 tcph hl); [unfold hl; fold iph; lia|exact Ag|exact HhF].
    - exact Ht.
    - rewrite Ls. lia.
    - rewrite Ls, Lpl. lia.
    - eapply tagree_trans; [exact AsF|]. apply tagree_sym. exact Ag.
    - (* sequence number *)
      intros q H1 H2.
      destruct (be32_bytes M (iph + 4) (fun j _ => byte_at_lt256 inp m (iph + 4 + j) Hbytes)) as [Hb32 Hbb].
      assert (EX : be32 M (iph + 4) = (be32 F (iph + 4) + i * g) mod 4294967296).
      { change 4294967296 with U32'. rewrite <- Hseq. symmetry. apply N.mod_small. exact Hb32. }
      replace q with (iph + 4 + (q - (iph + 4))) by lia.
      rewrite Sq by lia. rewrite Hbb by lia. rewrite EX. reflexivity.
    - (* flags *)
      fold M in Hfm. rewrite Fl, Hfm. destruct lst; [reflexivity|]. destruct HflF as [E|E]; rewrite E; reflexivity.
    - intros k Hk. rewrite Ps by exact Hk. unfold pl, payload_of. rewrite byte_at_drop. f_equal. lia.
  Qed.

  Lemma tcp_build_all_canon : forall mem X i s,
    chunks g X = map pl mem -> seq_chain inp iph hl s mem ->
    s mod U32' = (be32 F (iph + 4) + i * g) mod U32' ->
    psh_last inp iph mem (byte_at F (iph + 13)) ->
    (forall m, In m mem -> member_ok m) ->
    map canon (build_all v true (take hl F) ltot i (map pl mem)) =
    map (fun m => canon (b_pkt (get_buf inp m))) mem.
  Proof.
    induction mem as [|m r IH]; intros X i s Hch Hchain Hs Hpsh Hmem; [reflexivity|].
    cbn [map build_all]. cbn [seq_chain] in Hchain. destruct Hchain as [Hc1 Hc2].
    f_equal.
    - apply tcp_segment_canon; [apply Hmem; left; reflexivity| |rewrite Hc1; exact Hs].
      destruct r as [|m2 r2]; [exact Hpsh|exact (proj1 Hpsh)].
    - destruct r as [|m2 r2]; [reflexivity|].
      assert (HX : X <> []) by (intros ->; rewrite chunks_nil in Hch; discriminate).
      rewrite chunks_unfold in Hch by auto. cbn [map] in Hch. inversion Hch as [[E1 E2]].
      assert (Hne : drop g X <> []) by (intros E; rewrite E, chunks_nil in E2; discriminate).
      assert (Hlen : len (pl m) = g).
      { rewrite <- E1. apply len_take. destruct (N.le_gt_cases g (len X)); [assumption|].
        exfalso. apply Hne. apply drop_all. lia. }
      apply (IH (drop g X) (i + 1) (s + len (pl m))).
      + exact E2.
      + exact Hc2.
      + rewrite Hlen. replace (be32 F (iph + 4) + (i + 1) * g) with (be32 F (iph + 4) + i * g + g) by lia.
        apply mod_add_step. exact Hs.
      + exact (proj2 Hpsh).
      + intros m' Hm'. apply Hmem. right. exact Hm'.
  Qed.
End TcpAssembly.

(* ------------------------ theorem: TCP flows are lossless, header and all *)
(* For input bytes below 256: the segments the kernel makes of a coalesced TCP buffer
   are, in sequence order, the segments merged into it (appended or prepended) --
   equal in every byte the property compares (canon): addresses, ports, sequence and
   acknowledgement numbers, data offset, the flags byte incl. PSH, options, payload,
   IP header fields incl. the IPv6 flow label, other than length, IPv4 ID and checksums;
   TCP window, checksum, reserved bits and urgent pointer are not compared.
   PSH: only the last member of a buffer can carry it (PSH ends appending, and a segment
   with PSH is never prepended); the buffer's header carries the last member's PSH (on
   prepend it is carried over, ad814da) and the kernel puts it on the last segment only. *)
Theorem gro_tcp_lossless : forall (canUDP : bool) (offset : N) (bufs : list buf) (j : N),
  bytes_ok bufs ->
  let s := handle_gro canUDP offset bufs in
  s_err s = false -> merged_into (s_trace s) j ->
  let b := get_buf (s_bufs s) j in
  v_gso (dec_vhdr (b_hdr b)) <> GSO_UDP_L4 ->
  map canon (kernel_segment (b_hdr b) (b_pkt b)) =
  map (fun m => canon (b_pkt (get_buf bufs m))) (members (s_trace s) j).
Proof.
  intros udp off inp j Hbytes s He. subst s. unfold handle_gro in *. rewrite gro_loop_is in *.
  set (s0 := loop_k udp off inp (length inp)) in *.
  assert (He0 : s_err s0 = false) by (destruct (s_err s0) eqn:E; [cbn iota in He; congruence|reflexivity]).
  rewrite He0 in *. cbn [s_trace s_tw s_bufs]. intros Hmj.
  destruct (loop_inv_all udp off inp (length inp) (le_n _) He0) as [I [I2 I3]]. fold s0 in I, I2, I3.
  pose proof (loop_inv_t udp off inp (length inp) True (le_n _) He0) as IQ. fold s0 in IQ.
  destruct (i_cover _ I3 j Hmj) as [tcp [it [Hin Hidx]]].
  pose proof (sel_total_in _ _ _ Hin) as Hint.
  destruct (i_items _ _ _ I it Hint) as [Htw _].
  destruct (IQ tcp it Hin) as [[[[Hhl [Hg1 [Hiph [Hhd [Htc [Hmz [Hml Hch]]]]]]] [Hhf Hlen]] _] Htt].
  destruct (i_bounds _ I3 tcp it Hin) as [Bg Bh].
  pose proof (members_length_merged _ _ Hmj) as Hlen2.
  rewrite Hidx in *.
  assert (Hmpos : 0 < it_merged it) by (unfold len in Hml; lia).
  assert (Hjlt : (N.to_nat j < length (s_bufs s0))%nat).
  { rewrite (i_tw _ _ _ I) in Htw. apply tw_of_bound in Htw. rewrite (i_tr _ _ _ I) in Htw. rewrite (i_len _ _ _ I). lia. }
  assert (Hfin : get_buf (account false (account true (s_bufs s0) (s_tcp s0)) (s_udp s0)) j = acc_buf tcp it (get_buf (s_bufs s0) j)).
  { rewrite !account_flat. pose proof (i_nodup _ _ I2) as Hn.
    destruct tcp; unfold sel in Hin.
    - rewrite fold_account_other.
      + rewrite <- Hidx. apply fold_account_get; [apply (sel_nodup s0 true Hn)|exact Hin|rewrite Hidx; exact Hjlt].
      + intros y Hy E. apply (sel_cross_idx s0 true it y Hn Hin Hy). congruence.
    - rewrite <- Hidx. rewrite fold_account_get; [|apply (sel_nodup s0 false Hn)|exact Hin|rewrite fold_account_length, Hidx; exact Hjlt].
      rewrite fold_account_other; [reflexivity|].
      intros y Hy E. apply (sel_cross_idx s0 false it y Hn Hin Hy). congruence. }
  rewrite Hfin.
  set (B := get_buf (s_bufs s0) j) in *. set (P := b_pkt B) in *.
  destruct (acc_buf_payload tcp it B Hmpos Hiph Htc Hhl) as [Hd [Hl Hh]].
  assert (Hdec0 : v_gso (dec_vhdr (b_hdr (acc_buf tcp it B))) = if tcp then (if it_v6 it then GSO_TCPV6 else GSO_TCPV4) else GSO_UDP_L4).
  { rewrite Hh, dec_enc_vhdr; [reflexivity|lia|lia| |destruct tcp; lia]. rewrite Hiph. destruct (it_v6 it); lia. }
  intros Hnudp. rewrite Hdec0 in Hnudp.
  destruct tcp; [|exfalso; apply Hnudp; reflexivity]. clear Hnudp Hdec0.
  destruct (Htt Logic.I eq_refl) as [Hkey [Hseq [HflP [_ [HpshP [Hag Hchain]]]]]].
  pose proof (acc_buf_bytes true it B Hmpos Hiph Htc Hhl Hlen) as Hb. cbn zeta in Hb. fold P in Hb, Hl, Hd.
  pose proof (acc_buf_tcp_bytes it B Hmpos Hiph Htc Hhl Hlen) as HbF. fold P in HbF.
  set (F := b_pkt (acc_buf true it B)) in *.
  unfold hl_of in *.
  set (v6 := it_v6 it) in *. set (iph := it_iph it) in *. set (tcph := it_tcph it) in *.
  assert (HhF : hdr_facts true v6 tcph F).
  { destruct Hb as [B0 [B1 B2]]. destruct Hhf as [F1 [F2 [F3 F4]]]. unfold hdr_facts.
    rewrite B0. destruct v6.
    - destruct B1 as [B6 _]. rewrite B6. refine (conj F1 (conj _ (conj F3 _))); [discriminate|].
      intros _. rewrite Hiph in B2. rewrite B2. apply F4. reflexivity.
    - destruct B1 as [B6 [B7 [B9 _]]]. rewrite B6, B7, B9. refine (conj F1 (conj F2 (conj F3 _))).
      intros _. rewrite Hiph in B2. rewrite B2. apply F4. reflexivity. }
  assert (AFP : tagree v6 (iph + tcph) P F).
  { refine (conj _ (conj _ _)).
    - intros q Hq Hm. symmetry. apply HbF; [exact Hq| |]; rewrite Hiph in *;
        (destruct v6; [apply tmasked_false6 in Hm|apply tmasked_false4 in Hm]; lia).
    - intros Hv. rewrite HbF; [reflexivity| | |]; rewrite ?Hv; rewrite Hiph in *; rewrite ?Hv in *; lia.
    - rewrite <- Hiph. rewrite HbF; [reflexivity| | |]; rewrite Hiph in *; destruct v6; lia. }
  assert (EflF : byte_at F (iph + 13) = byte_at P (iph + 13)) by (apply HbF; rewrite Hiph in *; destruct v6; lia).
  assert (EseqF : be32 F (iph + 4) = be32 P (iph + 4)).
  { apply be32_ext. intros q H1 H2. apply HbF; rewrite Hiph in *; destruct v6; lia. }
  assert (Hgt : it_gso it < len P - (iph + tcph)).
  { rewrite <- len_drop. apply chunks_two; [exact Hg1|]. rewrite Hch, map_length. exact Hlen2. }
  assert (Hv6 : is_v6 F = v6).
  { unfold is_v6. destruct HhF as [F1 _]. rewrite F1. destruct v6; reflexivity. }
  assert (Hl3 : l3_len F = len F).
  { unfold l3_len. rewrite Hv6, Hl. destruct Hb as [_ [B1 _]]. rewrite Hiph in Hhl. destruct v6.
    - destruct B1 as [_ B4]. rewrite B4. lia.
    - destruct B1 as [_ [_ [_ B4]]]. exact B4. }
  assert (Hdec : dec_vhdr (b_hdr (acc_buf true it B)) =
                 {| v_flags := K_NEEDS_CSUM; v_gso := if v6 then K_GSO_TCPV6 else K_GSO_TCPV4;
                    v_hdrlen := iph + tcph; v_gsosize := it_gso it;
                    v_cstart := if v6 then 40 else 20; v_coff := 16 |}).
  { rewrite Hh, Hiph. apply dec_enc_vhdr; [lia|lia| |lia]. destruct v6; lia. }
  rewrite (kernel_segment_gso true v6 _ F (iph + tcph) (it_gso it) Hdec Hv6 Hl3);
    [|rewrite Hl; lia|rewrite Hiph; lia|exact Hg1].
  rewrite Hd, Hch. rewrite Hiph.
  apply (tcp_build_all_canon inp v6 tcph
           {| v_flags := K_NEEDS_CSUM; v_gso := if v6 then K_GSO_TCPV6 else K_GSO_TCPV4;
              v_hdrlen := (if v6 then 40 else 20) + tcph; v_gsosize := it_gso it;
              v_cstart := if v6 then 40 else 20; v_coff := 16 |}
           F (len F - (if v6 then 40 else 20)) Hbytes eq_refl eq_refl eq_refl Htc HhF)
    with (X := drop ((if v6 then 40 else 20) + tcph) P) (s := it_seq it).
  - rewrite Hl, <- Hiph. exact Hhl.
  - unfold flags_ok. rewrite <- Hiph, EflF. exact HflP.
  - exact Hg1.
  - cbn [v_gsosize]. rewrite <- Hiph. exact Hch.
  - rewrite <- Hiph. exact Hchain.
  - cbn [v_gsosize]. rewrite N.mul_0_l, N.add_0_r, <- Hiph, EseqF. exact Hseq.
  - rewrite <- Hiph, EflF. exact HpshP.
  - intros m Hm. destruct (Hag m Hm) as [G1 [G2 G3]]. unfold member_ok. rewrite <- Hiph.
    refine (conj _ (conj G2 G3)). eapply tagree_trans; [exact G1|exact AFP].
Qed.
Print Assumptions gro_tcp_lossless.
