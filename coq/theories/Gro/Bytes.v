(* Byte-list helpers and one's-complement arithmetic for the GRO model (C16).
   Packets are lists of N (each below 256).  Lengths, offsets and field values
   are N; nat only appears as the argument of firstn/skipn/nth. *)
From WG Require Import Base.Prelude.
Local Open Scope N_scope.

Definition len (l : list N) : N := N.of_nat (length l).
Definition byte_at (l : list N) (i : N) : N := nth (N.to_nat i) l 0.
Definition take (n : N) (l : list N) : list N := firstn (N.to_nat n) l.
Definition drop (n : N) (l : list N) : list N := skipn (N.to_nat n) l.
Definition slice (l : list N) (a b : N) : list N := take (b - a) (drop a l).

(* overwrite |v| bytes at position i (i + |v| <= |l| wherever it is used) *)
Definition put_bytes (l : list N) (i : N) (v : list N) : list N :=
  take i l ++ v ++ drop (i + len v) l.

Definition be16 (l : list N) (i : N) : N := byte_at l i * 256 + byte_at l (i + 1).
Definition be32 (l : list N) (i : N) : N :=
  ((byte_at l i * 256 + byte_at l (i + 1)) * 256 + byte_at l (i + 2)) * 256 + byte_at l (i + 3).
Definition le16 (l : list N) (i : N) : N := byte_at l i + 256 * byte_at l (i + 1).

Definition enc_be16 (v : N) : list N := [(v / 256) mod 256; v mod 256].
Definition enc_le16 (v : N) : list N := [v mod 256; (v / 256) mod 256].
Definition enc_be32 (v : N) : list N :=
  [(v / 16777216) mod 256; (v / 65536) mod 256; (v / 256) mod 256; v mod 256].
Definition put_be16 (l : list N) (i v : N) : list N := put_bytes l i (enc_be16 v).
Definition put_byte (l : list N) (i v : N) : list N := put_bytes l i [v].

Fixpoint list_eqb (a b : list N) : bool :=
  match a, b with
  | [], [] => true
  | x :: a', y :: b' => (x =? y) && list_eqb a' b'
  | _, _ => false
  end.

Definition all_zero (l : list N) : bool := forallb (N.eqb 0) l.

(* RFC 1071: sum of big-endian 16-bit words, an odd tail padded with a zero byte *)
Fixpoint sum16 (l : list N) : N :=
  match l with
  | a :: b :: r => a * 256 + b + sum16 r
  | [a] => a * 256
  | [] => 0
  end.

(* The 16-bit one's-complement value of a sum: 0 only for 0, otherwise the
   representative of s modulo 65535 in 1..65535.  This is what the four folds
   of tun/checksum.go compute from the 64-bit accumulator (C17 proves that for
   the bit-level mirror; here it is tied to the code by the correspondence). *)
Definition ocfold (s : N) : N := if s =? 0 then 0 else (s - 1) mod 65535 + 1.

(* checksum(b, initial) of tun/checksum.go, with the initial value given as a number *)
Definition checksum (b : list N) (initial : N) : N := ocfold (initial + sum16 b).
Definition cnot16 (v : N) : N := 65535 - v.

(* pseudoHeaderChecksumNoFold(proto, src, dst, totalLen) as an unfolded sum *)
Definition pseudo_sum (proto : N) (src dst : list N) (l : N) : N :=
  sum16 src + sum16 dst + proto + l.

(* chunks of size n (n >= 1), the last one possibly shorter; fuel = |l| *)
Fixpoint chunks_fuel (fuel : nat) (n : N) (l : list N) : list (list N) :=
  match fuel with
  | O => []
  | S f => match l with
           | [] => []
           | _ => take n l :: chunks_fuel f n (drop n l)
           end
  end.
Definition chunks (n : N) (l : list N) : list (list N) :=
  if n =? 0 then (match l with [] => [] | _ => [l] end) else chunks_fuel (length l) n l.
