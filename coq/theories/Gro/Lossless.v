(* gro_lossless, assembled: for every batch (input bytes < 256) the packets the kernel
   makes of the written buffers are, as a multiset, the input packets -- equal in
   every compared byte. *)
From WG Require Import Base.Prelude Gen.Constants Gro.Bytes Gro.Model Gro.KernelSpec Gro.Spec Gro.Proofs Gro.Csum Gro.Headers Gro.HeadersTcp.
From Coq Require Import Permutation.
Local Open Scope N_scope.

(* ------------------------------------------- perm_eqb decides Permutation *)
Lemma remove_first_perm x l : In x l -> exists l', remove_first x l = Some l' /\ Permutation l (x :: l').
Proof.
  induction l as [|y l IH]; intros H; [destruct H|]. cbn [remove_first].
  destruct (list_eqb x y) eqn:E.
  - apply list_eqb_eq in E. subst. exists l. split; [reflexivity|apply Permutation_refl].
  - destruct H as [->|H]; [rewrite list_eqb_refl in E; discriminate|].
    destruct (IH H) as [l' [E1 P1]]. rewrite E1. exists (y :: l'). split; [reflexivity|].
    eapply perm_trans; [apply perm_skip; exact P1|apply perm_swap].
Qed.
Lemma perm_eqb_complete a : forall b, Permutation a b -> perm_eqb a b = true.
Proof.
  induction a as [|x a IH]; intros b P; cbn [perm_eqb].
  - apply Permutation_nil in P. subst. reflexivity.
  - assert (Hin : In x b) by (eapply Permutation_in; [exact P|left; reflexivity]).
    destruct (remove_first_perm x b Hin) as [b' [E P']]. rewrite E. apply IH.
    apply (Permutation_cons_inv (a := x)). eapply perm_trans; [exact P|exact P'].
Qed.

(* ------------------------------------ the members partition the indices *)
Definition valid_trace (tr : list gres) : Prop :=
  forall i j p, nth_error tr i = Some (Coalesced j p) -> j < N.of_nat i /\ In j (tw_of tr 0).

Lemma valid_prefix tr r : valid_trace (tr ++ [r]) -> valid_trace tr.
Proof.
  intros H i j p Hn. assert (Hi : (i < length tr)%nat) by (apply nth_error_Some; congruence).
  destruct (H i j p) as [H1 H2]; [rewrite nth_error_app1 by exact Hi; exact Hn|]. split; [exact H1|].
  rewrite tw_of_app in H2. apply in_app_or in H2 as [H2|H2]; [exact H2|].
  destruct (is_coal r); [destruct H2|]. destruct H2 as [E|[]]. lia.
Qed.

Lemma flat_map_members_ext (f g : N -> list N) l : (forall j, In j l -> f j = g j) -> flat_map f l = flat_map g l.
Proof. induction l as [|x l IH]; intros H; cbn [flat_map]; [reflexivity|]. rewrite H by (left; reflexivity). f_equal. apply IH. intros j Hj. apply H. right. exact Hj. Qed.

Lemma members_partition tr : valid_trace tr ->
  Permutation (flat_map (members tr) (tw_of tr 0)) (indices (length tr) 0).
Proof.
  induction tr as [|r tr IH] using rev_ind; intros Hv; [apply Permutation_refl|].
  pose proof (valid_prefix _ _ Hv) as Hv0. specialize (IH Hv0).
  rewrite app_length. cbn [length]. rewrite Nat.add_1_r, indices_S, N.add_0_l, tw_of_app, N.add_0_l.
  assert (Hfresh : ~ merged_into tr (N.of_nat (length tr))).
  { intros [p Hp]. apply In_nth_error in Hp as [i Hi]. destruct (Hv0 i _ p Hi) as [Hlt _].
    assert (i < length tr)%nat by (apply nth_error_Some; congruence). lia. }
  destruct r as [| |j p]; cbn [is_coal].
  1,2: rewrite flat_map_app; cbn [flat_map]; rewrite app_nil_r;
       rewrite (flat_map_members_ext (members (tr ++ [_])) (members tr)) by (intros j Hj; apply members_app_other; discriminate);
       rewrite members_app_other by discriminate; rewrite (members_fresh _ _ Hfresh);
       apply Permutation_app; [exact IH|apply Permutation_refl].
  (* a packet merged into written buffer j *)
  rewrite app_nil_r.
  destruct (Hv (length tr) j p) as [Hlt Hin]; [rewrite nth_error_app2, Nat.sub_diag by lia; reflexivity|].
  rewrite tw_of_app in Hin. cbn [is_coal] in Hin. rewrite app_nil_r in Hin.
  destruct (in_split _ _ Hin) as [t1 [t2 Et]].
  pose proof (tw_of_nodup tr 0) as Hnd. rewrite Et in Hnd.
  assert (Hj1 : ~ In j t1 /\ ~ In j t2).
  { apply NoDup_remove_2 in Hnd. split; intros H; apply Hnd; apply in_or_app; auto. }
  rewrite Et in *. rewrite !flat_map_app in *. cbn [flat_map] in *.
  rewrite (flat_map_members_ext (members (tr ++ [Coalesced j p])) (members tr) t1)
    by (intros j' Hj'; apply members_app_other; intros p' E; inversion E; subst; apply (proj1 Hj1); exact Hj').
  rewrite (flat_map_members_ext (members (tr ++ [Coalesced j p])) (members tr) t2)
    by (intros j' Hj'; apply members_app_other; intros p' E; inversion E; subst; apply (proj2 Hj1); exact Hj').
  rewrite members_app. unfold mem_step. cbn [snd fst]. rewrite N.eqb_refl.
  set (k := N.of_nat (length tr)) in *.
  eapply perm_trans; [|apply Permutation_app; [exact IH|apply Permutation_refl]].
  eapply perm_trans; [|apply Permutation_cons_append].
  set (A := flat_map (members tr) t1) in *. set (Bm := members tr j) in *. set (C := flat_map (members tr) t2) in *.
  destruct p.
  - change ((k :: Bm) ++ C) with (k :: Bm ++ C). apply Permutation_sym. apply Permutation_middle.
  - replace (A ++ (Bm ++ [k]) ++ C) with ((A ++ Bm) ++ k :: C) by (rewrite <- !app_assoc; reflexivity).
    replace (k :: A ++ Bm ++ C) with (k :: (A ++ Bm) ++ C) by (rewrite <- app_assoc; reflexivity).
    apply Permutation_sym. apply Permutation_middle.
Qed.

(* ------------------------------------------------------------ assembly *)
Lemma merged_dec tr j : merged_into tr j \/ ~ merged_into tr j.
Proof.
  induction tr as [|r tr IH].
  - right. intros [p []].
  - destruct IH as [[p Hp]|Hn]; [left; exists p; right; exact Hp|].
    destruct r as [| |j' p']; try (right; intros [p [E|Hp]]; [discriminate|apply Hn; exists p; exact Hp]).
    destruct (N.eq_dec j' j) as [->|Hne]; [left; exists p'; left; reflexivity|].
    right. intros [p [E|Hp]]; [inversion E; congruence|apply Hn; exists p; exact Hp].
Qed.

Lemma map_flat_map {A B C} (f : B -> C) (g : A -> list B) l : map f (flat_map g l) = flat_map (fun x => map f (g x)) l.
Proof. induction l as [|x l IH]; cbn [flat_map map]; [reflexivity|]. rewrite map_app, IH. reflexivity. Qed.
Lemma flat_map_map {A B C} (f : B -> list C) (g : A -> B) l : flat_map f (map g l) = flat_map (fun x => f (g x)) l.
Proof. induction l as [|x l IH]; cbn [flat_map map]; [reflexivity|]. rewrite IH. reflexivity. Qed.
Lemma flat_map_ext_in' {A B} (f g : A -> list B) l : (forall x, In x l -> f x = g x) -> flat_map f l = flat_map g l.
Proof. induction l as [|x l IH]; intros H; cbn [flat_map]; [reflexivity|]. rewrite H by (left; reflexivity). f_equal. apply IH. intros y Hy. apply H. right. exact Hy. Qed.

Lemma map_indices {A} (g : buf -> A) inp : forall from pre, length pre = N.to_nat from ->
  map (fun m => g (get_buf (pre ++ inp) m)) (indices (length inp) from) = map g inp.
Proof.
  induction inp as [|b inp IH]; intros from pre Hp; cbn [length indices map]; [reflexivity|]. f_equal.
  - unfold get_buf. rewrite app_nth2 by lia. replace (N.to_nat from - length pre)%nat with 0%nat by lia. reflexivity.
  - replace (pre ++ b :: inp) with ((pre ++ [b]) ++ inp) by (rewrite <- app_assoc; reflexivity).
    apply IH. rewrite app_length. cbn [length]. lia.
Qed.

Lemma kernel_segment_zero pkt : kernel_segment zero_vhdr pkt = [pkt].
Proof. reflexivity. Qed.

(* Flow equivalence (the third clause of holdsb) holds for every batch. *)
Theorem gro_lossless : forall (canUDP : bool) (offset : N) (bufs : list buf),
  bytes_ok bufs ->
  let s := handle_gro canUDP offset bufs in
  s_err s = false ->
  floweq_ok bufs (s_tw s) (s_bufs s) = true.
Proof.
  intros udp off inp Hbytes s He.
  pose proof (gro_bookkeeping udp off inp He) as [Hlen [Hnd [Hbound Htrace]]]. fold s in Hlen, Hnd, Hbound, Htrace.
  (* toWrite is determined by the trace *)
  assert (Htw : s_tw s = tw_of (s_trace s) 0).
  { subst s. unfold handle_gro in *. rewrite gro_loop_is in *.
    set (s0 := loop_k udp off inp (length inp)) in *.
    assert (He0 : s_err s0 = false) by (destruct (s_err s0) eqn:E; [cbn iota in He; congruence|reflexivity]).
    rewrite He0. cbn [s_tw s_trace].
    destruct (loop_inv_all udp off inp (length inp) (le_n _) He0) as [I _]. apply (i_tw _ _ _ I). }
  assert (Hvalid : valid_trace (s_trace s)).
  { intros i j p Hn. destruct (Htrace i _ Hn) as [_ [H1 H2]]. rewrite <- Htw. auto. }
  set (f := fun m => canon (b_pkt (get_buf inp m))).
  (* per written buffer *)
  assert (Hper : forall j, In j (s_tw s) ->
            map canon (kernel_segment (b_hdr (get_buf (s_bufs s) j)) (b_pkt (get_buf (s_bufs s) j))) =
            map f (members (s_trace s) j)).
  { intros j Hj. destruct (merged_dec (s_trace s) j) as [Hm|Hm].
    - destruct (N.eq_dec (v_gso (dec_vhdr (b_hdr (get_buf (s_bufs s) j)))) GSO_UDP_L4) as [Eu|Eu].
      + apply (gro_udp_lossless udp off inp j He Hm Eu).
      + apply (gro_tcp_lossless udp off inp j Hbytes He Hm Eu).
    - destruct (gro_passthrough udp off inp j He Hj Hm) as [Hp Hz]. fold s in Hp, Hz.
      rewrite (members_fresh _ _ Hm). cbn [map]. unfold f.
      rewrite Hz, kernel_segment_zero, Hp. reflexivity. }
  unfold floweq_ok, floweq_gen, segments, written. fold canon. rewrite flat_map_map, map_flat_map.
  rewrite (flat_map_ext_in' _ (fun j => map f (members (s_trace s) j))) by exact Hper.
  rewrite <- map_flat_map.
  apply perm_eqb_complete.
  rewrite Htw.
  eapply perm_trans; [apply Permutation_map; apply members_partition; exact Hvalid|].
  rewrite Hlen. unfold f.
  pose proof (map_indices (fun b => canon (b_pkt b)) inp 0 [] eq_refl) as E. cbn [app] in E. rewrite E.
  apply Permutation_refl.
Qed.
Print Assumptions gro_lossless.
