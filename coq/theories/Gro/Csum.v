(* Checksums of the segments the kernel makes of a coalesced buffer (second half
   of gro_headers_valid).  Separate file: one's-complement arithmetic and the
   byte-level commutation lemmas it needs. *)
From WG Require Import Base.Prelude Gen.Constants Gro.Bytes Gro.Model Gro.KernelSpec Gro.Spec Gro.Proofs.
Local Open Scope N_scope.

(* ------------------------------------------------ one's-complement facts *)
Lemma ocfold_range s : ocfold s <= 65535.
Proof. unfold ocfold. destruct (s =? 0); lia. Qed.
Lemma ocfold_small s : 1 <= s <= 65535 -> ocfold s = s.
Proof. intros H. unfold ocfold. destruct (N.eqb_spec s 0); [lia|]. rewrite N.mod_small by lia. lia. Qed.
Lemma ocfold_cong s : ocfold s mod 65535 = s mod 65535.
Proof. unfold ocfold. destruct (N.eqb_spec s 0); [subst; reflexivity|]. lia. Qed.
Lemma ocfold_full s : 0 < s -> s mod 65535 = 0 -> ocfold s = 65535.
Proof. intros H1 H2. unfold ocfold. destruct (N.eqb_spec s 0); [lia|]. lia. Qed.

(* storing the complement of the folded sum makes the total fold to 0xffff *)
Lemma csum_closes s : ocfold (s + cnot16 (ocfold s)) = 65535.
Proof.
  unfold cnot16. pose proof (ocfold_range s). pose proof (ocfold_cong s).
  apply ocfold_full.
  - destruct (N.eq_dec s 0) as [->|]; [cbn; lia|lia].
  - set (f := ocfold s) in *. lia.
Qed.

(* the transport checksum of one segment: PS = addresses + protocol, ltot = L4
   length of the super-packet, L = L4 length of the segment, X = its header and
   payload bytes with the field cleared *)
Lemma seg_csum_closes PS ltot L X c :
  1 <= ltot <= 65535 -> 0 < PS ->
  c = cnot16 (ocfold (ocfold (PS + ltot) + (65535 - ocfold ltot) + L + X)) \/
  (c = 65535 /\ cnot16 (ocfold (ocfold (PS + ltot) + (65535 - ocfold ltot) + L + X)) = 0) ->
  ocfold (PS + L + X + c) = 65535.
Proof.
  intros Hl HP Hc. rewrite (ocfold_small ltot) in Hc by lia.
  pose proof (ocfold_cong (PS + ltot)) as C1. pose proof (ocfold_range (PS + ltot)) as R1.
  set (a := ocfold (PS + ltot)) in *.
  pose proof (ocfold_cong (a + (65535 - ltot) + L + X)) as C2. pose proof (ocfold_range (a + (65535 - ltot) + L + X)) as R2.
  set (y := ocfold (a + (65535 - ltot) + L + X)) in *.
  unfold cnot16 in Hc. apply ocfold_full; [lia|].
  assert (Hy : (PS + L + X + (65535 - y)) mod 65535 = 0).
  { assert (E : (a + (65535 - ltot) + L + X) mod 65535 = (PS + L + X) mod 65535).
    { clear C2 R2 y Hc. 
      assert (a mod 65535 = (PS + ltot) mod 65535) by exact C1. clear C1.
      generalize dependent a. intros a R1 H. lia. }
    rewrite E in C2. clear E C1. generalize dependent y. intros y C2 R2 Hc. lia. }
  destruct Hc as [->|[-> Hz]]; [exact Hy|].
  assert (y = 65535) by lia. subst y. clear - Hy H. generalize dependent (PS + L + X). intros z Hy. lia.
Qed.

(* ------------------------------------------------ byte-level commutation *)
Lemma byte_at_take n l k : k < n -> byte_at (take n l) k = byte_at l k.
Proof. intros H. unfold byte_at, take. apply nth_firstn_lt. lia. Qed.
Lemma byte_at_drop n l k : byte_at (drop n l) k = byte_at l (n + k).
Proof. unfold byte_at, drop. rewrite nth_skipn_add. f_equal. lia. Qed.
Lemma byte_at_app_r a b k : len a <= k -> byte_at (a ++ b) k = byte_at b (k - len a).
Proof. intros H. unfold byte_at, len in *. rewrite app_nth2 by lia. f_equal. lia. Qed.

Lemma list_ext (a b : list N) : len a = len b -> (forall k, k < len a -> byte_at a k = byte_at b k) -> a = b.
Proof.
  revert b; induction a as [|x a IH]; intros [|y b] Hl He; try reflexivity; try (cbn in Hl; lia).
  f_equal.
  - specialize (He 0). unfold byte_at in He. cbn in He. apply He. unfold len. cbn [length]. lia.
  - apply IH; [unfold len in *; cbn [length] in Hl; lia|].
    intros k Hk. specialize (He (k + 1)). unfold byte_at in He.
    replace (N.to_nat (k + 1)) with (S (N.to_nat k)) in He by lia. cbn [nth] in He. apply He.
    unfold len in *. cbn [length]. lia.
Qed.

Lemma take_put_bytes l i v n : i + len v <= len l -> n <= i -> take n (put_bytes l i v) = take n l.
Proof.
  intros H Hn. apply list_ext.
  - rewrite !len_take; rewrite ?len_put_bytes; lia.
  - intros k Hk. rewrite len_take in Hk by (rewrite len_put_bytes; lia).
    rewrite !byte_at_take by lia. apply byte_at_put_bytes_other; lia.
Qed.
Lemma drop_put_bytes_comm l i v n : i + len v <= len l -> n <= i -> drop n (put_bytes l i v) = put_bytes (drop n l) (i - n) v.
Proof.
  intros H Hn. apply list_ext.
  - rewrite len_drop, !len_put_bytes; rewrite ?len_drop; lia.
  - intros k Hk. rewrite len_drop, len_put_bytes in Hk by lia.
    rewrite byte_at_drop, !byte_at_put_bytes by (rewrite ?len_drop; lia). rewrite byte_at_drop.
    destruct (N.ltb_spec (n + k) i), (N.ltb_spec k (i - n)); try lia; try reflexivity.
    destruct (N.ltb_spec (n + k) (i + len v)), (N.ltb_spec k (i - n + len v)); try lia; try reflexivity. f_equal; lia.
Qed.
Lemma slice_put_bytes l i v a b : i + len v <= len l -> a <= b -> (b <= i \/ i + len v <= a) -> b <= len l ->
  slice (put_bytes l i v) a b = slice l a b.
Proof.
  intros H Hab Hd Hb. unfold slice. apply list_ext.
  - rewrite !len_take; rewrite ?len_drop, ?len_put_bytes; lia.
  - intros k Hk. rewrite len_take in Hk by (rewrite len_drop, len_put_bytes; lia).
    rewrite !byte_at_take, !byte_at_drop by lia. apply byte_at_put_bytes_other; lia.
Qed.
Lemma slice_app_l a b x y : y <= len a -> slice (a ++ b) x y = slice a x y.
Proof.
  intros H. unfold slice. destruct (N.le_gt_cases x y) as [Hxy|Hxy].
  - rewrite drop_app_le by lia. apply take_app_le. rewrite len_drop. lia.
  - replace (y - x) with 0 by lia. reflexivity.
Qed.
Lemma slice_take n l x y : y <= n -> n <= len l -> slice (take n l) x y = slice l x y.
Proof. intros H1 H2. rewrite <- (take_drop n l) at 2. rewrite slice_app_l; [reflexivity|]. rewrite len_take; lia. Qed.

(* ------------------------------------------------------------ sum16 *)
Lemma sum16_app_even a b : N.even (len a) = true -> sum16 (a ++ b) = sum16 a + sum16 b.
Proof.
  revert a. fix IH 1. intros [|x [|y a]] H.
  - reflexivity.
  - discriminate.
  - cbn [app sum16]. rewrite IH; [lia|]. unfold len in *. cbn [length] in H.
    replace (N.of_nat (S (S (length a)))) with (N.of_nat (length a) + 2) in H by lia.
    rewrite N.even_add in H. destruct (N.even (N.of_nat (length a))); [reflexivity|discriminate].
Qed.
Lemma even_len_take n l : N.even n = true -> n <= len l -> N.even (len (take n l)) = true.
Proof. intros H1 H2. rewrite len_take by exact H2. exact H1. Qed.

Lemma split3 l i : i + 2 <= len l -> l = take i l ++ [byte_at l i; byte_at l (i + 1)] ++ drop (i + 2) l.
Proof.
  intros H. apply list_ext.
  - rewrite !len_app, len_take, len_drop by lia. cbn [len length N.of_nat]. lia.
  - intros k Hk. destruct (N.lt_ge_cases k i) as [Hlt|Hge].
    + rewrite byte_at_app_l by (rewrite len_take; lia). rewrite byte_at_take by lia. reflexivity.
    + rewrite byte_at_app_r by (rewrite len_take; lia). rewrite len_take by lia.
      destruct (N.lt_ge_cases k (i + 2)) as [Hlt2|Hge2].
      * rewrite byte_at_app_l by (cbn [len length N.of_nat]; lia).
        destruct (N.eq_dec k i) as [->|Hne].
        -- replace (i - i) with 0 by lia. reflexivity.
        -- replace (k - i) with 1 by lia. replace k with (i + 1) by lia. reflexivity.
      * rewrite byte_at_app_r by (cbn [len length N.of_nat]; lia). cbn [len length N.of_nat].
        rewrite byte_at_drop. f_equal. lia.
Qed.

Lemma sum16_put_be16 l i x : N.even i = true -> i + 2 <= len l -> be16 l i = 0 -> x < 65536 ->
  sum16 (put_be16 l i x) = sum16 l + x.
Proof.
  intros He H Hz Hx.
  assert (El : sum16 l = sum16 (take i l) + sum16 (drop (i + 2) l)).
  { rewrite (split3 l i H) at 1. unfold be16 in Hz. assert (byte_at l i = 0 /\ byte_at l (i + 1) = 0) as [-> ->] by lia.
    rewrite sum16_app_even by (apply even_len_take; [exact He|lia]). cbn [app sum16]. lia. }
  rewrite El. unfold put_be16, put_bytes, enc_be16.
  change (len [x / 256 mod 256; x mod 256]) with 2.
  rewrite sum16_app_even by (apply even_len_take; [exact He|lia]). cbn [app sum16]. lia.
Qed.

Lemma take_put_bytes_in l i v n : i + len v <= n -> n <= len l -> take n (put_bytes l i v) = put_bytes (take n l) i v.
Proof.
  intros H Hn. apply list_ext.
  - rewrite len_take, len_put_bytes; rewrite ?len_put_bytes, ?len_take; lia.
  - intros k Hk. rewrite len_take in Hk by (rewrite len_put_bytes; lia).
    rewrite byte_at_take by lia. rewrite !byte_at_put_bytes by (rewrite ?len_take; lia).
    destruct (N.ltb_spec k i); [rewrite byte_at_take by lia; reflexivity|].
    destruct (N.ltb_spec k (i + len v)); [reflexivity|rewrite byte_at_take by lia; reflexivity].
Qed.
Lemma be16_take n l i : i + 2 <= n -> be16 (take n l) i = be16 l i.
Proof. intros H. unfold be16. rewrite !byte_at_take by lia. reflexivity. Qed.
Lemma be16_put_zero l i : i + 2 <= len l -> be16 (put_bytes l i [0; 0]) i = 0.
Proof.
  intros H. assert (L2 : len [0; 0] = 2) by reflexivity.
  unfold be16. rewrite !byte_at_put_bytes by (rewrite L2; lia). rewrite L2.
  destruct (N.ltb_spec i i); [lia|]. destruct (N.ltb_spec i (i + 2)); [|lia].
  destruct (N.ltb_spec (i + 1) i); [lia|]. destruct (N.ltb_spec (i + 1) (i + 2)); [|lia].
  replace (i - i) with 0 by lia. replace (i + 1 - i) with 1 by lia. reflexivity.
Qed.

(* ------------------------------------------- the pieces of build_segment *)
Definition seg_h1 (v6 : bool) (hdrs : list N) (cs slen i : N) : list N :=
  if v6 then put_be16 hdrs 4 (slen - 40)
  else
    let a := put_be16 hdrs 2 slen in
    let b := put_be16 a 4 ((be16 hdrs 4 + i) mod 65536) in
    let c := put_bytes b 10 [0; 0] in
    put_be16 c 10 (cnot16 (ocfold (sum16 (take cs c)))).
Definition seg_h2 (v : vhdr) (tcp : bool) (hdrs h1 : list N) (slen i : N) (lst : bool) : list N :=
  let cs := v_cstart v in
  if tcp then
    let a := put_bytes h1 (cs + 4) (enc_be32 ((be32 hdrs (cs + 4) + i * v_gsosize v) mod 4294967296)) in
    if lst then a else put_byte a (cs + 13) (N.land (byte_at a (cs + 13)) 246)
  else put_be16 h1 (cs + 4) (slen - cs).
Definition seg_c (v : vhdr) (tcp : bool) (hdrs h2 : list N) (ltot slen : N) (seg : list N) : N :=
  let cs := v_cstart v in
  let at_ := cs + v_coff v in
  let h3 := put_bytes h2 at_ [0; 0] in
  let s := be16 hdrs at_ + (65535 - ocfold ltot) + (slen - cs) + sum16 (drop cs h3 ++ seg) in
  let c := cnot16 (ocfold s) in
  if negb tcp && (c =? 0) then 65535 else c.

Lemma build_segment_eq v tcp hdrs ltot i seg lst :
  let slen := v_hdrlen v + len seg in
  let h1 := seg_h1 (is_v6 hdrs) hdrs (v_cstart v) slen i in
  let h2 := seg_h2 v tcp hdrs h1 slen i lst in
  let at_ := v_cstart v + v_coff v in
  build_segment v tcp hdrs ltot i seg lst =
  put_be16 (put_bytes h2 at_ [0; 0]) at_ (seg_c v tcp hdrs h2 ltot slen seg) ++ seg.
Proof. reflexivity. Qed.

Lemma len_enc_be32 x : len (enc_be32 x) = 4.
Proof. reflexivity. Qed.

Lemma seg_h1_len v6 H cs slen i : 12 <= len H -> len (seg_h1 v6 H cs slen i) = len H.
Proof.
  intros Hl. unfold seg_h1. destruct v6; [apply put_be16_len; lia|].
  cbv zeta.
  assert (L1 : len (put_be16 H 2 slen) = len H) by (apply put_be16_len; lia).
  set (a := put_be16 H 2 slen) in *.
  assert (L2 : len (put_be16 a 4 ((be16 H 4 + i) mod 65536)) = len H) by (rewrite put_be16_len; lia).
  set (b := put_be16 a 4 _) in *.
  assert (L3 : len (put_bytes b 10 [0; 0]) = len H) by (rewrite len_put_bytes; [lia|]; change (len [0; 0]) with 2; lia).
  set (c := put_bytes b 10 [0; 0]) in *.
  rewrite put_be16_len; lia.
Qed.

Lemma seg_h2_len v (tcp : bool) H h1 slen i lst : v_cstart v + (if tcp then 14 else 6) <= len h1 -> len (seg_h2 v tcp H h1 slen i lst) = len h1.
Proof.
  intros Hl. unfold seg_h2. destruct tcp; [|apply put_be16_len; lia].
  assert (E : len (put_bytes h1 (v_cstart v + 4) (enc_be32 ((be32 H (v_cstart v + 4) + i * v_gsosize v) mod 4294967296))) = len h1)
    by (apply len_put_bytes; rewrite len_enc_be32; lia).
  destruct lst; [exact E|]. unfold put_byte. rewrite len_put_bytes; [exact E|]. rewrite E. cbn [len length N.of_nat]. lia.
Qed.

Lemma seg_h2_take v (tcp : bool) H h1 slen i lst n : v_cstart v + (if tcp then 14 else 6) <= len h1 -> n <= v_cstart v + 4 ->
  take n (seg_h2 v tcp H h1 slen i lst) = take n h1.
Proof.
  intros Hl Hn. unfold seg_h2. destruct tcp; [|unfold put_be16; apply take_put_bytes; [rewrite len_enc_be16; lia|lia]].
  set (a := put_bytes h1 (v_cstart v + 4) _).
  assert (E : len a = len h1) by (apply len_put_bytes; rewrite len_enc_be32; lia).
  assert (Ta : take n a = take n h1) by (apply take_put_bytes; [rewrite len_enc_be32; lia|lia]).
  destruct lst; [exact Ta|]. unfold put_byte. rewrite take_put_bytes; [exact Ta| |lia]. rewrite E. cbn [len length N.of_nat]. lia.
Qed.

Lemma seg_h1_byte (v6 : bool) H cs slen i k : 12 <= len H ->
  (if v6 return Prop then k < 4 \/ 6 <= k else k < 2 \/ (6 <= k /\ k < 10) \/ 12 <= k) ->
  byte_at (seg_h1 v6 H cs slen i) k = byte_at H k.
Proof.
  intros Hl Hk. unfold seg_h1. destruct v6; [apply byte_at_put_be16_other; lia|]. cbv zeta.
  assert (L1 : len (put_be16 H 2 slen) = len H) by (apply put_be16_len; lia).
  set (a := put_be16 H 2 slen) in *.
  assert (L2 : len (put_be16 a 4 ((be16 H 4 + i) mod 65536)) = len H) by (rewrite put_be16_len; lia).
  set (b := put_be16 a 4 _) in *.
  assert (L3 : len (put_bytes b 10 [0; 0]) = len H) by (rewrite len_put_bytes; [lia|]; change (len [0; 0]) with 2; lia).
  set (c := put_bytes b 10 [0; 0]) in *.
  rewrite byte_at_put_be16_other by lia. unfold c. rewrite byte_at_put_bytes_other by (change (len [0; 0]) with 2; lia).
  unfold b. rewrite byte_at_put_be16_other by lia. unfold a. apply byte_at_put_be16_other; lia.
Qed.

Lemma slice_ext a b x y : len a = len b -> y <= len a -> (forall k, x <= k -> k < y -> byte_at a k = byte_at b k) -> slice a x y = slice b x y.
Proof.
  intros Hl Hy He. unfold slice. destruct (N.le_gt_cases x y) as [Hxy|Hxy]; [|replace (y - x) with 0 by lia; reflexivity].
  apply list_ext.
  - rewrite !len_take; rewrite ?len_drop; lia.
  - intros k Hk. rewrite len_take in Hk by (rewrite len_drop; lia). rewrite !byte_at_take, !byte_at_drop by lia. apply He; lia.
Qed.

Lemma seg_h1_ipcsum H slen i : 20 <= len H -> ocfold (sum16 (take 20 (seg_h1 false H 20 slen i))) = 65535.
Proof.
  intros Hl. unfold seg_h1. cbv zeta.
  assert (L1 : len (put_be16 H 2 slen) = len H) by (apply put_be16_len; lia).
  set (a := put_be16 H 2 slen) in *.
  assert (L2 : len (put_be16 a 4 ((be16 H 4 + i) mod 65536)) = len H) by (rewrite put_be16_len; lia).
  set (b := put_be16 a 4 _) in *.
  assert (L3 : len (put_bytes b 10 [0; 0]) = len H) by (rewrite len_put_bytes; [lia|]; change (len [0; 0]) with 2; lia).
  set (c := put_bytes b 10 [0; 0]) in *.
  unfold put_be16 at 1. rewrite take_put_bytes_in by (rewrite ?len_enc_be16; lia).
  fold (put_be16 (take 20 c) 10 (cnot16 (ocfold (sum16 (take 20 c))))).
  rewrite sum16_put_be16.
  - apply csum_closes.
  - reflexivity.
  - rewrite len_take; lia.
  - rewrite be16_take by lia. unfold c. apply be16_put_zero. lia.
  - unfold cnot16. pose proof (ocfold_range (sum16 (take 20 c))). lia.
Qed.

(* ------------------------------- every segment has valid checksums *)
Lemma segment_checksums (tcp v6 : bool) (tcph : N) (v : vhdr) (F : list N) (i : N) (seg : list N) (lst : bool) :
  let iph := if v6 then 40 else 20 in
  let co := if tcp then 16 else 6 in
  let proto := if tcp then 6 else 17 in
  let hl := v_hdrlen v in
  v_cstart v = iph -> v_coff v = co ->
  hdr_facts tcp v6 tcph F ->
  iph + (if tcp then 20 else 8) <= hl -> hl <= len F -> N.even (hl - iph) = true -> len F <= 65535 ->
  be16 F (iph + co) = ocfold (pseudo_sum proto (if v6 then slice F 8 24 else slice F 12 16)
                                               (if v6 then slice F 24 40 else slice F 16 20) (len F - iph)) ->
  let s := build_segment v tcp (take hl F) (len F - iph) i seg lst in
  ip_csum_ok s = true /\ l4_csum_ok s = true.
Proof.
  intros iph co proto hl Hcs Hco [F1 [F2 [F3 _]]] Hhl Hlf Hev Hmax Hpart s. subst s.
  set (H := take hl F).
  assert (LH : len H = hl) by (apply len_take; exact Hlf).
  assert (Hiph : 20 <= iph /\ iph <= 40) by (unfold iph; destruct v6; lia).
  assert (Hco' : 6 <= co /\ co <= 16 /\ N.even co = true) by (unfold co; destruct tcp; repeat split; try lia; reflexivity).
  assert (Hat : iph + co + 2 <= hl) by (unfold co in *; destruct tcp; lia).
  assert (BH : forall k, k < hl -> byte_at H k = byte_at F k) by (intros k Hk; apply byte_at_take; exact Hk).
  assert (Hv6 : is_v6 H = v6).
  { unfold is_v6. rewrite BH by lia. rewrite F1. destruct v6; reflexivity. }
  rewrite build_segment_eq. cbv zeta. rewrite Hv6, Hcs, Hco. fold hl.
  set (slen := hl + len seg).
  set (h1 := seg_h1 v6 H iph slen i).
  assert (Lh1 : len h1 = hl) by (unfold h1; rewrite seg_h1_len; lia).
  set (h2 := seg_h2 v tcp H h1 slen i lst).
  assert (Lh2 : len h2 = hl) by (unfold h2; rewrite seg_h2_len; rewrite ?Hcs; destruct tcp; lia).
  assert (Th2 : take iph h2 = take iph h1) by (unfold h2; apply seg_h2_take; rewrite ?Hcs; destruct tcp; lia).
  set (h3 := put_bytes h2 (iph + co) [0; 0]).
  assert (Lh3 : len h3 = hl) by (unfold h3; rewrite len_put_bytes; [exact Lh2|]; change (len [0; 0]) with 2; lia).
  set (c' := seg_c v tcp H h2 (len F - iph) slen seg).
  set (Hs := put_be16 h3 (iph + co) c').
  assert (LHs : len Hs = hl) by (unfold Hs; rewrite put_be16_len; lia).
  assert (THs : take iph Hs = take iph h1).
  { unfold Hs, put_be16. rewrite take_put_bytes by (rewrite ?len_enc_be16; lia). unfold h3.
    rewrite take_put_bytes by (change (len [0; 0]) with 2; lia). exact Th2. }
  assert (Bs : forall k, k < iph -> byte_at (Hs ++ seg) k = byte_at h1 k).
  { intros k Hk. rewrite byte_at_app_l by lia. rewrite <- (byte_at_take iph Hs k Hk), THs. apply byte_at_take. exact Hk. }
  assert (B1 : forall k, k < iph -> (if v6 return Prop then k < 4 \/ 6 <= k else k < 2 \/ (6 <= k /\ k < 10) \/ 12 <= k) ->
               byte_at (Hs ++ seg) k = byte_at F k).
  { intros k Hk Hk2. rewrite Bs by exact Hk. unfold h1. rewrite seg_h1_byte by (try exact Hk2; lia). apply BH. lia. }
  assert (Hc'lt : c' < 65536).
  { unfold c', seg_c. cbv zeta. match goal with |- (if ?b then _ else _) < _ => destruct b end; [lia|].
    unfold cnot16. match goal with |- 65535 - ocfold ?z < _ => pose proof (ocfold_range z) end. lia. }
  (* the transport part of the segment *)
  set (D := drop iph h3).
  assert (LD : len D = hl - iph) by (unfold D; rewrite len_drop; lia).
  assert (HD : drop iph (Hs ++ seg) = put_be16 D co c' ++ seg).
  { rewrite drop_app_le by lia. f_equal. unfold Hs, put_be16. rewrite drop_put_bytes_comm by (rewrite ?len_enc_be16; lia).
    replace (iph + co - iph) with co by lia. reflexivity. }
  assert (ZD : be16 D co = 0).
  { unfold D, h3. rewrite drop_put_bytes_comm by (change (len [0; 0]) with 2; lia).
    replace (iph + co - iph) with co by lia. apply be16_put_zero. rewrite len_drop. lia. }
  assert (SD : sum16 (put_be16 D co c' ++ seg) = sum16 D + c' + sum16 seg).
  { rewrite sum16_app_even by (rewrite put_be16_len by lia; rewrite LD; exact Hev).
    rewrite sum16_put_be16; [reflexivity|apply Hco'|lia|exact ZD|exact Hc'lt]. }
  split.
  - (* IP header *)
    unfold ip_csum_ok, is_v6. rewrite B1 by (destruct v6; lia). rewrite F1. destruct v6; [reflexivity|].
    cbn [N.eqb Pos.eqb orb]. destruct (F2 eq_refl) as [G1 _]. rewrite G1. change (5 * 4) with 20.
    rewrite take_app_le by lia.
    assert (T20 : take 20 Hs = take 20 h1) by exact THs.
    rewrite T20. unfold h1. rewrite seg_h1_ipcsum by lia. reflexivity.
  - (* transport *)
    unfold l4_csum_ok.
    assert (Hparse : exists fr, l3_parse (Hs ++ seg) = Some (v6, iph, proto, fr)).
    { unfold l3_parse. rewrite (B1 0) by (destruct v6; lia). rewrite F1. destruct v6.
      - cbn [N.eqb Pos.eqb]. rewrite len_app, LHs.
        destruct (N.leb_spec 40 (hl + len seg)); [|unfold iph in *; lia]. cbn [andb].
        rewrite (B1 6) by (unfold iph; lia). rewrite F3. eexists. reflexivity.
      - destruct (F2 eq_refl) as [G1 _]. cbn [N.eqb Pos.eqb]. rewrite G1. change (5 * 4) with 20.
        rewrite len_app, LHs. destruct (N.ltb_spec (hl + len seg) 20); [unfold iph in *; lia|]. cbn [orb].
        rewrite (B1 9) by (unfold iph; lia). rewrite F3. eexists. reflexivity. }
    destruct Hparse as [fr ->].
    (* addresses *)
    assert (Hsl : forall x y, 8 <= x -> (v6 = false -> 12 <= x) -> y <= iph -> slice (Hs ++ seg) x y = slice F x y).
    { intros x y Hx Hx4 Hy. rewrite slice_app_l by lia.
      rewrite <- (slice_take iph Hs x y Hy ltac:(lia)), THs, (slice_take iph h1 x y Hy ltac:(lia)).
      rewrite (slice_ext h1 H x y); [apply slice_take; lia|lia|lia|].
      intros k Hk1 Hk2. unfold h1. apply seg_h1_byte; [lia|]. destruct v6; [lia|]. specialize (Hx4 eq_refl). lia. }
    assert (Hsrc : (if v6 then slice (Hs ++ seg) 8 24 else slice (Hs ++ seg) 12 16) = (if v6 then slice F 8 24 else slice F 12 16)).
    { destruct v6; apply Hsl; unfold iph; try lia; discriminate. }
    assert (Hdst : (if v6 then slice (Hs ++ seg) 24 40 else slice (Hs ++ seg) 16 20) = (if v6 then slice F 24 40 else slice F 16 20)).
    { destruct v6; apply Hsl; unfold iph; try lia; discriminate. }
    rewrite Hsrc, Hdst, HD, SD.
    set (src := if v6 then slice F 8 24 else slice F 12 16) in *.
    set (dst := if v6 then slice F 24 40 else slice F 16 20) in *.
    unfold pseudo_sum in *.
    set (PS := sum16 src + sum16 dst + proto) in *.
    assert (HPS : 0 < PS) by (unfold PS, proto; destruct tcp; lia).
    (* the value stored by the kernel model *)
    assert (Hc' : c' = cnot16 (ocfold (ocfold (PS + (len F - iph)) + (65535 - ocfold (len F - iph)) + (slen - iph) + (sum16 D + sum16 seg))) \/
                  (c' = 65535 /\ cnot16 (ocfold (ocfold (PS + (len F - iph)) + (65535 - ocfold (len F - iph)) + (slen - iph) + (sum16 D + sum16 seg))) = 0)).
    { unfold c', seg_c. cbv zeta. rewrite Hcs, Hco. fold h3. fold D.
      rewrite sum16_app_even by (rewrite LD; exact Hev).
      assert (EB : be16 H (iph + co) = be16 F (iph + co)) by (apply be16_take; lia). rewrite EB, Hpart.
      match goal with |- (if negb tcp && (?c =? 0) then _ else _) = _ \/ _ => destruct (N.eqb_spec c 0) as [Ez|Ez] end.
      - destruct tcp; cbn [negb andb]; [left; reflexivity|right; split; [reflexivity|exact Ez]].
      - rewrite andb_false_r. left. reflexivity. }
    replace (PS + (len (Hs ++ seg) - iph) + (sum16 D + c' + sum16 seg)) with (PS + (slen - iph) + (sum16 D + sum16 seg) + c')
      by (rewrite len_app, LHs; unfold slen; lia).
    rewrite (seg_csum_closes PS (len F - iph) (slen - iph) (sum16 D + sum16 seg) c'); [reflexivity|lia|exact HPS|exact Hc'].
Qed.

Lemma build_all_forall (P : list N -> bool) v tcp hdrs ltot :
  (forall i seg lst, P (build_segment v tcp hdrs ltot i seg lst) = true) ->
  forall segs i, forallb P (build_all v tcp hdrs ltot i segs) = true.
Proof.
  intros H segs. induction segs as [|s r IH]; intros i; cbn [build_all forallb]; [reflexivity|].
  rewrite H, IH. reflexivity.
Qed.
Lemma build_all_length v tcp hdrs ltot : forall segs i, length (build_all v tcp hdrs ltot i segs) = length segs.
Proof. induction segs as [|s r IH]; intros i; cbn [build_all length]; [reflexivity|]. rewrite IH. reflexivity. Qed.

(* kernel_segment on a buffer with a well-formed GSO descriptor *)
Lemma kernel_segment_gso (tcp v6 : bool) hdr F hl g :
  let iph := if v6 then 40 else 20 in
  let co := if tcp then 16 else 6 in
  let gt := if tcp then (if v6 then K_GSO_TCPV6 else K_GSO_TCPV4) else K_GSO_UDP_L4 in
  let v := {| v_flags := K_NEEDS_CSUM; v_gso := gt; v_hdrlen := hl; v_gsosize := g; v_cstart := iph; v_coff := co |} in
  dec_vhdr hdr = v -> is_v6 F = v6 -> l3_len F = len F -> hl < len F -> iph + co + 2 <= hl -> 1 <= g ->
  kernel_segment hdr F = build_all v tcp (take hl F) (len F - iph) 0 (chunks g (drop hl F)).
Proof.
  intros iph co gt v Hdec Hv6 Hl3 Hhl Hat Hg. unfold kernel_segment. rewrite Hdec. subst v. cbv zeta.
  cbn [v_flags v_gso v_hdrlen v_gsosize v_cstart v_coff].
  assert (Htrim : l3_trim F = Some F).
  { unfold l3_trim. rewrite Hl3. destruct (N.ltb_spec (len F) (len F)); [lia|]. rewrite take_all by lia. reflexivity. }
  assert (Hne : drop hl F <> []).
  { intros E. apply (f_equal len) in E. rewrite len_drop in E. cbn in E. lia. }
  rewrite Hv6, Htrim.
  destruct (N.eqb_spec g 0); [lia|].
  destruct (N.ltb_spec (len F) hl); [lia|]. destruct (N.ltb_spec hl (iph + co + 2)); [lia|].
  unfold gt, K_GSO_TCPV6, K_GSO_TCPV4, K_GSO_UDP_L4, K_GSO_NONE, K_NEEDS_CSUM.
  destruct tcp, v6; cbn [N.eqb Pos.eqb N.land Pos.land orb andb negb]; (destruct (drop hl F) eqn:E; [contradiction|reflexivity]).
Qed.

(* the pseudo-header sum the accounting leaves in the checksum field *)
Lemma acc_buf_partial (tcp : bool) (it : item) (b : buf) :
  0 < it_merged it -> it_iph it = (if it_v6 it then 40 else 20) -> (if tcp return Prop then 20 <= it_tcph it else True) ->
  hl_of tcp it <= len (b_pkt b) -> len (b_pkt b) <= 65535 ->
  let F := b_pkt (acc_buf tcp it b) in
  let v6 := it_v6 it in
  be16 F (it_iph it + (if tcp then 16 else 6)) =
  ocfold (pseudo_sum (if tcp then 6 else 17) (if v6 then slice F 8 24 else slice F 12 16)
                     (if v6 then slice F 24 40 else slice F 16 20) (len F - it_iph it)).
Proof.
  intros Hm Hiph Ht Hl Hmax F v6. subst F v6. unfold acc_buf. destruct (N.ltb_spec 0 (it_merged it)); [|lia]. cbn [b_pkt].
  unfold hl_of in *. unfold UDPH, tun_udphLen, tun_ipv6SrcAddrOffset, tun_ipv4SrcAddrOffset, IPPROTO_TCP, IPPROTO_UDP in *.
  assert (Gen : forall (p2 : list N) (iph co proto l4 x1 x2 x3 : N), len p2 = len (b_pkt b) -> iph + co + 2 <= len p2 ->
            x3 <= iph + co -> x1 <= x2 -> x2 <= x3 -> l4 = len (b_pkt b) - iph ->
            let F := put_be16 p2 (iph + co) (checksum [] (pseudo_sum proto (slice p2 x1 x2) (slice p2 x2 x3) l4)) in
            be16 F (iph + co) = ocfold (pseudo_sum proto (slice F x1 x2) (slice F x2 x3) (len F - iph))).
  { intros p2 iph co proto l4 x1 x2 x3 L Hat Hx3 H12 H23 El4 F. subst F.
    rewrite be16_put_be16_same; [|lia|unfold checksum; match goal with |- ocfold ?z < _ => pose proof (ocfold_range z) end; lia].
    unfold put_be16 at 1 2 3. rewrite !slice_put_bytes by (rewrite ?len_enc_be16; lia).
    rewrite len_put_bytes by (rewrite len_enc_be16; lia). unfold checksum. cbn [sum16]. rewrite N.add_0_r, El4, L. reflexivity. }
  destruct tcp, (it_v6 it); rewrite Hiph in *; set (P := b_pkt b) in *.
  - set (p1 := put_be16 P 4 ((len P - 40) mod 65536)).
    assert (L1 : len p1 = len P) by (apply put_be16_len; lia).
    change (8 + 16) with 24. change (8 + 16 * 2) with 40.
    apply (Gen p1 40 16 6 ((len P - 40) mod 65536) 8 24 40); lia.
  - set (p1 := put_bytes P 10 [0; 0]).
    assert (L1 : len p1 = len P) by (apply len_put_bytes; cbn [len length N.of_nat]; lia).
    set (p2 := put_be16 p1 2 (len P mod 65536)).
    assert (L2 : len p2 = len P) by (unfold p2; rewrite put_be16_len; lia).
    set (p3 := put_be16 p2 10 (cnot16 (checksum (take 20 p2) 0))).
    assert (L3 : len p3 = len P) by (unfold p3; rewrite put_be16_len; lia).
    change (12 + 4) with 16. change (12 + 4 * 2) with 20.
    apply (Gen p3 20 16 6 ((len P - 20) mod 65536) 12 16 20); lia.
  - set (p1 := put_be16 P 4 ((len P - 40) mod 65536)).
    assert (L1 : len p1 = len P) by (apply put_be16_len; lia).
    set (p2 := put_be16 p1 (40 + 4) ((len P - 40) mod 65536)).
    assert (L2 : len p2 = len P) by (unfold p2; rewrite put_be16_len; lia).
    change (8 + 16) with 24. change (8 + 16 * 2) with 40.
    apply (Gen p2 40 6 17 ((len P - 40) mod 65536) 8 24 40); lia.
  - set (p1 := put_bytes P 10 [0; 0]).
    assert (L1 : len p1 = len P) by (apply len_put_bytes; cbn [len length N.of_nat]; lia).
    set (p2 := put_be16 p1 2 (len P mod 65536)).
    assert (L2 : len p2 = len P) by (unfold p2; rewrite put_be16_len; lia).
    set (p3 := put_be16 p2 10 (cnot16 (checksum (take 20 p2) 0))).
    assert (L3 : len p3 = len P) by (unfold p3; rewrite put_be16_len; lia).
    set (p4 := put_be16 p3 (20 + 4) ((len P - 20) mod 65536)).
    assert (L4 : len p4 = len P) by (unfold p4; rewrite put_be16_len; lia).
    change (12 + 4) with 16. change (12 + 4 * 2) with 20.
    apply (Gen p4 20 6 17 ((len P - 20) mod 65536) 12 16 20); lia.
Qed.

Lemma even_mul4 x : N.even (x * 4) = true.
Proof. replace (x * 4) with (2 * (x * 2)) by lia. rewrite N.even_mul. reflexivity. Qed.

(* ------------------- theorem: the kernel's segments have valid checksums *)
(* Of every coalesced buffer the kernel makes as many
   segments as packets were merged into it, each with a valid IPv4 header
   checksum and a valid TCP/UDP checksum. *)
Theorem gro_segment_checksums_valid : forall (canUDP : bool) (offset : N) (bufs : list buf) (j : N),
  let s := handle_gro canUDP offset bufs in
  s_err s = false -> merged_into (s_trace s) j ->
  let b := get_buf (s_bufs s) j in
  let segs := kernel_segment (b_hdr b) (b_pkt b) in
  length segs = length (members (s_trace s) j) /\
  forallb (fun p => ip_csum_ok p && l4_csum_ok p) segs = true.
Proof.
  intros udp off inp j s He. subst s. unfold handle_gro in *. rewrite gro_loop_is in *.
  set (s0 := loop_k udp off inp (length inp)) in *.
  assert (He0 : s_err s0 = false) by (destruct (s_err s0) eqn:E; [cbn iota in He; congruence|reflexivity]).
  rewrite He0 in *. cbn [s_trace s_tw s_bufs]. intros Hmj.
  destruct (loop_inv_all udp off inp (length inp) (le_n _) He0) as [I [I2 I3]]. fold s0 in I, I2, I3.
  pose proof (loop_inv_hdr udp off inp (length inp) True (le_n _) He0) as IQ. fold s0 in IQ.
  destruct (i_cover _ I3 j Hmj) as [tcp [it [Hin Hidx]]].
  pose proof (sel_total_in _ _ _ Hin) as Hint.
  destruct (i_items _ _ _ I it Hint) as [Htw _].
  destruct (IQ tcp it Hin) as [[Hhl [Hg1 [Hiph [Hhd [Htc [Hmz [Hml Hch]]]]]]] [Hhf Hlen]].
  destruct (i_bounds _ I3 tcp it Hin) as [Bg Bh].
  pose proof (members_length_merged _ _ Hmj) as Hlen2.
  rewrite Hidx in *.
  assert (Hmpos : 0 < it_merged it) by (unfold len in Hml; lia).
  assert (Hjlt : (N.to_nat j < length (s_bufs s0))%nat).
  { rewrite (i_tw _ _ _ I) in Htw. apply tw_of_bound in Htw. rewrite (i_tr _ _ _ I) in Htw. rewrite (i_len _ _ _ I). lia. }
  assert (Hfin : get_buf (account false (account true (s_bufs s0) (s_tcp s0)) (s_udp s0)) j = acc_buf tcp it (get_buf (s_bufs s0) j)).
  { rewrite !account_flat. pose proof (i_nodup _ _ I2) as Hn.
    destruct tcp; unfold sel in Hin.
    - rewrite fold_account_other.
      + rewrite <- Hidx. apply fold_account_get; [apply (sel_nodup s0 true Hn)|exact Hin|rewrite Hidx; exact Hjlt].
      + intros y Hy E. apply (sel_cross_idx s0 true it y Hn Hin Hy). congruence.
    - rewrite <- Hidx. rewrite fold_account_get; [|apply (sel_nodup s0 false Hn)|exact Hin|rewrite fold_account_length, Hidx; exact Hjlt].
      rewrite fold_account_other; [reflexivity|].
      intros y Hy E. apply (sel_cross_idx s0 false it y Hn Hin Hy). congruence. }
  rewrite Hfin.
  set (B := get_buf (s_bufs s0) j) in *. set (P := b_pkt B) in *.
  destruct (acc_buf_payload tcp it B Hmpos Hiph Htc Hhl) as [Hd [Hl Hh]].
  pose proof (acc_buf_bytes tcp it B Hmpos Hiph Htc Hhl Hlen) as Hb. cbn zeta in Hb. fold P in Hb, Hl, Hd.
  pose proof (acc_buf_partial tcp it B Hmpos Hiph Htc Hhl Hlen) as Hpart. cbn zeta in Hpart.
  set (F := b_pkt (acc_buf tcp it B)) in *.
  assert (HhF : hdr_facts tcp (it_v6 it) (it_tcph it) F).
  { destruct Hb as [B0 [B1 B2]]. destruct Hhf as [F1 [F2 [F3 F4]]]. unfold hdr_facts.
    rewrite B0. destruct (it_v6 it).
    - destruct B1 as [B6 _]. rewrite B6. refine (conj F1 (conj _ (conj F3 _))); [discriminate|].
      intros ->. rewrite Hiph in B2. rewrite B2. apply F4. reflexivity.
    - destruct B1 as [B6 [B7 [B9 _]]]. rewrite B6, B7, B9. refine (conj F1 (conj F2 (conj F3 _))).
      intros ->. rewrite Hiph in B2. rewrite B2. apply F4. reflexivity. }
  assert (Hgt : it_gso it < len P - hl_of tcp it).
  { rewrite <- len_drop. apply chunks_two; [exact Hg1|]. rewrite Hch, map_length. exact Hlen2. }
  assert (Hv6 : is_v6 F = it_v6 it).
  { unfold is_v6. destruct HhF as [F1 _]. rewrite F1. destruct (it_v6 it); reflexivity. }
  assert (Hl3 : l3_len F = len F).
  { unfold l3_len. rewrite Hv6, Hl. destruct Hb as [_ [B1 _]]. unfold hl_of in Hhl. rewrite Hiph in Hhl. destruct (it_v6 it).
    - destruct B1 as [_ B4]. rewrite B4. lia.
    - destruct B1 as [_ [_ [_ B4]]]. exact B4. }
  assert (Hhlv : (if it_v6 it then 40 else 20) + (if tcp then 20 else 8) <= hl_of tcp it).
  { unfold hl_of. rewrite Hiph. unfold UDPH, tun_udphLen. destruct tcp; lia. }
  assert (Hdec : dec_vhdr (b_hdr (acc_buf tcp it B)) =
                 {| v_flags := K_NEEDS_CSUM;
                    v_gso := if tcp then (if it_v6 it then K_GSO_TCPV6 else K_GSO_TCPV4) else K_GSO_UDP_L4;
                    v_hdrlen := hl_of tcp it; v_gsosize := it_gso it;
                    v_cstart := if it_v6 it then 40 else 20; v_coff := if tcp then 16 else 6 |}).
  { rewrite Hh, Hiph. apply dec_enc_vhdr; [lia|lia| |destruct tcp; lia]. destruct (it_v6 it); lia. }
  rewrite (kernel_segment_gso tcp (it_v6 it) _ F (hl_of tcp it) (it_gso it) Hdec Hv6 Hl3);
    [|rewrite Hl; lia|destruct tcp; lia|exact Hg1].
  split.
  - rewrite build_all_length, Hd, Hch, map_length. reflexivity.
  - apply build_all_forall. intros i seg lst. apply andb_true_iff.
    apply (segment_checksums tcp (it_v6 it) (it_tcph it)); cbn [v_cstart v_coff v_hdrlen]; auto.
    + rewrite Hl. unfold hl_of in *. lia.
    + unfold hl_of. rewrite Hiph. replace ((if it_v6 it then 40 else 20) + (if tcp then it_tcph it else UDPH) - (if it_v6 it then 40 else 20))
        with (if tcp then it_tcph it else UDPH) by lia.
      destruct tcp; [|reflexivity]. destruct HhF as [_ [_ [_ F4]]]. rewrite <- (F4 eq_refl). apply even_mul4.
    + rewrite Hl. exact Hlen.
    + rewrite <- Hiph. exact Hpart.
Qed.
Print Assumptions gro_segment_checksums_valid.
