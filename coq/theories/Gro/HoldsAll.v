(* C16, the whole specification for every batch:
   - [gro_holdsb_partial]: no error is returned and every clause of holdsb holds, the UDP order
     clause read over the datagrams the coalescer considers (Check.keep_eligible);
   - [gro_holdsb_eligible_batches]: holdsb itself holds for every batch all of whose UDP datagrams
     pass the coalescer's gates.
   The unrestricted statement is refuted (Examples.gro_lossless_refuted: a zero-length datagram
   is overtaken by a later datagram of its flow). *)
From WG Require Import Base.Prelude Gen.Constants Gro.Bytes Gro.Model Gro.OldModel Gro.KernelSpec Gro.Spec Gro.Proofs Gro.Csum Gro.Headers Gro.HeadersTcp Gro.Lossless Gro.Holds Gro.Order Gro.CsumKept Gro.Examples.
From WG Require Gro.Check.
Local Open Scope N_scope.

Definition holdsb_restricted (inp : list buf) (tw : list N) (out : list buf) : bool :=
  holdsb_core inp tw out && udp_order_gen Check.keep_eligible inp tw out && csum_kept_ok inp tw out.

Lemma preb_facts offset bufs : preb offset bufs = true -> VH <= offset /\ (forall b, In b bufs -> b_pkt b <> []).
Proof.
  unfold preb. intros H. apply andb_true_iff in H as [H1 H2]. apply N.leb_le in H1. split; [exact H1|].
  intros b Hb E. rewrite forallb_forall in H2. specialize (H2 b Hb). rewrite E in H2. discriminate.
Qed.

Theorem gro_holdsb_partial : forall (canUDP : bool) (offset : N) (bufs : list buf),
  preb offset bufs = true -> bytes_ok bufs ->
  let s := handle_gro canUDP offset bufs in
  s_err s = false /\ holdsb_restricted bufs (s_tw s) (s_bufs s) = true.
Proof.
  intros udp off inp Hpre Hbytes s. destruct (preb_facts _ _ Hpre) as [Hoff Hne].
  pose proof (gro_no_error udp off inp Hoff Hne) as He. fold s in He. split; [exact He|].
  unfold holdsb_restricted. apply andb_true_iff. split; [apply andb_true_iff; split|];
    [apply (gro_holds_core udp off inp Hbytes He)|apply (gro_udp_order_restricted udp off inp He)|apply (gro_csum_kept udp off inp Hbytes He)].
Qed.
Print Assumptions gro_holdsb_partial.

(* every datagram the kernel makes of what is written passes the filter, if the batch does *)
Lemma keep_of_eligible p : Check.udp_eligible p = true -> Check.keep_eligible p = true.
Proof. intros E. unfold Check.keep_eligible. rewrite E. destruct (udp_flow p); reflexivity. Qed.
Lemma keep_of_no_flow p : udp_flow p = None -> Check.keep_eligible p = true.
Proof. intros E. unfold Check.keep_eligible. rewrite E. reflexivity. Qed.

Lemma gro_segments_keep : forall (canUDP : bool) (offset : N) (bufs : list buf),
  let s := handle_gro canUDP offset bufs in
  s_err s = false -> (forall b, In b bufs -> Check.keep_eligible (b_pkt b) = true) ->
  forall p, In p (segments (s_tw s) (s_bufs s)) -> Check.keep_eligible p = true.
Proof.
  intros udp off inp s He Hin p Hp.
  pose proof (gro_bookkeeping udp off inp He) as [_ [_ [Hbound _]]]. fold s in Hbound.
  unfold segments, written in Hp. rewrite flat_map_map in Hp. apply in_flat_map in Hp as [j [Hj Hp]].
  destruct (merged_dec (s_trace s) j) as [Hm|Hm].
  - destruct (N.eq_dec (v_gso (dec_vhdr (b_hdr (get_buf (s_bufs s) j)))) GSO_UDP_L4) as [Eu|Eu].
    + destruct (gro_udp_segments_eligible udp off inp j He Hm Eu) as [Hel _]. fold s in Hel.
      apply keep_of_eligible.
      assert (Hx : In (Check.udp_eligible p, mkey p) (map (fun m => (true, mkey (pk inp m))) (members (s_trace s) j))).
      { rewrite <- Hel. apply (in_map (fun p => (Check.udp_eligible p, mkey p))). exact Hp. }
      apply in_map_iff in Hx as [m [E _]]. inversion E. reflexivity.
    + destruct (gro_tcp_segments_no_udp_flow udp off inp j He Hm Eu) as [Hs _]. fold s in Hs.
      apply keep_of_no_flow. apply Hs. exact Hp.
  - destruct (gro_passthrough udp off inp j He Hj Hm) as [Hpp Hz]. fold s in Hpp, Hz.
    rewrite Hz, kernel_segment_zero, Hpp in Hp. destruct Hp as [<-|[]].
    apply Hin. unfold get_buf. apply nth_In. specialize (Hbound j Hj). unfold len in Hbound. rewrite map_length in Hbound. lia.
Qed.

Lemma filter_all {A} (f : A -> bool) l : (forall x, In x l -> f x = true) -> filter f l = l.
Proof. induction l as [|x l IH]; intros H; cbn [filter]; [reflexivity|]. rewrite (H x) by (left; reflexivity). f_equal. apply IH. intros y Hy. apply H. right. exact Hy. Qed.

Theorem gro_holdsb_eligible_batches : forall (canUDP : bool) (offset : N) (bufs : list buf),
  preb offset bufs = true -> bytes_ok bufs ->
  forallb (fun b => Check.keep_eligible (b_pkt b)) bufs = true ->
  let s := handle_gro canUDP offset bufs in
  s_err s = false /\ holdsb bufs (s_tw s) (s_bufs s) = true.
Proof.
  intros udp off inp Hpre Hbytes Hall s.
  destruct (gro_holdsb_partial udp off inp Hpre Hbytes) as [He Hr]. fold s in He, Hr. split; [exact He|].
  rewrite forallb_forall in Hall.
  unfold holdsb_restricted in Hr. apply andb_true_iff in Hr as [Hr H6]. apply andb_true_iff in Hr as [Hc Ho].
  assert (Ho' : udp_order_ok inp (s_tw s) (s_bufs s) = true).
  { unfold udp_order_ok. unfold udp_order_gen in *.
    rewrite (filter_all Check.keep_eligible (map b_pkt inp)) in Ho by (intros x Hx; apply in_map_iff in Hx as [b [<- Hb]]; apply Hall; exact Hb).
    rewrite (filter_all Check.keep_eligible (segments (s_tw s) (s_bufs s))) in Ho by (apply (gro_segments_keep udp off inp He); exact Hall).
    rewrite !(filter_all (fun _ => true)) by reflexivity. exact Ho. }
  rewrite holdsb_clauses. unfold holdsb_core in Hc.
  apply andb_true_iff in Hc as [Hc H4]. apply andb_true_iff in Hc as [Hc H3]. apply andb_true_iff in Hc as [H1 H2].
  rewrite H1, H2, H3, H4, Ho', H6. reflexivity.
Qed.
Print Assumptions gro_holdsb_eligible_batches.

(* the hypotheses are satisfiable by a batch on which TCP and UDP coalescing happens *)
Definition bytes_okb (inp : list buf) : bool := forallb (fun b => forallb (fun x => x <? 256) (b_pkt b)) inp.
Lemma bytes_okb_ok inp : bytes_okb inp = true -> bytes_ok inp.
Proof.
  unfold bytes_okb, bytes_ok. intros H b Hb x Hx. rewrite forallb_forall in H. specialize (H b Hb).
  rewrite forallb_forall in H. apply N.ltb_lt. apply H. exact Hx.
Qed.
Lemma eligible_batches_nonvacuous :
  preb 16 ex_mixed = true /\ bytes_okb ex_mixed = true /\
  forallb (fun b => Check.keep_eligible (b_pkt b)) ex_mixed = true /\
  existsb (fun j => v_gso (dec_vhdr (b_hdr (get_buf (s_bufs (run ex_mixed)) j))) =? GSO_UDP_L4) (s_tw (run ex_mixed)) = true.
Proof. vm_compute. repeat split; reflexivity. Qed.

(* History of the repaired defect gro-tcp-ns-flag-lost-in-merge: the code before the fix (Old) merges two
   adjacent segments, the second with TCP byte 12 = 0x51, and both leave the kernel with 0x50: clause 6
   fails (only through that bit).  Now a segment with a non-zero low nibble is never a candidate: the
   same batch is passed through and satisfies the whole specification. *)
Definition ex_ns : list buf :=
  let q := tcp4 101 16 100 in
  map (mkb z10 65535) [tcp4 1 16 100; put_be16 (put_byte q 32 81) 36 (be16 q 36 - 256)].
Lemma old_ns_flag_lost :
  preb 16 ex_ns = true /\ bytes_okb ex_ns = true /\ forallb (fun b => l4_csum_ok (b_pkt b)) ex_ns = true /\
  (let s := run_old ex_ns in s_err s = false /\ s_tw s = [0] /\
     map nsbit (segments (s_tw s) (s_bufs s)) = [0; 0] /\ map (fun b => nsbit (b_pkt b)) ex_ns = [0; 1] /\
     csum_kept_ok ex_ns (s_tw s) (s_bufs s) = false /\ csum_kept_gen false ex_ns (s_tw s) (s_bufs s) = true /\
     floweq_ok ex_ns (s_tw s) (s_bufs s) = true /\ holdsb ex_ns (s_tw s) (s_bufs s) = false).
Proof. vm_compute. repeat split; reflexivity. Qed.
Theorem old_csum_kept_refuted :
  ~ (forall canUDP offset bufs, bytes_ok bufs -> let s := Old.handle_gro canUDP offset bufs in
       s_err s = false -> csum_kept_ok bufs (s_tw s) (s_bufs s) = true).
Proof.
  intros H. specialize (H true 16 ex_ns (bytes_okb_ok _ (proj1 (proj2 old_ns_flag_lost)))).
  destruct old_ns_flag_lost as [_ [_ [_ [He [_ [_ [_ [Hk _]]]]]]]]. unfold run_old in *. rewrite (H He) in Hk. discriminate.
Qed.
Print Assumptions old_csum_kept_refuted.
Lemma ns_scenario_holds : s_tw (run ex_ns) = [0; 1] /\ s_trace (run ex_ns) = [Inserted; Noop] /\ holds ex_ns = true.
Proof. vm_compute. repeat split; reflexivity. Qed.
