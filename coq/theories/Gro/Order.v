(* UDP order: among the datagrams of a flow that the coalescer considers, the order
   in which they leave (written buffers in toWrite order, each contributing its
   members in order) is the order in which they came.  Also: no error return for
   well-formed calls. *)
From WG Require Import Base.Prelude Gen.Constants Gro.Bytes Gro.Model Gro.KernelSpec Gro.Spec Gro.Proofs Gro.Csum Gro.Headers Gro.HeadersTcp Gro.Lossless.
From WG Require Gro.Check.
From Coq Require Import Permutation.
Local Open Scope N_scope.

(* ------------------------------------------------------- no error return *)
Lemma gro_step_no_err udp off s i :
  s_err s = false -> VH <= off -> b_pkt (get_buf (s_bufs s) i) <> [] -> s_err (gro_step udp off s i) = false.
Proof.
  intros He Ho Hp. unfold gro_step. rewrite He.
  destruct (N.ltb_spec off VH); [lia|]. cbn [orb].
  destruct (N.eqb_spec (len (b_pkt (get_buf (s_bufs s) i))) 0) as [E|E]; [apply len_nil_iff in E; contradiction|].
  destruct (classify _ udp).
  - reflexivity.
  - destruct (tcp_gro _ _ _ _ _) as [[r b] t]. destruct r; reflexivity.
  - destruct (tcp_gro _ _ _ _ _) as [[r b] t]. destruct r; reflexivity.
  - destruct (udp_gro _ _ _ _ _) as [[r b] t]. destruct r; reflexivity.
  - destruct (udp_gro _ _ _ _ _) as [[r b] t]. destruct r; reflexivity.
Qed.

Lemma loop_no_err udp off inp : VH <= off -> (forall b, In b inp -> b_pkt b <> []) ->
  forall k, (k <= length inp)%nat -> s_err (loop_k udp off inp k) = false.
Proof.
  intros Ho Hne. induction k as [|k IH]; intros Hk; [reflexivity|].
  specialize (IH ltac:(lia)). pose proof (loop_inv udp off inp k ltac:(lia) IH) as I.
  unfold loop_k in *. rewrite indices_S, fold_left_app. cbn [fold_left]. rewrite N.add_0_l.
  apply gro_step_no_err; [exact IH|exact Ho|].
  rewrite (i_rest _ _ _ I) by lia. apply Hne. unfold get_buf. apply nth_In. lia.
Qed.

Theorem gro_no_error : forall (canUDP : bool) (offset : N) (bufs : list buf),
  VH <= offset -> (forall b, In b bufs -> b_pkt b <> []) -> s_err (handle_gro canUDP offset bufs) = false.
Proof.
  intros udp off inp Ho Hne. unfold handle_gro. rewrite gro_loop_is.
  pose proof (loop_no_err udp off inp Ho Hne (length inp) (le_n _)) as H. rewrite H. reflexivity.
Qed.

(* ----------------------------------------------- strictly increasing lists *)
Fixpoint incr (l : list N) : Prop :=
  match l with
  | [] => True
  | x :: r => (forall y, In y r -> x < y) /\ incr r
  end.
Lemma incr_app a b : incr a -> incr b -> (forall x y, In x a -> In y b -> x < y) -> incr (a ++ b).
Proof.
  induction a as [|x a IH]; intros Ha Hb H; [exact Hb|]. cbn [app incr] in *. destruct Ha as [H1 H2]. split.
  - intros y Hy. apply in_app_or in Hy as [Hy|Hy]; [apply H1; exact Hy|apply H; [left; reflexivity|exact Hy]].
  - apply IH; auto. intros x' y' Hx' Hy'. apply H; [right; exact Hx'|exact Hy'].
Qed.
Lemma incr_filter f l : incr l -> incr (filter f l).
Proof.
  induction l as [|x l IH]; intros H; [exact I|]. cbn [incr filter] in *. destruct H as [H1 H2].
  destruct (f x); [|apply IH; exact H2]. cbn [incr]. split; [|apply IH; exact H2].
  intros y Hy. apply filter_In in Hy as [Hy _]. apply H1. exact Hy.
Qed.
Lemma incr_ext a : forall b, incr a -> incr b -> (forall x, In x a <-> In x b) -> a = b.
Proof.
  induction a as [|x a IH]; intros [|y b] Ha Hb H.
  - reflexivity.
  - exfalso. apply (proj2 (H y)). left. reflexivity.
  - exfalso. apply (proj1 (H x)). left. reflexivity.
  - cbn [incr] in *. destruct Ha as [Ha1 Ha2]. destruct Hb as [Hb1 Hb2].
    assert (E : x = y).
    { destruct (proj1 (H x) (or_introl eq_refl)) as [E|Hx]; [auto|].
      destruct (proj2 (H y) (or_introl eq_refl)) as [E|Hy]; [auto|].
      pose proof (Hb1 x Hx). pose proof (Ha1 y Hy). lia. }
    subst y. f_equal. apply IH; auto. intros z. split; intros Hz.
    + destruct (proj1 (H z) (or_intror Hz)) as [E|Hz']; [|exact Hz']. subst z. pose proof (Ha1 x Hz). lia.
    + destruct (proj2 (H z) (or_intror Hz)) as [E|Hz']; [|exact Hz']. subst z. pose proof (Hb1 x Hz). lia.
Qed.
Lemma incr_indices n : forall from, incr (indices n from).
Proof.
  induction n as [|n IH]; intros from; cbn [indices incr]; [exact I|]. split; [|apply IH].
  intros y Hy. clear IH. revert from y Hy. induction n as [|n IHn]; intros from y Hy; [destruct Hy|].
  cbn [indices] in Hy. destruct Hy as [<-|Hy]; [lia|]. specialize (IHn (from + 1) y Hy). lia.
Qed.
Lemma in_indices n : forall from x, In x (indices n from) <-> from <= x < from + N.of_nat n.
Proof.
  induction n as [|n IH]; intros from x; cbn [indices In]; [lia|]. rewrite IH. lia.
Qed.
Lemma incr_tw_of tr : forall i0, incr (tw_of tr i0).
Proof.
  induction tr as [|r tr IH]; intros i0; cbn [tw_of]; [exact I|].
  destruct (is_coal r); cbn [app]; [apply IH|]. cbn [incr]. split; [|apply IH].
  intros y Hy. apply tw_of_bound in Hy. lia.
Qed.

(* --------------------------------------------------------- table lookups *)
Lemma tlookup_tset_other k k' v t : list_eqb k k' = false -> tlookup k (tset k' v t) = tlookup k t.
Proof.
  intros Hne. induction t as [|[k2 its] t IH]; cbn [tset tlookup].
  - rewrite Hne. reflexivity.
  - destruct (list_eqb k' k2) eqn:E; cbn [tlookup].
    + apply list_eqb_eq in E. subst k2. rewrite Hne. reflexivity.
    + destruct (list_eqb k k2); [reflexivity|exact IH].
Qed.
Lemma list_eqb_false_ne a b : list_eqb a b = false -> a <> b.
Proof. intros H E. subst. rewrite list_eqb_refl in H. discriminate. Qed.
Lemma list_eqb_dec a b : {a = b} + {list_eqb a b = false}.
Proof. destruct (list_eqb a b) eqn:E; [left; apply list_eqb_eq; exact E|right; reflexivity]. Qed.

(* ------------------------------------------------ what udpGRO does, exactly *)
Definition udp_gates (pkt : list N) (v6 : bool) : bool :=
  match ip_gate pkt v6 with
  | Some iph => (iph + UDPH <? len pkt) && frag_gate pkt v6
  | None => false
  end.
Definition udp_iph (v6 : bool) (pkt : list N) : N := if v6 then 40 else (byte_at pkt 0 mod 16) * 4.
Definition udp_key (pkt : list N) (v6 : bool) : list N := flow_key pkt v6 (udp_iph v6 pkt) false.

Lemma udp_gro_cases bufs off i t v6 : keys_ok t ->
  let pkt := b_pkt (get_buf bufs i) in
  if udp_gates pkt v6 then
    let key := udp_key pkt v6 in
    (exists new, udp_gro bufs off i t v6 = (Inserted, bufs, tinsert t new) /\ it_key new = key /\ it_idx new = i) \/
    (exists L it it' b', tlookup key t = Some L /\ L <> [] /\ nth_error L (length L - 1) = Some it /\
       udp_gro bufs off i t v6 = (Coalesced (it_idx it) false, b', tupdate t it' (length L - 1)) /\
       it_key it' = key /\ it_key it = key /\ it_idx it' = it_idx it)
  else udp_gro bufs off i t v6 = (Noop, bufs, t).
Proof.
  intros Hkeys pkt. unfold udp_gates, udp_gro, udp_key, udp_iph. fold pkt. unfold ip_gate.
  destruct (tun_maxUint16 <? len pkt); [reflexivity|].
  set (iph := if v6 then 40 else byte_at pkt 0 mod 16 * 4).
  destruct (if v6 then negb (be16 pkt 4 =? len pkt - iph) else negb (be16 pkt 2 =? len pkt)); [reflexivity|].
  destruct (N.ltb_spec (len pkt) iph); [reflexivity|].
  destruct (N.ltb_spec (iph + UDPH) (len pkt)) as [Hgt|Hle]; cbn [andb].
  2:{ destruct (N.ltb_spec (len pkt) (iph + UDPH)); [reflexivity|]. destruct (negb (frag_gate pkt v6)); [reflexivity|].
      destruct (N.ltb_spec (len pkt - UDPH - iph) 1); [reflexivity|lia]. }
  destruct (N.ltb_spec (len pkt) (iph + UDPH)); [lia|].
  destruct (frag_gate pkt v6); cbn [negb]; [|reflexivity].
  destruct (N.ltb_spec (len pkt - UDPH - iph) 1); [lia|].
  set (key := flow_key pkt v6 iph false).
  set (newit := fun bad => {| it_key := key; it_v6 := v6; it_seq := 0; it_idx := i; it_merged := 0;
                   it_gso := len pkt - UDPH - iph; it_iph := iph; it_tcph := 0; it_psh := false; it_bad := bad |}).
  assert (Hins : forall bad, exists new, (Inserted, bufs, tinsert t (newit bad)) = (Inserted, bufs, tinsert t new) /\ it_key new = key /\ it_idx new = i)
    by (intros bad; exists (newit bad); auto).
  destruct (tlookup key t) as [L|] eqn:Hlk; [|left; apply Hins].
  destruct L as [|x0 L0] eqn:EL; [left; apply Hins|]. rewrite <- EL in *.
  set (n := (length L - 1)%nat). set (it := nth n L dummy_item).
  assert (Hnth : nth_error L n = Some it) by (apply nth_error_nth'; subst L; cbn [length] in *; unfold n; cbn [length]; lia).
  destruct (udp_can_coalesce pkt iph (len pkt - UDPH - iph) it (b_pkt (get_buf bufs (it_idx it)))); try (left; apply Hins).
  destruct (coalesce_udp pkt it bufs off v6) as [[res it'] b'] eqn:Hco.
  destruct res; try (left; apply Hins).
  right. exists L, it, it', b'.
  destruct (coalesce_udp_success _ _ _ _ _ _ _ Hco) as [[Sk [_ [Si _]]] _].
  refine (conj eq_refl (conj _ (conj Hnth (conj eq_refl _)))); [rewrite EL; discriminate|].
  assert (Hit : it_key it = key) by (apply (keys_ok_lookup t key L Hkeys Hlk); eapply nth_error_In; eauto).
  repeat split; congruence.
Qed.

(* ------------------------------------- eligibility and the flow of a datagram *)
Definition el_v6 (p : list N) : option bool :=
  match classify p true with Udp4 => Some false | Udp6 => Some true | _ => None end.
Definition mkey (p : list N) : list N := match el_v6 p with Some v6 => udp_key p v6 | None => [] end.
Lemma eligible_eq p : Check.udp_eligible p = match el_v6 p with Some v6 => udp_gates p v6 | None => false end.
Proof.
  unfold Check.udp_eligible, el_v6, udp_gates. destruct (classify p true); try reflexivity.
  destruct (ip_gate p true); [|reflexivity]. unfold frag_gate. rewrite andb_true_r. reflexivity.
Qed.
Lemma classify_mono p u c : classify p u = c -> c <> NotCand -> classify p true = c.
Proof.
  unfold classify. destruct (len p <? 28); [intros <- H; contradiction|].
  destruct (byte_at p 0 / 16 =? 4).
  - destruct (negb (byte_at p 0 mod 16 =? 5)); [intros <- H; contradiction|].
    destruct ((byte_at p 9 =? IPPROTO_TCP) && (40 <=? len p)); [auto|].
    destruct (byte_at p 9 =? IPPROTO_UDP); cbn [andb]; [|intros <- H; contradiction]. destruct u; [auto|intros <- H; contradiction].
  - destruct (byte_at p 0 / 16 =? 6); [|intros <- H; contradiction].
    destruct ((byte_at p 6 =? IPPROTO_TCP) && (60 <=? len p)); [auto|].
    destruct ((byte_at p 6 =? IPPROTO_UDP) && (48 <=? len p)); cbn [andb]; [|intros <- H; contradiction]. destruct u; [auto|intros <- H; contradiction].
Qed.
Lemma classify_udp_flag p u : classify p u = Udp4 \/ classify p u = Udp6 -> u = true.
Proof.
  unfold classify. destruct (len p <? 28); [intros [H|H]; discriminate|].
  destruct (byte_at p 0 / 16 =? 4).
  - destruct (negb (byte_at p 0 mod 16 =? 5)); [intros [H|H]; discriminate|].
    destruct ((byte_at p 9 =? IPPROTO_TCP) && (40 <=? len p)); [intros [H|H]; discriminate|].
    destruct (byte_at p 9 =? IPPROTO_UDP); cbn [andb]; [|intros [H|H]; discriminate]. destruct u; [auto|intros [H|H]; discriminate].
  - destruct (byte_at p 0 / 16 =? 6); [|intros [H|H]; discriminate].
    destruct ((byte_at p 6 =? IPPROTO_TCP) && (60 <=? len p)); [intros [H|H]; discriminate|].
    destruct ((byte_at p 6 =? IPPROTO_UDP) && (48 <=? len p)); cbn [andb]; [|intros [H|H]; discriminate]. destruct u; [auto|intros [H|H]; discriminate].
Qed.

(* one step of handleGRO, seen from the UDP table *)
Definition step_udp (udp : bool) (s : state) (i : N) (s' : state) : Prop :=
  let pkt := b_pkt (get_buf (s_bufs s) i) in
  (udp = true /\ Check.udp_eligible pkt = true /\
   ((exists new, s_trace s' = s_trace s ++ [Inserted] /\ s_tw s' = s_tw s ++ [i] /\ s_udp s' = tinsert (s_udp s) new /\
                 it_key new = mkey pkt /\ it_idx new = i) \/
    (exists L it it', s_trace s' = s_trace s ++ [Coalesced (it_idx it) false] /\ s_tw s' = s_tw s /\
                 tlookup (mkey pkt) (s_udp s) = Some L /\ L <> [] /\ nth_error L (length L - 1) = Some it /\
                 s_udp s' = tupdate (s_udp s) it' (length L - 1) /\
                 it_key it' = mkey pkt /\ it_key it = mkey pkt /\ it_idx it' = it_idx it))) \/
  (~ (udp = true /\ Check.udp_eligible pkt = true) /\ s_udp s' = s_udp s /\
   exists r, s_trace s' = s_trace s ++ [r] /\ s_tw s' = s_tw s ++ (if is_coal r then [] else [i]) /\
             (is_coal r = true -> Check.udp_eligible pkt = false)).

Lemma gro_step_udp udp off s i :
  keys_ok (s_udp s) -> s_err s = false -> s_err (gro_step udp off s i) = false -> step_udp udp s i (gro_step udp off s i).
Proof.
  intros Hku He. unfold gro_step, step_udp. rewrite He.
  set (pkt := b_pkt (get_buf (s_bufs s) i)).
  destruct ((off <? VH) || (len pkt =? 0)); [cbn; discriminate|]. intros _.
  destruct (classify pkt udp) eqn:Hcl.
  - right. split.
    { intros [-> He2]. rewrite eligible_eq in He2. unfold el_v6 in He2. rewrite Hcl in He2. discriminate. }
    split; [reflexivity|]. exists Noop. cbn. repeat split; auto; try discriminate.
  - right. pose proof (classify_mono _ _ _ Hcl ltac:(discriminate)) as Hc1.
    assert (Hne : Check.udp_eligible pkt = false) by (rewrite eligible_eq; unfold el_v6; rewrite Hc1; reflexivity).
    split; [intros [_ H]; congruence|]. destruct (tcp_gro _ _ _ _ _) as [[r b] t].
    split; [destruct r; reflexivity|]. exists r. destruct r; cbn; repeat split; auto; rewrite ?app_nil_r; reflexivity.
  - right. pose proof (classify_mono _ _ _ Hcl ltac:(discriminate)) as Hc1.
    assert (Hne : Check.udp_eligible pkt = false) by (rewrite eligible_eq; unfold el_v6; rewrite Hc1; reflexivity).
    split; [intros [_ H]; congruence|]. destruct (tcp_gro _ _ _ _ _) as [[r b] t].
    split; [destruct r; reflexivity|]. exists r. destruct r; cbn; repeat split; auto; rewrite ?app_nil_r; reflexivity.
  - pose proof (classify_udp_flag _ _ (or_introl Hcl)) as Hu. subst udp.
    pose proof (udp_gro_cases (s_bufs s) off i (s_udp s) false Hku) as Hc. cbv zeta in Hc. fold pkt in Hc.
    assert (Hel : Check.udp_eligible pkt = udp_gates pkt false) by (rewrite eligible_eq; unfold el_v6; rewrite Hcl; reflexivity).
    assert (Hmk : mkey pkt = udp_key pkt false) by (unfold mkey, el_v6; rewrite Hcl; reflexivity).
    destruct (udp_gates pkt false).
    + left. split; [reflexivity|]. split; [exact Hel|]. rewrite Hmk.
      destruct Hc as [[new [E [H1 H2]]]|[L [it [it' [b' [H1 [H2 [H3 [E [H4 [H5 H6]]]]]]]]]]]; rewrite E.
      * left. exists new. cbn. auto.
      * right. exists L, it, it'. cbn. repeat split; auto.
    + right. rewrite Hc. split; [intros [_ H]; congruence|]. split; [reflexivity|]. exists Noop. cbn. repeat split; auto; try discriminate.
  - pose proof (classify_udp_flag _ _ (or_intror Hcl)) as Hu. subst udp.
    pose proof (udp_gro_cases (s_bufs s) off i (s_udp s) true Hku) as Hc. cbv zeta in Hc. fold pkt in Hc.
    assert (Hel : Check.udp_eligible pkt = udp_gates pkt true) by (rewrite eligible_eq; unfold el_v6; rewrite Hcl; reflexivity).
    assert (Hmk : mkey pkt = udp_key pkt true) by (unfold mkey, el_v6; rewrite Hcl; reflexivity).
    destruct (udp_gates pkt true).
    + left. split; [reflexivity|]. split; [exact Hel|]. rewrite Hmk.
      destruct Hc as [[new [E [H1 H2]]]|[L [it [it' [b' [H1 [H2 [H3 [E [H4 [H5 H6]]]]]]]]]]]; rewrite E.
      * left. exists new. cbn. auto.
      * right. exists L, it, it'. cbn. repeat split; auto.
    + right. rewrite Hc. split; [intros [_ H]; congruence|]. split; [reflexivity|]. exists Noop. cbn. repeat split; auto; try discriminate.
Qed.

(* ------------------------------------------------------ members, again *)
Lemma members_mono tr r j m : In m (members tr j) -> In m (members (tr ++ [r]) j).
Proof.
  intros H. rewrite members_app. unfold mem_step. cbn [snd fst]. destruct r as [| |j' p]; auto.
  destruct (j' =? j); [|exact H]. destruct p; [right; exact H|apply in_or_app; left; exact H].
Qed.
Lemma members_unique tr j1 j2 m : In j1 (tw_of tr 0) -> In j2 (tw_of tr 0) ->
  In m (members tr j1) -> In m (members tr j2) -> j1 = j2.
Proof.
  intros H1 H2 M1 M2. apply members_spec in M1, M2.
  assert (Hnc : forall j p, In m (tw_of tr 0) -> nth_error tr (N.to_nat m) = Some (Coalesced j p) -> False).
  { intros j p Hin Hn. apply (tw_of_not_coal tr 0 (N.to_nat m) _ Hn eq_refl). rewrite N.add_0_l, N2Nat.id. exact Hin. }
  destruct M1 as [->|[p1 [E1 _]]]; destruct M2 as [->|[p2 [E2 _]]]; try reflexivity.
  - exfalso. eapply Hnc; eauto.
  - exfalso. eapply Hnc; eauto.
  - rewrite E1 in E2. inversion E2. reflexivity.
Qed.
Lemma flat_members_bound tr m : valid_trace tr -> In m (flat_map (members tr) (tw_of tr 0)) -> m < N.of_nat (length tr).
Proof.
  intros Hv H. pose proof (Permutation_in _ (members_partition tr Hv) H) as Hi. apply in_indices in Hi. lia.
Qed.
Lemma filter_flat_map_ext {A} (f : N -> bool) (g g' : A -> list N) l :
  (forall x, In x l -> filter f (g' x) = filter f (g x)) -> filter f (flat_map g' l) = filter f (flat_map g l).
Proof.
  induction l as [|x l IH]; intros H; [reflexivity|]. cbn [flat_map]. rewrite !filter_app, H by (left; reflexivity).
  f_equal. apply IH. intros y Hy. apply H. right. exact Hy.
Qed.
Lemma incr_last_max (L : list item) it x : incr (map it_idx L) -> nth_error L (length L - 1) = Some it -> In x L -> it_idx x <= it_idx it.
Proof.
  induction L as [|y L IH]; intros Hi Hn Hx; [destruct Hx|]. cbn [map incr] in Hi. destruct Hi as [H1 H2].
  destruct L as [|z L'].
  - cbn in Hn. inversion Hn; subst. destruct Hx as [->|[]]. lia.
  - cbn [length] in Hn. replace (S (S (length L')) - 1)%nat with (S (length (z :: L') - 1)) in Hn by (cbn [length]; lia).
    cbn [nth_error] in Hn. destruct Hx as [->|Hx].
    + assert (In (it_idx it) (map it_idx (z :: L'))) by (apply in_map; eapply nth_error_In; eauto). pose proof (H1 _ H). lia.
    + apply IH; auto.
Qed.
Lemma incr_split_after l1 x l2 y : incr (l1 ++ x :: l2) -> In y l2 -> x < y.
Proof.
  induction l1 as [|a l1 IH]; cbn [app incr]; intros [H1 H2] Hy; [apply H1; exact Hy|apply IH; assumption].
Qed.

(* ------------------------------------------------------------ invariant *)
Definition pk (inp : list buf) (m : N) : list N := b_pkt (get_buf inp m).
Definition PK (inp : list buf) (K : list N) (m : N) : bool :=
  Check.udp_eligible (pk inp m) && list_eqb K (mkey (pk inp m)).
Definition flat (s : state) : list N := flat_map (members (s_trace s)) (s_tw s).

Record OInv (udp : bool) (inp : list buf) (s : state) : Prop := {
  o_sorted : forall K L, tlookup K (s_udp s) = Some L -> incr (map it_idx L);
  o_cover : udp = true -> forall m, m < N.of_nat (length (s_trace s)) -> Check.udp_eligible (pk inp m) = true ->
            exists L x, tlookup (mkey (pk inp m)) (s_udp s) = Some L /\ In x L /\ In m (members (s_trace s) (it_idx x));
  o_order : forall K, incr (filter (PK inp K) (flat s))
}.

Lemma inv_valid inp k s : Inv inp k s -> valid_trace (s_trace s).
Proof. intros I i j p Hn. destruct (i_coal _ _ _ I i j p Hn) as [H1 H2]. rewrite <- (i_tw _ _ _ I). auto. Qed.

Lemma oinv_init udp inp : OInv udp inp (init inp).
Proof. constructor; cbn; [discriminate|intros; lia|intros; exact I]. Qed.

Lemma flat_noncoal (s s' : state) k r :
  s_trace s' = s_trace s ++ [r] -> s_tw s' = s_tw s ++ [N.of_nat k] -> is_coal r = false ->
  length (s_trace s) = k -> ~ merged_into (s_trace s) (N.of_nat k) ->
  flat s' = flat s ++ [N.of_nat k].
Proof.
  intros Htr Htw Hr Hk Hf. unfold flat. rewrite Htr, Htw, flat_map_app. cbn [flat_map]. rewrite app_nil_r.
  assert (Hno : forall j p, r <> Coalesced j p) by (intros j p E; subst r; discriminate).
  rewrite (flat_map_members_ext (members (s_trace s ++ [r])) (members (s_trace s))) by (intros j Hj; apply members_app_other; apply Hno).
  rewrite members_app_other by apply Hno. rewrite (members_fresh _ _ Hf). reflexivity.
Qed.

Lemma oinv_step udp inp k s s' :
  (k < length inp)%nat -> Inv inp k s -> OInv udp inp s -> step_udp udp s (N.of_nat k) s' -> OInv udp inp s'.
Proof.
  intros Hk I O Hs.
  pose proof (inv_valid _ _ _ I) as Hv. pose proof (not_merged_fresh _ _ _ I) as Hfresh.
  pose proof (i_tr _ _ _ I) as Hlen. pose proof (i_tw _ _ _ I) as Htw0.
  assert (Hpk : b_pkt (get_buf (s_bufs s) (N.of_nat k)) = pk inp (N.of_nat k)) by (unfold pk; rewrite (i_rest _ _ _ I) by lia; reflexivity).
  assert (Hflt : forall m, In m (flat s) -> m < N.of_nat k).
  { intros m Hm. unfold flat in Hm. rewrite Htw0 in Hm. apply flat_members_bound in Hm; [|exact Hv]. lia. }
  assert (HidxL : forall K L x, tlookup K (s_udp s) = Some L -> In x L -> In (it_idx x) (s_tw s) /\ it_idx x < N.of_nat k).
  { intros K L x HL Hx. assert (Ht : In x (total s)) by (unfold total; apply in_or_app; right; eapply tlookup_in; eauto).
    destruct (i_items _ _ _ I x Ht) as [Hin _]. split; [exact Hin|]. rewrite Htw0 in Hin. apply tw_of_bound in Hin. lia. }
  (* appending index k at the end keeps every filtered list increasing *)
  assert (Hend : forall K, flat s' = flat s ++ [N.of_nat k] -> incr (filter (PK inp K) (flat s'))).
  { intros K E. rewrite E, filter_app. apply incr_app; [apply (o_order _ _ _ O)| |].
    - cbn [filter]. destruct (PK inp K (N.of_nat k)); cbn; auto. split; [intros y []|exact Logic.I].
    - intros x y Hx Hy. apply filter_In in Hx as [Hx _]. apply Hflt in Hx.
      cbn [filter] in Hy. destruct (PK inp K (N.of_nat k)); [|destruct Hy]. destruct Hy as [<-|[]]. exact Hx. }
  unfold step_udp in Hs. cbv zeta in Hs. rewrite Hpk in Hs.
  destruct Hs as [[Hu [Hel Hcase]]|[Hnot [Hsame [r [Htr [Htw Hcoal]]]]]].
  - destruct Hcase as [[new [Htr [Htw [Ht [Hkey Hidx]]]]]|[L [it [it' [Htr [Htw [HL [Hne [Hnth [Ht [Hk' [Hki Hii]]]]]]]]]]]].
    + (* a new item at the end of its flow *)
      set (key := mkey (pk inp (N.of_nat k))) in *.
      assert (Hlk : forall K, tlookup K (s_udp s') = if list_eqb K key then Some (titems key (s_udp s) ++ [new]) else tlookup K (s_udp s)).
      { intros K. rewrite Ht. unfold tinsert. rewrite Hkey. destruct (list_eqb K key) eqn:E.
        - apply list_eqb_eq in E. subst K. apply tlookup_tset.
        - apply tlookup_tset_other. exact E. }
      constructor.
      * intros K L HL. rewrite Hlk in HL. destruct (list_eqb K key) eqn:E; [|apply (o_sorted _ _ _ O K L HL)].
        inversion HL; subst L. rewrite map_app. cbn [map]. rewrite Hidx.
        unfold titems. destruct (tlookup key (s_udp s)) as [L0|] eqn:E0; cbn [app map].
        -- apply incr_app; [apply (o_sorted _ _ _ O key L0 E0)|cbn; split; [intros y []|exact Logic.I]|].
           intros x y Hx Hy. destruct Hy as [<-|[]]. apply in_map_iff in Hx as [x0 [<- Hx0]]. apply (HidxL key L0 x0 E0 Hx0).
        -- cbn. split; [intros y []|exact Logic.I].
      * intros _ m Hm Hem. rewrite Htr, app_length in Hm. cbn [length] in Hm.
        destruct (N.eq_dec m (N.of_nat k)) as [->|Hmk].
        -- exists (titems key (s_udp s) ++ [new]), new. rewrite Hlk. fold key. rewrite list_eqb_refl.
           refine (conj eq_refl (conj _ _)); [apply in_or_app; right; left; reflexivity|].
           rewrite Hidx. apply members_spec. left. reflexivity.
        -- destruct (o_cover _ _ _ O Hu m ltac:(lia) Hem) as [L0 [x [HL0 [Hx Hmx]]]].
           rewrite Hlk. destruct (list_eqb (mkey (pk inp m)) key) eqn:E.
           ++ apply list_eqb_eq in E. rewrite E in HL0. exists (titems key (s_udp s) ++ [new]), x.
              rewrite (titems_some _ _ _ HL0). refine (conj eq_refl (conj _ _)); [apply in_or_app; left; exact Hx|].
              rewrite Htr. apply members_mono. exact Hmx.
           ++ exists L0, x. refine (conj HL0 (conj Hx _)). rewrite Htr. apply members_mono. exact Hmx.
      * intros K. apply Hend. eapply flat_noncoal; eauto.
    + (* appended to the last item of its flow *)
      set (key := mkey (pk inp (N.of_nat k))) in *. set (n := (length L - 1)%nat) in *. set (j := it_idx it) in *.
      assert (HitL : In it L) by (eapply nth_error_In; eauto).
      assert (Hlk : forall K, tlookup K (s_udp s') = if list_eqb K key then Some (set_nth L n it') else tlookup K (s_udp s)).
      { intros K. rewrite Ht. unfold tupdate. rewrite Hk'. destruct (list_eqb K key) eqn:E.
        - apply list_eqb_eq in E. subst K. rewrite (titems_some _ _ _ HL). apply tlookup_tset.
        - apply tlookup_tset_other. exact E. }
      assert (Hmem' : forall j', j' <> j -> members (s_trace s') j' = members (s_trace s) j').
      { intros j' Hj'. rewrite Htr. apply members_app_other. intros p E. inversion E. congruence. }
      assert (Hmemj : members (s_trace s') j = members (s_trace s) j ++ [N.of_nat k]).
      { rewrite Htr, members_app. unfold mem_step. cbn [snd fst]. rewrite N.eqb_refl, Hlen. reflexivity. }
      constructor.
      * intros K L1 HL1. rewrite Hlk in HL1. destruct (list_eqb K key) eqn:E; [|apply (o_sorted _ _ _ O K L1 HL1)].
        inversion HL1; subst L1. rewrite map_set_nth, Hii. rewrite set_nth_same; [apply (o_sorted _ _ _ O key L HL)|].
        rewrite nth_error_map, Hnth. reflexivity.
      * intros _ m Hm Hem. rewrite Htr, app_length in Hm. cbn [length] in Hm.
        destruct (N.eq_dec m (N.of_nat k)) as [->|Hmk].
        -- exists (set_nth L n it'), it'. rewrite Hlk. fold key. rewrite list_eqb_refl.
           refine (conj eq_refl (conj _ _)); [eapply in_set_nth_new; eauto|].
           rewrite Hii. fold j. rewrite Hmemj. apply in_or_app. right. left. reflexivity.
        -- destruct (o_cover _ _ _ O Hu m ltac:(lia) Hem) as [L0 [x [HL0 [Hx Hmx]]]].
           rewrite Hlk. destruct (list_eqb (mkey (pk inp m)) key) eqn:E.
           ++ apply list_eqb_eq in E. rewrite E in HL0. rewrite HL in HL0. inversion HL0; subst L0.
              destruct (in_set_nth_keep L n it' x Hx) as [Hx'|Hx'].
              ** exists (set_nth L n it'), x. refine (conj eq_refl (conj Hx' _)). rewrite Htr. apply members_mono. exact Hmx.
              ** rewrite Hnth in Hx'. inversion Hx'; subst x. exists (set_nth L n it'), it'.
                 refine (conj eq_refl (conj _ _)); [eapply in_set_nth_new; eauto|]. rewrite Hii, Htr. apply members_mono. exact Hmx.
           ++ exists L0, x. refine (conj HL0 (conj Hx _)). rewrite Htr. apply members_mono. exact Hmx.
      * (* the order: everything of this flow written so far is in blocks up to j *)
        intros K. destruct (HidxL key L it HL HitL) as [Hjtw Hjlt].
        destruct (in_split _ _ Hjtw) as [t1 [t2 Et]].
        assert (Hnd : NoDup (s_tw s)) by (rewrite Htw0; apply tw_of_nodup).
        assert (Hinc : incr (s_tw s)) by (rewrite Htw0; apply incr_tw_of).
        rewrite Et in Hnd, Hinc.
        assert (Hj12 : ~ In j t1 /\ ~ In j t2) by (apply NoDup_remove_2 in Hnd; split; intros H; apply Hnd; apply in_or_app; auto).
        assert (Eold : flat s = flat_map (members (s_trace s)) t1 ++ members (s_trace s) j ++ flat_map (members (s_trace s)) t2).
        { unfold flat. rewrite Et, flat_map_app. reflexivity. }
        assert (Enew : flat s' = flat_map (members (s_trace s)) t1 ++ (members (s_trace s) j ++ [N.of_nat k]) ++ flat_map (members (s_trace s)) t2).
        { unfold flat. rewrite Htw, Et, flat_map_app. cbn [flat_map]. fold j. rewrite Hmemj.
          rewrite (flat_map_members_ext (members (s_trace s')) (members (s_trace s)) t1) by (intros j' Hj'; apply Hmem'; intros ->; apply (proj1 Hj12); exact Hj').
          rewrite (flat_map_members_ext (members (s_trace s')) (members (s_trace s)) t2) by (intros j' Hj'; apply Hmem'; intros ->; apply (proj2 Hj12); exact Hj').
          reflexivity. }
        pose proof (o_order _ _ _ O K) as Hold. rewrite Eold, !filter_app in Hold.
        rewrite Enew, !filter_app. cbn [filter].
        destruct (PK inp K (N.of_nat k)) eqn:EP; [|cbn [app]; rewrite app_nil_r; exact Hold].
        (* index k belongs to flow K: nothing of this flow lies behind block j *)
        assert (EK : K = key).
        { unfold PK in EP. apply andb_true_iff in EP as [_ E]. apply list_eqb_eq in E. exact E. }
        assert (Hempty : filter (PK inp K) (flat_map (members (s_trace s)) t2) = []).
        { destruct (filter (PK inp K) (flat_map (members (s_trace s)) t2)) as [|m rest] eqn:Ef; [reflexivity|]. exfalso.
          assert (Hm : In m (filter (PK inp K) (flat_map (members (s_trace s)) t2))) by (rewrite Ef; left; reflexivity).
          apply filter_In in Hm as [Hm HP]. apply in_flat_map in Hm as [j' [Hj' Hmj']].
          unfold PK in HP. apply andb_true_iff in HP as [HPe HPk]. apply list_eqb_eq in HPk.
          assert (Hmlt : m < N.of_nat k) by (apply Hflt; rewrite Eold; apply in_or_app; right; apply in_or_app; right; apply in_flat_map; exists j'; auto).
          destruct (o_cover _ _ _ O Hu m ltac:(lia) HPe) as [L0 [x [HL0 [Hx Hmx]]]].
          rewrite <- HPk, EK, HL in HL0. inversion HL0; subst L0.
          assert (Hj'tw : In j' (s_tw s)) by (rewrite Et; apply in_or_app; right; right; exact Hj').
          assert (Ej : j' = it_idx x).
          { rewrite Htw0 in Hj'tw. destruct (HidxL key L x HL Hx) as [Hxtw _]. rewrite Htw0 in Hxtw.
            eapply members_unique; eauto. }
          pose proof (incr_last_max L it x (o_sorted _ _ _ O key L HL) Hnth Hx) as Hle. fold j in Hle.
          pose proof (incr_split_after _ _ _ _ Hinc Hj'). lia. }
        rewrite Hempty in *. rewrite !app_nil_r in *. rewrite app_assoc.
        apply incr_app; [exact Hold|cbn; split; [intros y []|exact Logic.I]|].
        intros x y Hx Hy. destruct Hy as [<-|[]]. apply Hflt. rewrite Eold.
        apply in_app_or in Hx as [Hx|Hx]; apply filter_In in Hx as [Hx _]; [apply in_or_app; left; exact Hx|apply in_or_app; right; apply in_or_app; left; exact Hx].
  - (* the UDP table is untouched *)
    constructor.
    + intros K L HL. rewrite Hsame in HL. apply (o_sorted _ _ _ O K L HL).
    + intros Hu m Hm Hem. rewrite Htr, app_length in Hm. cbn [length] in Hm.
      destruct (N.eq_dec m (N.of_nat k)) as [->|Hmk]; [exfalso; apply Hnot; auto|].
      destruct (o_cover _ _ _ O Hu m ltac:(lia) Hem) as [L0 [x [HL0 [Hx Hmx]]]].
      exists L0, x. rewrite Hsame. refine (conj HL0 (conj Hx _)). rewrite Htr. apply members_mono. exact Hmx.
    + intros K. destruct (is_coal r) eqn:Er.
      * (* a TCP merge: index k is not a datagram the coalescer considers *)
        destruct r as [| |j p]; try discriminate. rewrite app_nil_r in Htw.
        assert (HPk : PK inp K (N.of_nat k) = false) by (unfold PK; rewrite (Hcoal eq_refl); reflexivity).
        assert (E : filter (PK inp K) (flat s') = filter (PK inp K) (flat s)).
        { unfold flat. rewrite Htw. apply filter_flat_map_ext. intros j' Hj'. rewrite Htr, members_app. unfold mem_step. cbn [snd fst].
          destruct (j =? j'); [|reflexivity]. rewrite Hlen. destruct p; [cbn [filter]; rewrite HPk; reflexivity|].
          rewrite filter_app. cbn [filter]. rewrite HPk. apply app_nil_r. }
        rewrite E. apply (o_order _ _ _ O).
      * apply Hend. eapply flat_noncoal; eauto.
Qed.

Lemma loop_oinv udp off inp k : (k <= length inp)%nat -> s_err (loop_k udp off inp k) = false -> OInv udp inp (loop_k udp off inp k).
Proof.
  induction k as [|k IH]; intros Hk He; [apply oinv_init|].
  pose proof (loop_inv udp off inp k ltac:(lia)) as HI.
  unfold loop_k in *. rewrite indices_S, fold_left_app in *. cbn [fold_left] in *. rewrite N.add_0_l in *.
  pose proof (err_sticky _ _ _ _ He) as He0. specialize (IH ltac:(lia) He0). specialize (HI He0).
  eapply oinv_step; [|exact HI|exact IH|]; [lia|]. apply gro_step_udp; auto. apply (i_ku _ _ _ HI).
Qed.

(* Index level: reading the written buffers in toWrite order, each contributing its members in
   order, the datagrams of flow K that the coalescer considers appear in the order of the batch. *)
Theorem gro_udp_order_indices : forall (canUDP : bool) (offset : N) (bufs : list buf) (K : list N),
  let s := handle_gro canUDP offset bufs in
  s_err s = false ->
  filter (PK bufs K) (flat_map (members (s_trace s)) (s_tw s)) = filter (PK bufs K) (indices (length bufs) 0).
Proof.
  intros udp off inp K s He. subst s. unfold handle_gro in *. rewrite gro_loop_is in *.
  set (s0 := loop_k udp off inp (length inp)) in *.
  assert (He0 : s_err s0 = false) by (destruct (s_err s0) eqn:E; [cbn iota in He; congruence|reflexivity]).
  rewrite He0. cbn [s_trace s_tw].
  pose proof (loop_inv udp off inp (length inp) (le_n _) He0) as I. fold s0 in I.
  pose proof (loop_oinv udp off inp (length inp) (le_n _) He0) as O. fold s0 in O.
  apply incr_ext.
  - apply (o_order _ _ _ O K).
  - apply incr_filter. apply incr_indices.
  - intros x. rewrite !filter_In. rewrite (i_tw _ _ _ I).
    pose proof (members_partition (s_trace s0) (inv_valid _ _ _ I)) as P. rewrite (i_tr _ _ _ I) in P.
    split; intros [H1 H2]; (split; [|exact H2]).
    + eapply Permutation_in; eauto.
    + eapply Permutation_in; [apply Permutation_sym; exact P|exact H1].
Qed.
Print Assumptions gro_udp_order_indices.

(* ----------------------------- which kind of packet is merged into which *)
Lemma classify_tcp_no_udp_flow p u : classify p u = Tcp4 \/ classify p u = Tcp6 -> udp_flow p = None.
Proof.
  unfold classify, udp_flow, l3_parse, IPPROTO_TCP, IPPROTO_UDP. destruct (N.ltb_spec (len p) 28) as [Hl|Hl]; [intros [H|H]; discriminate|].
  destruct (N.eqb_spec (byte_at p 0 / 16) 4) as [E4|E4].
  - destruct (N.eqb_spec (byte_at p 0 mod 16) 5) as [E5|E5]; cbn [negb]; [|intros [H|H]; discriminate].
    rewrite E5. change (5 * 4) with 20. destruct (N.ltb_spec (len p) 20) as [Hq|Hq]; [lia|]. cbn [orb N.ltb N.compare Pos.compare Pos.compare_cont].
    destruct (N.eqb_spec (byte_at p 9) 6) as [E9|E9]; cbn [andb].
    + intros _. rewrite E9. rewrite andb_false_r. reflexivity.
    + destruct (_ && u); intros [H|H]; discriminate.
  - destruct (N.eqb_spec (byte_at p 0 / 16) 6) as [E6|E6]; [|intros [H|H]; discriminate].
    destruct (N.leb_spec 40 (len p)) as [Hq|Hq]; cbn [andb]; [|intros; reflexivity].
    destruct (N.eqb_spec (byte_at p 6) 6) as [E9|E9]; cbn [andb].
    + intros _. rewrite E9. reflexivity.
    + destruct (_ && u); intros [H|H]; discriminate.
Qed.

(* one step of handleGRO, seen from the TCP table *)
Definition step_tcp (s : state) (i : N) (s' : state) : Prop :=
  let pkt := b_pkt (get_buf (s_bufs s) i) in
  (forall x, In x (all_items (s_tcp s')) -> (exists y, In y (all_items (s_tcp s)) /\ it_idx y = it_idx x) \/ (it_idx x = i /\ udp_flow pkt = None)) /\
  (forall r, s_trace s' = s_trace s ++ [r] -> forall j p, r = Coalesced j p -> Check.udp_eligible pkt = false ->
             udp_flow pkt = None /\ exists y, In y (all_items (s_tcp s)) /\ it_idx y = j).

Lemma gro_step_tcp udp off s i :
  keys_ok (s_tcp s) -> keys_ok (s_udp s) -> s_err s = false ->
  (forall it, In it (all_items (s_tcp s)) -> (N.to_nat (it_idx it) < length (s_bufs s))%nat) ->
  s_err (gro_step udp off s i) = false -> step_tcp s i (gro_step udp off s i).
Proof.
  intros Hkt Hku He Hrange. unfold gro_step, step_tcp. rewrite He.
  set (pkt := b_pkt (get_buf (s_bufs s) i)).
  destruct ((off <? VH) || (len pkt =? 0)); [cbn; discriminate|]. intros _.
  assert (Htcp : forall v6, cls_ok true v6 pkt -> udp_flow pkt = None ->
     let '(r, b, t) := tcp_gro (s_bufs s) off i (s_tcp s) v6 in
     (forall x, In x (all_items t) -> (exists y, In y (all_items (s_tcp s)) /\ it_idx y = it_idx x) \/ (it_idx x = i /\ udp_flow pkt = None)) /\
     (forall j p, r = Coalesced j p -> exists y, In y (all_items (s_tcp s)) /\ it_idx y = j)).
  { intros v6 Hcls Hnf. destruct (tcp_gro_spec (s_bufs s) off i (s_tcp s) v6 Hcls Hkt Hrange) as [bz [_ [_ Hs]]].
    destruct (tcp_gro (s_bufs s) off i (s_tcp s) v6) as [[r b] t].
    destruct Hs as [_ [pre [L [suf [L' [E [Hsub [_ Hm]]]]]]]]. pose proof (subz_sub _ _ Hsub) as Hsub'.
    assert (Hold : forall x, In x (pre ++ L' ++ suf) -> In x (all_items (s_tcp s))).
    { intros x Hx. rewrite E. apply in_app_or in Hx as [Hx|Hx]; [apply in_or_app; auto|].
      apply in_app_or in Hx as [Hx|Hx]; apply in_or_app; right; apply in_or_app; [left; eapply sub_in; eauto|auto]. }
    destruct r as [| |j p].
    - destruct Hm as [_ Em]. split; [|intros; discriminate]. intros x Hx. left. exists x. split; [apply Hold; rewrite <- Em; exact Hx|reflexivity].
    - destruct Hm as [_ [new [Hf Em]]]. split; [|intros; discriminate]. intros x Hx. rewrite Em in Hx.
      apply in_app_or in Hx as [Hx|Hx]; [left; exists x; split; [apply Hold; apply in_or_app; auto|reflexivity]|].
      apply in_app_or in Hx as [Hx|Hx]; [|left; exists x; split; [apply Hold; apply in_or_app; right; apply in_or_app; auto|reflexivity]].
      apply in_app_or in Hx as [Hx|[<-|[]]]; [left; exists x; split; [apply Hold; apply in_or_app; right; apply in_or_app; auto|reflexivity]|].
      right. split; [apply Hf|exact Hnf].
    - destruct Hm as [n [it [it' [Hn [Hj [Em Hmo]]]]]].
      assert (Hit : In it (all_items (s_tcp s))) by (apply Hold; apply in_or_app; right; apply in_or_app; left; eapply nth_error_In; eauto).
      pose proof (merged_ok_shape _ _ _ _ _ _ _ _ _ _ Hmo) as [_ [_ [Hsi _]]].
      split; [|intros j0 p0 E0; inversion E0; subst; exists it; auto].
      intros x Hx. rewrite Em in Hx. left.
      apply in_app_or in Hx as [Hx|Hx]; [exists x; split; [apply Hold; apply in_or_app; auto|reflexivity]|].
      apply in_app_or in Hx as [Hx|Hx]; [|exists x; split; [apply Hold; apply in_or_app; right; apply in_or_app; auto|reflexivity]].
      apply in_set_nth in Hx as [->|Hx]; [exists it; auto|exists x; split; [apply Hold; apply in_or_app; right; apply in_or_app; auto|reflexivity]]. }
  assert (Hsame : forall r, r = Noop \/ r = Inserted \/ (exists j p, r = Coalesced j p /\ Check.udp_eligible pkt = true) ->
     forall s', s_tcp s' = s_tcp s -> s_trace s' = s_trace s ++ [r] ->
     (forall x, In x (all_items (s_tcp s')) -> (exists y, In y (all_items (s_tcp s)) /\ it_idx y = it_idx x) \/ (it_idx x = i /\ udp_flow pkt = None)) /\
     (forall r0, s_trace s' = s_trace s ++ [r0] -> forall j p, r0 = Coalesced j p -> Check.udp_eligible pkt = false ->
        udp_flow pkt = None /\ exists y, In y (all_items (s_tcp s)) /\ it_idx y = j)).
  { intros r Hr s' Ht Htr. split; [intros x Hx; left; exists x; rewrite Ht in Hx; auto|].
    intros r0 Htr0 j p E0 Hne. rewrite Htr in Htr0. apply app_inj_tail in Htr0 as [_ <-].
    destruct Hr as [->|[->|[j1 [p1 [-> Hel]]]]]; try discriminate. congruence. }
  destruct (classify pkt udp) eqn:Hcl.
  - apply (Hsame Noop); auto.
  - pose proof (classify_facts pkt udp) as Hc. rewrite Hcl in Hc.
    pose proof (classify_tcp_no_udp_flow pkt udp (or_introl Hcl)) as Hnf. specialize (Htcp false Hc Hnf).
    destruct (tcp_gro (s_bufs s) off i (s_tcp s) false) as [[r b] t]. destruct Htcp as [H1 H2].
    split; [destruct r; cbn [s_tcp]; exact H1|].
    intros r0 Htr0 j p E0 _. split; [exact Hnf|]. apply (H2 j p).
    destruct r; cbn [s_trace] in Htr0; apply app_inj_tail in Htr0 as [_ <-]; exact E0.
  - pose proof (classify_facts pkt udp) as Hc. rewrite Hcl in Hc.
    pose proof (classify_tcp_no_udp_flow pkt udp (or_intror Hcl)) as Hnf. specialize (Htcp true Hc Hnf).
    destruct (tcp_gro (s_bufs s) off i (s_tcp s) true) as [[r b] t]. destruct Htcp as [H1 H2].
    split; [destruct r; cbn [s_tcp]; exact H1|].
    intros r0 Htr0 j p E0 _. split; [exact Hnf|]. apply (H2 j p).
    destruct r; cbn [s_trace] in Htr0; apply app_inj_tail in Htr0 as [_ <-]; exact E0.
  - pose proof (udp_gro_cases (s_bufs s) off i (s_udp s) false Hku) as Hc. cbv zeta in Hc. fold pkt in Hc.
    assert (Hel : Check.udp_eligible pkt = udp_gates pkt false).
    { rewrite eligible_eq. unfold el_v6. rewrite (classify_mono _ _ _ Hcl ltac:(discriminate)). reflexivity. }
    destruct (udp_gates pkt false).
    + destruct Hc as [[new [E _]]|[L [it [it' [b' [_ [_ [_ [E _]]]]]]]]]; rewrite E.
      * apply (Hsame Inserted); auto.
      * apply (Hsame (Coalesced (it_idx it) false)); auto. right; right. exists (it_idx it), false. auto.
    + rewrite Hc. apply (Hsame Noop); auto.
  - pose proof (udp_gro_cases (s_bufs s) off i (s_udp s) true Hku) as Hc. cbv zeta in Hc. fold pkt in Hc.
    assert (Hel : Check.udp_eligible pkt = udp_gates pkt true).
    { rewrite eligible_eq. unfold el_v6. rewrite (classify_mono _ _ _ Hcl ltac:(discriminate)). reflexivity. }
    destruct (udp_gates pkt true).
    + destruct Hc as [[new [E _]]|[L [it [it' [b' [_ [_ [_ [E _]]]]]]]]]; rewrite E.
      * apply (Hsame Inserted); auto.
      * apply (Hsame (Coalesced (it_idx it) false)); auto. right; right. exists (it_idx it), false. auto.
    + rewrite Hc. apply (Hsame Noop); auto.
Qed.

(* ----------------------------- the datagrams the kernel makes of a coalesced UDP buffer pass the coalescer's gates *)

Lemma be16_bytes_eq a b i : byte_at a i = byte_at b i -> byte_at a (i + 1) = byte_at b (i + 1) -> be16 a i = be16 b i.
Proof. unfold be16. intros -> ->. reflexivity. Qed.

Lemma seg_udp_len_field (v6 : bool) (tcph : N) (v : vhdr) (F : list N) (ltot i : N) (seg : list N) (lst : bool) :
  let iph := if v6 then 40 else 20 in
  v_cstart v = iph -> v_coff v = 6 -> v_hdrlen v = iph + 8 ->
  hdr_facts false v6 tcph F -> iph + 8 <= len F -> iph + 8 + len seg <= 65535 ->
  let s := build_segment v false (take (iph + 8) F) ltot i seg lst in
  if v6 then be16 s 4 = iph + 8 + len seg - 40 else be16 s 2 = iph + 8 + len seg.
Proof.
  intros iph Hcs Hco Hhl [F1 _] Hlf Hmax s. subst s.
  set (hl := iph + 8) in *. set (H := take hl F).
  assert (LH : len H = hl) by (apply len_take; exact Hlf).
  assert (Hiph : 20 <= iph /\ iph <= 40) by (unfold iph; destruct v6; lia).
  assert (BH : forall k, k < hl -> byte_at H k = byte_at F k) by (intros k Hk; apply byte_at_take; exact Hk).
  assert (Hv6 : is_v6 H = v6).
  { unfold is_v6. rewrite BH by lia. rewrite F1. destruct v6; reflexivity. }
  rewrite build_segment_eq. cbv zeta. rewrite Hv6, Hcs, Hco, Hhl.
  set (slen := hl + len seg).
  set (h1 := seg_h1 v6 H iph slen i).
  assert (Lh1 : len h1 = hl) by (unfold h1; rewrite seg_h1_len; lia).
  unfold seg_h2. rewrite Hcs.
  set (h2 := put_be16 h1 (iph + 4) (slen - iph)).
  assert (Lh2 : len h2 = hl) by (unfold h2; rewrite put_be16_len; lia).
  set (h3 := put_bytes h2 (iph + 6) [0; 0]).
  assert (Lh3 : len h3 = hl) by (unfold h3; rewrite len_put_bytes; [exact Lh2|]; change (len [0; 0]) with 2; lia).
  set (c' := seg_c v false H h2 ltot slen seg).
  set (Hs := put_be16 h3 (iph + 6) c').
  assert (LHs : len Hs = hl) by (unfold Hs; rewrite put_be16_len; lia).
  assert (B : forall k, k < 20 -> byte_at (Hs ++ seg) k = byte_at h1 k).
  { intros k Hk. rewrite byte_at_app_l by lia. unfold Hs. rewrite byte_at_put_be16_other by lia.
    unfold h3. rewrite byte_at_put_bytes_other by (change (len [0; 0]) with 2; lia).
    unfold h2. rewrite byte_at_put_be16_other by lia. reflexivity. }
  destruct v6.
  - rewrite (be16_bytes_eq _ h1) by (apply B; lia). unfold h1, seg_h1. rewrite be16_put_be16_same by lia. reflexivity.
  - rewrite (be16_bytes_eq _ h1) by (apply B; lia). unfold h1, seg_h1. cbv zeta.
    set (a := put_be16 H 2 slen). assert (La : len a = hl) by (unfold a; rewrite put_be16_len; lia).
    set (b := put_be16 a 4 _). assert (Lb : len b = hl) by (unfold b; rewrite put_be16_len; lia).
    set (c := put_bytes b 10 [0; 0]). assert (Lc : len c = hl) by (unfold c; rewrite len_put_bytes; [exact Lb|]; change (len [0; 0]) with 2; lia).
    rewrite be16_put_be16_other by lia.
    rewrite (be16_bytes_eq c b) by (unfold c; apply byte_at_put_bytes_other; change (len [0; 0]) with 2; lia).
    unfold b. rewrite be16_put_be16_other by lia. unfold a. rewrite be16_put_be16_same by lia. reflexivity.
Qed.

Lemma seg_udp_eligible (v6 : bool) (tcph : N) (v : vhdr) (F : list N) (ltot i : N) (seg : list N) (lst : bool) :
  let iph := if v6 then 40 else 20 in
  v_cstart v = iph -> v_coff v = 6 -> v_hdrlen v = iph + 8 ->
  hdr_facts false v6 tcph F -> iph + 8 <= len F -> 1 <= len seg -> iph + 8 + len seg <= 65535 ->
  Check.udp_eligible (build_segment v false (take (iph + 8) F) ltot i seg lst) = true.
Proof.
  intros iph Hcs Hco Hhl HhF Hlf Hs1 Hmax.
  pose proof (seg_udp_len_field v6 tcph v F ltot i seg lst Hcs Hco Hhl HhF Hlf Hmax) as LF.
  destruct (seg_udp_agree v6 tcph v F ltot i seg lst Hcs Hco Hhl HhF Hlf) as [Ls [_ As]].
  pose proof (hdr_facts_uagree v6 tcph _ _ As HhF) as [G1 [G2 [G3 _]]].
  unfold Check.udp_eligible, classify, ip_gate, frag_gate, IPPROTO_TCP, IPPROTO_UDP, UDPH, tun_udphLen, tun_maxUint16, tun_ipv4FlagMoreFragments.
  subst iph. destruct v6; cbv iota in *.
  - set (s := build_segment v false (take (40 + 8) F) ltot i seg lst) in *.
    rewrite G1. destruct (N.ltb_spec (len s) 28) as [Hq|Hq]; [lia|]. cbn [N.eqb Pos.eqb].
    rewrite G3. cbn [N.eqb Pos.eqb andb]. destruct (N.leb_spec 48 (len s)) as [Hq2|Hq2]; [|lia]. cbn [andb].
    destruct (N.ltb_spec 65535 (len s)); [lia|]. rewrite LF, Ls. rewrite N.eqb_refl. cbn [negb].
    destruct (N.ltb_spec (40 + 8 + len seg) 40); [lia|].
    destruct (N.ltb_spec (40 + 8) (40 + 8 + len seg)); [reflexivity|lia].
  - set (s := build_segment v false (take (20 + 8) F) ltot i seg lst) in *.
    rewrite G1. destruct (N.ltb_spec (len s) 28) as [Hq|Hq]; [lia|]. cbn [N.eqb Pos.eqb].
    destruct (G2 eq_refl) as [E5 [E6 E7]]. rewrite E5, G3. cbn [N.eqb Pos.eqb negb andb]. change (5 * 4) with 20.
    destruct (N.ltb_spec 65535 (len s)); [lia|]. rewrite LF, Ls, N.eqb_refl. cbn [negb].
    destruct (N.ltb_spec (20 + 8 + len seg) 20); [lia|].
    destruct (N.ltb_spec (20 + 8) (20 + 8 + len seg)); [|lia]. cbn [andb]. rewrite E7.
    assert (X0 : byte_at s 6 = (2 * (byte_at s 6 / 64)) * 32) by (pose proof (N.div_mod (byte_at s 6) 64); lia).
    assert (X1 : byte_at s 6 mod 32 = 0) by (rewrite X0; apply N.mod_mul; lia).
    assert (X2 : (byte_at s 6 / 32) mod 2 = 0) by (rewrite X0, N.div_mul by lia; rewrite N.mul_comm; apply N.mod_mul; lia).
    rewrite X1, X2. reflexivity.
Qed.

(* ----------------------------- what kind of packet sits in which table / was merged into which *)

Record KInv (inp : list buf) (s : state) : Prop := {
  k_udp : forall K L x, tlookup K (s_udp s) = Some L -> In x L ->
          Check.udp_eligible (pk inp (it_idx x)) = true /\ mkey (pk inp (it_idx x)) = K;
  k_tcp : forall x, In x (all_items (s_tcp s)) -> udp_flow (pk inp (it_idx x)) = None;
  k_tr : forall i j p, nth_error (s_trace s) i = Some (Coalesced j p) ->
         (Check.udp_eligible (pk inp (N.of_nat i)) = true /\ Check.udp_eligible (pk inp j) = true /\
          mkey (pk inp (N.of_nat i)) = mkey (pk inp j)) \/
         (udp_flow (pk inp (N.of_nat i)) = None /\ udp_flow (pk inp j) = None)
}.

Lemma kinv_init inp : KInv inp (init inp).
Proof. constructor; cbn; [discriminate|intros x []|intros [|i] j p H; discriminate]. Qed.

Lemma kinv_step udp inp k s s' :
  (k < length inp)%nat -> Inv inp k s -> KInv inp s -> step_udp udp s (N.of_nat k) s' -> step_tcp s (N.of_nat k) s' -> KInv inp s'.
Proof.
  intros Hk I O Hs Ht.
  pose proof (i_tr _ _ _ I) as Hlen.
  assert (Hpk : b_pkt (get_buf (s_bufs s) (N.of_nat k)) = pk inp (N.of_nat k)) by (unfold pk; rewrite (i_rest _ _ _ I) by lia; reflexivity).
  unfold step_udp in Hs. cbv zeta in Hs. rewrite Hpk in Hs.
  unfold step_tcp in Ht. cbv zeta in Ht. rewrite Hpk in Ht. destruct Ht as [Ht1 Ht2].
  assert (Ktcp : forall x, In x (all_items (s_tcp s')) -> udp_flow (pk inp (it_idx x)) = None).
  { intros x Hx. destruct (Ht1 x Hx) as [[y [Hy E]]|[E Hn]]; [rewrite <- E; apply (k_tcp _ _ O y Hy)|rewrite E; exact Hn]. }
  assert (Ktr : forall r, s_trace s' = s_trace s ++ [r] ->
            (forall j p, r = Coalesced j p ->
               (Check.udp_eligible (pk inp (N.of_nat k)) = true /\ Check.udp_eligible (pk inp j) = true /\
                mkey (pk inp (N.of_nat k)) = mkey (pk inp j)) \/
               (udp_flow (pk inp (N.of_nat k)) = None /\ udp_flow (pk inp j) = None)) ->
            forall i j p, nth_error (s_trace s') i = Some (Coalesced j p) ->
              (Check.udp_eligible (pk inp (N.of_nat i)) = true /\ Check.udp_eligible (pk inp j) = true /\
               mkey (pk inp (N.of_nat i)) = mkey (pk inp j)) \/
              (udp_flow (pk inp (N.of_nat i)) = None /\ udp_flow (pk inp j) = None)).
  { intros r Htr Hr i j p Hn. rewrite Htr in Hn.
    destruct (Nat.lt_ge_cases i (length (s_trace s))) as [Hi|Hi].
    - rewrite nth_error_app1 in Hn by exact Hi. apply (k_tr _ _ O i j p Hn).
    - rewrite nth_error_app2 in Hn by exact Hi. destruct (i - length (s_trace s))%nat as [|d] eqn:Ed; [|destruct d; discriminate].
      cbn in Hn. inversion Hn. assert (i = k) by lia. subst i. apply (Hr j p). assumption. }
  destruct Hs as [[Hu [Hel Hcase]]|[Hnot [Hsame [r [Htr [Htw Hcoal]]]]]].
  - destruct Hcase as [[new [Htr [Htw [Htb [Hkey Hidx]]]]]|[L [it [it' [Htr [Htw [HL [Hne [Hnth [Htb [Hk' [Hki Hii]]]]]]]]]]]].
    + set (key := mkey (pk inp (N.of_nat k))) in *.
      assert (Hlk : forall K, tlookup K (s_udp s') = if list_eqb K key then Some (titems key (s_udp s) ++ [new]) else tlookup K (s_udp s)).
      { intros K. rewrite Htb. unfold tinsert. rewrite Hkey. destruct (list_eqb K key) eqn:E.
        - apply list_eqb_eq in E. subst K. apply tlookup_tset.
        - apply tlookup_tset_other. exact E. }
      constructor; [|exact Ktcp|apply (Ktr _ Htr); intros; discriminate].
      intros K L0 x HL0 Hx. rewrite Hlk in HL0. destruct (list_eqb K key) eqn:E; [|apply (k_udp _ _ O K L0 x HL0 Hx)].
      apply list_eqb_eq in E. subst K. inversion HL0; subst L0. apply in_app_or in Hx as [Hx|[<-|[]]].
      * unfold titems in Hx. destruct (tlookup key (s_udp s)) as [L1|] eqn:E1; [|destruct Hx]. apply (k_udp _ _ O key L1 x E1 Hx).
      * rewrite Hidx. split; [exact Hel|reflexivity].
    + set (key := mkey (pk inp (N.of_nat k))) in *. set (n := (length L - 1)%nat) in *.
      assert (HitL : In it L) by (eapply nth_error_In; eauto).
      assert (Hlk : forall K, tlookup K (s_udp s') = if list_eqb K key then Some (set_nth L n it') else tlookup K (s_udp s)).
      { intros K. rewrite Htb. unfold tupdate. rewrite Hk'. destruct (list_eqb K key) eqn:E.
        - apply list_eqb_eq in E. subst K. rewrite (titems_some _ _ _ HL). apply tlookup_tset.
        - apply tlookup_tset_other. exact E. }
      destruct (k_udp _ _ O key L it HL HitL) as [Hej Hkj].
      constructor; [|exact Ktcp|].
      * intros K L0 x HL0 Hx. rewrite Hlk in HL0. destruct (list_eqb K key) eqn:E; [|apply (k_udp _ _ O K L0 x HL0 Hx)].
        apply list_eqb_eq in E. subst K. inversion HL0; subst L0. apply in_set_nth in Hx as [->|Hx].
        -- rewrite Hii. split; assumption.
        -- apply (k_udp _ _ O key L x HL Hx).
      * apply (Ktr _ Htr). intros j p E. inversion E; subst j p. left. refine (conj Hel (conj Hej _)). rewrite Hkj. reflexivity.
  - constructor; [|exact Ktcp|].
    + intros K L x HL Hx. rewrite Hsame in HL. apply (k_udp _ _ O K L x HL Hx).
    + apply (Ktr _ Htr). intros j p E. right. subst r.
      destruct (Ht2 _ Htr j p eq_refl (Hcoal eq_refl)) as [Hn [y [Hy Ey]]]. split; [exact Hn|]. rewrite <- Ey. apply (k_tcp _ _ O y Hy).
Qed.

Lemma loop_kinv udp off inp k : (k <= length inp)%nat -> s_err (loop_k udp off inp k) = false -> KInv inp (loop_k udp off inp k).
Proof.
  induction k as [|k IH]; intros Hk He; [apply kinv_init|].
  pose proof (loop_inv_all udp off inp k ltac:(lia)) as HI.
  unfold loop_k in *. rewrite indices_S, fold_left_app in *. cbn [fold_left] in *. rewrite N.add_0_l in *.
  pose proof (err_sticky _ _ _ _ He) as He0. specialize (IH ltac:(lia) He0). destruct (HI He0) as [I [I2 I3]].
  eapply kinv_step; [|exact I|exact IH| |]; [lia| |].
  - apply gro_step_udp; auto. apply (i_ku _ _ _ I).
  - apply gro_step_tcp; auto; [apply (i_kt _ _ _ I)|apply (i_ku _ _ _ I)|].
    intros it Hit. apply (inv_range inp k _ ltac:(lia) I). unfold total. apply in_or_app. left. exact Hit.
Qed.

(* ----------------------------- flow keys of the model and of the specification *)

Lemma chunks_in_len n : 1 <= n -> forall m l, (length l <= m)%nat -> forall c, In c (chunks n l) -> 1 <= len c /\ len c <= len l.
Proof.
  intros Hn. induction m as [|m IH]; intros l Hl c Hc.
  - destruct l; [rewrite chunks_nil in Hc; destruct Hc|cbn in Hl; lia].
  - destruct l as [|x l'] eqn:E; [rewrite chunks_nil in Hc; destruct Hc|]. rewrite <- E in *.
    rewrite chunks_unfold in Hc by (try exact Hn; rewrite E; discriminate). destruct Hc as [<-|Hc].
    + unfold len, take. rewrite firstn_length. rewrite E. cbn [length]. lia.
    + assert (Hd : (length (drop n l) <= m)%nat).
      { unfold drop. rewrite skipn_length. rewrite E in *. cbn [length] in *. lia. }
      destruct (IH _ Hd c Hc) as [H1 H2]. split; [exact H1|]. unfold len, drop in *. rewrite skipn_length in H2. lia.
Qed.

Lemma facts_el_v6 (v6 : bool) t p : hdr_facts false v6 t p -> (if v6 then 40 else 20) + 8 <= len p ->
  el_v6 p = Some v6 /\ udp_iph v6 p = (if v6 then 40 else 20).
Proof.
  intros [F1 [F2 [F3 _]]] Hl. unfold el_v6, udp_iph, classify, IPPROTO_TCP, IPPROTO_UDP. rewrite F1.
  destruct v6; cbv iota in *.
  - destruct (N.ltb_spec (len p) 28); [lia|]. cbn [N.eqb Pos.eqb]. rewrite F3. cbn [N.eqb Pos.eqb andb].
    destruct (N.leb_spec 48 (len p)); [|lia]. auto.
  - destruct (F2 eq_refl) as [E5 _]. destruct (N.ltb_spec (len p) 28); [lia|]. cbn [N.eqb Pos.eqb].
    rewrite E5, F3. cbn [N.eqb Pos.eqb negb andb]. auto.
Qed.

Lemma uagree_mkey (v6 : bool) t a b : uagree v6 a b -> hdr_facts false v6 t a -> hdr_facts false v6 t b ->
  (if v6 then 40 else 20) + 8 <= len a -> (if v6 then 40 else 20) + 8 <= len b -> mkey a = mkey b.
Proof.
  intros [H1 _] Ha Hb La Lb. unfold mkey.
  destruct (facts_el_v6 _ _ _ Ha La) as [-> Ia]. destruct (facts_el_v6 _ _ _ Hb Lb) as [-> Ib].
  unfold udp_key. rewrite Ia, Ib. unfold flow_key, tun_ipv6SrcAddrOffset, tun_ipv4SrcAddrOffset. f_equal. f_equal; [|f_equal].
  - destruct v6; apply slice_ext2; try lia; intros k Hk1 Hk2; apply H1; try lia; unfold umasked;
      destruct (N.leb_spec 4 k), (N.ltb_spec k 6), (N.leb_spec 2 k), (N.leb_spec 10 k), (N.ltb_spec k 12); cbn [andb orb]; try reflexivity; lia.
  - destruct v6; apply slice_ext2; try lia; intros k Hk1 Hk2; apply H1; try lia; unfold umasked;
      destruct (N.leb_spec 4 k), (N.ltb_spec k 6), (N.leb_spec 2 k), (N.leb_spec 10 k), (N.ltb_spec k 12); cbn [andb orb]; try reflexivity; lia.
Qed.

Lemma eligible_udp_flow p : Check.udp_eligible p = true -> udp_flow p = Some (mkey p).
Proof.
  unfold Check.udp_eligible, mkey, el_v6. pose proof (classify_facts p true) as Hc.
  assert (H28 : classify p true <> NotCand -> 28 <= len p).
  { unfold classify. destruct (N.ltb_spec (len p) 28); [intros H0; contradiction|auto]. }
  destruct (classify p true) eqn:Hcl; try discriminate; specialize (H28 ltac:(discriminate)); destruct Hc as [C1 [C2 C3]]; cbv iota in *.
  - specialize (C2 eq_refl). unfold ip_gate, frag_gate, tun_maxUint16, tun_ipv4FlagMoreFragments, UDPH, tun_udphLen. rewrite C2. change (5 * 4) with 20.
    destruct (65535 <? len p); [discriminate|]. destruct (negb (be16 p 2 =? len p)); [discriminate|].
    destruct (N.ltb_spec (len p) 20) as [Hq2|Hq2]; [discriminate|].
    intros H. apply andb_true_iff in H as [H1 H2]. apply andb_true_iff in H2 as [H2 H3]. apply andb_true_iff in H2 as [H2 H4].
    apply N.ltb_lt in H1. apply N.eqb_eq in H3, H4.
    assert (X : byte_at p 6 mod 64 = 0).
    { apply negb_true_iff, N.eqb_neq in H2. pose proof (N.div_mod (byte_at p 6) 32 ltac:(lia)) as D.
      pose proof (N.div_mod (byte_at p 6 / 32) 2 ltac:(lia)) as D2. pose proof (N.mod_upper_bound (byte_at p 6 / 32) 2 ltac:(lia)).
      assert (X0 : byte_at p 6 = (byte_at p 6 / 32 / 2) * 64) by lia. rewrite X0. apply N.mod_mul. lia. }
    unfold udp_flow, l3_parse. rewrite C1, C2, C3, X, H3. change (5 * 4) with 20. cbn [N.eqb Pos.eqb andb negb].
    destruct (N.ltb_spec 20 20); [lia|]. destruct (N.ltb_spec (len p) 20); [lia|]. cbn [orb andb negb].
    destruct (N.leb_spec (20 + 8) (len p)); [|lia].
    unfold udp_key, udp_iph, flow_key, tun_ipv6SrcAddrOffset, tun_ipv4SrcAddrOffset. rewrite C2. rewrite app_nil_r. reflexivity.
  - unfold ip_gate, tun_maxUint16, UDPH, tun_udphLen.
    destruct (65535 <? len p); [discriminate|]. destruct (negb (be16 p 4 =? len p - 40)); [discriminate|].
    destruct (len p <? 40); [discriminate|]. intros H. apply N.ltb_lt in H.
    unfold udp_flow, l3_parse. rewrite C1, C3. cbn [N.eqb Pos.eqb andb negb].
    destruct (N.leb_spec 40 (len p)); [|lia]. cbn [andb negb].
    destruct (N.leb_spec (40 + 8) (len p)); [|lia].
    unfold udp_key, udp_iph, flow_key, tun_ipv6SrcAddrOffset, tun_ipv4SrcAddrOffset. rewrite app_nil_r. reflexivity.
Qed.

(* ----------------------------- per written buffer: the datagrams made of a coalesced UDP buffer *)

Theorem gro_udp_segments_eligible : forall (canUDP : bool) (offset : N) (bufs : list buf) (j : N),
  let s := handle_gro canUDP offset bufs in
  s_err s = false -> merged_into (s_trace s) j ->
  let b := get_buf (s_bufs s) j in
  v_gso (dec_vhdr (b_hdr b)) = GSO_UDP_L4 ->
  map (fun p => (Check.udp_eligible p, mkey p)) (kernel_segment (b_hdr b) (b_pkt b)) =
  map (fun m => (true, mkey (pk bufs m))) (members (s_trace s) j) /\
  (forall m, In m (members (s_trace s) j) -> udp_flow (pk bufs m) <> None).
Proof.
  intros udp off inp j s He. subst s. unfold handle_gro in *. rewrite gro_loop_is in *.
  set (s0 := loop_k udp off inp (length inp)) in *.
  assert (He0 : s_err s0 = false) by (destruct (s_err s0) eqn:E; [cbn iota in He; congruence|reflexivity]).
  rewrite He0 in *. cbn [s_trace s_tw s_bufs]. intros Hmj.
  destruct (loop_inv_all udp off inp (length inp) (le_n _) He0) as [I [I2 I3]]. fold s0 in I, I2, I3.
  pose proof (loop_inv_u udp off inp (length inp) True (le_n _) He0) as IQ. fold s0 in IQ.
  destruct (i_cover _ I3 j Hmj) as [tcp [it [Hin Hidx]]].
  pose proof (sel_total_in _ _ _ Hin) as Hint.
  destruct (i_items _ _ _ I it Hint) as [Htw _].
  destruct (IQ tcp it Hin) as [[[Hhl [Hg1 [Hiph [Hhd [Htc [Hmz [Hml Hch]]]]]]] [Hhf Hlen]] Hu].
  destruct (i_bounds _ I3 tcp it Hin) as [Bg Bh].
  pose proof (members_length_merged _ _ Hmj) as Hlen2.
  rewrite Hidx in *.
  assert (Hmpos : 0 < it_merged it) by (unfold len in Hml; lia).
  assert (Hjlt : (N.to_nat j < length (s_bufs s0))%nat).
  { rewrite (i_tw _ _ _ I) in Htw. apply tw_of_bound in Htw. rewrite (i_tr _ _ _ I) in Htw. rewrite (i_len _ _ _ I). lia. }
  assert (Hfin : get_buf (account false (account true (s_bufs s0) (s_tcp s0)) (s_udp s0)) j = acc_buf tcp it (get_buf (s_bufs s0) j)).
  { rewrite !account_flat. pose proof (i_nodup _ _ I2) as Hn.
    destruct tcp; unfold sel in Hin.
    - rewrite fold_account_other.
      + rewrite <- Hidx. apply fold_account_get; [apply (sel_nodup s0 true Hn)|exact Hin|rewrite Hidx; exact Hjlt].
      + intros y Hy E. apply (sel_cross_idx s0 true it y Hn Hin Hy). congruence.
    - rewrite <- Hidx. rewrite fold_account_get; [|apply (sel_nodup s0 false Hn)|exact Hin|rewrite fold_account_length, Hidx; exact Hjlt].
      rewrite fold_account_other; [reflexivity|].
      intros y Hy E. apply (sel_cross_idx s0 false it y Hn Hin Hy). congruence. }
  rewrite Hfin.
  set (B := get_buf (s_bufs s0) j) in *. set (P := b_pkt B) in *.
  destruct (acc_buf_payload tcp it B Hmpos Hiph Htc Hhl) as [Hd [Hl Hh]].
  assert (Hdec0 : v_gso (dec_vhdr (b_hdr (acc_buf tcp it B))) = if tcp then (if it_v6 it then GSO_TCPV6 else GSO_TCPV4) else GSO_UDP_L4).
  { rewrite Hh, dec_enc_vhdr; [reflexivity|lia|lia| |destruct tcp; lia]. rewrite Hiph. destruct (it_v6 it); lia. }
  intros Hudp. rewrite Hdec0 in Hudp.
  destruct tcp; [destruct (it_v6 it); discriminate|]. clear Hudp Hdec0.
  destruct (Hu eq_refl) as [Hkey Hag].
  pose proof (acc_buf_bytes false it B Hmpos Hiph Htc Hhl Hlen) as Hb. cbn zeta in Hb. fold P in Hb, Hl, Hd.
  pose proof (acc_buf_udp_agree it B Hmpos Hiph Hhl Hlen) as HaFP. fold P in HaFP.
  set (F := b_pkt (acc_buf false it B)) in *.
  assert (HhF : hdr_facts false (it_v6 it) (it_tcph it) F) by (eapply hdr_facts_uagree; eauto).
  assert (Hgt : it_gso it < len P - hl_of false it).
  { rewrite <- len_drop. apply chunks_two; [exact Hg1|]. rewrite Hch, map_length. exact Hlen2. }
  assert (Hv6 : is_v6 F = it_v6 it).
  { unfold is_v6. destruct HhF as [F1 _]. rewrite F1. destruct (it_v6 it); reflexivity. }
  assert (Hl3 : l3_len F = len F).
  { unfold l3_len. rewrite Hv6, Hl. destruct Hb as [_ [B1 _]]. unfold hl_of in Hhl. rewrite Hiph in Hhl. destruct (it_v6 it).
    - destruct B1 as [_ B4]. rewrite B4. unfold UDPH, tun_udphLen in *. lia.
    - destruct B1 as [_ [_ [_ B4]]]. exact B4. }
  assert (Ehl : hl_of false it = (if it_v6 it then 40 else 20) + 8) by (unfold hl_of; rewrite Hiph; reflexivity).
  assert (Hdec : dec_vhdr (b_hdr (acc_buf false it B)) =
                 {| v_flags := K_NEEDS_CSUM; v_gso := K_GSO_UDP_L4;
                    v_hdrlen := hl_of false it; v_gsosize := it_gso it;
                    v_cstart := if it_v6 it then 40 else 20; v_coff := 6 |}).
  { rewrite Hh, Hiph. apply dec_enc_vhdr; [lia|lia| |lia]. destruct (it_v6 it); lia. }
  rewrite (kernel_segment_gso false (it_v6 it) _ F (hl_of false it) (it_gso it) Hdec Hv6 Hl3);
    [|rewrite Hl; lia|rewrite Ehl; lia|exact Hg1].
  rewrite Hd, Hch. rewrite Ehl. split.
  2:{ intros m Hm. destruct (Hag m Hm) as [Gm Lm]. rewrite Hiph in Lm.
      pose proof (hdr_facts_uagree _ _ _ _ Gm Hhf) as Hfm. unfold pk, udp_flow.
      rewrite (l3_parse_of_facts false (it_v6 it) (it_tcph it) _ Hfm) by (clear - Lm; destruct (it_v6 it); lia).
      cbn [negb N.eqb Pos.eqb andb]. destruct (N.leb_spec ((if it_v6 it then 40 else 20) + 8) (len (b_pkt (get_buf inp m)))); [discriminate|].
      exfalso. clear - Lm H. lia. }
  apply build_all_map. intros m Hm i lst.
  destruct (Hag m Hm) as [Gm Lm]. rewrite Hiph in Lm.
  assert (Hpl : In (payload_of inp ((if it_v6 it then 40 else 20) + 8) m) (chunks (it_gso it) (drop (hl_of false it) P))).
  { rewrite Hch, Ehl. apply in_map. exact Hm. }
  destruct (chunks_in_len (it_gso it) Hg1 _ _ (le_n _) _ Hpl) as [Hp1 Hp2]. rewrite len_drop in Hp2.
  assert (Hmax : (if it_v6 it then 40 else 20) + 8 + len (payload_of inp ((if it_v6 it then 40 else 20) + 8) m) <= 65535) by (clear - Hp2 Hlen Hhl Ehl; lia).
  assert (HlF : (if it_v6 it then 40 else 20) + 8 <= len F) by (rewrite Hl, <- Ehl; exact Hhl).
  destruct (seg_udp_agree (it_v6 it) (it_tcph it)
              {| v_flags := K_NEEDS_CSUM; v_gso := K_GSO_UDP_L4; v_hdrlen := (if it_v6 it then 40 else 20) + 8;
                 v_gsosize := it_gso it; v_cstart := if it_v6 it then 40 else 20; v_coff := 6 |}
              F (len F - (if it_v6 it then 40 else 20)) i (payload_of inp ((if it_v6 it then 40 else 20) + 8) m) lst
              eq_refl eq_refl eq_refl HhF HlF) as [Ls [Ps As]].
  pose proof (seg_udp_eligible (it_v6 it) (it_tcph it)
              {| v_flags := K_NEEDS_CSUM; v_gso := K_GSO_UDP_L4; v_hdrlen := (if it_v6 it then 40 else 20) + 8;
                 v_gsosize := it_gso it; v_cstart := if it_v6 it then 40 else 20; v_coff := 6 |}
              F (len F - (if it_v6 it then 40 else 20)) i (payload_of inp ((if it_v6 it then 40 else 20) + 8) m) lst
              eq_refl eq_refl eq_refl HhF HlF Hp1 Hmax) as Hel.
  set (sg := build_segment _ false _ _ i _ lst) in *.
  rewrite Hel. f_equal. unfold pk.
  apply (uagree_mkey (it_v6 it) (it_tcph it)).
  - eapply uagree_trans; [exact As|]. eapply uagree_trans; [exact HaFP|]. apply uagree_sym. exact Gm.
  - eapply hdr_facts_uagree; [exact As|exact HhF].
  - eapply hdr_facts_uagree; [exact Gm|exact Hhf].
  - rewrite Ls. lia.
  - exact Lm.
Qed.
Print Assumptions gro_udp_segments_eligible.

(* ----------------------------- per written buffer: a coalesced TCP buffer holds no UDP datagram *)

Lemma build_all_in v tcp H ltot segs : forall i p, In p (build_all v tcp H ltot i segs) ->
  exists i' seg lst, p = build_segment v tcp H ltot i' seg lst.
Proof.
  induction segs as [|s r IH]; intros i p Hp; cbn [build_all] in Hp; [destruct Hp|].
  destruct Hp as [<-|Hp]; [eauto|]. eapply IH; eauto.
Qed.

Lemma proto6_no_udp_flow (v6 : bool) p : byte_at p 0 / 16 = (if v6 then 6 else 4) -> byte_at p (if v6 then 6 else 9) = 6 -> udp_flow p = None.
Proof.
  intros H0 H6. unfold udp_flow, l3_parse. rewrite H0. destruct v6; cbn [N.eqb Pos.eqb].
  - destruct (40 <=? len p); cbn [andb]; [|reflexivity]. rewrite H6. reflexivity.
  - destruct ((byte_at p 0 mod 16 * 4 <? 20) || (len p <? byte_at p 0 mod 16 * 4)); [reflexivity|].
    rewrite H6. rewrite andb_false_r. reflexivity.
Qed.

Theorem gro_tcp_segments_no_udp_flow : forall (canUDP : bool) (offset : N) (bufs : list buf) (j : N),
  let s := handle_gro canUDP offset bufs in
  s_err s = false -> merged_into (s_trace s) j ->
  let b := get_buf (s_bufs s) j in
  v_gso (dec_vhdr (b_hdr b)) <> GSO_UDP_L4 ->
  (forall p, In p (kernel_segment (b_hdr b) (b_pkt b)) -> udp_flow p = None) /\
  (forall m, In m (members (s_trace s) j) -> udp_flow (pk bufs m) = None).
Proof.
  intros udp off inp j s He. subst s. unfold handle_gro in *. rewrite gro_loop_is in *.
  set (s0 := loop_k udp off inp (length inp)) in *.
  assert (He0 : s_err s0 = false) by (destruct (s_err s0) eqn:E; [cbn iota in He; congruence|reflexivity]).
  rewrite He0 in *. cbn [s_trace s_tw s_bufs]. intros Hmj.
  destruct (loop_inv_all udp off inp (length inp) (le_n _) He0) as [I [I2 I3]]. fold s0 in I, I2, I3.
  pose proof (loop_inv_t udp off inp (length inp) True (le_n _) He0) as IQ. fold s0 in IQ.
  destruct (i_cover _ I3 j Hmj) as [tcp [it [Hin Hidx]]].
  pose proof (sel_total_in _ _ _ Hin) as Hint.
  destruct (i_items _ _ _ I it Hint) as [Htw _].
  destruct (IQ tcp it Hin) as [[[[Hhl [Hg1 [Hiph [Hhd [Htc [Hmz [Hml Hch]]]]]]] [Hhf Hlen]] _] Htt].
  destruct (i_bounds _ I3 tcp it Hin) as [Bg Bh].
  pose proof (members_length_merged _ _ Hmj) as Hlen2.
  rewrite Hidx in *.
  assert (Hmpos : 0 < it_merged it) by (unfold len in Hml; lia).
  assert (Hjlt : (N.to_nat j < length (s_bufs s0))%nat).
  { rewrite (i_tw _ _ _ I) in Htw. apply tw_of_bound in Htw. rewrite (i_tr _ _ _ I) in Htw. rewrite (i_len _ _ _ I). lia. }
  assert (Hfin : get_buf (account false (account true (s_bufs s0) (s_tcp s0)) (s_udp s0)) j = acc_buf tcp it (get_buf (s_bufs s0) j)).
  { rewrite !account_flat. pose proof (i_nodup _ _ I2) as Hn.
    destruct tcp; unfold sel in Hin.
    - rewrite fold_account_other.
      + rewrite <- Hidx. apply fold_account_get; [apply (sel_nodup s0 true Hn)|exact Hin|rewrite Hidx; exact Hjlt].
      + intros y Hy E. apply (sel_cross_idx s0 true it y Hn Hin Hy). congruence.
    - rewrite <- Hidx. rewrite fold_account_get; [|apply (sel_nodup s0 false Hn)|exact Hin|rewrite fold_account_length, Hidx; exact Hjlt].
      rewrite fold_account_other; [reflexivity|].
      intros y Hy E. apply (sel_cross_idx s0 false it y Hn Hin Hy). congruence. }
  rewrite Hfin.
  set (B := get_buf (s_bufs s0) j) in *. set (P := b_pkt B) in *.
  destruct (acc_buf_payload tcp it B Hmpos Hiph Htc Hhl) as [Hd [Hl Hh]].
  assert (Hdec0 : v_gso (dec_vhdr (b_hdr (acc_buf tcp it B))) = if tcp then (if it_v6 it then GSO_TCPV6 else GSO_TCPV4) else GSO_UDP_L4).
  { rewrite Hh, dec_enc_vhdr; [reflexivity|lia|lia| |destruct tcp; lia]. rewrite Hiph. destruct (it_v6 it); lia. }
  intros Hnudp. rewrite Hdec0 in Hnudp.
  destruct tcp; [|exfalso; apply Hnudp; reflexivity]. clear Hnudp Hdec0.
  destruct (Htt Logic.I eq_refl) as [Hkey [Hseq [HflP [_ [HpshP [Hag Hchain]]]]]].
  pose proof (acc_buf_bytes true it B Hmpos Hiph Htc Hhl Hlen) as Hb. cbn zeta in Hb. fold P in Hb, Hl, Hd.
  pose proof (acc_buf_tcp_bytes it B Hmpos Hiph Htc Hhl Hlen) as HbF. fold P in HbF.
  set (F := b_pkt (acc_buf true it B)) in *.
  unfold hl_of in *.
  set (v6 := it_v6 it) in *. set (iph := it_iph it) in *. set (tcph := it_tcph it) in *.
  assert (HhF : hdr_facts true v6 tcph F).
  { destruct Hb as [B0 [B1 B2]]. destruct Hhf as [F1 [F2 [F3 F4]]]. unfold hdr_facts.
    rewrite B0. destruct v6.
    - destruct B1 as [B6 _]. rewrite B6. refine (conj F1 (conj _ (conj F3 _))); [discriminate|].
      intros _. rewrite Hiph in B2. rewrite B2. apply F4. reflexivity.
    - destruct B1 as [B6 [B7 [B9 _]]]. rewrite B6, B7, B9. refine (conj F1 (conj F2 (conj F3 _))).
      intros _. rewrite Hiph in B2. rewrite B2. apply F4. reflexivity. }
  assert (AFP : tagree v6 (iph + tcph) P F).
  { refine (conj _ (conj _ _)).
    - intros q Hq Hm. symmetry. apply HbF; [exact Hq| |]; rewrite Hiph in *;
        (destruct v6; [apply tmasked_false6 in Hm|apply tmasked_false4 in Hm]; lia).
    - intros Hv. rewrite HbF; [reflexivity| | |]; rewrite ?Hv; rewrite Hiph in *; rewrite ?Hv in *; lia.
    - rewrite <- Hiph. rewrite HbF; [reflexivity| | |]; rewrite Hiph in *; destruct v6; lia. }
  assert (EflF : byte_at F (iph + 13) = byte_at P (iph + 13)) by (apply HbF; rewrite Hiph in *; destruct v6; lia).
  assert (EseqF : be32 F (iph + 4) = be32 P (iph + 4)).
  { apply be32_ext. intros q H1 H2. apply HbF; rewrite Hiph in *; destruct v6; lia. }
  assert (Hgt : it_gso it < len P - (iph + tcph)).
  { rewrite <- len_drop. apply chunks_two; [exact Hg1|]. rewrite Hch, map_length. exact Hlen2. }
  assert (Hv6 : is_v6 F = v6).
  { unfold is_v6. destruct HhF as [F1 _]. rewrite F1. destruct v6; reflexivity. }
  assert (Hl3 : l3_len F = len F).
  { unfold l3_len. rewrite Hv6, Hl. destruct Hb as [_ [B1 _]]. rewrite Hiph in Hhl. destruct v6.
    - destruct B1 as [_ B4]. rewrite B4. lia.
    - destruct B1 as [_ [_ [_ B4]]]. exact B4. }
  assert (Hdec : dec_vhdr (b_hdr (acc_buf true it B)) =
                 {| v_flags := K_NEEDS_CSUM; v_gso := if v6 then K_GSO_TCPV6 else K_GSO_TCPV4;
                    v_hdrlen := iph + tcph; v_gsosize := it_gso it;
                    v_cstart := if v6 then 40 else 20; v_coff := 16 |}).
  { rewrite Hh, Hiph. apply dec_enc_vhdr; [lia|lia| |lia]. destruct v6; lia. }
  rewrite (kernel_segment_gso true v6 _ F (iph + tcph) (it_gso it) Hdec Hv6 Hl3);
    [|rewrite Hl; lia|rewrite Hiph; lia|exact Hg1].
  rewrite Hd, Hch. rewrite Hiph. split.
  - intros p Hp. apply build_all_in in Hp as [i [seg [lst ->]]].
    destruct (seg_tcp_bytes v6 tcph
           {| v_flags := K_NEEDS_CSUM; v_gso := if v6 then K_GSO_TCPV6 else K_GSO_TCPV4;
              v_hdrlen := (if v6 then 40 else 20) + tcph; v_gsosize := it_gso it;
              v_cstart := if v6 then 40 else 20; v_coff := 16 |}
           F (len F - (if v6 then 40 else 20)) i seg lst eq_refl eq_refl eq_refl Htc HhF ltac:(rewrite Hl, <- Hiph; exact Hhl)) as [_ [_ [Hq _]]].
    set (sg := build_segment _ true _ _ i seg lst) in *.
    destruct HhF as [F1 [_ [F3 _]]].
    apply (proto6_no_udp_flow v6).
    + rewrite Hq; [exact F1|..]; clear - Htc; subst v6 tcph; destruct (it_v6 it); lia.
    + rewrite Hq; [exact F3|..]; clear - Htc; subst v6 tcph; destruct (it_v6 it); lia.
  - intros m Hm. destruct (Hag m Hm) as [G1 _].
    assert (Hfm : hdr_facts true v6 tcph (pk inp m)).
    { unfold pk. eapply (hdr_facts_tagree v6 tcph (iph + tcph)); [|exact G1|exact Hhf]. clear - Htc Hiph. rewrite Hiph. lia. }
    destruct Hfm as [F1 [_ [F3 _]]]. apply (proto6_no_udp_flow v6); assumption.
Qed.
Print Assumptions gro_tcp_segments_no_udp_flow.

(* ----------------------------- theorem: the order clause, restricted to the datagrams the coalescer considers *)

Lemma filter_filter {A} (f g : A -> bool) l : filter f (filter g l) = filter (fun x => g x && f x) l.
Proof. induction l as [|x l IH]; cbn [filter]; [reflexivity|]. destruct (g x); cbn [filter andb]; [destruct (f x)|]; rewrite IH; reflexivity. Qed.
Lemma filter_map_comm {A B} (f : A -> B) (g : B -> bool) l : filter g (map f l) = map f (filter (fun x => g (f x)) l).
Proof. induction l as [|x l IH]; cbn [filter map]; [reflexivity|]. destruct (g (f x)); cbn [map]; rewrite IH; reflexivity. Qed.
Lemma filter_flat_map {A B} (g : B -> bool) (F : A -> list B) l : filter g (flat_map F l) = flat_map (fun x => filter g (F x)) l.
Proof. induction l as [|x l IH]; cbn [flat_map]; [reflexivity|]. rewrite filter_app, IH. reflexivity. Qed.
Lemma filter_pair {A B C} (cs : A -> C) (cm : B -> C) (g : A -> bool) (P : B -> bool) : forall S M,
  map cs S = map cm M -> map g S = map P M -> map cs (filter g S) = map cm (filter P M).
Proof.
  induction S as [|s S IH]; intros [|m M] H1 H2; cbn [map] in *; try discriminate; [reflexivity|].
  inversion H1. inversion H2. cbn [filter]. rewrite <- H4. destruct (g s); cbn [map]; [f_equal; [assumption|]|]; apply IH; assumption.
Qed.
Lemma map_rel {A B C D} (f : A -> C) (h : B -> C) (g : A -> D) (P : B -> D) : forall S M,
  (forall s m, In m M -> f s = h m -> g s = P m) -> map f S = map h M -> map g S = map P M.
Proof.
  induction S as [|s S IH]; intros [|m M] Hr H1; cbn [map] in *; try discriminate; [reflexivity|].
  inversion H1. f_equal; [apply Hr; [left; reflexivity|assumption]|]. apply IH; [|assumption]. intros s' m' Hm'. apply Hr. right. exact Hm'.
Qed.
Lemma filter_nil {A} (f : A -> bool) l : (forall x, In x l -> f x = false) -> filter f l = [].
Proof. induction l as [|x l IH]; intros H; cbn [filter]; [reflexivity|]. rewrite (H x) by (left; reflexivity). apply IH. intros y Hy. apply H. right. exact Hy. Qed.
Lemma lists_eqb_refl l : lists_eqb l l = true.
Proof. induction l as [|x l IH]; cbn [lists_eqb]; [reflexivity|]. rewrite list_eqb_refl. exact IH. Qed.

Definition gk (k : list N) (x : list N) : bool := Check.keep_eligible x && in_flow k x.
Lemma gk_eligible k x : Check.udp_eligible x = true -> gk k x = list_eqb k (mkey x).
Proof. intros E. unfold gk, Check.keep_eligible, in_flow. rewrite (eligible_udp_flow _ E), E. reflexivity. Qed.
Lemma gk_pk inp k m : gk k (pk inp m) = PK inp k m.
Proof.
  unfold PK. destruct (Check.udp_eligible (pk inp m)) eqn:E; [rewrite gk_eligible by exact E; reflexivity|].
  unfold gk, Check.keep_eligible, in_flow. destruct (udp_flow (pk inp m)); [rewrite E; reflexivity|reflexivity].
Qed.
Lemma gk_no_flow k x : udp_flow x = None -> gk k x = false.
Proof. intros E. unfold gk, in_flow. rewrite E. apply andb_false_r. Qed.

(* the kinds of the merges recorded in the trace of handleGRO *)
Lemma gro_trace_kinds : forall (canUDP : bool) (offset : N) (bufs : list buf),
  let s := handle_gro canUDP offset bufs in
  s_err s = false ->
  forall i j p, nth_error (s_trace s) i = Some (Coalesced j p) ->
    (Check.udp_eligible (pk bufs (N.of_nat i)) = true /\ Check.udp_eligible (pk bufs j) = true /\
     mkey (pk bufs (N.of_nat i)) = mkey (pk bufs j)) \/
    (udp_flow (pk bufs (N.of_nat i)) = None /\ udp_flow (pk bufs j) = None).
Proof.
  intros udp off inp s He. subst s. unfold handle_gro in *. rewrite gro_loop_is in *.
  set (s0 := loop_k udp off inp (length inp)) in *.
  assert (He0 : s_err s0 = false) by (destruct (s_err s0) eqn:E; [cbn iota in He; congruence|reflexivity]).
  rewrite He0. cbn [s_trace].
  apply (k_tr _ _ (loop_kinv udp off inp (length inp) (le_n _) He0)).
Qed.

Theorem gro_udp_order_restricted : forall (canUDP : bool) (offset : N) (bufs : list buf),
  let s := handle_gro canUDP offset bufs in
  s_err s = false ->
  udp_order_gen Check.keep_eligible bufs (s_tw s) (s_bufs s) = true.
Proof.
  intros udp off inp s He.
  pose proof (gro_bookkeeping udp off inp He) as [Hlen [Hnd [Hbound Htrace]]]. fold s in Hlen, Hnd, Hbound, Htrace.
  pose proof (gro_trace_kinds udp off inp He) as Hkinds. fold s in Hkinds.
  unfold udp_order_gen. apply forallb_forall. intros p Hp. apply filter_In in Hp as [_ Hkeep].
  destruct (udp_flow p) as [k|] eqn:Hf; [|reflexivity].
  rewrite !filter_filter. fold (gk k).
  (* per written buffer *)
  assert (Hper : forall j, In j (s_tw s) ->
            map canon (filter (gk k) (kernel_segment (b_hdr (get_buf (s_bufs s) j)) (b_pkt (get_buf (s_bufs s) j)))) =
            map (fun m => canon (pk inp m)) (filter (PK inp k) (members (s_trace s) j))).
  { intros j Hj. destruct (merged_dec (s_trace s) j) as [Hm|Hm].
    - destruct (N.eq_dec (v_gso (dec_vhdr (b_hdr (get_buf (s_bufs s) j)))) GSO_UDP_L4) as [Eu|Eu].
      + pose proof (gro_udp_lossless udp off inp j He Hm Eu) as Hc.
        destruct (gro_udp_segments_eligible udp off inp j He Hm Eu) as [Hel Hfl]. fold s in Hc, Hel, Hfl.
        (* every member passes the coalescer's gates *)
        assert (Hmel : forall m, In m (members (s_trace s) j) -> Check.udp_eligible (pk inp m) = true).
        { assert (Hother : forall m, In m (members (s_trace s) j) -> m <> j ->
                    Check.udp_eligible (pk inp m) = true /\ Check.udp_eligible (pk inp j) = true).
          { intros m Hmm Hne. apply members_spec in Hmm as [->|[q [Hn _]]]; [contradiction|].
            destruct (Hkinds _ _ _ Hn) as [[H1 [H2 _]]|[H1 _]]; rewrite N2Nat.id in *; [auto|].
            exfalso. apply (Hfl m); [apply members_spec; right; exists q; split; [exact Hn|]|exact H1].
            apply nth_error_Some. rewrite Hn. discriminate. }
          destruct Hm as [q Hq]. apply In_nth_error in Hq as [i Hi].
          assert (Hi' : In (N.of_nat i) (members (s_trace s) j)).
          { apply members_spec. right. exists q. rewrite Nat2N.id. split; [exact Hi|]. apply nth_error_Some. rewrite Hi. discriminate. }
          assert (Hij : N.of_nat i <> j).
          { intros E. destruct (Htrace i _ Hi) as [_ [_ H1]]. lia. }
          destruct (Hother _ Hi' Hij) as [_ Hej].
          intros m Hmm. destruct (N.eq_dec m j) as [->|Hne]; [exact Hej|apply (Hother m Hmm Hne)]. }
        apply filter_pair; [exact Hc|].
        eapply map_rel; [|exact Hel]. intros sg m Hmm E. inversion E as [[E1 E2]].
        rewrite gk_eligible by exact E1. unfold PK. rewrite (Hmel m Hmm), E2. reflexivity.
      + destruct (gro_tcp_segments_no_udp_flow udp off inp j He Hm Eu) as [Hs Hmm]. fold s in Hs, Hmm.
        assert (E1 : filter (gk k) (kernel_segment (b_hdr (get_buf (s_bufs s) j)) (b_pkt (get_buf (s_bufs s) j))) = []).
        { apply filter_nil. intros x Hx. apply gk_no_flow. apply Hs. exact Hx. }
        assert (E2 : filter (PK inp k) (members (s_trace s) j) = []).
        { apply filter_nil. intros x Hx. rewrite <- gk_pk. apply gk_no_flow. apply Hmm. exact Hx. }
        rewrite E1, E2. reflexivity.
    - destruct (gro_passthrough udp off inp j He Hj Hm) as [Hpp Hz]. fold s in Hpp, Hz.
      rewrite (members_fresh _ _ Hm). rewrite Hz, kernel_segment_zero, Hpp. cbn [filter]. fold (pk inp j).
      rewrite gk_pk. destruct (PK inp k j); reflexivity. }
  assert (E : map canon (filter (gk k) (segments (s_tw s) (s_bufs s))) = map canon (filter (gk k) (map b_pkt inp))).
  { unfold segments, written. rewrite flat_map_map, filter_flat_map, map_flat_map.
    rewrite (flat_map_ext_in' _ (fun j => map (fun m => canon (pk inp m)) (filter (PK inp k) (members (s_trace s) j)))) by exact Hper.
    rewrite <- map_flat_map, <- filter_flat_map.
    pose proof (gro_udp_order_indices udp off inp k He) as Hidx. fold s in Hidx. rewrite Hidx.
    pose proof (map_indices b_pkt inp 0 [] eq_refl) as Ei. cbn [app] in Ei. rewrite <- Ei.
    rewrite filter_map_comm, map_map. f_equal. apply filter_ext. intros m. symmetry. apply gk_pk. }
  rewrite E. apply lists_eqb_refl.
Qed.
Print Assumptions gro_udp_order_restricted.
