(* C16, source tie: the interpreter of Gro/CandAst.v run on the terms that harness/cmd/groast generated from
   tun/offload_linux.go (Gen/GroAst.v) equals the hand-written model Gro/Model.v, for ALL byte lists
   (no bound on the elements is needed: the model and the interpreter read the same numbers) and all flags.
   ast_cand_correct: packetIsGROCandidate = classify (through cand_code, the generated result constants);
   ast_hdr_correct: ipHeadersCanCoalesce = ip_headers_can_coalesce.
   In particular the interpreted source never fails: no index out of range (no Go panic), no Unknown node.
   The proof script case-splits on the comparisons that occur in the generated term, so it follows the shape
   of the source; the theorems themselves are semantic. *)
From Coq Require Import String.
From WG Require Import Base.Prelude Gro.Bytes Gro.Model Gro.CandAst Gen.GroAst.
Local Open Scope N_scope.

(* Go result constants -> constructors of Model.cand, through the GENERATED values *)
Definition cand_code (c : cand) : N :=
  match c with
  | NotCand => c_notGROCandidate
  | Tcp4 => c_tcp4GROCandidate
  | Tcp6 => c_tcp6GROCandidate
  | Udp4 => c_udp4GROCandidate
  | Udp6 => c_udp6GROCandidate
  end.

Lemma cand_code_inj : forall x y, cand_code x = cand_code y -> x = y.
Proof. intros [] []; vm_compute; intro H; try reflexivity; discriminate H. Qed.

Lemma cand_code_uint8 : forall x, cand_code x < 256.
Proof. intros []; vm_compute; reflexivity. Qed.

Lemma shr4 x : N.shiftr x 4 = x / 16.
Proof. rewrite N.shiftr_div_pow2. reflexivity. Qed.
Lemma shr5 x : N.shiftr x 5 = x / 32.
Proof. rewrite N.shiftr_div_pow2. reflexivity. Qed.
Lemma land15 x : N.land x 15 = x mod 16.
Proof. change 15 with (N.ones 4). rewrite N.land_ones. reflexivity. Qed.

Lemma idx_in l i n : (len l <? n) = false -> i < n -> (i <? len l) = true.
Proof. intros H Hi. apply N.ltb_ge in H. apply N.ltb_lt. lia. Qed.

Ltac step :=
  cbn [exec evalb eval lookup slices bools pkg_const binop_sem cmpop_sem
       String.eqb Ascii.eqb Bool.eqb andb orb negb].

Ltac split_atoms :=
  repeat (step; match goal with
          | |- context [N.eqb ?a ?b] => destruct (N.eqb a b)
          | |- context [N.leb ?a ?b] => destruct (N.leb a b)
          end); step; try reflexivity.

Theorem ast_cand_correct : forall b canUDP,
  run_cand cand_body b canUDP = Some (cand_code (classify b canUDP)).
Proof.
  intros b canUDP.
  unfold run_cand, cand_body, classify, cand_code, IPPROTO_TCP, IPPROTO_UDP.
  step.
  destruct (len b <? 28) eqn:H28; step; [reflexivity|].
  rewrite (idx_in b 0 28 H28), (idx_in b 6 28 H28), (idx_in b 9 28 H28) by lia.
  rewrite !shr4, !land15.
  destruct canUDP; split_atoms.
Qed.

Theorem ast_hdr_correct : forall a b,
  run_hdr hdr_body a b = Some (ip_headers_can_coalesce a b).
Proof.
  intros a b.
  unfold run_hdr, hdr_body, ip_headers_can_coalesce.
  step.
  destruct (len a <? 9) eqn:Ha; step; [reflexivity|].
  destruct (len b <? 9) eqn:Hb; step; [reflexivity|].
  rewrite (idx_in a 0 9 Ha), (idx_in a 1 9 Ha), (idx_in a 2 9 Ha), (idx_in a 3 9 Ha),
          (idx_in a 6 9 Ha), (idx_in a 7 9 Ha), (idx_in a 8 9 Ha) by lia.
  rewrite (idx_in b 0 9 Hb), (idx_in b 1 9 Hb), (idx_in b 2 9 Hb), (idx_in b 3 9 Hb),
          (idx_in b 6 9 Hb), (idx_in b 7 9 Hb), (idx_in b 8 9 Hb) by lia.
  rewrite !shr4, !shr5.
  split_atoms.
Qed.

(* The interpreted source never fails and always answers with one of the five constants. *)
Corollary ast_cand_total : forall b canUDP, exists c, run_cand cand_body b canUDP = Some (cand_code c).
Proof. intros. eexists. apply ast_cand_correct. Qed.

(* ---- smoke test of the executable interpreter (redundant with the theorems) ---- *)

(* a header of n bytes: first byte v0, protocol byte p at offset 9 (IPv4) and 6 (IPv6), rest 0 *)
Definition hdr4 (v0 p : N) (n : nat) : list N :=
  firstn n ([v0; 0; 0; 0; 0; 0; 64; 0; 64; p] ++ repeat 0 60).
Definition hdr6 (v0 p : N) (n : nat) : list N :=
  firstn n ([v0; 0; 0; 0; 0; 0; p; 64; 0; 0] ++ repeat 0 60).

Definition grid : list (list N) :=
  flat_map (fun n =>
    flat_map (fun p =>
      [hdr4 0x44 p n; hdr4 0x45 p n; hdr4 0x46 p n; hdr4 0x4F p n; hdr4 0x40 p n;
       hdr6 0x60 p n; hdr6 0x6F p n; hdr6 0x50 p n; hdr6 0x70 p n; hdr4 0x05 p n])
      [6; 17; 1; 0; 255])
    [0; 1; 9; 10; 19; 20; 27; 28; 29; 39; 40; 41; 47; 48; 49; 59; 60; 61; 70]%nat.

Definition agree1 (b : list N) (u : bool) : bool :=
  match run_cand cand_body b u with
  | Some n => n =? cand_code (classify b u)
  | None => false
  end.

Example ast_agrees_on_grid :
  forallb (fun b => agree1 b true && agree1 b false) grid = true.
Proof. vm_compute. reflexivity. Qed.

(* every constructor is hit on the grid (the grid is not vacuous) *)
Example grid_hits_all :
  map (fun c => existsb (fun b => cand_code (classify b true) =? cand_code c) grid) [NotCand; Tcp4; Tcp6; Udp4; Udp6]
  = [true; true; true; true; true].
Proof. vm_compute. reflexivity. Qed.

(* concrete thresholds, spelled out *)
Example ex_tcp4_39 : run_cand cand_body (hdr4 0x45 6 39) true = Some c_notGROCandidate. Proof. vm_compute. reflexivity. Qed.
Example ex_tcp4_40 : run_cand cand_body (hdr4 0x45 6 40) true = Some c_tcp4GROCandidate. Proof. vm_compute. reflexivity. Qed.
Example ex_ihl6 : run_cand cand_body (hdr4 0x46 6 40) true = Some c_notGROCandidate. Proof. vm_compute. reflexivity. Qed.
Example ex_ihl4 : run_cand cand_body (hdr4 0x44 6 40) true = Some c_notGROCandidate. Proof. vm_compute. reflexivity. Qed.
Example ex_udp4_27 : run_cand cand_body (hdr4 0x45 17 27) true = Some c_notGROCandidate. Proof. vm_compute. reflexivity. Qed.
Example ex_udp4_28 : run_cand cand_body (hdr4 0x45 17 28) true = Some c_udp4GROCandidate. Proof. vm_compute. reflexivity. Qed.
Example ex_udp4_off : run_cand cand_body (hdr4 0x45 17 28) false = Some c_notGROCandidate. Proof. vm_compute. reflexivity. Qed.
Example ex_tcp6_59 : run_cand cand_body (hdr6 0x60 6 59) true = Some c_notGROCandidate. Proof. vm_compute. reflexivity. Qed.
Example ex_tcp6_60 : run_cand cand_body (hdr6 0x60 6 60) true = Some c_tcp6GROCandidate. Proof. vm_compute. reflexivity. Qed.
Example ex_udp6_47 : run_cand cand_body (hdr6 0x60 17 47) true = Some c_notGROCandidate. Proof. vm_compute. reflexivity. Qed.
Example ex_udp6_48 : run_cand cand_body (hdr6 0x60 17 48) true = Some c_udp6GROCandidate. Proof. vm_compute. reflexivity. Qed.
Example ex_icmp : run_cand cand_body (hdr4 0x45 1 60) true = Some c_notGROCandidate. Proof. vm_compute. reflexivity. Qed.

Definition hgrid : list (list N) :=
  flat_map (fun n => [hdr4 0x45 6 n; hdr4 0x45 17 n; hdr6 0x60 6 n; hdr6 0x61 6 n;
                      [0x45; 1; 0; 0; 0; 0; 64; 0; 64; 6]; [0x45; 0; 0; 0; 0; 0; 32; 0; 64; 6];
                      [0x45; 0; 0; 0; 0; 0; 95; 0; 64; 6]; [0x45; 0; 0; 0; 0; 0; 64; 0; 63; 6];
                      [0x60; 0; 0; 1; 0; 0; 6; 64; 0; 0]; [0x60; 0; 0; 0; 0; 0; 6; 63; 0; 0];
                      [0x60; 0; 2; 0; 0; 0; 6; 64; 0; 0]; [0x60; 3; 0; 0; 0; 0; 6; 64; 0; 0]])
    [0; 8; 9; 10; 40]%nat.

Example ast_hdr_agrees_on_grid :
  forallb (fun a => forallb (fun b =>
     match run_hdr hdr_body a b with
     | Some v => Bool.eqb v (ip_headers_can_coalesce a b)
     | None => false
     end) hgrid) hgrid = true.
Proof. vm_compute. reflexivity. Qed.

Print Assumptions ast_cand_correct.
Print Assumptions ast_hdr_correct.
Print Assumptions ast_cand_total.
Print Assumptions cand_code_inj.
