(* Concrete batches, built inside Coq with correct checksums, on which the model
   of handleGRO and the specification are evaluated by vm_compute:
   non-vacuity examples and the refutations that correspond to the findings. *)
From WG Require Import Base.Prelude Gen.Constants Gro.Bytes Gro.Model Gro.OldModel Gro.KernelSpec Gro.Spec.
Local Open Scope N_scope.

Definition payload (n seed : N) : list N := map (fun i => (i * 7 + seed) mod 256) (indices (N.to_nat n) 0).

Definition tcp_l4 (src dst : list N) (sport dport seq ack flags : N) (pl : list N) : list N :=
  let t := enc_be16 sport ++ enc_be16 dport ++ enc_be32 seq ++ enc_be32 ack ++ [80; flags] ++ enc_be16 1000 ++ [0; 0; 0; 0] ++ pl in
  put_be16 t 16 (cnot16 (ocfold (pseudo_sum 6 src dst (len t) + sum16 t))).
Definition udp_l4 (src dst : list N) (sport dport : N) (pl : list N) : list N :=
  let t := enc_be16 sport ++ enc_be16 dport ++ enc_be16 (8 + len pl) ++ [0; 0] ++ pl in
  let c := cnot16 (ocfold (pseudo_sum 17 src dst (len t) + sum16 t)) in
  put_be16 t 6 (if c =? 0 then 65535 else c).

Definition a4 (x : N) : list N := [192; 0; 2; x].
Definition a6 (x : N) : list N := [32; 1; 13; 184; 0; 0; 0; 0; 0; 0; 0; 0; 0; 0; 0; x].

Definition ip4 (proto id : N) (src dst : N) (l4 : list N) : list N :=
  let h := [69; 0] ++ enc_be16 (20 + len l4) ++ enc_be16 id ++ [64; 0; 64; proto; 0; 0] ++ a4 src ++ a4 dst in
  put_be16 h 10 (cnot16 (ocfold (sum16 h))) ++ l4.
Definition ip6 (proto flowlabel : N) (src dst : N) (l4 : list N) : list N :=
  [96; (flowlabel / 65536) mod 16; (flowlabel / 256) mod 256; flowlabel mod 256] ++
  enc_be16 (len l4) ++ [proto; 64] ++ a6 src ++ a6 dst ++ l4.

Definition tcp4 (seq flags n : N) : list N := ip4 6 7 1 2 (tcp_l4 (a4 1) (a4 2) 1 1 seq 1 flags (payload n seq)).
Definition tcp6 (fl seq flags n : N) : list N := ip6 6 fl 1 2 (tcp_l4 (a6 1) (a6 2) 1 1 seq 1 flags (payload n seq)).
Definition udp4 (sport n : N) : list N := ip4 17 9 1 2 (udp_l4 (a4 1) (a4 2) sport 53 (payload n sport)).

Definition mkb (hdr : list N) (cap : N) (p : list N) : buf := {| b_hdr := hdr; b_pkt := p; b_cap := cap |}.
Definition z10 : list N := repeat 0 10.
Definition stale : list N := [60; 154; 5; 0; 0; 0; 0; 0; 0; 0].

Definition run (bufs : list buf) : state := handle_gro true 16 bufs.
Definition holds (bufs : list buf) : bool := let s := run bufs in holdsb bufs (s_tw s) (s_bufs s).
(* the code before the fixes 951b0e7, 4a9316a, b918254, ad814da *)
Definition run_old (bufs : list buf) : state := Old.handle_gro true 16 bufs.
Definition holds_old (bufs : list buf) : bool := let s := run_old bufs in holdsb bufs (s_tw s) (s_bufs s).

(* ---- non-vacuity: coalescing happens and the specification holds ---- *)
Definition ex_mixed : list buf :=
  map (mkb stale 65535) [tcp4 1 16 100; udp4 5 100; tcp4 101 16 100; udp4 5 100; tcp4 201 24 50; udp4 5 30; tcp6 7 1 16 100; tcp6 7 101 16 100].
Lemma ex_mixed_ok : s_tw (run ex_mixed) = [0; 1; 6] /\ holds ex_mixed = true /\
  length (segments (s_tw (run ex_mixed)) (s_bufs (run ex_mixed))) = 8%nat.
Proof. vm_compute. repeat split; reflexivity. Qed.

(* prepend (reordered arrival) and sequence-number wrap *)
Definition ex_prepend : list buf := map (mkb z10 65535) [tcp4 4294967196 16 100; tcp4 4294967096 16 100; tcp4 0 16 100].
Lemma ex_prepend_ok : s_tw (run ex_prepend) = [0] /\ holds ex_prepend = true /\
  s_trace (run ex_prepend) = [Inserted; Coalesced 0 true; Coalesced 0 false].
Proof. vm_compute. repeat split; reflexivity. Qed.

(* no room: capacity one byte short of cap - 2*offset >= merged length *)
Definition ex_cap : list buf := map (mkb z10 (240 + 32 - 1)) [tcp4 1 16 100; tcp4 101 16 100].
Definition ex_cap' : list buf := map (mkb z10 (240 + 32)) [tcp4 1 16 100; tcp4 101 16 100].
Lemma ex_cap_ok : s_tw (run ex_cap) = [0; 1] /\ s_tw (run ex_cap') = [0] /\ holds ex_cap = true /\ holds ex_cap' = true.
Proof. vm_compute. repeat split; reflexivity. Qed.

(* ---- the four repaired defects: refuted for the old code, fine for the current code ---- *)
(* F8 (951b0e7): same 5-tuple, another IPv6 flow label: the old code merged them, all left with the first label *)
Definition ex_flowlabel : list buf := map (mkb z10 65535) [tcp6 699050 1 16 100; tcp6 768955 101 16 100; tcp6 699050 201 16 100].
Lemma ex_flowlabel_old_refutes :
  let s := run_old ex_flowlabel in
  s_tw s = [0] /\ floweq_ok ex_flowlabel (s_tw s) (s_bufs s) = false /\ floweq_gen true false ex_flowlabel (s_tw s) (s_bufs s) = true.
Proof. vm_compute. repeat split; reflexivity. Qed.
Lemma ex_flowlabel_now : s_tw (run ex_flowlabel) = [0; 1; 2] /\ holds ex_flowlabel = true.
Proof. vm_compute. split; reflexivity. Qed.

(* F5 (4a9316a): capacity beyond 65535 + 2*offset: the old code merged 55 x 1200 bytes into 66040 bytes, length field 504 *)
Definition ex_big : list buf := map (fun i => mkb z10 131072 (tcp4 (1 + 1200 * i) 16 1200)) (indices 56 0).
Lemma ex_big_old_refutes :
  let s := run_old ex_big in
  s_tw s = [0; 55] /\ len (b_pkt (get_buf (s_bufs s) 0)) = 66040 /\ be16 (b_pkt (get_buf (s_bufs s) 0)) 2 = 504 /\
  holdsb ex_big (s_tw s) (s_bufs s) = false.
Proof. vm_compute. repeat split; reflexivity. Qed.
Lemma ex_big_now : s_tw (run ex_big) = [0; 54] /\ len (b_pkt (get_buf (s_bufs (run ex_big)) 0)) = 64840 /\ holds ex_big = true.
Proof. vm_compute. repeat split; reflexivity. Qed.

Definition merged_into_b (tr : list gres) (j : N) : bool :=
  existsb (fun r => match r with Coalesced j' _ => j' =? j | _ => false end) tr.

(* b918254: a TCP item dropped from the table for an invalid checksum kept the stale bytes in front of it *)
Definition bad (p : list N) : list N := put_byte p 40 ((byte_at p 40 + 1) mod 256).
Definition ex_stale : list buf := [mkb stale 65535 (bad (tcp4 1 16 100)); mkb stale 65535 (tcp4 101 16 100)].
Lemma ex_stale_old_refutes :
  let s := run_old ex_stale in
  s_tw s = [0; 1] /\ b_hdr (get_buf (s_bufs s) 0) = stale /\ b_hdr (get_buf (s_bufs s) 1) = zero_vhdr /\
  merged_into_b (s_trace s) 0 = false /\ holdsb ex_stale (s_tw s) (s_bufs s) = false.
Proof. vm_compute. repeat split; reflexivity. Qed.
Lemma ex_stale_now : b_hdr (get_buf (s_bufs (run ex_stale)) 0) = zero_vhdr /\ holds ex_stale = true.
Proof. vm_compute. split; reflexivity. Qed.

(* ad814da: a segment put in front of an item that ends with PSH: the old merged header had no PSH *)
Definition ex_psh : list buf := map (mkb z10 65535) [tcp4 101 24 100; tcp4 1 16 100].
Lemma ex_psh_old_refutes :
  let s := run_old ex_psh in
  s_tw s = [0] /\ byte_at (b_pkt (get_buf (s_bufs s) 0)) 33 = 16 /\
  floweq_ok ex_psh (s_tw s) (s_bufs s) = false /\ floweq_gen false true ex_psh (s_tw s) (s_bufs s) = true.
Proof. vm_compute. repeat split; reflexivity. Qed.
Lemma ex_psh_now : byte_at (b_pkt (get_buf (s_bufs (run ex_psh)) 0)) 33 = 24 /\ holds ex_psh = true.
Proof. vm_compute. split; reflexivity. Qed.

(* ---- still refuted: a zero-length datagram is overtaken by a later datagram of its flow ---- *)
Definition ex_udp0 : list buf := map (mkb z10 65535) [udp4 5 100; udp4 5 0; udp4 5 100].
Lemma ex_udp0_refutes :
  let s := run ex_udp0 in
  s_tw s = [0; 1] /\ udp_order_ok ex_udp0 (s_tw s) (s_bufs s) = false /\ floweq_ok ex_udp0 (s_tw s) (s_bufs s) = true.
Proof. vm_compute. repeat split; reflexivity. Qed.

(* ---- the statement of property C16 in full, and what refutes it ---- *)
Definition preb (offset : N) (bufs : list buf) : bool :=
  (VH <=? offset) && forallb (fun b => (0 <? len (b_pkt b))) bufs.

(* "for every batch the specification holds on what handleGRO writes" *)
Definition gro_holdsb_statement (gro : bool -> N -> list buf -> state) : Prop :=
  forall canUDP offset bufs, preb offset bufs = true ->
    let s := gro canUDP offset bufs in s_err s = false /\ holdsb bufs (s_tw s) (s_bufs s) = true.
Definition gro_lossless_statement : Prop := gro_holdsb_statement handle_gro.

(* the current code violates it only through the UDP order clause (known finding) *)
Theorem gro_lossless_refuted : ~ gro_lossless_statement.
Proof.
  intros H. specialize (H true 16 ex_udp0).
  assert (P : preb 16 ex_udp0 = true) by (vm_compute; reflexivity).
  destruct (H P) as [_ Hh]. vm_compute in Hh. discriminate.
Qed.
Lemma refuted_by_udp_order : preb 16 ex_udp0 = true /\ holds ex_udp0 = false /\
  (let s := run ex_udp0 in udp_order_ok ex_udp0 (s_tw s) (s_bufs s)) = false /\
  (let s := run ex_udp0 in bookkeeping_ok ex_udp0 (s_tw s) (s_bufs s) && passthrough_ok ex_udp0 (s_tw s) (s_bufs s)
                           && floweq_ok ex_udp0 (s_tw s) (s_bufs s) && headers_valid_ok (s_tw s) (s_bufs s)) = true.
Proof. vm_compute. repeat split; reflexivity. Qed.

(* the code before the fixes: each defect refutes the statement on its own, and is the only clause that fails *)
Definition holds_modulo_old (fl psh : bool) (bufs : list buf) : bool :=
  let s := run_old bufs in
  bookkeeping_ok bufs (s_tw s) (s_bufs s) && passthrough_ok bufs (s_tw s) (s_bufs s) && floweq_gen fl psh bufs (s_tw s) (s_bufs s)
  && udp_order_ok bufs (s_tw s) (s_bufs s) && headers_valid_ok (s_tw s) (s_bufs s).
Lemma old_refuted_only_by_flow_label : preb 16 ex_flowlabel = true /\ holds_old ex_flowlabel = false /\ holds_modulo_old true false ex_flowlabel = true.
Proof. vm_compute. repeat split; reflexivity. Qed.
Lemma old_refuted_only_by_psh : preb 16 ex_psh = true /\ holds_old ex_psh = false /\ holds_modulo_old false true ex_psh = true.
Proof. vm_compute. repeat split; reflexivity. Qed.
Lemma old_length_wraps_with_large_cap :
  exists bufs, forallb (fun b => (b_cap b =? 131072) && (len (b_pkt b) =? 1240)) bufs = true /\
    let s := run_old bufs in s_err s = false /\ In 0 (s_tw s) /\
    len (b_pkt (get_buf (s_bufs s) 0)) = 66040 /\ l3_len (b_pkt (get_buf (s_bufs s) 0)) = 504 /\
    holdsb bufs (s_tw s) (s_bufs s) = false.
Proof. exists ex_big. vm_compute. repeat split; auto. Qed.
Lemma old_passthrough_zero_hdr_refuted :
  exists bufs j, let s := run_old bufs in
    s_err s = false /\ In j (s_tw s) /\ merged_into_b (s_trace s) j = false /\
    b_pkt (get_buf (s_bufs s) j) = b_pkt (get_buf bufs j) /\ b_hdr (get_buf (s_bufs s) j) <> zero_vhdr.
Proof. exists ex_stale, 0. vm_compute. repeat split; auto. discriminate. Qed.
(* the four scenarios satisfy the whole specification on the current code *)
Lemma fixed_scenarios_hold : holds ex_flowlabel = true /\ holds ex_big = true /\ holds ex_stale = true /\ holds ex_psh = true.
Proof. vm_compute. repeat split; reflexivity. Qed.
