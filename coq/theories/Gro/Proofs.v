(* Proofs about the model of handleGRO (Gro.Model) for ALL batches.
   Part 1: table algebra and the outcome of tcpGRO / udpGRO.
   Part 2: the loop invariant (bookkeeping, ownership of buffers, payloads).
   Part 3: the accounting pass and the theorems of property C16. *)
From WG Require Import Base.Prelude Gen.Constants Gro.Bytes Gro.Model Gro.KernelSpec Gro.Spec.
From Coq Require Import Permutation.
Local Open Scope N_scope.

(* ---------------------------------------------------------------- lists *)
Lemma list_eqb_refl l : list_eqb l l = true.
Proof. induction l as [|x l IH]; cbn [list_eqb]; [reflexivity|]. rewrite N.eqb_refl. exact IH. Qed.

Lemma list_eqb_eq a b : list_eqb a b = true -> a = b.
Proof.
  revert b; induction a as [|x a IH]; intros [|y b] H; cbn [list_eqb] in H; try discriminate; [reflexivity|].
  apply andb_true_iff in H as [H1 H2]. apply N.eqb_eq in H1. subst. f_equal. apply IH. exact H2.
Qed.

Section Sub.
  Context {A : Type}.
  Inductive sub : list A -> list A -> Prop :=
  | sub_nil : sub [] []
  | sub_cons x a b : sub a b -> sub (x :: a) (x :: b)
  | sub_skip x a b : sub a b -> sub a (x :: b).
  Lemma sub_refl l : sub l l.
  Proof. induction l; constructor; assumption. Qed.
  Lemma sub_in a b x : sub a b -> In x a -> In x b.
  Proof. induction 1; cbn; intuition. Qed.
  Lemma sub_trans a b c : sub a b -> sub b c -> sub a c.
  Proof.
    intros H1 H2. revert a H1. induction H2; intros a' H1.
    - exact H1.
    - inversion H1; subst; constructor; auto.
    - constructor; auto.
  Qed.
  Lemma sub_remove_nth i (l : list A) : sub (remove_nth i l) l.
  Proof. revert i; induction l as [|x l IH]; intros [|i]; cbn [remove_nth]; try constructor; try apply sub_refl. apply IH. Qed.
  Lemma sub_app a b a' b' : sub a a' -> sub b b' -> sub (a ++ b) (a' ++ b').
  Proof. induction 1; intros Hb; cbn [app]; try constructor; auto. Qed.
  Lemma sub_nodup (a b : list A) : sub a b -> NoDup b -> NoDup a.
  Proof.
    induction 1; intros Hn; [constructor| |].
    - inversion Hn; subst. constructor; auto. intro Hi. apply H2. eapply sub_in; eauto.
    - inversion Hn; auto.
  Qed.
End Sub.
Lemma sub_map {A B} (f : A -> B) a b : sub a b -> sub (map f a) (map f b).
Proof. induction 1; cbn [map]; constructor; auto. Qed.

(* sub-list of items where only items nothing was merged into are left out *)
Inductive subz : list item -> list item -> Prop :=
| subz_nil : subz [] []
| subz_cons x a b : subz a b -> subz (x :: a) (x :: b)
| subz_skip x a b : it_merged x = 0 -> subz a b -> subz a (x :: b).
Lemma subz_sub a b : subz a b -> sub a b.
Proof. induction 1; constructor; auto. Qed.
Lemma subz_refl l : subz l l.
Proof. induction l; constructor; assumption. Qed.
Lemma subz_trans a b c : subz a b -> subz b c -> subz a c.
Proof.
  intros H1 H2. revert a H1. induction H2; intros a' H1.
  - exact H1.
  - inversion H1; subst; constructor; auto.
  - constructor; auto.
Qed.
Lemma subz_remove_nth i l x : nth_error l i = Some x -> it_merged x = 0 -> subz (remove_nth i l) l.
Proof.
  revert i; induction l as [|y l IH]; intros [|i] H Hz; cbn [remove_nth nth_error] in *; try discriminate.
  - inversion H; subst. constructor; [exact Hz|apply subz_refl].
  - constructor. eapply IH; eauto.
Qed.
Lemma subz_in_or a b x : subz a b -> In x b -> In x a \/ it_merged x = 0.
Proof.
  induction 1; intros Hx; [destruct Hx| |].
  - destruct Hx as [->|Hx]; [left; left; reflexivity|]. destruct (IHsubz Hx); [left; right; assumption|auto].
  - destruct Hx as [->|Hx]; [auto|]. apply IHsubz. exact Hx.
Qed.

Lemma firstn_remove_nth {A} i (l : list A) : firstn i (remove_nth i l) = firstn i l.
Proof. revert i; induction l as [|x l IH]; intros [|i]; cbn [remove_nth firstn]; try reflexivity. f_equal. apply IH. Qed.

Lemma firstn_S_nth {A} (l1 l2 : list A) i d : firstn (S i) l1 = firstn (S i) l2 -> (i < length l2)%nat ->
  nth_error l1 i = Some (nth i l2 d) /\ firstn i l1 = firstn i l2.
Proof.
  revert l1 l2; induction i as [|i IH]; intros [|x l1] [|y l2] H Hl; cbn [length] in Hl; try lia; cbn [firstn] in H; try discriminate.
  - inversion H; subst. split; reflexivity.
  - inversion H; subst. destruct (IH l1 l2 H2 ltac:(lia)) as [E1 E2]. split; [exact E1|]. cbn [firstn]. f_equal. exact E2.
Qed.

Lemma map_set_nth {A B} (f : A -> B) l i x : map f (set_nth l i x) = set_nth (map f l) i (f x).
Proof. revert i; induction l as [|y l IH]; intros [|i]; cbn [set_nth map]; try reflexivity. f_equal. apply IH. Qed.
Lemma set_nth_same {A} (l : list A) i x : nth_error l i = Some x -> set_nth l i x = l.
Proof. revert i; induction l as [|y l IH]; intros [|i] H; cbn in *; try discriminate; [inversion H; reflexivity|]. f_equal. auto. Qed.
Lemma in_set_nth {A} (l : list A) i x y : In y (set_nth l i x) -> y = x \/ In y l.
Proof. revert i; induction l as [|z l IH]; intros [|i]; cbn; intuition. destruct (IH i H0); auto. Qed.
Lemma in_set_nth_other {A} (l : list A) i x y : In y (set_nth l i x) -> y = x \/ exists j, j <> i /\ nth_error l j = Some y.
Proof.
  revert i; induction l as [|z l IH]; intros [|i]; cbn [set_nth In]; try tauto.
  - intros [E|H]; [auto|]. right. apply In_nth_error in H as [j Hj]. exists (S j). split; [lia|exact Hj].
  - intros [E|H]; [right; exists 0%nat; split; [lia|subst; reflexivity]|].
    destruct (IH i H) as [E|[j [Hj1 Hj2]]]; [auto|]. right. exists (S j). split; [lia|exact Hj2].
Qed.

Lemma in_set_nth_keep {A} (l : list A) n y x : In x l -> In x (set_nth l n y) \/ nth_error l n = Some x.
Proof.
  revert n; induction l as [|z l IH]; intros [|n] H; cbn [set_nth nth_error In] in *; try tauto.
  - destruct H as [->|H]; auto.
  - destruct H as [->|H]; auto. destruct (IH n H); auto.
Qed.
Lemma in_set_nth_new {A} (l : list A) n x y : nth_error l n = Some x -> In y (set_nth l n y).
Proof. revert n; induction l as [|z l IH]; intros [|n] H; cbn [nth_error set_nth In] in *; try discriminate; [left; reflexivity|right; eapply IH; eauto]. Qed.

(* --------------------------------------------------------------- tables *)
Definition all_items (t : table) : list item := flat_map snd t.

Lemma tset_some k t old : tlookup k t = Some old ->
  exists pre suf, all_items t = pre ++ old ++ suf /\ forall v, all_items (tset k v t) = pre ++ v ++ suf.
Proof.
  induction t as [|[k' its] t IH]; cbn [tlookup tset]; [discriminate|].
  destruct (list_eqb k k').
  - intros H; inversion H; subst. exists [], (all_items t). split; [reflexivity|]. intros v. reflexivity.
  - intros H. destruct (IH H) as [pre [suf [E1 E2]]]. exists (its ++ pre), suf.
    unfold all_items in *. cbn [flat_map snd]. rewrite E1, <- !app_assoc. split; [reflexivity|].
    intros v. rewrite E2, <- !app_assoc. reflexivity.
Qed.
Lemma tset_none k v t : tlookup k t = None -> all_items (tset k v t) = all_items t ++ v.
Proof.
  induction t as [|[k' its] t IH]; cbn [tlookup tset]; [intros _; unfold all_items; cbn; rewrite app_nil_r; reflexivity|].
  destruct (list_eqb k k'); [discriminate|]. intros H. unfold all_items in *. cbn [flat_map snd]. rewrite (IH H), app_assoc. reflexivity.
Qed.
Lemma tlookup_tset k v t : tlookup k (tset k v t) = Some v.
Proof.
  induction t as [|[k' its] t IH]; cbn [tlookup tset]; [rewrite list_eqb_refl; reflexivity|].
  destruct (list_eqb k k') eqn:E; cbn [tlookup]; rewrite E; [reflexivity|exact IH].
Qed.
Lemma tset_tset k v1 v2 t : tset k v2 (tset k v1 t) = tset k v2 t.
Proof.
  induction t as [|[k' its] t IH]; cbn [tset]; [rewrite list_eqb_refl; reflexivity|].
  destruct (list_eqb k k') eqn:E; cbn [tset]; rewrite E; [reflexivity|]. f_equal. exact IH.
Qed.
Lemma tset_same k l t : tlookup k t = Some l -> tset k l t = t.
Proof.
  induction t as [|[k' its] t IH]; cbn [tlookup tset]; [discriminate|].
  destruct (list_eqb k k'); intros H; [inversion H; reflexivity|]. f_equal. exact (IH H).
Qed.
Lemma titems_some k t l : tlookup k t = Some l -> titems k t = l.
Proof. unfold titems. intros ->. reflexivity. Qed.
Lemma titems_none k t : tlookup k t = None -> titems k t = [].
Proof. unfold titems. intros ->. reflexivity. Qed.
Lemma tlookup_in k t l : tlookup k t = Some l -> forall x, In x l -> In x (all_items t).
Proof. intros H x Hx. destruct (tset_some k t l H) as [pre [suf [E _]]]. rewrite E. apply in_or_app. right. apply in_or_app. left. exact Hx. Qed.

(* ------------------------------------------- outcome of coalesce / GRO *)
Definition same_shape (a b : item) : Prop :=
  it_key b = it_key a /\ it_v6 b = it_v6 a /\ it_idx b = it_idx a /\ it_iph b = it_iph a /\ it_tcph b = it_tcph a /\
  it_merged b = it_merged a + 1.

Definition is_prepend (m : can) : bool := match m with CanPrepend => true | _ => false end.

(* what a successful TCP merge does to the buffers *)
Definition tcp_merge_bufs (mode : can) (pkt : list N) (pktI : N) (psh : bool) (it : item) (bufs : list buf) : list buf :=
  let hb := get_buf bufs (it_idx it) in
  let head := b_pkt hb in
  let hl := it_iph it + it_tcph it in
  if is_prepend mode then
    let fo := it_iph it + FLAGS_OFF in
    let pkt' := if it_psh it then put_byte pkt fo (N.lor (byte_at pkt fo) PSH) else pkt in
    set_buf (set_buf bufs pktI hb) (it_idx it) (with_pkt (get_buf bufs pktI) (pkt' ++ drop hl head))
  else
    let fo := it_iph it + FLAGS_OFF in
    let head' := if psh then put_byte head fo (N.lor (byte_at head fo) PSH) else head in
    set_buf bufs (it_idx it) (with_pkt hb (head' ++ drop hl pkt)).

Lemma coalesce_tcp_success mode pkt pktI gso seq psh it bufs off v6 it' bufs' :
  coalesce_tcp mode pkt pktI gso seq psh it bufs off v6 = (Success, it', bufs') ->
  same_shape it it' /\ bufs' = tcp_merge_bufs mode pkt pktI psh it bufs /\
  it_gso it' = (if it_gso it <? gso then gso else it_gso it) /\
  no_room (if is_prepend mode then get_buf bufs pktI else get_buf bufs (it_idx it)) off
          (len (b_pkt (get_buf bufs (it_idx it))) + len pkt - (it_iph it + it_tcph it)) = false.
Proof.
  unfold coalesce_tcp, tcp_merge_bufs, same_shape. destruct (tun_maxUint16 <? _); [discriminate|]. destruct mode; cbn [is_prepend].
  1,2: destruct (no_room _ _ _) eqn:Hr; [discriminate|];
       destruct (_ && _); [discriminate|]; destruct (negb (checksum_valid pkt _ _ _)); [discriminate|];
       intros H; inversion H; subst; cbn; repeat split; reflexivity.
  destruct (no_room _ _ _) eqn:Hr; [discriminate|]. destruct psh; [discriminate|].
  destruct (_ && _); [discriminate|]. destruct (negb (checksum_valid pkt _ _ _)); [discriminate|].
  intros H; inversion H; subst; cbn; repeat split; reflexivity.
Qed.

Lemma coalesce_udp_success pkt it bufs off v6 it' bufs' :
  coalesce_udp pkt it bufs off v6 = (Success, it', bufs') ->
  same_shape it it' /\ it_gso it' = it_gso it /\
  bufs' = set_buf bufs (it_idx it)
            (with_pkt (get_buf bufs (it_idx it)) (b_pkt (get_buf bufs (it_idx it)) ++ drop (it_iph it + UDPH) pkt)) /\
  no_room (get_buf bufs (it_idx it)) off (len (b_pkt (get_buf bufs (it_idx it))) + len pkt - (it_iph it + UDPH)) = false.
Proof.
  unfold coalesce_udp, same_shape. destruct (tun_maxUint16 <? _); [discriminate|]. destruct (no_room _ _ _) eqn:Hr; [discriminate|].
  destruct (_ && _); [discriminate|]. destruct (negb (checksum_valid pkt _ _ _)); [discriminate|].
  intros H; inversion H; subst; cbn; repeat split; reflexivity.
Qed.

(* the 65535 guard (4a9316a) *)
Lemma coalesce_tcp_bound mode pkt pktI gso seq psh it bufs off v6 it' bufs' :
  coalesce_tcp mode pkt pktI gso seq psh it bufs off v6 = (Success, it', bufs') ->
  len (b_pkt (get_buf bufs (it_idx it))) + len pkt - (it_iph it + it_tcph it) <= 65535.
Proof.
  unfold coalesce_tcp. destruct (N.ltb_spec tun_maxUint16 (len (b_pkt (get_buf bufs (it_idx it))) + len pkt - (it_iph it + it_tcph it))); [discriminate|].
  intros _. exact H.
Qed.
Lemma coalesce_udp_bound pkt it bufs off v6 it' bufs' :
  coalesce_udp pkt it bufs off v6 = (Success, it', bufs') ->
  len (b_pkt (get_buf bufs (it_idx it))) + len pkt - (it_iph it + UDPH) <= 65535.
Proof.
  unfold coalesce_udp. destruct (N.ltb_spec tun_maxUint16 (len (b_pkt (get_buf bufs (it_idx it))) + len pkt - (it_iph it + UDPH))); [discriminate|].
  intros _. exact H.
Qed.

Lemma coalesce_tcp_psh mode pkt pktI gso seq psh it bufs off v6 it' bufs' :
  coalesce_tcp mode pkt pktI gso seq psh it bufs off v6 = (Success, it', bufs') ->
  it_psh it' = if is_prepend mode then it_psh it else (if psh then true else it_psh it).
Proof.
  unfold coalesce_tcp. destruct (tun_maxUint16 <? _); [discriminate|]. destruct mode; cbn [is_prepend].
  1,2: destruct (no_room _ _ _); [discriminate|]; destruct (_ && _); [discriminate|];
       destruct (negb (checksum_valid pkt _ _ _)); [discriminate|]; intros H; inversion H; reflexivity.
  destruct (no_room _ _ _); [discriminate|]. destruct psh; [discriminate|].
  destruct (_ && _); [discriminate|]. destruct (negb (checksum_valid pkt _ _ _)); [discriminate|].
  intros H; inversion H; reflexivity.
Qed.

Lemma coalesce_tcp_iteminvalid mode pkt pktI gso seq psh it bufs off v6 it' bufs' :
  coalesce_tcp mode pkt pktI gso seq psh it bufs off v6 = (ItemInvalidCSum, it', bufs') -> it_merged it = 0.
Proof.
  unfold coalesce_tcp. destruct (tun_maxUint16 <? _); [discriminate|]. destruct mode.
  1,2: destruct (no_room _ _ _); [discriminate|];
       destruct (N.eqb_spec (it_merged it) 0); cbn [andb]; [auto|];
       destruct (negb (checksum_valid pkt _ _ _)); discriminate.
  destruct (no_room _ _ _); [discriminate|]. destruct psh; [discriminate|].
  destruct (N.eqb_spec (it_merged it) 0); cbn [andb]; [auto|].
  destruct (negb (checksum_valid pkt _ _ _)); discriminate.
Qed.

(* --------------------------------------------------- buffers as a vector *)
Lemma get_set_buf bufs x v j :
  get_buf (set_buf bufs x v) j =
  if (N.to_nat j =? N.to_nat x)%nat then (if (N.to_nat x <? length bufs)%nat then v else get_buf bufs j) else get_buf bufs j.
Proof. unfold get_buf, set_buf. apply nth_set_nth. Qed.
Lemma get_set_buf_other bufs x v j : j <> x -> get_buf (set_buf bufs x v) j = get_buf bufs j.
Proof. intros H. rewrite get_set_buf. destruct (Nat.eqb_spec (N.to_nat j) (N.to_nat x)); [lia|reflexivity]. Qed.
Lemma get_set_buf_same bufs x v : (N.to_nat x < length bufs)%nat -> get_buf (set_buf bufs x v) x = v.
Proof.
  intros H. rewrite get_set_buf, Nat.eqb_refl. destruct (Nat.ltb_spec (N.to_nat x) (length bufs)); [reflexivity|lia].
Qed.
Lemma set_buf_length bufs x v : length (set_buf bufs x v) = length bufs.
Proof. apply set_nth_length. Qed.

(* bufs' is bufs with the virtio headers of some buffers owned by items of L zeroed *)
Definition hz (L : list item) (bufs bufs' : list buf) : Prop :=
  length bufs' = length bufs /\
  forall i, get_buf bufs' i = get_buf bufs i \/
            ((exists x, In x L /\ it_idx x = i) /\ get_buf bufs' i = with_hdr (get_buf bufs i) zero_vhdr).
Lemma hz_refl L bufs : hz L bufs bufs.
Proof. split; auto. Qed.
Lemma hz_pkt L bufs bufs' i : hz L bufs bufs' -> b_pkt (get_buf bufs' i) = b_pkt (get_buf bufs i) /\ b_cap (get_buf bufs' i) = b_cap (get_buf bufs i).
Proof. intros [_ H]. destruct (H i) as [E|[_ E]]; rewrite E; auto. Qed.
Lemma in_remove_nth_or {A} i (l : list A) x : In x l -> In x (remove_nth i l) \/ nth_error l i = Some x.
Proof.
  revert i; induction l as [|y l IH]; intros [|i] H; cbn [remove_nth nth_error In] in *; try tauto.
  - destruct H as [->|H]; auto.
  - destruct H as [->|H]; auto. destruct (IH i H); auto.
Qed.
Lemma in_remove_nth {A} i (l : list A) x : In x (remove_nth i l) -> In x l.
Proof. apply sub_in. apply sub_remove_nth. Qed.

Section LoopSpec.
  Variables (pkt : list N) (pktI iph tcph seq gso : N) (psh v6 : bool) (offset : N) (newit : item).
  Variable key : list N.
  Hypothesis Hnewkey : it_key newit = key.

  (* The result of the TCP item loop, in terms of the list L of items the flow had:
     some items deleted (L' a sub-list; their virtio headers zeroed: bz), then nothing,
     an insertion at the end, or one item replaced by its merged version. *)
  Definition loop_out (t : table) (L : list item) (bufs : list buf) (res : gres * list buf * table) : Prop :=
    exists L' bz, subz L' L /\ hz L bufs bz /\
      (forall x, In x L -> In x L' \/ b_hdr (get_buf bz (it_idx x)) = zero_vhdr) /\
      (res = (Noop, bz, tset key L' t)
       \/ res = (Inserted, bz, tset key (L' ++ [newit]) t)
       \/ exists i it it' bufs' mode,
            nth_error L' i = Some it /\ mode <> Unavail /\
            tcp_can_coalesce pkt iph tcph seq psh gso it (b_pkt (get_buf bz (it_idx it))) = mode /\
            coalesce_tcp mode pkt pktI gso seq psh it bz offset v6 = (Success, it', bufs') /\
            res = (Coalesced (it_idx it) (is_prepend mode), bufs', tset key (set_nth L' i it') t)).

  Lemma tcp_loop_spec n : forall items bufs t L,
    tlookup key t = Some L -> (n <= length items)%nat -> firstn n L = firstn n items ->
    (forall it, In it items -> it_key it = key) ->
    (forall it, In it L -> (N.to_nat (it_idx it) < length bufs)%nat) ->
    loop_out t L bufs (tcp_loop pkt pktI iph tcph seq gso psh v6 offset newit n items bufs t).
  Proof.
    induction n as [|i IH]; intros items bufs t L Hl Hn Hp Hk Hr; cbn [tcp_loop].
    - exists L, bufs. split; [apply subz_refl|]. split; [apply hz_refl|]. split; [auto|].
      right; left. unfold tinsert. rewrite Hnewkey, (titems_some _ _ _ Hl). reflexivity.
    - destruct (firstn_S_nth L items i dummy_item Hp ltac:(lia)) as [Hnth Hp'].
      set (it := nth i items dummy_item) in *.
      assert (Hkey : it_key it = key) by (apply Hk; apply nth_In; lia).
      assert (Hdel : forall it' bufs' mode, coalesce_tcp mode pkt pktI gso seq psh it bufs offset v6 = (ItemInvalidCSum, it', bufs') ->
                loop_out t L bufs (tcp_loop pkt pktI iph tcph seq gso psh v6 offset newit i items
                   (set_buf bufs (it_idx it) (with_hdr (get_buf bufs (it_idx it)) zero_vhdr)) (tdelete t (it_key it) i))).
      { intros it' bufs' mode Hco. unfold tdelete. rewrite Hkey, (titems_some _ _ _ Hl).
        set (b1 := set_buf bufs (it_idx it) (with_hdr (get_buf bufs (it_idx it)) zero_vhdr)).
        assert (Hit : In it L) by (eapply nth_error_In; eauto).
        assert (Hz1 : hz L bufs b1).
        { split; [apply set_buf_length|]. intros j. unfold b1. destruct (N.eq_dec j (it_idx it)) as [->|Hne].
          - right. split; [exists it; auto|]. apply get_set_buf_same. apply Hr. exact Hit.
          - left. apply get_set_buf_other. exact Hne. }
        destruct (IH items b1 (tset key (remove_nth i L) t) (remove_nth i L)) as [L' [bz [Hs [Hz [Hd Hout]]]]]; auto; try lia.
        { apply tlookup_tset. } { rewrite firstn_remove_nth. exact Hp'. }
        { intros x Hx. unfold b1. rewrite set_buf_length. apply Hr. eapply in_remove_nth; eauto. }
        exists L', bz. split; [eapply subz_trans; [exact Hs|eapply subz_remove_nth; [exact Hnth|eapply coalesce_tcp_iteminvalid; exact Hco]]|].
        split.
        { destruct Hz as [Hzl Hzi]. destruct Hz1 as [Hl1 Hi1]. split; [congruence|]. intros j.
          destruct (Hzi j) as [E|[[x [Hx Ex]] E]]; destruct (Hi1 j) as [E1|[[x1 [Hx1 Ex1]] E1]].
          - left. congruence.
          - right. split; [exists x1; auto|]. congruence.
          - right. split; [exists x; split; [eapply in_remove_nth; eauto|auto]|]. congruence.
          - right. split; [exists x1; auto|]. rewrite E, E1. reflexivity. }
        split.
        { intros x Hx. destruct (in_remove_nth_or i L x Hx) as [Hx'|Hx'].
          - apply Hd. exact Hx'.
          - right. rewrite Hnth in Hx'. inversion Hx'; subst x. destruct Hz as [_ Hzi].
            destruct (Hzi (it_idx it)) as [E|[_ E]]; rewrite E; [|reflexivity].
            unfold b1. rewrite get_set_buf_same by (apply Hr; exact Hit). reflexivity. }
        destruct Hout as [Ho|[Ho|[i0 [it0 [it0' [b0 [m0 [H1 [H2 [H3 [H4 Ho]]]]]]]]]]]; rewrite tset_tset in Ho;
          [left; exact Ho|right; left; exact Ho|right; right; exists i0, it0, it0', b0, m0; auto]. }
      assert (Hsame : loop_out t L bufs (Noop, bufs, t)).
      { exists L, bufs. split; [apply subz_refl|]. split; [apply hz_refl|]. split; [auto|]. left. rewrite (tset_same _ _ _ Hl). reflexivity. }
      destruct (tcp_can_coalesce pkt iph tcph seq psh gso it (b_pkt (get_buf bufs (it_idx it)))) eqn:Hc.
      + apply IH; auto; lia.
      + destruct (coalesce_tcp CanAppend pkt pktI gso seq psh it bufs offset v6) as [[res it'] bufs'] eqn:Hco.
        destruct res; try (apply IH; auto; lia).
        * eapply Hdel; eauto.
        * exact Hsame.
        * exists L, bufs. split; [apply subz_refl|]. split; [apply hz_refl|]. split; [auto|]. right; right. exists i, it, it', bufs', CanAppend.
          destruct (coalesce_tcp_success _ _ _ _ _ _ _ _ _ _ _ _ Hco) as [[Hk' _] _].
          unfold tupdate. rewrite Hk', Hkey, (titems_some _ _ _ Hl).
          repeat split; auto. discriminate.
      + destruct (coalesce_tcp CanPrepend pkt pktI gso seq psh it bufs offset v6) as [[res it'] bufs'] eqn:Hco.
        destruct res; try (apply IH; auto; lia).
        * eapply Hdel; eauto.
        * exact Hsame.
        * exists L, bufs. split; [apply subz_refl|]. split; [apply hz_refl|]. split; [auto|]. right; right. exists i, it, it', bufs', CanPrepend.
          destruct (coalesce_tcp_success _ _ _ _ _ _ _ _ _ _ _ _ Hco) as [[Hk' _] _].
          unfold tupdate. rewrite Hk', Hkey, (titems_some _ _ _ Hl).
          repeat split; auto. discriminate.
  Qed.
End LoopSpec.

(* every item is filed under its own key *)
Definition keys_ok (t : table) : Prop := forall k its it, In (k, its) t -> In it its -> it_key it = k.

Lemma keys_ok_lookup t k L : keys_ok t -> tlookup k t = Some L -> forall it, In it L -> it_key it = k.
Proof.
  intros Hk. induction t as [|[k' its] t IH]; cbn [tlookup]; [discriminate|].
  destruct (list_eqb k k') eqn:E.
  - intros H it Hi. inversion H; subst. apply list_eqb_eq in E. subst. apply (Hk k' L it); [left; reflexivity|exact Hi].
  - apply IH. intros k0 its0 it0 H1 H2. apply (Hk k0 its0 it0); [right; exact H1|exact H2].
Qed.
Lemma keys_ok_tset t k v : keys_ok t -> (forall it, In it v -> it_key it = k) -> keys_ok (tset k v t).
Proof.
  intros Hk Hv. induction t as [|[k' its] t IH]; cbn [tset].
  - intros k0 its0 it0 [H|[]] Hi. inversion H; subst. apply Hv, Hi.
  - destruct (list_eqb k k') eqn:E.
    + apply list_eqb_eq in E. subst. intros k0 its0 it0 [H|H] Hi.
      * inversion H; subst. apply Hv, Hi.
      * apply (Hk k0 its0 it0); [right; exact H|exact Hi].
    + intros k0 its0 it0 [H|H] Hi.
      * inversion H; subst. apply (Hk k0 its0 it0); [left; reflexivity|exact Hi].
      * refine (IH _ k0 its0 it0 H Hi). intros k1 its1 it1 H1 H2. apply (Hk k1 its1 it1); [right; exact H1|exact H2].
Qed.

(* a new table entry made of packet pktI *)
Definition v6_flag (v6 : bool) : N := if v6 then 1 else 0.
(* what the candidate classification tells about a packet *)
Definition cls_ok (tcp v6 : bool) (p : list N) : Prop :=
  byte_at p 0 / 16 = (if v6 then 6 else 4) /\ (v6 = false -> byte_at p 0 mod 16 = 5) /\
  byte_at p (if v6 then 6 else 9) = (if tcp then 6 else 17).
(* ... and, with the gates of tcpGRO/udpGRO, about its headers *)
Definition hdr_facts (tcp v6 : bool) (tcph : N) (p : list N) : Prop :=
  byte_at p 0 / 16 = (if v6 then 6 else 4) /\
  (v6 = false -> byte_at p 0 mod 16 = 5 /\ byte_at p 6 mod 64 = 0 /\ byte_at p 7 = 0) /\
  byte_at p (if v6 then 6 else 9) = (if tcp then 6 else 17) /\
  (tcp = true -> byte_at p ((if v6 then 40 else 20) + 12) / 16 * 4 = tcph).
(* TCP only: the item's sequence number and the flags the candidate gate admits *)
Definition tcp_facts (tcp : bool) (pkt : list N) (x : item) : Prop :=
  tcp = true -> it_seq x = be32 pkt (it_iph x + 4) /\
                (byte_at pkt (it_iph x + 13) = 16 \/ byte_at pkt (it_iph x + 13) = 24) /\
                it_psh x = (byte_at pkt (it_iph x + 13) =? 24) /\
                byte_at pkt (it_iph x + 12) mod 16 = 0.
Definition fresh_item (tcp : bool) (pkt : list N) (pktI : N) (v6 : bool) (x : item) : Prop :=
  it_idx x = pktI /\ it_merged x = 0 /\ it_v6 x = v6 /\ it_iph x = (if v6 then 40 else 20) /\
  (if tcp then 20 <= it_tcph x else it_tcph x = 0) /\
  it_iph x + (if tcp then it_tcph x else UDPH) <= len pkt /\
  it_gso x = len pkt - (it_iph x + (if tcp then it_tcph x else UDPH)) /\ 1 <= it_gso x /\ len pkt <= 65535 /\
  it_key x = flow_key pkt v6 (it_iph x) tcp /\ hdr_facts tcp v6 (it_tcph x) pkt /\ tcp_facts tcp pkt x.

Definition merged_ok (tcp : bool) (pkt : list N) (pktI off : N) (v6 : bool) (p : bool) (it it' : item) (bufs bufs' : list buf) : Prop :=
  exists new, fresh_item tcp pkt pktI v6 new /\ it_key it = it_key new /\
  if tcp then
    exists mode, p = is_prepend mode /\ mode <> Unavail /\
      tcp_can_coalesce pkt (it_iph new) (it_tcph new) (it_seq new) (it_psh new) (it_gso new) it (b_pkt (get_buf bufs (it_idx it))) = mode /\
      coalesce_tcp mode pkt pktI (it_gso new) (it_seq new) (it_psh new) it bufs off v6 = (Success, it', bufs')
  else
    p = false /\ udp_can_coalesce pkt (it_iph new) (it_gso new) it (b_pkt (get_buf bufs (it_idx it))) = CanAppend /\
    coalesce_udp pkt it bufs off v6 = (Success, it', bufs').

Definition step_out (tcp : bool) (pkt : list N) (pktI off : N) (v6 : bool) (bufs : list buf) (t : table)
  (res : gres * list buf * table) : Prop :=
  let '(r, bufs', t') := res in
  keys_ok t' /\
  exists pre L suf L', all_items t = pre ++ L ++ suf /\ subz L' L /\ (tcp = false -> L' = L) /\
    match r with
    | Noop => bufs' = bufs /\ all_items t' = pre ++ L' ++ suf
    | Inserted => bufs' = bufs /\ exists new, fresh_item tcp pkt pktI v6 new /\ all_items t' = pre ++ (L' ++ [new]) ++ suf
    | Coalesced j p => exists i it it', nth_error L' i = Some it /\ it_idx it = j /\
                         all_items t' = pre ++ set_nth L' i it' ++ suf /\ merged_ok tcp pkt pktI off v6 p it it' bufs bufs'
    end.

Lemma step_out_noop tcp pkt pktI off v6 bufs t : keys_ok t -> step_out tcp pkt pktI off v6 bufs t (Noop, bufs, t).
Proof.
  intros Hk. split; [exact Hk|]. exists (all_items t), [], [], []. rewrite !app_nil_r.
  repeat split; auto. constructor.
Qed.

Lemma sub_keys (L' L : list item) k : sub L' L -> (forall it, In it L -> it_key it = k) -> forall it, In it L' -> it_key it = k.
Proof. intros Hs H it Hi. apply H. eapply sub_in; eauto. Qed.

(* [step_out] after the headers of some (deleted) items have been zeroed: bz *)
Definition step_out_z (tcp : bool) (pkt : list N) (pktI off : N) (v6 : bool) (bufs : list buf) (t : table)
  (res : gres * list buf * table) : Prop :=
  exists bz, hz (all_items t) bufs bz /\
    (forall x, In x (all_items t) ->
       (exists y, In y (all_items (snd res)) /\ it_idx y = it_idx x) \/ b_hdr (get_buf bz (it_idx x)) = zero_vhdr) /\
    step_out tcp pkt pktI off v6 bz t res.
Lemma step_z_noop tcp pkt pktI off v6 bufs t : keys_ok t -> step_out_z tcp pkt pktI off v6 bufs t (Noop, bufs, t).
Proof.
  intros Hk. exists bufs. split; [apply hz_refl|]. split; [|apply step_out_noop; exact Hk].
  intros x Hx. left. exists x. auto.
Qed.
Lemma hz_mono L L2 bufs bz : (forall x, In x L -> In x L2) -> hz L bufs bz -> hz L2 bufs bz.
Proof. intros Hi [H1 H2]. split; [exact H1|]. intros i. destruct (H2 i) as [E|[[x [Hx Ex]] E]]; [auto|right; split; [exists x; auto|exact E]]. Qed.

Lemma tcp_gro_spec bufs off pktI t v6 :
  cls_ok true v6 (b_pkt (get_buf bufs pktI)) ->
  keys_ok t -> (forall it, In it (all_items t) -> (N.to_nat (it_idx it) < length bufs)%nat) ->
  step_out_z true (b_pkt (get_buf bufs pktI)) pktI off v6 bufs t (tcp_gro bufs off pktI t v6).
Proof.
  intros Hcls Hk Hrange. unfold tcp_gro. set (pkt := b_pkt (get_buf bufs pktI)) in *.
  pose proof (proj1 (proj2 Hcls)) as H45.
  unfold ip_gate. destruct (tun_maxUint16 <? len pkt) eqn:Hmax; [apply step_z_noop; exact Hk|].
  set (iph := if v6 then 40 else byte_at pkt 0 mod 16 * 4).
  destruct (if v6 then negb (be16 pkt 4 =? len pkt - iph) else negb (be16 pkt 2 =? len pkt)); [apply step_z_noop; exact Hk|].
  destruct (len pkt <? iph) eqn:Hiph; [apply step_z_noop; exact Hk|].
  set (tcph := byte_at pkt (iph + 12) / 16 * 4).
  destruct ((tcph <? 20) || (60 <? tcph)) eqn:Ht; [apply step_z_noop; exact Hk|].
  destruct (N.eqb_spec (byte_at pkt (iph + 12) mod 16) 0) as [Hnib|Hnib]; cbn [negb]; [|apply step_z_noop; exact Hk].
  destruct (len pkt <? iph + tcph) eqn:Hl; [apply step_z_noop; exact Hk|].
  destruct (frag_gate pkt v6) eqn:Hfr; cbn [negb]; [|apply step_z_noop; exact Hk].
  destruct (negb (byte_at pkt (iph + FLAGS_OFF) =? ACK) && negb (byte_at pkt (iph + FLAGS_OFF) =? ACK + PSH)) eqn:Hfl; [apply step_z_noop; exact Hk|].
  destruct (len pkt - tcph - iph <? 1) eqn:Hg; [apply step_z_noop; exact Hk|].
  set (key := flow_key pkt v6 iph true).
  set (newit := {| it_key := key; it_v6 := v6; it_seq := be32 pkt (iph + 4); it_idx := pktI; it_merged := 0;
                   it_gso := len pkt - tcph - iph; it_iph := iph; it_tcph := tcph;
                   it_psh := negb (byte_at pkt (iph + FLAGS_OFF) =? ACK); it_bad := false |}).
  assert (Hfresh : fresh_item true pkt pktI v6 newit).
  { unfold fresh_item, newit; cbn. unfold tun_maxUint16 in Hmax.
    apply orb_false_iff in Ht as [Ht1 Ht2].
    assert (Hi : iph = if v6 then 40 else 20) by (unfold iph; destruct v6; [reflexivity|rewrite (H45 eq_refl); reflexivity]).
    assert (Hhf : hdr_facts true v6 tcph pkt).
    { destruct Hcls as [C1 [C2 C3]]. refine (conj C1 (conj _ (conj C3 _))).
      - intros ->. split; [apply C2; reflexivity|]. unfold frag_gate in Hfr.
        apply andb_true_iff in Hfr as [Hfr F3]. apply andb_true_iff in Hfr as [F1 F2].
        apply N.eqb_eq in F2, F3. unfold tun_ipv4FlagMoreFragments in F1.
        destruct (N.eqb_spec ((byte_at pkt 6 / 32) mod 2) 1); [discriminate|]. split; [lia|exact F3].
      - intros _. rewrite <- Hi. reflexivity. }
    assert (Htf : tcp_facts true pkt newit).
    { intros _. cbn [newit it_seq it_iph it_psh]. split; [reflexivity|].
      unfold FLAGS_OFF, tun_tcpFlagsOffset, ACK, PSH, tun_tcpFlagACK, tun_tcpFlagPSH in *.
      destruct (N.eqb_spec (byte_at pkt (iph + 13)) 16) as [E|E]; [rewrite E; split; [auto|split; [reflexivity|exact Hnib]]|].
      destruct (N.eqb_spec (byte_at pkt (iph + 13)) (16 + 8)) as [E2|E2]; [|discriminate]. change (16 + 8) with 24 in E2. rewrite E2. split; [auto|split; [reflexivity|exact Hnib]]. }
    refine (conj _ (conj _ (conj _ (conj _ (conj _ (conj _ (conj _ (conj _ (conj _ (conj _ (conj _ _)))))))))));
      try reflexivity; try lia; try exact Hi; try exact Hhf; exact Htf. }
  destruct (tlookup key t) as [L|] eqn:Hlk.
  - pose proof (keys_ok_lookup t key L Hk Hlk) as HkL.
    destruct (tcp_loop_spec pkt pktI iph tcph (be32 pkt (iph + 4)) (len pkt - tcph - iph)
                (negb (byte_at pkt (iph + FLAGS_OFF) =? ACK)) v6 off newit key eq_refl (length L) L bufs t L Hlk
                (le_n _) eq_refl HkL (fun x Hx => Hrange x (tlookup_in _ _ _ Hlk x Hx))) as [L' [bz [Hs [Hz [Hd Hout]]]]].
    destruct (tset_some key t L Hlk) as [pre [suf [E1 E2]]].
    pose proof (sub_keys L' L key (subz_sub _ _ Hs) HkL) as HkL'.
    exists bz. split; [eapply hz_mono; [|exact Hz]; intros x Hx; eapply tlookup_in; eauto|].
    (* survival of the other items *)
    assert (Hsurv : forall X, (forall x, In x L' -> (exists y, In y X /\ it_idx y = it_idx x)) ->
              forall x, In x (all_items t) ->
              (exists y, In y (pre ++ X ++ suf) /\ it_idx y = it_idx x) \/ b_hdr (get_buf bz (it_idx x)) = zero_vhdr).
    { intros X HX x Hx. rewrite E1 in Hx. apply in_app_or in Hx as [Hx|Hx]; [left; exists x; split; [apply in_or_app; auto|auto]|].
      apply in_app_or in Hx as [Hx|Hx]; [|left; exists x; split; [apply in_or_app; right; apply in_or_app; auto|auto]].
      destruct (Hd x Hx) as [Hx'|Hx']; [|auto]. left. destruct (HX x Hx') as [y [Hy Ey]]. exists y. split; [apply in_or_app; right; apply in_or_app; auto|exact Ey]. }
    destruct Hout as [Ho|[Ho|[i [it [it' [bufs' [mode [H1 [H2 [H3 [H4 Ho]]]]]]]]]]]; rewrite Ho; cbn [snd].
    + split; [rewrite E2; apply Hsurv; intros x Hx; exists x; auto|].
      split; [apply keys_ok_tset; auto|]. exists pre, L, suf, L'. rewrite E2. repeat split; auto; discriminate.
    + split; [rewrite E2; apply Hsurv; intros x Hx; exists x; split; [apply in_or_app; auto|auto]|].
      split. { apply keys_ok_tset; auto. intros x Hx. apply in_app_or in Hx as [Hx|[Hx|[]]]; [auto|subst; reflexivity]. }
      exists pre, L, suf, L'. rewrite E2. repeat split; auto; try discriminate. exists newit. auto.
    + destruct (coalesce_tcp_success _ _ _ _ _ _ _ _ _ _ _ _ H4) as [[Hk' [_ [Hsi _]]] _].
      assert (Hit : it_key it = key) by (apply HkL'; eapply nth_error_In; eauto).
      split.
      { rewrite E2. apply Hsurv. intros x Hx. destruct (in_set_nth_keep L' i it' x Hx) as [Hx'|Hx'].
        - exists x. auto.
        - exists it'. split; [eapply in_set_nth_new; eauto|]. rewrite H1 in Hx'. inversion Hx'; subst. exact Hsi. }
      split. { apply keys_ok_tset; auto. intros x Hx. apply in_set_nth in Hx as [->|Hx]; [congruence|auto]. }
      exists pre, L, suf, L'. rewrite E2. repeat split; auto; try discriminate. exists i, it, it'. repeat split; auto.
      exists newit. split; [exact Hfresh|]. split; [exact Hit|]. exists mode. auto.
  - unfold tinsert. cbn [it_key newit]. rewrite (titems_none _ _ Hlk). cbn [app].
    exists bufs. split; [apply hz_refl|]. split.
    { intros x Hx. left. exists x. cbn [snd]. rewrite (tset_none _ _ _ Hlk). split; [apply in_or_app; auto|auto]. }
    split. { apply keys_ok_tset; auto. intros x [<-|[]]. reflexivity. }
    exists (all_items t), [], [], []. rewrite (tset_none _ _ _ Hlk), !app_nil_r. repeat split; auto; [constructor|].
    exists newit. auto.
Qed.

Lemma udp_gro_spec bufs off pktI t v6 :
  cls_ok false v6 (b_pkt (get_buf bufs pktI)) ->
  keys_ok t -> step_out false (b_pkt (get_buf bufs pktI)) pktI off v6 bufs t (udp_gro bufs off pktI t v6).
Proof.
  intros Hcls Hk. unfold udp_gro. set (pkt := b_pkt (get_buf bufs pktI)) in *.
  pose proof (proj1 (proj2 Hcls)) as H45.
  unfold ip_gate. destruct (tun_maxUint16 <? len pkt) eqn:Hmax; [apply step_out_noop; exact Hk|].
  set (iph := if v6 then 40 else byte_at pkt 0 mod 16 * 4).
  destruct (if v6 then negb (be16 pkt 4 =? len pkt - iph) else negb (be16 pkt 2 =? len pkt)); [apply step_out_noop; exact Hk|].
  destruct (len pkt <? iph) eqn:Hiph; [apply step_out_noop; exact Hk|].
  destruct (len pkt <? iph + UDPH) eqn:Hl; [apply step_out_noop; exact Hk|].
  destruct (frag_gate pkt v6) eqn:Hfr; cbn [negb]; [|apply step_out_noop; exact Hk].
  destruct (len pkt - UDPH - iph <? 1) eqn:Hg; [apply step_out_noop; exact Hk|].
  set (key := flow_key pkt v6 iph false).
  set (newit := fun bad => {| it_key := key; it_v6 := v6; it_seq := 0; it_idx := pktI; it_merged := 0;
                   it_gso := len pkt - UDPH - iph; it_iph := iph; it_tcph := 0; it_psh := false; it_bad := bad |}).
  assert (Hfresh : forall bad, fresh_item false pkt pktI v6 (newit bad)).
  { intros bad. unfold fresh_item, newit; cbn. unfold tun_maxUint16 in Hmax. unfold UDPH, tun_udphLen in *.
    assert (Hi : iph = if v6 then 40 else 20) by (unfold iph; destruct v6; [reflexivity|rewrite (H45 eq_refl); reflexivity]).
    assert (Hhf : hdr_facts false v6 0 pkt).
    { destruct Hcls as [C1 [C2 C3]]. refine (conj C1 (conj _ (conj C3 _))).
      - intros ->. split; [apply C2; reflexivity|]. unfold frag_gate in Hfr.
        apply andb_true_iff in Hfr as [Hfr F3]. apply andb_true_iff in Hfr as [F1 F2].
        apply N.eqb_eq in F2, F3. unfold tun_ipv4FlagMoreFragments in F1.
        destruct (N.eqb_spec ((byte_at pkt 6 / 32) mod 2) 1); [discriminate|]. split; [lia|exact F3].
      - discriminate. }
    refine (conj _ (conj _ (conj _ (conj _ (conj _ (conj _ (conj _ (conj _ (conj _ (conj _ (conj _ _)))))))))));
      try reflexivity; try lia; try exact Hi; try exact Hhf; discriminate. }
  assert (Hins : forall bad L, tlookup key t = Some L ->
            step_out false pkt pktI off v6 bufs t (Inserted, bufs, tinsert t (newit bad))).
  { intros bad L Hlk. pose proof (keys_ok_lookup t key L Hk Hlk) as HkL.
    destruct (tset_some key t L Hlk) as [pre [suf [E1 E2]]].
    unfold tinsert. cbn [it_key newit]. rewrite (titems_some _ _ _ Hlk).
    split. { apply keys_ok_tset; auto. intros x Hx. apply in_app_or in Hx as [Hx|[Hx|[]]]; [auto|subst; reflexivity]. }
    exists pre, L, suf, L. rewrite E2. repeat split; auto; [apply subz_refl|]. exists (newit bad). auto. }
  destruct (tlookup key t) as [L|] eqn:Hlk.
  - destruct L as [|x0 L0] eqn:EL; [apply (Hins false []); reflexivity|]. rewrite <- EL in *.
    set (i := (length L - 1)%nat). set (it := nth i L dummy_item).
    assert (Hnth : nth_error L i = Some it).
    { apply nth_error_nth'. subst L. cbn [length] in *. lia. }
    destruct (udp_can_coalesce pkt iph (len pkt - UDPH - iph) it (b_pkt (get_buf bufs (it_idx it)))) eqn:Hc;
      try (apply (Hins false L); reflexivity).
    destruct (coalesce_udp pkt it bufs off v6) as [[res it'] bufs'] eqn:Hco.
    destruct res; try (apply (Hins false L); reflexivity); try (apply (Hins true L); reflexivity).
    pose proof (keys_ok_lookup t key L Hk Hlk) as HkL.
    destruct (tset_some key t L Hlk) as [pre [suf [E1 E2]]].
    destruct (coalesce_udp_success _ _ _ _ _ _ _ Hco) as [[Hk' _] _].
    assert (Hit : it_key it = key) by (apply HkL; eapply nth_error_In; eauto).
    unfold tupdate. rewrite Hk', Hit, (titems_some _ _ _ Hlk).
    split. { apply keys_ok_tset; auto. intros x Hx. apply in_set_nth in Hx as [->|Hx]; [congruence|auto]. }
    exists pre, L, suf, L. rewrite E2. repeat split; auto; [apply subz_refl|]. exists i, it, it'. repeat split; auto.
    exists (newit false). split; [apply Hfresh|]. split; [exact Hit|]. cbn [newit it_iph it_gso]. auto.
  - unfold tinsert. cbn [it_key newit]. rewrite (titems_none _ _ Hlk). cbn [app].
    split. { apply keys_ok_tset; auto. intros x [<-|[]]. reflexivity. }
    exists (all_items t), [], [], []. rewrite (tset_none _ _ _ Hlk), !app_nil_r. repeat split; auto; [constructor|].
    exists (newit false). auto.
Qed.

(* ------------------------------------------------- one step of handleGRO *)
Definition is_coal (r : gres) : bool := match r with Coalesced _ _ => true | _ => false end.
Definition total (s : state) : list item := all_items (s_tcp s) ++ all_items (s_udp s).
Definition sel (tcp : bool) (s : state) : table := if tcp then s_tcp s else s_udp s.

Lemma classify_facts b u :
  match classify b u with
  | NotCand => True
  | Tcp4 => cls_ok true false b
  | Tcp6 => cls_ok true true b
  | Udp4 => cls_ok false false b
  | Udp6 => cls_ok false true b
  end.
Proof.
  unfold classify, cls_ok, IPPROTO_TCP, IPPROTO_UDP. destruct (len b <? 28); [exact I|].
  destruct (N.eqb_spec (byte_at b 0 / 16) 4) as [E4|E4].
  - destruct (N.eqb_spec (byte_at b 0 mod 16) 5) as [E5|E5]; cbn [negb]; [|exact I].
    destruct (N.eqb_spec (byte_at b 9) 6) as [E9|E9]; cbn [andb].
    + destruct (40 <=? len b); [auto|]. destruct (N.eqb_spec (byte_at b 9) 17); [lia|exact I].
    + destruct (N.eqb_spec (byte_at b 9) 17) as [E17|E17]; cbn [andb]; [|exact I]. destruct u; [auto|exact I].
  - destruct (N.eqb_spec (byte_at b 0 / 16) 6) as [E6|E6]; [|exact I].
    destruct (N.eqb_spec (byte_at b 6) 6) as [E9|E9]; cbn [andb].
    + destruct (60 <=? len b); [repeat split; auto; discriminate|]. destruct (N.eqb_spec (byte_at b 6) 17); [lia|exact I].
    + destruct (N.eqb_spec (byte_at b 6) 17) as [E17|E17]; cbn [andb]; [|exact I].
      destruct (48 <=? len b); cbn [andb]; [|exact I]. destruct u; [repeat split; auto; discriminate|exact I].
Qed.

(* [tcp] tells which table the step worked on; the other one is unchanged *)
Definition step_spec_core (off : N) (s : state) (i : N) (s' : state) : Prop :=
  let pkt := b_pkt (get_buf (s_bufs s) i) in
  exists r bufs' tcp v6,
    keys_ok (s_tcp s') /\ keys_ok (s_udp s') /\ s_err s' = false /\
    s_trace s' = s_trace s ++ [r] /\
    s_tw s' = s_tw s ++ (if is_coal r then [] else [i]) /\
    s_bufs s' = (match r with Noop => set_buf bufs' i (with_hdr (get_buf bufs' i) zero_vhdr) | _ => bufs' end) /\
    sel (negb tcp) s' = sel (negb tcp) s /\
    exists PRE L SUF L', all_items (sel tcp s) = PRE ++ L ++ SUF /\ subz L' L /\
      match r with
      | Noop => bufs' = s_bufs s /\ all_items (sel tcp s') = PRE ++ L' ++ SUF
      | Inserted => bufs' = s_bufs s /\ exists new, fresh_item tcp pkt i v6 new /\ all_items (sel tcp s') = PRE ++ (L' ++ [new]) ++ SUF
      | Coalesced j p => exists n it it', nth_error L' n = Some it /\ it_idx it = j /\
                           all_items (sel tcp s') = PRE ++ set_nth L' n it' ++ SUF /\ merged_ok tcp pkt i off v6 p it it' (s_bufs s) bufs'
      end.

Definition with_bufs (s : state) (b : list buf) : state :=
  {| s_err := s_err s; s_bufs := b; s_tw := s_tw s; s_tcp := s_tcp s; s_udp := s_udp s; s_trace := s_trace s |}.

(* One step of handleGRO: first the virtio headers of the items that leave the table are
   zeroed (bz), then the step proper.  An item that disappears has its header zeroed. *)
Definition step_spec (off : N) (s : state) (i : N) (s' : state) : Prop :=
  exists bz, hz (total s) (s_bufs s) bz /\
    (forall x, In x (total s) -> (exists y, In y (total s') /\ it_idx y = it_idx x) \/ b_hdr (get_buf bz (it_idx x)) = zero_vhdr) /\
    step_spec_core off (with_bufs s bz) i s'.

Definition built (s : state) (i : N) (r : gres) (bufs : list buf) (tct udt : table) : state :=
  match r with
  | Noop => {| s_err := false; s_bufs := set_buf bufs i (with_hdr (get_buf bufs i) zero_vhdr); s_tw := s_tw s ++ [i]; s_tcp := tct; s_udp := udt; s_trace := s_trace s ++ [r] |}
  | Inserted => {| s_err := false; s_bufs := bufs; s_tw := s_tw s ++ [i]; s_tcp := tct; s_udp := udt; s_trace := s_trace s ++ [r] |}
  | Coalesced _ _ => {| s_err := false; s_bufs := bufs; s_tw := s_tw s; s_tcp := tct; s_udp := udt; s_trace := s_trace s ++ [r] |}
  end.

Lemma built_core (tcp : bool) off s i v6 bz r b t :
  keys_ok (s_tcp s) -> keys_ok (s_udp s) ->
  step_out tcp (b_pkt (get_buf bz i)) i off v6 bz (sel tcp s) (r, b, t) ->
  step_spec_core off (with_bufs s bz) i (if tcp then built s i r b t (s_udp s) else built s i r b (s_tcp s) t).
Proof.
  intros Hkt Hku [Hk' [pre [L [suf [L' [E [Hsub [_ Hm]]]]]]]].
  exists r, b, tcp, v6. unfold sel in *. destruct tcp; cbn [negb];
    (destruct r as [| |j p]; cbn [built with_bufs s_tcp s_udp s_err s_trace s_tw s_bufs is_coal]; rewrite ?app_nil_r;
     (repeat split; auto); exists pre, L, suf, L'; auto).
Qed.

Lemma gro_step_spec udp off s i :
  keys_ok (s_tcp s) -> keys_ok (s_udp s) -> s_err s = false ->
  (forall it, In it (total s) -> (N.to_nat (it_idx it) < length (s_bufs s))%nat) ->
  s_err (gro_step udp off s i) = false -> step_spec off s i (gro_step udp off s i).
Proof.
  intros Hkt Hku He Hrange. unfold gro_step. rewrite He.
  set (pkt := b_pkt (get_buf (s_bufs s) i)).
  destruct ((off <? VH) || (len pkt =? 0)); [cbn; discriminate|]. intros _.
  assert (Hsame : forall s', step_spec_core off (with_bufs s (s_bufs s)) i s' ->
            (forall x, In x (total s) -> exists y, In y (total s') /\ it_idx y = it_idx x) -> step_spec off s i s').
  { intros s' Hc Hsv. exists (s_bufs s). split; [apply hz_refl|]. split; [intros x Hx; left; apply Hsv; exact Hx|exact Hc]. }
  assert (Htcp : forall v6, cls_ok true v6 pkt -> step_spec off s i
            (let '(r, bufs, tct, udt) := (let '(r, b, t) := tcp_gro (s_bufs s) off i (s_tcp s) v6 in (r, b, t, s_udp s)) in built s i r bufs tct udt)).
  { intros v6 H45.
    destruct (tcp_gro_spec (s_bufs s) off i (s_tcp s) v6 H45 Hkt (fun x Hx => Hrange x (in_or_app _ _ _ (or_introl Hx)))) as [bz [Hz [Hd Hs]]].
    destruct (tcp_gro (s_bufs s) off i (s_tcp s) v6) as [[r b] t]. cbn [snd] in Hd.
    exists bz. split; [eapply hz_mono; [|exact Hz]; intros x Hx; apply in_or_app; auto|].
    split.
    - intros x Hx. unfold total in *. apply in_app_or in Hx as [Hx|Hx].
      + destruct (Hd x Hx) as [[y [Hy Ey]]|Hzr]; [left; exists y; split; [|exact Ey]|auto].
        destruct r; cbn [built s_tcp s_udp]; apply in_or_app; auto.
      + left. exists x. split; [|reflexivity]. destruct r; cbn [built s_tcp s_udp]; apply in_or_app; auto.
    - pose proof (proj1 (hz_pkt _ _ _ i Hz)) as Ez. fold pkt in Ez. fold pkt in Hs. rewrite <- Ez in Hs.
      apply (built_core true off s i v6 bz r b t Hkt Hku Hs). }
  assert (Hudp : forall v6, cls_ok false v6 pkt -> step_spec off s i
            (let '(r, bufs, tct, udt) := (let '(r, b, t) := udp_gro (s_bufs s) off i (s_udp s) v6 in (r, b, s_tcp s, t)) in built s i r bufs tct udt)).
  { intros v6 H45. pose proof (udp_gro_spec (s_bufs s) off i (s_udp s) v6 H45 Hku) as Hs.
    destruct (udp_gro (s_bufs s) off i (s_udp s) v6) as [[r b] t]. fold pkt in Hs.
    apply Hsame; [apply (built_core false off s i v6 (s_bufs s) r b t Hkt Hku Hs)|].
    (* the UDP step deletes nothing: L' = L there *)
    destruct Hs as [_ [pre [L [suf [L' [E [Hsub [Heq Hm]]]]]]]]. specialize (Heq eq_refl). subst L'.
    intros x Hx. unfold total in *. apply in_app_or in Hx as [Hx|Hx].
    + exists x. split; [|reflexivity]. destruct r; cbn [built s_tcp s_udp]; apply in_or_app; auto.
    + rewrite E in Hx.
      assert (Hgoal : forall X, all_items t = pre ++ X ++ suf -> (forall z, In z L -> exists y, In y X /\ it_idx y = it_idx z) ->
                exists y, In y (all_items (s_tcp s) ++ all_items t) /\ it_idx y = it_idx x).
      { intros X EX HX. apply in_app_or in Hx as [Hx|Hx]; [exists x; split; [apply in_or_app; right; rewrite EX; apply in_or_app; auto|auto]|].
        apply in_app_or in Hx as [Hx|Hx]; [|exists x; split; [apply in_or_app; right; rewrite EX; apply in_or_app; right; apply in_or_app; auto|auto]].
        destruct (HX x Hx) as [y [Hy Ey]]. exists y. split; [apply in_or_app; right; rewrite EX; apply in_or_app; right; apply in_or_app; auto|exact Ey]. }
      destruct r as [| |j p]; cbn [built s_tcp s_udp].
      * destruct Hm as [_ Em]. apply (Hgoal L Em). intros z Hz. exists z. auto.
      * destruct Hm as [_ [new [_ Em]]]. apply (Hgoal _ Em). intros z Hz. exists z. split; [apply in_or_app; auto|auto].
      * destruct Hm as [n [it [it' [Hn [Hj [Em Hmo]]]]]]. apply (Hgoal _ Em). intros z Hz.
        destruct (in_set_nth_keep L n it' z Hz) as [Hz'|Hz']; [exists z; auto|].
        exists it'. split; [eapply in_set_nth_new; eauto|]. rewrite Hn in Hz'. inversion Hz'; subst.
        destruct Hmo as [new [_ [_ [_ [_ Hco]]]]]. apply (coalesce_udp_success _ _ _ _ _ _ _ Hco). }
  destruct (classify pkt udp) eqn:Hcl.
  - (* not a candidate *)
    apply Hsame; [|intros x Hx; exists x; auto].
    exists Noop, (s_bufs s), true, false. unfold sel. cbn [negb with_bufs s_tcp s_udp s_err s_trace s_tw s_bufs is_coal].
    repeat split; auto. exists (all_items (s_tcp s)), [], [], []. rewrite !app_nil_r. repeat split; auto. constructor.
  - apply Htcp. pose proof (classify_facts pkt udp) as Hc. rewrite Hcl in Hc. exact Hc.
  - apply Htcp. pose proof (classify_facts pkt udp) as Hc. rewrite Hcl in Hc. exact Hc.
  - apply Hudp. pose proof (classify_facts pkt udp) as Hc. rewrite Hcl in Hc. exact Hc.
  - apply Hudp. pose proof (classify_facts pkt udp) as Hc. rewrite Hcl in Hc. exact Hc.
Qed.

(* the same step seen on the items of both tables together *)
Lemma step_spec_total (s s' : state) tcp PRE L SUF :
  sel (negb tcp) s' = sel (negb tcp) s ->
  all_items (sel tcp s) = PRE ++ L ++ SUF ->
  forall X, all_items (sel tcp s') = PRE ++ X ++ SUF ->
  exists P S, total s = P ++ L ++ S /\ total s' = P ++ X ++ S.
Proof.
  intros Hother E X E'. unfold total. destruct tcp; unfold sel in *; cbn [negb] in *.
  - exists PRE, (SUF ++ all_items (s_udp s)). rewrite Hother, E, E', <- !app_assoc. auto.
  - exists (all_items (s_tcp s) ++ PRE), SUF. rewrite Hother, E, E', <- !app_assoc. auto.
Qed.

Lemma merged_ok_length tcp pkt pktI off v6 p it it' bufs bufs' :
  merged_ok tcp pkt pktI off v6 p it it' bufs bufs' -> length bufs' = length bufs.
Proof.
  intros [new [_ [_ H]]]. destruct tcp.
  - destruct H as [mode [_ [_ [_ H]]]]. destruct (coalesce_tcp_success _ _ _ _ _ _ _ _ _ _ _ _ H) as [_ [-> _]].
    unfold tcp_merge_bufs. destruct (is_prepend mode); rewrite ?set_buf_length; reflexivity.
  - destruct H as [_ [_ H]]. destruct (coalesce_udp_success _ _ _ _ _ _ _ H) as [_ [_ [-> _]]]. apply set_buf_length.
Qed.
Lemma merged_ok_shape tcp pkt pktI off v6 p it it' bufs bufs' :
  merged_ok tcp pkt pktI off v6 p it it' bufs bufs' -> same_shape it it'.
Proof.
  intros [new [_ [_ H]]]. destruct tcp.
  - destruct H as [mode [_ [_ [_ H]]]]. apply (coalesce_tcp_success _ _ _ _ _ _ _ _ _ _ _ _ H).
  - destruct H as [_ [_ H]]. apply (coalesce_udp_success _ _ _ _ _ _ _ H).
Qed.
(* a merge touches only the item's buffer and the buffer of the packet itself *)
Lemma merged_ok_frame tcp pkt pktI off v6 p it it' bufs bufs' j :
  merged_ok tcp pkt pktI off v6 p it it' bufs bufs' -> j <> it_idx it -> j <> pktI -> get_buf bufs' j = get_buf bufs j.
Proof.
  intros [new [_ [_ H]]] H1 H2. destruct tcp.
  - destruct H as [mode [_ [_ [_ H]]]]. destruct (coalesce_tcp_success _ _ _ _ _ _ _ _ _ _ _ _ H) as [_ [-> _]].
    unfold tcp_merge_bufs. destruct (is_prepend mode); rewrite ?get_set_buf_other; auto.
  - destruct H as [_ [_ H]]. destruct (coalesce_udp_success _ _ _ _ _ _ _ H) as [_ [_ [-> _]]]. rewrite get_set_buf_other; auto.
Qed.

(* ------------------------------------------------------ toWrite, trace *)
Fixpoint tw_of (tr : list gres) (i0 : N) : list N :=
  match tr with
  | [] => []
  | r :: rest => (if is_coal r then [] else [i0]) ++ tw_of rest (i0 + 1)
  end.
Lemma tw_of_app tr r i0 : tw_of (tr ++ [r]) i0 = tw_of tr i0 ++ (if is_coal r then [] else [i0 + N.of_nat (length tr)]).
Proof.
  revert i0; induction tr as [|x tr IH]; intros i0; cbn [app tw_of length].
  - rewrite N.add_0_r, app_nil_r. reflexivity.
  - rewrite IH, <- app_assoc. replace (i0 + 1 + N.of_nat (length tr)) with (i0 + N.of_nat (S (length tr))) by lia. reflexivity.
Qed.
Lemma tw_of_bound tr : forall i0 j, In j (tw_of tr i0) -> i0 <= j < i0 + N.of_nat (length tr).
Proof.
  induction tr as [|x tr IH]; intros i0 j H; cbn [tw_of length] in *; [destruct H|].
  apply in_app_or in H as [H|H].
  - destruct (is_coal x); [destruct H|]. destruct H as [<-|[]]. lia.
  - apply IH in H. lia.
Qed.
Lemma tw_of_nodup tr : forall i0, NoDup (tw_of tr i0).
Proof.
  induction tr as [|x tr IH]; intros i0; cbn [tw_of]; [constructor|].
  destruct (is_coal x); cbn [app]; [apply IH|]. constructor; [|apply IH].
  intros H. apply tw_of_bound in H. lia.
Qed.
Lemma tw_of_nth tr : forall i0 i r, nth_error tr i = Some r -> is_coal r = false -> In (i0 + N.of_nat i) (tw_of tr i0).
Proof.
  induction tr as [|x tr IH]; intros i0 [|i] r H Hc; cbn [nth_error tw_of] in *; try discriminate.
  - inversion H; subst. rewrite Hc. left. lia.
  - apply in_or_app. right. replace (i0 + N.of_nat (S i)) with (i0 + 1 + N.of_nat i) by lia. eapply IH; eauto.
Qed.
Lemma tw_of_not_coal tr : forall i0 i r, nth_error tr i = Some r -> is_coal r = true -> ~ In (i0 + N.of_nat i) (tw_of tr i0).
Proof.
  induction tr as [|x tr IH]; intros i0 [|i] r H Hc Hin; cbn [nth_error tw_of] in *; try discriminate.
  - inversion H; subst. rewrite Hc in Hin. cbn [app] in Hin. apply tw_of_bound in Hin. lia.
  - apply in_app_or in Hin as [Hin|Hin].
    + destruct (is_coal x); [destruct Hin|]. destruct Hin as [E|[]]. lia.
    + replace (i0 + N.of_nat (S i)) with (i0 + 1 + N.of_nat i) in Hin by lia. eapply IH; eauto.
Qed.

Definition merged_into (tr : list gres) (j : N) : Prop := exists p, In (Coalesced j p) tr.

(* ------------------------------------------------------- loop invariant *)
Record Inv (inp : list buf) (k : nat) (s : state) : Prop := {
  i_len : length (s_bufs s) = length inp;
  i_tr : length (s_trace s) = k;
  i_tw : s_tw s = tw_of (s_trace s) 0;
  i_rest : forall i, N.of_nat k <= i -> get_buf (s_bufs s) i = get_buf inp i;
  i_kt : keys_ok (s_tcp s);
  i_ku : keys_ok (s_udp s);
  i_items : forall it, In it (total s) ->
              In (it_idx it) (s_tw s) /\ (0 < it_merged it -> merged_into (s_trace s) (it_idx it));
  i_pass : forall j, In j (s_tw s) -> ~ merged_into (s_trace s) j ->
              b_pkt (get_buf (s_bufs s) j) = b_pkt (get_buf inp j) /\ b_cap (get_buf (s_bufs s) j) = b_cap (get_buf inp j) /\
              (b_hdr (get_buf (s_bufs s) j) = b_hdr (get_buf inp j) \/ b_hdr (get_buf (s_bufs s) j) = zero_vhdr);
  i_coal : forall i j p, nth_error (s_trace s) i = Some (Coalesced j p) -> In j (s_tw s) /\ j < N.of_nat i
}.

Lemma inv_init inp : Inv inp 0 (init inp).
Proof.
  constructor; cbn; auto; try (unfold keys_ok; cbn; intros; contradiction).
  intros [|i] j p H; discriminate.
Qed.

Lemma merged_into_app tr r j : merged_into tr j -> merged_into (tr ++ [r]) j.
Proof. intros [p H]. exists p. apply in_or_app. auto. Qed.

Lemma inv_step inp off k s s' :
  (k < length inp)%nat -> Inv inp k s -> step_spec_core off s (N.of_nat k) s' -> Inv inp (S k) s'.
Proof.
  intros Hk I [r [bufs' [tcp [v6 [Hkt [Hku [He [Htr [Htw [Hb [Hoth [PRE0 [L [SUF0 [L' [Esel [Hsubz Hm0]]]]]]]]]]]]]]]]].
  pose proof (subz_sub _ _ Hsubz) as Hsub.
  (* restate on the items of both tables *)
  assert (Hm : exists PRE SUF, total s = PRE ++ L ++ SUF /\
      match r with
      | Noop => bufs' = s_bufs s /\ total s' = PRE ++ L' ++ SUF
      | Inserted => bufs' = s_bufs s /\ exists new, fresh_item tcp (b_pkt (get_buf (s_bufs s) (N.of_nat k))) (N.of_nat k) v6 new /\ total s' = PRE ++ (L' ++ [new]) ++ SUF
      | Coalesced j p => exists n it it', nth_error L' n = Some it /\ it_idx it = j /\
                           total s' = PRE ++ set_nth L' n it' ++ SUF /\ merged_ok tcp (b_pkt (get_buf (s_bufs s) (N.of_nat k))) (N.of_nat k) off v6 p it it' (s_bufs s) bufs'
      end).
  { destruct r as [| |j p].
    - destruct Hm0 as [Hb0 E']. destruct (step_spec_total s s' tcp _ _ _ Hoth Esel _ E') as [P [S [E1 E2]]].
      exists P, S. auto.
    - destruct Hm0 as [Hb0 [new [Hf E']]]. destruct (step_spec_total s s' tcp _ _ _ Hoth Esel _ E') as [P [S [E1 E2]]].
      exists P, S. split; [exact E1|]. split; [exact Hb0|]. exists new. auto.
    - destruct Hm0 as [n [it [it' [H1 [H2 [E' H4]]]]]]. destruct (step_spec_total s s' tcp _ _ _ Hoth Esel _ E') as [P [S [E1 E2]]].
      exists P, S. split; [exact E1|]. exists n, it, it'. auto. }
  destruct Hm as [PRE [SUF [Etot Hm]]]. clear Hm0.
  assert (Hidx : forall it, In it (total s) -> it_idx it < N.of_nat k).
  { intros it Hi. destruct (i_items _ _ _ I it Hi) as [Hin _]. rewrite (i_tw _ _ _ I) in Hin.
    apply tw_of_bound in Hin. rewrite (i_tr _ _ _ I) in Hin. lia. }
  assert (HL' : forall x, In x L' -> In x (total s)).
  { intros x Hx. rewrite Etot. apply in_or_app. right. apply in_or_app. left. eapply sub_in; eauto. }
  assert (Hold : forall x, In x (PRE ++ L' ++ SUF) -> In x (total s)).
  { intros x Hx. rewrite Etot. apply in_app_or in Hx as [Hx|Hx]; [apply in_or_app; auto|].
    apply in_app_or in Hx as [Hx|Hx]; apply in_or_app; right; apply in_or_app; [left; eapply sub_in; eauto|auto]. }
  assert (Htw' : forall j, In j (s_tw s) -> In j (s_tw s')) by (intros j Hj; rewrite Htw; apply in_or_app; auto).
  assert (Hlen' : length bufs' = length inp).
  { rewrite <- (i_len _ _ _ I). destruct r as [| |j p].
    - destruct Hm as [-> _]. reflexivity.
    - destruct Hm as [-> _]. reflexivity.
    - destruct Hm as [n [it [it' [_ [_ [_ Hm]]]]]]. eapply merged_ok_length; eauto. }
  constructor.
  - rewrite Hb. destruct r; rewrite ?set_buf_length; exact Hlen'.
  - rewrite Htr, app_length, (i_tr _ _ _ I). cbn. lia.
  - rewrite Htr, tw_of_app, Htw, (i_tw _ _ _ I), (i_tr _ _ _ I), N.add_0_l. reflexivity.
  - intros i Hi. rewrite Hb. destruct r as [| |j p].
    + destruct Hm as [-> _]. rewrite get_set_buf_other by lia. apply (i_rest _ _ _ I). lia.
    + destruct Hm as [-> _]. apply (i_rest _ _ _ I). lia.
    + destruct Hm as [n [it [it' [Hn [Hj [_ Hm]]]]]].
      assert (it_idx it < N.of_nat k) by (apply Hidx, HL'; eapply nth_error_In; eauto).
      rewrite (merged_ok_frame _ _ _ _ _ _ _ _ _ _ i Hm) by lia. apply (i_rest _ _ _ I). lia.
  - exact Hkt.
  - exact Hku.
  - intros x Hx. destruct r as [| |j p].
    + destruct Hm as [_ Em]. rewrite Em in Hx. apply Hold in Hx. destruct (i_items _ _ _ I x Hx) as [H1 H2].
      split; [auto|]. intros H. rewrite Htr. apply merged_into_app; auto.
    + destruct Hm as [_ [new [Hf Em]]]. rewrite Em in Hx.
      assert (Hx' : x = new \/ In x (total s)).
      { apply in_app_or in Hx as [Hx|Hx]; [right; apply Hold; apply in_or_app; auto|].
        apply in_app_or in Hx as [Hx|Hx]; [|right; apply Hold; apply in_or_app; right; apply in_or_app; auto].
        apply in_app_or in Hx as [Hx|[Hx|[]]]; [right; apply Hold; apply in_or_app; right; apply in_or_app; auto|auto]. }
      destruct Hx' as [->|Hx'].
      * destruct Hf as [Hi [Hm0 _]]. split; [rewrite Htw, Hi; apply in_or_app; right; left; reflexivity|]. rewrite Hm0. lia.
      * destruct (i_items _ _ _ I x Hx') as [H1 H2]. split; [auto|]. intros H. rewrite Htr. apply merged_into_app; auto.
    + destruct Hm as [n [it [it' [Hn [Hj [Em Hm]]]]]]. rewrite Em in Hx.
      pose proof (merged_ok_shape _ _ _ _ _ _ _ _ _ _ Hm) as [_ [_ [Hsi _]]].
      assert (Hit : In it (total s)) by (apply HL'; eapply nth_error_In; eauto).
      assert (Hx' : x = it' \/ In x (total s)).
      { apply in_app_or in Hx as [Hx|Hx]; [right; apply Hold; apply in_or_app; auto|].
        apply in_app_or in Hx as [Hx|Hx]; [|right; apply Hold; apply in_or_app; right; apply in_or_app; auto].
        apply in_set_nth in Hx as [Hx|Hx]; [auto|right; apply HL'; auto]. }
      destruct Hx' as [->|Hx'].
      * split; [rewrite Hsi; apply Htw'; apply (i_items _ _ _ I it Hit)|].
        intros _. rewrite Htr, Hsi, Hj. exists p. apply in_or_app. right. left. reflexivity.
      * destruct (i_items _ _ _ I x Hx') as [H1 H2]. split; [auto|]. intros H. rewrite Htr. apply merged_into_app; auto.
  - intros j Hj Hnm.
    assert (Hnm0 : ~ merged_into (s_trace s) j) by (intros H; apply Hnm; rewrite Htr; apply merged_into_app; exact H).
    rewrite Htw in Hj. apply in_app_or in Hj. rewrite Hb. destruct r as [| |j0 p]; cbn [is_coal] in Hj.
    + destruct Hm as [-> _]. destruct Hj as [Hj|[<-|[]]].
      * assert (j <> N.of_nat k).
        { rewrite (i_tw _ _ _ I) in Hj. apply tw_of_bound in Hj. rewrite (i_tr _ _ _ I) in Hj. lia. }
        rewrite get_set_buf_other by auto. apply (i_pass _ _ _ I); auto.
      * rewrite get_set_buf_same by (rewrite (i_len _ _ _ I); lia). cbn [with_hdr b_pkt b_hdr b_cap].
        rewrite (i_rest _ _ _ I) by lia. auto.
    + destruct Hm as [-> _]. destruct Hj as [Hj|[<-|[]]].
      * apply (i_pass _ _ _ I); auto.
      * rewrite (i_rest _ _ _ I) by lia. auto.
    + destruct Hj as [Hj|[]]. destruct Hm as [n [it [it' [Hn [Hj0 [_ Hm]]]]]].
      assert (j <> N.of_nat k).
      { rewrite (i_tw _ _ _ I) in Hj. apply tw_of_bound in Hj. rewrite (i_tr _ _ _ I) in Hj. lia. }
      assert (j <> it_idx it).
      { intros ->. apply Hnm. rewrite Htr, Hj0. exists p. apply in_or_app. right. left. reflexivity. }
      rewrite (merged_ok_frame _ _ _ _ _ _ _ _ _ _ j Hm) by auto. apply (i_pass _ _ _ I); auto.
  - intros i j p Hn. rewrite Htr in Hn.
    destruct (Nat.lt_ge_cases i (length (s_trace s))) as [Hlt|Hge].
    + rewrite nth_error_app1 in Hn by exact Hlt. destruct (i_coal _ _ _ I i j p Hn). auto.
    + rewrite nth_error_app2 in Hn by exact Hge. destruct (i - length (s_trace s))%nat as [|d] eqn:Ed; cbn in Hn; [|destruct d; discriminate].
      inversion Hn; subst r. destruct Hm as [n [it [it' [Hn' [Hj0 _]]]]].
      assert (Hit : In it (total s)) by (apply HL'; eapply nth_error_In; eauto).
      split; [apply Htw'; rewrite <- Hj0; apply (i_items _ _ _ I it Hit)|].
      rewrite <- Hj0. pose proof (Hidx it Hit). rewrite (i_tr _ _ _ I) in *. lia.
Qed.

(* zeroing headers of item buffers keeps the invariant *)
Lemma inv_range inp k s : (k <= length inp)%nat -> Inv inp k s -> forall it, In it (total s) -> (N.to_nat (it_idx it) < length (s_bufs s))%nat.
Proof.
  intros Hk I it Hi. destruct (i_items _ _ _ I it Hi) as [Hin _]. rewrite (i_tw _ _ _ I) in Hin.
  apply tw_of_bound in Hin. rewrite (i_tr _ _ _ I) in Hin. rewrite (i_len _ _ _ I). lia.
Qed.
Lemma inv_zero inp k s bz : Inv inp k s -> hz (total s) (s_bufs s) bz -> Inv inp k (with_bufs s bz).
Proof.
  intros I [Hl Hz]. constructor; cbn [with_bufs s_bufs s_trace s_tw s_tcp s_udp].
  - rewrite Hl. apply (i_len _ _ _ I).
  - apply (i_tr _ _ _ I).
  - apply (i_tw _ _ _ I).
  - intros i Hi. destruct (Hz i) as [E|[[x [Hx Ex]] _]]; [rewrite E; apply (i_rest _ _ _ I); exact Hi|].
    exfalso. destruct (i_items _ _ _ I x Hx) as [Hin _]. rewrite (i_tw _ _ _ I) in Hin.
    apply tw_of_bound in Hin. rewrite (i_tr _ _ _ I) in Hin. lia.
  - apply (i_kt _ _ _ I).
  - apply (i_ku _ _ _ I).
  - apply (i_items _ _ _ I).
  - intros j Hj Hm. destruct (i_pass _ _ _ I j Hj Hm) as [P1 [P2 P3]].
    destruct (Hz j) as [E|[_ E]]; rewrite E; [auto|]. cbn [with_hdr b_pkt b_cap b_hdr]. auto.
  - apply (i_coal _ _ _ I).
Qed.

(* ------------------------------------------------------------ the loop *)
Lemma indices_S k : forall from, indices (S k) from = indices k from ++ [from + N.of_nat k].
Proof.
  induction k as [|k IH]; intros from.
  - cbn. rewrite N.add_0_r. reflexivity.
  - change (indices (S (S k)) from) with (from :: indices (S k) (from + 1)). rewrite IH.
    cbn [indices app]. replace (from + 1 + N.of_nat k) with (from + N.of_nat (S k)) by lia. reflexivity.
Qed.

Lemma err_sticky udp off s i : s_err (gro_step udp off s i) = false -> s_err s = false.
Proof. unfold gro_step. destruct (s_err s) eqn:E; [rewrite E; discriminate|reflexivity]. Qed.

Definition loop_k (udp : bool) (off : N) (inp : list buf) (k : nat) : state :=
  fold_left (gro_step udp off) (indices k 0) (init inp).

Lemma loop_inv udp off inp k : (k <= length inp)%nat -> s_err (loop_k udp off inp k) = false -> Inv inp k (loop_k udp off inp k).
Proof.
  induction k as [|k IH]; intros Hk He.
  - apply inv_init.
  - unfold loop_k in *. rewrite indices_S, fold_left_app in *. cbn [fold_left] in *. rewrite N.add_0_l in *.
    pose proof (err_sticky _ _ _ _ He) as He0. specialize (IH ltac:(lia) He0).
    destruct (gro_step_spec udp off _ (N.of_nat k) (i_kt _ _ _ IH) (i_ku _ _ _ IH) He0 (inv_range inp k _ (Nat.lt_le_incl _ _ Hk) IH) He) as [bz [Hz [_ Hs]]].
    eapply inv_step; [lia|apply inv_zero; [exact IH|exact Hz]|exact Hs].
Qed.

Lemma gro_loop_is udp off inp : gro_loop udp off inp = loop_k udp off inp (length inp).
Proof. reflexivity. Qed.

(* --------------------------------------------------------- accounting *)
Lemma fold_left_flat_map {A B C} (f : A -> C -> A) (g : B -> list C) (l : list B) (a : A) :
  fold_left (fun acc x => fold_left f (g x) acc) l a = fold_left f (flat_map g l) a.
Proof. revert a; induction l as [|x l IH]; intros a; cbn [fold_left flat_map]; [reflexivity|]. rewrite fold_left_app. apply IH. Qed.

Lemma account_flat tcp bufs t : account tcp bufs t = fold_left (account_item tcp) (all_items t) bufs.
Proof. unfold account, all_items. apply fold_left_flat_map. Qed.

Lemma account_item_length tcp bufs it : length (account_item tcp bufs it) = length bufs.
Proof. unfold account_item. destruct (0 <? it_merged it); apply set_buf_length. Qed.

Lemma account_item_other tcp bufs it j : j <> it_idx it -> get_buf (account_item tcp bufs it) j = get_buf bufs j.
Proof. intros H. unfold account_item. destruct (0 <? it_merged it); apply get_set_buf_other; exact H. Qed.

(* untouched or zeroed: what the accounting does to a buffer nothing was merged into *)
Definition pass_rel (b0 b : buf) : Prop :=
  b_pkt b = b_pkt b0 /\ b_cap b = b_cap b0 /\ (b_hdr b = b_hdr b0 \/ b_hdr b = zero_vhdr).
Lemma pass_rel_refl b : pass_rel b b.
Proof. repeat split; auto. Qed.
Lemma pass_rel_trans a b c : pass_rel a b -> pass_rel b c -> pass_rel a c.
Proof. intros [H1 [H2 H3]] [H4 [H5 H6]]. repeat split; try congruence. destruct H6 as [H6|H6]; [rewrite H6; exact H3|auto]. Qed.

Lemma account_items_pass tcp items : forall bufs j,
  (forall it, In it items -> it_idx it = j -> it_merged it = 0) ->
  pass_rel (get_buf bufs j) (get_buf (fold_left (account_item tcp) items bufs) j).
Proof.
  induction items as [|it items IH]; intros bufs j H; cbn [fold_left]; [apply pass_rel_refl|].
  eapply pass_rel_trans; [|apply IH; intros x Hx; apply H; right; exact Hx].
  destruct (N.eq_dec j (it_idx it)) as [E|E].
  - unfold account_item. rewrite (H it (or_introl eq_refl) (eq_sym E)). cbn [N.ltb N.compare].
    rewrite get_set_buf. subst j. rewrite Nat.eqb_refl.
    destruct (N.to_nat (it_idx it) <? length bufs)%nat; [|apply pass_rel_refl].
    repeat split; auto.
  - rewrite account_item_other by exact E. apply pass_rel_refl.
Qed.

(* ------------------------------------------------- theorems: bookkeeping *)
Theorem gro_bookkeeping : forall (canUDP : bool) (offset : N) (bufs : list buf),
  let s := handle_gro canUDP offset bufs in
  s_err s = false ->
  length (s_trace s) = length bufs /\
  NoDup (s_tw s) /\
  (forall j, In j (s_tw s) -> j < len (map b_cap bufs)) /\
  (forall i r, nth_error (s_trace s) i = Some r ->
     match r with
     | Coalesced j _ => ~ In (N.of_nat i) (s_tw s) /\ In j (s_tw s) /\ j < N.of_nat i
     | _ => In (N.of_nat i) (s_tw s)
     end).
Proof.
  intros udp off inp s He. subst s. unfold handle_gro in *. rewrite gro_loop_is in *.
  set (s0 := loop_k udp off inp (length inp)) in *.
  assert (He0 : s_err s0 = false) by (destruct (s_err s0) eqn:E; [cbn iota in He; congruence|reflexivity]).
  rewrite He0 in *. cbn [s_trace s_tw].
  pose proof (loop_inv udp off inp (length inp) (le_n _) He0) as I. fold s0 in I.
  rewrite (i_tw _ _ _ I).
  refine (conj (i_tr _ _ _ I) (conj (tw_of_nodup _ _) (conj _ _))).
  - intros j Hj. apply tw_of_bound in Hj. rewrite (i_tr _ _ _ I) in Hj. unfold len. rewrite map_length. lia.
  - intros i r Hn. destruct r as [| |j p].
    + apply (tw_of_nth _ 0 i _ Hn eq_refl).
    + apply (tw_of_nth _ 0 i _ Hn eq_refl).
    + split; [apply (tw_of_not_coal _ 0 i _ Hn eq_refl)|]. rewrite <- (i_tw _ _ _ I). apply (i_coal _ _ _ I i j p Hn).
Qed.

(* ------------------------------------------------ theorems: passthrough *)
(* A written buffer into which nothing was merged leaves with its packet bytes
   unchanged; the 10 bytes in front are all-zero, or -- only for a TCP item
   deleted from the table after an invalid checksum -- what they were. *)
Theorem gro_passthrough_partial : forall (canUDP : bool) (offset : N) (bufs : list buf) (j : N),
  let s := handle_gro canUDP offset bufs in
  s_err s = false -> In j (s_tw s) -> ~ merged_into (s_trace s) j ->
  b_pkt (get_buf (s_bufs s) j) = b_pkt (get_buf bufs j) /\
  (b_hdr (get_buf (s_bufs s) j) = zero_vhdr \/ b_hdr (get_buf (s_bufs s) j) = b_hdr (get_buf bufs j)).
Proof.
  intros udp off inp j s He. subst s. unfold handle_gro in *. rewrite gro_loop_is in *.
  set (s0 := loop_k udp off inp (length inp)) in *.
  assert (He0 : s_err s0 = false) by (destruct (s_err s0) eqn:E; [cbn iota in He; congruence|reflexivity]).
  rewrite He0 in *. cbn [s_trace s_tw s_bufs]. intros Hj Hnm.
  pose proof (loop_inv udp off inp (length inp) (le_n _) He0) as I. fold s0 in I.
  destruct (i_pass _ _ _ I j Hj Hnm) as [P1 [P2 P3]].
  assert (Hz : forall it, In it (total s0) -> it_idx it = j -> it_merged it = 0).
  { intros it Hi E. destruct (i_items _ _ _ I it Hi) as [_ H]. destruct (N.eq_dec (it_merged it) 0) as [|Hne]; [assumption|].
    exfalso. apply Hnm. rewrite <- E. apply H. lia. }
  rewrite !account_flat.
  pose proof (account_items_pass true (all_items (s_tcp s0)) (s_bufs s0) j
                (fun it Hi => Hz it (in_or_app _ _ _ (or_introl Hi)))) as R1.
  pose proof (account_items_pass false (all_items (s_udp s0)) (fold_left (account_item true) (all_items (s_tcp s0)) (s_bufs s0)) j
                (fun it Hi => Hz it (in_or_app _ _ _ (or_intror Hi)))) as R2.
  destruct (pass_rel_trans _ _ _ R1 R2) as [Q1 [Q2 Q3]].
  split; [congruence|]. destruct Q3 as [Q3|Q3]; [|auto]. rewrite Q3. destruct P3; auto.
Qed.


(* ------------------------------------------------------------- chunks *)
Lemma len_app a b : len (a ++ b) = len a + len b.
Proof. unfold len. rewrite app_length. lia. Qed.
Lemma len_nil_iff l : len l = 0 <-> l = [].
Proof. unfold len. destruct l; cbn; split; intros; try reflexivity; try discriminate; lia. Qed.
Lemma take_app_exact p l n : len p = n -> take n (p ++ l) = p.
Proof. unfold take, len. intros <-. rewrite Nat2N.id, firstn_app, Nat.sub_diag, firstn_all. cbn. apply app_nil_r. Qed.
Lemma drop_app_exact p l n : len p = n -> drop n (p ++ l) = l.
Proof. unfold drop, len. intros <-. rewrite Nat2N.id, skipn_app, Nat.sub_diag, skipn_all. reflexivity. Qed.
Lemma take_all l n : len l <= n -> take n l = l.
Proof. unfold take, len. intros H. apply firstn_all2. lia. Qed.
Lemma drop_all l n : len l <= n -> drop n l = [].
Proof. unfold drop, len. intros H. apply skipn_all2. lia. Qed.
Lemma take_drop n l : take n l ++ drop n l = l.
Proof. apply firstn_skipn. Qed.
Lemma len_take n l : n <= len l -> len (take n l) = n.
Proof. unfold take, len. intros H. rewrite firstn_length. lia. Qed.
Lemma len_drop n l : len (drop n l) = len l - n.
Proof. unfold drop, len. rewrite skipn_length. lia. Qed.
Lemma drop_app_le n a b : n <= len a -> drop n (a ++ b) = drop n a ++ b.
Proof.
  unfold drop, len. intros H. rewrite skipn_app. replace (N.to_nat n - length a)%nat with 0%nat by lia. reflexivity.
Qed.
Lemma take_app_le n a b : n <= len a -> take n (a ++ b) = take n a.
Proof.
  unfold take, len. intros H. rewrite firstn_app. replace (N.to_nat n - length a)%nat with 0%nat by lia. cbn. apply app_nil_r.
Qed.

Lemma chunks_fuel_ge n : 1 <= n -> forall fuel l, (length l <= fuel)%nat -> chunks_fuel fuel n l = chunks_fuel (length l) n l.
Proof.
  intros Hn. induction fuel as [|f IH]; intros l Hl.
  - destruct l; [reflexivity|cbn in Hl; lia].
  - destruct l as [|x l']; [reflexivity|]. cbn [length chunks_fuel].
    f_equal. assert (Hd : (length (drop n (x :: l')) <= length l')%nat).
    { unfold drop. rewrite skipn_length. cbn [length]. lia. }
    rewrite (IH (drop n (x :: l'))) by (cbn [length] in Hl; lia).
    clear IH. revert Hd. generalize (drop n (x :: l')) as d. generalize (length l') as m.
    induction m as [|m IHm]; intros d Hd.
    + destruct d; [reflexivity|cbn in Hd; lia].
    + destruct d as [|y d']; [reflexivity|]. cbn [length chunks_fuel]. f_equal.
      assert (Hd2 : (length (drop n (y :: d')) <= length d')%nat).
      { unfold drop. rewrite skipn_length. cbn [length]. lia. }
      cbn [length] in Hd. rewrite <- (IHm (drop n (y :: d'))) by lia.
      clear IHm. revert Hd2. generalize (drop n (y :: d')) as e. generalize (length d') as q.
      intros q e He. symmetry.
      (* both sides have enough fuel *)
      assert (G : forall f1 f2 (z : list N), (length z <= f1)%nat -> (length z <= f2)%nat -> chunks_fuel f1 n z = chunks_fuel f2 n z).
      { induction f1 as [|f1 IHf]; intros f2 z H1 H2.
        - destruct z; [destruct f2; reflexivity|cbn in H1; lia].
        - destruct z as [|w z']; [destruct f2; reflexivity|]. destruct f2 as [|f2]; [cbn in H2; lia|].
          cbn [chunks_fuel]. f_equal. apply IHf; unfold drop; rewrite skipn_length; cbn [length] in *; lia. }
      apply G; lia.
Qed.

Lemma chunks_nil n : chunks n [] = [].
Proof. unfold chunks. destruct (n =? 0); reflexivity. Qed.

Lemma chunks_unfold n l : 1 <= n -> l <> [] -> chunks n l = take n l :: chunks n (drop n l).
Proof.
  intros Hn Hl. unfold chunks. destruct (N.eqb_spec n 0); [lia|].
  destruct l as [|x l']; [contradiction|]. cbn [length chunks_fuel]. f_equal.
  apply chunks_fuel_ge; [exact Hn|]. unfold drop. rewrite skipn_length. cbn [length]. lia.
Qed.

Lemma chunks_small n l : 1 <= n -> 0 < len l <= n -> chunks n l = [l].
Proof.
  intros Hn Hl. rewrite chunks_unfold; auto.
  - rewrite take_all, drop_all, chunks_nil by lia. reflexivity.
  - intros ->. cbn in Hl. lia.
Qed.

Lemma chunks_cons n p l : 1 <= n -> len p = n -> chunks n (p ++ l) = p :: chunks n l.
Proof.
  intros Hn Hp. rewrite chunks_unfold; auto.
  - rewrite take_app_exact, drop_app_exact by exact Hp. reflexivity.
  - intros E. apply (f_equal len) in E. rewrite len_app in E. cbn in E. lia.
Qed.

Lemma chunks_append n : 1 <= n -> forall a b, len a mod n = 0 -> 0 < len b <= n -> chunks n (a ++ b) = chunks n a ++ [b].
Proof.
  intros Hn a. remember (length a) as m eqn:Hm. revert a Hm.
  induction m as [m IH] using lt_wf_ind. intros a Hm b Ha Hb.
  destruct a as [|x a'] eqn:Ea.
  - cbn [app]. rewrite chunks_nil. apply chunks_small; auto.
  - rewrite <- Ea in *. assert (Hne : a <> []) by (rewrite Ea; discriminate).
    assert (Hla : n <= len a).
    { assert (0 < len a) by (rewrite Ea; unfold len; cbn [length]; lia).
      destruct (N.le_gt_cases n (len a)); [assumption|]. rewrite N.mod_small in Ha by assumption. lia. }
    rewrite (chunks_unfold n a) by auto.
    rewrite <- (take_drop n a) at 1. rewrite <- app_assoc.
    rewrite chunks_cons by (auto; apply len_take; exact Hla).
    cbn [app]. f_equal.
    apply (IH (length (drop n a))); auto.
    + unfold drop. rewrite skipn_length. subst m. unfold len in Hla. lia.
    + rewrite len_drop. clear - Ha Hla Hn. 
      assert (len a = n * (len a / n)) by (pose proof (N.div_mod (len a) n); lia).
      set (q := len a / n) in *. assert (1 <= q) by nia.
      replace (len a - n) with (n * (q - 1)) by nia. rewrite N.mul_comm. apply N.mod_mul. lia.
Qed.

Lemma concat_chunks n : 1 <= n -> forall l, concat (chunks n l) = l.
Proof.
  intros Hn l. remember (length l) as m eqn:Hm. revert l Hm.
  induction m as [m IH] using lt_wf_ind. intros l Hm.
  destruct l as [|x l'] eqn:El; [rewrite chunks_nil; reflexivity|]. rewrite <- El in *.
  rewrite chunks_unfold by (auto; rewrite El; discriminate). cbn [concat].
  rewrite (IH (length (drop n l))); [apply take_drop| |reflexivity].
  unfold drop. rewrite skipn_length. subst m. rewrite El. cbn [length]. lia.
Qed.

(* ------------------------------------------- members of a written buffer *)
Definition mem_step (j : N) (acc : list N) (ir : N * gres) : list N :=
  match snd ir with
  | Coalesced j' p => if j' =? j then (if p then fst ir :: acc else acc ++ [fst ir]) else acc
  | _ => acc
  end.
(* the input packets that make up written buffer j, in the order of their payloads *)
Definition members (tr : list gres) (j : N) : list N :=
  fold_left (mem_step j) (combine (indices (length tr) 0) tr) [j].

Lemma indices_length n : forall from, length (indices n from) = n.
Proof. induction n as [|n IH]; intros from; cbn [indices length]; [reflexivity|]. rewrite IH. reflexivity. Qed.
Lemma combine_snoc {A B} (a : list A) (b : list B) x y : length a = length b -> combine (a ++ [x]) (b ++ [y]) = combine a b ++ [(x, y)].
Proof.
  revert b; induction a as [|a0 a IH]; intros [|b0 b] H; cbn in H; try discriminate; cbn [app combine]; [reflexivity|].
  f_equal. apply IH. lia.
Qed.
Lemma members_app tr r j : members (tr ++ [r]) j = mem_step j (members tr j) (N.of_nat (length tr), r).
Proof.
  unfold members. rewrite app_length. cbn [length]. rewrite Nat.add_1_r, indices_S, N.add_0_l.
  rewrite combine_snoc by apply indices_length. rewrite fold_left_app. reflexivity.
Qed.
Lemma members_app_other tr r j : (forall p, r <> Coalesced j p) -> members (tr ++ [r]) j = members tr j.
Proof.
  intros H. rewrite members_app. unfold mem_step. cbn [snd fst]. destruct r as [| |j' p]; try reflexivity.
  destruct (N.eqb_spec j' j); [subst; exfalso; apply (H p); reflexivity|reflexivity].
Qed.
Lemma members_fresh tr j : ~ merged_into tr j -> members tr j = [j].
Proof.
  induction tr as [|r tr IH] using rev_ind; intros H; [reflexivity|].
  rewrite members_app_other.
  - apply IH. intros [p Hp]. apply H. exists p. apply in_or_app. auto.
  - intros p ->. apply H. exists p. apply in_or_app. right. left. reflexivity.
Qed.

(* --------------------------------------------- item / buffer invariant *)
Definition hl_of (tcp : bool) (it : item) : N := it_iph it + (if tcp then it_tcph it else UDPH).
Definition payload_of (inp : list buf) (hl : N) (i : N) : list N := drop hl (b_pkt (get_buf inp i)).

(* [P] = the packet in the item's buffer, [mem] = its members *)
Definition item_ok (inp : list buf) (tcp : bool) (it : item) (P : list N) (mem : list N) : Prop :=
  let hl := hl_of tcp it in
  hl <= len P /\ 1 <= it_gso it /\
  it_iph it = (if it_v6 it then 40 else 20) /\ hd 2 (it_key it) = v6_flag (it_v6 it) /\
  (if tcp then 20 <= it_tcph it else True) /\
  (it_merged it = 0 -> it_gso it = len P - hl) /\
  it_merged it + 1 = len mem /\
  chunks (it_gso it) (drop hl P) = map (payload_of inp hl) mem.

Record Inv2 (inp : list buf) (s : state) : Prop := {
  i_nodup : NoDup (map it_idx (total s));
  i_ok : forall tcp it, In it (all_items (sel tcp s)) ->
           item_ok inp tcp it (b_pkt (get_buf (s_bufs s) (it_idx it))) (members (s_trace s) (it_idx it))
}.

Lemma nodup_map_app_disj {A B} (f : A -> B) a b x y : NoDup (map f (a ++ b)) -> In x a -> In y b -> f x <> f y.
Proof.
  rewrite map_app. intros Hn Hx Hy E. induction a as [|a0 a IH]; [destruct Hx|].
  cbn [map app] in Hn. inversion Hn; subst. destruct Hx as [->|Hx].
  - apply H1. apply in_or_app. right. rewrite E. apply in_map. exact Hy.
  - apply IH; auto.
Qed.
Lemma nodup_map_nth {A B} (f : A -> B) l a b x y :
  NoDup (map f l) -> nth_error l a = Some x -> nth_error l b = Some y -> a <> b -> f x <> f y.
Proof.
  intros Hn Ha Hb Hab E. apply Hab. apply (proj1 (NoDup_nth_error (map f l)) Hn).
  - rewrite map_length. apply nth_error_Some. congruence.
  - rewrite !nth_error_map, Ha, Hb. cbn. congruence.
Qed.

Lemma flow_key_hd pkt v6 iph tcp : hd 2 (flow_key pkt v6 iph tcp) = v6_flag v6.
Proof. reflexivity. Qed.

Lemma fresh_item_ok inp tcp pkt k v6 new :
  fresh_item tcp pkt k v6 new -> pkt = b_pkt (get_buf inp k) -> item_ok inp tcp new pkt [k].
Proof.
  intros [Hi [Hm [Hv [Hiph [Ht [Hl [Hg [Hg1 [Hmax [Hkey _]]]]]]]]]] Hp.
  unfold item_ok, hl_of. rewrite Hv, Hm, Hkey, flow_key_hd.
  repeat split; auto.
  - destruct tcp; [exact Ht|exact I].
  - cbn [map]. unfold payload_of. rewrite <- Hp. apply chunks_small; [exact Hg1|].
    rewrite len_drop. lia.
Qed.

(* ---------------------------------------------- what the merge tests give *)
Lemma tcp_can_append_facts pkt iph tcph seq psh gso it target :
  tcp_can_coalesce pkt iph tcph seq psh gso it target = CanAppend ->
  tcph = it_tcph it /\ (len target - (iph + tcph)) mod it_gso it = 0 /\ gso <= it_gso it /\ it_psh it = false.
Proof.
  unfold tcp_can_coalesce.
  destruct (N.eqb_spec tcph (it_tcph it)); cbn [negb]; [|discriminate].
  destruct (_ && _); [discriminate|]. destruct (negb (ip_headers_can_coalesce pkt target)); [discriminate|].
  destruct (seq =? _).
  - destruct (it_psh it); [discriminate|].
    destruct (N.eqb_spec ((len target - (iph + tcph)) mod it_gso it) 0); cbn [negb]; [|discriminate].
    destruct (N.ltb_spec (it_gso it) gso); [discriminate|]. intros _. auto.
  - destruct (_ =? _); [|discriminate]. destruct psh; [discriminate|]. destruct (gso <? it_gso it); [discriminate|].
    destruct (_ && _); discriminate.
Qed.
Lemma tcp_can_prepend_facts pkt iph tcph seq psh gso it target :
  tcp_can_coalesce pkt iph tcph seq psh gso it target = CanPrepend ->
  tcph = it_tcph it /\ it_gso it <= gso /\ (it_gso it < gso -> it_merged it = 0) /\ psh = false.
Proof.
  unfold tcp_can_coalesce.
  destruct (N.eqb_spec tcph (it_tcph it)); cbn [negb]; [|discriminate].
  destruct (_ && _); [discriminate|]. destruct (negb (ip_headers_can_coalesce pkt target)); [discriminate|].
  destruct (seq =? _).
  - destruct (it_psh it); [discriminate|]. destruct (negb _); [discriminate|]. destruct (_ <? _); discriminate.
  - destruct (_ =? _); [|discriminate]. destruct psh; [discriminate|].
    destruct (N.ltb_spec gso (it_gso it)); [discriminate|].
    destruct (N.ltb_spec (it_gso it) gso); destruct (N.ltb_spec 0 (it_merged it)); cbn [andb]; try discriminate; intros _;
      repeat split; auto; lia.
Qed.
Lemma udp_can_append_facts pkt iph gso it target :
  udp_can_coalesce pkt iph gso it target = CanAppend ->
  (len target - (iph + UDPH)) mod it_gso it = 0 /\ gso <= it_gso it.
Proof.
  unfold udp_can_coalesce. destruct (negb (ip_headers_can_coalesce pkt target)); [discriminate|].
  destruct (N.eqb_spec ((len target - (iph + UDPH)) mod it_gso it) 0); cbn [negb]; [|discriminate].
  destruct (N.ltb_spec (it_gso it) gso); [discriminate|]. auto.
Qed.

Lemma len_put_bytes l i v : i + len v <= len l -> len (put_bytes l i v) = len l.
Proof. intros H. unfold put_bytes. rewrite !len_app, len_take, len_drop by lia. lia. Qed.
Lemma skipn_add {A} a : forall b (l : list A), skipn (a + b) l = skipn b (skipn a l).
Proof. induction a as [|a IH]; intros b l; [reflexivity|]. destruct l; cbn [Nat.add skipn]; [destruct b; reflexivity|apply IH]. Qed.
Lemma drop_put_bytes l i v n : i + len v <= n -> n <= len l -> drop n (put_bytes l i v) = drop n l.
Proof.
  intros H1 H2. unfold put_bytes.
  rewrite app_assoc.
  assert (E : len (take i l ++ v) = i + len v) by (rewrite len_app, len_take by lia; reflexivity).
  replace n with ((i + len v) + (n - (i + len v))) at 1 by lia.
  unfold drop at 1. rewrite N2Nat.inj_add, skipn_add.
  change (skipn (N.to_nat (i + len v)) ((take i l ++ v) ++ drop (i + len v) l)) with (drop (i + len v) ((take i l ++ v) ++ drop (i + len v) l)).
  rewrite drop_app_exact by exact E.
  unfold drop. rewrite <- skipn_add. f_equal. lia.
Qed.

(* ------------------------- per-merge lemma (payload level), all three kinds *)
Lemma v6_flag_inj a b : v6_flag a = v6_flag b -> a = b.
Proof. destruct a, b; cbn; intros H; try reflexivity; discriminate. Qed.

Lemma merge_iph tcp pkt k v6 new it :
  fresh_item tcp pkt k v6 new -> it_key it = it_key new ->
  it_iph it = (if it_v6 it then 40 else 20) -> hd 2 (it_key it) = v6_flag (it_v6 it) -> it_iph it = it_iph new.
Proof.
  intros [_ [_ [Hv [Hiph [_ [_ [_ [_ [_ [Hkey _]]]]]]]]]] Hk Hi Hh.
  rewrite Hk, Hkey, flow_key_hd in Hh. apply v6_flag_inj in Hh. rewrite Hi, Hiph, Hh. reflexivity.
Qed.

Lemma merge_item_ok inp tcp pkt k off v6 p it it' bufs bufs' mem :
  merged_ok tcp pkt k off v6 p it it' bufs bufs' ->
  pkt = b_pkt (get_buf inp k) -> b_pkt (get_buf bufs k) = pkt ->
  it_idx it <> k -> (N.to_nat (it_idx it) < length bufs)%nat ->
  item_ok inp tcp it (b_pkt (get_buf bufs (it_idx it))) mem ->
  item_ok inp tcp it' (b_pkt (get_buf bufs' (it_idx it))) (if p then k :: mem else mem ++ [k]).
Proof.
  intros [new [Hf [Hkey Hm]]] Hpk Hbk Hne Hlt [Hhl [Hg1 [Hiph [Hhd [Htc [Hmz [Hml Hch]]]]]]].
  pose proof (merge_iph _ _ _ _ _ _ Hf Hkey Hiph Hhd) as Hi.
  destruct Hf as [Hfi [Hfm [Hfv [Hfiph [Hft [Hfl [Hfg [Hfg1 [Hfmax [Hfkey _]]]]]]]]]].
  set (P := b_pkt (get_buf bufs (it_idx it))) in *.
  destruct tcp; unfold hl_of in *.
  - destruct Hm as [mode [Hp [Hmode [Hcan Hco]]]].
    destruct (coalesce_tcp_success _ _ _ _ _ _ _ _ _ _ _ _ Hco) as [[Sk [Sv [Si [Sip [St Sm]]]]] [Hb' [Hg' _]]].
    destruct mode; [contradiction| |].
    + (* append *)
      destruct (tcp_can_append_facts _ _ _ _ _ _ _ _ Hcan) as [Ht [Hmod [Hle _]]]. fold P in Hmod.
      subst p. cbn [is_prepend] in *. rewrite Hb'. unfold tcp_merge_bufs. cbn [is_prepend].
      rewrite get_set_buf_same by exact Hlt. cbn [with_pkt b_pkt]. fold P.
      set (head' := if it_psh new then put_byte P (it_iph it + FLAGS_OFF) (N.lor (byte_at P (it_iph it + FLAGS_OFF)) PSH) else P).
      assert (Hh1 : len head' = len P).
      { unfold head'. destruct (it_psh new); [|reflexivity]. unfold put_byte. apply len_put_bytes. unfold FLAGS_OFF, tun_tcpFlagsOffset. cbn [len length N.of_nat]. lia. }
      assert (Hh2 : drop (it_iph it + it_tcph it) head' = drop (it_iph it + it_tcph it) P).
      { unfold head'. destruct (it_psh new); [|reflexivity]. unfold put_byte. apply drop_put_bytes; [|exact Hhl].
        unfold FLAGS_OFF, tun_tcpFlagsOffset. cbn [len length N.of_nat]. lia. }
      unfold item_ok, hl_of. rewrite Sip, St, Sv, Sk, Sm, Hg'.
      assert (Hgs : (if it_gso it <? it_gso new then it_gso new else it_gso it) = it_gso it).
      { destruct (N.ltb_spec (it_gso it) (it_gso new)); [lia|reflexivity]. }
      rewrite Hgs.
      refine (conj _ (conj Hg1 (conj Hiph (conj Hhd (conj Htc (conj _ (conj _ _))))))).
      * rewrite len_app. lia.
      * intros E. lia.
      * rewrite len_app. cbn [len length N.of_nat] in *. unfold len in *. cbn [length]. lia.
      * rewrite drop_app_le by lia. rewrite Hh2, map_app. cbn [map]. rewrite <- Hch.
        unfold payload_of. rewrite <- Hpk.
        apply chunks_append; [exact Hg1| |].
        -- rewrite len_drop. rewrite <- Hi, <- Ht in *. exact Hmod.
        -- rewrite len_drop. rewrite Hi, <- Ht. lia.
    + (* prepend *)
      destruct (tcp_can_prepend_facts _ _ _ _ _ _ _ _ Hcan) as [Ht [Hge [Hgm _]]].
      subst p. cbn [is_prepend] in *. rewrite Hb'. unfold tcp_merge_bufs. cbn [is_prepend].
      rewrite get_set_buf_same by (rewrite set_buf_length; exact Hlt). cbn [with_pkt b_pkt]. fold P.
      unfold item_ok, hl_of. rewrite Sip, St, Sv, Sk, Sm, Hg'.
      assert (Hgs : (if it_gso it <? it_gso new then it_gso new else it_gso it) = it_gso new).
      { destruct (N.ltb_spec (it_gso it) (it_gso new)); [reflexivity|lia]. }
      rewrite Hgs.
      assert (Hhl2 : it_iph it + it_tcph it <= len pkt) by (rewrite Hi, <- Ht; exact Hfl).
      set (pkt' := if it_psh it then put_byte pkt (it_iph it + FLAGS_OFF) (N.lor (byte_at pkt (it_iph it + FLAGS_OFF)) PSH) else pkt).
      assert (Lp : len pkt' = len pkt).
      { unfold pkt'. destruct (it_psh it); [|reflexivity]. unfold put_byte. apply len_put_bytes. unfold FLAGS_OFF, tun_tcpFlagsOffset. cbn [len length N.of_nat]. lia. }
      assert (Dp : drop (it_iph it + it_tcph it) pkt' = drop (it_iph it + it_tcph it) pkt).
      { unfold pkt'. destruct (it_psh it); [|reflexivity]. unfold put_byte. apply drop_put_bytes; [|exact Hhl2].
        unfold FLAGS_OFF, tun_tcpFlagsOffset. cbn [len length N.of_nat]. lia. }
      refine (conj _ (conj Hfg1 (conj Hiph (conj Hhd (conj Htc (conj _ (conj _ _))))))).
      * rewrite len_app, Lp. lia.
      * intros E. lia.
      * cbn [len length N.of_nat] in *. unfold len in *. cbn [length]. lia.
      * rewrite drop_app_le by (rewrite Lp; exact Hhl2). rewrite Dp. cbn [map]. unfold payload_of at 1. rewrite <- Hpk.
        rewrite chunks_cons; [|exact Hfg1|rewrite len_drop, Hi, <- Ht; lia].
        f_equal. rewrite <- Hch.
        destruct (N.eq_dec (it_gso it) (it_gso new)) as [E|E]; [rewrite E; reflexivity|].
        assert (Hz : it_merged it = 0) by (apply Hgm; lia).
        specialize (Hmz Hz).
        rewrite !chunks_small; auto; rewrite len_drop; lia.
  - destruct Hm as [Hp [Hcan Hco]].
    destruct (coalesce_udp_success _ _ _ _ _ _ _ Hco) as [[Sk [Sv [Si [Sip [St Sm]]]]] [Hg' [Hb' _]]].
    destruct (udp_can_append_facts _ _ _ _ _ Hcan) as [Hmod Hle]. fold P in Hmod.
    subst p. rewrite Hb'. rewrite get_set_buf_same by exact Hlt. cbn [with_pkt b_pkt]. fold P.
    unfold item_ok, hl_of. rewrite Sip, Sv, Sk, Sm, Hg'.
    refine (conj _ (conj Hg1 (conj Hiph (conj Hhd (conj I (conj _ (conj _ _))))))).
    * rewrite len_app. lia.
    * intros E. lia.
    * rewrite len_app. cbn [len length N.of_nat] in *. unfold len in *. cbn [length]. lia.
    * rewrite drop_app_le by lia. rewrite map_app. cbn [map]. rewrite <- Hch.
      unfold payload_of. rewrite <- Hpk.
      apply chunks_append; [exact Hg1| |].
      -- rewrite len_drop. rewrite <- Hi in *. exact Hmod.
      -- rewrite len_drop. rewrite Hi. lia.
Qed.

(* ---------------------------------------------- Inv2 is kept by a step *)
Lemma set_nth_split {A} (l1 l2 : list A) x y : set_nth (l1 ++ x :: l2) (length l1) y = l1 ++ y :: l2.
Proof. induction l1 as [|a l1 IH]; cbn [app length set_nth]; [reflexivity|]. f_equal. exact IH. Qed.

Lemma in_replaced {A B} (f : A -> B) PRE L SUF n it it' x :
  NoDup (map f (PRE ++ L ++ SUF)) -> nth_error L n = Some it ->
  In x (PRE ++ set_nth L n it' ++ SUF) -> x = it' \/ (In x (PRE ++ L ++ SUF) /\ f x <> f it).
Proof.
  intros Hn Hnth Hx. destruct (nth_error_split L n Hnth) as [L1 [L2 [-> Hl]]]. subst n.
  rewrite set_nth_split in Hx.
  assert (Hn' : ~ In (f it) (map f ((PRE ++ L1) ++ (L2 ++ SUF)))).
  { rewrite map_app. apply NoDup_remove_2. rewrite <- map_cons, <- map_app.
    replace ((PRE ++ L1) ++ it :: L2 ++ SUF) with (PRE ++ (L1 ++ it :: L2) ++ SUF) by (rewrite <- !app_assoc; reflexivity).
    exact Hn. }
  assert (Hc : x = it' \/ In x ((PRE ++ L1) ++ (L2 ++ SUF))).
  { rewrite <- !app_assoc in Hx. rewrite <- !app_assoc.
    apply in_app_or in Hx as [Hx|Hx]; [right; apply in_or_app; auto|].
    apply in_app_or in Hx as [Hx|Hx]; [right; apply in_or_app; right; apply in_or_app; auto|].
    destruct Hx as [Hx|Hx]; [auto|]. right. apply in_or_app; right; apply in_or_app; right. exact Hx. }
  destruct Hc as [Hc|Hc]; [auto|]. right. split.
  - rewrite <- !app_assoc in Hc. rewrite <- !app_assoc.
    apply in_app_or in Hc as [Hc|Hc]; [apply in_or_app; auto|].
    apply in_app_or in Hc as [Hc|Hc]; [apply in_or_app; right; apply in_or_app; auto|].
    apply in_or_app; right. apply in_or_app. right. right. exact Hc.
  - intros E. apply Hn'. rewrite <- E. apply in_map. exact Hc.
Qed.

Lemma not_merged_fresh inp k s : Inv inp k s -> ~ merged_into (s_trace s) (N.of_nat k).
Proof.
  intros I [p Hp]. apply In_nth_error in Hp as [i Hi].
  destruct (i_coal _ _ _ I i _ p Hi) as [_ Hlt].
  assert (i < length (s_trace s))%nat by (apply nth_error_Some; congruence). rewrite (i_tr _ _ _ I) in *. lia.
Qed.

Lemma item_ok_frame inp tcp it P P' m m' : P' = P -> m' = m -> item_ok inp tcp it P m -> item_ok inp tcp it P' m'.
Proof. intros -> ->. auto. Qed.

Lemma sel_total_in tcp s x : In x (all_items (sel tcp s)) -> In x (total s).
Proof. unfold total, sel. destruct tcp; intros H; apply in_or_app; auto. Qed.
Lemma sel_cross_idx s tcp x y :
  NoDup (map it_idx (total s)) -> In x (all_items (sel tcp s)) -> In y (all_items (sel (negb tcp) s)) -> it_idx x <> it_idx y.
Proof.
  unfold total, sel. intros Hn Hx Hy. destruct tcp; cbn [negb] in *.
  - eapply nodup_map_app_disj; eauto.
  - intros E. eapply (nodup_map_app_disj it_idx _ _ y x Hn); eauto.
Qed.
Lemma sub_app_l {A} (a b : list A) : sub a (a ++ b).
Proof. induction a; cbn [app]; [induction b; constructor; auto|constructor; auto]. Qed.
Lemma sub_app_r {A} (a b : list A) : sub b (a ++ b).
Proof. induction a; cbn [app]; [apply sub_refl|constructor; auto]. Qed.
Lemma sel_nodup s tcp : NoDup (map it_idx (total s)) -> NoDup (map it_idx (all_items (sel tcp s))).
Proof.
  unfold total, sel. rewrite map_app. intros H. destruct tcp; (eapply sub_nodup; [|exact H]); [apply sub_app_l|apply sub_app_r].
Qed.

Lemma inv2_step inp off k s s' :
  (k < length inp)%nat -> Inv inp k s -> Inv2 inp s -> step_spec_core off s (N.of_nat k) s' -> Inv2 inp s'.
Proof.
  intros Hk I I2 [r [bufs' [tcp [v6 [Hkt [Hku [He [Htr [Htw [Hb [Hoth [PRE [L [SUF [L' [Esel [Hsubz Hm]]]]]]]]]]]]]]]]].
  pose proof (subz_sub _ _ Hsubz) as Hsub.
  set (pkt := b_pkt (get_buf (s_bufs s) (N.of_nat k))) in *.
  assert (Hpkt : pkt = b_pkt (get_buf inp (N.of_nat k))) by (unfold pkt; rewrite (i_rest _ _ _ I) by lia; reflexivity).
  assert (Hidx : forall it, In it (total s) -> it_idx it < N.of_nat k).
  { intros it Hi. destruct (i_items _ _ _ I it Hi) as [Hin _]. rewrite (i_tw _ _ _ I) in Hin.
    apply tw_of_bound in Hin. rewrite (i_tr _ _ _ I) in Hin. lia. }
  pose proof (sel_nodup s tcp (i_nodup _ _ I2)) as Hnd. rewrite Esel in Hnd.
  assert (Hnd' : NoDup (map it_idx (PRE ++ L' ++ SUF))).
  { eapply sub_nodup; [|exact Hnd]. apply sub_map. apply sub_app; [apply sub_refl|]. apply sub_app; [exact Hsub|apply sub_refl]. }
  assert (Hold : forall x, In x (PRE ++ L' ++ SUF) -> In x (all_items (sel tcp s))).
  { intros x Hx. rewrite Esel. apply in_app_or in Hx as [Hx|Hx]; [apply in_or_app; auto|].
    apply in_app_or in Hx as [Hx|Hx]; apply in_or_app; right; apply in_or_app; [left; eapply sub_in; eauto|auto]. }
  (* an item that is not the target keeps its buffer and its members *)
  assert (Hframe : forall tcp' x, In x (all_items (sel tcp' s)) ->
            (forall p, r <> Coalesced (it_idx x) p) ->
            b_pkt (get_buf (s_bufs s') (it_idx x)) = b_pkt (get_buf (s_bufs s) (it_idx x)) ->
            item_ok inp tcp' x (b_pkt (get_buf (s_bufs s') (it_idx x))) (members (s_trace s') (it_idx x))).
  { intros tcp' x Hx Hr Hbx. eapply item_ok_frame; [exact Hbx| |apply (i_ok _ _ I2 tcp' x Hx)].
    rewrite Htr. apply members_app_other. exact Hr. }
  assert (Hbufs_old : forall x, In x (total s) ->
            match r with Coalesced j _ => it_idx x <> j | _ => True end ->
            b_pkt (get_buf (s_bufs s') (it_idx x)) = b_pkt (get_buf (s_bufs s) (it_idx x))).
  { intros x Hx Hr. pose proof (Hidx x Hx) as Hlt. rewrite Hb. destruct r as [| |j p].
    - destruct Hm as [-> _]. rewrite get_set_buf_other by lia. reflexivity.
    - destruct Hm as [-> _]. reflexivity.
    - destruct Hm as [n [it [it' [Hn [Hj [_ Hmo]]]]]]. rewrite (merged_ok_frame _ _ _ _ _ _ _ _ _ _ (it_idx x) Hmo); [reflexivity|congruence|lia]. }
  constructor.
  - (* distinct indices *)
    assert (Htot : exists P S, total s = P ++ L ++ S /\ forall X, all_items (sel tcp s') = PRE ++ X ++ SUF -> total s' = P ++ X ++ S).
    { unfold total. destruct tcp; unfold sel in *; cbn [negb] in *.
      - exists PRE, (SUF ++ all_items (s_udp s)). rewrite Esel, <- !app_assoc. split; [reflexivity|].
        intros X ->. rewrite Hoth, <- !app_assoc. reflexivity.
      - exists (all_items (s_tcp s) ++ PRE), SUF. rewrite Esel, <- !app_assoc. split; [reflexivity|].
        intros X ->. rewrite Hoth, <- !app_assoc. reflexivity. }
    destruct Htot as [P [S [Et Et']]].
    pose proof (i_nodup _ _ I2) as Hn. rewrite Et in Hn.
    assert (Hn' : NoDup (map it_idx (P ++ L' ++ S))).
    { eapply sub_nodup; [|exact Hn]. apply sub_map. apply sub_app; [apply sub_refl|]. apply sub_app; [exact Hsub|apply sub_refl]. }
    destruct r as [| |j p].
    + destruct Hm as [_ E']. rewrite (Et' _ E'). exact Hn'.
    + destruct Hm as [_ [new [Hf E']]]. rewrite (Et' _ E').
      replace (P ++ (L' ++ [new]) ++ S) with ((P ++ L') ++ new :: S) by (rewrite <- !app_assoc; reflexivity).
      eapply Permutation_NoDup; [apply Permutation_map; apply Permutation_middle|].
      cbn [map]. constructor; [|rewrite <- app_assoc; exact Hn'].
      intros Hin. apply in_map_iff in Hin as [y [Ey Hy]].
      assert (In y (total s)).
      { rewrite Et. rewrite <- app_assoc in Hy. apply in_app_or in Hy as [Hy|Hy]; [apply in_or_app; auto|].
        apply in_app_or in Hy as [Hy|Hy]; apply in_or_app; right; apply in_or_app; [left; eapply sub_in; eauto|auto]. }
      pose proof (Hidx y H). destruct Hf as [Hfi _]. lia.
    + destruct Hm as [n [it [it' [Hn0 [Hj [E' Hmo]]]]]]. rewrite (Et' _ E').
      pose proof (merged_ok_shape _ _ _ _ _ _ _ _ _ _ Hmo) as [_ [_ [Hsi _]]].
      rewrite !map_app, map_set_nth, Hsi, set_nth_same; [rewrite <- !map_app; exact Hn'|].
      rewrite nth_error_map, Hn0. reflexivity.
  - (* every item describes its buffer *)
    intros tcp' x Hx.
    destruct (Bool.bool_dec tcp' tcp) as [->|Hne].
    + (* the table the step worked on *)
      destruct r as [| |j p].
      * destruct Hm as [_ E']. rewrite E' in Hx. pose proof (Hold x Hx) as Hx0.
        apply Hframe; auto; [discriminate|]. apply Hbufs_old; auto. apply sel_total_in in Hx0. exact Hx0.
      * destruct Hm as [Hbb [new [Hf E']]]. rewrite E' in Hx.
        assert (Hx' : x = new \/ In x (PRE ++ L' ++ SUF)).
        { apply in_app_or in Hx as [Hx|Hx]; [right; apply in_or_app; auto|].
          apply in_app_or in Hx as [Hx|Hx]; [|right; apply in_or_app; right; apply in_or_app; auto].
          apply in_app_or in Hx as [Hx|[Hx|[]]]; [right; apply in_or_app; right; apply in_or_app; auto|auto]. }
        destruct Hx' as [->|Hx'].
        -- pose proof Hf as [Hfi _]. rewrite Hfi, Hb, Hbb. fold pkt.
           rewrite Htr, members_app_other by discriminate.
           rewrite (members_fresh _ _ (not_merged_fresh _ _ _ I)).
           eapply fresh_item_ok; eauto.
        -- pose proof (Hold x Hx') as Hx0. apply Hframe; auto; [discriminate|]. apply Hbufs_old; auto. apply sel_total_in in Hx0. exact Hx0.
      * destruct Hm as [n [it [it' [Hn0 [Hj [E' Hmo]]]]]]. rewrite E' in Hx.
        pose proof (merged_ok_shape _ _ _ _ _ _ _ _ _ _ Hmo) as [_ [_ [Hsi _]]].
        assert (Hit : In it (all_items (sel tcp s))) by (apply Hold; apply in_or_app; right; apply in_or_app; left; eapply nth_error_In; eauto).
        destruct (in_replaced it_idx PRE L' SUF n it it' x Hnd' Hn0 Hx) as [->|[Hx' Hdiff]].
        -- rewrite Hsi, Hb, Htr, members_app. unfold mem_step. cbn [snd fst]. rewrite Hj, N.eqb_refl, (i_tr _ _ _ I), <- Hj.
           pose proof (Hidx it (sel_total_in _ _ _ Hit)) as Hlt.
           eapply merge_item_ok; [exact Hmo|exact Hpkt|reflexivity|lia| |apply (i_ok _ _ I2 tcp it Hit)].
           rewrite (i_len _ _ _ I). lia.
        -- pose proof (Hold x Hx') as Hx0. apply Hframe; auto; [intros p0 E0; inversion E0; congruence|].
           apply Hbufs_old; auto; [apply sel_total_in in Hx0; exact Hx0|congruence].
    + (* the other table *)
      assert (Et : tcp' = negb tcp) by (destruct tcp', tcp; try reflexivity; exfalso; apply Hne; reflexivity).
      subst tcp'. rewrite Hoth in Hx.
      assert (Hcross : match r with Coalesced j _ => it_idx x <> j | _ => True end).
      { destruct r as [| |j p]; auto. destruct Hm as [n [it [it' [Hn0 [Hj _]]]]].
        assert (Hit : In it (all_items (sel tcp s))) by (apply Hold; apply in_or_app; right; apply in_or_app; left; eapply nth_error_In; eauto).
        rewrite <- Hj. intros E. eapply (sel_cross_idx s tcp it x (i_nodup _ _ I2)); eauto. }
      apply Hframe; auto.
      * intros p0 E0. rewrite E0 in Hcross. apply Hcross. reflexivity.
      * apply Hbufs_old; auto. apply (sel_total_in (negb tcp)). exact Hx.
Qed.


(* The same step for any per-item predicate Q that holds for fresh items and is
   kept by a merge (C = a side condition on the vector of buffers). *)
Section GenericItemInvariant.
  Variables (inp : list buf) (off : N).
  Variable Q : bool -> item -> list N -> list N -> Prop.
  Variable C : list buf -> Prop.
  Hypothesis Qfresh : forall tcp pkt k v6 new, fresh_item tcp pkt k v6 new -> pkt = b_pkt (get_buf inp k) -> Q tcp new pkt [k].
  Hypothesis Qmerge : forall tcp pkt k v6 p it it' bufs bufs' mem,
    C bufs -> merged_ok tcp pkt k off v6 p it it' bufs bufs' ->
    pkt = b_pkt (get_buf inp k) -> b_pkt (get_buf bufs k) = pkt ->
    it_idx it <> k -> (N.to_nat (it_idx it) < length bufs)%nat ->
    Q tcp it (b_pkt (get_buf bufs (it_idx it))) mem ->
    Q tcp it' (b_pkt (get_buf bufs' (it_idx it))) (if p then k :: mem else mem ++ [k]).

  Definition allQ (s : state) : Prop :=
    forall tcp it, In it (all_items (sel tcp s)) ->
      Q tcp it (b_pkt (get_buf (s_bufs s) (it_idx it))) (members (s_trace s) (it_idx it)).

  Lemma allQ_step k s s' :
    (k < length inp)%nat -> Inv inp k s -> NoDup (map it_idx (total s)) -> C (s_bufs s) -> allQ s ->
    step_spec_core off s (N.of_nat k) s' -> allQ s'.
  Proof.
    intros Hk I Hnodup HC I2 [r [bufs' [tcp [v6 [Hkt [Hku [He [Htr [Htw [Hb [Hoth [PRE [L [SUF [L' [Esel [Hsubz Hm]]]]]]]]]]]]]]]]].
    pose proof (subz_sub _ _ Hsubz) as Hsub.
    set (pkt := b_pkt (get_buf (s_bufs s) (N.of_nat k))) in *.
    assert (Hpkt : pkt = b_pkt (get_buf inp (N.of_nat k))) by (unfold pkt; rewrite (i_rest _ _ _ I) by lia; reflexivity).
    assert (Hidx : forall it, In it (total s) -> it_idx it < N.of_nat k).
    { intros it Hi. destruct (i_items _ _ _ I it Hi) as [Hin _]. rewrite (i_tw _ _ _ I) in Hin.
      apply tw_of_bound in Hin. rewrite (i_tr _ _ _ I) in Hin. lia. }
    pose proof (sel_nodup s tcp Hnodup) as Hnd. rewrite Esel in Hnd.
    assert (Hnd' : NoDup (map it_idx (PRE ++ L' ++ SUF))).
    { eapply sub_nodup; [|exact Hnd]. apply sub_map. apply sub_app; [apply sub_refl|]. apply sub_app; [exact Hsub|apply sub_refl]. }
    assert (Hold : forall x, In x (PRE ++ L' ++ SUF) -> In x (all_items (sel tcp s))).
    { intros x Hx. rewrite Esel. apply in_app_or in Hx as [Hx|Hx]; [apply in_or_app; auto|].
      apply in_app_or in Hx as [Hx|Hx]; apply in_or_app; right; apply in_or_app; [left; eapply sub_in; eauto|auto]. }
    (* an item that is not the target keeps its buffer and its members *)
    assert (Hframe : forall tcp' x, In x (all_items (sel tcp' s)) ->
              (forall p, r <> Coalesced (it_idx x) p) ->
              b_pkt (get_buf (s_bufs s') (it_idx x)) = b_pkt (get_buf (s_bufs s) (it_idx x)) ->
              Q tcp' x (b_pkt (get_buf (s_bufs s') (it_idx x))) (members (s_trace s') (it_idx x))).
    { intros tcp' x Hx Hr Hbx. rewrite Hbx, Htr, members_app_other by exact Hr. apply (I2 tcp' x Hx). }
    assert (Hbufs_old : forall x, In x (total s) ->
              match r with Coalesced j _ => it_idx x <> j | _ => True end ->
              b_pkt (get_buf (s_bufs s') (it_idx x)) = b_pkt (get_buf (s_bufs s) (it_idx x))).
    { intros x Hx Hr. pose proof (Hidx x Hx) as Hlt. rewrite Hb. destruct r as [| |j p].
      - destruct Hm as [-> _]. rewrite get_set_buf_other by lia. reflexivity.
      - destruct Hm as [-> _]. reflexivity.
      - destruct Hm as [n [it [it' [Hn [Hj [_ Hmo]]]]]]. rewrite (merged_ok_frame _ _ _ _ _ _ _ _ _ _ (it_idx x) Hmo); [reflexivity|congruence|lia]. }
      intros tcp' x Hx.
      destruct (Bool.bool_dec tcp' tcp) as [->|Hne].
      + (* the table the step worked on *)
        destruct r as [| |j p].
        * destruct Hm as [_ E']. rewrite E' in Hx. pose proof (Hold x Hx) as Hx0.
          apply Hframe; auto; [discriminate|]. apply Hbufs_old; auto. apply sel_total_in in Hx0. exact Hx0.
        * destruct Hm as [Hbb [new [Hf E']]]. rewrite E' in Hx.
          assert (Hx' : x = new \/ In x (PRE ++ L' ++ SUF)).
          { apply in_app_or in Hx as [Hx|Hx]; [right; apply in_or_app; auto|].
            apply in_app_or in Hx as [Hx|Hx]; [|right; apply in_or_app; right; apply in_or_app; auto].
            apply in_app_or in Hx as [Hx|[Hx|[]]]; [right; apply in_or_app; right; apply in_or_app; auto|auto]. }
          destruct Hx' as [->|Hx'].
          -- pose proof Hf as [Hfi _]. rewrite Hfi, Hb, Hbb. fold pkt.
             rewrite Htr, members_app_other by discriminate.
             rewrite (members_fresh _ _ (not_merged_fresh _ _ _ I)).
             eapply Qfresh; eauto.
          -- pose proof (Hold x Hx') as Hx0. apply Hframe; auto; [discriminate|]. apply Hbufs_old; auto. apply sel_total_in in Hx0. exact Hx0.
        * destruct Hm as [n [it [it' [Hn0 [Hj [E' Hmo]]]]]]. rewrite E' in Hx.
          pose proof (merged_ok_shape _ _ _ _ _ _ _ _ _ _ Hmo) as [_ [_ [Hsi _]]].
          assert (Hit : In it (all_items (sel tcp s))) by (apply Hold; apply in_or_app; right; apply in_or_app; left; eapply nth_error_In; eauto).
          destruct (in_replaced it_idx PRE L' SUF n it it' x Hnd' Hn0 Hx) as [->|[Hx' Hdiff]].
          -- rewrite Hsi, Hb, Htr, members_app. unfold mem_step. cbn [snd fst]. rewrite Hj, N.eqb_refl, (i_tr _ _ _ I), <- Hj.
             pose proof (Hidx it (sel_total_in _ _ _ Hit)) as Hlt.
             eapply Qmerge; [exact HC|exact Hmo|exact Hpkt|reflexivity|lia| |apply (I2 tcp it Hit)].
             rewrite (i_len _ _ _ I). lia.
          -- pose proof (Hold x Hx') as Hx0. apply Hframe; auto; [intros p0 E0; inversion E0; congruence|].
             apply Hbufs_old; auto; [apply sel_total_in in Hx0; exact Hx0|congruence].
      + (* the other table *)
        assert (Et : tcp' = negb tcp) by (destruct tcp', tcp; try reflexivity; exfalso; apply Hne; reflexivity).
        subst tcp'. rewrite Hoth in Hx.
        assert (Hcross : match r with Coalesced j _ => it_idx x <> j | _ => True end).
        { destruct r as [| |j p]; auto. destruct Hm as [n [it [it' [Hn0 [Hj _]]]]].
          assert (Hit : In it (all_items (sel tcp s))) by (apply Hold; apply in_or_app; right; apply in_or_app; left; eapply nth_error_In; eauto).
          rewrite <- Hj. intros E. eapply (sel_cross_idx s tcp it x Hnodup); eauto. }
        apply Hframe; auto.
        * intros p0 E0. rewrite E0 in Hcross. apply Hcross. reflexivity.
        * apply Hbufs_old; auto. apply (sel_total_in (negb tcp)). exact Hx.
  Qed.

End GenericItemInvariant.

(* ------------------------- coverage: merged-into buffers keep their item *)
Lemma mem_step_length j acc i r : (length acc <= length (mem_step j acc (i, r)))%nat /\
  (forall p, r = Coalesced j p -> length (mem_step j acc (i, r)) = S (length acc)).
Proof.
  unfold mem_step. cbn [snd fst]. destruct r as [| |j' p]; try (split; [lia|intros; discriminate]).
  destruct (N.eqb_spec j' j).
  - destruct p; [cbn [length]|rewrite app_length; cbn [length]]; split; try lia; intros; lia.
  - split; [lia|]. intros p0 E. inversion E. congruence.
Qed.
Lemma members_length_merged tr j : merged_into tr j -> (2 <= length (members tr j))%nat.
Proof.
  assert (H1 : forall tr, (1 <= length (members tr j))%nat).
  { induction tr0 as [|r tr0 IH] using rev_ind; [cbn; lia|]. rewrite members_app.
    pose proof (proj1 (mem_step_length j (members tr0 j) (N.of_nat (length tr0)) r)). lia. }
  induction tr as [|r tr IH] using rev_ind; intros [p Hp]; [destruct Hp|].
  rewrite members_app. apply in_app_or in Hp as [Hp|[Hp|[]]].
  - pose proof (proj1 (mem_step_length j (members tr j) (N.of_nat (length tr)) r)).
    assert (2 <= length (members tr j))%nat by (apply IH; exists p; exact Hp). lia.
  - rewrite (proj2 (mem_step_length j (members tr j) (N.of_nat (length tr)) r) p Hp). pose proof (H1 tr). lia.
Qed.

Record Inv3 (s : state) : Prop := {
  i_cover : forall j, merged_into (s_trace s) j -> exists tcp it, In it (all_items (sel tcp s)) /\ it_idx it = j;
  i_bounds : forall tcp it, In it (all_items (sel tcp s)) -> it_gso it <= 65535 /\ hl_of tcp it <= 65535
}.

Lemma merged_ok_gso tcp pkt pktI off v6 p it it' bufs bufs' :
  merged_ok tcp pkt pktI off v6 p it it' bufs bufs' -> it_gso it <= 65535 -> it_gso it' <= 65535.
Proof.
  intros [new [Hf [_ H]]] Hb. destruct Hf as [_ [_ [_ [_ [_ [_ [Hg [_ [Hmax _]]]]]]]]]. destruct tcp.
  - destruct H as [mode [_ [_ [_ H]]]]. destruct (coalesce_tcp_success _ _ _ _ _ _ _ _ _ _ _ _ H) as [_ [_ [-> _]]].
    destruct (it_gso it <? it_gso new); lia.
  - destruct H as [_ [_ H]]. destruct (coalesce_udp_success _ _ _ _ _ _ _ H) as [_ [-> _]]. exact Hb.
Qed.

Lemma inv3_step inp off k s s' :
  Inv inp k s -> Inv2 inp s -> Inv3 s -> step_spec_core off s (N.of_nat k) s' -> Inv3 s'.
Proof.
  intros I I2 I3 [r [bufs' [tcp [v6 [Hkt [Hku [He [Htr [Htw [Hb [Hoth [PRE [L [SUF [L' [Esel [Hsubz Hm]]]]]]]]]]]]]]]]].
  pose proof (subz_sub _ _ Hsubz) as Hsub.
  assert (Hold : forall x, In x (PRE ++ L' ++ SUF) -> In x (all_items (sel tcp s))).
  { intros x Hx. rewrite Esel. apply in_app_or in Hx as [Hx|Hx]; [apply in_or_app; auto|].
    apply in_app_or in Hx as [Hx|Hx]; apply in_or_app; right; apply in_or_app; [left; eapply sub_in; eauto|auto]. }
  (* where the items of the worked-on table come from *)
  assert (Hnew : forall x, In x (all_items (sel tcp s')) ->
            In x (all_items (sel tcp s)) \/
            match r with
            | Noop => False
            | Inserted => fresh_item tcp (b_pkt (get_buf (s_bufs s) (N.of_nat k))) (N.of_nat k) v6 x
            | Coalesced j p => exists it, In it (all_items (sel tcp s)) /\ merged_ok tcp (b_pkt (get_buf (s_bufs s) (N.of_nat k))) (N.of_nat k) off v6 p it x (s_bufs s) bufs'
            end).
  { intros x Hx. destruct r as [| |j p].
    - destruct Hm as [_ E']. rewrite E' in Hx. left. apply Hold. exact Hx.
    - destruct Hm as [_ [new [Hf E']]]. rewrite E' in Hx.
      apply in_app_or in Hx as [Hx|Hx]; [left; apply Hold; apply in_or_app; auto|].
      apply in_app_or in Hx as [Hx|Hx]; [|left; apply Hold; apply in_or_app; right; apply in_or_app; auto].
      apply in_app_or in Hx as [Hx|[Hx|[]]]; [left; apply Hold; apply in_or_app; right; apply in_or_app; auto|subst; auto].
    - destruct Hm as [n [it [it' [Hn0 [Hj [E' Hmo]]]]]]. rewrite E' in Hx.
      apply in_app_or in Hx as [Hx|Hx]; [left; apply Hold; apply in_or_app; auto|].
      apply in_app_or in Hx as [Hx|Hx]; [|left; apply Hold; apply in_or_app; right; apply in_or_app; auto].
      apply in_set_nth in Hx as [->|Hx]; [|left; apply Hold; apply in_or_app; right; apply in_or_app; auto].
      right. exists it. split; [|exact Hmo]. apply Hold. apply in_or_app; right; apply in_or_app; left. eapply nth_error_In; eauto. }
  (* an item of the old table is still there, unless nothing was merged into it, or it was replaced *)
  assert (Hkeep : forall x, In x (all_items (sel tcp s)) ->
            In x (all_items (sel tcp s')) \/ it_merged x = 0 \/
            exists x', In x' (all_items (sel tcp s')) /\ it_idx x' = it_idx x).
  { intros x Hx. rewrite Esel in Hx.
    assert (Hc : In x (PRE ++ L' ++ SUF) \/ it_merged x = 0).
    { apply in_app_or in Hx as [Hx|Hx]; [left; apply in_or_app; auto|].
      apply in_app_or in Hx as [Hx|Hx]; [|left; apply in_or_app; right; apply in_or_app; auto].
      destruct (subz_in_or _ _ x Hsubz Hx); [left; apply in_or_app; right; apply in_or_app; auto|auto]. }
    destruct Hc as [Hc|Hc]; [|auto].
    destruct r as [| |j p].
    - destruct Hm as [_ E']. left. rewrite E'. exact Hc.
    - destruct Hm as [_ [new [_ E']]]. left. rewrite E'.
      apply in_app_or in Hc as [Hc|Hc]; [apply in_or_app; auto|]. apply in_or_app; right.
      apply in_app_or in Hc as [Hc|Hc]; apply in_or_app; [left; apply in_or_app; auto|auto].
    - destruct Hm as [n [it [it' [Hn0 [Hj [E' Hmo]]]]]]. rewrite E'.
      apply in_app_or in Hc as [Hc|Hc]; [left; apply in_or_app; auto|].
      apply in_app_or in Hc as [Hc|Hc]; [|left; apply in_or_app; right; apply in_or_app; auto].
      destruct (in_set_nth_keep L' n it' x Hc) as [Hk|Hk]; [left; apply in_or_app; right; apply in_or_app; auto|].
      right; right. exists it'. split.
      + apply in_or_app; right; apply in_or_app; left. eapply in_set_nth_new; eauto.
      + pose proof (merged_ok_shape _ _ _ _ _ _ _ _ _ _ Hmo) as [_ [_ [Hsi _]]]. congruence. }
  constructor.
  - intros j Hmj. rewrite Htr in Hmj. destruct Hmj as [p Hp]. apply in_app_or in Hp as [Hp|[Hp|[]]].
    + assert (Hmj : merged_into (s_trace s) j) by (exists p; exact Hp).
      destruct (i_cover _ I3 j Hmj) as [tcp0 [it0 [Hin Hidx0]]].
      destruct (Bool.bool_dec tcp0 tcp) as [->|Hne].
      * destruct (Hkeep it0 Hin) as [Hk|[Hk|[x' [Hx' Hi']]]].
        -- exists tcp, it0. auto.
        -- exfalso. destruct (i_ok _ _ I2 tcp it0 Hin) as [_ [_ [_ [_ [_ [_ [Hml _]]]]]]].
           rewrite Hidx0 in Hml. pose proof (members_length_merged _ _ Hmj). unfold len in Hml. lia.
        -- exists tcp, x'. split; [exact Hx'|congruence].
      * assert (Et : tcp0 = negb tcp) by (destruct tcp0, tcp; try reflexivity; exfalso; apply Hne; reflexivity).
        subst tcp0. exists (negb tcp), it0. rewrite Hoth. auto.
    + subst r. destruct Hm as [n [it [it' [Hn0 [Hj [E' Hmo]]]]]]. exists tcp, it'. split.
      * rewrite E'. apply in_or_app; right; apply in_or_app; left. eapply in_set_nth_new; eauto.
      * pose proof (merged_ok_shape _ _ _ _ _ _ _ _ _ _ Hmo) as [_ [_ [Hsi _]]]. congruence.
  - intros tcp' x Hx. destruct (Bool.bool_dec tcp' tcp) as [->|Hne].
    + destruct (Hnew x Hx) as [Hx0|Hx0]; [apply (i_bounds _ I3 tcp x Hx0)|].
      destruct r as [| |j p]; [destruct Hx0| |].
      * destruct Hx0 as [_ [_ [_ [_ [_ [Hl [Hg [_ [Hmax _]]]]]]]]]. unfold hl_of. lia.
      * destruct Hx0 as [it [Hit Hmo]]. destruct (i_bounds _ I3 tcp it Hit) as [B1 B2].
        split; [eapply merged_ok_gso; eauto|].
        pose proof (merged_ok_shape _ _ _ _ _ _ _ _ _ _ Hmo) as [_ [_ [_ [S1 [S2 _]]]]]. unfold hl_of in *. rewrite S1, S2. exact B2.
    + assert (Et : tcp' = negb tcp) by (destruct tcp', tcp; try reflexivity; exfalso; apply Hne; reflexivity).
      subst tcp'. rewrite Hoth in Hx. apply (i_bounds _ I3 _ x Hx).
Qed.

Lemma inv2_zero inp s bz : Inv2 inp s -> hz (total s) (s_bufs s) bz -> Inv2 inp (with_bufs s bz).
Proof.
  intros I2 Hz. constructor; [apply (i_nodup _ _ I2)|]. intros tcp it Hin. cbn [with_bufs s_bufs s_trace].
  rewrite (proj1 (hz_pkt _ _ _ (it_idx it) Hz)). apply (i_ok _ _ I2 tcp it). destruct tcp; exact Hin.
Qed.
Lemma inv3_zero s bz : Inv3 s -> Inv3 (with_bufs s bz).
Proof. intros [H1 H2]. constructor; [exact H1|]. intros tcp it Hin. apply (H2 tcp it). destruct tcp; exact Hin. Qed.
Lemma allQ_zero Q s bz : allQ Q s -> hz (total s) (s_bufs s) bz -> allQ Q (with_bufs s bz).
Proof.
  intros H Hz tcp it Hin. cbn [with_bufs s_bufs s_trace]. rewrite (proj1 (hz_pkt _ _ _ (it_idx it) Hz)). apply (H tcp it). destruct tcp; exact Hin.
Qed.

Lemma inv2_init inp : Inv2 inp (init inp).
Proof. constructor; [constructor|]. intros tcp it H. destruct tcp; destruct H. Qed.
Lemma inv3_init inp : Inv3 (init inp).
Proof. constructor; [intros j [p []]|]. intros tcp it H. destruct tcp; destruct H. Qed.

Lemma loop_inv_all udp off inp k : (k <= length inp)%nat -> s_err (loop_k udp off inp k) = false ->
  Inv inp k (loop_k udp off inp k) /\ Inv2 inp (loop_k udp off inp k) /\ Inv3 (loop_k udp off inp k).
Proof.
  induction k as [|k IH]; intros Hk He.
  - split; [apply inv_init|split; [apply inv2_init|apply inv3_init]].
  - unfold loop_k in *. rewrite indices_S, fold_left_app in *. cbn [fold_left] in *. rewrite N.add_0_l in *.
    pose proof (err_sticky _ _ _ _ He) as He0. destruct (IH ltac:(lia) He0) as [I [I2 I3]].
    destruct (gro_step_spec udp off _ (N.of_nat k) (i_kt _ _ _ I) (i_ku _ _ _ I) He0 (inv_range inp k _ (Nat.lt_le_incl _ _ Hk) I) He) as [bz [Hz [_ Hs]]].
    pose proof (inv_zero _ _ _ _ I Hz) as Iz. pose proof (inv2_zero _ _ _ I2 Hz) as I2z. pose proof (inv3_zero _ bz I3) as I3z.
    split; [eapply inv_step; [lia|exact Iz|exact Hs]|].
    split; [eapply inv2_step; [|exact Iz|exact I2z|exact Hs]; lia|eapply inv3_step; eauto].
Qed.

(* ------------------------------------------- accounting, buffer by buffer *)
Definition acc_buf (tcp : bool) (it : item) (b : buf) : buf :=
  if 0 <? it_merged it then
    let pkt := b_pkt b in
    let iph := it_iph it in
    let v6 := it_v6 it in
    let hl := if tcp then iph + it_tcph it else iph + UDPH in
    let gt := if tcp then (if v6 then GSO_TCPV6 else GSO_TCPV4) else GSO_UDP_L4 in
    let co := if tcp then 16 else 6 in
    let hdr := enc_vhdr VIRTIO_NET_HDR_F_NEEDS_CSUM gt hl (it_gso it) iph co in
    let l4 := (len pkt - iph) mod 65536 in
    let pkt1 :=
      if v6 then put_be16 pkt 4 l4
      else
        let p := put_be16 (put_bytes pkt 10 [0; 0]) 2 (len pkt mod 65536) in
        put_be16 p 10 (cnot16 (checksum (take iph p) 0)) in
    let pkt2 := if tcp then pkt1 else put_be16 pkt1 (iph + 4) l4 in
    let src := if v6 then tun_ipv6SrcAddrOffset else tun_ipv4SrcAddrOffset in
    let al := if v6 then 16 else 4 in
    let psum := pseudo_sum (if tcp then IPPROTO_TCP else IPPROTO_UDP)
                  (slice pkt2 src (src + al)) (slice pkt2 (src + al) (src + al * 2)) l4 in
    {| b_hdr := hdr; b_pkt := put_be16 pkt2 (iph + co) (checksum [] psum); b_cap := b_cap b |}
  else with_hdr b zero_vhdr.

Lemma account_item_eq tcp bufs it :
  account_item tcp bufs it = set_buf bufs (it_idx it) (acc_buf tcp it (get_buf bufs (it_idx it))).
Proof. unfold account_item, acc_buf. destruct (0 <? it_merged it); reflexivity. Qed.

Lemma fold_account_other tcp items : forall bufs j, (forall y, In y items -> it_idx y <> j) ->
  get_buf (fold_left (account_item tcp) items bufs) j = get_buf bufs j.
Proof.
  induction items as [|x items IH]; intros bufs j H; cbn [fold_left]; [reflexivity|].
  rewrite IH by (intros y Hy; apply H; right; exact Hy).
  apply account_item_other. intros E. apply (H x (or_introl eq_refl)). auto.
Qed.
Lemma fold_account_length tcp items : forall bufs, length (fold_left (account_item tcp) items bufs) = length bufs.
Proof. induction items as [|x items IH]; intros bufs; cbn [fold_left]; [reflexivity|]. rewrite IH. apply account_item_length. Qed.

Lemma fold_account_get tcp items : forall bufs it,
  NoDup (map it_idx items) -> In it items -> (N.to_nat (it_idx it) < length bufs)%nat ->
  get_buf (fold_left (account_item tcp) items bufs) (it_idx it) = acc_buf tcp it (get_buf bufs (it_idx it)).
Proof.
  induction items as [|x items IH]; intros bufs it Hn Hin Hlt; [destruct Hin|]. cbn [fold_left map] in *.
  inversion Hn; subst. destruct Hin as [->|Hin].
  - rewrite fold_account_other.
    + rewrite account_item_eq. apply get_set_buf_same. exact Hlt.
    + intros y Hy E. apply H1. rewrite <- E. apply in_map. exact Hy.
  - assert (it_idx x <> it_idx it) by (intros E; apply H1; rewrite E; apply in_map; exact Hin).
    rewrite IH; auto; [|rewrite account_item_length; exact Hlt].
    rewrite account_item_other by auto. reflexivity.
Qed.

(* the fix-ups of the accounting stay inside the headers *)
Lemma put_be16_drop l i v n : i + 2 <= n -> n <= len l -> drop n (put_be16 l i v) = drop n l.
Proof. intros. unfold put_be16. apply drop_put_bytes; [cbn [enc_be16 len length N.of_nat]; lia|assumption]. Qed.
Lemma put_be16_len l i v : i + 2 <= len l -> len (put_be16 l i v) = len l.
Proof. intros. unfold put_be16. apply len_put_bytes. cbn [enc_be16 len length N.of_nat]. lia. Qed.

Lemma acc_buf_payload (tcp : bool) (it : item) (b : buf) :
  0 < it_merged it -> it_iph it = (if it_v6 it then 40 else 20) -> (if tcp return Prop then 20 <= it_tcph it else True) ->
  hl_of tcp it <= len (b_pkt b) ->
  drop (hl_of tcp it) (b_pkt (acc_buf tcp it b)) = drop (hl_of tcp it) (b_pkt b) /\
  len (b_pkt (acc_buf tcp it b)) = len (b_pkt b) /\
  b_hdr (acc_buf tcp it b) = enc_vhdr VIRTIO_NET_HDR_F_NEEDS_CSUM
                               (if tcp then (if it_v6 it then GSO_TCPV6 else GSO_TCPV4) else GSO_UDP_L4)
                               (hl_of tcp it) (it_gso it) (it_iph it) (if tcp then 16 else 6).
Proof.
  intros Hm Hiph Ht Hl. unfold acc_buf. destruct (N.ltb_spec 0 (it_merged it)); [|lia]. cbn [b_pkt b_hdr].
  set (P := b_pkt b) in *. unfold hl_of in *. unfold UDPH, tun_udphLen in *.
  destruct tcp, (it_v6 it); rewrite Hiph in *.
  - (* tcp6 *)
    assert (L1 : len (put_be16 P 4 ((len P - 40) mod 65536)) = len P) by (apply put_be16_len; lia).
    refine (conj _ (conj _ eq_refl)).
    + rewrite put_be16_drop by lia. rewrite put_be16_drop by lia. reflexivity.
    + rewrite put_be16_len by lia. exact L1.
  - (* tcp4 *)
    set (p1 := put_bytes P 10 [0; 0]).
    assert (L1 : len p1 = len P) by (apply len_put_bytes; cbn [len length N.of_nat]; lia).
    set (p2 := put_be16 p1 2 (len P mod 65536)).
    assert (L2 : len p2 = len P) by (unfold p2; rewrite put_be16_len; lia).
    set (p3 := put_be16 p2 10 (cnot16 (checksum (take 20 p2) 0))).
    assert (L3 : len p3 = len P) by (unfold p3; rewrite put_be16_len; lia).
    refine (conj _ (conj _ eq_refl)).
    + rewrite put_be16_drop by lia. unfold p3. rewrite put_be16_drop by lia. unfold p2. rewrite put_be16_drop by lia.
      unfold p1. apply drop_put_bytes; [cbn [len length N.of_nat]; lia|lia].
    + rewrite put_be16_len by lia. exact L3.
  - (* udp6 *)
    set (p1 := put_be16 P 4 ((len P - 40) mod 65536)).
    assert (L1 : len p1 = len P) by (apply put_be16_len; lia).
    set (p2 := put_be16 p1 (40 + 4) ((len P - 40) mod 65536)).
    assert (L2 : len p2 = len P) by (unfold p2; rewrite put_be16_len; lia).
    refine (conj _ (conj _ eq_refl)).
    + rewrite put_be16_drop by lia. unfold p2. rewrite put_be16_drop by lia. unfold p1. rewrite put_be16_drop by lia. reflexivity.
    + rewrite put_be16_len by lia. exact L2.
  - (* udp4 *)
    set (p1 := put_bytes P 10 [0; 0]).
    assert (L1 : len p1 = len P) by (apply len_put_bytes; cbn [len length N.of_nat]; lia).
    set (p2 := put_be16 p1 2 (len P mod 65536)).
    assert (L2 : len p2 = len P) by (unfold p2; rewrite put_be16_len; lia).
    set (p3 := put_be16 p2 10 (cnot16 (checksum (take 20 p2) 0))).
    assert (L3 : len p3 = len P) by (unfold p3; rewrite put_be16_len; lia).
    set (p4 := put_be16 p3 (20 + 4) ((len P - 20) mod 65536)).
    assert (L4 : len p4 = len P) by (unfold p4; rewrite put_be16_len; lia).
    refine (conj _ (conj _ eq_refl)).
    + rewrite put_be16_drop by lia. unfold p4. rewrite put_be16_drop by lia. unfold p3. rewrite put_be16_drop by lia.
      unfold p2. rewrite put_be16_drop by lia. unfold p1. apply drop_put_bytes; [cbn [len length N.of_nat]; lia|lia].
    + rewrite put_be16_len by lia. exact L4.
Qed.

Lemma dec_enc_vhdr f g a b c d : a < 65536 -> b < 65536 -> c < 65536 -> d < 65536 ->
  dec_vhdr (enc_vhdr f g a b c d) = {| v_flags := f; v_gso := g; v_hdrlen := a; v_gsosize := b; v_cstart := c; v_coff := d |}.
Proof.
  intros Ha Hb Hc Hd. unfold dec_vhdr, enc_vhdr, le16, enc_le16, byte_at.
  repeat match goal with |- context [N.to_nat ?n] => let v := eval vm_compute in (N.to_nat n) in change (N.to_nat n) with v end.
  cbn [app nth]. f_equal; lia.
Qed.

(* who is a member of which written buffer *)
Lemma members_spec tr j i :
  In i (members tr j) <-> i = j \/ exists p, nth_error tr (N.to_nat i) = Some (Coalesced j p) /\ (N.to_nat i < length tr)%nat.
Proof.
  induction tr as [|r tr IH] using rev_ind.
  - cbn. split; [intros [H|[]]; auto|]. intros [H|[p [H _]]]; [auto|]. destruct (N.to_nat i); discriminate.
  - rewrite members_app. unfold mem_step. cbn [snd fst].
    assert (Hold : (exists p, nth_error tr (N.to_nat i) = Some (Coalesced j p) /\ (N.to_nat i < length tr)%nat) ->
                   exists p, nth_error (tr ++ [r]) (N.to_nat i) = Some (Coalesced j p) /\ (N.to_nat i < length (tr ++ [r]))%nat).
    { intros [p [H1 H2]]. exists p. rewrite nth_error_app1 by exact H2. rewrite app_length. cbn. split; [exact H1|lia]. }
    assert (Hsplit : forall p, nth_error (tr ++ [r]) (N.to_nat i) = Some (Coalesced j p) -> (N.to_nat i < length (tr ++ [r]))%nat ->
                     (nth_error tr (N.to_nat i) = Some (Coalesced j p) /\ (N.to_nat i < length tr)%nat) \/
                     (i = N.of_nat (length tr) /\ r = Coalesced j p)).
    { intros p H1 H2. rewrite app_length in H2. cbn in H2.
      destruct (Nat.lt_ge_cases (N.to_nat i) (length tr)) as [Hlt|Hge].
      - left. rewrite nth_error_app1 in H1 by exact Hlt. auto.
      - right. rewrite nth_error_app2 in H1 by exact Hge. replace (N.to_nat i - length tr)%nat with 0%nat in H1 by lia.
        cbn in H1. inversion H1. split; [lia|reflexivity]. }
    destruct r as [| |j' p'].
    1,2: rewrite IH; split; (intros [H|H]; [auto|right]); [apply Hold; exact H|
           destruct H as [p [H1 H2]]; destruct (Hsplit p H1 H2) as [H|[_ H]]; [exists p; exact H|discriminate]].
    destruct (N.eqb_spec j' j) as [->|Hne].
    + assert (Hnew : exists p, nth_error (tr ++ [Coalesced j p']) (N.to_nat (N.of_nat (length tr))) = Some (Coalesced j p) /\
                       (N.to_nat (N.of_nat (length tr)) < length (tr ++ [Coalesced j p']))%nat).
      { exists p'. rewrite Nat2N.id, nth_error_app2, Nat.sub_diag, app_length by lia. cbn. split; [reflexivity|lia]. }
      destruct p'.
      * cbn [In]. rewrite IH. split.
        -- intros [<-|[H|H]]; [right; exact Hnew|auto|right; apply Hold; exact H].
        -- intros [H|[p [H1 H2]]]; [auto|]. destruct (Hsplit p H1 H2) as [H|[H _]]; [right; right; exists p; exact H|left; auto].
      * rewrite in_app_iff, IH. cbn [In]. split.
        -- intros [[H|H]|[<-|[]]]; [auto|right; apply Hold; exact H|right; exact Hnew].
        -- intros [H|[p [H1 H2]]]; [auto|]. destruct (Hsplit p H1 H2) as [H|[H _]]; [left; right; exists p; exact H|right; left; auto].
    + rewrite IH. split; (intros [H|H]; [auto|right]); [apply Hold; exact H|].
      destruct H as [p [H1 H2]]. destruct (Hsplit p H1 H2) as [H|[_ H]]; [exists p; exact H|]. inversion H. congruence.
Qed.

(* ---------------------------------- theorem: payloads and boundaries *)
(* Every buffer something was merged into is written, carries a GSO virtio
   header, and cutting its payload at gso_size gives back exactly the payloads
   of its members (the input packets merged into it), in order. *)
Theorem gro_payloads_lossless : forall (canUDP : bool) (offset : N) (bufs : list buf) (j : N),
  let s := handle_gro canUDP offset bufs in
  s_err s = false -> merged_into (s_trace s) j ->
  let b := get_buf (s_bufs s) j in
  let v := dec_vhdr (b_hdr b) in
  In j (s_tw s) /\
  v_flags v = VIRTIO_NET_HDR_F_NEEDS_CSUM /\ v_gso v <> GSO_NONE /\ 1 <= v_gsosize v /\ v_hdrlen v <= len (b_pkt b) /\
  (2 <= length (members (s_trace s) j))%nat /\
  chunks (v_gsosize v) (drop (v_hdrlen v) (b_pkt b)) = map (payload_of bufs (v_hdrlen v)) (members (s_trace s) j).
Proof.
  intros udp off inp j s He. subst s. unfold handle_gro in *. rewrite gro_loop_is in *.
  set (s0 := loop_k udp off inp (length inp)) in *.
  assert (He0 : s_err s0 = false) by (destruct (s_err s0) eqn:E; [cbn iota in He; congruence|reflexivity]).
  rewrite He0 in *. cbn [s_trace s_tw s_bufs]. intros Hmj.
  destruct (loop_inv_all udp off inp (length inp) (le_n _) He0) as [I [I2 I3]]. fold s0 in I, I2, I3.
  destruct (i_cover _ I3 j Hmj) as [tcp [it [Hin Hidx]]].
  pose proof (sel_total_in _ _ _ Hin) as Hint.
  destruct (i_items _ _ _ I it Hint) as [Htw _].
  pose proof (i_ok _ _ I2 tcp it Hin) as [Hhl [Hg1 [Hiph [Hhd [Htc [Hmz [Hml Hch]]]]]]].
  destruct (i_bounds _ I3 tcp it Hin) as [Bg Bh].
  pose proof (members_length_merged _ _ Hmj) as Hlen2.
  rewrite Hidx in *.
  assert (Hmpos : 0 < it_merged it) by (unfold len in Hml; lia).
  assert (Hjlt : (N.to_nat j < length (s_bufs s0))%nat).
  { rewrite (i_tw _ _ _ I) in Htw. apply tw_of_bound in Htw. rewrite (i_tr _ _ _ I) in Htw. rewrite (i_len _ _ _ I). lia. }
  (* the buffer after both accounting passes *)
  assert (Hfin : get_buf (account false (account true (s_bufs s0) (s_tcp s0)) (s_udp s0)) j = acc_buf tcp it (get_buf (s_bufs s0) j)).
  { rewrite !account_flat. pose proof (i_nodup _ _ I2) as Hn.
    destruct tcp; unfold sel in Hin.
    - rewrite fold_account_other.
      + rewrite <- Hidx. apply fold_account_get; [apply (sel_nodup s0 true Hn)|exact Hin|rewrite Hidx; exact Hjlt].
      + intros y Hy E. apply (sel_cross_idx s0 true it y Hn Hin Hy). congruence.
    - rewrite <- Hidx. rewrite fold_account_get; [|apply (sel_nodup s0 false Hn)|exact Hin|rewrite fold_account_length, Hidx; exact Hjlt].
      rewrite fold_account_other; [reflexivity|].
      intros y Hy E. apply (sel_cross_idx s0 false it y Hn Hin Hy). congruence. }
  rewrite Hfin.
  destruct (acc_buf_payload tcp it (get_buf (s_bufs s0) j) Hmpos Hiph Htc Hhl) as [Hd [Hl Hh]].
  rewrite Hh, dec_enc_vhdr; [|lia|lia| |destruct tcp; lia].
  2:{ rewrite Hiph. destruct (it_v6 it); lia. }
  cbn [v_flags v_gso v_hdrlen v_gsosize].
  refine (conj Htw (conj eq_refl (conj _ (conj Hg1 (conj _ (conj Hlen2 _)))))).
  - destruct tcp; [destruct (it_v6 it)|]; discriminate.
  - rewrite Hl. exact Hhl.
  - rewrite Hd. exact Hch.
Qed.

(* ------------------------------------------------ bytes under put_bytes *)
Lemma nth_firstn_lt {A} (d : A) : forall k i l, (k < i)%nat -> nth k (firstn i l) d = nth k l d.
Proof. induction k as [|k IH]; intros [|i] [|x l] H; cbn [firstn nth]; try lia; try reflexivity. apply IH. lia. Qed.
Lemma nth_skipn_add {A} (d : A) : forall a k l, nth k (skipn a l) d = nth (a + k) l d.
Proof. induction a as [|a IH]; intros k [|x l]; cbn [skipn nth Nat.add]; try reflexivity; [destruct k; reflexivity|apply IH]. Qed.

Lemma byte_at_put_bytes l i v k : i + len v <= len l ->
  byte_at (put_bytes l i v) k =
  if k <? i then byte_at l k else if k <? i + len v then byte_at v (k - i) else byte_at l k.
Proof.
  intros H. unfold byte_at, put_bytes, take, drop, len in *.
  destruct (N.ltb_spec k i).
  - rewrite app_nth1 by (rewrite firstn_length; lia). apply nth_firstn_lt. lia.
  - rewrite app_nth2 by (rewrite firstn_length; lia). rewrite firstn_length.
    replace (Nat.min (N.to_nat i) (length l)) with (N.to_nat i) by lia.
    destruct (N.ltb_spec k (i + N.of_nat (length v))).
    + rewrite app_nth1 by lia. f_equal. lia.
    + rewrite app_nth2 by lia. rewrite nth_skipn_add. f_equal. lia.
Qed.
Lemma byte_at_put_bytes_other l i v k : i + len v <= len l -> (k < i \/ i + len v <= k) ->
  byte_at (put_bytes l i v) k = byte_at l k.
Proof.
  intros H Hk. rewrite byte_at_put_bytes by exact H.
  destruct (N.ltb_spec k i); [reflexivity|]. destruct (N.ltb_spec k (i + len v)); [lia|reflexivity].
Qed.
Lemma byte_at_put_be16_other l i v k : i + 2 <= len l -> (k < i \/ i + 2 <= k) -> byte_at (put_be16 l i v) k = byte_at l k.
Proof. intros. unfold put_be16. apply byte_at_put_bytes_other; cbn [enc_be16 len length N.of_nat]; lia. Qed.
Lemma len_enc_be16 v : len (enc_be16 v) = 2.
Proof. reflexivity. Qed.
Lemma be16_put_be16_same l i v : i + 2 <= len l -> v < 65536 -> be16 (put_be16 l i v) i = v.
Proof.
  intros H Hv. unfold be16, put_be16. rewrite !byte_at_put_bytes by (rewrite len_enc_be16; lia).
  rewrite len_enc_be16.
  destruct (N.ltb_spec i i); [lia|]. destruct (N.ltb_spec i (i + 2)); [|lia].
  destruct (N.ltb_spec (i + 1) i); [lia|]. destruct (N.ltb_spec (i + 1) (i + 2)); [|lia].
  replace (i - i) with 0 by lia. replace (i + 1 - i) with 1 by lia. unfold byte_at, enc_be16.
  change (N.to_nat 0) with 0%nat. change (N.to_nat 1) with 1%nat. cbn [nth]. lia.
Qed.
Lemma be16_put_be16_other l i v j : i + 2 <= len l -> (j + 2 <= i \/ i + 2 <= j) -> be16 (put_be16 l i v) j = be16 l j.
Proof. intros H Hj. unfold be16. rewrite !byte_at_put_be16_other by lia. reflexivity. Qed.
Lemma byte_at_app_l a b k : k < len a -> byte_at (a ++ b) k = byte_at a k.
Proof. intros H. unfold byte_at, len in *. apply app_nth1. lia. Qed.

(* -------------------------------------- header facts and the length bound *)
Definition caps_ok (off : N) (bufs : list buf) : Prop := forall i, b_cap (get_buf bufs i) <= 65535 + 2 * off.

Lemma hdr_facts_same (tcp v6 : bool) (tcph hl : N) (P P' : list N) :
  (if v6 then 40 else 20) + (if tcp then 20 else 8) <= hl ->
  (forall k, k < hl -> k <> (if v6 then 40 else 20) + 13 -> byte_at P' k = byte_at P k) ->
  hdr_facts tcp v6 tcph P -> hdr_facts tcp v6 tcph P'.
Proof.
  intros Hhl He [F1 [F2 [F3 F4]]]. unfold hdr_facts.
  assert (E0 : byte_at P' 0 = byte_at P 0) by (apply He; destruct v6, tcp; lia).
  assert (E6 : byte_at P' 6 = byte_at P 6) by (apply He; destruct v6, tcp; lia).
  assert (E7 : byte_at P' 7 = byte_at P 7) by (apply He; destruct v6, tcp; lia).
  assert (E9 : byte_at P' (if v6 then 6 else 9) = byte_at P (if v6 then 6 else 9)) by (apply He; destruct v6, tcp; lia).
  rewrite E0, E6, E7, E9. refine (conj F1 (conj F2 (conj F3 _))).
  intros Ht. rewrite He; [auto| |]; subst tcp; destruct v6; lia.
Qed.

(* item_ok plus: the packet in the buffer still has the classified header, and
   (when all capacities are within 65535 + 2*offset) at most 65535 bytes *)
Definition item_ok2 (inp : list buf) (capsb : Prop) (tcp : bool) (it : item) (P : list N) (mem : list N) : Prop :=
  item_ok inp tcp it P mem /\ hdr_facts tcp (it_v6 it) (it_tcph it) P /\ len P <= 65535.

Lemma fresh_item_ok2 inp (capsb : Prop) tcp pkt k v6 new :
  fresh_item tcp pkt k v6 new -> pkt = b_pkt (get_buf inp k) -> item_ok2 inp capsb tcp new pkt [k].
Proof.
  intros Hf Hp. split; [eapply fresh_item_ok; eauto|].
  destruct Hf as [_ [_ [Hv [_ [_ [_ [_ [_ [Hmax [_ [Hh _]]]]]]]]]]]. rewrite Hv. split; [exact Hh|exact Hmax].
Qed.

Lemma no_room_false b off clen : no_room b off clen = false -> clen + 2 * off <= b_cap b.
Proof. unfold no_room. intros H. apply N.ltb_ge in H. exact H. Qed.

Lemma merge_item_ok2 inp off (capsb : Prop) tcp pkt k v6 p it it' bufs bufs' mem :
  True ->
  merged_ok tcp pkt k off v6 p it it' bufs bufs' ->
  pkt = b_pkt (get_buf inp k) -> b_pkt (get_buf bufs k) = pkt ->
  it_idx it <> k -> (N.to_nat (it_idx it) < length bufs)%nat ->
  item_ok2 inp capsb tcp it (b_pkt (get_buf bufs (it_idx it))) mem ->
  item_ok2 inp capsb tcp it' (b_pkt (get_buf bufs' (it_idx it))) (if p then k :: mem else mem ++ [k]).
Proof.
  intros HC Hmo Hpk Hbk Hne Hlt [Hok [Hh Hlen]].
  split; [eapply merge_item_ok; eauto|].
  pose proof Hok as [Hhl [Hg1 [Hiph [Hhd [Htc [Hmz [Hml Hch]]]]]]].
  destruct Hmo as [new [Hf [Hkey Hm]]].
  pose proof (merge_iph _ _ _ _ _ _ Hf Hkey Hiph Hhd) as Hi.
  destruct Hf as [Hfi [Hfm [Hfv [Hfiph [Hft [Hfl [Hfg [Hfg1 [Hfmax [Hfkey [Hfh _]]]]]]]]]]].
  assert (Hv : it_v6 it = v6).
  { rewrite Hkey, Hfkey, flow_key_hd in Hhd. apply v6_flag_inj in Hhd. auto. }
  set (P := b_pkt (get_buf bufs (it_idx it))) in *.
  destruct tcp; unfold hl_of in *.
  - destruct Hm as [mode [Hp [Hmode [Hcan Hco]]]].
    destruct (coalesce_tcp_success _ _ _ _ _ _ _ _ _ _ _ _ Hco) as [[Sk [Sv [Si [Sip [St Sm]]]]] [Hb' [Hg' Hroom]]].
    pose proof (coalesce_tcp_bound _ _ _ _ _ _ _ _ _ _ _ _ Hco) as Hbound. fold P in Hbound.
    rewrite Sv, St. destruct mode; [contradiction| |].
    + destruct (tcp_can_append_facts _ _ _ _ _ _ _ _ Hcan) as [Ht _].
      cbn [is_prepend] in *. rewrite Hb'. unfold tcp_merge_bufs. cbn [is_prepend].
      rewrite get_set_buf_same by exact Hlt. cbn [with_pkt b_pkt]. fold P.
      set (fo := it_iph it + FLAGS_OFF).
      set (head' := if it_psh new then put_byte P fo (N.lor (byte_at P fo) PSH) else P).
      assert (Hfo : fo + 1 <= len P) by (unfold fo, FLAGS_OFF, tun_tcpFlagsOffset; lia).
      assert (Hh1 : len head' = len P).
      { unfold head'. destruct (it_psh new); [|reflexivity]. unfold put_byte. apply len_put_bytes. cbn [len length N.of_nat]. lia. }
      split.
      * eapply (hdr_facts_same _ _ _ (it_iph it + it_tcph it)); [| |exact Hh]; [rewrite Hiph; destruct (it_v6 it); lia|].
        intros q Hq Hq13. rewrite byte_at_app_l by lia. unfold head'. destruct (it_psh new); [|reflexivity].
        unfold put_byte. apply byte_at_put_bytes_other; [cbn [len length N.of_nat]; lia|].
        cbn [len length N.of_nat]. unfold fo, FLAGS_OFF, tun_tcpFlagsOffset. rewrite Hiph. destruct (it_v6 it); lia.
      * rewrite len_app, Hh1, len_drop. rewrite <- Ht, <- Hi in *. lia.
    + destruct (tcp_can_prepend_facts _ _ _ _ _ _ _ _ Hcan) as [Ht _].
      cbn [is_prepend] in *. rewrite Hb'. unfold tcp_merge_bufs. cbn [is_prepend].
      rewrite get_set_buf_same by (rewrite set_buf_length; exact Hlt). cbn [with_pkt b_pkt]. fold P.
      set (pkt' := if it_psh it then put_byte pkt (it_iph it + FLAGS_OFF) (N.lor (byte_at pkt (it_iph it + FLAGS_OFF)) PSH) else pkt).
      assert (Hpl : it_iph it + it_tcph it <= len pkt) by (rewrite Hi, <- Ht; exact Hfl).
      assert (Lp : len pkt' = len pkt).
      { unfold pkt'. destruct (it_psh it); [|reflexivity]. unfold put_byte. apply len_put_bytes. unfold FLAGS_OFF, tun_tcpFlagsOffset. cbn [len length N.of_nat]. lia. }
      split.
      * rewrite Hv, <- Ht. eapply (hdr_facts_same _ _ _ (it_iph it + it_tcph it)); [| |exact Hfh]; [rewrite <- Hv, <- Hiph; lia|].
        intros q Hq Hq13. rewrite byte_at_app_l by (rewrite Lp; lia). unfold pkt'. destruct (it_psh it); [|reflexivity].
        unfold put_byte. apply byte_at_put_bytes_other; [unfold FLAGS_OFF, tun_tcpFlagsOffset; cbn [len length N.of_nat]; lia|].
        cbn [len length N.of_nat]. unfold FLAGS_OFF, tun_tcpFlagsOffset. rewrite <- Hv, <- Hiph in Hq13. lia.
      * rewrite len_app, Lp, len_drop. lia.
  - destruct Hm as [Hp [Hcan Hco]].
    destruct (coalesce_udp_success _ _ _ _ _ _ _ Hco) as [[Sk [Sv [Si [Sip [St Sm]]]]] [Hg' [Hb' Hroom]]].
    pose proof (coalesce_udp_bound _ _ _ _ _ _ _ Hco) as Hbound. fold P in Hbound.
    rewrite Sv, St, Hb'. rewrite get_set_buf_same by exact Hlt. cbn [with_pkt b_pkt]. fold P. fold P in Hroom.
    split.
    + eapply (hdr_facts_same _ _ _ (it_iph it + UDPH)); [| |exact Hh]; [rewrite Hiph; unfold UDPH, tun_udphLen in *; destruct (it_v6 it); lia|].
      intros q Hq _. apply byte_at_app_l. lia.
    + rewrite len_app, len_drop. lia.
Qed.

Lemma caps_set_buf off bufs x v : caps_ok off bufs -> b_cap v <= 65535 + 2 * off -> caps_ok off (set_buf bufs x v).
Proof.
  intros H Hv i. rewrite get_set_buf. destruct (_ =? _)%nat; [|apply H]. destruct (_ <? _)%nat; [exact Hv|apply H].
Qed.

Lemma merged_ok_caps tcp pkt k off v6 p it it' bufs bufs' :
  merged_ok tcp pkt k off v6 p it it' bufs bufs' -> caps_ok off bufs -> caps_ok off bufs'.
Proof.
  intros [new [_ [_ H]]] Hc. destruct tcp.
  - destruct H as [mode [_ [_ [_ H]]]]. destruct (coalesce_tcp_success _ _ _ _ _ _ _ _ _ _ _ _ H) as [_ [E _]]. rewrite E.
    unfold tcp_merge_bufs. destruct (is_prepend mode); repeat apply caps_set_buf; auto; cbn [with_pkt b_cap]; apply Hc.
  - destruct H as [_ [_ H]]. destruct (coalesce_udp_success _ _ _ _ _ _ _ H) as [_ [_ [E _]]]. rewrite E.
    apply caps_set_buf; auto. cbn [with_pkt b_cap]. apply Hc.
Qed.

Lemma step_caps off s i s' : step_spec_core off s i s' -> caps_ok off (s_bufs s) -> caps_ok off (s_bufs s').
Proof.
  intros [r [bufs' [tcp [v6 [_ [_ [_ [_ [_ [Hb [_ [PRE [L [SUF [L' [_ [_ Hm]]]]]]]]]]]]]]]]] Hc. rewrite Hb.
  destruct r as [| |j p].
  - destruct Hm as [-> _]. apply caps_set_buf; auto. cbn [with_hdr b_cap]. apply Hc.
  - destruct Hm as [-> _]. exact Hc.
  - destruct Hm as [n [it [it' [_ [_ [_ Hmo]]]]]]. eapply merged_ok_caps; eauto.
Qed.

Lemma caps_init off inp : (forall b, In b inp -> b_cap b <= 65535 + 2 * off) -> caps_ok off inp.
Proof.
  intros H i. unfold get_buf. destruct (nth_in_or_default (N.to_nat i) inp dummy_buf) as [Hi|Hi]; [apply H; exact Hi|rewrite Hi; cbn; lia].
Qed.

Lemma loop_inv_hdr udp off inp k (capsb : Prop) :
  (k <= length inp)%nat -> s_err (loop_k udp off inp k) = false ->
  allQ (item_ok2 inp capsb) (loop_k udp off inp k).
Proof.
  induction k as [|k IH]; intros Hk He.
  - intros tcp it H. destruct tcp; destruct H.
  - pose proof (loop_inv_all udp off inp k ltac:(lia)) as Hall.
    unfold loop_k in *. rewrite indices_S, fold_left_app in *. cbn [fold_left] in *. rewrite N.add_0_l in *.
    pose proof (err_sticky _ _ _ _ He) as He0. pose proof (IH ltac:(lia) He0) as IQ. destruct (Hall He0) as [I [I2 _]].
    destruct (gro_step_spec udp off _ (N.of_nat k) (i_kt _ _ _ I) (i_ku _ _ _ I) He0 (inv_range inp k _ (Nat.lt_le_incl _ _ Hk) I) He) as [bz [Hz [_ Hs]]].
    eapply (allQ_step inp off (item_ok2 inp capsb) (fun _ => True)); [| | |apply (inv_zero _ _ _ _ I Hz)|apply (i_nodup _ _ I2)|exact Logic.I|apply allQ_zero; [exact IQ|exact Hz]|exact Hs].
    + intros. eapply fresh_item_ok2; eauto.
    + intros. eapply merge_item_ok2; eauto.
    + lia.
Qed.

(* ------------------- the accounted packet: untouched bytes, length fields *)
Lemma acc_buf_bytes (tcp : bool) (it : item) (b : buf) :
  0 < it_merged it -> it_iph it = (if it_v6 it then 40 else 20) -> (if tcp return Prop then 20 <= it_tcph it else True) ->
  hl_of tcp it <= len (b_pkt b) -> len (b_pkt b) <= 65535 ->
  let P := b_pkt b in let F := b_pkt (acc_buf tcp it b) in
  byte_at F 0 = byte_at P 0 /\
  (if it_v6 it then byte_at F 6 = byte_at P 6 /\ be16 F 4 = len P - 40
   else byte_at F 6 = byte_at P 6 /\ byte_at F 7 = byte_at P 7 /\ byte_at F 9 = byte_at P 9 /\ be16 F 2 = len P) /\
  (if tcp then byte_at F (it_iph it + 12) = byte_at P (it_iph it + 12)
   else be16 F (it_iph it + 4) = len P - it_iph it).
Proof.
  intros Hm Hiph Ht Hl Hmax P F. subst F P. unfold acc_buf. destruct (N.ltb_spec 0 (it_merged it)); [|lia]. cbn [b_pkt].
  unfold hl_of in *. unfold UDPH, tun_udphLen in *.
  destruct tcp, (it_v6 it); rewrite Hiph in *; set (P := b_pkt b) in *.
  - set (p1 := put_be16 P 4 ((len P - 40) mod 65536)).
    assert (L1 : len p1 = len P) by (apply put_be16_len; lia).
    refine (conj _ (conj (conj _ _) _)).
    + rewrite byte_at_put_be16_other by lia. unfold p1. rewrite byte_at_put_be16_other by lia. reflexivity.
    + rewrite byte_at_put_be16_other by lia. unfold p1. rewrite byte_at_put_be16_other by lia. reflexivity.
    + rewrite be16_put_be16_other by lia. unfold p1. rewrite be16_put_be16_same by lia. apply N.mod_small. lia.
    + rewrite byte_at_put_be16_other by lia. unfold p1. rewrite byte_at_put_be16_other by lia. reflexivity.
  - set (p1 := put_bytes P 10 [0; 0]).
    assert (L1 : len p1 = len P) by (apply len_put_bytes; cbn [len length N.of_nat]; lia).
    set (p2 := put_be16 p1 2 (len P mod 65536)).
    assert (L2 : len p2 = len P) by (unfold p2; rewrite put_be16_len; lia).
    set (p3 := put_be16 p2 10 (cnot16 (checksum (take 20 p2) 0))).
    assert (L3 : len p3 = len P) by (unfold p3; rewrite put_be16_len; lia).
    assert (B : forall q, q < 2 \/ (4 <= q /\ q < 10) \/ (12 <= q /\ q < 36) ->
              byte_at (put_be16 p3 (20 + 16) (checksum [] (pseudo_sum IPPROTO_TCP (slice p3 tun_ipv4SrcAddrOffset (tun_ipv4SrcAddrOffset + 4))
                 (slice p3 (tun_ipv4SrcAddrOffset + 4) (tun_ipv4SrcAddrOffset + 4 * 2)) ((len P - 20) mod 65536)))) q = byte_at P q).
    { intros q Hq. rewrite byte_at_put_be16_other by lia. unfold p3. rewrite byte_at_put_be16_other by lia.
      unfold p2. rewrite byte_at_put_be16_other by lia. unfold p1. apply byte_at_put_bytes_other; cbn [len length N.of_nat]; lia. }
    refine (conj _ (conj (conj _ (conj _ (conj _ _))) _)); try (apply B; lia).
    rewrite be16_put_be16_other by lia. unfold p3. rewrite be16_put_be16_other by lia. unfold p2.
    rewrite be16_put_be16_same by lia. apply N.mod_small. lia.
  - set (p1 := put_be16 P 4 ((len P - 40) mod 65536)).
    assert (L1 : len p1 = len P) by (apply put_be16_len; lia).
    set (p2 := put_be16 p1 (40 + 4) ((len P - 40) mod 65536)).
    assert (L2 : len p2 = len P) by (unfold p2; rewrite put_be16_len; lia).
    refine (conj _ (conj (conj _ _) _)).
    + rewrite byte_at_put_be16_other by lia. unfold p2. rewrite byte_at_put_be16_other by lia. unfold p1. rewrite byte_at_put_be16_other by lia. reflexivity.
    + rewrite byte_at_put_be16_other by lia. unfold p2. rewrite byte_at_put_be16_other by lia. unfold p1. rewrite byte_at_put_be16_other by lia. reflexivity.
    + rewrite be16_put_be16_other by lia. unfold p2. rewrite be16_put_be16_other by lia. unfold p1. rewrite be16_put_be16_same by lia. apply N.mod_small. lia.
    + rewrite be16_put_be16_other by lia. unfold p2. rewrite be16_put_be16_same by lia. apply N.mod_small. lia.
  - set (p1 := put_bytes P 10 [0; 0]).
    assert (L1 : len p1 = len P) by (apply len_put_bytes; cbn [len length N.of_nat]; lia).
    set (p2 := put_be16 p1 2 (len P mod 65536)).
    assert (L2 : len p2 = len P) by (unfold p2; rewrite put_be16_len; lia).
    set (p3 := put_be16 p2 10 (cnot16 (checksum (take 20 p2) 0))).
    assert (L3 : len p3 = len P) by (unfold p3; rewrite put_be16_len; lia).
    set (p4 := put_be16 p3 (20 + 4) ((len P - 20) mod 65536)).
    assert (L4 : len p4 = len P) by (unfold p4; rewrite put_be16_len; lia).
    assert (B : forall q, q < 2 \/ (4 <= q /\ q < 10) \/ (12 <= q /\ q < 24) ->
              byte_at (put_be16 p4 (20 + 6) (checksum [] (pseudo_sum IPPROTO_UDP (slice p4 tun_ipv4SrcAddrOffset (tun_ipv4SrcAddrOffset + 4))
                 (slice p4 (tun_ipv4SrcAddrOffset + 4) (tun_ipv4SrcAddrOffset + 4 * 2)) ((len P - 20) mod 65536)))) q = byte_at P q).
    { intros q Hq. rewrite byte_at_put_be16_other by lia. unfold p4. rewrite byte_at_put_be16_other by lia.
      unfold p3. rewrite byte_at_put_be16_other by lia.
      unfold p2. rewrite byte_at_put_be16_other by lia. unfold p1. apply byte_at_put_bytes_other; cbn [len length N.of_nat]; lia. }
    refine (conj _ (conj (conj _ (conj _ (conj _ _))) _)); try (apply B; lia).
    + rewrite be16_put_be16_other by lia. unfold p4. rewrite be16_put_be16_other by lia. unfold p3. rewrite be16_put_be16_other by lia. unfold p2.
      rewrite be16_put_be16_same by lia. apply N.mod_small. lia.
    + rewrite be16_put_be16_other by lia. unfold p4. rewrite be16_put_be16_same by lia. apply N.mod_small. lia.
Qed.

Lemma chunks_two n l : 1 <= n -> (2 <= length (chunks n l))%nat -> n < len l.
Proof.
  intros Hn H. destruct (N.lt_ge_cases n (len l)) as [|Hle]; [assumption|]. exfalso.
  destruct l as [|x l'] eqn:E; [rewrite chunks_nil in H; cbn in H; lia|].
  rewrite chunks_small in H; [cbn in H; lia|exact Hn|]. rewrite <- E in *. split; [|exact Hle].
  rewrite E. unfold len. cbn [length]. lia.
Qed.

Lemma l3_parse_of_facts tcp v6 tcph F :
  hdr_facts tcp v6 tcph F -> (if v6 then 40 else 20) <= len F ->
  l3_parse F = Some (v6, (if v6 then 40 else 20), (if tcp then 6 else 17), false).
Proof.
  intros [F1 [F2 [F3 _]]] Hl. unfold l3_parse. rewrite F1. destruct v6.
  - cbn [N.eqb Pos.eqb]. destruct (N.leb_spec 40 (len F)); [|lia]. cbn [andb]. rewrite F3. reflexivity.
  - destruct (F2 eq_refl) as [G1 [G2 G3]]. cbn [N.eqb Pos.eqb]. rewrite G1, G2, G3, F3.
    change (5 * 4) with 20. destruct (N.ltb_spec (len F) 20); [lia|]. reflexivity.
Qed.

(* ------------------- theorem: descriptor and length fields *)
(* Every coalesced buffer is at most 65535 bytes long (the 65535 guard) and
   carries a well-formed descriptor (flags, type, hdr_len, csum_start/offset,
   gso_size) and correct IP / UDP length fields. *)
Theorem gro_descriptor_lengths_valid : forall (canUDP : bool) (offset : N) (bufs : list buf) (j : N),
  let s := handle_gro canUDP offset bufs in
  s_err s = false -> merged_into (s_trace s) j ->
  descriptor_ok (get_buf (s_bufs s) j) = true /\ lengths_ok (get_buf (s_bufs s) j) = true.
Proof.
  intros udp off inp j s He. subst s. unfold handle_gro in *. rewrite gro_loop_is in *.
  set (s0 := loop_k udp off inp (length inp)) in *.
  assert (He0 : s_err s0 = false) by (destruct (s_err s0) eqn:E; [cbn iota in He; congruence|reflexivity]).
  rewrite He0 in *. cbn [s_trace s_tw s_bufs]. intros Hmj.
  destruct (loop_inv_all udp off inp (length inp) (le_n _) He0) as [I [I2 I3]]. fold s0 in I, I2, I3.
  pose proof (loop_inv_hdr udp off inp (length inp) True (le_n _) He0) as IQ. fold s0 in IQ.
  destruct (i_cover _ I3 j Hmj) as [tcp [it [Hin Hidx]]].
  pose proof (sel_total_in _ _ _ Hin) as Hint.
  destruct (i_items _ _ _ I it Hint) as [Htw _].
  destruct (IQ tcp it Hin) as [[Hhl [Hg1 [Hiph [Hhd [Htc [Hmz [Hml Hch]]]]]]] [Hhf Hlen]].
  destruct (i_bounds _ I3 tcp it Hin) as [Bg Bh].
  pose proof (members_length_merged _ _ Hmj) as Hlen2.
  rewrite Hidx in *.
  assert (Hmpos : 0 < it_merged it) by (unfold len in Hml; lia).
  assert (Hjlt : (N.to_nat j < length (s_bufs s0))%nat).
  { rewrite (i_tw _ _ _ I) in Htw. apply tw_of_bound in Htw. rewrite (i_tr _ _ _ I) in Htw. rewrite (i_len _ _ _ I). lia. }
  assert (Hfin : get_buf (account false (account true (s_bufs s0) (s_tcp s0)) (s_udp s0)) j = acc_buf tcp it (get_buf (s_bufs s0) j)).
  { rewrite !account_flat. pose proof (i_nodup _ _ I2) as Hn.
    destruct tcp; unfold sel in Hin.
    - rewrite fold_account_other.
      + rewrite <- Hidx. apply fold_account_get; [apply (sel_nodup s0 true Hn)|exact Hin|rewrite Hidx; exact Hjlt].
      + intros y Hy E. apply (sel_cross_idx s0 true it y Hn Hin Hy). congruence.
    - rewrite <- Hidx. rewrite fold_account_get; [|apply (sel_nodup s0 false Hn)|exact Hin|rewrite fold_account_length, Hidx; exact Hjlt].
      rewrite fold_account_other; [reflexivity|].
      intros y Hy E. apply (sel_cross_idx s0 false it y Hn Hin Hy). congruence. }
  rewrite Hfin.
  set (B := get_buf (s_bufs s0) j) in *. set (P := b_pkt B) in *.
  destruct (acc_buf_payload tcp it B Hmpos Hiph Htc Hhl) as [Hd [Hl Hh]].
  pose proof (acc_buf_bytes tcp it B Hmpos Hiph Htc Hhl Hlen) as Hb. cbn zeta in Hb. fold P in Hb, Hl, Hd.
  set (F := b_pkt (acc_buf tcp it B)) in *.
  (* the classified header survives the accounting *)
  assert (HhF : hdr_facts tcp (it_v6 it) (it_tcph it) F).
  { destruct Hb as [B0 [B1 B2]]. destruct Hhf as [F1 [F2 [F3 F4]]]. unfold hdr_facts.
    rewrite B0. destruct (it_v6 it).
    - destruct B1 as [B6 _]. rewrite B6. refine (conj F1 (conj _ (conj F3 _))); [discriminate|].
      intros ->. rewrite Hiph in B2. rewrite B2. apply F4. reflexivity.
    - destruct B1 as [B6 [B7 [B9 _]]]. rewrite B6, B7, B9. refine (conj F1 (conj F2 (conj F3 _))).
      intros ->. rewrite Hiph in B2. rewrite B2. apply F4. reflexivity. }
  assert (Hiphl : (if it_v6 it then 40 else 20) <= len F).
  { rewrite Hl. rewrite <- Hiph. unfold hl_of in Hhl. lia. }
  pose proof (l3_parse_of_facts _ _ _ _ HhF Hiphl) as Hparse.
  assert (Hgt : it_gso it < len P - hl_of tcp it).
  { rewrite <- len_drop. apply chunks_two; [exact Hg1|]. rewrite Hch, map_length. exact Hlen2. }
  assert (Hdec : dec_vhdr (b_hdr (acc_buf tcp it B)) =
                 {| v_flags := VIRTIO_NET_HDR_F_NEEDS_CSUM;
                    v_gso := if tcp then (if it_v6 it then GSO_TCPV6 else GSO_TCPV4) else GSO_UDP_L4;
                    v_hdrlen := hl_of tcp it; v_gsosize := it_gso it; v_cstart := it_iph it; v_coff := if tcp then 16 else 6 |}).
  { rewrite Hh. apply dec_enc_vhdr; [lia|lia| |destruct tcp; lia]. rewrite Hiph. destruct (it_v6 it); lia. }
  split.
  - unfold descriptor_ok. fold F. rewrite Hdec, Hparse, Hh. cbn [v_flags v_gso v_hdrlen v_gsosize v_cstart v_coff].
    destruct HhF as [_ [_ [_ F4]]].
    assert (E1 : (len (enc_vhdr VIRTIO_NET_HDR_F_NEEDS_CSUM (if tcp then if it_v6 it then GSO_TCPV6 else GSO_TCPV4 else GSO_UDP_L4)
                        (hl_of tcp it) (it_gso it) (it_iph it) (if tcp then 16 else 6)) =? VH) = true) by reflexivity.
    rewrite E1. rewrite Hl. unfold hl_of in *. rewrite Hiph in *.
    destruct tcp.
    + rewrite (F4 eq_refl). destruct (it_v6 it); cbn [N.eqb Pos.eqb negb andb orb];
        rewrite ?N.eqb_refl; cbn [andb]; apply andb_true_iff; split; [apply N.leb_le|apply N.ltb_lt|apply N.leb_le|apply N.ltb_lt]; lia.
    + unfold UDPH, tun_udphLen in *. destruct (it_v6 it); cbn [N.eqb Pos.eqb negb andb orb];
        rewrite ?N.eqb_refl; cbn [andb]; apply andb_true_iff; split; [apply N.leb_le|apply N.ltb_lt|apply N.leb_le|apply N.ltb_lt]; lia.
  - unfold lengths_ok. fold F. rewrite Hparse, Hl.
    destruct (N.leb_spec (len P) 65535); [|lia]. cbn [andb].
    unfold l3_len, is_v6. destruct HhF as [F1 _]. rewrite F1.
    destruct Hb as [_ [B1 B2]]. destruct (it_v6 it); cbn [N.eqb Pos.eqb].
    + destruct B1 as [_ B4]. rewrite B4. unfold hl_of in Hhl. rewrite Hiph in *.
      replace (len P - 40 + 40) with (len P) by lia. rewrite N.eqb_refl. cbn [andb].
      destruct tcp; [reflexivity|]. cbn [N.eqb Pos.eqb]. rewrite B2, N.eqb_refl. reflexivity.
    + destruct B1 as [_ [_ [_ B4]]]. rewrite B4, N.eqb_refl. cbn [andb]. rewrite Hiph in *.
      destruct tcp; [reflexivity|]. cbn [N.eqb Pos.eqb]. rewrite B2, N.eqb_refl. reflexivity.
Qed.

(* ------------------------------- passthrough in full (after fix b918254) *)
(* a written buffer nothing was merged into has a zero header already, or is still an item's
   buffer (and then the accounting pass zeroes it) *)
Definition pass_inv (s : state) : Prop :=
  forall j, In j (s_tw s) -> ~ merged_into (s_trace s) j ->
    b_hdr (get_buf (s_bufs s) j) = zero_vhdr \/ exists it, In it (total s) /\ it_idx it = j.

Lemma pass_inv_step inp off k s s' :
  (k < length inp)%nat -> Inv inp k s -> pass_inv s -> step_spec off s (N.of_nat k) s' -> pass_inv s'.
Proof.
  intros Hk I Hp [bz [Hz [Hd Hcore]]].
  pose proof (inv_zero _ _ _ _ I Hz) as Iz.
  destruct Hcore as [r [bufs' [tcp [v6 [Hkt [Hku [He [Htr [Htw [Hb [Hoth [PRE [L [SUF [L' [Esel [Hsubz Hm]]]]]]]]]]]]]]]]].
  cbn [with_bufs s_bufs s_trace s_tw s_tcp s_udp] in *.
  assert (Hlenz : length bz = length inp) by (rewrite (proj1 Hz); apply (i_len _ _ _ I)).
  intros j Hj Hnm. rewrite Htw in Hj. apply in_app_or in Hj.
  assert (Hnm0 : ~ merged_into (s_trace s) j) by (intros H; apply Hnm; rewrite Htr; apply merged_into_app; exact H).
  destruct Hj as [Hj|Hj].
  - (* an index written earlier *)
    assert (Hjk : j <> N.of_nat k).
    { rewrite (i_tw _ _ _ I) in Hj. apply tw_of_bound in Hj. rewrite (i_tr _ _ _ I) in Hj. lia. }
    assert (Hzj : b_hdr (get_buf bz j) = zero_vhdr \/ exists y, In y (total s') /\ it_idx y = j).
    { destruct (Hp j Hj Hnm0) as [H0|[x [Hx Ex]]].
      - left. destruct (proj2 Hz j) as [E|[_ E]]; rewrite E; [exact H0|reflexivity].
      - destruct (Hd x Hx) as [[y [Hy Ey]]|H0]; [right; exists y; split; [exact Hy|congruence]|left; rewrite <- Ex; exact H0]. }
    destruct Hzj as [H0|Hy]; [left|right; exact Hy].
    rewrite Hb. destruct r as [| |j0 p].
    + destruct Hm as [-> _]. rewrite get_set_buf_other by exact Hjk. exact H0.
    + destruct Hm as [-> _]. exact H0.
    + destruct Hm as [n [it [it' [Hn [Hj0 [_ Hmo]]]]]].
      assert (j <> it_idx it). { intros ->. apply Hnm. rewrite Htr, Hj0. exists p. apply in_or_app. right. left. reflexivity. }
      rewrite (merged_ok_frame _ _ _ _ _ _ _ _ _ _ j Hmo) by auto. exact H0.
  - (* the packet of this step *)
    destruct r as [| |j0 p]; cbn [is_coal] in Hj; [| |destruct Hj].
    + destruct Hj as [<-|[]]. left. rewrite Hb. destruct Hm as [-> _].
      rewrite get_set_buf_same by (rewrite Hlenz; lia). reflexivity.
    + destruct Hj as [<-|[]]. right. destruct Hm as [_ [new [Hf E']]]. exists new. split; [|apply Hf].
      apply (sel_total_in tcp). rewrite E'. apply in_or_app. right. apply in_or_app. left. apply in_or_app. right. left. reflexivity.
Qed.

Lemma loop_pass_inv udp off inp k : (k <= length inp)%nat -> s_err (loop_k udp off inp k) = false -> pass_inv (loop_k udp off inp k).
Proof.
  induction k as [|k IH]; intros Hk He.
  - intros j [].
  - pose proof (loop_inv udp off inp k ltac:(lia)) as HI.
    unfold loop_k in *. rewrite indices_S, fold_left_app in *. cbn [fold_left] in *. rewrite N.add_0_l in *.
    pose proof (err_sticky _ _ _ _ He) as He0. specialize (IH ltac:(lia) He0). specialize (HI He0).
    eapply pass_inv_step; [|exact HI|exact IH|]; [lia|].
    apply gro_step_spec; auto; [apply (i_kt _ _ _ HI)|apply (i_ku _ _ _ HI)|apply (inv_range inp k _ (Nat.lt_le_incl _ _ Hk) HI)].
Qed.

Lemma account_items_zero tcp items : forall bufs j it,
  In it items -> it_idx it = j -> (N.to_nat j < length bufs)%nat ->
  (forall x, In x items -> it_idx x = j -> it_merged x = 0) ->
  b_hdr (get_buf (fold_left (account_item tcp) items bufs) j) = zero_vhdr.
Proof.
  induction items as [|x items IH]; intros bufs j it Hin Hidx Hlt Hz; [destruct Hin|]. cbn [fold_left].
  destruct Hin as [->|Hin].
  - pose proof (account_items_pass tcp items (account_item tcp bufs it) j (fun y Hy => Hz y (or_intror Hy))) as [_ [_ Hh]].
    assert (E : b_hdr (get_buf (account_item tcp bufs it) j) = zero_vhdr).
    { unfold account_item. rewrite (Hz it (or_introl eq_refl) Hidx). cbn [N.ltb N.compare]. rewrite Hidx.
      rewrite get_set_buf_same by exact Hlt. reflexivity. }
    destruct Hh as [Hh|Hh]; [rewrite Hh; exact E|exact Hh].
  - apply (IH _ j it Hin Hidx); [rewrite account_item_length; exact Hlt|]. intros y Hy. apply Hz. right. exact Hy.
Qed.

(* A written buffer nothing was merged into leaves with its packet unchanged and an all-zero virtio header. *)
Theorem gro_passthrough : forall (canUDP : bool) (offset : N) (bufs : list buf) (j : N),
  let s := handle_gro canUDP offset bufs in
  s_err s = false -> In j (s_tw s) -> ~ merged_into (s_trace s) j ->
  b_pkt (get_buf (s_bufs s) j) = b_pkt (get_buf bufs j) /\ b_hdr (get_buf (s_bufs s) j) = zero_vhdr.
Proof.
  intros udp off inp j s He Hj Hnm.
  split; [apply (gro_passthrough_partial udp off inp j He Hj Hnm)|].
  subst s. unfold handle_gro in *. rewrite gro_loop_is in *.
  set (s0 := loop_k udp off inp (length inp)) in *.
  assert (He0 : s_err s0 = false) by (destruct (s_err s0) eqn:E; [cbn iota in He; congruence|reflexivity]).
  rewrite He0 in *. cbn [s_trace s_tw s_bufs] in *.
  pose proof (loop_inv udp off inp (length inp) (le_n _) He0) as I. fold s0 in I.
  pose proof (loop_pass_inv udp off inp (length inp) (le_n _) He0) as Hp. fold s0 in Hp.
  assert (Hz : forall it, In it (total s0) -> it_idx it = j -> it_merged it = 0).
  { intros it Hi E. destruct (i_items _ _ _ I it Hi) as [_ H]. destruct (N.eq_dec (it_merged it) 0) as [|Hne]; [assumption|].
    exfalso. apply Hnm. rewrite <- E. apply H. lia. }
  assert (Hjlt : (N.to_nat j < length (s_bufs s0))%nat).
  { rewrite (i_tw _ _ _ I) in Hj. apply tw_of_bound in Hj. rewrite (i_tr _ _ _ I) in Hj. rewrite (i_len _ _ _ I). lia. }
  rewrite !account_flat.
  set (b1 := fold_left (account_item true) (all_items (s_tcp s0)) (s_bufs s0)).
  assert (L1 : length b1 = length (s_bufs s0)) by apply fold_account_length.
  pose proof (account_items_pass true (all_items (s_tcp s0)) (s_bufs s0) j (fun it Hi => Hz it (in_or_app _ _ _ (or_introl Hi)))) as R1. fold b1 in R1.
  pose proof (account_items_pass false (all_items (s_udp s0)) b1 j (fun it Hi => Hz it (in_or_app _ _ _ (or_intror Hi)))) as R2.
  destruct (Hp j Hj Hnm) as [H0|[it [Hit Eit]]].
  - destruct R1 as [_ [_ R1]]. destruct R2 as [_ [_ R2]].
    destruct R2 as [R2|R2]; [rewrite R2|exact R2]. destruct R1 as [R1|R1]; [rewrite R1; exact H0|exact R1].
  - unfold total in Hit. apply in_app_or in Hit as [Hit|Hit].
    + assert (E1 : b_hdr (get_buf b1 j) = zero_vhdr).
      { apply (account_items_zero true _ _ j it Hit Eit Hjlt). intros x Hx. apply Hz. apply in_or_app. auto. }
      destruct R2 as [_ [_ [R2|R2]]]; [rewrite R2; exact E1|exact R2].
    + apply (account_items_zero false _ _ j it Hit Eit); [rewrite L1; exact Hjlt|]. intros x Hx. apply Hz. apply in_or_app. auto.
Qed.
