(* The clauses of holdsb as one boolean theorem (all but UDP order). *)
From WG Require Import Base.Prelude Gen.Constants Gro.Bytes Gro.Model Gro.KernelSpec Gro.Spec Gro.Proofs Gro.Csum Gro.Headers Gro.HeadersTcp Gro.Lossless.
From Coq Require Import Permutation.
Local Open Scope N_scope.

Definition holdsb_core (inp : list buf) (tw : list N) (out : list buf) : bool :=
  bookkeeping_ok inp tw out && passthrough_ok inp tw out && floweq_ok inp tw out && headers_valid_ok tw out.

Lemma nodupb_complete l : NoDup l -> nodupb l = true.
Proof.
  induction 1 as [|x l Hx Hn IH]; cbn [nodupb]; [reflexivity|]. rewrite IH, andb_true_r.
  destruct (existsb (N.eqb x) l) eqn:E; [|reflexivity]. exfalso. apply existsb_exists in E as [y [Hy Ey]].
  apply N.eqb_eq in Ey. subst. contradiction.
Qed.

Lemma remove_first_length x l l' : remove_first x l = Some l' -> length l = S (length l').
Proof.
  revert l'; induction l as [|y l IH]; intros l' H; cbn [remove_first] in H; [discriminate|].
  destruct (list_eqb x y); [inversion H; reflexivity|].
  destruct (remove_first x l) as [r|] eqn:E; [|discriminate]. inversion H; subst. cbn [length]. rewrite (IH r eq_refl). reflexivity.
Qed.
Lemma perm_eqb_length a : forall b, perm_eqb a b = true -> length a = length b.
Proof.
  induction a as [|x a IH]; intros b H; cbn [perm_eqb] in H.
  - destruct b; [reflexivity|discriminate].
  - destruct (remove_first x b) as [b'|] eqn:E; [|discriminate]. rewrite (remove_first_length _ _ _ E). cbn [length]. rewrite (IH _ H). reflexivity.
Qed.

Lemma forallb_filter_map {A} (P : buf -> bool) (g : A -> buf) (l : list A) :
  (forall j, In j l -> is_gso (g j) = true -> P (g j) = true) -> forallb P (filter is_gso (map g l)) = true.
Proof.
  induction l as [|x l IH]; intros H; cbn [map filter forallb]; [reflexivity|].
  destruct (is_gso (g x)) eqn:E; cbn [forallb]; [rewrite H by (auto; left; reflexivity); cbn [andb]|];
    apply IH; intros j Hj; apply H; right; exact Hj.
Qed.

Theorem gro_holds_core : forall (canUDP : bool) (offset : N) (bufs : list buf),
  bytes_ok bufs ->
  let s := handle_gro canUDP offset bufs in
  s_err s = false ->
  holdsb_core bufs (s_tw s) (s_bufs s) = true.
Proof.
  intros udp off inp Hbytes s He.
  pose proof (gro_bookkeeping udp off inp He) as [Hlen [Hnd [Hbound Htrace]]]. fold s in Hlen, Hnd, Hbound, Htrace.
  pose proof (gro_lossless udp off inp Hbytes He) as Hflow. fold s in Hflow.
  (* a written buffer is either merged into (GSO header) or passed through with a zero header *)
  assert (Hcase : forall j, In j (s_tw s) ->
            (merged_into (s_trace s) j /\ is_gso (get_buf (s_bufs s) j) = true) \/
            (~ merged_into (s_trace s) j /\ b_hdr (get_buf (s_bufs s) j) = zero_vhdr /\
             b_pkt (get_buf (s_bufs s) j) = b_pkt (get_buf inp j))).
  { intros j Hj. destruct (merged_dec (s_trace s) j) as [Hm|Hm].
    - left. split; [exact Hm|]. destruct (gro_payloads_lossless udp off inp j He Hm) as [_ [_ [Hg _]]]. fold s in Hg.
      unfold is_gso. destruct (N.eqb_spec (v_gso (dec_vhdr (b_hdr (get_buf (s_bufs s) j)))) K_GSO_NONE); [contradiction|reflexivity].
    - right. destruct (gro_passthrough udp off inp j He Hj Hm) as [Hp Hh]. fold s in Hp, Hh. auto. }
  assert (Hgso : forall j, In j (s_tw s) -> is_gso (get_buf (s_bufs s) j) = true -> merged_into (s_trace s) j).
  { intros j Hj Hg. destruct (Hcase j Hj) as [[Hm _]|[_ [Hz _]]]; [exact Hm|]. unfold is_gso in Hg. rewrite Hz in Hg. discriminate. }
  unfold holdsb_core. rewrite Hflow, andb_true_r.
  apply andb_true_iff. split; [apply andb_true_iff; split|].
  - (* bookkeeping *)
    unfold bookkeeping_ok. rewrite (nodupb_complete _ Hnd). cbn [andb]. apply andb_true_iff. split.
    + apply forallb_forall. intros j Hj. apply N.ltb_lt. apply Hbound. exact Hj.
    + apply Nat.eqb_eq. unfold floweq_ok, floweq_gen in Hflow. apply perm_eqb_length in Hflow. rewrite !map_length in Hflow. exact Hflow.
  - (* passthrough *)
    unfold passthrough_ok. apply forallb_forall. intros j Hj.
    destruct (Hcase j Hj) as [[_ Hg]|[_ [Hz Hp]]]; [rewrite Hg; reflexivity|].
    rewrite Hz, Hp, list_eqb_refl. apply orb_true_iff. right. reflexivity.
  - (* headers *)
    unfold headers_valid_ok, descriptors_ok, lengths_all_ok, checksums_ok, gso_buffers, written.
    apply andb_true_iff. split; [apply andb_true_iff; split|]; apply forallb_filter_map; intros j Hj Hg; pose proof (Hgso j Hj Hg) as Hm.
    + apply (gro_descriptor_lengths_valid udp off inp j He Hm).
    + apply (gro_descriptor_lengths_valid udp off inp j He Hm).
    + apply (gro_segment_checksums_valid udp off inp j He Hm).
Qed.
Print Assumptions gro_holds_core.

(* holdsb (written with shared sub-computations) is the conjunction of the six clauses *)
Lemma csums_ok2_eq wr : csums_ok2 wr (map (fun b => kernel_segment (b_hdr b) (b_pkt b)) wr) =
  forallb (fun b => forallb (fun s => ip_csum_ok s && l4_csum_ok s) (kernel_segment (b_hdr b) (b_pkt b))) (filter is_gso wr).
Proof.
  induction wr as [|b wr IH]; cbn [map csums_ok2 filter forallb]; [reflexivity|].
  rewrite IH. destruct (is_gso b); cbn [negb orb forallb]; reflexivity.
Qed.
Lemma remove_first_sound x l l' : remove_first x l = Some l' -> Permutation l (x :: l').
Proof.
  revert l'; induction l as [|y l IH]; intros l' H; cbn [remove_first] in H; [discriminate|].
  destruct (list_eqb x y) eqn:E.
  - apply list_eqb_eq in E. inversion H; subst. apply Permutation_refl.
  - destruct (remove_first x l) as [r|] eqn:Er; [|discriminate]. inversion H; subst.
    eapply perm_trans; [apply perm_skip; apply (IH r eq_refl)|apply perm_swap].
Qed.
Lemma perm_eqb_sound a : forall b, perm_eqb a b = true -> Permutation a b.
Proof.
  induction a as [|x a IH]; intros b H; cbn [perm_eqb] in H.
  - destruct b; [apply perm_nil|discriminate].
  - destruct (remove_first x b) as [b'|] eqn:E; [|discriminate].
    eapply perm_trans; [apply perm_skip; apply (IH _ H)|apply Permutation_sym; apply (remove_first_sound _ _ _ E)].
Qed.
(* clause 6 implies clause 3 *)
Lemma csum_kept_floweq inp tw out : csum_kept_ok inp tw out = true -> floweq_ok inp tw out = true.
Proof.
  unfold csum_kept_ok, csum_kept_gen, floweq_ok, floweq_gen. fold canon. intros H. apply perm_eqb_sound in H.
  apply (Permutation_map (fun l => tl (tl l))) in H. rewrite !map_map in H. cbn [canonv_gen tl] in H.
  apply perm_eqb_complete. exact H.
Qed.
Theorem holdsb_clauses inp tw out :
  holdsb inp tw out = bookkeeping_ok inp tw out && passthrough_ok inp tw out && floweq_ok inp tw out
                      && udp_order_ok inp tw out && headers_valid_ok tw out && csum_kept_ok inp tw out.
Proof.
  assert (E : holdsb inp tw out = bookkeeping_ok inp tw out && passthrough_ok inp tw out
                      && udp_order_ok inp tw out && headers_valid_ok tw out && csum_kept_ok inp tw out).
  { unfold holdsb, csum_kept_ok, csum_kept_gen, canonv, bookkeeping_ok, udp_order_ok, udp_order_gen, udp_order_segs, headers_valid_ok,
      descriptors_ok, lengths_all_ok, checksums_ok, gso_buffers, segments. cbv zeta.
    rewrite csums_ok2_eq, <- flat_map_concat_map. reflexivity. }
  rewrite E. destruct (csum_kept_ok inp tw out) eqn:K; [|rewrite !andb_false_r; reflexivity].
  rewrite (csum_kept_floweq _ _ _ K), !andb_true_r. reflexivity.
Qed.
