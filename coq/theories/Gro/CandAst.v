(* Deep-embedded mini-language for the two pure header predicates of tun/offload_linux.go
   (packetIsGROCandidate, ipHeadersCanCoalesce) and an executable interpreter.  The terms are produced from the
   Go SOURCE by harness/cmd/groast (Gen/GroAst.v); Gro/CandAstProofs.v proves interpreter = Gro/Model.v
   (classify, ip_headers_can_coalesce) for all inputs.  No proofs here.

   Semantics (a trusted reading of Go):
   - numbers are N.  The only values that occur are len(x) (int, non-negative), x[i] (uint8) and untyped
     constants; the only arithmetic the translator emits is `>>` and `&` (N.shiftr, N.land), which cannot leave
     the range of the left operand, so no wrap-around is modelled.
   - EIdx x i = x[i]: None (Go panics) unless i < len(x).  Slices are read only.
   - EPkgConst p n = a constant of another package (p.n); resolved by [pkg_const] below, None when not listed.
   - BAnd / BOr are short-circuit, left to right, like && and || (this matters: the right operand may index).
   - BVar x = a bool parameter.
   - SReturnN e / SReturnB c = return of a number (a named constant of the result type, emitted as its value)
     / of a condition.  A body that falls off its end yields Some None (does not happen for a Go function
     that compiles; the run_* wrappers turn it into None).
   - EUnknown / BUnknown / SUnknown, a read of an undeclared name: None. *)
From Coq Require Import String.
From WG Require Import Base.Prelude Gro.Bytes.
Local Open Scope N_scope.

Inductive binop := OShr | OAnd.
Inductive cmpop := CGe | CGt | CLe | CLt | CEq | CNe.

Inductive expr :=
| EConst (n : N)
| EPkgConst (pkg name : string)
| ELen (x : string)
| EIdx (x : string) (i : expr)
| EBin (o : binop) (a b : expr)
| EUnknown (what : string).

Inductive bexpr :=
| BTrue
| BFalse
| BVar (x : string)
| BCmp (o : cmpop) (a b : expr)
| BAnd (a b : bexpr)
| BOr (a b : bexpr)
| BNot (a : bexpr)
| BUnknown (what : string).

Inductive stmt :=
| SSkip
| SSeq (a b : stmt)
| SIf (c : bexpr) (t e : stmt)
| SReturnN (e : expr)
| SReturnB (c : bexpr)
| SUnknown (what : string).

Inductive value := VN (n : N) | VBool (b : bool).

Record env := { slices : list (string * list N); bools : list (string * bool) }.

Fixpoint lookup {A} (x : string) (e : list (string * A)) : option A :=
  match e with
  | [] => None
  | (y, v) :: t => if String.eqb x y then Some v else lookup x t
  end.

(* golang.org/x/sys/unix, linux: the two protocol numbers the functions mention *)
Definition pkg_const (pkg name : string) : option N :=
  if String.eqb pkg "unix" then
    if String.eqb name "IPPROTO_TCP" then Some 6
    else if String.eqb name "IPPROTO_UDP" then Some 17
    else None
  else None.

Definition binop_sem (o : binop) (a b : N) : N :=
  match o with OShr => N.shiftr a b | OAnd => N.land a b end.

Definition cmpop_sem (o : cmpop) (a b : N) : bool :=
  match o with
  | CGe => b <=? a | CGt => b <? a | CLe => a <=? b | CLt => a <? b
  | CEq => a =? b | CNe => negb (a =? b)
  end.

Fixpoint eval (s : env) (e : expr) : option N :=
  match e with
  | EConst n => Some n
  | EPkgConst p n => pkg_const p n
  | ELen x => match lookup x (slices s) with Some l => Some (len l) | None => None end
  | EIdx x i =>
      match lookup x (slices s), eval s i with
      | Some l, Some n => if n <? len l then Some (byte_at l n) else None
      | _, _ => None
      end
  | EBin o a b =>
      match eval s a, eval s b with
      | Some x, Some y => Some (binop_sem o x y)
      | _, _ => None
      end
  | EUnknown _ => None
  end.

Fixpoint evalb (s : env) (c : bexpr) : option bool :=
  match c with
  | BTrue => Some true
  | BFalse => Some false
  | BVar x => lookup x (bools s)
  | BCmp o a b =>
      match eval s a, eval s b with
      | Some x, Some y => Some (cmpop_sem o x y)
      | _, _ => None
      end
  | BAnd a b =>
      match evalb s a with
      | Some true => evalb s b
      | Some false => Some false
      | None => None
      end
  | BOr a b =>
      match evalb s a with
      | Some true => Some true
      | Some false => evalb s b
      | None => None
      end
  | BNot a => match evalb s a with Some v => Some (negb v) | None => None end
  | BUnknown _ => None
  end.

(* None: failure; Some None: fell through; Some (Some v): returned v *)
Fixpoint exec (s : env) (p : stmt) : option (option value) :=
  match p with
  | SSkip => Some None
  | SSeq a b =>
      match exec s a with
      | Some None => exec s b
      | r => r
      end
  | SIf c t e =>
      match evalb s c with
      | Some true => exec s t
      | Some false => exec s e
      | None => None
      end
  | SReturnN e => match eval s e with Some n => Some (Some (VN n)) | None => None end
  | SReturnB c => match evalb s c with Some v => Some (Some (VBool v)) | None => None end
  | SUnknown _ => None
  end.

(* packetIsGROCandidate(b []byte, canUDPGRO bool) groCandidateType *)
Definition run_cand (body : stmt) (b : list N) (canUDP : bool) : option N :=
  match exec {| slices := [("b"%string, b)]; bools := [("canUDPGRO"%string, canUDP)] |} body with
  | Some (Some (VN n)) => Some n
  | _ => None
  end.

(* ipHeadersCanCoalesce(pktA, pktB []byte) bool *)
Definition run_hdr (body : stmt) (a b : list N) : option bool :=
  match exec {| slices := [("pktA"%string, a); ("pktB"%string, b)]; bools := [] |} body with
  | Some (Some (VBool v)) => Some v
  | _ => None
  end.
