(* C16, clause 6 of holdsb (csum_kept_ok): a packet keeps its transport-checksum verdict.
   Every member of a coalesced buffer has been verified by the coalescer (item invariant item_v),
   the kernel's segments of a coalesced buffer verify (Csum.gro_segment_checksums_valid), packets
   that are passed through are byte-identical: the multiset of (verdict, compared bytes) is kept. *)
From WG Require Import Base.Prelude Gen.Constants Gro.Bytes Gro.Model Gro.KernelSpec Gro.Spec Gro.Proofs Gro.Csum Gro.Headers Gro.HeadersTcp Gro.Lossless Gro.Holds Gro.Order.
From WG Require Gro.Check.
From Coq Require Import Permutation.
Local Open Scope N_scope.

(* what a successful merge has verified *)
Lemma coalesce_udp_csum pkt it bufs off v6 it' bufs' :
  coalesce_udp pkt it bufs off v6 = (Success, it', bufs') ->
  checksum_valid pkt (it_iph it) IPPROTO_UDP v6 = true /\
  (it_merged it = 0 -> checksum_valid (b_pkt (get_buf bufs (it_idx it))) (it_iph it) IPPROTO_UDP v6 = true) /\
  it_merged it' = it_merged it + 1.
Proof.
  unfold coalesce_udp. destruct (tun_maxUint16 <? _); [discriminate|]. destruct (no_room _ _ _); [discriminate|].
  destruct (N.eqb_spec (it_merged it) 0) as [E0|E0]; cbn [andb].
  - destruct (it_bad it); cbn [orb]; [discriminate|].
    destruct (checksum_valid (b_pkt _) _ _ _); cbn [negb]; [|discriminate].
    destruct (checksum_valid pkt _ _ _); cbn [negb]; [|discriminate]. intros H; inversion H; subst. cbn. auto.
  - destruct (checksum_valid pkt _ _ _); cbn [negb]; [|discriminate]. intros H; inversion H; subst. cbn.
    repeat split; auto; intros; contradiction.
Qed.
Lemma coalesce_tcp_csum mode pkt pktI gso seq psh it bufs off v6 it' bufs' :
  coalesce_tcp mode pkt pktI gso seq psh it bufs off v6 = (Success, it', bufs') ->
  checksum_valid pkt (it_iph it) IPPROTO_TCP v6 = true /\
  (it_merged it = 0 -> checksum_valid (b_pkt (get_buf bufs (it_idx it))) (it_iph it) IPPROTO_TCP v6 = true) /\
  it_merged it' = it_merged it + 1.
Proof.
  unfold coalesce_tcp. destruct (tun_maxUint16 <? _); [discriminate|]. destruct mode.
  1,2: destruct (no_room _ _ _); [discriminate|];
       destruct (N.eqb_spec (it_merged it) 0) as [E0|E0]; cbn [andb];
       [destruct (checksum_valid (b_pkt _) _ _ _); cbn [negb]; [|discriminate]|];
       (destruct (checksum_valid pkt _ _ _); cbn [negb]; [|discriminate]); intros H; inversion H; subst; cbn;
       repeat split; auto; intros; contradiction.
  - destruct (no_room _ _ _); [discriminate|]. destruct psh; [discriminate|].
    destruct (N.eqb_spec (it_merged it) 0) as [E0|E0]; cbn [andb];
      [destruct (checksum_valid (b_pkt _) _ _ _); cbn [negb]; [|discriminate]|];
      (destruct (checksum_valid pkt _ _ _); cbn [negb]; [|discriminate]); intros H; inversion H; subst; cbn;
      repeat split; auto; intros; contradiction.
Qed.

Definition proto_of (tcp : bool) : N := if tcp then IPPROTO_TCP else IPPROTO_UDP.
(* an item nothing was merged into holds its input packet; every member of a merged item has been verified *)
Definition item_v (inp : list buf) (tcp : bool) (it : item) (P : list N) (mem : list N) : Prop :=
  (it_merged it = 0 -> exists m, mem = [m] /\ P = b_pkt (get_buf inp m)) /\
  (0 < it_merged it -> forall m, In m mem -> checksum_valid (b_pkt (get_buf inp m)) (it_iph it) (proto_of tcp) (it_v6 it) = true).
Definition item_ok5 (inp : list buf) (capsb : Prop) (tcp : bool) (it : item) (P : list N) (mem : list N) : Prop :=
  item_ok3 inp capsb tcp it P mem /\ item_v inp tcp it P mem.

Lemma fresh_item_ok5 inp (capsb : Prop) tcp pkt k v6 new :
  fresh_item tcp pkt k v6 new -> pkt = b_pkt (get_buf inp k) -> item_ok5 inp capsb tcp new pkt [k].
Proof.
  intros Hf Hp. split; [eapply fresh_item_ok3; eauto|]. destruct Hf as [_ [Hm _]]. split.
  - intros _. exists k. auto.
  - rewrite Hm. lia.
Qed.

Lemma merge_item_ok5 inp off (capsb : Prop) tcp pkt k v6 p it it' bufs bufs' mem :
  True ->
  merged_ok tcp pkt k off v6 p it it' bufs bufs' ->
  pkt = b_pkt (get_buf inp k) -> b_pkt (get_buf bufs k) = pkt ->
  it_idx it <> k -> (N.to_nat (it_idx it) < length bufs)%nat ->
  item_ok5 inp capsb tcp it (b_pkt (get_buf bufs (it_idx it))) mem ->
  item_ok5 inp capsb tcp it' (b_pkt (get_buf bufs' (it_idx it))) (if p then k :: mem else mem ++ [k]).
Proof.
  intros HC Hmo Hpk Hbk Hne Hlt [Hok3 [Hv0 Hv1]].
  split; [eapply merge_item_ok3; eauto|].
  destruct Hok3 as [[[Hhl [Hg1 [Hiph [Hhd _]]]] _] _].
  destruct Hmo as [new [Hf [Hk2 Hco]]].
  assert (Hv : it_v6 it = v6).
  { destruct Hf as [_ [_ [Hfv [_ [_ [_ [_ [_ [_ [Hfkey _]]]]]]]]]]. rewrite Hk2, Hfkey, flow_key_hd in Hhd. apply v6_flag_inj in Hhd. auto. }
  assert (Hfacts : checksum_valid pkt (it_iph it) (proto_of tcp) v6 = true /\
                   (it_merged it = 0 -> checksum_valid (b_pkt (get_buf bufs (it_idx it))) (it_iph it) (proto_of tcp) v6 = true) /\
                   it_merged it' = it_merged it + 1 /\ it_iph it' = it_iph it /\ it_v6 it' = it_v6 it).
  { destruct tcp.
    - destruct Hco as [mode [_ [_ [_ Hc]]]]. destruct (coalesce_tcp_csum _ _ _ _ _ _ _ _ _ _ _ _ Hc) as [A [B C]].
      destruct (coalesce_tcp_success _ _ _ _ _ _ _ _ _ _ _ _ Hc) as [[_ [Sv [_ [Sip _]]]] _]. cbn [proto_of]. auto.
    - destruct Hco as [_ [_ Hc]]. destruct (coalesce_udp_csum _ _ _ _ _ _ _ Hc) as [A [B C]].
      destruct (coalesce_udp_success _ _ _ _ _ _ _ Hc) as [[_ [Sv [_ [Sip _]]]] _]. cbn [proto_of]. auto. }
  destruct Hfacts as [A [B [C [Sip Sv]]]].
  split; [intros E; rewrite C in E; lia|]. intros _ m Hm. rewrite Sip, Sv, Hv.
  assert (Hold : forall m0, In m0 mem -> checksum_valid (b_pkt (get_buf inp m0)) (it_iph it) (proto_of tcp) v6 = true).
  { intros m0 Hm0. destruct (N.eq_dec (it_merged it) 0) as [E0|E0].
    - destruct (Hv0 E0) as [m1 [-> HP]]. destruct Hm0 as [<-|[]]. rewrite <- HP. apply B. exact E0.
    - rewrite <- Hv. apply Hv1; [lia|exact Hm0]. }
  destruct p.
  - destruct Hm as [<-|Hm]; [rewrite <- Hpk; exact A|apply Hold; exact Hm].
  - apply in_app_or in Hm as [Hm|[<-|[]]]; [apply Hold; exact Hm|rewrite <- Hpk; exact A].
Qed.

Lemma loop_inv_v udp off inp k (capsb : Prop) :
  (k <= length inp)%nat -> s_err (loop_k udp off inp k) = false ->
  allQ (item_ok5 inp capsb) (loop_k udp off inp k).
Proof.
  induction k as [|k IH]; intros Hk He.
  - intros tcp it H. destruct tcp; destruct H.
  - pose proof (loop_inv_all udp off inp k ltac:(lia)) as Hall.
    unfold loop_k in *. rewrite indices_S, fold_left_app in *. cbn [fold_left] in *. rewrite N.add_0_l in *.
    pose proof (err_sticky _ _ _ _ He) as He0. pose proof (IH ltac:(lia) He0) as IQ. destruct (Hall He0) as [I [I2 _]].
    destruct (gro_step_spec udp off _ (N.of_nat k) (i_kt _ _ _ I) (i_ku _ _ _ I) He0 (inv_range inp k _ (Nat.lt_le_incl _ _ Hk) I) He) as [bz [Hz [_ Hs]]].
    eapply (allQ_step inp off (item_ok5 inp capsb) (fun _ => True)); [| | |apply (inv_zero _ _ _ _ I Hz)|apply (i_nodup _ _ I2)|exact Logic.I|apply allQ_zero; [exact IQ|exact Hz]|exact Hs].
    + intros. eapply fresh_item_ok5; eauto.
    + intros. eapply merge_item_ok5; eauto.
    + lia.
Qed.

(* the coalescer's checksumValid is the specification's verdict *)
Lemma cv_l4 tcp (v6 : bool) t p : hdr_facts tcp v6 t p -> (if v6 then 40 else 20) <= len p -> len p <= 65535 ->
  checksum_valid p (if v6 then 40 else 20) (proto_of tcp) v6 = true -> l4_csum_ok p = true.
Proof.
  intros Hf H1 H2 Hc. unfold l4_csum_ok. rewrite (l3_parse_of_facts tcp v6 t p Hf H1).
  unfold checksum_valid, checksum, tun_ipv6SrcAddrOffset, tun_ipv4SrcAddrOffset in Hc.
  rewrite N.mod_small in Hc by lia.
  replace (if tcp then 6 else 17) with (proto_of tcp) by (destruct tcp; reflexivity).
  destruct v6; exact Hc.
Qed.

Theorem gro_members_csum_valid : forall (canUDP : bool) (offset : N) (bufs : list buf) (j : N),
  let s := handle_gro canUDP offset bufs in
  s_err s = false -> merged_into (s_trace s) j ->
  forall m, In m (members (s_trace s) j) -> l4_csum_ok (b_pkt (get_buf bufs m)) = true.
Proof.
  intros udp off inp j s He. subst s. unfold handle_gro in *. rewrite gro_loop_is in *.
  set (s0 := loop_k udp off inp (length inp)) in *.
  assert (He0 : s_err s0 = false) by (destruct (s_err s0) eqn:E; [cbn iota in He; congruence|reflexivity]).
  rewrite He0 in *. cbn [s_trace s_tw s_bufs]. intros Hmj m Hm.
  destruct (loop_inv_all udp off inp (length inp) (le_n _) He0) as [I [I2 I3]]. fold s0 in I, I2, I3.
  pose proof (loop_inv_t udp off inp (length inp) True (le_n _) He0) as IQ. fold s0 in IQ.
  pose proof (loop_inv_v udp off inp (length inp) True (le_n _) He0) as IV. fold s0 in IV.
  destruct (i_cover _ I3 j Hmj) as [tcp [it [Hin Hidx]]].
  destruct (IQ tcp it Hin) as [[[[Hhl [Hg1 [Hiph [Hhd [Htc [Hmz [Hml Hch]]]]]]] [Hhf Hlen]] Hu] Htt].
  destruct (IV tcp it Hin) as [_ [_ Hv1]].
  pose proof (members_length_merged _ _ Hmj) as Hlen2.
  rewrite Hidx in *.
  assert (Hmpos : 0 < it_merged it) by (unfold len in Hml; lia).
  specialize (Hv1 Hmpos m Hm). rewrite Hiph in Hv1.
  set (P := b_pkt (get_buf (s_bufs s0) j)) in *.
  (* the member is as long as its headers and not longer than the buffer *)
  assert (Hpl : In (payload_of inp (hl_of tcp it) m) (chunks (it_gso it) (drop (hl_of tcp it) P))) by (rewrite Hch; apply in_map; exact Hm).
  destruct (chunks_in_len (it_gso it) Hg1 _ _ (le_n _) _ Hpl) as [_ Hp2]. unfold payload_of in Hp2. rewrite !len_drop in Hp2.
  destruct tcp.
  - destruct (Htt Logic.I eq_refl) as [_ [_ [_ [_ [_ [Hag _]]]]]]. destruct (Hag m Hm) as [G1 [G2 _]].
    assert (Hfm : hdr_facts true (it_v6 it) (it_tcph it) (b_pkt (get_buf inp m))).
    { eapply (hdr_facts_tagree (it_v6 it) (it_tcph it) (hl_of true it)); [|exact G1|exact Hhf]. unfold hl_of. rewrite Hiph. lia. }
    apply (cv_l4 true (it_v6 it) (it_tcph it)); [exact Hfm| | |exact Hv1]; unfold hl_of in *; rewrite Hiph in *; lia.
  - destruct (Hu eq_refl) as [_ Hag]. destruct (Hag m Hm) as [Gm Lm].
    pose proof (hdr_facts_uagree _ _ _ _ Gm Hhf) as Hfm.
    apply (cv_l4 false (it_v6 it) (it_tcph it)); [exact Hfm| | |exact Hv1]; unfold hl_of, UDPH, tun_udphLen in *; rewrite Hiph in *; lia.
Qed.
Print Assumptions gro_members_csum_valid.

(* ------------------------------------------------ the NS/AE flag (bit 0 of TCP byte 12) *)
(* the header of a coalesced TCP buffer is the header of one of its members, as far as byte 12 goes *)
Definition item_n (inp : list buf) (tcp : bool) (it : item) (P : list N) (mem : list N) : Prop :=
  tcp = true ->
  (exists m, In m mem /\ byte_at P (it_iph it + 12) = byte_at (b_pkt (get_buf inp m)) (it_iph it + 12)) /\
  (forall m, In m mem -> byte_at (b_pkt (get_buf inp m)) (it_iph it + 12) mod 16 = 0).
Definition item_ok6 (inp : list buf) (capsb : Prop) (tcp : bool) (it : item) (P : list N) (mem : list N) : Prop :=
  item_ok3 inp capsb tcp it P mem /\ item_n inp tcp it P mem.

Lemma fresh_item_ok6 inp (capsb : Prop) tcp pkt k v6 new :
  fresh_item tcp pkt k v6 new -> pkt = b_pkt (get_buf inp k) -> item_ok6 inp capsb tcp new pkt [k].
Proof.
  intros Hf Hp. split; [eapply fresh_item_ok3; eauto|]. intros ->.
  destruct Hf as [_ [_ [_ [_ [_ [_ [_ [_ [_ [_ [_ Htf]]]]]]]]]]]. destruct (Htf eq_refl) as [_ [_ [_ Hnib]]].
  split; [exists k; split; [left; reflexivity|rewrite <- Hp; reflexivity]|].
  intros m [<-|[]]. rewrite <- Hp. exact Hnib.
Qed.

Lemma merge_item_ok6 inp off (capsb : Prop) tcp pkt k v6 p it it' bufs bufs' mem :
  True ->
  merged_ok tcp pkt k off v6 p it it' bufs bufs' ->
  pkt = b_pkt (get_buf inp k) -> b_pkt (get_buf bufs k) = pkt ->
  it_idx it <> k -> (N.to_nat (it_idx it) < length bufs)%nat ->
  item_ok6 inp capsb tcp it (b_pkt (get_buf bufs (it_idx it))) mem ->
  item_ok6 inp capsb tcp it' (b_pkt (get_buf bufs' (it_idx it))) (if p then k :: mem else mem ++ [k]).
Proof.
  intros HC Hmo Hpk Hbk Hne Hlt [Hok3 Hn].
  split; [eapply merge_item_ok3; eauto|]. intros ->. specialize (Hn eq_refl). destruct Hn as [[m0 [Hm0 Em0]] Hz].
  destruct Hok3 as [[[Hhl [Hg1 [Hiph [Hhd [Htc _]]]]] _] _].
  destruct Hmo as [new [Hf [Hk2 [mode [Hp [Hmode [Hcan Hco]]]]]]].
  pose proof (merge_iph _ _ _ _ _ _ Hf Hk2 Hiph Hhd) as Hi.
  destruct Hf as [_ [_ [_ [_ [Hft [Hfl0 [_ [_ [_ [_ [_ Htf]]]]]]]]]]]. destruct (Htf eq_refl) as [_ [_ [_ Hnib]]]. rewrite <- Hi in Hnib.
  destruct (coalesce_tcp_success _ _ _ _ _ _ _ _ _ _ _ _ Hco) as [[_ [_ [_ [Sip _]]]] [Hb' _]].
  rewrite Sip. set (P := b_pkt (get_buf bufs (it_idx it))) in *. unfold hl_of in Hhl.
  set (iph := it_iph it) in *. set (tcph := it_tcph it) in *.
  destruct mode; [contradiction| |]; cbn [is_prepend] in *; subst p.
  - rewrite Hb'. unfold tcp_merge_bufs. cbn [is_prepend]. rewrite get_set_buf_same by exact Hlt. cbn [with_pkt b_pkt]. fold P. fold iph tcph.
    change FLAGS_OFF with 13.
    split; [|intros m Hm; apply in_app_or in Hm as [Hm|[<-|[]]]; [apply Hz; exact Hm|rewrite <- Hpk; exact Hnib]].
    exists m0. split; [apply in_or_app; left; exact Hm0|]. rewrite <- Em0.
    assert (Hfo : iph + 13 + 1 <= len P) by (clear - Hhl Htc; lia).
    destruct (it_psh new).
    + rewrite byte_at_app_l by (rewrite len_put_byte by exact Hfo; clear - Hfo; lia).
      rewrite byte_at_put_byte by exact Hfo. destruct (N.eqb_spec (iph + 12) (iph + 13)); [lia|reflexivity].
    + rewrite byte_at_app_l by (clear - Hfo; lia). reflexivity.
  - rewrite Hb'. unfold tcp_merge_bufs. cbn [is_prepend].
    rewrite get_set_buf_same by (rewrite set_buf_length; exact Hlt). cbn [with_pkt b_pkt]. fold P. fold iph tcph.
    change FLAGS_OFF with 13.
    split; [|intros m [<-|Hm]; [rewrite <- Hpk; exact Hnib|apply Hz; exact Hm]].
    exists k. split; [left; reflexivity|]. rewrite <- Hpk.
    assert (Hfo : iph + 13 + 1 <= len pkt) by (clear - Hfl0 Hft Hi; unfold iph; lia).
    destruct (it_psh it).
    + rewrite byte_at_app_l by (rewrite len_put_byte by exact Hfo; clear - Hfo; lia).
      rewrite byte_at_put_byte by exact Hfo. destruct (N.eqb_spec (iph + 12) (iph + 13)); [lia|reflexivity].
    + rewrite byte_at_app_l by (clear - Hfo; lia). reflexivity.
Qed.

Lemma loop_inv_n udp off inp k (capsb : Prop) :
  (k <= length inp)%nat -> s_err (loop_k udp off inp k) = false ->
  allQ (item_ok6 inp capsb) (loop_k udp off inp k).
Proof.
  induction k as [|k IH]; intros Hk He.
  - intros tcp it H. destruct tcp; destruct H.
  - pose proof (loop_inv_all udp off inp k ltac:(lia)) as Hall.
    unfold loop_k in *. rewrite indices_S, fold_left_app in *. cbn [fold_left] in *. rewrite N.add_0_l in *.
    pose proof (err_sticky _ _ _ _ He) as He0. pose proof (IH ltac:(lia) He0) as IQ. destruct (Hall He0) as [I [I2 _]].
    destruct (gro_step_spec udp off _ (N.of_nat k) (i_kt _ _ _ I) (i_ku _ _ _ I) He0 (inv_range inp k _ (Nat.lt_le_incl _ _ Hk) I) He) as [bz [Hz [_ Hs]]].
    eapply (allQ_step inp off (item_ok6 inp capsb) (fun _ => True)); [| | |apply (inv_zero _ _ _ _ I Hz)|apply (i_nodup _ _ I2)|exact Logic.I|apply allQ_zero; [exact IQ|exact Hz]|exact Hs].
    + intros. eapply fresh_item_ok6; eauto.
    + intros. eapply merge_item_ok6; eauto.
    + lia.
Qed.

(* packets on which the bit is read *)
Definition tcpish (p : list N) : bool :=
  match l3_parse p with
  | Some (v6, iph, proto, frag) => negb frag && (proto =? 6) && (iph + 20 <=? len p)
  | None => false
  end.
Lemma nsbit_not_tcpish p : tcpish p = false -> nsbit p = 0.
Proof. unfold tcpish, nsbit. destruct (l3_parse p) as [[[[v6 iph] proto] frag]|]; [|reflexivity]. intros ->. reflexivity. Qed.
Lemma nsbit_facts (v6 : bool) t p : hdr_facts true v6 t p -> (if v6 then 40 else 20) + 20 <= len p ->
  tcpish p = true /\ nsbit p = byte_at p ((if v6 then 40 else 20) + 12) mod 2.
Proof.
  intros Hf Hl. unfold tcpish, nsbit. rewrite (l3_parse_of_facts true v6 t p Hf) by (destruct v6; lia).
  cbn [negb N.eqb Pos.eqb andb]. destruct (N.leb_spec ((if v6 then 40 else 20) + 20) (len p)); [auto|lia].
Qed.
Lemma no_udp_flow_not_tcpish_or p : udp_flow p <> None -> tcpish p = false.
Proof.
  unfold udp_flow, tcpish. destruct (l3_parse p) as [[[[v6 iph] proto] frag]|]; [|reflexivity].
  destruct (negb frag); cbn [andb]; [|reflexivity]. destruct (N.eqb_spec proto 17) as [->|]; cbn [andb]; [reflexivity|].
  intros H. contradiction H. reflexivity.
Qed.

Lemma mod16_mod2 x : x mod 16 = 0 -> x mod 2 = 0.
Proof.
  intros H. pose proof (N.div_mod x 16 ltac:(lia)) as D. rewrite H, N.add_0_r in D.
  rewrite D. replace (16 * (x / 16)) with ((8 * (x / 16)) * 2) by lia. apply N.mod_mul. lia.
Qed.

(* Per coalesced buffer: the flag is clear on every datagram the kernel makes of it and on every member
   (a segment with a non-zero low nibble in TCP byte 12 is never a candidate). *)
Theorem gro_ns_kept : forall (canUDP : bool) (offset : N) (bufs : list buf) (j : N),
  let s := handle_gro canUDP offset bufs in
  s_err s = false -> merged_into (s_trace s) j ->
  let b := get_buf (s_bufs s) j in
  (forall p, In p (kernel_segment (b_hdr b) (b_pkt b)) -> nsbit p = 0) /\
  (forall m, In m (members (s_trace s) j) -> nsbit (b_pkt (get_buf bufs m)) = 0).
Proof.
  intros udp off inp j s He Hmj b.
  destruct (N.eq_dec (v_gso (dec_vhdr (b_hdr b))) GSO_UDP_L4) as [Eu|Eu].
  - (* UDP: the bit is not read *)
    destruct (gro_udp_segments_eligible udp off inp j He Hmj Eu) as [Hel Hfl]. fold s b in Hel, Hfl. split.
    + intros p Hp. apply nsbit_not_tcpish. apply no_udp_flow_not_tcpish_or.
      assert (Hx : In (Check.udp_eligible p, mkey p) (map (fun m => (true, mkey (pk inp m))) (members (s_trace s) j))).
      { rewrite <- Hel. apply (in_map (fun p => (Check.udp_eligible p, mkey p))). exact Hp. }
      apply in_map_iff in Hx as [m [E _]]. inversion E as [[E1 E2]]. symmetry in E1. rewrite (eligible_udp_flow _ E1). discriminate.
    + intros m Hm. apply nsbit_not_tcpish. apply no_udp_flow_not_tcpish_or. apply (Hfl m Hm).
  - (* TCP *)
    subst b s. revert Eu. unfold handle_gro in *. rewrite gro_loop_is in *.
    set (s0 := loop_k udp off inp (length inp)) in *.
    assert (He0 : s_err s0 = false) by (destruct (s_err s0) eqn:E; [cbn iota in He; congruence|reflexivity]).
    rewrite He0 in *. cbn [s_trace s_tw s_bufs] in *.
    destruct (loop_inv_all udp off inp (length inp) (le_n _) He0) as [I [I2 I3]]. fold s0 in I, I2, I3.
    pose proof (loop_inv_t udp off inp (length inp) True (le_n _) He0) as IQ. fold s0 in IQ.
    pose proof (loop_inv_n udp off inp (length inp) True (le_n _) He0) as IN. fold s0 in IN.
    destruct (i_cover _ I3 j Hmj) as [tcp [it [Hin Hidx]]].
    pose proof (sel_total_in _ _ _ Hin) as Hint.
    destruct (i_items _ _ _ I it Hint) as [Htw _].
    destruct (IQ tcp it Hin) as [[[[Hhl [Hg1 [Hiph [Hhd [Htc [Hmz [Hml Hch]]]]]]] [Hhf Hlen]] _] Htt].
    destruct (IN tcp it Hin) as [_ Hn].
    destruct (i_bounds _ I3 tcp it Hin) as [Bg Bh].
    pose proof (members_length_merged _ _ Hmj) as Hlen2.
    rewrite Hidx in *.
    assert (Hmpos : 0 < it_merged it) by (unfold len in Hml; lia).
    assert (Hjlt : (N.to_nat j < length (s_bufs s0))%nat).
    { rewrite (i_tw _ _ _ I) in Htw. apply tw_of_bound in Htw. rewrite (i_tr _ _ _ I) in Htw. rewrite (i_len _ _ _ I). lia. }
    assert (Hfin : get_buf (account false (account true (s_bufs s0) (s_tcp s0)) (s_udp s0)) j = acc_buf tcp it (get_buf (s_bufs s0) j)).
    { rewrite !account_flat. pose proof (i_nodup _ _ I2) as Hn0.
      destruct tcp; unfold sel in Hin.
      - rewrite fold_account_other.
        + rewrite <- Hidx. apply fold_account_get; [apply (sel_nodup s0 true Hn0)|exact Hin|rewrite Hidx; exact Hjlt].
        + intros y Hy E. apply (sel_cross_idx s0 true it y Hn0 Hin Hy). congruence.
      - rewrite <- Hidx. rewrite fold_account_get; [|apply (sel_nodup s0 false Hn0)|exact Hin|rewrite fold_account_length, Hidx; exact Hjlt].
        rewrite fold_account_other; [reflexivity|].
        intros y Hy E. apply (sel_cross_idx s0 false it y Hn0 Hin Hy). congruence. }
    rewrite Hfin.
    set (B := get_buf (s_bufs s0) j) in *. set (P := b_pkt B) in *.
    destruct (acc_buf_payload tcp it B Hmpos Hiph Htc Hhl) as [Hd [Hl Hh]].
    assert (Hdec0 : v_gso (dec_vhdr (b_hdr (acc_buf tcp it B))) = if tcp then (if it_v6 it then GSO_TCPV6 else GSO_TCPV4) else GSO_UDP_L4).
    { rewrite Hh, dec_enc_vhdr; [reflexivity|lia|lia| |destruct tcp; lia]. rewrite Hiph. destruct (it_v6 it); lia. }
    intros Hnudp. rewrite Hdec0 in Hnudp.
    destruct tcp; [|exfalso; apply Hnudp; reflexivity]. clear Hnudp Hdec0.
    destruct (Htt Logic.I eq_refl) as [_ [_ [_ [_ [_ [Hag _]]]]]].
    destruct (Hn eq_refl) as [[m0 [Hm0 Em0]] Hz].
    pose proof (acc_buf_bytes true it B Hmpos Hiph Htc Hhl Hlen) as Hb. cbn zeta in Hb. fold P in Hb, Hl, Hd.
    pose proof (acc_buf_tcp_bytes it B Hmpos Hiph Htc Hhl Hlen) as HbF. fold P in HbF.
    set (F := b_pkt (acc_buf true it B)) in *.
    unfold hl_of in *.
    set (v6 := it_v6 it) in *. set (iph := it_iph it) in *. set (tcph := it_tcph it) in *.
    assert (HhF : hdr_facts true v6 tcph F).
    { destruct Hb as [B0 [B1 B2]]. destruct Hhf as [F1 [F2 [F3 F4]]]. unfold hdr_facts.
      rewrite B0. destruct v6.
      - destruct B1 as [B6 _]. rewrite B6. refine (conj F1 (conj _ (conj F3 _))); [discriminate|].
        intros _. rewrite Hiph in B2. rewrite B2. apply F4. reflexivity.
      - destruct B1 as [B6 [B7 [B9 _]]]. rewrite B6, B7, B9. refine (conj F1 (conj F2 (conj F3 _))).
        intros _. rewrite Hiph in B2. rewrite B2. apply F4. reflexivity. }
    (* facts about a member *)
    assert (Hmem : forall m, In m (members (s_trace s0) j) ->
              tcpish (b_pkt (get_buf inp m)) = true /\ nsbit (b_pkt (get_buf inp m)) = byte_at (b_pkt (get_buf inp m)) (iph + 12) mod 2).
    { intros m Hm. destruct (Hag m Hm) as [G1 [G2 _]].
      assert (Hfm : hdr_facts true v6 tcph (b_pkt (get_buf inp m))).
      { eapply (hdr_facts_tagree v6 tcph (iph + tcph)); [|exact G1|exact Hhf]. clear - Htc Hiph. rewrite Hiph. lia. }
      rewrite Hiph. apply (nsbit_facts v6 tcph); [exact Hfm|]. clear - G2 Htc Hiph. rewrite Hiph in G2. lia. }
    split.
    + (* a segment carries byte 12 of the buffer = byte 12 of member m0 *)
      assert (Hgt : it_gso it < len P - (iph + tcph)).
      { rewrite <- len_drop. apply chunks_two; [exact Hg1|]. rewrite Hch, map_length. exact Hlen2. }
      assert (Hv6 : is_v6 F = v6).
      { unfold is_v6. destruct HhF as [F1 _]. rewrite F1. destruct v6; reflexivity. }
      assert (Hl3 : l3_len F = len F).
      { unfold l3_len. rewrite Hv6, Hl. destruct Hb as [_ [B1 _]]. rewrite Hiph in Hhl. destruct v6.
        - destruct B1 as [_ B4]. rewrite B4. lia.
        - destruct B1 as [_ [_ [_ B4]]]. exact B4. }
      assert (Hdec : dec_vhdr (b_hdr (acc_buf true it B)) =
                     {| v_flags := K_NEEDS_CSUM; v_gso := if v6 then K_GSO_TCPV6 else K_GSO_TCPV4;
                        v_hdrlen := iph + tcph; v_gsosize := it_gso it;
                        v_cstart := if v6 then 40 else 20; v_coff := 16 |}).
      { rewrite Hh, Hiph. apply dec_enc_vhdr; [lia|lia| |lia]. destruct v6; lia. }
      rewrite (kernel_segment_gso true v6 _ F (iph + tcph) (it_gso it) Hdec Hv6 Hl3);
        [|rewrite Hl; lia|rewrite Hiph; lia|exact Hg1].
      rewrite Hiph. intros p Hp. apply build_all_in in Hp as [i [seg [lst ->]]].
      destruct (seg_tcp_bytes v6 tcph
           {| v_flags := K_NEEDS_CSUM; v_gso := if v6 then K_GSO_TCPV6 else K_GSO_TCPV4;
              v_hdrlen := (if v6 then 40 else 20) + tcph; v_gsosize := it_gso it;
              v_cstart := if v6 then 40 else 20; v_coff := 16 |}
           F (len F - (if v6 then 40 else 20)) i seg lst eq_refl eq_refl eq_refl Htc HhF ltac:(rewrite Hl, <- Hiph; exact Hhl)) as [Ls [_ [Hq _]]].
      set (sg := build_segment _ true _ _ i seg lst) in *.
      assert (AsF : tagree v6 ((if v6 then 40 else 20) + tcph) sg F).
      { refine (conj _ (conj _ _)).
        - intros q0 Hk Hm. apply Hq; [exact Hk| | | |];
            (destruct v6; [apply tmasked_false6 in Hm|apply tmasked_false4 in Hm]; lia).
        - intros Ev. rewrite Hq; [reflexivity|..]; rewrite ?Ev; clear - Htc; lia.
        - rewrite Hq; [reflexivity|..]; clear - Htc; destruct v6; lia. }
      assert (Hfs : hdr_facts true v6 tcph sg).
      { eapply (hdr_facts_tagree v6 tcph ((if v6 then 40 else 20) + tcph)); [clear - Htc; lia|exact AsF|exact HhF]. }
      destruct (nsbit_facts v6 tcph sg Hfs ltac:(rewrite Ls; clear - Htc; lia)) as [_ ->].
      apply mod16_mod2. rewrite <- (Hz m0 Hm0). rewrite Hiph in Em0 |- *. rewrite <- Em0.
      rewrite Hq; try (clear - Htc; subst v6 tcph; destruct (it_v6 it); lia).
      f_equal. apply HbF; rewrite Hiph in *; clear - Htc Hhl; subst v6 tcph; destruct (it_v6 it); lia.
    + intros m Hm. destruct (Hmem m Hm) as [_ ->]. apply mod16_mod2. apply Hz. exact Hm.
Qed.
Print Assumptions gro_ns_kept.

Lemma map_canonv (pkf : N -> list N) (c : N) : forall (S : list (list N)) (M : list N),
  map canon S = map (fun m => canon (pkf m)) M ->
  (forall x, In x S -> l4_csum_ok x = true) -> (forall m, In m M -> l4_csum_ok (pkf m) = true) ->
  (forall x, In x S -> nsbit x = c) -> (forall m, In m M -> nsbit (pkf m) = c) ->
  map canonv S = map (fun m => canonv (pkf m)) M.
Proof.
  induction S as [|x S IH]; intros [|m M] H HS HM NS NM; cbn [map] in *; try discriminate; [reflexivity|].
  inversion H. f_equal.
  - unfold canonv, canonv_gen. rewrite (HS x) by (left; reflexivity). rewrite (HM m) by (left; reflexivity).
    rewrite (NS x) by (left; reflexivity). rewrite (NM m) by (left; reflexivity). f_equal. f_equal. assumption.
  - apply IH; [assumption|intros y Hy; apply HS; right; exact Hy|intros y Hy; apply HM; right; exact Hy
              |intros y Hy; apply NS; right; exact Hy|intros y Hy; apply NM; right; exact Hy].
Qed.

(* Clause 6 holds for every batch. *)
Theorem gro_csum_kept : forall (canUDP : bool) (offset : N) (bufs : list buf),
  bytes_ok bufs ->
  let s := handle_gro canUDP offset bufs in
  s_err s = false ->
  csum_kept_ok bufs (s_tw s) (s_bufs s) = true.
Proof.
  intros udp off inp Hbytes s He.
  pose proof (gro_bookkeeping udp off inp He) as [Hlen [Hnd [Hbound Htrace]]]. fold s in Hlen, Hnd, Hbound, Htrace.
  assert (Htw : s_tw s = tw_of (s_trace s) 0).
  { subst s. unfold handle_gro in *. rewrite gro_loop_is in *.
    set (s0 := loop_k udp off inp (length inp)) in *.
    assert (He0 : s_err s0 = false) by (destruct (s_err s0) eqn:E; [cbn iota in He; congruence|reflexivity]).
    rewrite He0. cbn [s_tw s_trace].
    destruct (loop_inv_all udp off inp (length inp) (le_n _) He0) as [I _]. apply (i_tw _ _ _ I). }
  assert (Hvalid : valid_trace (s_trace s)).
  { intros i j p Hn. destruct (Htrace i _ Hn) as [_ [H1 H2]]. rewrite <- Htw. auto. }
  set (f := fun m => canonv (b_pkt (get_buf inp m))).
  assert (Hper : forall j, In j (s_tw s) ->
            map canonv (kernel_segment (b_hdr (get_buf (s_bufs s) j)) (b_pkt (get_buf (s_bufs s) j))) =
            map f (members (s_trace s) j)).
  { intros j Hj. destruct (merged_dec (s_trace s) j) as [Hm|Hm].
    - destruct (gro_ns_kept udp off inp j He Hm) as [Hc1 Hc2]. fold s in Hc1, Hc2.
      apply (map_canonv (fun m => b_pkt (get_buf inp m)) 0); [| | |exact Hc1|exact Hc2].
      + destruct (N.eq_dec (v_gso (dec_vhdr (b_hdr (get_buf (s_bufs s) j)))) GSO_UDP_L4) as [Eu|Eu].
        * apply (gro_udp_lossless udp off inp j He Hm Eu).
        * apply (gro_tcp_lossless udp off inp j Hbytes He Hm Eu).
      + destruct (gro_segment_checksums_valid udp off inp j He Hm) as [_ Hc]. fold s in Hc.
        intros x Hx. rewrite forallb_forall in Hc. specialize (Hc x Hx). apply andb_true_iff in Hc. apply Hc.
      + apply (gro_members_csum_valid udp off inp j He Hm).
    - destruct (gro_passthrough udp off inp j He Hj Hm) as [Hp Hz]. fold s in Hp, Hz.
      rewrite (members_fresh _ _ Hm). cbn [map]. unfold f.
      rewrite Hz, kernel_segment_zero, Hp. reflexivity. }
  unfold csum_kept_ok, csum_kept_gen, segments, written. fold canonv. rewrite flat_map_map, map_flat_map.
  rewrite (flat_map_ext_in' _ (fun j => map f (members (s_trace s) j))) by exact Hper.
  rewrite <- map_flat_map.
  apply perm_eqb_complete.
  rewrite Htw.
  eapply perm_trans; [apply Permutation_map; apply members_partition; exact Hvalid|].
  rewrite Hlen. unfold f.
  pose proof (map_indices (fun b => canonv (b_pkt b)) inp 0 [] eq_refl) as E. cbn [app] in E. rewrite E.
  apply Permutation_refl.
Qed.
Print Assumptions gro_csum_kept.
