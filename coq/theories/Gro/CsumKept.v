(* C16, clause 6 of holdsb (csum_kept_ok): a packet keeps its transport-checksum verdict.
   Every member of a coalesced buffer has been verified by the coalescer (item invariant item_v),
   the kernel's segments of a coalesced buffer verify (Csum.gro_segment_checksums_valid), packets
   that are passed through are byte-identical: the multiset of (verdict, compared bytes) is kept. *)
From WG Require Import Base.Prelude Gen.Constants Gro.Bytes Gro.Model Gro.KernelSpec Gro.Spec Gro.Proofs Gro.Csum Gro.Headers Gro.HeadersTcp Gro.Lossless Gro.Holds Gro.Order.
From Coq Require Import Permutation.
Local Open Scope N_scope.

(* what a successful merge has verified *)
Lemma coalesce_udp_csum pkt it bufs off v6 it' bufs' :
  coalesce_udp pkt it bufs off v6 = (Success, it', bufs') ->
  checksum_valid pkt (it_iph it) IPPROTO_UDP v6 = true /\
  (it_merged it = 0 -> checksum_valid (b_pkt (get_buf bufs (it_idx it))) (it_iph it) IPPROTO_UDP v6 = true) /\
  it_merged it' = it_merged it + 1.
Proof.
  unfold coalesce_udp. destruct (tun_maxUint16 <? _); [discriminate|]. destruct (no_room _ _ _); [discriminate|].
  destruct (N.eqb_spec (it_merged it) 0) as [E0|E0]; cbn [andb].
  - destruct (it_bad it); cbn [orb]; [discriminate|].
    destruct (checksum_valid (b_pkt _) _ _ _); cbn [negb]; [|discriminate].
    destruct (checksum_valid pkt _ _ _); cbn [negb]; [|discriminate]. intros H; inversion H; subst. cbn. auto.
  - destruct (checksum_valid pkt _ _ _); cbn [negb]; [|discriminate]. intros H; inversion H; subst. cbn.
    repeat split; auto; intros; contradiction.
Qed.
Lemma coalesce_tcp_csum mode pkt pktI gso seq psh it bufs off v6 it' bufs' :
  coalesce_tcp mode pkt pktI gso seq psh it bufs off v6 = (Success, it', bufs') ->
  checksum_valid pkt (it_iph it) IPPROTO_TCP v6 = true /\
  (it_merged it = 0 -> checksum_valid (b_pkt (get_buf bufs (it_idx it))) (it_iph it) IPPROTO_TCP v6 = true) /\
  it_merged it' = it_merged it + 1.
Proof.
  unfold coalesce_tcp. destruct (tun_maxUint16 <? _); [discriminate|]. destruct mode.
  1,2: destruct (no_room _ _ _); [discriminate|];
       destruct (N.eqb_spec (it_merged it) 0) as [E0|E0]; cbn [andb];
       [destruct (checksum_valid (b_pkt _) _ _ _); cbn [negb]; [|discriminate]|];
       (destruct (checksum_valid pkt _ _ _); cbn [negb]; [|discriminate]); intros H; inversion H; subst; cbn;
       repeat split; auto; intros; contradiction.
  - destruct (no_room _ _ _); [discriminate|]. destruct psh; [discriminate|].
    destruct (N.eqb_spec (it_merged it) 0) as [E0|E0]; cbn [andb];
      [destruct (checksum_valid (b_pkt _) _ _ _); cbn [negb]; [|discriminate]|];
      (destruct (checksum_valid pkt _ _ _); cbn [negb]; [|discriminate]); intros H; inversion H; subst; cbn;
      repeat split; auto; intros; contradiction.
Qed.

Definition proto_of (tcp : bool) : N := if tcp then IPPROTO_TCP else IPPROTO_UDP.
(* an item nothing was merged into holds its input packet; every member of a merged item has been verified *)
Definition item_v (inp : list buf) (tcp : bool) (it : item) (P : list N) (mem : list N) : Prop :=
  (it_merged it = 0 -> exists m, mem = [m] /\ P = b_pkt (get_buf inp m)) /\
  (0 < it_merged it -> forall m, In m mem -> checksum_valid (b_pkt (get_buf inp m)) (it_iph it) (proto_of tcp) (it_v6 it) = true).
Definition item_ok5 (inp : list buf) (capsb : Prop) (tcp : bool) (it : item) (P : list N) (mem : list N) : Prop :=
  item_ok3 inp capsb tcp it P mem /\ item_v inp tcp it P mem.

Lemma fresh_item_ok5 inp (capsb : Prop) tcp pkt k v6 new :
  fresh_item tcp pkt k v6 new -> pkt = b_pkt (get_buf inp k) -> item_ok5 inp capsb tcp new pkt [k].
Proof.
  intros Hf Hp. split; [eapply fresh_item_ok3; eauto|]. destruct Hf as [_ [Hm _]]. split.
  - intros _. exists k. auto.
  - rewrite Hm. lia.
Qed.

Lemma merge_item_ok5 inp off (capsb : Prop) tcp pkt k v6 p it it' bufs bufs' mem :
  True ->
  merged_ok tcp pkt k off v6 p it it' bufs bufs' ->
  pkt = b_pkt (get_buf inp k) -> b_pkt (get_buf bufs k) = pkt ->
  it_idx it <> k -> (N.to_nat (it_idx it) < length bufs)%nat ->
  item_ok5 inp capsb tcp it (b_pkt (get_buf bufs (it_idx it))) mem ->
  item_ok5 inp capsb tcp it' (b_pkt (get_buf bufs' (it_idx it))) (if p then k :: mem else mem ++ [k]).
Proof.
  intros HC Hmo Hpk Hbk Hne Hlt [Hok3 [Hv0 Hv1]].
  split; [eapply merge_item_ok3; eauto|].
  destruct Hok3 as [[[Hhl [Hg1 [Hiph [Hhd _]]]] _] _].
  destruct Hmo as [new [Hf [Hk2 Hco]]].
  assert (Hv : it_v6 it = v6).
  { destruct Hf as [_ [_ [Hfv [_ [_ [_ [_ [_ [_ [Hfkey _]]]]]]]]]]. rewrite Hk2, Hfkey, flow_key_hd in Hhd. apply v6_flag_inj in Hhd. auto. }
  assert (Hfacts : checksum_valid pkt (it_iph it) (proto_of tcp) v6 = true /\
                   (it_merged it = 0 -> checksum_valid (b_pkt (get_buf bufs (it_idx it))) (it_iph it) (proto_of tcp) v6 = true) /\
                   it_merged it' = it_merged it + 1 /\ it_iph it' = it_iph it /\ it_v6 it' = it_v6 it).
  { destruct tcp.
    - destruct Hco as [mode [_ [_ [_ Hc]]]]. destruct (coalesce_tcp_csum _ _ _ _ _ _ _ _ _ _ _ _ Hc) as [A [B C]].
      destruct (coalesce_tcp_success _ _ _ _ _ _ _ _ _ _ _ _ Hc) as [[_ [Sv [_ [Sip _]]]] _]. cbn [proto_of]. auto.
    - destruct Hco as [_ [_ Hc]]. destruct (coalesce_udp_csum _ _ _ _ _ _ _ Hc) as [A [B C]].
      destruct (coalesce_udp_success _ _ _ _ _ _ _ Hc) as [[_ [Sv [_ [Sip _]]]] _]. cbn [proto_of]. auto. }
  destruct Hfacts as [A [B [C [Sip Sv]]]].
  split; [intros E; rewrite C in E; lia|]. intros _ m Hm. rewrite Sip, Sv, Hv.
  assert (Hold : forall m0, In m0 mem -> checksum_valid (b_pkt (get_buf inp m0)) (it_iph it) (proto_of tcp) v6 = true).
  { intros m0 Hm0. destruct (N.eq_dec (it_merged it) 0) as [E0|E0].
    - destruct (Hv0 E0) as [m1 [-> HP]]. destruct Hm0 as [<-|[]]. rewrite <- HP. apply B. exact E0.
    - rewrite <- Hv. apply Hv1; [lia|exact Hm0]. }
  destruct p.
  - destruct Hm as [<-|Hm]; [rewrite <- Hpk; exact A|apply Hold; exact Hm].
  - apply in_app_or in Hm as [Hm|[<-|[]]]; [apply Hold; exact Hm|rewrite <- Hpk; exact A].
Qed.

Lemma loop_inv_v udp off inp k (capsb : Prop) :
  (k <= length inp)%nat -> s_err (loop_k udp off inp k) = false ->
  allQ (item_ok5 inp capsb) (loop_k udp off inp k).
Proof.
  induction k as [|k IH]; intros Hk He.
  - intros tcp it H. destruct tcp; destruct H.
  - pose proof (loop_inv_all udp off inp k ltac:(lia)) as Hall.
    unfold loop_k in *. rewrite indices_S, fold_left_app in *. cbn [fold_left] in *. rewrite N.add_0_l in *.
    pose proof (err_sticky _ _ _ _ He) as He0. pose proof (IH ltac:(lia) He0) as IQ. destruct (Hall He0) as [I [I2 _]].
    destruct (gro_step_spec udp off _ (N.of_nat k) (i_kt _ _ _ I) (i_ku _ _ _ I) He0 (inv_range inp k _ (Nat.lt_le_incl _ _ Hk) I) He) as [bz [Hz [_ Hs]]].
    eapply (allQ_step inp off (item_ok5 inp capsb) (fun _ => True)); [| | |apply (inv_zero _ _ _ _ I Hz)|apply (i_nodup _ _ I2)|exact Logic.I|apply allQ_zero; [exact IQ|exact Hz]|exact Hs].
    + intros. eapply fresh_item_ok5; eauto.
    + intros. eapply merge_item_ok5; eauto.
    + lia.
Qed.

(* the coalescer's checksumValid is the specification's verdict *)
Lemma cv_l4 tcp (v6 : bool) t p : hdr_facts tcp v6 t p -> (if v6 then 40 else 20) <= len p -> len p <= 65535 ->
  checksum_valid p (if v6 then 40 else 20) (proto_of tcp) v6 = true -> l4_csum_ok p = true.
Proof.
  intros Hf H1 H2 Hc. unfold l4_csum_ok. rewrite (l3_parse_of_facts tcp v6 t p Hf H1).
  unfold checksum_valid, checksum, tun_ipv6SrcAddrOffset, tun_ipv4SrcAddrOffset in Hc.
  rewrite N.mod_small in Hc by lia.
  replace (if tcp then 6 else 17) with (proto_of tcp) by (destruct tcp; reflexivity).
  destruct v6; exact Hc.
Qed.

Theorem gro_members_csum_valid : forall (canUDP : bool) (offset : N) (bufs : list buf) (j : N),
  let s := handle_gro canUDP offset bufs in
  s_err s = false -> merged_into (s_trace s) j ->
  forall m, In m (members (s_trace s) j) -> l4_csum_ok (b_pkt (get_buf bufs m)) = true.
Proof.
  intros udp off inp j s He. subst s. unfold handle_gro in *. rewrite gro_loop_is in *.
  set (s0 := loop_k udp off inp (length inp)) in *.
  assert (He0 : s_err s0 = false) by (destruct (s_err s0) eqn:E; [cbn iota in He; congruence|reflexivity]).
  rewrite He0 in *. cbn [s_trace s_tw s_bufs]. intros Hmj m Hm.
  destruct (loop_inv_all udp off inp (length inp) (le_n _) He0) as [I [I2 I3]]. fold s0 in I, I2, I3.
  pose proof (loop_inv_t udp off inp (length inp) True (le_n _) He0) as IQ. fold s0 in IQ.
  pose proof (loop_inv_v udp off inp (length inp) True (le_n _) He0) as IV. fold s0 in IV.
  destruct (i_cover _ I3 j Hmj) as [tcp [it [Hin Hidx]]].
  destruct (IQ tcp it Hin) as [[[[Hhl [Hg1 [Hiph [Hhd [Htc [Hmz [Hml Hch]]]]]]] [Hhf Hlen]] Hu] Htt].
  destruct (IV tcp it Hin) as [_ [_ Hv1]].
  pose proof (members_length_merged _ _ Hmj) as Hlen2.
  rewrite Hidx in *.
  assert (Hmpos : 0 < it_merged it) by (unfold len in Hml; lia).
  specialize (Hv1 Hmpos m Hm). rewrite Hiph in Hv1.
  set (P := b_pkt (get_buf (s_bufs s0) j)) in *.
  (* the member is as long as its headers and not longer than the buffer *)
  assert (Hpl : In (payload_of inp (hl_of tcp it) m) (chunks (it_gso it) (drop (hl_of tcp it) P))) by (rewrite Hch; apply in_map; exact Hm).
  destruct (chunks_in_len (it_gso it) Hg1 _ _ (le_n _) _ Hpl) as [_ Hp2]. unfold payload_of in Hp2. rewrite !len_drop in Hp2.
  destruct tcp.
  - destruct (Htt Logic.I eq_refl) as [_ [_ [_ [_ [_ [Hag _]]]]]]. destruct (Hag m Hm) as [G1 [G2 _]].
    assert (Hfm : hdr_facts true (it_v6 it) (it_tcph it) (b_pkt (get_buf inp m))).
    { eapply (hdr_facts_tagree (it_v6 it) (it_tcph it) (hl_of true it)); [|exact G1|exact Hhf]. unfold hl_of. rewrite Hiph. lia. }
    apply (cv_l4 true (it_v6 it) (it_tcph it)); [exact Hfm| | |exact Hv1]; unfold hl_of in *; rewrite Hiph in *; lia.
  - destruct (Hu eq_refl) as [_ Hag]. destruct (Hag m Hm) as [Gm Lm].
    pose proof (hdr_facts_uagree _ _ _ _ Gm Hhf) as Hfm.
    apply (cv_l4 false (it_v6 it) (it_tcph it)); [exact Hfm| | |exact Hv1]; unfold hl_of, UDPH, tun_udphLen in *; rewrite Hiph in *; lia.
Qed.
Print Assumptions gro_members_csum_valid.

Lemma map_canonv (pkf : N -> list N) : forall (S : list (list N)) (M : list N),
  map canon S = map (fun m => canon (pkf m)) M ->
  (forall x, In x S -> l4_csum_ok x = true) -> (forall m, In m M -> l4_csum_ok (pkf m) = true) ->
  map canonv S = map (fun m => canonv (pkf m)) M.
Proof.
  induction S as [|x S IH]; intros [|m M] H HS HM; cbn [map] in *; try discriminate; [reflexivity|].
  inversion H. f_equal.
  - unfold canonv. rewrite (HS x) by (left; reflexivity). rewrite (HM m) by (left; reflexivity). f_equal. assumption.
  - apply IH; [assumption|intros y Hy; apply HS; right; exact Hy|intros y Hy; apply HM; right; exact Hy].
Qed.

(* Clause 6 holds for every batch. *)
Theorem gro_csum_kept : forall (canUDP : bool) (offset : N) (bufs : list buf),
  bytes_ok bufs ->
  let s := handle_gro canUDP offset bufs in
  s_err s = false ->
  csum_kept_ok bufs (s_tw s) (s_bufs s) = true.
Proof.
  intros udp off inp Hbytes s He.
  pose proof (gro_bookkeeping udp off inp He) as [Hlen [Hnd [Hbound Htrace]]]. fold s in Hlen, Hnd, Hbound, Htrace.
  assert (Htw : s_tw s = tw_of (s_trace s) 0).
  { subst s. unfold handle_gro in *. rewrite gro_loop_is in *.
    set (s0 := loop_k udp off inp (length inp)) in *.
    assert (He0 : s_err s0 = false) by (destruct (s_err s0) eqn:E; [cbn iota in He; congruence|reflexivity]).
    rewrite He0. cbn [s_tw s_trace].
    destruct (loop_inv_all udp off inp (length inp) (le_n _) He0) as [I _]. apply (i_tw _ _ _ I). }
  assert (Hvalid : valid_trace (s_trace s)).
  { intros i j p Hn. destruct (Htrace i _ Hn) as [_ [H1 H2]]. rewrite <- Htw. auto. }
  set (f := fun m => canonv (b_pkt (get_buf inp m))).
  assert (Hper : forall j, In j (s_tw s) ->
            map canonv (kernel_segment (b_hdr (get_buf (s_bufs s) j)) (b_pkt (get_buf (s_bufs s) j))) =
            map f (members (s_trace s) j)).
  { intros j Hj. destruct (merged_dec (s_trace s) j) as [Hm|Hm].
    - apply (map_canonv (fun m => b_pkt (get_buf inp m))).
      + destruct (N.eq_dec (v_gso (dec_vhdr (b_hdr (get_buf (s_bufs s) j)))) GSO_UDP_L4) as [Eu|Eu].
        * apply (gro_udp_lossless udp off inp j He Hm Eu).
        * apply (gro_tcp_lossless udp off inp j Hbytes He Hm Eu).
      + destruct (gro_segment_checksums_valid udp off inp j He Hm) as [_ Hc]. fold s in Hc.
        intros x Hx. rewrite forallb_forall in Hc. specialize (Hc x Hx). apply andb_true_iff in Hc. apply Hc.
      + apply (gro_members_csum_valid udp off inp j He Hm).
    - destruct (gro_passthrough udp off inp j He Hj Hm) as [Hp Hz]. fold s in Hp, Hz.
      rewrite (members_fresh _ _ Hm). cbn [map]. unfold f.
      rewrite Hz, kernel_segment_zero, Hp. reflexivity. }
  unfold csum_kept_ok, segments, written. rewrite flat_map_map, map_flat_map.
  rewrite (flat_map_ext_in' _ (fun j => map f (members (s_trace s) j))) by exact Hper.
  rewrite <- map_flat_map.
  apply perm_eqb_complete.
  rewrite Htw.
  eapply perm_trans; [apply Permutation_map; apply members_partition; exact Hvalid|].
  rewrite Hlen. unfold f.
  pose proof (map_indices (fun b => canonv (b_pkt b)) inp 0 [] eq_refl) as E. cbn [app] in E. rewrite E.
  apply Permutation_refl.
Qed.
Print Assumptions gro_csum_kept.
