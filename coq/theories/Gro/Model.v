(* Executable mirror of the write-side coalescer of tun/offload_linux.go (the tree with the fixes
   951b0e7 flow label, 4a9316a 65535 guard, b918254 header of a deleted item, ad814da PSH on prepend;
   the code before them is Gro/OldModel.v):
   packetIsGROCandidate, ipHeadersCanCoalesce, tcpPacketsCanCoalesce,
   udpPacketsCanCoalesce, checksumValid, coalesceTCPPackets, coalesceUDPPackets,
   tcpGRO, udpGRO, applyTCP/UDPCoalesceAccounting, handleGRO and the GRO tables.

   A buffer bufs[i] (Go: slice with len = offset + |packet| and a capacity) is
   the record (b_hdr, b_pkt, b_cap): b_hdr = the virtioNetHdrLen bytes in front
   of the packet (bufs[i][offset-10:offset]), b_pkt = bufs[i][offset:],
   b_cap = cap(bufs[i]).  Bytes before offset-10 are never touched by the code.
   Tables are association lists flow key -> items in insertion order.
   uint16/uint32 arithmetic of the Go code is written with its wrap-around
   ([mod 65536], [mod 2^32]) wherever a value can exceed the width; numMerged
   and bufsIndex (uint16) are exact for batches below 65536 packets.
   No proofs here. *)
From WG Require Import Base.Prelude Gen.Constants Gro.Bytes.
Local Open Scope N_scope.

Definition VH : N := tun_virtioNetHdrLen.
(* Linux uapi numbers used by the code through x/sys/unix; the harness checks
   them against the unix package on every run (they are not in Gen.Constants). *)
Definition VIRTIO_NET_HDR_F_NEEDS_CSUM : N := 1.
Definition GSO_NONE : N := 0.
Definition GSO_TCPV4 : N := 1.
Definition GSO_TCPV6 : N := 4.
Definition GSO_UDP_L4 : N := 5.
Definition IPPROTO_TCP : N := 6.
Definition IPPROTO_UDP : N := 17.
Definition PSH : N := tun_tcpFlagPSH.
Definition ACK : N := tun_tcpFlagACK.
Definition FLAGS_OFF : N := tun_tcpFlagsOffset.
Definition UDPH : N := tun_udphLen.
Definition U32 : N := 4294967296.

Record buf := { b_hdr : list N; b_pkt : list N; b_cap : N }.
Definition dummy_buf : buf := {| b_hdr := []; b_pkt := []; b_cap := 0 |}.
Definition get_buf (bufs : list buf) (i : N) : buf := nth (N.to_nat i) bufs dummy_buf.
Definition set_buf (bufs : list buf) (i : N) (b : buf) : list buf := set_nth bufs (N.to_nat i) b.
Definition with_pkt (b : buf) (p : list N) : buf := {| b_hdr := b_hdr b; b_pkt := p; b_cap := b_cap b |}.
Definition with_hdr (b : buf) (h : list N) : buf := {| b_hdr := h; b_pkt := b_pkt b; b_cap := b_cap b |}.

(* tcpGROItem / udpGROItem in one record (it_seq, it_tcph, it_psh: TCP only;
   it_bad = cSumKnownInvalid: UDP only).  it_key = the flow key as bytes:
   [isV6] ++ srcAddr ++ dstAddr ++ srcPort ++ dstPort (++ rxAck for TCP). *)
Record item := {
  it_key : list N; it_v6 : bool; it_seq : N; it_idx : N; it_merged : N;
  it_gso : N; it_iph : N; it_tcph : N; it_psh : bool; it_bad : bool }.
Definition dummy_item : item :=
  {| it_key := []; it_v6 := false; it_seq := 0; it_idx := 0; it_merged := 0; it_gso := 0;
     it_iph := 0; it_tcph := 0; it_psh := false; it_bad := false |}.

Definition table := list (list N * list item).

Fixpoint tlookup (k : list N) (t : table) : option (list item) :=
  match t with
  | [] => None
  | (k', its) :: r => if list_eqb k k' then Some its else tlookup k r
  end.
Fixpoint tset (k : list N) (its : list item) (t : table) : table :=
  match t with
  | [] => [(k, its)]
  | (k', its') :: r => if list_eqb k k' then (k', its) :: r else (k', its') :: tset k its r
  end.
Definition titems (k : list N) (t : table) : list item :=
  match tlookup k t with Some l => l | None => [] end.
Fixpoint remove_nth {A} (i : nat) (l : list A) : list A :=
  match l, i with
  | [], _ => []
  | _ :: r, O => r
  | x :: r, S j => x :: remove_nth j r
  end.
(* insert: items = append(items, item); updateAt: items[i] = item; deleteAt *)
Definition tinsert (t : table) (it : item) : table := tset (it_key it) (titems (it_key it) t ++ [it]) t.
Definition tupdate (t : table) (it : item) (i : nat) : table := tset (it_key it) (set_nth (titems (it_key it) t) i it) t.
Definition tdelete (t : table) (k : list N) (i : nat) : table := tset k (remove_nth i (titems k t)) t.

(* virtioNetHdr.encode: the struct in memory, little-endian fields *)
Definition enc_vhdr (flags gsoType hdrLen gsoSize csumStart csumOffset : N) : list N :=
  [flags; gsoType] ++ enc_le16 hdrLen ++ enc_le16 gsoSize ++ enc_le16 csumStart ++ enc_le16 csumOffset.
Definition zero_vhdr : list N := enc_vhdr 0 0 0 0 0 0.

Inductive cand := NotCand | Tcp4 | Tcp6 | Udp4 | Udp6.

Definition classify (b : list N) (canUDP : bool) : cand :=
  if len b <? 28 then NotCand else
  if byte_at b 0 / 16 =? 4 then
    if negb (byte_at b 0 mod 16 =? 5) then NotCand
    else if (byte_at b 9 =? IPPROTO_TCP) && (40 <=? len b) then Tcp4
    else if (byte_at b 9 =? IPPROTO_UDP) && canUDP then Udp4
    else NotCand
  else if byte_at b 0 / 16 =? 6 then
    if (byte_at b 6 =? IPPROTO_TCP) && (60 <=? len b) then Tcp6
    else if (byte_at b 6 =? IPPROTO_UDP) && (48 <=? len b) && canUDP then Udp6
    else NotCand
  else NotCand.

Definition ip_headers_can_coalesce (a b : list N) : bool :=
  if (len a <? 9) || (len b <? 9) then false else
  if byte_at a 0 / 16 =? 6 then
    if negb (byte_at a 0 =? byte_at b 0) || negb (byte_at a 1 =? byte_at b 1)
       || negb (byte_at a 2 =? byte_at b 2) || negb (byte_at a 3 =? byte_at b 3) then false
    else if negb (byte_at a 7 =? byte_at b 7) then false
    else true
  else
    if negb (byte_at a 1 =? byte_at b 1) then false
    else if negb (byte_at a 6 / 32 =? byte_at b 6 / 32) then false
    else if negb (byte_at a 8 =? byte_at b 8) then false
    else true.

Inductive can := Unavail | CanAppend | CanPrepend.

Definition udp_can_coalesce (pkt : list N) (iph gso : N) (it : item) (target : list N) : can :=
  if negb (ip_headers_can_coalesce pkt target) then Unavail
  else if negb ((len target - (iph + UDPH)) mod it_gso it =? 0) then Unavail
  else if it_gso it <? gso then Unavail
  else CanAppend.

Definition tcp_can_coalesce (pkt : list N) (iph tcph seq : N) (psh : bool) (gso : N) (it : item) (target : list N) : can :=
  if negb (tcph =? it_tcph it) then Unavail
  else if (20 <? tcph) && negb (list_eqb (slice pkt (iph + 20) (iph + tcph)) (slice target (it_iph it + 20) (iph + tcph))) then Unavail
  else if negb (ip_headers_can_coalesce pkt target) then Unavail
  else
    (* lhsLen := item.gsoSize; lhsLen += item.numMerged * item.gsoSize   (uint16) *)
    let lhs := (it_gso it + it_merged it * it_gso it) mod 65536 in
    if seq =? (it_seq it + lhs) mod U32 then
      if it_psh it then Unavail
      else if negb ((len target - (iph + tcph)) mod it_gso it =? 0) then Unavail
      else if it_gso it <? gso then Unavail
      else CanAppend
    else if (seq + gso) mod U32 =? it_seq it then
      if psh then Unavail
      else if gso <? it_gso it then Unavail
      else if (it_gso it <? gso) && (0 <? it_merged it) then Unavail
      else CanPrepend
    else Unavail.

Definition checksum_valid (pkt : list N) (iph proto : N) (v6 : bool) : bool :=
  let src := if v6 then tun_ipv6SrcAddrOffset else tun_ipv4SrcAddrOffset in
  let al := if v6 then 16 else 4 in
  let l := (len pkt - iph) mod 65536 in
  checksum (drop iph pkt) (pseudo_sum proto (slice pkt src (src + al)) (slice pkt (src + al) (src + al * 2)) l) =? 65535.

Inductive cres := InsufficientCap | PSHEnding | ItemInvalidCSum | PktInvalidCSum | Success.

(* cap(pktHead) - bufsOffset < coalescedLen, with pktHead = bufs[i][offset:] *)
Definition no_room (b : buf) (offset clen : N) : bool := b_cap b <? clen + 2 * offset.

Definition coalesce_udp (pkt : list N) (it : item) (bufs : list buf) (offset : N) (v6 : bool)
  : cres * item * list buf :=
  let hb := get_buf bufs (it_idx it) in
  let head := b_pkt hb in
  let hl := it_iph it + UDPH in
  let clen := len head + len pkt - hl in
  if tun_maxUint16 <? clen then (InsufficientCap, it, bufs)
  else if no_room hb offset clen then (InsufficientCap, it, bufs)
  else if (it_merged it =? 0) && (it_bad it || negb (checksum_valid head (it_iph it) IPPROTO_UDP v6)) then (ItemInvalidCSum, it, bufs)
  else if negb (checksum_valid pkt (it_iph it) IPPROTO_UDP v6) then (PktInvalidCSum, it, bufs)
  else
    (Success,
     {| it_key := it_key it; it_v6 := it_v6 it; it_seq := it_seq it; it_idx := it_idx it;
        it_merged := it_merged it + 1; it_gso := it_gso it; it_iph := it_iph it; it_tcph := it_tcph it;
        it_psh := it_psh it; it_bad := it_bad it |},
     set_buf bufs (it_idx it) (with_pkt hb (head ++ drop hl pkt))).

Definition bump_item (it : item) (seq gso : N) (psh : bool) : item :=
  {| it_key := it_key it; it_v6 := it_v6 it; it_seq := seq; it_idx := it_idx it;
     it_merged := it_merged it + 1; it_gso := if it_gso it <? gso then gso else it_gso it;
     it_iph := it_iph it; it_tcph := it_tcph it; it_psh := psh; it_bad := it_bad it |}.

Definition coalesce_tcp (mode : can) (pkt : list N) (pktI gso seq : N) (psh : bool) (it : item)
  (bufs : list buf) (offset : N) (v6 : bool) : cres * item * list buf :=
  let hb := get_buf bufs (it_idx it) in
  let head := b_pkt hb in
  let hl := it_iph it + it_tcph it in
  let clen := len head + len pkt - hl in
  if tun_maxUint16 <? clen then (InsufficientCap, it, bufs) else
  match mode with
  | CanPrepend =>
      let pb := get_buf bufs pktI in
      if no_room pb offset clen then (InsufficientCap, it, bufs)
      else if psh then (PSHEnding, it, bufs)
      else if (it_merged it =? 0) && negb (checksum_valid head (it_iph it) IPPROTO_TCP v6) then (ItemInvalidCSum, it, bufs)
      else if negb (checksum_valid pkt (it_iph it) IPPROTO_TCP v6) then (PktInvalidCSum, it, bufs)
      else
        (* if item.pshSet { pkt[item.iphLen+tcpFlagsOffset] |= tcpFlagPSH };
           bufs[pktI] grows by the item's payload, then the two slice headers are swapped *)
        let fo := it_iph it + FLAGS_OFF in
        let pkt' := if it_psh it then put_byte pkt fo (N.lor (byte_at pkt fo) PSH) else pkt in
        (Success, bump_item it seq gso (it_psh it),
         set_buf (set_buf bufs pktI hb) (it_idx it) (with_pkt pb (pkt' ++ drop hl head)))
  | _ =>
      if no_room hb offset clen then (InsufficientCap, it, bufs)
      else if (it_merged it =? 0) && negb (checksum_valid head (it_iph it) IPPROTO_TCP v6) then (ItemInvalidCSum, it, bufs)
      else if negb (checksum_valid pkt (it_iph it) IPPROTO_TCP v6) then (PktInvalidCSum, it, bufs)
      else
        let fo := it_iph it + FLAGS_OFF in
        let head' := if psh then put_byte head fo (N.lor (byte_at head fo) PSH) else head in
        (Success, bump_item it (it_seq it) gso (if psh then true else it_psh it),
         set_buf bufs (it_idx it) (with_pkt hb (head' ++ drop hl pkt)))
  end.

(* groResult, with ghost data: which item's buffer the packet went into and how *)
Inductive gres := Noop | Inserted | Coalesced (into : N) (prepend : bool).

Definition flow_key (pkt : list N) (v6 : bool) (iph : N) (tcp : bool) : list N :=
  let src := if v6 then tun_ipv6SrcAddrOffset else tun_ipv4SrcAddrOffset in
  let al := if v6 then 16 else 4 in
  (if v6 then 1 else 0) :: slice pkt src (src + al * 2) ++ slice pkt iph (iph + 4) ++
  (if tcp then slice pkt (iph + 8) (iph + 12) else []).

(* the common length / fragment gates of tcpGRO and udpGRO; None = groResultNoop *)
Definition ip_gate (pkt : list N) (v6 : bool) : option N :=
  if tun_maxUint16 <? len pkt then None else
  let iph := if v6 then 40 else (byte_at pkt 0 mod 16) * 4 in
  if (if v6 then negb (be16 pkt 4 =? len pkt - iph) else negb (be16 pkt 2 =? len pkt)) then None
  else if len pkt <? iph then None
  else Some iph.
Definition frag_gate (pkt : list N) (v6 : bool) : bool :=
  if v6 then true
  else negb ((byte_at pkt 6 / tun_ipv4FlagMoreFragments) mod 2 =? 1) && (byte_at pkt 6 mod 32 =? 0) && (byte_at pkt 7 =? 0).

Section TcpLoop.
  Variables (pkt : list N) (pktI iph tcph seq gso : N) (psh v6 : bool) (offset : N) (newit : item).
  (* for i := len(items)-1; i >= 0; i-- over the snapshot [items] *)
  Fixpoint tcp_loop (n : nat) (items : list item) (bufs : list buf) (t : table) : gres * list buf * table :=
    match n with
    | O => (Inserted, bufs, tinsert t newit)
    | S i =>
        let it := nth i items dummy_item in
        let target := b_pkt (get_buf bufs (it_idx it)) in
        match tcp_can_coalesce pkt iph tcph seq psh gso it target with
        | Unavail => tcp_loop i items bufs t
        | mode =>
            match coalesce_tcp mode pkt pktI gso seq psh it bufs offset v6 with
            | (Success, it', bufs') =>
                (Coalesced (it_idx it) (match mode with CanPrepend => true | _ => false end), bufs', tupdate t it' i)
            | (ItemInvalidCSum, _, _) =>
                (* the item leaves the table: its virtio header is written here *)
                tcp_loop i items (set_buf bufs (it_idx it) (with_hdr (get_buf bufs (it_idx it)) zero_vhdr))
                         (tdelete t (it_key it) i)
            | (PktInvalidCSum, _, _) => (Noop, bufs, t)
            | _ => tcp_loop i items bufs t
            end
        end
    end.
End TcpLoop.

Definition tcp_gro (bufs : list buf) (offset pktI : N) (t : table) (v6 : bool) : gres * list buf * table :=
  let pkt := b_pkt (get_buf bufs pktI) in
  match ip_gate pkt v6 with
  | None => (Noop, bufs, t)
  | Some iph =>
      let tcph := (byte_at pkt (iph + 12) / 16) * 4 in
      if (tcph <? 20) || (60 <? tcph) then (Noop, bufs, t)
      (* if pkt[iphLen+12]&0x0f != 0: reserved bits or the NS/AE flag set (fix of gro-tcp-ns-flag-lost-in-merge) *)
      else if negb (byte_at pkt (iph + 12) mod 16 =? 0) then (Noop, bufs, t)
      else if len pkt <? iph + tcph then (Noop, bufs, t)
      else if negb (frag_gate pkt v6) then (Noop, bufs, t)
      else
        let flags := byte_at pkt (iph + FLAGS_OFF) in
        if negb (flags =? ACK) && negb (flags =? ACK + PSH) then (Noop, bufs, t)
        else
          let psh := negb (flags =? ACK) in
          let gso := len pkt - tcph - iph in
          if gso <? 1 then (Noop, bufs, t)
          else
            let seq := be32 pkt (iph + 4) in
            let key := flow_key pkt v6 iph true in
            let newit := {| it_key := key; it_v6 := v6; it_seq := seq; it_idx := pktI; it_merged := 0;
                            it_gso := gso; it_iph := iph; it_tcph := tcph; it_psh := psh; it_bad := false |} in
            match tlookup key t with
            | None => (Inserted, bufs, tinsert t newit)
            | Some items => tcp_loop pkt pktI iph tcph seq gso psh v6 offset newit (length items) items bufs t
            end
  end.

Definition udp_gro (bufs : list buf) (offset pktI : N) (t : table) (v6 : bool) : gres * list buf * table :=
  let pkt := b_pkt (get_buf bufs pktI) in
  match ip_gate pkt v6 with
  | None => (Noop, bufs, t)
  | Some iph =>
      if len pkt <? iph + UDPH then (Noop, bufs, t)
      else if negb (frag_gate pkt v6) then (Noop, bufs, t)
      else
        let gso := len pkt - UDPH - iph in
        if gso <? 1 then (Noop, bufs, t)
        else
          let key := flow_key pkt v6 iph false in
          let newit bad := {| it_key := key; it_v6 := v6; it_seq := 0; it_idx := pktI; it_merged := 0;
                              it_gso := gso; it_iph := iph; it_tcph := 0; it_psh := false; it_bad := bad |} in
          match tlookup key t with
          | None => (Inserted, bufs, tinsert t (newit false))
          | Some [] => (Inserted, bufs, tinsert t (newit false))   (* unreachable: a flow's list is never empty *)
          | Some items =>
              let i := (length items - 1)%nat in
              let it := nth i items dummy_item in
              let target := b_pkt (get_buf bufs (it_idx it)) in
              match udp_can_coalesce pkt iph gso it target with
              | CanAppend =>
                  match coalesce_udp pkt it bufs offset v6 with
                  | (Success, it', bufs') => (Coalesced (it_idx it) false, bufs', tupdate t it' i)
                  | (PktInvalidCSum, _, _) => (Inserted, bufs, tinsert t (newit true))
                  | _ => (Inserted, bufs, tinsert t (newit false))
                  end
              | _ => (Inserted, bufs, tinsert t (newit false))
              end
          end
  end.

(* apply*CoalesceAccounting for one item *)
Definition account_item (tcp : bool) (bufs : list buf) (it : item) : list buf :=
  let b := get_buf bufs (it_idx it) in
  if 0 <? it_merged it then
    let pkt := b_pkt b in
    let iph := it_iph it in
    let v6 := it_v6 it in
    let hl := if tcp then iph + it_tcph it else iph + UDPH in
    let gt := if tcp then (if v6 then GSO_TCPV6 else GSO_TCPV4) else GSO_UDP_L4 in
    let co := if tcp then 16 else 6 in
    let hdr := enc_vhdr VIRTIO_NET_HDR_F_NEEDS_CSUM gt hl (it_gso it) iph co in
    let l4 := (len pkt - iph) mod 65536 in
    let pkt1 :=
      if v6 then put_be16 pkt 4 l4
      else
        let p := put_be16 (put_bytes pkt 10 [0; 0]) 2 (len pkt mod 65536) in
        put_be16 p 10 (cnot16 (checksum (take iph p) 0)) in
    let pkt2 := if tcp then pkt1 else put_be16 pkt1 (iph + 4) l4 in
    let src := if v6 then tun_ipv6SrcAddrOffset else tun_ipv4SrcAddrOffset in
    let al := if v6 then 16 else 4 in
    let psum := pseudo_sum (if tcp then IPPROTO_TCP else IPPROTO_UDP)
                  (slice pkt2 src (src + al)) (slice pkt2 (src + al) (src + al * 2)) l4 in
    set_buf bufs (it_idx it) {| b_hdr := hdr; b_pkt := put_be16 pkt2 (iph + co) (checksum [] psum); b_cap := b_cap b |}
  else set_buf bufs (it_idx it) (with_hdr b zero_vhdr).

Definition account (tcp : bool) (bufs : list buf) (t : table) : list buf :=
  fold_left (fun bs kv => fold_left (account_item tcp) (snd kv) bs) t bufs.

Record state := {
  s_err : bool; s_bufs : list buf; s_tw : list N; s_tcp : table; s_udp : table;
  s_trace : list gres (* ghost: the groResult of every packet evaluated *) }.

Definition init (bufs : list buf) : state :=
  {| s_err := false; s_bufs := bufs; s_tw := []; s_tcp := []; s_udp := []; s_trace := [] |}.

(* one iteration of the loop of handleGRO *)
Definition gro_step (canUDP : bool) (offset : N) (s : state) (i : N) : state :=
  if s_err s then s else
  let pkt := b_pkt (get_buf (s_bufs s) i) in
  if (offset <? VH) || (len pkt =? 0) then
    {| s_err := true; s_bufs := s_bufs s; s_tw := s_tw s; s_tcp := s_tcp s; s_udp := s_udp s; s_trace := s_trace s |}
  else
    let '(r, bufs, tct, udt) :=
      match classify pkt canUDP with
      | Tcp4 => let '(r, b, t) := tcp_gro (s_bufs s) offset i (s_tcp s) false in (r, b, t, s_udp s)
      | Tcp6 => let '(r, b, t) := tcp_gro (s_bufs s) offset i (s_tcp s) true in (r, b, t, s_udp s)
      | Udp4 => let '(r, b, t) := udp_gro (s_bufs s) offset i (s_udp s) false in (r, b, s_tcp s, t)
      | Udp6 => let '(r, b, t) := udp_gro (s_bufs s) offset i (s_udp s) true in (r, b, s_tcp s, t)
      | NotCand => (Noop, s_bufs s, s_tcp s, s_udp s)
      end in
    match r with
    | Noop =>
        {| s_err := false; s_bufs := set_buf bufs i (with_hdr (get_buf bufs i) zero_vhdr); s_tw := s_tw s ++ [i];
           s_tcp := tct; s_udp := udt; s_trace := s_trace s ++ [r] |}
    | Inserted =>
        {| s_err := false; s_bufs := bufs; s_tw := s_tw s ++ [i]; s_tcp := tct; s_udp := udt; s_trace := s_trace s ++ [r] |}
    | Coalesced _ _ =>
        {| s_err := false; s_bufs := bufs; s_tw := s_tw s; s_tcp := tct; s_udp := udt; s_trace := s_trace s ++ [r] |}
    end.

Fixpoint indices (n : nat) (from : N) : list N :=
  match n with O => [] | S k => from :: indices k (from + 1) end.

Definition gro_loop (canUDP : bool) (offset : N) (bufs : list buf) : state :=
  fold_left (gro_step canUDP offset) (indices (length bufs) 0) (init bufs).

(* handleGRO: on "invalid offset" the function returns before the accounting *)
Definition handle_gro (canUDP : bool) (offset : N) (bufs : list buf) : state :=
  let s := gro_loop canUDP offset bufs in
  if s_err s then s else
  {| s_err := false; s_bufs := account false (account true (s_bufs s) (s_tcp s)) (s_udp s);
     s_tw := s_tw s; s_tcp := s_tcp s; s_udp := s_udp s; s_trace := s_trace s |}.
