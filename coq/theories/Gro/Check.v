(* Correspondence checker for C16: run the model of handleGRO on the batches the
   implementation ran, compare toWrite and every written buffer (virtio header
   and packet) byte for byte, and evaluate the specification [holdsb] on the
   implementation's observed output.  Depends on Model/KernelSpec/Spec only. *)
From WG Require Import Base.Prelude Gen.Constants Gro.Bytes Gro.Model Gro.OldModel Gro.KernelSpec Gro.Spec.
Local Open Scope N_scope.

Record case := {
  c_udp : bool; c_off : N; c_in : list buf;
  c_err : bool; c_tw : list N; c_out : list buf (* the written buffers, in toWrite order *);
  c_w : bool (* write-path case: one NativeTun.Write on a device that has seen earlier calls; only the
                datagrams that reached the fd are observed (c_out), toWrite is not (c_tw = []) *) }.

(* Case files carry bytes as primitive 63-bit integers (7 bytes each). *)
From WG Require Import Base.Ints.
From Coq Require Import Uint63.
Local Open Scope N_scope.
(* a buffer: capacity, byte length of (10-byte header region ++ packet), data *)
(* Unpacking with primitive shifts and masks (Base.Ints.unpack goes through N division: 37 us per
   byte, which dominated the run time of the case files). *)
Definition bitn (b : Uint63.int) (k : Uint63.int) (w : N) : N :=
  if Uint63.eqb (Uint63.land (Uint63.lsr b k) 1%uint63) 0%uint63 then 0 else w.
Definition byte_of_int (b : Uint63.int) : N :=
  bitn b 0%uint63 1 + bitn b 1%uint63 2 + bitn b 2%uint63 4 + bitn b 3%uint63 8
  + bitn b 4%uint63 16 + bitn b 5%uint63 32 + bitn b 6%uint63 64 + bitn b 7%uint63 128.
Fixpoint unpack_word (n : nat) (x : Uint63.int) : list N :=
  match n with
  | O => []
  | S k => byte_of_int (Uint63.land x 255%uint63) :: unpack_word k (Uint63.lsr x 8%uint63)
  end.
Fixpoint unpack_words (l : list Uint63.int) : list N :=
  match l with
  | [] => []
  | x :: t => unpack_word 7 x ++ unpack_words t
  end.
Definition unpack_fast (len : Uint63.int) (l : list Uint63.int) : list N :=
  firstn (N.to_nat (n_of_int len)) (unpack_words l).

Definition mkbuf (cap : Uint63.int) (n : Uint63.int) (data : list Uint63.int) : buf :=
  let l := unpack_fast n data in
  {| b_hdr := take VH l; b_pkt := drop VH l; b_cap := n_of_int cap |}.
Definition mk (udp : bool) (off : Uint63.int) (inp : list buf) (err : bool) (tw : list Uint63.int) (out : list buf) : case :=
  {| c_udp := udp; c_off := n_of_int off; c_in := inp; c_err := err; c_tw := ns_of_ints tw; c_out := out; c_w := false |}.
Definition mkw (udp : bool) (off : Uint63.int) (inp : list buf) (err : bool) (out : list buf) : case :=
  {| c_udp := udp; c_off := n_of_int off; c_in := inp; c_err := err; c_tw := []; c_out := out; c_w := true |}.

Definition buf_eqb (a b : buf) : bool := list_eqb (b_hdr a) (b_hdr b) && list_eqb (b_pkt a) (b_pkt b).

Fixpoint first_buf_diff (a b : list buf) (i : N) : option N :=
  match a, b with
  | [], [] => None
  | x :: a', y :: b' => if buf_eqb x y then first_buf_diff a' b' (i + 1) else Some i
  | _, _ => Some i
  end.

(* observed final buffers: the written ones at their indices, the inputs elsewhere *)
Fixpoint place (bufs : list buf) (tw : list N) (out : list buf) : list buf :=
  match tw, out with
  | i :: tw', b :: out' => place (set_buf bufs i b) tw' out'
  | _, _ => bufs
  end.

(* A UDP datagram the coalescer does not consider (zero payload, IPv4 options,
   inconsistent length): used only to name a failure of the order clause. *)
Definition udp_eligible (p : list N) : bool :=
  match classify p true with
  | Udp4 => match ip_gate p false with
            | Some iph => (iph + UDPH <? len p) && frag_gate p false
            | None => false end
  | Udp6 => match ip_gate p true with
            | Some iph => (iph + UDPH <? len p)
            | None => false end
  | _ => false
  end.
Definition keep_eligible (p : list N) : bool :=
  match udp_flow p with Some _ => udp_eligible p | None => true end.
(* ... and only those with an empty payload *)
Definition keep_nonempty (p : list N) : bool :=
  match udp_flow p, l3_parse p with
  | Some _, Some (_, iph, _, _) => iph + 8 <? len p
  | _, _ => true
  end.

(* a written buffer whose 10 bytes in front of the packet were never written:
   they still hold the (non-zero) bytes they had before the call *)
Definition hdr_untouched (inp : list buf) (tw : list N) (out : list buf) : bool :=
  existsb (fun i => let o := get_buf out i in let b := get_buf inp i in
                    list_eqb (b_hdr o) (b_hdr b) && negb (all_zero (b_hdr o)) && list_eqb (b_pkt o) (b_pkt b)) tw.

(* 0 = the specification holds; otherwise the clause that fails, refined where the
   failure has a recognisable cause (the shapes of the defects fixed by 951b0e7,
   4a9316a, b918254, ad814da, so that a regression is reported under its old name,
   and of the known finding about UDP order):
   65 a written GSO buffer is longer than 65535 bytes
   21 a written buffer's virtio header was never written (stale non-zero bytes) exactly where the
      code before b918254 left it;  22 elsewhere;  20 other passthrough failure
   10 bookkeeping (indices / number of segments)
   38 flow-equivalence fails only in the IPv6 flow label
   37 only in the TCP PSH bit, and the batch has a prepend;  36 only in the PSH bit, no prepend;  30 otherwise
   41 UDP order fails only because a zero-length datagram was overtaken;
   42 only because some other datagram the coalescer skips was overtaken;  40 otherwise
   51 descriptor, 52 length fields, 53 checksums of the segments *)
Definition has_prepend (m : state) : bool :=
  existsb (fun r => match r with Coalesced _ true => true | _ => false end) (s_trace m).
Definition spec_code (udp : bool) (off : N) (m : state) (inp : list buf) (tw : list N) (out : list buf) : N :=
  if holdsb inp tw out then 0
  else if existsb (fun b => 65535 <? len (b_pkt b)) (gso_buffers tw out) then 65
  else if hdr_untouched inp tw out then
    (let o := Old.handle_gro udp off inp in if hdr_untouched inp (s_tw o) (s_bufs o) then 21 else 22)
  else if negb (passthrough_ok inp tw out) then 20
  else if negb (bookkeeping_ok inp tw out) then 10
  else if negb (floweq_ok inp tw out) then
    (if floweq_gen true false inp tw out then 38
     else if floweq_gen false true inp tw out then (if has_prepend m then 37 else 36) else 30)
  else if negb (csum_kept_ok inp tw out) then (if csum_kept_gen false inp tw out then 35 else 39)
  else if negb (udp_order_ok inp tw out) then
    (if udp_order_gen keep_nonempty inp tw out then 41
     else if udp_order_gen keep_eligible inp tw out then 42 else 40)
  else if negb (descriptors_ok tw out) then 51
  else if negb (lengths_all_ok tw out) then 52
  else 53.

(* Write path: NativeTun.Write = handleGRO with EMPTY tables on every call, then one write per
   toWrite entry of (virtio header ++ packet); a failing handleGRO writes nothing.  The judgement of
   what reached the fd needs no indices: as many segments as inputs, the segments are the inputs
   (multiset, compared bytes), order within UDP flows, uncoalesced datagrams have a zero header,
   GSO buffers are well-formed with valid checksums.  Codes as in spec_code (10, 20, 30/36/37/38, 39,
   40/41/42, 51/52/53, 65). *)
Definition write_code (m : state) (inp : list buf) (outs : list buf) : N :=
  let tw := indices (length outs) 0 in
  let segs := segments tw outs in
  if existsb (fun b => 65535 <? len (b_pkt b)) (gso_buffers tw outs) then 65
  else if negb (length segs =? length inp)%nat then 10
  else if negb (forallb (fun o => is_gso o || (all_zero (b_hdr o) && (len (b_hdr o) =? VH))) outs) then 20
  else if negb (floweq_ok inp tw outs) then
    (if floweq_gen true false inp tw outs then 38
     else if floweq_gen false true inp tw outs then (if has_prepend m then 37 else 36) else 30)
  else if negb (csum_kept_ok inp tw outs) then (if csum_kept_gen false inp tw outs then 35 else 39)
  else if negb (udp_order_ok inp tw outs) then
    (if udp_order_gen keep_nonempty inp tw outs then 41
     else if udp_order_gen keep_eligible inp tw outs then 42 else 40)
  else if negb (descriptors_ok tw outs) then 51
  else if negb (lengths_all_ok tw outs) then 52
  else if negb (checksums_ok tw outs) then 53
  else 0.

(* kind 1 = implementation differs from the mirror model:
     pos 1 error flag, 2 toWrite, 100+k the k-th written buffer
   kind 2 = the specification fails on the implementation's behaviour: pos = spec_code *)
Definition check_with (k : case) (m : state) : list (N * N) :=
  let d1 :=
    if negb (Bool.eqb (s_err m) (c_err k)) then [(1, 1)]
    else if c_w k then
      (match first_buf_diff (if s_err m then [] else written (s_tw m) (s_bufs m)) (c_out k) 0 with
       | Some i => [(1, 100 + i)]
       | None => []
       end)
    else if negb (list_eqb (s_tw m) (c_tw k)) then [(1, 2)]
    else match first_buf_diff (written (s_tw m) (s_bufs m)) (c_out k) 0 with
         | Some i => [(1, 100 + i)]
         | None => []
         end in
  let d2 :=
    if c_w k then
      (if c_err k then (match c_out k with [] => [] | _ => [(2, 11)] end)     (* a failing Write must write nothing *)
       else match write_code m (c_in k) (c_out k) with 0 => [] | c => [(2, c)] end)
    else if c_err k then []
    else match spec_code (c_udp k) (c_off k) m (c_in k) (c_tw k) (place (c_in k) (c_tw k) (c_out k)) with
         | 0 => []
         | c => [(2, c)]
         end in
  d1 ++ d2.
Definition check_case (k : case) : list (N * N) := check_with k (handle_gro (c_udp k) (c_off k) (c_in k)).

(* Branch statistics of the model over the cases:
   [packets; noop; inserted; appended; prepended; TCP GSO buffers; UDP GSO buffers; error returns] *)
Fixpoint bump (l : list N) (i : nat) (d : N) : list N :=
  match l, i with
  | [], _ => []
  | x :: t, O => (x + d) :: t
  | x :: t, S j => x :: bump t j d
  end.
Definition stats_case (st : list N) (k : case) (m : state) : list N :=
  let st := bump st 0 (len (map b_cap (c_in k))) in
  let st := fold_left (fun st r => match r with
                                   | Noop => bump st 1 1
                                   | Inserted => bump st 2 1
                                   | Coalesced _ false => bump st 3 1
                                   | Coalesced _ true => bump st 4 1
                                   end) (s_trace m) st in
  let g := gso_buffers (s_tw m) (s_bufs m) in
  let nu := len (map b_cap (filter (fun b => v_gso (dec_vhdr (b_hdr b)) =? K_GSO_UDP_L4) g)) in
  let st := bump st 5 (len (map b_cap g) - nu) in
  let st := bump st 6 nu in
  if s_err m then bump st 7 1 else st.

(* one pass: (failures, statistics) *)
Fixpoint eval_cases (ks : list case) (idx : N) (bad : list (N * N * N)) (st : list N) : list (N * N * N) * list N :=
  match ks with
  | [] => (bad, st)
  | k :: ks' =>
      let m := handle_gro (c_udp k) (c_off k) (c_in k) in
      eval_cases ks' (idx + 1) (bad ++ map (fun p => (idx, fst p, snd p)) (check_with k m)) (stats_case st k m)
  end.
Definition run_cases (ks : list case) : list (N * N * N) * list N := eval_cases ks 0 [] [0;0;0;0;0;0;0;0].
Definition check_cases (ks : list case) : list (N * N * N) := fst (run_cases ks).
Definition stats (ks : list case) : list N := snd (run_cases ks).
