(* Wire formats of the four WireGuard messages over bytes (list N, each < 256),
   mirroring marshal / unmarshal of MessageInitiation, MessageResponse,
   MessageCookieReply (noise-protocol.go) and the transport header written in
   send.go / read in receive.go: fixed sizes 148 / 92 / 64, 16-byte transport
   header, little-endian integers, the field offsets of the Go code
   (8, 8+32, 8+32+48, ...). *)
From WG Require Import Base.Prelude Gen.Constants.
Local Open Scope N_scope.

(* field sizes (noise-types.go, poly1305, tai64n, blake2s, chacha20poly1305) *)
Definition NoisePublicKeySize : nat := 32.
Definition TagSize : nat := 16.
Definition TimestampSize : nat := 12.
Definition Mac128Size : nat := 16.
Definition NonceSizeX : nat := 24.
Definition StaticFieldSize : nat := NoisePublicKeySize + TagSize.    (* 48 *)
Definition TimestampFieldSize : nat := TimestampSize + TagSize.      (* 28 *)
Definition CookieFieldSize : nat := Mac128Size + TagSize.            (* 32 *)

(* binary.LittleEndian.PutUint32 / Uint32 *)
Definition le32 (x : N) : list N :=
  [x mod 256; (x / 256) mod 256; (x / 256 / 256) mod 256; (x / 256 / 256 / 256) mod 256].
Definition rd32 (l : list N) : N :=
  match l with
  | a :: b :: c :: d :: _ => a + 256 * (b + 256 * (c + 256 * d))
  | _ => 0
  end.
Definition le64 (x : N) : list N := le32 (x mod 4294967296) ++ le32 (x / 4294967296).
Definition rd64 (l : list N) : N := rd32 (firstn 4 l) + 4294967296 * rd32 (skipn 4 l).

Lemma rd32_le32 x : x < 4294967296 -> rd32 (le32 x) = x.
Proof. intros H. unfold rd32, le32. lia. Qed.

Lemma le32_length x : length (le32 x) = 4%nat.
Proof. reflexivity. Qed.

Lemma le64_length x : length (le64 x) = 8%nat.
Proof. reflexivity. Qed.

Lemma rd64_le64 x : x < 18446744073709551616 -> rd64 (le64 x) = x.
Proof.
  intros H. unfold rd64, le64. change (firstn 4 (le32 ?a ++ ?b)) with (le32 a).
  change (skipn 4 (le32 ?a ++ le32 ?b)) with (le32 b).
  rewrite !rd32_le32; lia.
Qed.

(* b[off : off+len] *)
Definition slice (l : list N) (off len : nat) : list N := firstn len (skipn off l).

Lemma slice_concat (pre post : list (list N)) (x : list N) off n :
  length (concat pre) = off -> length x = n ->
  slice (concat (pre ++ [x] ++ post)) off n = x.
Proof.
  intros Ho Hn. unfold slice. rewrite concat_app. subst off.
  rewrite skipn_app, skipn_all, Nat.sub_diag. cbn [app skipn concat].
  subst n. rewrite firstn_app, firstn_all, Nat.sub_diag. cbn [firstn]. now rewrite app_nil_r.
Qed.

Lemma firstn_app_exact (a b : list N) n : length a = n -> firstn n (a ++ b) = a.
Proof. intros <-. rewrite firstn_app, firstn_all, Nat.sub_diag. cbn [firstn]. apply app_nil_r. Qed.

Lemma concat_length7 (a b c d e f g : list N) :
  length (concat [a; b; c; d; e; f; g]) =
  (length a + length b + length c + length d + length e + length f + length g)%nat.
Proof. cbn [concat]. rewrite !app_length. cbn [length]. lia. Qed.

(* ---- MessageInitiation -------------------------------------------------- *)
Record winit := { wi_type : N; wi_sender : N; wi_eph : list N; wi_static : list N; wi_ts : list N;
                  wi_mac1 : list N; wi_mac2 : list N }.

(* what the Go struct's types guarantee *)
Definition wf_init (m : winit) : Prop :=
  wi_type m < 4294967296 /\ wi_sender m < 4294967296 /\
  length (wi_eph m) = NoisePublicKeySize /\ length (wi_static m) = StaticFieldSize /\
  length (wi_ts m) = TimestampFieldSize /\ length (wi_mac1 m) = Mac128Size /\ length (wi_mac2 m) = Mac128Size.

(* marshal *)
Definition encode_init (m : winit) : list N :=
  concat [le32 (wi_type m); le32 (wi_sender m); wi_eph m; wi_static m; wi_ts m; wi_mac1 m; wi_mac2 m].

(* offsets as the Go code computes them *)
Definition off_i_eph : nat := 8.
Definition off_i_static : nat := 8 + NoisePublicKeySize.
Definition off_i_ts : nat := 8 + NoisePublicKeySize + StaticFieldSize.
Definition off_i_mac1 : nat := 8 + NoisePublicKeySize + StaticFieldSize + TimestampFieldSize.
Definition off_i_mac2 : nat := 8 + NoisePublicKeySize + StaticFieldSize + TimestampFieldSize + Mac128Size.

(* unmarshal *)
Definition decode_init (b : list N) : option winit :=
  if negb (N.of_nat (length b) =? MessageInitiationSize) then None else
  Some {| wi_type := rd32 (slice b 0 4); wi_sender := rd32 (slice b 4 4);
          wi_eph := slice b off_i_eph NoisePublicKeySize;
          wi_static := slice b off_i_static StaticFieldSize;
          wi_ts := slice b off_i_ts TimestampFieldSize;
          wi_mac1 := slice b off_i_mac1 Mac128Size;
          wi_mac2 := slice b off_i_mac2 Mac128Size |}.

(* ---- MessageResponse ---------------------------------------------------- *)
Record wresp := { wr_type : N; wr_sender : N; wr_receiver : N; wr_eph : list N; wr_empty : list N;
                  wr_mac1 : list N; wr_mac2 : list N }.
Definition wf_resp (m : wresp) : Prop :=
  wr_type m < 4294967296 /\ wr_sender m < 4294967296 /\ wr_receiver m < 4294967296 /\
  length (wr_eph m) = NoisePublicKeySize /\ length (wr_empty m) = TagSize /\
  length (wr_mac1 m) = Mac128Size /\ length (wr_mac2 m) = Mac128Size.
Definition encode_resp (m : wresp) : list N :=
  concat [le32 (wr_type m); le32 (wr_sender m); le32 (wr_receiver m); wr_eph m; wr_empty m; wr_mac1 m; wr_mac2 m].
Definition off_r_eph : nat := 12.
Definition off_r_empty : nat := 12 + NoisePublicKeySize.
Definition off_r_mac1 : nat := 12 + NoisePublicKeySize + TagSize.
Definition off_r_mac2 : nat := 12 + NoisePublicKeySize + TagSize + Mac128Size.
Definition decode_resp (b : list N) : option wresp :=
  if negb (N.of_nat (length b) =? MessageResponseSize) then None else
  Some {| wr_type := rd32 (slice b 0 4); wr_sender := rd32 (slice b 4 4); wr_receiver := rd32 (slice b 8 4);
          wr_eph := slice b off_r_eph NoisePublicKeySize;
          wr_empty := slice b off_r_empty TagSize;
          wr_mac1 := slice b off_r_mac1 Mac128Size;
          wr_mac2 := slice b off_r_mac2 Mac128Size |}.

(* ---- MessageCookieReply -------------------------------------------------- *)
Record wcookie := { wc_type : N; wc_receiver : N; wc_nonce : list N; wc_cookie : list N }.
Definition wf_cookie (m : wcookie) : Prop :=
  wc_type m < 4294967296 /\ wc_receiver m < 4294967296 /\
  length (wc_nonce m) = NonceSizeX /\ length (wc_cookie m) = CookieFieldSize.
Definition encode_cookie (m : wcookie) : list N :=
  concat [le32 (wc_type m); le32 (wc_receiver m); wc_nonce m; wc_cookie m].
Definition decode_cookie (b : list N) : option wcookie :=
  if negb (N.of_nat (length b) =? MessageCookieReplySize) then None else
  Some {| wc_type := rd32 (slice b 0 4); wc_receiver := rd32 (slice b 4 4);
          wc_nonce := slice b 8 NonceSizeX; wc_cookie := slice b (8 + NonceSizeX) CookieFieldSize |}.

(* ---- MessageTransport (header written in RoutineEncryption, read in RoutineReceiveIncoming) *)
Record wtransport := { wt_type : N; wt_receiver : N; wt_counter : N; wt_content : list N }.
Definition wf_transport (m : wtransport) : Prop :=
  wt_type m < 4294967296 /\ wt_receiver m < 4294967296 /\ wt_counter m < 18446744073709551616 /\
  (TagSize <= length (wt_content m))%nat.
Definition encode_transport (m : wtransport) : list N :=
  concat [le32 (wt_type m); le32 (wt_receiver m); le64 (wt_counter m); wt_content m].
Definition decode_transport (b : list N) : option wtransport :=
  if N.of_nat (length b) <? MessageTransportSize then None else
  Some {| wt_type := rd32 (slice b 0 4);
          wt_receiver := rd32 (slice b (N.to_nat MessageTransportOffsetReceiver) 4);
          wt_counter := rd64 (slice b (N.to_nat MessageTransportOffsetCounter) 8);
          wt_content := skipn (N.to_nat MessageTransportOffsetContent) b |}.

(* ---- sizes ---------------------------------------------------------------- *)
Theorem init_size m : wf_init m -> N.of_nat (length (encode_init m)) = MessageInitiationSize.
Proof.
  intros (_ & _ & He & Hs & Ht & H1 & H2). unfold encode_init. rewrite concat_length7.
  rewrite He, Hs, Ht, H1, H2. reflexivity.
Qed.

Theorem resp_size m : wf_resp m -> N.of_nat (length (encode_resp m)) = MessageResponseSize.
Proof.
  intros (_ & _ & _ & He & Hs & H1 & H2). unfold encode_resp. rewrite concat_length7.
  rewrite He, Hs, H1, H2. reflexivity.
Qed.

Theorem cookie_size m : wf_cookie m -> N.of_nat (length (encode_cookie m)) = MessageCookieReplySize.
Proof.
  intros (_ & _ & Hn & Hc). unfold encode_cookie. cbn [concat]. rewrite !app_length, Hn, Hc. reflexivity.
Qed.

Theorem transport_size m :
  N.of_nat (length (encode_transport m)) = MessageTransportHeaderSize + N.of_nat (length (wt_content m)).
Proof.
  unfold encode_transport. cbn [concat]. rewrite !app_length, !le32_length, le64_length. cbn [length].
  change MessageTransportHeaderSize with 16. lia.
Qed.

(* ---- round trips ----------------------------------------------------------- *)
Ltac field pre post :=
  match goal with
  | |- slice (concat ?l) _ _ = ?x =>
      change (concat l) with (concat (pre ++ [x] ++ post)); apply slice_concat;
      [cbn [concat]; rewrite ?app_length, ?app_nil_r; cbn [length]; congruence || (repeat match goal with H : length _ = _ |- _ => rewrite H end; reflexivity)
      | assumption || reflexivity]
  end.

Theorem decode_encode_init m : wf_init m -> decode_init (encode_init m) = Some m.
Proof.
  intros Hwf. unfold decode_init. rewrite (init_size m Hwf), N.eqb_refl. cbn [negb].
  destruct Hwf as (Ht & Hsd & He & Hs & Hts & H1 & H2).
  destruct m as [t s e st ts m1 m2]; cbn [wi_type wi_sender wi_eph wi_static wi_ts wi_mac1 wi_mac2] in *.
  unfold encode_init; cbn [wi_type wi_sender wi_eph wi_static wi_ts wi_mac1 wi_mac2].
  f_equal. f_equal.
  - transitivity (rd32 (le32 t)); [f_equal; field (@nil (list N)) [le32 s; e; st; ts; m1; m2] | apply rd32_le32; assumption].
  - transitivity (rd32 (le32 s)); [f_equal; field [le32 t] [e; st; ts; m1; m2] | apply rd32_le32; assumption].
  - field [le32 t; le32 s] [st; ts; m1; m2].
  - field [le32 t; le32 s; e] [ts; m1; m2].
  - field [le32 t; le32 s; e; st] [m1; m2].
  - field [le32 t; le32 s; e; st; ts] [m2].
  - field [le32 t; le32 s; e; st; ts; m1] (@nil (list N)).
Qed.

Theorem decode_encode_resp m : wf_resp m -> decode_resp (encode_resp m) = Some m.
Proof.
  intros Hwf. unfold decode_resp. rewrite (resp_size m Hwf), N.eqb_refl. cbn [negb].
  destruct Hwf as (Ht & Hsd & Hrc & He & Hs & H1 & H2).
  destruct m as [t s r e em m1 m2]; cbn [wr_type wr_sender wr_receiver wr_eph wr_empty wr_mac1 wr_mac2] in *.
  unfold encode_resp; cbn [wr_type wr_sender wr_receiver wr_eph wr_empty wr_mac1 wr_mac2].
  f_equal. f_equal.
  - transitivity (rd32 (le32 t)); [f_equal; field (@nil (list N)) [le32 s; le32 r; e; em; m1; m2] | apply rd32_le32; assumption].
  - transitivity (rd32 (le32 s)); [f_equal; field [le32 t] [le32 r; e; em; m1; m2] | apply rd32_le32; assumption].
  - transitivity (rd32 (le32 r)); [f_equal; field [le32 t; le32 s] [e; em; m1; m2] | apply rd32_le32; assumption].
  - field [le32 t; le32 s; le32 r] [em; m1; m2].
  - field [le32 t; le32 s; le32 r; e] [m1; m2].
  - field [le32 t; le32 s; le32 r; e; em] [m2].
  - field [le32 t; le32 s; le32 r; e; em; m1] (@nil (list N)).
Qed.

Theorem decode_encode_cookie m : wf_cookie m -> decode_cookie (encode_cookie m) = Some m.
Proof.
  intros Hwf. unfold decode_cookie. rewrite (cookie_size m Hwf), N.eqb_refl. cbn [negb].
  destruct Hwf as (Ht & Hr & Hn & Hc).
  destruct m as [t r n c]; cbn [wc_type wc_receiver wc_nonce wc_cookie] in *.
  unfold encode_cookie; cbn [wc_type wc_receiver wc_nonce wc_cookie].
  f_equal. f_equal.
  - transitivity (rd32 (le32 t)); [f_equal; field (@nil (list N)) [le32 r; n; c] | apply rd32_le32; assumption].
  - transitivity (rd32 (le32 r)); [f_equal; field [le32 t] [n; c] | apply rd32_le32; assumption].
  - field [le32 t; le32 r] [c].
  - field [le32 t; le32 r; n] (@nil (list N)).
Qed.

Theorem decode_encode_transport m : wf_transport m -> decode_transport (encode_transport m) = Some m.
Proof.
  intros (Ht & Hr & Hc & Hl). unfold decode_transport. rewrite transport_size.
  change MessageTransportHeaderSize with 16. change MessageTransportSize with 32.
  replace (16 + N.of_nat (length (wt_content m)) <? 32) with false
    by (symmetry; apply N.ltb_ge; unfold TagSize in Hl; lia).
  destruct m as [t r c ct]; cbn [wt_type wt_receiver wt_counter wt_content] in *.
  unfold encode_transport; cbn [wt_type wt_receiver wt_counter wt_content].
  change (N.to_nat MessageTransportOffsetReceiver) with 4%nat.
  change (N.to_nat MessageTransportOffsetCounter) with 8%nat.
  change (N.to_nat MessageTransportOffsetContent) with 16%nat.
  f_equal. f_equal.
  - transitivity (rd32 (le32 t)); [f_equal; field (@nil (list N)) [le32 r; le64 c; ct] | apply rd32_le32; assumption].
  - transitivity (rd32 (le32 r)); [f_equal; field [le32 t] [le64 c; ct] | apply rd32_le32; assumption].
  - transitivity (rd64 (le64 c)); [f_equal; field [le32 t; le32 r] [ct] | apply rd64_le64; assumption].
  - cbn [concat]. rewrite app_nil_r. reflexivity.
Qed.

(* ---- positions of the MAC fields ------------------------------------------- *)
(* MAC1 is the 16 bytes at size-32, MAC2 the 16 bytes at size-16 (AddMacs:
   smac2 = size - 16, smac1 = smac2 - 16), in both handshake messages; the
   bytes MAC1 covers are exactly the encoding of the preceding fields. *)
Theorem mac1_position_init m : wf_init m ->
  slice (encode_init m) (N.to_nat MessageInitiationSize - 32) 16 = wi_mac1 m /\
  slice (encode_init m) (N.to_nat MessageInitiationSize - 16) 16 = wi_mac2 m /\
  firstn (N.to_nat MessageInitiationSize - 32) (encode_init m)
    = concat [le32 (wi_type m); le32 (wi_sender m); wi_eph m; wi_static m; wi_ts m].
Proof.
  intros Hwf. pose proof (decode_encode_init m Hwf) as Hd. unfold decode_init in Hd.
  rewrite (init_size m Hwf), N.eqb_refl in Hd. cbn [negb] in Hd. injection Hd as Hd.
  pose proof (f_equal wi_mac1 Hd) as H1. pose proof (f_equal wi_mac2 Hd) as H2. cbn [wi_mac1 wi_mac2] in H1, H2.
  split; [exact H1|]. split; [exact H2|].
  destruct Hwf as (_ & _ & He & Hs & Hts & _ & _). unfold encode_init.
  change (concat [le32 (wi_type m); le32 (wi_sender m); wi_eph m; wi_static m; wi_ts m; wi_mac1 m; wi_mac2 m])
    with (concat ([le32 (wi_type m); le32 (wi_sender m); wi_eph m; wi_static m; wi_ts m] ++ [wi_mac1 m; wi_mac2 m])).
  rewrite concat_app. apply firstn_app_exact.
  cbn [concat]. rewrite !app_length, !le32_length, He, Hs, Hts. reflexivity.
Qed.

Theorem mac1_position_resp m : wf_resp m ->
  slice (encode_resp m) (N.to_nat MessageResponseSize - 32) 16 = wr_mac1 m /\
  slice (encode_resp m) (N.to_nat MessageResponseSize - 16) 16 = wr_mac2 m /\
  firstn (N.to_nat MessageResponseSize - 32) (encode_resp m)
    = concat [le32 (wr_type m); le32 (wr_sender m); le32 (wr_receiver m); wr_eph m; wr_empty m].
Proof.
  intros Hwf. pose proof (decode_encode_resp m Hwf) as Hd. unfold decode_resp in Hd.
  rewrite (resp_size m Hwf), N.eqb_refl in Hd. cbn [negb] in Hd. injection Hd as Hd.
  pose proof (f_equal wr_mac1 Hd) as H1. pose proof (f_equal wr_mac2 Hd) as H2. cbn [wr_mac1 wr_mac2] in H1, H2.
  split; [exact H1|]. split; [exact H2|].
  destruct Hwf as (_ & _ & _ & He & Hs & _ & _). unfold encode_resp.
  change (concat [le32 (wr_type m); le32 (wr_sender m); le32 (wr_receiver m); wr_eph m; wr_empty m; wr_mac1 m; wr_mac2 m])
    with (concat ([le32 (wr_type m); le32 (wr_sender m); le32 (wr_receiver m); wr_eph m; wr_empty m] ++ [wr_mac1 m; wr_mac2 m])).
  rewrite concat_app. apply firstn_app_exact.
  cbn [concat]. rewrite !app_length, !le32_length, He, Hs. reflexivity.
Qed.

(* A message whose MAC2 field the sender left untouched (make([]byte, size)) carries 16 zero bytes. *)
Definition zeros (n : nat) : list N := repeat 0 n.
Definition all_zero (l : list N) : bool := forallb (N.eqb 0) l.

Theorem mac2_zero_on_wire_init m : wf_init m -> wi_mac2 m = zeros Mac128Size ->
  all_zero (slice (encode_init m) (N.to_nat MessageInitiationSize - 16) 16) = true.
Proof. intros Hwf Hz. destruct (mac1_position_init m Hwf) as (_ & -> & _). now rewrite Hz. Qed.

Theorem mac2_zero_on_wire_resp m : wf_resp m -> wr_mac2 m = zeros Mac128Size ->
  all_zero (slice (encode_resp m) (N.to_nat MessageResponseSize - 16) 16) = true.
Proof. intros Hwf Hz. destruct (mac1_position_resp m Hwf) as (_ & -> & _). now rewrite Hz. Qed.

(* The numbers of the property text. *)
Theorem layout_constants :
  MessageInitiationSize = 148 /\ MessageResponseSize = 92 /\ MessageCookieReplySize = 64 /\
  N.of_nat (8 + NoisePublicKeySize + StaticFieldSize + TimestampFieldSize + Mac128Size + Mac128Size) = MessageInitiationSize /\
  N.of_nat (12 + NoisePublicKeySize + TagSize + Mac128Size + Mac128Size) = MessageResponseSize /\
  N.of_nat (8 + NonceSizeX + CookieFieldSize) = MessageCookieReplySize /\
  off_i_mac1 = 116%nat /\ off_i_mac2 = 132%nat /\ off_r_mac1 = 60%nat /\ off_r_mac2 = 76%nat.
Proof. repeat split; reflexivity. Qed.
