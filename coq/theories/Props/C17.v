(* Property C17 — TUN read-side segmentation (GSO split, checksum offload) is correct.
   Only statements, closed by `exact`, with Print Assumptions.

   Reading guide: [raw] is what read(2) returned (virtio_net_hdr + packet); [parse_super raw = Some sp]
   and [wf_super sp] say that it is a TCPv4/TCPv6/UDP super-packet as the kernel delivers it
   (GsoSpec.v); [handle_virtio_read] is the mirror of tun.handleVirtioRead (Gso.v), returning
   [Done n err segs] = (count returned, error class, buffers written).  The c_* clauses are the
   boolean checkers of GsoSpec.v that the check also evaluates on the real code's output. *)
From Coq Require Import String.
From WG Require Import Base.Prelude Gen.Constants Offload.Bytes Offload.Checksum Offload.Gso Offload.GsoSpec Offload.GsoProofs.
From WG Require Import Offload.CsumAst Gen.CsumAst Offload.CsumAstProofs.
Local Open Scope N_scope.

(* The numbers the code and the property text name, as the code has them now. *)
Theorem C17_constants :
  tun_virtioNetHdrLen = 10 /\ tun_tcpFlagsOffset = 13 /\ tun_tcpFlagFIN = 1 /\ tun_tcpFlagPSH = 8 /\
  tun_udphLen = 8 /\ tun_ipv4SrcAddrOffset = 12 /\ tun_ipv6SrcAddrOffset = 8 /\ tun_maxUint16 = 65535 /\
  fin_psh = 9.
Proof. repeat split; reflexivity. Qed.
Print Assumptions C17_constants.

(* ---- tun/checksum.go computes the RFC 1071 sum ---- *)
Theorem C17_checksum_is_rfc1071 : forall b init,
  bytes b -> init < two64 ->
  checksumNoFold b init mod 65535 = (init + sum16 b) mod 65535.
Proof. exact checksum_is_rfc1071. Qed.
Print Assumptions C17_checksum_is_rfc1071.

Theorem C17_pseudo_header_is_rfc1071 : forall proto src dst len,
  bytes src -> bytes dst -> proto < 256 -> len < 65536 ->
  pseudoHeaderChecksumNoFold proto src dst len < two64 /\
  pseudoHeaderChecksumNoFold proto src dst len mod 65535 = pseudo_sum proto src dst len mod 65535.
Proof. exact pseudo_is_rfc1071. Qed.
Print Assumptions C17_pseudo_header_is_rfc1071.

(* Storing ^checksum(region with zero field, initial) makes a receiver's sum 0xffff. *)
Theorem C17_complement_verifies : forall b init S,
  bytes b -> init < two64 -> (init + sum16 b) mod 65535 = S mod 65535 -> S <> 0 ->
  oc_valid (S + (65535 - checksum b init)).
Proof. exact complement_verifies. Qed.
Print Assumptions C17_complement_verifies.

(* ---- handleVirtioRead: every validity gate passes and hdrLen is recomputed correctly ---- *)
Theorem C17_reaches_split : forall raw nbufs room gseed sp,
  parse_super raw = Some sp -> wf_super sp ->
  handle_virtio_read raw nbufs room gseed = gso_split (s_pkt sp) (hdr_for sp (get8 raw 0)) nbufs (s_v6 sp) gseed.
Proof. exact handle_virtio_read_wf. Qed.

Theorem C17_no_panic : forall raw nbufs room gseed sp,
  parse_super raw = Some sp -> wf_super sp -> 1 <= nbufs ->
  exists n e segs, handle_virtio_read raw nbufs room gseed = Done n e segs.
Proof. exact handle_never_panics_wf. Qed.

(* ---- the segments ---- *)
Section Result.
  (* [gseed] selects the stale bytes the output buffers hold before the call (Gso.stale): the
     results below hold whatever they are *)
  Variables (raw : list N) (nbufs room gseed : N) (sp : super) (n e : N) (segs : list (list N)).
  Hypothesis Hparse : parse_super raw = Some sp.
  Hypothesis Hwf : wf_super sp.
  Hypothesis Hbufs : 1 <= nbufs.
  Hypothesis Hrun : handle_virtio_read raw nbufs room gseed = Done n e segs.

  (* payload split in order at gsoSize: segment j is header + payload bytes [j*gso, j*gso + min gso rest) *)
  Theorem C17_split_payload : forall j s, nth_error segs j = Some s ->
    c_len sp (N.of_nat j) s = true /\ c_payload sp (N.of_nat j) s = true.
  Proof. intros j s H. destruct (proj1 (handle_wf_result raw nbufs room gseed sp n e segs Hparse Hwf Hbufs Hrun) j s H); tauto. Qed.

  (* IP total / payload length, consecutive IPv4 IDs (mod 2^16) *)
  Theorem C17_split_ip : forall j s, nth_error segs j = Some s ->
    c_ip_len sp s = true /\ c_ip_id sp (N.of_nat j) s = true.
  Proof. intros j s H. destruct (proj1 (handle_wf_result raw nbufs room gseed sp n e segs Hparse Hwf Hbufs Hrun) j s H); tauto. Qed.

  (* TCP: seq_j = seq_0 + j * gsoSize mod 2^32, FIN/PSH cleared on all but the last segment *)
  Theorem C17_split_tcp : forall j s, nth_error segs j = Some s ->
    c_tcp_seq sp (N.of_nat j) s = true /\ c_tcp_flags sp (N.of_nat j) s = true.
  Proof. intros j s H. destruct (proj1 (handle_wf_result raw nbufs room gseed sp n e segs Hparse Hwf Hbufs Hrun) j s H); tauto. Qed.

  (* UDP length = 8 + payload bytes of the segment (short last segment included) *)
  Theorem C17_split_udp_len : forall j s, nth_error segs j = Some s -> c_udp_len sp (N.of_nat j) s = true.
  Proof. intros j s H. destruct (proj1 (handle_wf_result raw nbufs room gseed sp n e segs Hparse Hwf Hbufs Hrun) j s H); tauto. Qed.

  (* all other IP and transport header bytes (addresses, ports, ack, window, options, ...) are the input's *)
  Theorem C17_split_headers_kept : forall j s, nth_error segs j = Some s ->
    c_ip_rest sp s = true /\ c_th_rest sp s = true.
  Proof. intros j s H. destruct (proj1 (handle_wf_result raw nbufs room gseed sp n e segs Hparse Hwf Hbufs Hrun) j s H); tauto. Qed.

  (* IPv4 header checksum and TCP/UDP checksum (pseudo header + segment) verify: sum = 0xffff;
     a UDP checksum field is never 0x0000 *)
  Theorem C17_split_checksums_valid : forall j s, nth_error segs j = Some s ->
    c_ip_csum sp s = true /\ c_transport_csum sp s = true /\ c_udp_csum_nonzero sp s = true.
  Proof. intros j s H. destruct (proj1 (handle_wf_result raw nbufs room gseed sp n e segs Hparse Hwf Hbufs Hrun) j s H); tauto. Qed.

  (* enough buffers: no error, all ceil(|payload| / gsoSize) packets *)
  Theorem C17_all_segments : nseg sp <= nbufs ->
    e = E_none /\ n = nseg sp /\ N.of_nat (length segs) = nseg sp.
  Proof. exact (proj1 (proj2 (handle_wf_result raw nbufs room gseed sp n e segs Hparse Hwf Hbufs Hrun))). Qed.

  (* more segments than buffers: explicit error; nbufs - 1 packets are reported and they (indeed
     all nbufs written buffers, by the clauses above) are valid *)
  Theorem C17_too_many_segments : nbufs < nseg sp ->
    e = E_too_many /\ n = nbufs - 1 /\ N.of_nat (length segs) = nbufs.
  Proof. exact (proj2 (proj2 (handle_wf_result raw nbufs room gseed sp n e segs Hparse Hwf Hbufs Hrun))). Qed.
End Result.

(* the per-segment payloads of the specification, concatenated in order, are the payload *)
Theorem C17_payloads_concat : forall sp, s_hl sp <= len (s_pkt sp) -> 1 <= s_gso sp ->
  concat (map (seg_payload sp) (nrange_from 0 (N.to_nat (nseg sp)))) = sub (s_pkt sp) (s_hl sp) (len (s_pkt sp)).
Proof. exact payload_concat. Qed.
Print Assumptions C17_payloads_concat.

(* the uint16 product gsoSize * uint16(i) of gsoSplit cannot wrap for a read of at most 65535
   bytes; it would beyond that *)
Theorem C17_seq_product_no_wrap : forall L hl gso i,
  L <= 65535 -> 1 <= gso -> hl + i * gso < L -> u16 (gso * u16 i) = i * gso.
Proof. exact seq_product_no_wrap. Qed.
Print Assumptions C17_seq_product_no_wrap.

(* ---- gso_type NONE with NEEDS_CSUM: the checksum is completed, nothing else changes ---- *)
Theorem C17_gso_none_checksum_valid : forall raw nbufs room gseed pp,
  parse_partial raw = Some pp -> wf_partial pp -> 10 <= len raw -> len (p_pkt pp) <= room ->
  exists out, handle_virtio_read raw nbufs room gseed = Done 1 E_none [out] /\ partial_good pp out.
Proof. exact handle_partial_wf. Qed.

(* ---- former finding F6 and what still does not hold ---- *)

(* F6 repaired: the witnesses of the former refutation now carry 0xffff *)
Theorem C17_udp_checksum_zero_mangled_example : exists raw seg, udp_zero_witness raw seg = true.
Proof. exact udp_checksum_zero_mangled_example. Qed.
Print Assumptions C17_udp_checksum_zero_mangled_example.

Theorem C17_udp_checksum_zero_mangled_completion_example : exists raw, udp_zero_none_witness raw = true.
Proof. exact udp_checksum_zero_mangled_none_example. Qed.
Print Assumptions C17_udp_checksum_zero_mangled_completion_example.

(* F6 as it was before repair 8d6518b: storing ^checksum verbatim (old_segment) puts 0x0000 into
   the UDP checksum of segment 1 of the same witness, and clause 12 of the specification fails *)
Theorem C17_old_udp_checksum_nonzero_refuted : exists raw seg, old_udp_zero_witness raw seg = true.
Proof. exact old_udp_checksum_nonzero_refuted. Qed.
Print Assumptions C17_old_udp_checksum_nonzero_refuted.

Theorem C17_old_udp_checksum_nonzero_completion_refuted : exists raw, old_udp_zero_none_witness raw = true.
Proof. exact old_udp_checksum_nonzero_none_refuted. Qed.
Print Assumptions C17_old_udp_checksum_nonzero_completion_refuted.

(* IPv6 extension headers: payload length field too small by the extension header length
   (outside wf_super; see notes/C17.md) *)
Theorem C17_ipv6_exthdr_payload_length_refuted : exists raw, exthdr_witness raw = true.
Proof. exact ipv6_exthdr_payload_length_refuted. Qed.
Print Assumptions C17_ipv6_exthdr_payload_length_refuted.

(* ---- non-vacuity ---- *)
Example C17_nonvacuous_all_segments : spec_on_model nonvac_raw 8 = None.
Proof. vm_compute. reflexivity. Qed.
Example C17_nonvacuous_too_many : spec_on_model nonvac_raw 2 = None.
Proof. vm_compute. reflexivity. Qed.
Example C17_nonvacuous_f6 : spec_on_model f6_raw 8 = None.
Proof. vm_compute. reflexivity. Qed.

(* One Print Assumptions for the theorems that rest on the long proofs of GsoProofs.v (each call
   walks the whole proof term: 1.4 s apiece when asked one by one). *)
Definition C17_segment_theorems :=
  (C17_reaches_split, C17_no_panic, C17_split_payload, C17_split_ip, C17_split_tcp, C17_split_udp_len,
   C17_split_headers_kept, C17_split_checksums_valid, C17_all_segments, C17_too_many_segments,
   C17_gso_none_checksum_valid).
Print Assumptions C17_segment_theorems.

(* THE TIE TO THE SOURCE for the checksum routines (translator harness/cmd/csumast,
   rerun on every check): Gen.CsumAst.noFold_body / checksum_body / pseudo_body
   are the bodies of checksumNoFold, checksum and pseudoHeaderChecksumNoFold of
   tun/checksum.go as terms of the deep-embedded language of Offload/CsumAst.v
   (slices as values, little-endian loads, bits.Add64 carry chains, uint64
   wrap-around, the 128-byte loop on fuel, the byte swap as a buffer store and
   load).  For EVERY byte list and initial value the interpreted source is the
   mirror model, hence the RFC 1071 sum: *)
Theorem C17_source_checksumNoFold_is_the_model : forall b i, bytes b ->
  run_noFold noFold_body b i = Some (checksumNoFold b i).
Proof. exact ast_noFold_is_mirror. Qed.
Print Assumptions C17_source_checksumNoFold_is_the_model.

Theorem C17_source_checksum_is_rfc1071 : forall b i, bytes b -> i < two64 ->
  exists r, run_checksum noFold_body checksum_body b i = Some r /\ r <= 65535 /\
            r mod 65535 = (i + sum16 b) mod 65535.
Proof. exact ast_checksum_rfc1071. Qed.
Print Assumptions C17_source_checksum_is_rfc1071.

Theorem C17_source_pseudo_header_is_the_model : forall proto src dst tl,
  bytes src -> bytes dst -> proto < 256 -> tl < 65536 ->
  run_pseudo noFold_body pseudo_body proto src dst tl = Some (pseudoHeaderChecksumNoFold proto src dst tl).
Proof. exact ast_pseudo_is_mirror. Qed.
Print Assumptions C17_source_pseudo_header_is_the_model.
