(* Property C01 — outbound data path: routing by longest prefix, padding,
   transport framing, at-most-once transmission of tun packets.
   Only statements, closed by `exact`, with Print Assumptions. *)
From Coq Require Import String.
From WG Require Import Base.Prelude Gen.Constants DataPath.Lpm Outbound.Model Outbound.Proofs.
From WG Require Import Outbound.PadAst Gen.PadAst Outbound.PadAstProofs.
Local Open Scope N_scope.

(* The constants the property text names, as the code has them now. *)
Theorem C01_constants :
  PaddingMultiple = 16 /\ MessageTransportHeaderSize = 16 /\ MessageTransportSize = 32 /\
  MessageKeepaliveSize = 32 /\ MessageInitiationSize = 148 /\ MessageResponseSize = 92 /\
  MessageCookieReplySize = 64 /\ MaxContentSize = 65503 /\ QueueStagedSize = 128 /\
  ipv4_HeaderLen = 20 /\ ipv6_HeaderLen = 40.
Proof. repeat split; reflexivity. Qed.
Print Assumptions C01_constants.

(* ------------------------------------------------------------------ padding *)

Theorem C01_pad_lt_16 : forall len mtu : Z,
  (0 <= len)%Z -> (0 <= mtu)%Z -> (0 <= pad_len len mtu < 16)%Z.
Proof. exact pad_lt_16. Qed.
Print Assumptions C01_pad_lt_16.

Theorem C01_pad_within_mtu : forall len mtu : Z,
  (0 < len <= mtu)%Z -> (len + pad_len len mtu = Z.min (roundup16 len) mtu)%Z.
Proof. exact pad_within_mtu. Qed.
Print Assumptions C01_pad_within_mtu.

Theorem C01_pad_mtu0 : forall len : Z,
  (0 <= len)%Z -> (len + pad_len len 0 = roundup16 len)%Z.
Proof. exact pad_mtu0. Qed.
Print Assumptions C01_pad_mtu0.

Theorem C01_pad_keepalive : forall mtu : Z, (0 <= mtu)%Z -> pad_len 0 mtu = 0%Z.
Proof. exact pad_keepalive. Qed.
Print Assumptions C01_pad_keepalive.

Theorem C01_plaintext_shape : forall p mtu, (0 <= mtu)%Z ->
  exists n : nat, plaintext p mtu = p ++ repeat 0 n /\ (n < 16)%nat /\
                  Z.of_nat n = pad_len (Z.of_nat (length p)) mtu.
Proof. exact plaintext_shape. Qed.
Print Assumptions C01_plaintext_shape.

(* ------------------------------------------------------------ unroutable input *)

Theorem C01_unroutable_silent : forall st pkts,
  Forall (fun p => route (s_tbl st) p = None) pkts -> step st (TunBatch pkts) = (st, []).
Proof. exact unroutable_silent. Qed.
Print Assumptions C01_unroutable_silent.

Theorem C01_unroutable_silent_fault : forall st pkts q k,
  Forall (fun p => route (s_tbl st) p = None) pkts ->
  step st (TunBatchFault pkts q k) = (st, []).
Proof. exact unroutable_silent_fault. Qed.
Print Assumptions C01_unroutable_silent_fault.

Theorem C01_classify_none_unroutable : forall tbl p, classify p = None -> route tbl p = None.
Proof. exact classify_none_unroutable. Qed.
Print Assumptions C01_classify_none_unroutable.

Theorem C01_unroutable_silent_single : forall st p,
  (classify p = None \/ route (s_tbl st) p = None) -> step st (TunBatch [p]) = (st, []).
Proof. exact unroutable_silent_single. Qed.
Print Assumptions C01_unroutable_silent_single.

(* ----------------------------------------------------------- emitted datagrams *)

Theorem C01_emitted_wellformed : forall st ev o,
  (0 <= s_mtu st)%Z -> In o (snd (step st ev)) -> wf_out o.
Proof. exact emitted_wellformed. Qed.
Print Assumptions C01_emitted_wellformed.

Theorem C01_mtu_nonneg_preserved : forall st ev,
  (0 <= s_mtu st)%Z -> (0 <= s_mtu (fst (step st ev)))%Z.
Proof. exact mtu_nonneg_preserved. Qed.
Print Assumptions C01_mtu_nonneg_preserved.

Theorem C01_transport_fields : forall st ev st' os p ep rcv ctr pk mtu,
  step st ev = (st', os) -> In (OData p ep rcv ctr pk mtu) os ->
  exists pr s, nth_error (s_peers st') (N.to_nat p) = Some pr /\ p_sess pr = Some s /\
               ss_ridx s = rcv /\ ss_expired s = false /\ p_ep pr = Some ep /\
               ctr < ss_ctr s /\ mtu = s_mtu st'.
Proof. exact transport_fields. Qed.
Print Assumptions C01_transport_fields.

Theorem C01_index_announced : forall st evs,
  Forall (fun p => p_sess p = None) (s_peers st) ->
  forall p ep rcv ctr pk mtu, In (OData p ep rcv ctr pk mtu) (concat (outs step st evs)) ->
  exists ep', In (RefHs p rcv ep') evs \/ In (AnswerHs p rcv ep') evs.
Proof. exact index_announced. Qed.
Print Assumptions C01_index_announced.

Theorem C01_counters_consecutive : forall i ep rcv c mtu l k o,
  nth_error (number i ep rcv c mtu l) k = Some o ->
  exists pk, o = OData i ep rcv (c + N.of_nat k) pk mtu /\ nth_error l k = Some pk.
Proof. exact counters_consecutive. Qed.
Print Assumptions C01_counters_consecutive.

(* ------------------------------------------------ at most once, to the LPM owner *)

Theorem C01_each_tun_packet_at_most_once : forall st evs x, clean st ->
  (count_occ pkt_eq_dec (sent (outs step st evs)) x
   <= count_occ pkt_eq_dec (routed (s_tbl st) evs) x)%nat.
Proof. exact each_tun_packet_at_most_once. Qed.
Print Assumptions C01_each_tun_packet_at_most_once.

Theorem C01_routed_to_lpm_owner : forall st evs p ep rcv ctr pk mtu, clean st ->
  In (OData p ep rcv ctr pk mtu) (concat (outs step st evs)) ->
  pk = [] \/
  (route (s_tbl st) pk = Some p /\
   (exists batch, (In (TunBatch batch) evs \/ exists q k, In (TunBatchFault batch q k) evs) /\
                  In pk batch) /\
   exists f, classify pk = Some f /\ lpm_spec (s_tbl st) f (be_val (dst_of f pk)) (Some p)).
Proof. exact routed_to_lpm_owner. Qed.
Print Assumptions C01_routed_to_lpm_owner.

(* ----------------------------------------------------------- device down and up *)

Theorem C01_down_drops : forall st pkts,
  s_up st = false -> step st (TunBatch pkts) = (st, []).
Proof. exact down_drops. Qed.
Print Assumptions C01_down_drops.

Theorem C01_down_drops_fault : forall st pkts q k,
  s_up st = false -> step st (TunBatchFault pkts q k) = (st, []).
Proof. exact down_drops_fault. Qed.
Print Assumptions C01_down_drops_fault.

Theorem C01_down_clears : forall st,
  Forall (fun p => p_sess p = None /\ p_staged p = [] /\ p_init_out p = false)
         (s_peers (fst (step st Down))) /\
  snd (step st Down) = [] /\ s_up (fst (step st Down)) = false.
Proof. exact down_clears. Qed.
Print Assumptions C01_down_clears.

Theorem C01_up_silent : forall st, snd (step st Up) = [] /\ s_up (fst (step st Up)) = true.
Proof. exact up_silent. Qed.
Print Assumptions C01_up_silent.

(* ------------------------------------------------------------ bind.Send errors *)

(* A send error toward peer q: the state evolves as without the error (the rest
   is never transmitted: sessions, counters and staged packets are the same as
   if all had been) except that a refused initiation is not outstanding, every
   other peer's datagrams are unchanged, and of peer q's datagrams exactly the
   first k are transmitted. *)
Theorem C01_fault_transmits_prefix : forall st pkts q k,
  let '(st1, o1) := step st (TunBatch pkts) in
  let '(st2, o2) := step st (TunBatchFault pkts q k) in
  (s_tbl st2 = s_tbl st1 /\ s_mtu st2 = s_mtu st1 /\ s_up st2 = s_up st1 /\
   map forget_init (s_peers st2) = map forget_init (s_peers st1)) /\
  (forall i, filter (fun x => out_peer x =? i) o2 =
             if i =? q then firstn (N.to_nat k) (filter (fun x => out_peer x =? i) o1)
             else filter (fun x => out_peer x =? i) o1).
Proof. exact fault_transmits_prefix. Qed.
Print Assumptions C01_fault_transmits_prefix.

Theorem C01_fault_refused_initiation : forall tbl mtu i p pkts,
  (exists ep, snd (tun_step tbl mtu i p pkts) = [OInit i ep]) ->
  p_init_out (fst (peer_step tbl mtu true i p (TunBatchFault pkts i 0))) = false /\
  snd (peer_step tbl mtu true i p (TunBatchFault pkts i 0)) = [].
Proof. exact fault_refused_initiation. Qed.
Print Assumptions C01_fault_refused_initiation.

(* ------------------------------------------------------- replayed initiation *)

Theorem C01_replayed_initiation_is_dropped : forall st p ep,
  step st (ReplayInit p ep) = (st, []).
Proof. exact replayed_initiation_is_dropped. Qed.
Print Assumptions C01_replayed_initiation_is_dropped.

(* ------------------------------------------------------------- UAPI endpoint= *)

(* the UAPI peer section ends with SendStagedPackets toward the new endpoint *)
Theorem C01_set_endpoint_then_flush : forall tbl mtu i p ep,
  peer_step tbl mtu true i p (SetEp i ep) =
  send_staged mtu i {| p_ep := Some ep; p_sess := p_sess p; p_hs_recent := p_hs_recent p;
                       p_init_out := p_init_out p; p_staged := p_staged p |}.
Proof. exact set_endpoint_then_flush. Qed.
Print Assumptions C01_set_endpoint_then_flush.

Theorem C01_set_endpoint_keeps_table : forall st p ep,
  s_tbl (fst (step st (SetEp p ep))) = s_tbl st /\
  s_mtu (fst (step st (SetEp p ep))) = s_mtu st.
Proof. exact set_endpoint_keeps_table. Qed.
Print Assumptions C01_set_endpoint_keeps_table.

(* ------------------------------------------------------------------ non-vacuity *)

Example C01_pad_values :
  (pad_len 1 1420, pad_len 1419 1420, pad_len 1421 1420, pad_len 100 0,
   pad_len 20 17, pad_len 1408 1420, pad_len 0 1420, pad_len 2850 1420)
  = (15, 1, 15, 12, 13, 0, 0, 6)%Z.
Proof. vm_compute. reflexivity. Qed.

(* 10.0.0.1 -> 10.0.0.2 (20-byte IPv4 header, no payload) and the same towards
   10.9.0.2, which no entry covers. *)
Definition ex_pkt : pkt := [69;0;0;20; 0;0;0;0; 64;17;0;0; 10;0;0;1; 10;0;0;2].
Definition ex_stray : pkt := [69;0;0;20; 0;0;0;0; 64;17;0;0; 10;0;0;1; 10;9;0;2].
(* 10.0.0.0/24 -> peer 1 *)
Definition ex_tbl : list entry :=
  [ {| e_fam := V4; e_bits := 167772160; e_len := 24; e_owner := 1 |} ].
Definition ex_peer (ep : option N) : peer :=
  {| p_ep := ep; p_sess := None; p_hs_recent := false; p_init_out := false; p_staged := [] |}.
Definition ex_st (ep : option N) : state :=
  {| s_tbl := ex_tbl; s_mtu := 1420; s_up := true; s_peers := [ex_peer None; ex_peer ep] |}.

(* The remote initiates: response, then each routable packet goes to peer 1
   under the announced index with consecutive counters; the stray packet and the
   empty read produce nothing. *)
Example C01_nonvacuous_responder :
  outs step (ex_st None) [RefHs 1 7 3; TunBatch [ex_pkt; ex_stray]; TunBatch [[]; ex_pkt]]
  = [[OResp 1 3 7]; [OData 1 3 7 0 ex_pkt 1420]; [OData 1 3 7 1 ex_pkt 1420]]
  /\ clean (ex_st None)
  /\ routed ex_tbl [RefHs 1 7 3; TunBatch [ex_pkt; ex_stray]; TunBatch [[]; ex_pkt]]
     = [(1, ex_pkt); (1, ex_pkt)].
Proof.
  split; [vm_compute; reflexivity|]. split; [|vm_compute; reflexivity].
  repeat constructor.
Qed.

(* We initiate: the packet is staged behind an initiation and flushed when the
   answer arrives; a second answer is ignored; after Expire the next packet
   triggers nothing because the handshake is recent. *)
Example C01_nonvacuous_initiator :
  outs step (ex_st (Some 3)) [TunBatch [ex_pkt]; AnswerHs 1 9 4; AnswerHs 1 8 4;
                              Expire 1; TunBatch [ex_pkt]]
  = [[OInit 1 3]; [OData 1 4 9 0 ex_pkt 1420]; []; []; []].
Proof. vm_compute. reflexivity. Qed.

(* Down and up again: the session of the first handshake is gone, the packet
   read while the device is down is dropped (not retained), the packet read
   after Up waits behind a fresh initiation and is transmitted exactly once,
   with counter 0 under the newly announced index. *)
Example C01_nonvacuous_down_up :
  outs step (ex_st (Some 3)) [RefHs 1 7 3; Down; TunBatch [ex_pkt]; Up; TunBatch [ex_pkt];
                              AnswerHs 1 9 4]
  = [[OResp 1 3 7]; []; []; []; [OInit 1 3]; [OData 1 4 9 0 ex_pkt 1420]].
Proof. vm_compute. reflexivity. Qed.

(* A send error after the first of two datagrams: counter 1 is consumed but
   never transmitted, the next batch continues with counter 2. *)
Example C01_nonvacuous_fault :
  outs step (ex_st None) [RefHs 1 7 3; TunBatchFault [ex_pkt; ex_pkt] 1 1; TunBatch [ex_pkt]]
  = [[OResp 1 3 7]; [OData 1 3 7 0 ex_pkt 1420]; [OData 1 3 7 2 ex_pkt 1420]].
Proof. vm_compute. reflexivity. Qed.

(* The refused Send is the initiation itself: nothing on the wire, an answer
   finds no outstanding initiation and is ignored; the packet stays staged and
   leaves with the next one once a transmitted initiation is answered. *)
Example C01_nonvacuous_refused_initiation :
  snd (tun_step ex_tbl 1420 1 (ex_peer (Some 3)) [ex_pkt]) = [OInit 1 3] /\
  outs step (ex_st (Some 3)) [TunBatchFault [ex_pkt] 1 0; AnswerHs 1 9 4; ShiftHs 1;
                              TunBatch [ex_pkt]; AnswerHs 1 9 4]
  = [[]; []; []; [OInit 1 3]; [OData 1 4 9 0 ex_pkt 1420; OData 1 4 9 1 ex_pkt 1420]].
Proof. split; vm_compute; reflexivity. Qed.

(* A packet staged while the peer has no endpoint: setting the endpoint sends
   the initiation there, and the answer flushes the packet exactly once. *)
Example C01_nonvacuous_set_endpoint :
  outs step (ex_st None) [TunBatch [ex_pkt]; ShiftHs 1; SetEp 1 5; AnswerHs 1 9 5]
  = [[]; []; [OInit 1 5]; [OData 1 5 9 0 ex_pkt 1420]].
Proof. vm_compute. reflexivity. Qed.

(* ------------------------------------------------ round 10: racing responses, port-only roaming *)

Theorem C01_racing_responses_one_completes : forall st p ra ea rb eb w,
  step st (answer_race p ra ea rb eb w) = step st (AnswerHs p (if w then rb else ra) (if w then eb else ea)).
Proof. exact racing_responses_one_completes. Qed.
Print Assumptions C01_racing_responses_one_completes.

Theorem C01_racing_responses_consistent : forall st p ra ea rb eb w q ep rcv ctr pk m,
  In (OData q ep rcv ctr pk m) (snd (step st (answer_race p ra ea rb eb w))) ->
  q = p /\ ((rcv = ra /\ ep = ea) \/ (rcv = rb /\ ep = eb)).
Proof. exact racing_responses_consistent. Qed.
Print Assumptions C01_racing_responses_consistent.

Theorem C01_answer_announces_index_and_endpoint : forall st j ridx e q ep rcv ctr pk m,
  In (OData q ep rcv ctr pk m) (snd (step st (AnswerHs j ridx e))) -> q = j /\ rcv = ridx /\ ep = e.
Proof. exact step_answer_data. Qed.
Print Assumptions C01_answer_announces_index_and_endpoint.

Theorem C01_roam_moves_endpoint : forall tbl mtu i p ep p1 o1,
  peer_step tbl mtu true i p (Roam i ep) = (p1, o1) -> usable p <> None ->
  o1 = [] /\ p_ep p1 = Some ep /\
  forall pkts p2 o2 q ep' rcv ctr pk m,
    peer_step tbl mtu true i p1 (TunBatch pkts) = (p2, o2) -> In (OData q ep' rcv ctr pk m) o2 -> ep' = ep.
Proof. exact roam_moves_endpoint. Qed.
Print Assumptions C01_roam_moves_endpoint.

(* Both schedules of the race: the flush carries index 9 toward endpoint 4, or index 8 toward endpoint 104 — never a mix;
   then the peer's source port alone changes (endpoint 104 -> 4 are one address, two ports in the harness) and the next
   packet follows it. *)
Example C01_nonvacuous_race :
  outs step (ex_st (Some 3)) [TunBatch [ex_pkt]; answer_race 1 9 4 8 104 false; Roam 1 104; TunBatch [ex_pkt]]
  = [[OInit 1 3]; [OData 1 4 9 0 ex_pkt 1420]; []; [OData 1 104 9 1 ex_pkt 1420]] /\
  outs step (ex_st (Some 3)) [TunBatch [ex_pkt]; answer_race 1 9 4 8 104 true; Roam 1 4; TunBatch [ex_pkt]]
  = [[OInit 1 3]; [OData 1 104 8 0 ex_pkt 1420]; []; [OData 1 4 8 1 ex_pkt 1420]].
Proof. split; vm_compute; reflexivity. Qed.

(* THE TIE TO THE SOURCE for the padding rule (translator harness/cmd/padast, rerun
   on every check): Gen.PadAst.pad_body is the body of calculatePaddingSize of
   device/send.go as a term of the deep-embedded language of Outbound/PadAst.v
   (Go int as Z with 64-bit two's-complement wrap, % as Z.rem, the complement
   ^(PaddingMultiple-1) folded by the translator from the const declaration).
   The interpreted source is the model's pad_len, and it satisfies the sentence
   of the property: for a packet no larger than the MTU the padded length is
   the length rounded up to a multiple of 16, capped at the MTU, with fewer
   than 16 bytes added. *)
Theorem C01_source_padding_is_the_model : forall p m : Z, (0 <= p < 2 ^ 31)%Z -> (0 <= m < 2 ^ 31)%Z ->
  run_pad pad_body p m = Some (pad_len p m).
Proof. exact ast_pad_correct. Qed.
Print Assumptions C01_source_padding_is_the_model.

Theorem C01_source_padding_rule : forall len mtu : Z, (0 < len <= mtu)%Z -> (mtu < 2 ^ 31)%Z ->
  exists pad, run_pad pad_body len mtu = Some pad /\ (0 <= pad < 16)%Z /\
              (len + pad)%Z = Z.min (Outbound.Proofs.roundup16 len) mtu.
Proof. exact ast_pad_c01. Qed.
Print Assumptions C01_source_padding_rule.
