(* Property C12 — the parallel crypto pipeline preserves per-peer order and
   finishes its work.  Only statements, closed by `exact`, with Print
   Assumptions.  The theorems are about the transition system of
   Pipeline/Model.v (P peers sharing W workers, containers of arbitrary sizes,
   any number of producers per peer) and hold for EVERY schedule.  That Go's
   channels, sync.Mutex and goroutine scheduling behave like that system is
   assumed, and monitored on the real device by the trace checker. *)
From WG Require Import Base.Prelude Gen.Constants Pipeline.Model Pipeline.Spec Pipeline.Proofs Pipeline.Refute.

(* The queue depths the model abstracts from (it has unbounded queues). *)
Theorem C12_constants :
  (QueueOutboundSize = 1024 /\ QueueInboundSize = 1024 /\ QueueStagedSize = 128 /\ conn_IdealBatchSize = 128)%N.
Proof. repeat split; reflexivity. Qed.
Print Assumptions C12_constants.

(* Per peer, for every schedule: the emitted containers are 0,1,2,...,n-1 in
   this order -- a prefix of the publication order: no overtaking, no gap, no
   duplicate. *)
Theorem C12_order_preserved : forall (P W : nat) (size : nat -> nat -> nat) (sched : list act) (p : nat),
  let s := run P W size (init) sched in
  emitted (lanes s p) = seq 0 (length (emitted (lanes s p))) /\
  length (emitted (lanes s p)) <= k (lanes s p).
Proof. exact order_preserved. Qed.
Print Assumptions C12_order_preserved.

(* Nothing is emitted before its cryptographic processing has completed: an
   emitted container was unlocked by a worker that had processed every one of
   its elements. *)
Theorem C12_emitted_processed : forall (P W : nat) (size : nat -> nat -> nat) (sched : list act) (p id : nat),
  let s := run P W size (init) sched in
  In id (emitted (lanes s p)) -> status s p id = Fin /\ proc s p id = size p id.
Proof. exact emitted_processed. Qed.
Print Assumptions C12_emitted_processed.

(* Nothing lost, nothing duplicated: once a lane has drained, exactly the
   published containers have been emitted, each once, in order. *)
Theorem C12_complete_at_quiescence : forall (P W : nat) (size : nat -> nat -> nat) (sched : list act) (p : nat),
  let s := run P W size (init) sched in
  fifo (lanes s p) = [] -> held (lanes s p) = None -> emitted (lanes s p) = seq 0 (k (lanes s p)).
Proof. exact complete_at_quiescence. Qed.
Print Assumptions C12_complete_at_quiescence.

(* It finishes its work: in every reachable configuration that is not
   quiescent some step is enabled (at least one worker, unbounded queues). *)
Theorem C12_no_deadlock_of_pipeline : forall (P W : nat) (size : nat -> nat -> nat) (sched : list act),
  0 < W -> ~ quiescent P (run P W size init sched) ->
  exists a s', step P W size (run P W size init sched) a = Some s'.
Proof. exact no_deadlock_reachable. Qed.
Print Assumptions C12_no_deadlock_of_pipeline.

(* Why invariant P2 ("locked BEFORE visible") is needed: in the same system with
   the producer's Lock moved after the publication on the per-peer queue
   (Pipeline/Refute.v) an explicit schedule emits a container none of whose 3
   elements has been processed, after which the producer can never lock it and it
   never reaches a worker -- emitted_processed and completeness are false there. *)
Theorem C12_publish_before_lock_refuted :
  exists sched, let s := run2 1 1 (fun _ _ => 3) (init2) sched in
    In 0 (emitted (lanes2 s 0)) /\ proc2 s 0 0 = 0 /\ proc2 s 0 0 <> 3 /\
    step2 1 1 (fun _ _ => 3) s (LockP 0 0) = None /\ step2 1 1 (fun _ _ => 3) s (Enq2' 0 0) = None /\
    step2 1 1 (fun _ _ => 3) s (Grab' 0 0 0) = None.
Proof. exact publish_before_lock_refuted. Qed.
Print Assumptions C12_publish_before_lock_refuted.

(* What a passing trace of a quiescent run of the real device means. *)
Theorem C12_trace_checker_sound : forall t, holdsb t = true -> t_quiet t = true ->
  (forall l, In l (t_out t) ->
     map snd (o_sent l) = o_read l /\ o_bad l = 0%N /\
     forall i j d, (i < j)%nat -> (j < length (o_sent l))%nat -> (nth i (map fst (o_sent l)) d < nth j (map fst (o_sent l)) d)%N) /\
  (forall l, In l (t_in t) -> i_wr l = i_arr l /\ i_bad l = 0%N).
Proof. exact holdsb_sound. Qed.
Print Assumptions C12_trace_checker_sound.

(* Non-vacuity: two peers, two workers, containers of 2 and 1 elements; the
   second worker finishes peer 0's SECOND container first, yet it is emitted
   second; peer 1 is served in between. *)
Example C12_nonvacuous :
  let size := fun p id => match p, id with 0, 0 => 2 | _, _ => 1 end in
  let s := run 2 2 size init
    [Enq1 0; Enq1 0; Enq2 0 1; Enq2 0 0; Enq1 1; Enq2 1 0;
     Grab 0 0 0; Grab 1 0 1; Proc 1; Finish 1; Take 0; Acquire 0 (* blocked: container 0 still locked *);
     Grab 1 1 0; Proc 1; Finish 1; Take 1; Acquire 1;
     Proc 0; Finish 0 (* blocked: one element left *); Proc 0; Finish 0; Acquire 0; Take 0; Acquire 0] in
  emitted (lanes s 0) = [0; 1] /\ emitted (lanes s 1) = [0] /\ quiescent 2 s.
Proof.
  cbv zeta. split; [vm_compute; reflexivity|]. split; [vm_compute; reflexivity|].
  intros p Hp. destruct p as [|[|p]]; [split; vm_compute; reflexivity|split; vm_compute; reflexivity|lia].
Qed.
