(* Property C13 — control-plane and lifecycle operations are safe under any interleaving.
   Only statements, closed by `exact`, with Print Assumptions.
   What is proved here concerns the MODELS (Lifecycle/Automaton.v: state machine of
   changeState/upLocked/downLocked/Close/BindUpdate/UAPI at critical-section granularity;
   Lifecycle/Locks.v + Proofs.v: lock programs of every operation and goroutine).  Data races,
   panics and goroutine termination are runtime facts observed by the stress harness. *)
From WG Require Import Base.Prelude Gen.Constants.
From WG Require Import Lifecycle.Automaton Lifecycle.AutomatonProofs.
From WG Require Lifecycle.Locks Lifecycle.LockProofs Lifecycle.Proofs Lifecycle.Edges Lifecycle.EdgeProofs.
Module L := Lifecycle.Locks.
Module P := Lifecycle.Proofs.

(* Numbers the deterministic replay of F3b relies on (a keypair aged 121 s is past
   RekeyAfterTime; a last handshake 6 s ago is past RekeyTimeout), as the code has them now. *)
Theorem C13_constants :
  (RekeyAfterTime = 120 * 1000000000 /\ RekeyTimeout = 5 * 1000000000)%N.
Proof. split; reflexivity. Qed.
Print Assumptions C13_constants.

(* ---- lifecycle automaton, ALL interleavings of any number of callers ---- *)

(* the UDP bind is never opened twice without an intervening close *)
Theorem C13_no_double_open : forall sched, nodoubleb false (outputs sched) = true.
Proof. exact no_double_open. Qed.
Print Assumptions C13_no_double_open.

(* stronger: the bind-call sequence is in (Close+ Open)* Close* *)
Theorem C13_open_follows_close : forall sched, closeopenb false (outputs sched) = true.
Proof. exact open_follows_close. Qed.
Print Assumptions C13_open_follows_close.

(* a closed device stays closed *)
Theorem C13_closed_is_absorbing : forall sched1 sched2,
  st (reach sched1) = SClosed -> st (fst (run (reach sched1) sched2)) = SClosed.
Proof. exact closed_is_absorbing. Qed.
Print Assumptions C13_closed_is_absorbing.

(* ... and once Close has returned nothing reopens the bind or restarts peers, whatever is called *)
Theorem C13_closed_no_reopen : forall sched1 sched2, let c := reach sched1 in
  st c = SClosed -> lks c = None ->
  no_open (snd (run c sched2)) = true /\ bopen (fst (run c sched2)) = false /\ peers (fst (run c sched2)) = false.
Proof. exact closed_no_reopen. Qed.
Print Assumptions C13_closed_no_reopen.

(* when Down or Close is about to return: the bind is closed, nobody is about to open it;
   after Close the peers are stopped; after Down they are stopped unless a UAPI peer section
   (handlePostConfig's unsynchronised isUp read) runs concurrently *)
Theorem C13_after_down_or_close_bind_closed_and_peers_stopped : forall sched t, let c := reach sched in
  (at_down_return (thr c t) = true \/ at_close_return (thr c t) = true) ->
  bopen c = false /\ (forall u k, thr c u <> BU3 k true)
  /\ (at_close_return (thr c t) = true -> peers c = false)
  /\ (no_peerstart sched = true -> peers c = false).
Proof. exact after_down_or_close_bind_closed_and_peers_stopped. Qed.
Print Assumptions C13_after_down_or_close_bind_closed_and_peers_stopped.

(* as long as no state operation is in progress and the device is not up, the bind is closed *)
Theorem C13_down_stays_quiet : forall sched, let c := reach sched in
  lks c = None -> st c <> SUp -> bopen c = false /\ (forall u k, thr c u <> BU3 k true).
Proof. exact down_stays_quiet. Qed.
Print Assumptions C13_down_stays_quiet.

(* REFUTED part (model finding): with a concurrent UAPI peer section, Down can return with a
   peer running (isUp read before Down, Peer.Start after it).  The bind is closed, so nothing
   reaches the network; the property text does not demand stopped peers. *)
Theorem C13_peer_running_after_down_reachable : exists sched t, let c := reach sched in
  thr c t = DN7 KDown /\ peers c = true /\ st c = SDown.
Proof. exact peer_running_after_down_reachable. Qed.
Print Assumptions C13_peer_running_after_down_reachable.

(* ---- lock discipline ---- *)

(* generic: programs that acquire along a strict order (joins included) never deadlock,
   under Go's writer-preferring RWMutex *)
Theorem C13_rank_respecting_programs_never_deadlock :
  forall (rank trank : nat -> nat) (ps : list (list L.instr)),
    L.all_ok rank trank ps = true -> forall sched, L.stuckb (L.run (L.init ps) sched) = false.
Proof. exact LockProofs.rank_respecting_programs_never_deadlock. Qed.
Print Assumptions C13_rank_respecting_programs_never_deadlock.

(* the bridge to the source: a program set all of whose lock-order edges (held class -> acquired
   class, joins included) lie in a set E of edges that climb the rank by at least 2 never
   deadlocks.  On every run E is instantiated with the edges EXTRACTED from /repo's source minus
   the listed inversions (Gen/LockEdges.v, theorem programs_within_code_edges_never_deadlock in
   the generated out/C13/lockedges/LockEdgesRun.v). *)
Theorem C13_programs_within_edges_never_deadlock :
  forall (rank : nat -> nat) (ps : list (list L.instr)) (E : list (nat * nat)),
    Edges.wf ps = true -> Edges.ranks_positive rank ps = true ->
    Edges.edges_incl (Edges.all_edges ps) E = true -> Edges.edges_climb rank E = true ->
    forall sched, L.stuckb (L.run (L.init ps) sched) = false.
Proof. exact EdgeProofs.programs_within_edges_never_deadlock. Qed.
Print Assumptions C13_programs_within_edges_never_deadlock.

(* the device's operations and goroutines MINUS the listed inversions respect one order ... *)
Theorem C13_device_locks_rank_ok : L.all_ok P.rank P.trank (P.device_programs false) = true.
Proof. exact P.device_locks_rank_ok. Qed.
Print Assumptions C13_device_locks_rank_ok.

(* ... hence no schedule of them reaches a stuck configuration ... *)
Theorem C13_device_minus_inversions_never_deadlocks :
  forall sched, L.stuckb (L.run (L.init (P.device_programs false)) sched) = false.
Proof. exact P.device_minus_inversions_never_deadlocks. Qed.
Print Assumptions C13_device_minus_inversions_never_deadlocks.

(* ... while the code as it is does NOT respect it *)
Theorem C13_device_full_code_violates_rank : L.all_ok P.rank P.trank (P.device_programs true) = false.
Proof. exact P.device_full_code_violates_rank. Qed.
Print Assumptions C13_device_full_code_violates_rank.

(* the listed inversions: explicit schedules of the full programs reaching a deadlock.
   The first three (and the fifth) are replayed on the real code by the harness. *)
Theorem C13_bindupdate_vs_removepeer_deadlocks :
  P.deadlocks P.f3a_threads (P.rep 0 3 ++ P.rep 2 3 ++ P.rep 1 18).
Proof. exact P.bindupdate_vs_removepeer_deadlocks. Qed.
Print Assumptions C13_bindupdate_vs_removepeer_deadlocks.

Theorem C13_setprivatekey_collision_vs_sender_rekey_deadlocks :
  P.deadlocks P.f3b_threads (P.rep 0 22 ++ P.rep 1 18).
Proof. exact P.setprivatekey_collision_vs_sender_rekey_deadlocks. Qed.
Print Assumptions C13_setprivatekey_collision_vs_sender_rekey_deadlocks.

Theorem C13_setprivatekey_vs_consume_response_deadlocks :
  P.deadlocks P.f3c_threads (P.rep 0 4 ++ P.rep 1 3 ++ P.rep 0 8).
Proof. exact P.setprivatekey_vs_consume_response_deadlocks. Qed.
Print Assumptions C13_setprivatekey_vs_consume_response_deadlocks.

Theorem C13_pending_setprivatekey_vs_consume_initiation_vs_consume_response_deadlocks :
  P.deadlocks P.f3c2_threads ([1] ++ P.rep 2 3 ++ P.rep 1 5 ++ P.rep 0 3).
Proof. exact P.pending_setprivatekey_vs_consume_initiation_vs_consume_response_deadlocks. Qed.
Print Assumptions C13_pending_setprivatekey_vs_consume_initiation_vs_consume_response_deadlocks.

Theorem C13_up_keepalive_vs_direct_setprivatekey_deadlocks :
  P.deadlocks P.upkey_threads (P.rep 0 29 ++ P.rep 1 3).
Proof. exact P.up_keepalive_vs_direct_setprivatekey_deadlocks. Qed.
Print Assumptions C13_up_keepalive_vs_direct_setprivatekey_deadlocks.

Theorem C13_down_vs_bindupdate_vs_pending_peers_writer_deadlocks :
  P.deadlocks P.down4_threads (P.rep 0 18 ++ P.rep 1 3 ++ P.rep 2 3 ++ [3; 3]).
Proof. exact P.down_vs_bindupdate_vs_pending_peers_writer_deadlocks. Qed.
Print Assumptions C13_down_vs_bindupdate_vs_pending_peers_writer_deadlocks.

Theorem C13_down_vs_setprivatekey_vs_sender_rekey_deadlocks :
  P.deadlocks P.f3d_threads (P.rep 2 18 ++ P.rep 0 18 ++ P.rep 1 5).
Proof. exact P.down_vs_setprivatekey_vs_sender_rekey_deadlocks. Qed.
Print Assumptions C13_down_vs_setprivatekey_vs_sender_rekey_deadlocks.

Theorem C13_down_vs_setprivatekey_vs_retransmit_timer_deadlocks :
  P.deadlocks P.e2t_threads (P.rep 2 13 ++ P.rep 0 12 ++ P.rep 1 5).
Proof. exact P.down_vs_setprivatekey_vs_retransmit_timer_deadlocks. Qed.
Print Assumptions C13_down_vs_setprivatekey_vs_retransmit_timer_deadlocks.

Theorem C13_newpeer_vs_removepeer_vs_pending_setprivatekey_deadlocks :
  P.deadlocks P.e3_threads ([0] ++ P.rep 1 16 ++ [3] ++ P.rep 2 18).
Proof. exact P.newpeer_vs_removepeer_vs_pending_setprivatekey_deadlocks. Qed.
Print Assumptions C13_newpeer_vs_removepeer_vs_pending_setprivatekey_deadlocks.

Theorem C13_ipcget_vs_removepeer_vs_pending_bindupdate_deadlocks :
  P.deadlocks P.e4_threads (P.rep 0 3 ++ P.rep 1 16 ++ [3] ++ P.rep 2 3).
Proof. exact P.ipcget_vs_removepeer_vs_pending_bindupdate_deadlocks. Qed.
Print Assumptions C13_ipcget_vs_removepeer_vs_pending_bindupdate_deadlocks.

Theorem C13_consume_initiation_lookup_vs_removepeer_vs_pending_setprivatekey_deadlocks :
  P.deadlocks P.e6_threads ([0] ++ P.rep 1 16 ++ [3] ++ P.rep 2 18).
Proof. exact P.consume_initiation_lookup_vs_removepeer_vs_pending_setprivatekey_deadlocks. Qed.
Print Assumptions C13_consume_initiation_lookup_vs_removepeer_vs_pending_setprivatekey_deadlocks.

(* ---- non-vacuity ---- *)

(* the automaton really opens and closes: Up; UAPI listen_port; Down; Up; Close; Up *)
Example C13_nonvacuous_outputs :
  outputs ([(0, Start OpUp)] ++ repeat (0, Go true) 12 ++ [(1, Start OpListenPort)] ++ repeat (1, Go true) 7
           ++ [(0, Start OpDown)] ++ repeat (0, Go true) 8 ++ [(2, Start OpUp)] ++ repeat (2, Go true) 12
           ++ [(1, Start OpClose)] ++ repeat (1, Go true) 10 ++ [(0, Start OpUp)] ++ repeat (0, Go true) 3)
  = [OClose; OOpen; OClose; OOpen; OClose; OClose; OOpen; OClose].
Proof. vm_compute. reflexivity. Qed.

(* the monitor rejects what the property forbids: a second Open; a Send after a clean Down
   returned; an Open after Close returned; a receive loop still parked after a clean Down —
   and accepts a legal history; a running peer after Down is only recorded (informational) *)
Example C13_nonvacuous_monitor :
  holdsb [BClose; BOpen; BClose; BOpen; BOpen] = false /\
  holdsb [InvUp 1; BClose; BOpen; RetUp 1; InvDown 2; BClose; RetDown 2; ObsBegin 2; RecvLoopRunning 2] = false /\
  holdsb [InvUp 1; BClose; BOpen; RetUp 1; SendEnter 7; InvDown 2; BClose; RetDown 2; SendExit 7; BRefused] = false /\
  holdsb [InvUp 1; BClose; BOpen; RetUp 1; SendEnter 7; InvDown 2; SendExit 7; BSend; BClose; RetDown 2] = true /\
  holdsb [InvUp 1; BClose; BOpen; RetUp 1; InvDown 2; InvUp 3; BClose; RetDown 2; ObsBegin 2; RecvLoopRunning 2] = true /\
  holdsb [InvUp 1; BClose; BOpen; RetUp 1; InvDown 2; BClose; RetDown 2; ObsBegin 2; PeerRunning 2] = true /\
  saw_running_peerb [InvUp 1; BClose; BOpen; RetUp 1; InvDown 2; BClose; RetDown 2; ObsBegin 2; PeerRunning 2] = true /\
  holdsb [InvUp 1; BClose; BOpen; RetUp 1; InvDown 2; InvPeerCfg 3; BClose; RetDown 2; ObsBegin 2; PeerRunning 2; RetPeerCfg 3] = true /\
  holdsb [InvUp 1; BClose; BOpen; RetUp 1; ObsBegin 9; InvClose 2; BClose; RetClose 2; PeerRunning 9] = true /\
  holdsb [InvUp 1; BClose; BOpen; RetUp 1; BSend; InvDown 2; BClose; RetDown 2; BSend] = false /\
  holdsb [InvUp 1; BClose; BOpen; RetUp 1; InvClose 2; BClose; RetClose 2; InvUp 3; BClose; BOpen; RetUp 3] = false /\
  holdsb [InvUp 1; BClose; BOpen; RetUp 1; BSend; InvDown 2; InvUp 3; BClose; RetDown 2; BClose; BOpen; BSend; RetUp 3;
          InvClose 4; BSend; BClose; RetClose 4; BRefused; InvUp 5; RetUp 5] = true.
Proof. vm_compute. repeat split. Qed.
