(* Property C19 — the handshake rate limiter is a per-source token bucket.
   Only statements, closed by `exact`, with Print Assumptions.

   Vocabulary (Ratelimit/Model.v, Spec.v): a history is a list of
   [Arrive addr time] and [Gc time] (collection pass) operations; times are
   int64 ns.  [valid lo h]: times do not go backwards and lie in one span of
   2^62 ns starting at [lo].  [step gc] is the mirror of Allow/cleanup
   ([gc = false] skips the passes); [arrivals h rs] pairs arrivals with their
   decisions; [admitted a evs] counts admissions of address [a]. *)
From Coq Require Import String.
From WG Require Import Base.Prelude Gen.Constants.
From WG Require Import Ratelimit.Model Ratelimit.Spec Ratelimit.Proofs Ratelimit.Conc.
From WG Require Import Ratelimit.Ast Gen.RlAst Ratelimit.AstProofs.
From WG Require Ratelimit.Collector.
From WG Require Import Ratelimit.ConcVariants.
Local Open Scope Z_scope.

(* The numbers the property text names, as the code has them now: 20 per
   second, bursts of 5, 50 ms, collection after 1 s. *)
Theorem C19_constants :
  rl_packetsPerSecond = 20%N /\ rl_packetsBurstable = 5%N /\
  cost = 50 * 1000000 /\ cost * Z.of_N rl_packetsPerSecond = 1000000000 /\
  maxTokens = Z.of_N rl_packetsBurstable * cost /\ gcTime = 1000000000 /\
  maxTokens <= gcTime.
Proof. vm_compute. repeat split; congruence. Qed.
Print Assumptions C19_constants.

(* "Entries of idle addresses are forgotten without changing any later
   decision": with any collection passes interleaved anywhere, the decisions
   are those of the limiter that never collects. *)
Theorem C19_gc_invisible : forall lo ops, valid lo ops ->
  decs (outs (step true) empty ops) = decs (outs (step false) empty ops).
Proof. exact gc_invisible. Qed.
Print Assumptions C19_gc_invisible.

(* "Entries of idle addresses are forgotten": right after a collection pass at
   time t the table holds exactly the addresses whose last arrival l satisfies
   t - l <= garbageCollectTime (1 s), each with lastTime = l; and the model's
   len(table) counts exactly those entries. *)
Theorem C19_idle_entries_forgotten : forall lo h t a, valid lo (h ++ [Gc t]) ->
  let s := final (step true) empty (h ++ [Gc t]) in
  (forall e, tbl s a = Some e -> last_arr a h None = Some (e_last e) /\ t - e_last e <= gcTime) /\
  (tbl s a = None -> match last_arr a h None with Some l => gcTime < t - l | None => True end).
Proof. exact idle_entries_forgotten. Qed.
Print Assumptions C19_idle_entries_forgotten.

Theorem C19_table_len : forall gc ops,
  let s := final (step gc) empty ops in
  NoDup (keys s) /\ forall a, In a (keys s) <-> tbl s a <> None.
Proof. exact keys_table. Qed.
Print Assumptions C19_table_len.

(* "independently of what other addresses send" *)
Theorem C19_per_address_independent : forall gc ops a,
  decs_of a (arrivals ops (outs (step gc) empty ops)) = decs (outs (step gc) empty (proj a ops)).
Proof. exact per_address_independent. Qed.
Print Assumptions C19_per_address_independent.

(* "an address that spaces its messages more than 50 ms apart is never refused" *)
Theorem C19_spaced_never_refused : forall gc lo ops a, valid lo ops -> spaced a ops ->
  Forall (fun d => d = true) (decs_of a (arrivals ops (outs (step gc) empty ops))).
Proof. exact spaced_never_refused. Qed.
Print Assumptions C19_spaced_never_refused.

(* "in any interval of length T at most 5 + 20*T messages from one address are
   admitted": for any window h2 of a history (after any prefix h1), the number n
   of admissions of one address satisfies n * 50 ms <= 250 ms + T, T the time
   from the first to the last operation of the window. *)
Theorem C19_rate_envelope : forall gc lo h1 h2 a, valid lo (h1 ++ h2) ->
  let rs := outs (step gc) empty (h1 ++ h2) in
  admitted a (arrivals h2 (skipn (length h1) rs)) * cost <= maxTokens + span h2.
Proof. exact rate_envelope. Qed.
Print Assumptions C19_rate_envelope.

(* Concurrent callers, insertion re-checked under the write lock (the repair
   of F2): for all pools of callers and all schedules in which no collection
   pass falls between a caller's lookup and its charge, every window obeys the
   envelope. *)
Theorem C19_conc_rate_envelope_all_schedules : forall lo addrs pre w a,
  - 2^63 <= lo -> lo + 2^62 < 2^63 ->
  sched_ok true true (lo + 2^62) (init lo addrs) (pre ++ w) ->
  window_envelope true (init lo addrs) pre w a.
Proof. exact conc_rate_envelope_all_schedules. Qed.
Print Assumptions C19_conc_rate_envelope_all_schedules.

(* The code as found (no re-check): refuted — finding F2. *)
Theorem C19_conc_rate_envelope_refuted :
  exists addrs sched a,
    sched_ok false true 0 (init 0 addrs) sched /\
    ~ window_envelope false (init 0 addrs) [] sched a.
Proof. exact conc_rate_envelope_refuted. Qed.
Print Assumptions C19_conc_rate_envelope_refuted.

(* Even with the repaired insertion, a collection pass between a caller's
   lookup and its charge breaks the envelope (orphaned entry). *)
Theorem C19_conc_collect_race_refuted :
  exists addrs pre w a,
    sched_ok true false (2^40) (init 0 addrs) (pre ++ w) /\
    ~ window_envelope true (init 0 addrs) pre w a.
Proof. exact conc_collect_race_refuted. Qed.
Print Assumptions C19_conc_collect_race_refuted.

(* What the all-schedules theorem depends on, at lock-section granularity
   (Ratelimit/ConcVariants.v): the code's variant of the refined step function
   is the model of the theorem ... *)
Theorem C19_variant_code_is_model : forall sched s,
  vs (vrun Recheck s (map lift sched)) = crun true (vs s) sched.
Proof. exact vrun_is_crun. Qed.
Print Assumptions C19_variant_code_is_model.

(* ... a caller that finds somebody else's entry at its second look must be
   charged: if it returns true without charging, 6 are admitted at one instant
   (4 with the code) ... *)
Theorem C19_variant_recheck_admit_refuted :
  let s := vs (vrun RecheckAdmit (vinit 0 (repeat addr_x 6)) free_schedule) in
  admitted_at addr_x 0 (log s) = 6 /\ clock s = 0 /\ ~ (6 * cost <= maxTokens + 0) /\
  admitted_at addr_x 0 (log (vs (vrun Recheck (vinit 0 (repeat addr_x 6)) free_schedule))) = 4.
Proof. exact recheck_admit_refuted. Qed.
Print Assumptions C19_variant_recheck_admit_refuted.

(* ... and a collection pass must be one section: if idle entries are noted in
   one section and deleted in a later one, an entry used in between is
   forgotten while busy: 8 admitted at one instant (4 with the code). *)
Theorem C19_variant_split_collect_refuted :
  let t := gcTime + 1 in
  admitted_at addr_x t (log (vs (vrun Recheck (vinit 0 split_pool) (split_schedule true)))) = 8 /\
  ~ (8 * cost <= maxTokens + 0) /\
  admitted_at addr_x t (log (vs (vrun Recheck (vinit 0 split_pool) (split_schedule false)))) = 4.
Proof. exact split_collect_refuted. Qed.
Print Assumptions C19_variant_split_collect_refuted.

(* Every call returns: the collector goroutine (ticker, cleanup under the table
   lock) and a caller whose insert makes the table non-empty (blocking send on
   stopReset with the table lock held) never block each other, for all
   schedules of ticks, passes deleting any number of entries, and arrivals. *)
Theorem C19_collector_never_stuck : forall sched,
  Collector.stuckb true (Collector.run true Collector.init sched) = false.
Proof. exact Collector.collector_never_stuck. Qed.
Print Assumptions C19_collector_never_stuck.

(* ... and this depends on the ticker being stopped when a pass leaves the
   table empty: without it an explicit schedule ends stuck. *)
Theorem C19_collector_stuck_without_stop :
  Collector.stuckb false (Collector.run false Collector.init Collector.stuck_schedule) = true /\
  Collector.stuckb true (Collector.run true Collector.init Collector.stuck_schedule) = false.
Proof. exact Collector.collector_stuck_without_stop. Qed.
Print Assumptions C19_collector_stuck_without_stop.

(* THE TIE TO THE SOURCE (translator harness/cmd/rlast, rerun on every check):
   Gen.RlAst.allow_body is the body of Ratelimiter.Allow of
   ratelimiter/ratelimiter.go, Gen.RlAst.cleanup_entry_body / cleanup_cond the
   per-entry part of cleanup(), as terms of the deep-embedded language of
   Ratelimit/Ast.v (int64 += / -= wrapping, time.Sub saturating, map lookup and
   insert, lock operations skipped by the sequential interpreter).  For ALL
   tables, addresses and clock values the interpreted source is the model ... *)
Theorem C19_source_allow_is_the_model : forall t n a now,
  run_allow allow_body t n a now = Some (allow_t t a now).
Proof. exact ast_allow_correct. Qed.
Print Assumptions C19_source_allow_is_the_model.

Theorem C19_source_cleanup_entry_is_the_model : forall e n now,
  run_cleanup_entry cleanup_entry_var cleanup_entry_body e n now = Some (if keep e now then Some e else None).
Proof. exact ast_cleanup_entry_correct. Qed.
Print Assumptions C19_source_cleanup_entry_is_the_model.

(* ... the constants the translator evaluated from the const block are those the
   Go compiler reported (Gen/Constants.v) ... *)
Theorem C19_source_constants_agree :
  c_packetsPerSecond = Z.of_N rl_packetsPerSecond /\ c_packetsBurstable = Z.of_N rl_packetsBurstable /\
  c_garbageCollectTime = gcTime /\ c_packetCost = cost /\ c_maxTokens = maxTokens.
Proof. exact consts_agree. Qed.
Print Assumptions C19_source_constants_agree.

(* ... and for every history of arrivals and collection passes, from any state,
   interpreting the source never stops and gives the model's run: the theorems
   above (envelope, spaced-never-refused, independence, collection invisible)
   are theorems about the interpreted source. *)
Theorem C19_source_run_is_the_model : forall gc ops s,
  ast_run gc s ops = Some (run (Model.step gc) s ops).
Proof. exact ast_run_correct. Qed.
Print Assumptions C19_source_run_is_the_model.

(* ---- non-vacuity ---- *)
(* a valid history with a burst, the 50 ms edge, a pass at the 1 s edge and a
   second address: first call + 3 more admitted at a frozen clock, the fifth
   refused (strict >: burst 4, below the 5 the property allows); an entry idle
   for exactly 1 s survives a pass, 1 ns more and it is collected *)
Definition t0 : Z := 1700000000000000000.
Definition h_ex : list op :=
  [Arrive 1 t0; Arrive 1 t0; Arrive 1 t0; Arrive 1 t0; Arrive 1 t0; Arrive 2 t0;
   Arrive 1 (t0 + 50000000); Arrive 1 (t0 + 100000001);
   Gc (t0 + 1100000001); Gc (t0 + 1100000002); Arrive 1 (t0 + 1100000002)].
Example C19_nonvacuous_valid : valid t0 h_ex.
Proof. unfold valid, h_ex, t0. cbn [monotone time_of]. repeat split; try lia. repeat constructor; cbn [time_of]; lia. Qed.
Example C19_nonvacuous_run :
  outs (step true) empty h_ex =
  [Dec true; Dec true; Dec true; Dec true; Dec false; Dec true; Dec true; Dec true;
   Len 1; Len 0; Dec true].
Proof. vm_compute. reflexivity. Qed.
Example C19_nonvacuous_spaced :
  spaced 1 [Arrive 1 t0; Arrive 2 t0; Arrive 1 (t0 + 50000001); Gc (t0 + 50000001); Arrive 1 (t0 + 100000002)]
  /\ ~ spaced 1 h_ex.
Proof. unfold spaced, h_ex, t0. cbn. change cost with 50000000. split; [lia|lia]. Qed.
(* the envelope is tight up to the strict comparison: 4 admissions in a window of length 0 *)
Example C19_nonvacuous_envelope :
  admitted 1 (arrivals (firstn 5 h_ex) (outs (step true) empty (firstn 5 h_ex))) = 4 /\ span (firstn 5 h_ex) = 0.
Proof. vm_compute. split; reflexivity. Qed.
(* the hypothesis on the time span is needed: after an idle gap of 2^63 - 1 ns
   the int64 token addition wraps and a lone, perfectly spaced arrival is refused *)
Example C19_int64_wrap_refuses :
  outs (step true) empty [Arrive 1 (- 2^63); Arrive 1 (2^63 - 1)] = [Dec true; Dec false].
Proof. vm_compute. reflexivity. Qed.
