(* Property C16 — TUN write-side coalescing (GRO) is lossless.
   Only statements, closed by `exact`, with Print Assumptions.
   Objects: Gro.Model.handle_gro = mirror of handleGRO (state after the call:
   s_err, s_bufs, s_tw = toWrite, ghost s_trace = groResult of every packet);
   Gro.KernelSpec.kernel_segment = what the kernel makes of a written buffer;
   Gro.Spec.holdsb = the property on observable behaviour.
   What is a theorem for ALL batches: bookkeeping, pass-through (packet bytes;
   header zero or untouched), payload bytes and segment boundaries of every
   coalesced buffer, descriptor / length fields, validity of the checksums of the
   kernel's segments, and equality of the re-segmented packets with the inputs in
   every compared header byte (UDP, TCP append and prepend; per buffer and as a
   multiset over the batch).  The full statement as the property words it is
   refuted by the faithful model (IPv6 flow label, PSH on prepend, zero-length UDP
   order, stale virtio header, lengths past 65535): see the *_refuted theorems. *)
From WG Require Import Base.Prelude Gen.Constants Gro.Bytes Gro.Model Gro.KernelSpec Gro.Spec Gro.Proofs Gro.Csum Gro.Headers Gro.HeadersTcp Gro.Lossless Gro.Holds Gro.Examples.
Local Open Scope N_scope.

Theorem C16_constants :
  VH = 10 /\ tun_maxUint16 = 65535 /\ UDPH = 8 /\ PSH = 8 /\ ACK = 16 /\ FLAGS_OFF = 13 /\
  tun_ipv4SrcAddrOffset = 12 /\ tun_ipv6SrcAddrOffset = 8 /\ conn_IdealBatchSize = 128 /\ MaxSegmentSize = 65535.
Proof. repeat split; reflexivity. Qed.
Print Assumptions C16_constants.

(* Each input index is either written or merged into exactly one written buffer
   (the trace is a function of the index; its target precedes it and is written). *)
Theorem C16_gro_bookkeeping : forall (canUDP : bool) (offset : N) (bufs : list buf),
  let s := handle_gro canUDP offset bufs in
  s_err s = false ->
  length (s_trace s) = length bufs /\
  NoDup (s_tw s) /\
  (forall j, In j (s_tw s) -> j < len (map b_cap bufs)) /\
  (forall i r, nth_error (s_trace s) i = Some r ->
     match r with
     | Coalesced j _ => ~ In (N.of_nat i) (s_tw s) /\ In j (s_tw s) /\ j < N.of_nat i
     | _ => In (N.of_nat i) (s_tw s)
     end).
Proof. exact gro_bookkeeping. Qed.
Print Assumptions C16_gro_bookkeeping.

(* which inputs make up written buffer j: itself and exactly those merged into it *)
Theorem C16_members_partition : forall tr j i,
  In i (members tr j) <-> i = j \/ exists p, nth_error tr (N.to_nat i) = Some (Coalesced j p) /\ (N.to_nat i < length tr)%nat.
Proof. exact members_spec. Qed.
Print Assumptions C16_members_partition.

(* A written buffer nothing was merged into carries its input packet unmodified;
   the virtio header in front is all-zero or (see C16_passthrough_zero_hdr_refuted) untouched. *)
Theorem C16_gro_passthrough_partial : forall (canUDP : bool) (offset : N) (bufs : list buf) (j : N),
  let s := handle_gro canUDP offset bufs in
  s_err s = false -> In j (s_tw s) -> ~ merged_into (s_trace s) j ->
  b_pkt (get_buf (s_bufs s) j) = b_pkt (get_buf bufs j) /\
  (b_hdr (get_buf (s_bufs s) j) = zero_vhdr \/ b_hdr (get_buf (s_bufs s) j) = b_hdr (get_buf bufs j)).
Proof. exact gro_passthrough_partial. Qed.
Print Assumptions C16_gro_passthrough_partial.

Theorem C16_passthrough_zero_hdr_refuted :
  exists bufs j, let s := handle_gro true 16 bufs in
    s_err s = false /\ In j (s_tw s) /\ merged_into_b (s_trace s) j = false /\
    b_pkt (get_buf (s_bufs s) j) = b_pkt (get_buf bufs j) /\ b_hdr (get_buf (s_bufs s) j) <> zero_vhdr.
Proof. exact passthrough_zero_hdr_refuted. Qed.
Print Assumptions C16_passthrough_zero_hdr_refuted.

(* Per-merge lemma, payload level, for UDP append, TCP append and TCP prepend:
   if the item described its buffer (chunks at gsoSize = payloads of its members)
   it still does after the merge, with the new packet appended / prepended. *)
Theorem C16_merge_keeps_payloads : forall inp tcp pkt k off v6 p it it' bufs bufs' mem,
  merged_ok tcp pkt k off v6 p it it' bufs bufs' ->
  pkt = b_pkt (get_buf inp k) -> b_pkt (get_buf bufs k) = pkt ->
  it_idx it <> k -> (N.to_nat (it_idx it) < length bufs)%nat ->
  item_ok inp tcp it (b_pkt (get_buf bufs (it_idx it))) mem ->
  item_ok inp tcp it' (b_pkt (get_buf bufs' (it_idx it))) (if p then k :: mem else mem ++ [k]).
Proof. exact merge_item_ok. Qed.
Print Assumptions C16_merge_keeps_payloads.

(* Losslessness of payloads and boundaries: a buffer something was merged into is
   written with a GSO virtio header, and cutting its payload at gso_size after
   hdr_len yields exactly the payloads of its members, in order (>= 2 of them). *)
Theorem C16_gro_payloads_lossless : forall (canUDP : bool) (offset : N) (bufs : list buf) (j : N),
  let s := handle_gro canUDP offset bufs in
  s_err s = false -> merged_into (s_trace s) j ->
  let b := get_buf (s_bufs s) j in
  let v := dec_vhdr (b_hdr b) in
  In j (s_tw s) /\
  v_flags v = VIRTIO_NET_HDR_F_NEEDS_CSUM /\ v_gso v <> GSO_NONE /\ 1 <= v_gsosize v /\ v_hdrlen v <= len (b_pkt b) /\
  (2 <= length (members (s_trace s) j))%nat /\
  chunks (v_gsosize v) (drop (v_hdrlen v) (b_pkt b)) = map (payload_of bufs (v_hdrlen v)) (members (s_trace s) j).
Proof. exact gro_payloads_lossless. Qed.
Print Assumptions C16_gro_payloads_lossless.

(* Headers, first half of gro_headers_valid: within the capacity bound every
   coalesced buffer is at most 65535 bytes, its descriptor is well-formed (flags,
   type for the IP version / protocol, hdr_len = IP + transport header as the
   packet states them, csum_start/offset, gso_size >= 1 and smaller than the
   payload) and the IP total/payload length and UDP length fields are right.
   (That the kernel then produces valid checksums: C16_gro_segment_checksums_valid.) *)
Theorem C16_gro_descriptor_lengths_valid : forall (canUDP : bool) (offset : N) (bufs : list buf) (j : N),
  (forall b, In b bufs -> b_cap b <= 65535 + 2 * offset) ->
  let s := handle_gro canUDP offset bufs in
  s_err s = false -> merged_into (s_trace s) j ->
  descriptor_ok (get_buf (s_bufs s) j) = true /\ lengths_ok (get_buf (s_bufs s) j) = true.
Proof. exact gro_descriptor_lengths_valid. Qed.
Print Assumptions C16_gro_descriptor_lengths_valid.

(* Headers, second half of gro_headers_valid: within the capacity bound the kernel
   makes of every coalesced buffer exactly as many segments as packets were merged
   into it, and every one of them has a valid IPv4 header checksum and a valid
   TCP/UDP checksum (completed from the pseudo-header sum the accounting left). *)
Theorem C16_gro_segment_checksums_valid : forall (canUDP : bool) (offset : N) (bufs : list buf) (j : N),
  (forall b, In b bufs -> b_cap b <= 65535 + 2 * offset) ->
  let s := handle_gro canUDP offset bufs in
  s_err s = false -> merged_into (s_trace s) j ->
  let b := get_buf (s_bufs s) j in
  let segs := kernel_segment (b_hdr b) (b_pkt b) in
  length segs = length (members (s_trace s) j) /\
  forallb (fun p => ip_csum_ok p && l4_csum_ok p) segs = true.
Proof. exact gro_segment_checksums_valid. Qed.
Print Assumptions C16_gro_segment_checksums_valid.

(* UDP flows are lossless in full (DESIGN's first stage of gro_lossless): within the
   capacity bound the datagrams the kernel makes of a coalesced UDP buffer are, in
   order, the datagrams merged into it, equal in every byte the property compares
   (canon_gen: all but IPv4 total length / ID / header checksum, IPv6 payload length,
   UDP length and checksum; the IPv6 flow label masked, which the model loses, F8). *)
Theorem C16_gro_udp_lossless : forall (canUDP : bool) (offset : N) (bufs : list buf) (j : N),
  (forall b, In b bufs -> b_cap b <= 65535 + 2 * offset) ->
  let s := handle_gro canUDP offset bufs in
  s_err s = false -> merged_into (s_trace s) j ->
  let b := get_buf (s_bufs s) j in
  v_gso (dec_vhdr (b_hdr b)) = GSO_UDP_L4 ->
  map (canon_gen true true) (kernel_segment (b_hdr b) (b_pkt b)) =
  map (fun m => canon_gen true true (b_pkt (get_buf bufs m))) (members (s_trace s) j).
Proof. exact gro_udp_lossless. Qed.
Print Assumptions C16_gro_udp_lossless.

(* TCP flows are lossless in full (DESIGN's TCP append and prepend stages): within the
   capacity bound, for input bytes < 256, the segments the kernel makes of a coalesced TCP
   buffer are, in sequence order, the segments merged into it -- equal in every byte the
   property compares: addresses, ports, sequence (seq_0 + i*gso_size, incl. wrap at 2^32)
   and acknowledgement numbers, data offset, flags (PSH masked: finding), options,
   payload, and the IP header fields; TCP window / checksum / reserved bits / urgent
   pointer, IPv4 total length / ID / checksum, IPv6 payload length and flow label (F8)
   are the fields not compared. *)
Theorem C16_gro_tcp_lossless : forall (canUDP : bool) (offset : N) (bufs : list buf) (j : N),
  (forall b, In b bufs -> b_cap b <= 65535 + 2 * offset) -> bytes_ok bufs ->
  let s := handle_gro canUDP offset bufs in
  s_err s = false -> merged_into (s_trace s) j ->
  let b := get_buf (s_bufs s) j in
  v_gso (dec_vhdr (b_hdr b)) <> GSO_UDP_L4 ->
  map (canon_gen true true) (kernel_segment (b_hdr b) (b_pkt b)) =
  map (fun m => canon_gen true true (b_pkt (get_buf bufs m))) (members (s_trace s) j).
Proof. exact gro_tcp_lossless. Qed.
Print Assumptions C16_gro_tcp_lossless.

(* gro_lossless, assembled over the whole batch: the packets the kernel makes of all
   written buffers are, as a multiset, the input packets, equal in every compared byte
   (third clause of holdsb with the IPv6 flow label and the PSH bit masked -- the two
   fields the model is shown to lose).  Hypotheses: capacity bound (F5), input bytes
   < 256, and the 10 bytes in front of every packet zero (else finding
   gro-stale-virtio-hdr-after-invalid-csum-item applies). *)
Theorem C16_gro_lossless_modulo : forall (canUDP : bool) (offset : N) (bufs : list buf),
  (forall b, In b bufs -> b_cap b <= 65535 + 2 * offset) -> bytes_ok bufs ->
  (forall b, In b bufs -> b_hdr b = zero_vhdr) ->
  let s := handle_gro canUDP offset bufs in
  s_err s = false ->
  floweq_gen true true bufs (s_tw s) (s_bufs s) = true.
Proof. exact gro_lossless_modulo. Qed.
Print Assumptions C16_gro_lossless_modulo.

(* Summary: every clause of holdsb except UDP order (flow equivalence with the IPv6 flow
   label and the PSH bit masked) as one boolean, true for every batch. *)
Theorem C16_gro_holds_core : forall (canUDP : bool) (offset : N) (bufs : list buf),
  (forall b, In b bufs -> b_cap b <= 65535 + 2 * offset) -> bytes_ok bufs ->
  (forall b, In b bufs -> b_hdr b = zero_vhdr) ->
  let s := handle_gro canUDP offset bufs in
  s_err s = false ->
  bookkeeping_ok bufs (s_tw s) (s_bufs s) && passthrough_ok bufs (s_tw s) (s_bufs s)
  && floweq_gen true true bufs (s_tw s) (s_bufs s) && headers_valid_ok (s_tw s) (s_bufs s) = true.
Proof. exact gro_holds_core. Qed.
Print Assumptions C16_gro_holds_core.

(* NOT proved: preservation of UDP order for the datagrams the coalescer considers
   (refuted as stated, C16_refuted_by_udp_order; evaluated on every generated batch). *)

(* The property in full (holdsb on every batch within the capacity bound) is NOT a
   theorem: the faithful model refutes it. *)
Definition C16_gro_lossless_statement : Prop := gro_lossless_statement.
Theorem C16_gro_lossless_refuted : ~ C16_gro_lossless_statement.
Proof. exact gro_lossless_refuted. Qed.
Print Assumptions C16_gro_lossless_refuted.

(* ... by the IPv6 flow label only (finding F8) *)
Theorem C16_refuted_only_by_flow_label :
  preb 16 ex_flowlabel = true /\ holds ex_flowlabel = false /\ holds_modulo true false ex_flowlabel = true.
Proof. exact refuted_only_by_flow_label. Qed.
Print Assumptions C16_refuted_only_by_flow_label.
(* ... by the PSH bit lost on prepend only *)
Theorem C16_refuted_only_by_psh :
  preb 16 ex_psh = true /\ holds ex_psh = false /\ holds_modulo false true ex_psh = true.
Proof. exact refuted_only_by_psh. Qed.
Print Assumptions C16_refuted_only_by_psh.
(* ... by a zero-length UDP datagram overtaken within its flow *)
Theorem C16_refuted_by_udp_order :
  preb 16 ex_udp0 = true /\ holds ex_udp0 = false /\
  (let s := run ex_udp0 in udp_order_ok ex_udp0 (s_tw s) (s_bufs s)) = false.
Proof. exact refuted_by_udp_order. Qed.
Print Assumptions C16_refuted_by_udp_order.
(* the capacity bound is needed: beyond it the 16-bit length fields wrap (finding F5) *)
Theorem C16_length_wraps_with_large_cap :
  exists bufs, forallb (fun b => (b_cap b =? 131072) && (len (b_pkt b) =? 1240)) bufs = true /\
    let s := run bufs in s_err s = false /\ In 0 (s_tw s) /\
    len (b_pkt (get_buf (s_bufs s) 0)) = 66040 /\ l3_len (b_pkt (get_buf (s_bufs s) 0)) = 504 /\
    holdsb bufs (s_tw s) (s_bufs s) = false.
Proof. exact length_wraps_with_large_cap. Qed.
Print Assumptions C16_length_wraps_with_large_cap.

(* Non-vacuity: batches on which coalescing happens (append, prepend across the
   sequence-number wrap, mixed flows, the capacity boundary) and holdsb is true. *)
Example C16_nonvacuous_mixed : s_tw (run ex_mixed) = [0; 1; 6] /\ holds ex_mixed = true /\
  length (segments (s_tw (run ex_mixed)) (s_bufs (run ex_mixed))) = 8%nat.
Proof. exact ex_mixed_ok. Qed.
Example C16_nonvacuous_prepend_wrap : s_tw (run ex_prepend) = [0] /\ holds ex_prepend = true /\
  s_trace (run ex_prepend) = [Inserted; Coalesced 0 true; Coalesced 0 false].
Proof. exact ex_prepend_ok. Qed.
Example C16_nonvacuous_capacity_edge :
  s_tw (run ex_cap) = [0; 1] /\ s_tw (run ex_cap') = [0] /\ holds ex_cap = true /\ holds ex_cap' = true.
Proof. exact ex_cap_ok. Qed.
