(* Property C16 — TUN write-side coalescing (GRO) is lossless.
   Only statements, closed by `exact`, with Print Assumptions.
   Objects: Gro.Model.handle_gro = mirror of handleGRO of the CURRENT tree (with the
   fixes 951b0e7 flow label, 4a9316a 65535 guard, b918254 header of a deleted item,
   ad814da PSH on prepend); Gro.OldModel.Old.handle_gro = the code before them
   (state after the call: s_err, s_bufs, s_tw = toWrite, ghost s_trace = groResult of
   every packet); Gro.KernelSpec.kernel_segment = what the kernel makes of a written
   buffer; Gro.Spec.holdsb = the property on observable behaviour.
   Theorems for ALL batches about the current code: bookkeeping, pass-through in full,
   payloads and boundaries, descriptor / lengths / checksums, equality of the
   re-segmented packets with the inputs in every compared byte incl. the IPv6 flow
   label and the PSH bit (per buffer and as a multiset over the batch), and all clauses
   of holdsb but UDP order as one boolean.  UDP order is refuted as stated (known
   finding gro-udp-noncandidate-overtaken); its restricted form (over the datagrams the
   coalescer considers) is proved for all batches, and with it: no error is returned and
   holdsb with the restricted order clause holds for every batch (C16_gro_holdsb_partial),
   holdsb itself for every batch whose UDP datagrams all pass the coalescer's gates
   (C16_gro_holdsb_eligible_batches).
   The four repaired defects stay machine-checked as refutations about Old. *)
From Coq Require Import String.
From WG Require Import Base.Prelude Gen.Constants Gro.Bytes Gro.Model Gro.OldModel Gro.KernelSpec Gro.Spec Gro.Proofs Gro.Csum Gro.Headers Gro.HeadersTcp Gro.Lossless Gro.Holds Gro.Order Gro.CsumKept Gro.Examples Gro.HoldsAll.
From WG Require Gro.CandAst Gen.GroAst Gro.CandAstProofs.
From WG Require Gro.Check.
Local Open Scope N_scope.

Theorem C16_constants :
  VH = 10 /\ tun_maxUint16 = 65535 /\ UDPH = 8 /\ PSH = 8 /\ ACK = 16 /\ FLAGS_OFF = 13 /\
  tun_ipv4SrcAddrOffset = 12 /\ tun_ipv6SrcAddrOffset = 8 /\ conn_IdealBatchSize = 128 /\ MaxSegmentSize = 65535.
Proof. repeat split; reflexivity. Qed.
Print Assumptions C16_constants.

(* Each input index is either written or merged into exactly one written buffer
   (the trace is a function of the index; its target precedes it and is written). *)
Theorem C16_gro_bookkeeping : forall (canUDP : bool) (offset : N) (bufs : list buf),
  let s := handle_gro canUDP offset bufs in
  s_err s = false ->
  length (s_trace s) = length bufs /\
  NoDup (s_tw s) /\
  (forall j, In j (s_tw s) -> j < len (map b_cap bufs)) /\
  (forall i r, nth_error (s_trace s) i = Some r ->
     match r with
     | Coalesced j _ => ~ In (N.of_nat i) (s_tw s) /\ In j (s_tw s) /\ j < N.of_nat i
     | _ => In (N.of_nat i) (s_tw s)
     end).
Proof. exact gro_bookkeeping. Qed.
Print Assumptions C16_gro_bookkeeping.

(* which inputs make up written buffer j: itself and exactly those merged into it *)
Theorem C16_members_partition : forall tr j i,
  In i (members tr j) <-> i = j \/ exists p, nth_error tr (N.to_nat i) = Some (Coalesced j p) /\ (N.to_nat i < length tr)%nat.
Proof. exact members_spec. Qed.
Print Assumptions C16_members_partition.

(* gro_passthrough, in full: a written buffer nothing was merged into carries its input
   packet unmodified and an all-zero virtio header (also the item deleted after an
   invalid checksum: fix b918254). *)
Theorem C16_gro_passthrough : forall (canUDP : bool) (offset : N) (bufs : list buf) (j : N),
  let s := handle_gro canUDP offset bufs in
  s_err s = false -> In j (s_tw s) -> ~ merged_into (s_trace s) j ->
  b_pkt (get_buf (s_bufs s) j) = b_pkt (get_buf bufs j) /\ b_hdr (get_buf (s_bufs s) j) = zero_vhdr.
Proof. exact gro_passthrough. Qed.
Print Assumptions C16_gro_passthrough.

(* Per-merge lemma, payload level, for UDP append, TCP append and TCP prepend. *)
Theorem C16_merge_keeps_payloads : forall inp tcp pkt k off v6 p it it' bufs bufs' mem,
  merged_ok tcp pkt k off v6 p it it' bufs bufs' ->
  pkt = b_pkt (get_buf inp k) -> b_pkt (get_buf bufs k) = pkt ->
  it_idx it <> k -> (N.to_nat (it_idx it) < length bufs)%nat ->
  item_ok inp tcp it (b_pkt (get_buf bufs (it_idx it))) mem ->
  item_ok inp tcp it' (b_pkt (get_buf bufs' (it_idx it))) (if p then k :: mem else mem ++ [k]).
Proof. exact merge_item_ok. Qed.
Print Assumptions C16_merge_keeps_payloads.

(* Payloads and boundaries of every coalesced buffer. *)
Theorem C16_gro_payloads_lossless : forall (canUDP : bool) (offset : N) (bufs : list buf) (j : N),
  let s := handle_gro canUDP offset bufs in
  s_err s = false -> merged_into (s_trace s) j ->
  let b := get_buf (s_bufs s) j in
  let v := dec_vhdr (b_hdr b) in
  In j (s_tw s) /\
  v_flags v = VIRTIO_NET_HDR_F_NEEDS_CSUM /\ v_gso v <> GSO_NONE /\ 1 <= v_gsosize v /\ v_hdrlen v <= len (b_pkt b) /\
  (2 <= length (members (s_trace s) j))%nat /\
  chunks (v_gsosize v) (drop (v_hdrlen v) (b_pkt b)) = map (payload_of bufs (v_hdrlen v)) (members (s_trace s) j).
Proof. exact gro_payloads_lossless. Qed.
Print Assumptions C16_gro_payloads_lossless.

(* gro_headers_valid, for ANY buffer capacity (the 65535 guard, fix 4a9316a, replaces the
   capacity hypothesis): every coalesced buffer is at most 65535 bytes, has a well-formed
   descriptor and correct IP / UDP length fields ... *)
Theorem C16_gro_descriptor_lengths_valid : forall (canUDP : bool) (offset : N) (bufs : list buf) (j : N),
  let s := handle_gro canUDP offset bufs in
  s_err s = false -> merged_into (s_trace s) j ->
  descriptor_ok (get_buf (s_bufs s) j) = true /\ lengths_ok (get_buf (s_bufs s) j) = true.
Proof. exact gro_descriptor_lengths_valid. Qed.
Print Assumptions C16_gro_descriptor_lengths_valid.
(* ... and the kernel makes exactly one segment per merged packet, each with a valid IPv4
   header checksum and a valid TCP/UDP checksum. *)
Theorem C16_gro_segment_checksums_valid : forall (canUDP : bool) (offset : N) (bufs : list buf) (j : N),
  let s := handle_gro canUDP offset bufs in
  s_err s = false -> merged_into (s_trace s) j ->
  let b := get_buf (s_bufs s) j in
  let segs := kernel_segment (b_hdr b) (b_pkt b) in
  length segs = length (members (s_trace s) j) /\
  forallb (fun p => ip_csum_ok p && l4_csum_ok p) segs = true.
Proof. exact gro_segment_checksums_valid. Qed.
Print Assumptions C16_gro_segment_checksums_valid.

(* Per coalesced buffer: the kernel's segments are, in order, the merged packets, equal in
   every compared byte (canon = the property's exceptions zeroed: IPv4 total length / ID /
   header checksum, IPv6 payload length, TCP window / checksum (reserved bits, urgent
   pointer), UDP length / checksum; IPv6 bytes 0-3 incl. the flow label ARE compared, so is
   the TCP flags byte incl. PSH).  UDP: *)
Theorem C16_gro_udp_lossless : forall (canUDP : bool) (offset : N) (bufs : list buf) (j : N),
  let s := handle_gro canUDP offset bufs in
  s_err s = false -> merged_into (s_trace s) j ->
  let b := get_buf (s_bufs s) j in
  v_gso (dec_vhdr (b_hdr b)) = GSO_UDP_L4 ->
  map canon (kernel_segment (b_hdr b) (b_pkt b)) =
  map (fun m => canon (b_pkt (get_buf bufs m))) (members (s_trace s) j).
Proof. exact gro_udp_lossless. Qed.
Print Assumptions C16_gro_udp_lossless.
(* TCP, append and prepend, incl. sequence numbers mod 2^32 (input bytes < 256).  PSH: only
   the last member of a buffer can carry it (PSH ends appending; a PSH segment is never
   prepended), the merged header carries the last member's PSH (carried over on prepend),
   and the kernel keeps PSH on the last segment only -- so the flags bytes agree exactly. *)
Theorem C16_gro_tcp_lossless : forall (canUDP : bool) (offset : N) (bufs : list buf) (j : N),
  bytes_ok bufs ->
  let s := handle_gro canUDP offset bufs in
  s_err s = false -> merged_into (s_trace s) j ->
  let b := get_buf (s_bufs s) j in
  v_gso (dec_vhdr (b_hdr b)) <> GSO_UDP_L4 ->
  map canon (kernel_segment (b_hdr b) (b_pkt b)) =
  map (fun m => canon (b_pkt (get_buf bufs m))) (members (s_trace s) j).
Proof. exact gro_tcp_lossless. Qed.
Print Assumptions C16_gro_tcp_lossless.

(* gro_lossless: over the whole batch the re-segmented packets are, as a multiset, the input
   packets (third clause of holdsb, nothing masked); any capacities, any bytes in front. *)
Theorem C16_gro_lossless : forall (canUDP : bool) (offset : N) (bufs : list buf),
  bytes_ok bufs ->
  let s := handle_gro canUDP offset bufs in
  s_err s = false ->
  floweq_ok bufs (s_tw s) (s_bufs s) = true.
Proof. exact gro_lossless. Qed.
Print Assumptions C16_gro_lossless.

(* holdsb (what the correspondence check evaluates on every batch; written with the kernel's
   segments computed once) is the conjunction of the five clauses. *)
Theorem C16_holdsb_is_the_conjunction : forall inp tw out,
  holdsb inp tw out = bookkeeping_ok inp tw out && passthrough_ok inp tw out && floweq_ok inp tw out
                      && udp_order_ok inp tw out && headers_valid_ok tw out && csum_kept_ok inp tw out.
Proof. exact holdsb_clauses. Qed.
Print Assumptions C16_holdsb_is_the_conjunction.

(* Summary: clauses 1-3 and 5 of holdsb as one boolean (clause 6: C16_gro_csum_kept below). *)
Theorem C16_gro_holds_core : forall (canUDP : bool) (offset : N) (bufs : list buf),
  bytes_ok bufs ->
  let s := handle_gro canUDP offset bufs in
  s_err s = false ->
  bookkeeping_ok bufs (s_tw s) (s_bufs s) && passthrough_ok bufs (s_tw s) (s_bufs s)
  && floweq_ok bufs (s_tw s) (s_bufs s) && headers_valid_ok (s_tw s) (s_bufs s) = true.
Proof. exact gro_holds_core. Qed.
Print Assumptions C16_gro_holds_core.

(* UDP order (fourth clause).  As the property words it, it is refuted by the current code
   (known finding gro-udp-noncandidate-overtaken: a zero-length datagram is overtaken; it is
   the ONLY clause of holdsb that fails there): *)
Theorem C16_refuted_by_udp_order :
  preb 16 ex_udp0 = true /\ holds ex_udp0 = false /\
  (let s := run ex_udp0 in udp_order_ok ex_udp0 (s_tw s) (s_bufs s)) = false /\
  (let s := run ex_udp0 in bookkeeping_ok ex_udp0 (s_tw s) (s_bufs s) && passthrough_ok ex_udp0 (s_tw s) (s_bufs s)
                           && floweq_ok ex_udp0 (s_tw s) (s_bufs s) && headers_valid_ok (s_tw s) (s_bufs s)) = true.
Proof. exact refuted_by_udp_order. Qed.
Print Assumptions C16_refuted_by_udp_order.
Definition C16_gro_holdsb_statement : Prop := gro_lossless_statement.
Theorem C16_gro_holdsb_refuted : ~ C16_gro_holdsb_statement.
Proof. exact gro_lossless_refuted. Qed.
Print Assumptions C16_gro_holdsb_refuted.
(* handleGRO returns no error on a batch without empty packets (offset >= virtioNetHdrLen). *)
Theorem C16_gro_no_error : forall (canUDP : bool) (offset : N) (bufs : list buf),
  VH <= offset -> (forall b, In b bufs -> b_pkt b <> []) -> s_err (handle_gro canUDP offset bufs) = false.
Proof. exact gro_no_error. Qed.
Print Assumptions C16_gro_no_error.

(* UDP order, index level: read the written buffers in toWrite order, each contributing its
   members in order; the datagrams of any one flow K that pass the coalescer's gates
   (PK = Check.udp_eligible and flow key K) then appear in the order of the batch. *)
Theorem C16_gro_udp_order_indices : forall (canUDP : bool) (offset : N) (bufs : list buf) (K : list N),
  let s := handle_gro canUDP offset bufs in
  s_err s = false ->
  filter (PK bufs K) (flat_map (members (s_trace s)) (s_tw s)) = filter (PK bufs K) (indices (length bufs) 0).
Proof. exact gro_udp_order_indices. Qed.
Print Assumptions C16_gro_udp_order_indices.

(* Per written buffer: the datagrams the kernel makes of a coalesced UDP buffer all pass the
   coalescer's gates and carry, one by one, the flow keys of the members (which are UDP datagrams);
   a coalesced TCP buffer and its members hold no UDP datagram. *)
Theorem C16_gro_udp_segments_eligible : forall (canUDP : bool) (offset : N) (bufs : list buf) (j : N),
  let s := handle_gro canUDP offset bufs in
  s_err s = false -> merged_into (s_trace s) j ->
  let b := get_buf (s_bufs s) j in
  v_gso (dec_vhdr (b_hdr b)) = GSO_UDP_L4 ->
  map (fun p => (WG.Gro.Check.udp_eligible p, mkey p)) (kernel_segment (b_hdr b) (b_pkt b)) =
  map (fun m => (true, mkey (pk bufs m))) (members (s_trace s) j) /\
  (forall m, In m (members (s_trace s) j) -> udp_flow (pk bufs m) <> None).
Proof. exact gro_udp_segments_eligible. Qed.
Print Assumptions C16_gro_udp_segments_eligible.
Theorem C16_gro_tcp_segments_no_udp_flow : forall (canUDP : bool) (offset : N) (bufs : list buf) (j : N),
  let s := handle_gro canUDP offset bufs in
  s_err s = false -> merged_into (s_trace s) j ->
  let b := get_buf (s_bufs s) j in
  v_gso (dec_vhdr (b_hdr b)) <> GSO_UDP_L4 ->
  (forall p, In p (kernel_segment (b_hdr b) (b_pkt b)) -> udp_flow p = None) /\
  (forall m, In m (members (s_trace s) j) -> udp_flow (pk bufs m) = None).
Proof. exact gro_tcp_segments_no_udp_flow. Qed.
Print Assumptions C16_gro_tcp_segments_no_udp_flow.

(* UDP order, as the boolean clause of the specification over the datagrams the coalescer
   considers (Check.keep_eligible: every non-UDP packet, and the UDP datagrams that pass the
   gates of udpGRO -- no IP options, consistent length fields, not a fragment, non-empty payload):
   for every batch, per flow, the kernel's datagrams are the input's, in order, in every compared
   byte.  (Was a statement only; the harness evaluates the same boolean on every batch.) *)
Theorem C16_gro_udp_order_restricted : forall (canUDP : bool) (offset : N) (bufs : list buf),
  let s := handle_gro canUDP offset bufs in
  s_err s = false ->
  udp_order_gen WG.Gro.Check.keep_eligible bufs (s_tw s) (s_bufs s) = true.
Proof. exact gro_udp_order_restricted. Qed.
Print Assumptions C16_gro_udp_order_restricted.

(* Clause 6 (a packet keeps its transport-checksum verdict; the excepted fields of clause 3 include
   the checksum, so without it a corrupted packet could be coalesced and leave the kernel with a fresh
   valid checksum): every member of a coalesced buffer verifies in the input, and the multiset of
   (verdict, compared bytes) of the kernel's packets is that of the batch. *)
Theorem C16_gro_members_csum_valid : forall (canUDP : bool) (offset : N) (bufs : list buf) (j : N),
  let s := handle_gro canUDP offset bufs in
  s_err s = false -> merged_into (s_trace s) j ->
  forall m, In m (members (s_trace s) j) -> l4_csum_ok (b_pkt (get_buf bufs m)) = true.
Proof. exact gro_members_csum_valid. Qed.
Print Assumptions C16_gro_members_csum_valid.
Theorem C16_gro_csum_kept : forall (canUDP : bool) (offset : N) (bufs : list buf),
  bytes_ok bufs ->
  let s := handle_gro canUDP offset bufs in
  s_err s = false ->
  csum_kept_ok bufs (s_tw s) (s_bufs s) = true.
Proof. exact gro_csum_kept. Qed.
Print Assumptions C16_gro_csum_kept.
(* The compared data include bit 0 of TCP byte 12 (NS, RFC 3540 / AE, RFC 9768: a flag; the three
   reserved bits next to it stay masked).  tcpGRO refuses a segment whose low nibble of byte 12 is not
   zero (repair of gro-tcp-ns-flag-lost-in-merge), so the flag is clear on every member of a coalesced
   buffer and on every datagram the kernel makes of it. *)
Theorem C16_gro_ns_kept : forall (canUDP : bool) (offset : N) (bufs : list buf) (j : N),
  let s := handle_gro canUDP offset bufs in
  s_err s = false -> merged_into (s_trace s) j ->
  let b := get_buf (s_bufs s) j in
  (forall p, In p (kernel_segment (b_hdr b) (b_pkt b)) -> nsbit p = 0) /\
  (forall m, In m (members (s_trace s) j) -> nsbit (b_pkt (get_buf bufs m)) = 0).
Proof. exact gro_ns_kept. Qed.
Print Assumptions C16_gro_ns_kept.
(* the code before that repair: a segment with byte 12 = 0x51 is merged behind one with 0x50 and
   leaves the kernel with 0x50; clause 6 is refuted for it, only through that bit *)
Theorem C16_old_ns_flag_lost :
  preb 16 ex_ns = true /\ bytes_okb ex_ns = true /\ forallb (fun b => l4_csum_ok (b_pkt b)) ex_ns = true /\
  (let s := run_old ex_ns in s_err s = false /\ s_tw s = [0] /\
     map nsbit (segments (s_tw s) (s_bufs s)) = [0; 0] /\ map (fun b => nsbit (b_pkt b)) ex_ns = [0; 1] /\
     csum_kept_ok ex_ns (s_tw s) (s_bufs s) = false /\ csum_kept_gen false ex_ns (s_tw s) (s_bufs s) = true /\
     floweq_ok ex_ns (s_tw s) (s_bufs s) = true /\ holdsb ex_ns (s_tw s) (s_bufs s) = false).
Proof. exact old_ns_flag_lost. Qed.
Print Assumptions C16_old_ns_flag_lost.
Theorem C16_old_csum_kept_refuted :
  ~ (forall canUDP offset bufs, bytes_ok bufs -> let s := Old.handle_gro canUDP offset bufs in
       s_err s = false -> csum_kept_ok bufs (s_tw s) (s_bufs s) = true).
Proof. exact old_csum_kept_refuted. Qed.
Print Assumptions C16_old_csum_kept_refuted.
Theorem C16_ns_scenario_holds : s_tw (run ex_ns) = [0; 1] /\ s_trace (run ex_ns) = [Inserted; Noop] /\ holds ex_ns = true.
Proof. exact ns_scenario_holds. Qed.
Print Assumptions C16_ns_scenario_holds.

(* The strongest true forms of C16_gro_holdsb_statement (which is refuted above):
   (a) for EVERY batch (of bytes, without empty packets, offset >= 10) handleGRO returns no error
       and all clauses of holdsb hold, the order clause restricted as above; *)
Theorem C16_gro_holdsb_partial : forall (canUDP : bool) (offset : N) (bufs : list buf),
  preb offset bufs = true -> bytes_ok bufs ->
  let s := handle_gro canUDP offset bufs in
  s_err s = false /\
  bookkeeping_ok bufs (s_tw s) (s_bufs s) && passthrough_ok bufs (s_tw s) (s_bufs s)
  && floweq_ok bufs (s_tw s) (s_bufs s) && headers_valid_ok (s_tw s) (s_bufs s)
  && udp_order_gen WG.Gro.Check.keep_eligible bufs (s_tw s) (s_bufs s)
  && csum_kept_ok bufs (s_tw s) (s_bufs s) = true.
Proof. exact gro_holdsb_partial. Qed.
Print Assumptions C16_gro_holdsb_partial.
(* (b) holdsb itself, for every batch in which every UDP datagram passes the coalescer's gates. *)
Theorem C16_gro_holdsb_eligible_batches : forall (canUDP : bool) (offset : N) (bufs : list buf),
  preb offset bufs = true -> bytes_ok bufs ->
  forallb (fun b => WG.Gro.Check.keep_eligible (b_pkt b)) bufs = true ->
  let s := handle_gro canUDP offset bufs in
  s_err s = false /\ holdsb bufs (s_tw s) (s_bufs s) = true.
Proof. exact gro_holdsb_eligible_batches. Qed.
Print Assumptions C16_gro_holdsb_eligible_batches.

(* History of the four repaired defects: refuted for the code before the fixes (Old),
   the same scenarios satisfy the whole specification now. *)
Theorem C16_old_refuted_only_by_flow_label :
  preb 16 ex_flowlabel = true /\ holds_old ex_flowlabel = false /\ holds_modulo_old true false ex_flowlabel = true.
Proof. exact old_refuted_only_by_flow_label. Qed.
Print Assumptions C16_old_refuted_only_by_flow_label.
Theorem C16_old_refuted_only_by_psh :
  preb 16 ex_psh = true /\ holds_old ex_psh = false /\ holds_modulo_old false true ex_psh = true.
Proof. exact old_refuted_only_by_psh. Qed.
Print Assumptions C16_old_refuted_only_by_psh.
Theorem C16_old_passthrough_zero_hdr_refuted :
  exists bufs j, let s := Old.handle_gro true 16 bufs in
    s_err s = false /\ In j (s_tw s) /\ merged_into_b (s_trace s) j = false /\
    b_pkt (get_buf (s_bufs s) j) = b_pkt (get_buf bufs j) /\ b_hdr (get_buf (s_bufs s) j) <> zero_vhdr.
Proof. exact old_passthrough_zero_hdr_refuted. Qed.
Print Assumptions C16_old_passthrough_zero_hdr_refuted.
Theorem C16_old_length_wraps_with_large_cap :
  exists bufs, forallb (fun b => (b_cap b =? 131072) && (len (b_pkt b) =? 1240)) bufs = true /\
    let s := run_old bufs in s_err s = false /\ In 0 (s_tw s) /\
    len (b_pkt (get_buf (s_bufs s) 0)) = 66040 /\ l3_len (b_pkt (get_buf (s_bufs s) 0)) = 504 /\
    holdsb bufs (s_tw s) (s_bufs s) = false.
Proof. exact old_length_wraps_with_large_cap. Qed.
Print Assumptions C16_old_length_wraps_with_large_cap.
Theorem C16_fixed_scenarios_hold :
  holds ex_flowlabel = true /\ holds ex_big = true /\ holds ex_stale = true /\ holds ex_psh = true.
Proof. exact fixed_scenarios_hold. Qed.
Print Assumptions C16_fixed_scenarios_hold.

(* Non-vacuity: batches on which coalescing happens and holdsb is true. *)
Example C16_nonvacuous_mixed : s_tw (run ex_mixed) = [0; 1; 6] /\ holds ex_mixed = true /\
  length (segments (s_tw (run ex_mixed)) (s_bufs (run ex_mixed))) = 8%nat.
Proof. exact ex_mixed_ok. Qed.
Example C16_nonvacuous_eligible_batches :
  preb 16 ex_mixed = true /\ bytes_okb ex_mixed = true /\
  forallb (fun b => WG.Gro.Check.keep_eligible (b_pkt b)) ex_mixed = true /\
  existsb (fun j => v_gso (dec_vhdr (b_hdr (get_buf (s_bufs (run ex_mixed)) j))) =? GSO_UDP_L4) (s_tw (run ex_mixed)) = true.
Proof. exact eligible_batches_nonvacuous. Qed.
Example C16_nonvacuous_prepend_wrap : s_tw (run ex_prepend) = [0] /\ holds ex_prepend = true /\
  s_trace (run ex_prepend) = [Inserted; Coalesced 0 true; Coalesced 0 false].
Proof. exact ex_prepend_ok. Qed.
Example C16_nonvacuous_capacity_edge :
  s_tw (run ex_cap) = [0; 1] /\ s_tw (run ex_cap') = [0] /\ holds ex_cap = true /\ holds ex_cap' = true.
Proof. exact ex_cap_ok. Qed.

(* THE TIE TO THE SOURCE for the two pure predicates of the GRO path (translator
   harness/cmd/groast, rerun on every check): Gen.GroAst.cand_body / hdr_body are
   the bodies of packetIsGROCandidate and ipHeadersCanCoalesce of
   tun/offload_linux.go as terms of the deep-embedded language of Gro/CandAst.v.
   For EVERY byte list (and both values of the UDP flag) the interpreted source
   returns the code of the model's classification, never panics and never
   reaches an untranslated construct; the header comparison likewise. *)
Theorem C16_source_candidate_is_the_model : forall b canUDP,
  Gro.CandAst.run_cand Gen.GroAst.cand_body b canUDP =
  Some (Gro.CandAstProofs.cand_code (classify b canUDP)).
Proof. exact Gro.CandAstProofs.ast_cand_correct. Qed.
Print Assumptions C16_source_candidate_is_the_model.

Theorem C16_source_ip_headers_can_coalesce_is_the_model : forall a b,
  Gro.CandAst.run_hdr Gen.GroAst.hdr_body a b = Some (ip_headers_can_coalesce a b).
Proof. exact Gro.CandAstProofs.ast_hdr_correct. Qed.
Print Assumptions C16_source_ip_headers_can_coalesce_is_the_model.
