(* Property C02 — inbound data path: what reaches the TUN device.
   Only statements, closed by `exact`, with Print Assumptions. *)
From WG Require Import Base.Prelude Gen.Constants DataPath.Lpm Replay.Model Replay.Spec
  Inbound.Model Inbound.Spec Inbound.OldModel Inbound.Proofs.
Local Open Scope N_scope.

(* The constants the property text names, as the code has them now. *)
Theorem C02_constants :
  MinMessageSize = 32 /\ MessageTransportSize = 32 /\ MessageTransportType = 4 /\
  RejectAfterTime = 180000000000 /\ RejectAfterMessages = 2^64 - 2^13 - 1 /\
  IPv4offsetTotalLength = 2 /\ IPv4offsetSrc = 12 /\
  IPv6offsetPayloadLength = 4 /\ IPv6offsetSrc = 8 /\
  ipv4_HeaderLen = 20 /\ ipv6_HeaderLen = 40.
Proof. repeat split; reflexivity. Qed.
Print Assumptions C02_constants.

(* The length the packet is cut to is the length its header declares (over
   unbounded numbers), at least a header and at most what was received. *)
Theorem C02_ip_check_sound : ip_check_sound_for ip_check.
Proof. exact ip_check_sound. Qed.
Print Assumptions C02_ip_check_sound.

(* Finding F1: the arithmetic of the tree as found violates that statement. *)
Theorem C02_old_arithmetic_refuted : ~ ip_check_sound_for ip_check_old.
Proof. exact ip_check_refuted. Qed.
Print Assumptions C02_old_arithmetic_refuted.

Theorem C02_ip_check_family : forall plain f L src,
  ip_check plain = Some (f, L, src) ->
  exists b0 rest, plain = b0 :: rest /\ (b0 / 16 = match f with V4 => 4 | V6 => 6 end).
Proof. exact ip_check_family. Qed.
Print Assumptions C02_ip_check_family.

(* The index table returns a keypair retained by the peer it names, in one of
   its three slots (previous, current, next). *)
Theorem C02_find_idx_owner : forall ps idx i0 i sl k,
  find_idx ps idx i0 = Some (i, sl, k) ->
  i0 <= i /\ exists p, nth_error ps (N.to_nat (i - i0)) = Some p /\
                       get_slot p sl = Some k /\ k_idx k = idx.
Proof. exact find_idx_owner. Qed.
Print Assumptions C02_find_idx_owner.

(* Soundness: whatever is written to the TUN came in a transport message that
   authenticates under a live key of the peer, with a fresh counter, is IP with
   a consistent declared length, and whose source has that peer as its
   longest-prefix match; and exactly the declared bytes are written. *)
Theorem C02_tun_write_sound : forall st d st' r i w,
  recv1 st d = (st', r) -> r_write r = Some (i, w) ->
  exists idx key ctr plain sl k f L src,
    d = Transport idx key false ctr plain /\
    find_idx (s_peers st) idx 0 = Some (i, sl, k) /\
    k_age k <= RejectAfterTime /\ key = k_key k /\
    accept (k_filter k) ctr RejectAfterMessages = true /\
    ip_check plain = Some (f, L, src) /\ L = declared_len f plain /\ hdr_min f <= L /\ L <= blen plain /\
    lpm_spec (s_tbl st) f (be_val src) (Some i) /\
    w = firstn (N.to_nat L) plain.
Proof. exact tun_write_sound. Qed.
Print Assumptions C02_tun_write_sound.

(* Every result of a batch is the result of one datagram at the state reached
   after the datagrams before it. *)
Theorem C02_batch_writes_sound : forall l st st' rs,
  run recv1 st l = (st', rs) ->
  forall r i w, In r rs -> r_write r = Some (i, w) ->
  exists pre d post s1 s2, l = pre ++ d :: post /\ s1 = final recv1 st pre /\ recv1 s1 d = (s2, r).
Proof. exact batch_writes_sound. Qed.
Print Assumptions C02_batch_writes_sound.

Theorem C02_batch_writes_sound_full : forall l st st' rs,
  run recv1 st l = (st', rs) ->
  forall r i w, In r rs -> r_write r = Some (i, w) ->
  exists pre post idx key ctr plain sl k f L src,
    l = pre ++ Transport idx key false ctr plain :: post /\
    let s1 := final recv1 st pre in
    find_idx (s_peers s1) idx 0 = Some (i, sl, k) /\
    k_age k <= RejectAfterTime /\ key = k_key k /\
    accept (k_filter k) ctr RejectAfterMessages = true /\
    ip_check plain = Some (f, L, src) /\ L = declared_len f plain /\ hdr_min f <= L /\ L <= blen plain /\
    lpm_spec (s_tbl s1) f (be_val src) (Some i) /\
    w = firstn (N.to_nat L) plain.
Proof. exact batch_writes_sound_full. Qed.
Print Assumptions C02_batch_writes_sound_full.

Theorem C02_keepalive_writes_nothing : forall st idx key t ctr,
  r_write (snd (recv1 st (Transport idx key t ctr []))) = None.
Proof. exact keepalive_writes_nothing. Qed.
Print Assumptions C02_keepalive_writes_nothing.

(* A write implies the message was counted as authentic and fresh (and one
   datagram yields at most one write, by the type of res). *)
Theorem C02_at_most_one_write : forall st d,
  match r_write (snd (recv1 st d)) with
  | Some _ => r_rx (snd (recv1 st d)) <> None
  | None => True
  end.
Proof. exact at_most_one_write. Qed.
Print Assumptions C02_at_most_one_write.

(* Completeness: a message that meets all the conditions is written. *)
Theorem C02_accepted_is_written : forall st idx key ctr plain i sl k f L src,
  find_idx (s_peers st) idx 0 = Some (i, sl, k) ->
  k_age k <= RejectAfterTime -> key = k_key k ->
  accept (k_filter k) ctr RejectAfterMessages = true ->
  plain <> [] -> ip_check plain = Some (f, L, src) ->
  lookup (s_tbl st) f (be_val src) = Some i ->
  r_write (snd (recv1 st (Transport idx key false ctr plain))) = Some (i, firstn (N.to_nat L) plain).
Proof. exact accepted_is_written. Qed.
Print Assumptions C02_accepted_is_written.

(* Replay protection end to end: once a datagram has been accepted, the same
   datagram is dropped for ever after, whatever else happens (other datagrams,
   ageing, handshakes that install other keys). *)
Theorem C02_exactly_once : forall st idx key ctr plain st' r,
  (holders key st <= 1)%nat ->
  recv1 st (Transport idx key false ctr plain) = (st', r) ->
  r_rx r <> None ->
  forall evs, fresh_keys key evs ->
  let st'' := final step st' evs in
  recv1 st'' (Transport idx key false ctr plain) = (st'', nothing).
Proof. exact exactly_once. Qed.
Print Assumptions C02_exactly_once.

Theorem C02_replayed_rejected_immediately : forall st idx key ctr plain st' r,
  (holders key st <= 1)%nat ->
  recv1 st (Transport idx key false ctr plain) = (st', r) ->
  r_rx r <> None ->
  recv1 st' (Transport idx key false ctr plain) = (st', nothing).
Proof. exact replayed_rejected_immediately. Qed.
Print Assumptions C02_replayed_rejected_immediately.

(* The invariant behind exactly_once, and its two halves. *)
Theorem C02_inv_preserved : forall key ctr st ev,
  Inv key ctr st -> fresh_keys key [ev] -> Inv key ctr (fst (step st ev)).
Proof. exact inv_preserved. Qed.
Print Assumptions C02_inv_preserved.

Theorem C02_exactly_once_inv : forall key ctr st idx plain,
  Inv key ctr st -> recv1 st (Transport idx key false ctr plain) = (st, nothing).
Proof. exact exactly_once_inv. Qed.
Print Assumptions C02_exactly_once_inv.

(* Down/Up: after a restart no datagram under any pre-restart key is accepted,
   and the state is not touched by such datagrams. *)
Theorem C02_restart_drops_all : forall st d,
  snd (recv1 (fst (step st Restart)) d) = nothing /\
  fst (recv1 (fst (step st Restart)) d) = fst (step st Restart).
Proof. exact restart_drops_all. Qed.
Print Assumptions C02_restart_drops_all.

(* ... and that stays so until a new handshake happens. *)
Theorem C02_restart_then_only_new : forall st evs d,
  (forall p i k, ~ In (Handshake p i k) evs /\ ~ In (HandshakeUnconf p i k) evs) ->
  snd (recv1 (final step (fst (step st Restart)) evs) d) = nothing.
Proof. exact restart_then_only_new. Qed.
Print Assumptions C02_restart_then_only_new.

(* A message under the responder's not yet confirmed key is accepted and
   confirms it: previous := current, current := next, next := nil. *)
Theorem C02_unconfirmed_key_accepts_and_promotes : forall st idx key ctr plain i k,
  find_idx (s_peers st) idx 0 = Some (i, SNext, k) ->
  k_age k <= RejectAfterTime -> key = k_key k ->
  accept (k_filter k) ctr RejectAfterMessages = true ->
  exists p p',
    nth_error (s_peers st) (N.to_nat i) = Some p /\
    nth_error (s_peers (fst (recv1 st (Transport idx key false ctr plain)))) (N.to_nat i) = Some p' /\
    k_prev p' = k_cur p /\ k_next p' = None /\
    exists k', k_cur p' = Some k' /\ k_idx k' = idx /\ k_key k' = key.
Proof. exact unconfirmed_key_accepts_and_promotes. Qed.
Print Assumptions C02_unconfirmed_key_accepts_and_promotes.

(* Peer removal: the peer's keypairs are gone, it is marked as gone, and no
   allowed-IP entry names it any more. *)
Theorem C02_removed_peer_has_no_keys : forall st p,
  let st' := fst (step st (Remove p)) in
  (forall q, nth_error (s_peers st') (N.to_nat p) = Some q ->
             k_prev q = None /\ k_cur q = None /\ k_next q = None) /\
  is_gone st' p = true /\
  (forall e, In e (s_tbl st') -> e_owner e <> p).
Proof. exact removed_peer_has_no_keys. Qed.
Print Assumptions C02_removed_peer_has_no_keys.

(* ... and whatever happens afterwards (handshakes with it included), nothing
   is ever written to the TUN on behalf of the removed peer. *)
Theorem C02_removed_peer_never_written : forall evs st p,
  is_gone st p = true ->
  (forall q, nth_error (s_peers st) (N.to_nat p) = Some q ->
             k_prev q = None /\ k_cur q = None /\ k_next q = None) ->
  forall rs r i w, In rs (outs step st evs) -> In r rs -> r_write r = Some (i, w) -> i <> p.
Proof. exact removed_peer_never_written. Qed.
Print Assumptions C02_removed_peer_never_written.

Theorem C02_gone_inv_step : forall p st ev,
  Gone p st ->
  Gone p (fst (step st ev)) /\
  forall r i w, In r (snd (step st ev)) -> r_write r = Some (i, w) -> i <> p.
Proof. exact gone_inv_step. Qed.
Print Assumptions C02_gone_inv_step.

(* tun.Write failing: the step is processed and credited as usual (same state,
   same rx credits), but none of its packets is written. *)
Theorem C02_tun_failure_loses_the_step : forall st l,
  fst (step st (DgramsTunFail l)) = fst (step st (Dgrams l)) /\
  (forall r, In r (snd (step st (DgramsTunFail l))) -> r_write r = None) /\
  map r_rx (snd (step st (DgramsTunFail l))) = map r_rx (snd (step st (Dgrams l))).
Proof. exact tun_failure_loses_the_step. Qed.
Print Assumptions C02_tun_failure_loses_the_step.

(* UAPI reconfiguration naming peers to remove: each of them is marked gone,
   owns no allowed-IP entry of the new table, and retains no keypair. *)
Theorem C02_reconf_removes : forall st tbl rm p,
  In p rm ->
  is_gone (fst (step st (Reconf tbl rm))) p = true /\
  (forall e, In e (s_tbl (fst (step st (Reconf tbl rm)))) -> e_owner e <> p) /\
  (forall q, nth_error (s_peers (fst (step st (Reconf tbl rm)))) (N.to_nat p) = Some q ->
             k_prev q = None /\ k_cur q = None /\ k_next q = None).
Proof. exact reconf_removes. Qed.
Print Assumptions C02_reconf_removes.

(* ------------------------------------------------------------------ non-vacuity *)

(* 28 bytes received, IPv4 header declaring 24 *)
Definition c02_pkt : list N :=
  [69;0;0;24; 0;0;0;0; 64;17;0;0; 10;0;0;1; 10;0;0;2; 1;2;3;4; 5;6;7;8].

Example C02_ip_check_v4 : ip_check c02_pkt = Some (V4, 24, [10;0;0;1]).
Proof. vm_compute. reflexivity. Qed.

Example C02_ip_check_f1_witness : ip_check f1_witness = None.
Proof. vm_compute. reflexivity. Qed.

Example C02_ip_check_old_f1_witness : ip_check_old f1_witness = Some (V6, 4, repeat 7 16).
Proof. vm_compute. reflexivity. Qed.

(* one peer owning 10.0.0.0/8, no keypairs yet *)
Definition c02_init : state :=
  {| s_tbl := [{| e_fam := V4; e_bits := 167772160; e_len := 8; e_owner := 0 |}];
     s_peers := [{| k_prev := None; k_cur := None; k_next := None |}];
     s_gone := [] |}.

(* handshake, then the same datagram twice: exactly one write of the declared
   24 bytes, credited 28 + 32 bytes; the replay yields nothing *)
Example C02_trace_nonvacuous :
  outs step c02_init
    [Handshake 0 77 1; Dgrams [Transport 77 1 false 1 c02_pkt; Transport 77 1 false 1 c02_pkt]]
  = [ [];
      [ {| r_write := Some (0, firstn 24 c02_pkt); r_rx := Some (0, 60) |}; nothing ] ].
Proof. vm_compute. reflexivity. Qed.

(* the premises of exactly_once are met by that trace *)
Example C02_trace_premises :
  (holders 1 (final step c02_init [Handshake 0 77 1]) <= 1)%nat /\
  fresh_keys 1 [Age 0 5; Handshake 0 78 2; HandshakeUnconf 0 79 3].
Proof.
  split; [vm_compute; lia|].
  intros p idx k [[E|[E|[E|[]]]]|[E|[E|[E|[]]]]]; try discriminate; inversion E; subst; discriminate.
Qed.

(* source outside the allowed prefix, tampering, wrong key: counted or dropped, never written *)
Example C02_trace_refusals :
  let spoof := [69;0;0;24; 0;0;0;0; 64;17;0;0; 11;0;0;1; 10;0;0;2; 1;2;3;4; 5;6;7;8] in
  map r_write (concat (outs step c02_init
    [Handshake 0 77 1;
     Dgrams [Transport 77 1 false 1 spoof; Transport 77 1 true 2 c02_pkt;
             Transport 77 9 false 3 c02_pkt; Transport 76 1 false 4 c02_pkt;
             Transport 77 1 false 5 []];
     Age 0 180000000001;
     Dgrams [Transport 77 1 false 6 c02_pkt]]))
  = [None; None; None; None; None; None].
Proof. vm_compute. reflexivity. Qed.

(* restart: datagrams under the two pre-restart keys (confirmed 77/1, unconfirmed 88/2)
   yield nothing; after a new handshake the new key works *)
Example C02_trace_restart :
  outs step c02_init
    [Handshake 0 77 1; HandshakeUnconf 0 88 2; Restart;
     Dgrams [Transport 77 1 false 1 c02_pkt; Transport 88 2 false 0 c02_pkt];
     Handshake 0 99 3;
     Dgrams [Transport 99 3 false 1 c02_pkt]]
  = [ []; []; [];
      [nothing; nothing];
      [];
      [ {| r_write := Some (0, firstn 24 c02_pkt); r_rx := Some (0, 60) |} ] ].
Proof. vm_compute. reflexivity. Qed.

(* without the restart the unconfirmed key is accepted (counter 0 is fresh: its
   filter is empty) and promoted: the write happens and the old previous is gone *)
Example C02_trace_unconfirmed :
  map (map r_write) (outs step c02_init
    [Handshake 0 77 1; HandshakeUnconf 0 88 2;
     Dgrams [Transport 88 2 false 0 c02_pkt; Transport 88 2 false 0 c02_pkt; Transport 77 1 false 1 c02_pkt]])
  = [ []; []; [Some (0, firstn 24 c02_pkt); None; Some (0, firstn 24 c02_pkt)] ].
Proof. vm_compute. reflexivity. Qed.

(* removal: the old key is dead, a handshake with the removed peer installs
   nothing, so neither datagram is written (nor even counted) *)
Example C02_trace_removed :
  outs step c02_init
    [Handshake 0 77 1; Remove 0; Handshake 0 88 2;
     Dgrams [Transport 77 1 false 1 c02_pkt; Transport 88 2 false 1 c02_pkt]]
  = [ []; []; []; [nothing; nothing] ].
Proof. vm_compute. reflexivity. Qed.

(* the premises of removed_peer_never_written are met after a Remove *)
Example C02_trace_removed_premises :
  let st := final step c02_init [Handshake 0 77 1; Remove 0] in
  is_gone st 0 = true /\ s_peers st = [{| k_prev := None; k_cur := None; k_next := None |}] /\ s_tbl st = [].
Proof. vm_compute. repeat split. Qed.

(* TUN failure: the packet is credited but lost for good: presenting it again
   after the TUN works again yields nothing (its counter was consumed) *)
Example C02_trace_tunfail :
  outs step c02_init
    [Handshake 0 77 1; DgramsTunFail [Transport 77 1 false 1 c02_pkt];
     Dgrams [Transport 77 1 false 1 c02_pkt; Transport 77 1 false 2 c02_pkt]]
  = [ []; [ {| r_write := None; r_rx := Some (0, 60) |} ];
      [ nothing; {| r_write := Some (0, firstn 24 c02_pkt); r_rx := Some (0, 60) |} ] ].
Proof. vm_compute. reflexivity. Qed.

(* reconfiguration removing peer 0 (the new table still names it: filtered out):
   nothing under its old key is accepted, a later handshake installs nothing *)
Example C02_trace_reconf :
  outs step c02_init
    [Handshake 0 77 1; Reconf (s_tbl c02_init) [0]; Handshake 0 88 2;
     Dgrams [Transport 77 1 false 1 c02_pkt; Transport 88 2 false 1 c02_pkt]]
  = [ []; []; []; [nothing; nothing] ].
Proof. vm_compute. reflexivity. Qed.
