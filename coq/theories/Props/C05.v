(* Property C05 — transport replay protection with a bounded reordering window.
   Only statements, closed by `exact`, with Print Assumptions. *)
From Coq Require Import String.
From WG Require Import Base.Prelude Gen.Constants Replay.Model Replay.Spec Replay.Refine Replay.Hist Replay.Ast Gen.ReplayAst Replay.AstProofs.
Local Open Scope N_scope.

(* The constants the property text names, as the code has them now. *)
Theorem C05_constants :
  W = 8128 /\ RejectAfterMessages = 2^64 - 2^13 - 1 /\ W = (R - 1) * B.
Proof. repeat split; reflexivity. Qed.
Print Assumptions C05_constants.

(* For every finite history of ValidateCounter/Reset calls the ring filter
   gives the same verdicts as the set specification. *)
Theorem C05_filter_refines_spec : forall ops : list op,
  outs step empty ops = outs sstep sempty ops.
Proof. exact filter_refines_spec. Qed.
Print Assumptions C05_filter_refines_spec.

(* Observational form: the verdict on a counter is determined by the set A of
   counters accepted so far under this key. *)
Theorem C05_characterisation : forall h c l,
  let o := outs step empty (h ++ [Validate c l]) in
  let A := acc h (firstn (length h) o) [] in
  List.last o false = (c <? l) && negb (mem c A) && (lmax A <=? c + W).
Proof. exact filter_characterisation. Qed.
Print Assumptions C05_characterisation.

Theorem C05_at_most_once : forall h c l,
  let o := outs step empty (h ++ [Validate c l]) in
  In c (acc h (firstn (length h) o) []) -> List.last o false = false.
Proof. exact at_most_once. Qed.
Print Assumptions C05_at_most_once.

Theorem C05_limit_rejected : forall h c,
  2^64 - 2^13 - 1 <= c ->
  List.last (outs step empty (h ++ [Validate c RejectAfterMessages])) false = false.
Proof. intros h c H. apply at_or_beyond_limit_rejected. exact H. Qed.
Print Assumptions C05_limit_rejected.

Theorem C05_ahead_or_within_8128_accepted : forall h c l,
  let o := outs step empty (h ++ [Validate c l]) in
  let A := acc h (firstn (length h) o) [] in
  c < l -> ~ In c A -> lmax A <= c + 8128 -> List.last o false = true.
Proof. exact fresh_in_window_accepted. Qed.
Print Assumptions C05_ahead_or_within_8128_accepted.

Theorem C05_further_behind_rejected : forall h c l,
  let o := outs step empty (h ++ [Validate c l]) in
  let A := acc h (firstn (length h) o) [] in
  c + 8128 < lmax A -> List.last o false = false.
Proof. exact beyond_window_rejected. Qed.
Print Assumptions C05_further_behind_rejected.

(* Non-vacuity: a history that straddles a full ring revolution and the
   window edge; the premises of the clauses above are met by it. *)
Example C05_nonvacuous :
  outs step empty [Validate 0 100000; Validate 8128 100000; Validate 0 100000;
                   Validate 8129 100000; Validate 1 100000; Validate 0 100000;
                   Validate 20000 100000; Validate 11872 100000; Validate 11871 100000;
                   Validate 100000 100000]
  = [true; true; false; true; true; false; true; true; false; false].
Proof. vm_compute. reflexivity. Qed.

(* THE TIE TO THE SOURCE (translator harness/cmd/replayast, rerun on every check):
   Gen.ReplayAst.validate_body / reset_body are the bodies of
   Filter.ValidateCounter and Filter.Reset of replay/replay.go as terms of
   the deep-embedded language of Replay/Ast.v (uint64 arithmetic wrapping mod
   2^64, the for loop on fuel, ring indices checked).  For ALL filters and
   uint64 arguments the interpreted source equals the model, one call ... *)
Theorem C05_source_validate_is_the_model : forall f c l,
  last f < 2 ^ 64 -> length (ring f) = 128%nat -> c < 2 ^ 64 -> l < 2 ^ 64 ->
  run_validate validate_body f c l = Some (validate f c l).
Proof. intros f c l H1 H2. apply ast_validate_correct0. split; assumption. Qed.
Print Assumptions C05_source_validate_is_the_model.

Theorem C05_source_reset_is_the_model : forall f,
  last f < 2 ^ 64 -> length (ring f) = 128%nat -> Forall (fun b => b < 2 ^ 64) (ring f) ->
  run_reset reset_body f = Some (reset f).
Proof. intros f H1 H2 H3. apply ast_reset_correct. repeat split; assumption. Qed.
Print Assumptions C05_source_reset_is_the_model.

(* ... and every history: interpreting the source never stops (no ring index out
   of range -- no Go panic --, the loop ends, no untranslated construct is
   reached) and gives the verdicts of the SET SPECIFICATION of the property. *)
Theorem C05_source_refines_spec : forall ops : list op,
  Forall op_ok ops ->
  exists f, ast_run empty ops = Some (f, outs sstep sempty ops).
Proof.
  intros ops H. rewrite (ast_run_from_empty ops H).
  exists (fst (run step empty ops)).
  rewrite <- filter_refines_spec. unfold outs. destruct (run step empty ops); reflexivity.
Qed.
Print Assumptions C05_source_refines_spec.
