(* Property C18 — socket-layer UDP batching and segmentation offload is transparent.
   Only statements, closed by `exact`, with Print Assumptions.  The kernel half
   (kernel_gso_send, train_ok / rx_of) is the stated model of UdpGso/KernelSpec.v. *)
From Coq Require Import String.
From WG Require Import Base.Prelude Gen.Constants UdpGso.Model UdpGso.OldModel UdpGso.KernelSpec UdpGso.Proofs.
From WG Require UdpGso.CoalAst Gen.GsoAst UdpGso.CoalAstProofs.
Local Open Scope N_scope.

(* The constants the property text names, as the code has them now. *)
Theorem C18_constants :
  conn_udpSegmentMaxDatagrams = 64 /\ conn_maxIPv4PayloadLen = 65507 /\ conn_maxIPv6PayloadLen = 65527 /\
  conn_maxIPv4PayloadLen = 2^16 - 1 - 20 - 8 /\ conn_maxIPv6PayloadLen = 2^16 - 1 - 8 /\
  conn_IdealBatchSize = 128 /\
  conn_IdealBatchSize - conn_IdealBatchSize / conn_udpSegmentMaxDatagrams = 126.
Proof. repeat split; reflexivity. Qed.
Print Assumptions C18_constants.

(* Send: for EVERY batch (each datagram a Go slice, len <= cap; zero-length
   datagrams included since /repo ba89367), either family, any sticky source, a
   control buffer with room for it and one UDP_SEGMENT message: what the kernel
   puts on the wire for the coalesced vector is exactly the batch: same
   datagrams, same bytes, same order (an empty datagram is a message of its own:
   sendmsg of 0 bytes = one empty UDP datagram). *)
Theorem C18_send_transparent : forall (c : cfg) (bufs : list buf),
  len (c_src c) + conn_gsoControlSize <= c_oobcap c ->
  Forall (fun b => len (b_data b) <= b_cap b) bufs ->
  flat_map kernel_send (coalesce c bufs) = map b_data bufs.
Proof. exact send_transparent. Qed.
Print Assumptions C18_send_transparent.

(* Send: every message of the vector is accepted by the kernel model (payload
   within the family's maximum, at most 64 segments), splits into at most 64
   segments of which all but the last are equal, is addressed to the endpoint
   with the sticky source control in front, lives in the buffer of the first
   datagram of its run and does not extend beyond that buffer's capacity. *)
Theorem C18_send_limits : forall (c : cfg) (bufs : list buf),
  len (c_src c) + conn_gsoControlSize <= c_oobcap c ->
  Forall (fun b => len (b_data b) <= b_cap b) bufs ->
  Forall (fun b => len (b_data b) <= max_payload c) bufs ->
  Forall (fun m =>
            (kernel_accepts (max_payload c) (m_data m) (gso_of m) &&
             (len (kernel_send m) <=? 64) &&
             all_but_last_eq (len (hd [] (kernel_send m))) (kernel_send m) &&
             (len (m_data m) <=? max_payload c) &&
             (len (m_data m) <=? m_cap m)) = true /\
            msg_addrb c m = true /\
            exists b, In b bufs /\ m_cap m = b_cap b /\ len (m_data m) <= b_cap b /\
                      firstn (length (b_data b)) (m_data m) = b_data b)
         (coalesce c bufs).
Proof. exact send_limits. Qed.
Print Assumptions C18_send_limits.

(* Receive: whatever GRO trains the kernel formed (each: equal sizes, a shorter
   non-empty last one, at most 64; one sender per train), if the vector has the
   room in front that receiveIP's layout provides and every buffer holds a
   datagram, the split returns no error and the first n messages are exactly
   the original datagrams, in order, each with the sender of its train. *)
Theorem C18_recv_split_inverse : forall front back junk trains mx,
  Forall (fun t => train_ok (fst t)) trains ->
  match back with [] => True | m :: _ => r_n m = 0 end ->
  no_overflow (length front) trains ->
  (forall d, In d (dgrams_of trains) -> len (fst d) <= mx) ->
  Forall (fun m => mx <= len (r_buf m)) (rx_vector front junk trains back) ->
  let r := split (rx_vector front junk trains back) (length front) in
  snd r = 0 /\ received r = dgrams_of trains.
Proof. exact recv_split_inverse. Qed.
Print Assumptions C18_recv_split_inverse.

(* The same for the canonical kernel behaviour (greedy merge of equal-size
   runs of one sender): split (kernel_gro_recv ds) = ds with the sender copied. *)
Theorem C18_recv_split_inverse_greedy : forall front back junk (ds : list (list N)) (a mx : N),
  Forall (fun d => 0 < len d <= mx) ds ->
  match back with [] => True | m :: _ => r_n m = 0 end ->
  let trains := map (fun g => (g, a)) (kernel_gro_trains ds) in
  no_overflow (length front) trains ->
  Forall (fun m => mx <= len (r_buf m)) (rx_vector front junk trains back) ->
  let r := split (rx_vector front junk trains back) (length front) in
  snd r = 0 /\ received r = map (fun d => (d, a)) ds.
Proof. exact recv_split_inverse_greedy. Qed.
Print Assumptions C18_recv_split_inverse_greedy.

(* receiveIP's layout (read at 126 of 128, at most 2 messages) always has the room *)
Theorem C18_recv_layout_has_room : forall (front : list rmsg) trains,
  length front = N.to_nat (conn_IdealBatchSize - conn_IdealBatchSize / conn_udpSegmentMaxDatagrams) ->
  (length trains <= N.to_nat (conn_IdealBatchSize / conn_udpSegmentMaxDatagrams))%nat ->
  Forall (fun t => train_ok (fst t)) trains ->
  no_overflow (length front) trains.
Proof. exact real_layout_no_overflow. Qed.
Print Assumptions C18_recv_layout_has_room.

(* Glue, StdNetBind.send: whatever positive number of messages the kernel
   accepts per sendmmsg call (partial writes, any number of times), every
   message of the vector is handed over exactly once, in order, no error. *)
Theorem C18_send_loop_complete : forall (msgs : list msg) (oracle : list wres),
  Forall (fun r => match r with WOk k => (0 < k)%nat | WErr => False end) oracle ->
  (length msgs <= length oracle)%nat ->
  send_loop (S (length msgs)) msgs 0 oracle = (msgs, false).
Proof.
  intros msgs oracle H1 H2. apply (send_loop_complete (S (length msgs)) msgs 0 oracle H1); cbn [skipn]; lia.
Qed.
Print Assumptions C18_send_loop_complete.

(* ... and under ANY behaviour of the kernel (errors, zero counts) what was
   handed over is a prefix of the vector: nothing skipped, repeated, reordered. *)
Theorem C18_send_loop_prefix : forall (msgs : list msg) fuel (oracle : list wres),
  exists suffix, fst (send_loop fuel msgs 0 oracle) ++ suffix = msgs.
Proof. intros msgs fuel oracle. exact (send_loop_prefix fuel msgs 0 oracle). Qed.
Print Assumptions C18_send_loop_prefix.

(* Glue, Send: offloads available -> disabled.  When the first (merged) attempt
   ends with an error for which errShouldDisableUDPGSO holds, the batch is sent
   again from the same pooled vector, one message per datagram: no message of
   the second attempt carries UDP_SEGMENT, each is addressed to the endpoint
   with the sticky source, its wire image is the batch; the first attempt
   handed over a prefix of the merged vector at most. *)
Theorem C18_gso_disable_retry_transparent : forall c bufs oracle1 oracle2,
  len (c_src c) + conn_gsoControlSize <= c_oobcap c ->
  Forall (fun r => match r with WOk k => (0 < k)%nat | WErr => False end) oracle2 ->
  (length bufs <= length oracle2)%nat ->
  let '(t1, t2, e2) := send_with_gso_disable c bufs oracle1 oracle2 in
  e2 = false /\
  flat_map kernel_send t2 = map b_data bufs /\
  Forall (fun m => m_gso m = [] /\ m_oob m = c_src c /\ m_addr m = c_addr c) t2 /\
  exists suffix, t1 ++ suffix = coalesce c bufs.
Proof. exact gso_disable_retry_transparent. Qed.
Print Assumptions C18_gso_disable_retry_transparent.

(* Finding candidate (HEAD): if the kernel has already sent the messages in
   front of the refused UDP_SEGMENT message when it reports EIO, the resend of
   the WHOLE batch puts their datagrams on the wire a second time: REFUTED
   "first attempt + resend = the batch" for the code as it is. *)
Theorem C18_gso_disable_retry_duplicates_refuted :
  exists c bufs o1 o2, wf_cfg c /\ Forall (fun b => len (b_data b) <= b_cap b) bufs /\
    let '(t1, t2, e2) := send_with_gso_disable c bufs o1 o2 in
    e2 = false /\ flat_map kernel_send (t1 ++ t2) <> map b_data bufs /\
    flat_map kernel_send (t1 ++ t2) = [[1]; [1]; [2;2]; [3;3]].
Proof. exact gso_disable_retry_duplicates_refuted. Qed.
Print Assumptions C18_gso_disable_retry_duplicates_refuted.

(* With notes/C18-fix3.patch (the resend skips the datagrams of the messages
   already written): for every behaviour of the first attempt, first attempt +
   resend put exactly the batch on the wire, each datagram once, in order. *)
Theorem C18_gso_disable_retry_fixed_exact : forall c bufs oracle1 oracle2,
  len (c_src c) + conn_gsoControlSize <= c_oobcap c ->
  Forall (fun b => len (b_data b) <= b_cap b) bufs ->
  Forall (fun r => match r with WOk k => (0 < k)%nat | WErr => False end) oracle2 ->
  (length bufs <= length oracle2)%nat ->
  let '(t1, t2, e2) := send_with_gso_disable_fixed (flat_map kernel_send) c bufs oracle1 oracle2 in
  e2 = false /\ flat_map kernel_send t1 ++ flat_map kernel_send t2 = map b_data bufs /\
  Forall (fun m => m_gso m = []) t2.
Proof. exact gso_disable_retry_fixed_exact. Qed.
Print Assumptions C18_gso_disable_retry_fixed_exact.

(* Glue, Send's pooled destination address (udpAddrPool), repaired order
   `ua.IP = ua.IP[:16]; copy(ua.IP, as16[:])` (notes/C18-fix-dualstack.patch):
   for every history of IPv4/IPv6 Sends drawing the same pooled object, whatever
   state it was left in, the address handed to the kernel is the endpoint's. *)
Theorem C18_pooled_address_correct : forall (h : list (bool * list N)) (p : apool),
  length (ap_buf p) = 16%nat /\ (ap_len p = 4%nat \/ ap_len p = 16%nat) ->
  Forall (fun x : bool * list N => length (snd x) = (if fst x then 16 else 4)%nat) h ->
  addr_history store6 p h = map snd h.
Proof. exact addr_history_correct. Qed.
Print Assumptions C18_pooled_address_correct.

(* The order at /repo HEAD before that repair, `copy(ua.IP, as16[:]); ua.IP =
   ua.IP[:16]`, is REFUTED: after an IPv4 Send the slice has length 4, the copy
   writes 4 bytes only, bytes 4..15 are those of the previous IPv6 destination:
   Sends to fd00::2, 127.0.0.1, ::1 hand the kernel fd00::2, 127.0.0.1, ::2. *)
Theorem C18_pooled_address_old_refuted :
  exists h : list (bool * list N), Forall (fun x : bool * list N => length (snd x) = (if fst x then 16 else 4)%nat) h /\
    addr_history old_store6 apool_new h <> map snd h /\
    addr_history old_store6 apool_new h = [ex_fd; ex_lo4; [0;0;0;0;0;0;0;0;0;0;0;0;0;0;0;2]].
Proof. exact addr_history_old_refuted. Qed.
Print Assumptions C18_pooled_address_old_refuted.

(* F4, send side (history; repaired in /repo ba89367).  For the code as it was
   before the repair (UdpGso/OldModel.v) the statement was FALSE: a zero-length
   datagram after a non-empty one was merged into the previous message and
   never reached the wire (the wire carried the batch with the empty datagram
   filtered out). *)
Theorem C18_old_coalesce_drops_empty_refuted :
  exists c bufs, wf_cfg c /\ Forall (fun b => len (b_data b) <= b_cap b) bufs /\
    flat_map kernel_send (old_coalesce c bufs) <> map b_data bufs /\
    flat_map kernel_send (old_coalesce c bufs) = filter (fun d => negb (len d =? 0)) (map b_data bufs).
Proof. exact old_coalesce_drops_empty_refuted. Qed.
Print Assumptions C18_old_coalesce_drops_empty_refuted.

Theorem C18_old_send_transparent_any_size_refuted :
  ~ (forall c bufs, wf_cfg c -> Forall (fun b => len (b_data b) <= b_cap b) bufs ->
       flat_map kernel_send (old_coalesce c bufs) = map b_data bufs).
Proof. exact old_send_transparent_any_size_refuted. Qed.
Print Assumptions C18_old_send_transparent_any_size_refuted.

(* F4, receive side: a message with N = 0 is the end-of-batch sentinel, so an
   empty datagram hides itself and everything read after it. *)
Theorem C18_split_stops_at_empty_refuted :
  exists ms f expected, received (split ms f) <> expected /\
    expected = [([], 7); ([5;6;7], 7)] /\ received (split ms f) = [].
Proof. exact split_stops_at_empty_refuted. Qed.
Print Assumptions C18_split_stops_at_empty_refuted.

(* Non-vacuity.  A batch that exercises every way a run ends: 3 equal + short
   tail, restart, capacity exhausted, a larger datagram. *)
Definition ex_cfg : cfg := {| c_is6 := false; c_src := [9;9]; c_oobcap := 64; c_addr := 5 |}.
Definition ex_bufs : list buf :=
  [ {| b_data := [1;1]; b_cap := 100 |}; {| b_data := [2;2]; b_cap := 2 |}; {| b_data := [3;3]; b_cap := 2 |};
    {| b_data := [4]; b_cap := 1 |};      {| b_data := [5;5]; b_cap := 4 |}; {| b_data := [6;6]; b_cap := 2 |};
    {| b_data := [7;7]; b_cap := 9 |};    {| b_data := [8;8;8]; b_cap := 3 |} ].

Example C18_nonvacuous_send :
  wf_cfg ex_cfg /\ Forall wf_buf ex_bufs /\
  map (fun m => (m_data m, m_gso m)) (coalesce ex_cfg ex_bufs) =
    [ ([1;1;2;2;3;3;4], [2]); ([5;5;6;6], [2]); ([7;7], []); ([8;8;8], []) ] /\
  flat_map kernel_send (coalesce ex_cfg ex_bufs) = map b_data ex_bufs.
Proof.
  split; [vm_compute; discriminate|]. split.
  - repeat constructor; vm_compute; reflexivity || discriminate.
  - split; vm_compute; reflexivity.
Qed.

(* the batch of finding F4 with the repaired code: the empty datagram is a
   message of its own and the wire image is the batch *)
Example C18_nonvacuous_empty_datagram :
  map (fun m => (m_data m, m_gso m)) (coalesce f4_cfg f4_bufs) =
    [ ([1;1;1;2;2;2], [3]); ([], []); ([3;3;3;4;4], [3]) ] /\
  flat_map kernel_send (coalesce f4_cfg f4_bufs) = map b_data f4_bufs.
Proof. exact fixed_coalesce_keeps_empty. Qed.

(* two partial writes (3, 3, rest) of a vector of 10; an error after the first *)
Example C18_nonvacuous_send_loop :
  send_loop 11 [0;1;2;3;4;5;6;7;8;9] 0 [WOk 3; WOk 3; WOk 100] = ([0;1;2;3;4;5;6;7;8;9], false) /\
  send_loop 11 [0;1;2;3;4;5;6;7;8;9] 0 [WOk 3; WErr; WOk 100] = ([0;1;2], true).
Proof. split; vm_compute; reflexivity. Qed.

(* 65 equal datagrams: the 65th starts a new message (64-segment limit) *)
Example C18_nonvacuous_64 :
  map (fun m => (len (m_data m), m_gso m))
      (coalesce ex_cfg (repeat {| b_data := [1;2;3]; b_cap := 1000 |} 65)) = [ (192, [3]); (3, []) ].
Proof. vm_compute. reflexivity. Qed.

(* a train of three and a single datagram, in receiveIP's relative layout *)
Definition ex_trains : list (list (list N) * N) := [ ([[1;2];[3;4];[5]], 7); ([[6;6;6]], 8) ].
Definition ex_slot : rmsg := {| r_buf := [0;0;0;0;0;0]; r_n := 0; r_ctl := Some 0; r_addr := 0 |}.
Example C18_nonvacuous_recv :
  Forall (fun t => train_ok (fst t)) ex_trains /\
  no_overflow 2 ex_trains /\
  split (rx_vector [ex_slot; ex_slot] [0] ex_trains [ex_slot]) 2 =
    ([ {| r_buf := [1;2;0;0;0;0]; r_n := 2; r_ctl := Some 0; r_addr := 7 |};
       {| r_buf := [3;4;0;0;0;0]; r_n := 2; r_ctl := Some 0; r_addr := 7 |};
       {| r_buf := [5;2;3;4;5;0]; r_n := 1; r_ctl := Some 2; r_addr := 7 |};
       {| r_buf := [6;6;6;0]; r_n := 3; r_ctl := Some 0; r_addr := 8 |};
       ex_slot ], 4%nat, 0) /\
  received (split (rx_vector [ex_slot; ex_slot] [0] ex_trains [ex_slot]) 2) = dgrams_of ex_trains.
Proof.
  split.
  - constructor; [|constructor; [|constructor]]; cbn [fst].
    + split; [discriminate|]. split; [intros d [<-|[<-|[]]]; reflexivity|].
      split; vm_compute; [split; [reflexivity|discriminate]|discriminate].
    + split; [discriminate|]. split; [intros d []|].
      split; vm_compute; [split; [reflexivity|discriminate]|discriminate].
  - split; [intros [|[|t]] H; cbn in *; lia|]. split; vm_compute; reflexivity.
Qed.

(* THE TIE TO THE SOURCE for the send-side coalescing (translator
   harness/cmd/gsoast, rerun on every check): Gen.GsoAst.coal_body is the body
   of coalesceMessages of conn/bind_std.go as a term of the deep-embedded
   language of UdpGso/CoalAst.v (range loop, base / gsoSize / dgramCnt /
   endBatch, the six-clause join condition, append within capacity, setGSO).
   For ALL batches and configurations the interpreted source produces exactly
   the model's messages, GSO sizes and count, leaves the rest of the pooled
   vector untouched, never appends beyond a capacity and never indexes out of
   range; hence what the kernel puts on the wire for the interpreted source is
   the batch, datagram for datagram, in order. *)
Theorem C18_source_coalesce_is_the_model : forall c bufs k,
  (length bufs <= k)%nat ->
  exists n, UdpGso.CoalAstProofs.run_coal c bufs k =
            Some (coalesce c bufs ++ repeat UdpGso.CoalAstProofs.blank n, Z.of_nat (length (coalesce c bufs))).
Proof. exact UdpGso.CoalAstProofs.coalesce_ast_eq. Qed.
Print Assumptions C18_source_coalesce_is_the_model.

Theorem C18_source_send_transparent : forall c bufs k,
  (length bufs <= k)%nat -> wf_cfg c -> Forall wf_buf bufs ->
  exists ms n, UdpGso.CoalAstProofs.run_coal c bufs k = Some (ms, n) /\
               flat_map kernel_send (firstn (Z.to_nat n) ms) = map b_data bufs.
Proof. exact UdpGso.CoalAstProofs.coalesce_ast_transparent. Qed.
Print Assumptions C18_source_send_transparent.
