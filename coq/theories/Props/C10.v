(* Property C10 — silence toward strangers and cookie-based DoS mitigation under load.
   Only statements, closed by `exact`, with Print Assumptions.
   Model: Cookie/Model.v (device/cookie.go, the gates of RoutineReceiveIncoming and
   RoutineHandshake, SendHandshakeCookie); cryptography symbolic (free constructors). *)
From WG Require Import Base.Prelude Gen.Constants Cookie.Model Cookie.Spec Cookie.Proofs Cookie.Check.
Local Open Scope N_scope.

(* The constants the property text names, as the code has them now. *)
Theorem C10_constants :
  CookieRefreshTime = 120 * 1000000000 /\ CookieRefreshTimeSecs = 120 /\
  MessageInitiationSize = 148 /\ MessageResponseSize = 92 /\ MessageCookieReplySize = 64 /\
  MessageTransportSize = 32 /\ MinMessageSize = 32 /\
  MessageInitiationType = 1 /\ MessageResponseType = 2 /\ MessageCookieReplyType = 3 /\
  MessageTransportType = 4 /\ UnderLoadAfterTime = 1000000000 /\ QueueHandshakeSize = 1024.
Proof. repeat split; reflexivity. Qed.
Print Assumptions C10_constants.

(* No valid MAC1 for the device's key (types 1 and 2), unknown type word, or a size other than
   the type's: nothing is sent and the state is exactly as before — in every state, loaded or not. *)
Theorem C10_no_valid_mac1_silent_inert : forall st now m q al nonce body,
  gate m = false \/ (is_hs m = true /\ check_mac1 (d_pk st) m = false) ->
  step st (ERecv now m q al nonce body) = (st, []).
Proof. exact no_valid_mac1_silent_inert. Qed.
Print Assumptions C10_no_valid_mac1_silent_inert.

(* ... hence in every history such a datagram (no valid MAC1 for the identity the device has at that moment —
   the identity may have been changed or removed through UAPI on the way) can be erased without any effect. *)
Theorem C10_stranger_datagram_erasable : forall st pre post now m q al nonce body,
  gate m = false \/ (is_hs m = true /\ check_mac1 (d_pk (final step st pre)) m = false) ->
  final step st (pre ++ ERecv now m q al nonce body :: post) = final step st (pre ++ post) /\
  outs step st (pre ++ ERecv now m q al nonce body :: post) =
    outs step st pre ++ [] :: outs step (final step st pre) post.
Proof. exact stranger_datagram_erasable. Qed.
Print Assumptions C10_stranger_datagram_erasable.

(* The two types without MAC fields: a cookie reply is never answered, and it and a transport
   message are inert unless they authenticate (AEAD under the peer's key and last MAC1 /
   live session key and fresh counter). *)
Theorem C10_cookie_reply_never_answered : forall st now m q al nonce body,
  m_type m = MessageCookieReplyType -> snd (step st (ERecv now m q al nonce body)) = [].
Proof. exact cookie_reply_never_answered. Qed.
Print Assumptions C10_cookie_reply_never_answered.

Theorem C10_unauthentic_cookie_reply_silent_inert : forall st now m q al nonce body,
  m_type m = MessageCookieReplyType -> cookie_opens st m = false ->
  step st (ERecv now m q al nonce body) = (st, []).
Proof. exact unauthentic_cookie_reply_silent_inert. Qed.
Print Assumptions C10_unauthentic_cookie_reply_silent_inert.

Theorem C10_unauthentic_transport_silent_inert : forall st now m q al nonce body,
  m_type m = MessageTransportType -> (forall p, m_content m <> CTransport (Some p)) ->
  step st (ERecv now m q al nonce body) = (st, []).
Proof. exact unauthentic_transport_silent_inert. Qed.
Print Assumptions C10_unauthentic_transport_silent_inert.

(* Not under load: a handshake message whose Noise payload fails is met with silence. *)
Theorem C10_not_under_load_auth_failure_silent : forall st now m al nonce body,
  is_hs m = true -> under_load st now false = false -> content_passes st m = false ->
  step st (ERecv now m false al nonce body) = (st, []).
Proof. exact not_under_load_auth_failure_silent. Qed.
Print Assumptions C10_not_under_load_auth_failure_silent.

(* Under load a message reaches the consume functions only with a MAC2 made with the cookie
   Mac(current secret, its own source ip:port), the secret being at most 120 s old
   (and only if the rate limiter lets it pass). *)
Theorem C10_under_load_gate : forall st now m q al,
  under_load st now q = true -> processed st now m q al = true ->
  check_mac1 (d_pk st) m = true /\
  m_mac2 m = TMac (cookie_for (d_epoch st) (m_src m)) (covered2 m) /\
  d_has_secret st = true /\ now - d_secret_set st <= CookieRefreshTime /\ al = true.
Proof. exact under_load_gate. Qed.
Print Assumptions C10_under_load_gate.

(* For every history between the two: if a message is processed under load with MAC2 under the
   cookie c, every reply that carried c was issued at most 120 s earlier. *)
Theorem C10_processed_cookie_issued_within_120s :
  forall st now m q al nonce body st1 to idx k n c ad mid now2 m2 q2 al2,
  step st (ERecv now m q al nonce body) = (st1, [OCookie to idx (TXAead k n c ad)]) ->
  (d_has_secret st = true -> d_secret_set st <= now) ->
  let st2 := final step st1 mid in
  under_load st2 now2 q2 = true -> processed st2 now2 m2 q2 al2 = true ->
  m_mac2 m2 = TMac c (covered2 m2) ->
  now2 - now <= CookieRefreshTime.
Proof. exact processed_cookie_issued_within_120s. Qed.
Print Assumptions C10_processed_cookie_issued_within_120s.

Theorem C10_unprocessed_touches_no_peer : forall st now m q al nonce body,
  gate m = true -> is_hs m = true -> processed st now m q al = false ->
  d_peers (fst (step st (ERecv now m q al nonce body))) = d_peers st.
Proof. exact unprocessed_touches_no_peer. Qed.
Print Assumptions C10_unprocessed_touches_no_peer.

(* Under load, valid MAC1 but no valid MAC2: exactly one datagram, a cookie reply to the source
   address carrying the sender's index; nothing changes except that the checker's secret may be
   replaced (when it is older than 120 s). *)
Theorem C10_under_load_else_only_cookie_reply : forall st now m q al nonce body,
  gate m = true -> is_hs m = true -> check_mac1 (d_pk st) m = true ->
  under_load st now q = true -> check_mac2 st now m = false ->
  exists st',
    step st (ERecv now m q al nonce body) =
      (st', [OCookie (m_src m) (m_sender m)
               (TXAead (cookie_key (d_pk st)) nonce (cookie_for (d_epoch st') (m_src m)) (m_mac1 m))]) /\
    d_peers st' = d_peers st /\ d_pk st' = d_pk st /\ d_has_secret st' = true /\
    ((d_epoch st' = d_epoch st /\ d_secret_set st' = d_secret_set st /\ secret_stale st now = false) \/
     (d_epoch st' = d_epoch st + 1 /\ d_secret_set st' = now /\ secret_stale st now = true)).
Proof. exact under_load_else_only_cookie_reply. Qed.
Print Assumptions C10_under_load_else_only_cookie_reply.

(* The reply opens exactly with Hash("cookie--" || device public key) and the MAC1 of the
   offending message, and then yields the cookie bound to the source address. *)
Theorem C10_cookie_reply_opens_iff : forall st now m nonce k ad c,
  xopen k ad (snd (create_reply st now m nonce)) = Some c <->
  k = cookie_key (d_pk st) /\ ad = m_mac1 m /\
  c = cookie_for (d_epoch (fst (create_reply st now m nonce))) (m_src m).
Proof. exact cookie_reply_opens_iff. Qed.
Print Assumptions C10_cookie_reply_opens_iff.

(* Round trip: with the cookie from the reply, any later handshake message with valid MAC1 from
   the same ip:port passes all gates while the secret lives (rate limiter permitting) ... *)
Theorem C10_cookie_roundtrip_accepted : forall st now m q al nonce body,
  gate m = true -> is_hs m = true -> check_mac1 (d_pk st) m = true ->
  under_load st now q = true -> check_mac2 st now m = false ->
  forall to idx enc c,
  snd (step st (ERecv now m q al nonce body)) = [OCookie to idx enc] ->
  xopen (cookie_key (d_pk st)) (m_mac1 m) enc = Some c ->
  forall st2 now2 m2 q2,
  same_secret st2 (fst (step st (ERecv now m q al nonce body))) ->
  check_mac1 (d_pk st2) m2 = true -> under_load st2 now2 q2 = true ->
  m_mac2 m2 = TMac c (covered2 m2) ->
  m_src m2 = m_src m -> now2 - d_secret_set st2 <= CookieRefreshTime ->
  processed st2 now2 m2 q2 true = true.
Proof. exact cookie_roundtrip_accepted. Qed.
Print Assumptions C10_cookie_roundtrip_accepted.

(* ... from another address or another port it does not ... *)
Theorem C10_other_address_or_port_rejected : forall st now m q al nonce body,
  gate m = true -> is_hs m = true -> check_mac1 (d_pk st) m = true ->
  under_load st now q = true -> check_mac2 st now m = false ->
  forall to idx enc c,
  snd (step st (ERecv now m q al nonce body)) = [OCookie to idx enc] ->
  xopen (cookie_key (d_pk st)) (m_mac1 m) enc = Some c ->
  forall st2 now2 m2 q2,
  same_secret st2 (fst (step st (ERecv now m q al nonce body))) ->
  check_mac1 (d_pk st2) m2 = true -> under_load st2 now2 q2 = true ->
  m_mac2 m2 = TMac c (covered2 m2) ->
  m_src m2 <> m_src m ->
  processed st2 now2 m2 q2 true = false /\ check_mac2 st2 now2 m2 = false.
Proof. exact other_address_or_port_rejected. Qed.
Print Assumptions C10_other_address_or_port_rejected.

(* ... and neither does anything once the secret is older than 120 s. *)
Theorem C10_expired_cookie_rejected : forall st2 now2 m2 q2,
  check_mac1 (d_pk st2) m2 = true -> under_load st2 now2 q2 = true ->
  CookieRefreshTime < now2 - d_secret_set st2 ->
  processed st2 now2 m2 q2 true = false /\ check_mac2 st2 now2 m2 = false.
Proof. exact expired_cookie_rejected. Qed.
Print Assumptions C10_expired_cookie_rejected.

(* Initiator side: a cookie reply is consumed only after a handshake message was sent, only if
   sealed under Hash("cookie--" || peer key) with that message's MAC1; the next message within
   120 s then carries MAC2 under the cookie. *)
Theorem C10_consume_reply_iff : forall pk g now enc g',
  consume_reply pk g now enc = Some g' <->
  g_has_last g = true /\
  exists n c, enc = TXAead (cookie_key pk) n c (g_last g) /\
    g' = {| g_has_last := true; g_last := g_last g; g_has_cookie := true; g_cookie := c; g_cookie_set := now |}.
Proof. exact consume_reply_iff. Qed.
Print Assumptions C10_consume_reply_iff.

Theorem C10_add_macs_mac2 : forall pk g now body,
  snd (add_macs pk g now body) =
    if g_has_cookie g && (now - g_cookie_set g <=? CookieRefreshTime)
    then TMac (g_cookie g) (TPair body (TMac (mac1_key pk) body)) else TZero.
Proof. exact add_macs_mac2. Qed.
Print Assumptions C10_add_macs_mac2.

(* The under-load period lasts UnderLoadAfterTime after the LAST time a handshake message found the
   queue at least an eighth full (whatever the deadline was before), so a message without MAC2
   arriving less than 1 s after that is still met by the MAC2 gate (C10_under_load_gate). *)
Theorem C10_load_period_slides : forall st now m al nonce body,
  gate m = true -> is_hs m = true -> check_mac1 (d_pk st) m = true ->
  d_load_until (fst (step st (ERecv now m true al nonce body))) = now + UnderLoadAfterTime.
Proof. exact load_period_slides. Qed.
Print Assumptions C10_load_period_slides.

Theorem C10_still_under_load_after_last_detection : forall st now m al nonce body now2,
  gate m = true -> is_hs m = true -> check_mac1 (d_pk st) m = true ->
  now2 < now + UnderLoadAfterTime ->
  under_load (fst (step st (ERecv now m true al nonce body))) now2 false = true.
Proof. exact still_under_load_after_last_detection. Qed.
Print Assumptions C10_still_under_load_after_last_detection.

(* Identity change or removal (UAPI private_key=): from then on only MAC1 under the NEW key counts — a message
   with MAC1 for the previous key is met with silence in every load state — and the cookie secret counts as not
   drawn, so no cookie issued under the previous identity is accepted. *)
Theorem C10_old_identity_mac1_rejected : forall st now k now2 m q al nonce body,
  is_hs m = true -> check_mac1 k m = false ->
  step (fst (step st (ESetIdentity now k))) (ERecv now2 m q al nonce body) = (fst (step st (ESetIdentity now k)), []).
Proof. exact old_identity_mac1_rejected. Qed.
Print Assumptions C10_old_identity_mac1_rejected.

Theorem C10_identity_change_voids_cookies : forall st now k now2 m,
  check_mac2 (fst (step st (ESetIdentity now k))) now2 m = false.
Proof. exact identity_change_voids_cookies. Qed.
Print Assumptions C10_identity_change_voids_cookies.

(* A forged transport message — whatever receiver index (live or not), counter and source it carries — can be
   erased from any history: the device's later behaviour, including the acceptance of genuine packets of the
   same session, is the same. *)
Theorem C10_forged_transport_erasable : forall st pre post now m q al nonce body,
  m_type m = MessageTransportType -> (forall p, m_content m <> CTransport (Some p)) ->
  final step st (pre ++ ERecv now m q al nonce body :: post) = final step st (pre ++ post) /\
  outs step st (pre ++ ERecv now m q al nonce body :: post) =
    outs step st pre ++ [] :: outs step (final step st pre) post.
Proof. exact forged_transport_erasable. Qed.
Print Assumptions C10_forged_transport_erasable.

(* Non-vacuity: under forced load an initiation with valid MAC1 and zero MAC2 from 192.0.2.7:5555
   (address 1) gets a cookie reply; the same initiation with MAC2 under that cookie gets the
   response; from port 5556 it gets another cookie reply; after 121 s likewise, under a new secret. *)
Definition ex_m (m2 : m2d) (port : N) : msg := M 1 148 5 77 1 5 m2 1 port (CInit (Some 2) true).
Definition ex_st := dstate0 1 [peer0 2 (Some (1, 5555)) 1000000000000].
Example C10_nonvacuous :
  let evs := [EForceLoad 1000000000000 600000000000 true;
              ERecv 1000000001000 (ex_m M2Zero 5555) false true 1 0;
              ERecv 1000000002000 (ex_m (M2Cookie 1 1 5555) 5556) false true 2 0;
              ERecv 1000000003000 (ex_m (M2Cookie 1 1 5555) 5555) false true 3 9;
              EShiftSecret 121000000000;
              ERecv 1000000004000 (ex_m (M2Cookie 1 1 5555) 5555) false true 4 0] in
  map (map (fun o => match o with OCookie to _ (TXAead _ _ c _) => (3, to, c) | OResp to p _ _ => (2, to, TPub p)
                                | _ => (0, (0, 0), TZero) end)) (outs step ex_st evs)
  = [[]; [(3, (1, 5555), cookie_for 1 (1, 5555))]; [(3, (1, 5556), cookie_for 1 (1, 5556))];
     [(2, (1, 5555), TPub 2)]; []; [(3, (1, 5555), cookie_for 2 (1, 5555))]].
Proof. vm_compute. reflexivity. Qed.
