(* Property C04 — per-session counters (AEAD nonces) are never reused and never
   pass the limits.  Only statements, closed by `exact`, with Print Assumptions. *)
From WG Require Import Base.Prelude Gen.Constants Nonce.Seq Nonce.Conc Nonce.Spec Nonce.Proofs Nonce.DupResp Nonce.Clamp Nonce.ProgSyntax Nonce.Prog Nonce.ProgProofs Gen.NonceProg.
Local Open Scope N_scope.

(* The numbers of the property text, as the code has them now. *)
Theorem C04_constants :
  RejectAfterMessages = 2^64 - 2^13 - 1 /\ RekeyAfterMessages = 2^60 /\
  Reject = RejectAfterMessages /\ Rekey = RekeyAfterMessages /\ M64 = 2^64 /\
  Reject + 2^13 + 1 = M64.
Proof. repeat split; reflexivity. Qed.
Print Assumptions C04_constants.

(* ALL SCHEDULES.  T flusher goroutines (each: Load; then per element
   Add(1)-1, examine, and Store(Reject) when at or beyond the limit) and any
   number of ExpireCurrentKeypairs stores, interleaved in any order at the
   granularity of single atomic operations on the one 64-bit cell, starting
   from any counter value n0 up to the limit: no counter is emitted twice,
   every emitted counter is below RejectAfterMessages (and not below n0).
   The hypothesis T < 2^13 is the one the proof forces: the cell can exceed
   the limit by the number of goroutines that sit between their Add and their
   Store, and 2^13 is the distance from the limit to the wrap-around of the
   uint64. *)
Theorem C04_emitted_distinct_below_limit :
  forall (T : nat) (n0 : N) (ks : nat -> nat) (sched : list action),
  N.of_nat T < 2 ^ 13 -> n0 <= Reject ->
  let c := run T (init n0 ks) sched in
  NoDup (emitted c) /\ Forall (fun r => n0 <= r /\ r < Reject) (emitted c).
Proof. exact emitted_distinct_below_limit. Qed.
Print Assumptions C04_emitted_distinct_below_limit.

Theorem C04_cell_never_wraps :
  forall (T : nat) (n0 : N) (ks : nat -> nat) (sched : list action),
  N.of_nat T < 2 ^ 13 -> n0 <= Reject -> cell (run T (init n0 ks) sched) + 1 < M64.
Proof. exact cell_never_wraps. Qed.
Print Assumptions C04_cell_never_wraps.

(* The sequential numbering loop: the numbered elements are a prefix of the
   container, the held ones the rest, in order (nothing dropped); the counters
   handed out are below the limit and pairwise distinct; held elements carry
   no counter (they are bare elements in the result). *)
Theorem C04_held_not_dropped : forall (A : Type) (elems : list A) n a h n',
  n < M64 -> number n elems = (a, h, n') ->
  map fst a ++ h = elems /\ Forall (fun c => c < Reject) (map snd a) /\ NoDup (map snd a).
Proof. exact @held_not_dropped. Qed.
Print Assumptions C04_held_not_dropped.

Theorem C04_number_spec : forall (A : Type) (elems : list A) n a h n',
  n < M64 -> number n elems = (a, h, n') ->
  map fst a ++ h = elems /\
  map snd a = nseq n (length a) /\
  Forall (fun c => n <= c /\ c < n' /\ c < Reject) (map snd a) /\
  (h <> [] -> n' = Reject) /\
  (h = [] -> n' = n + N.of_nat (length elems)) /\
  (n <= Reject -> n' <= Reject) /\ n <= N.max n n' /\ n' < M64.
Proof. exact @number_spec. Qed.
Print Assumptions C04_number_spec.

(* Slice model of the device (one peer): an exhausted key is not used again. *)
Theorem C04_exhausted_key_rekeys : forall s k pkts,
  cur s = Some k -> Reject <= knonce k -> pkts <> [] ->
  let '(s', o) := dstep s (TunBatch pkts) in
  o_tx o = [] /\ o_init o = (if init_ok s then 1 else 0) /\
  staged s' = stage (staged s) pkts /\ cur s' = cur s.
Proof. exact exhausted_key_rekeys. Qed.
Print Assumptions C04_exhausted_key_rekeys.

(* Slice model: a transmitted counter at or beyond 2^60 starts a handshake
   (exactly one initiation; none within 5 s of the previous one).  The current
   keypair k is arbitrary -- in particular its role kinit k: the rule holds
   whether the device initiated the session or answered it. *)
Theorem C04_rekey_after_2_60 : forall s k pkts,
  cur s = Some k -> knonce k < Reject -> pkts <> [] ->
  let '(s', o) := dstep s (TunBatch pkts) in
  (exists t, In t (o_tx o) /\ Rekey <= ctr t) ->
  o_init o = (if init_ok s then 1 else 0) /\
  Forall (fun t => kix t = kidx k /\ knonce k <= ctr t /\ ctr t < Reject) (o_tx o).
Proof. exact rekey_after_2_60. Qed.
Print Assumptions C04_rekey_after_2_60.

(* The same through the responder path, spelled out: the remote party
   initiates (RefInit), confirms with data (RefData: "next" becomes current with
   isInitiator = false), the counter is put at v; then a TUN batch that sends a
   counter >= 2^60 makes the device itself start a handshake. *)
Theorem C04_rekey_after_2_60_as_responder : forall s idx v pkts,
  v < Reject -> pkts <> [] -> staged s = [] ->
  let s1 := fst (dstep s (RefInit idx)) in
  let s2 := fst (dstep s1 RefData) in
  let s3 := fst (dstep (fst (dstep s2 AllowInit)) (SetNonce v)) in
  cur s3 = Some {| kidx := idx; knonce := v; kinit := false |} /\
  let o := snd (dstep s3 (TunBatch pkts)) in
  ((exists t, In t (o_tx o) /\ Rekey <= ctr t) -> o_init o = 1).
Proof. exact rekey_after_2_60_as_responder. Qed.
Print Assumptions C04_rekey_after_2_60_as_responder.

(* Bind errors.  A transport batch whose Bind.Send fails after k datagrams puts
   exactly the first k transmissions of the error-free step on the wire and
   leaves the device in the state of the error-free step: the counters of the
   refused datagrams are consumed, they are never numbered or emitted again. *)
Theorem C04_refused_batch_consumes_counters : forall s pkts k lost,
  staged s = [] -> pkts <> [] ->
  let r1 := dstep s (TunBatch pkts) in
  let r2 := dstep s (TunBatchErr pkts k lost) in
  cur (fst r2) = cur (fst r1) /\ nxt (fst r2) = nxt (fst r1) /\ staged (fst r2) = staged (fst r1) /\
  o_tx (snd r2) = firstn k (o_tx (snd r1)).
Proof. exact refused_batch_consumes_counters. Qed.
Print Assumptions C04_refused_batch_consumes_counters.

(* An initiation the bind refuses still counts as an attempt (nothing on the
   wire, packets stay staged, the handshake stays pending) and the retransmit
   timer (RekeyTimeout + jitter later) repeats it. *)
Theorem C04_refused_initiation_is_retried : forall s k pkts,
  cur s = Some k -> Reject <= knonce k -> pkts <> [] -> init_ok s = true ->
  let '(s1, o1) := dstep s (TunBatchIErr pkts) in
  o_tx o1 = [] /\ o_init o1 = 0 /\ pending s1 = true /\ staged s1 = stage (staged s) pkts /\
  o_init (snd (dstep s1 Retransmit)) = 1.
Proof. exact refused_initiation_is_retried. Qed.
Print Assumptions C04_refused_initiation_is_retried.

(* Slice model, every history: with fresh receiver indices from the remote
   party and hook calls that only raise the counter, no (receiver index, counter)
   pair is ever sent twice and every counter is below the limit. *)
Theorem C04_slice_never_reuses : forall evs : list ev,
  wf dinit [] evs ->
  NoDup (map kc (all_tx dinit evs)) /\ Forall (fun t => ctr t < Reject) (all_tx dinit evs).
Proof. exact slice_never_reuses. Qed.
Print Assumptions C04_slice_never_reuses.

(* FINDING (unchanged code).  Interleaving model of ConsumeMessageResponse +
   BeginSymmetricSession for handshake workers holding copies of the SAME valid
   response (Nonce/DupResp.v; fixed = false: the state is checked under the read
   lock only).  An explicit schedule of two workers installs two keypairs with
   the SAME send key and counter 0: nonce reuse. *)
Theorem C04_duplicate_response_nonce_reuse_refuted : forall (ck : N) (kdf : N -> N),
  exists sched, sessions (drun false ck kdf dinit2 sched) = [(kdf ck, 0); (kdf ck, 0)].
Proof. exact duplicate_response_nonce_reuse_refuted. Qed.
Print Assumptions C04_duplicate_response_nonce_reuse_refuted.

(* The repaired code (state looked at again under the write lock): for every
   schedule and any number of copies and workers, a response establishes at most
   one session. *)
Theorem C04_duplicate_response_at_most_one_session : forall (ck : N) (kdf : N -> N) (sched : list nat),
  (length (sessions (drun true ck kdf dinit2 sched)) <= 1)%nat.
Proof. exact duplicate_response_at_most_one_session. Qed.
Print Assumptions C04_duplicate_response_at_most_one_session.

(* Why the clamp is a Store: in the same interleaving system with "take back my
   own increment" (Add(-1)) instead of Store(Reject), one ExpireCurrentKeypairs
   between a flusher's Add(1) and its decrement makes the last counter go out
   twice (explicit schedule, two flushers). *)
Theorem C04_clamp_by_decrement_refuted :
  exists sched, let c := run_dec 2 (init (Reject - 1) (fun _ => 2%nat)) sched in
    emitted c = [Reject - 1; Reject - 1].
Proof. exact clamp_by_decrement_refuted. Qed.
Print Assumptions C04_clamp_by_decrement_refuted.


(* THE TIE TO THE SOURCE (translator harness/cmd/nonceprog, rerun on every check):
   Gen.NonceProg.prog is the thread program read off the source of
   SendStagedPackets -- the guard in front of the loop, the numbering
   expression, the over-limit test and the operation inside it -- and
   Gen.NonceProg.sites every other access to a field named sendNonce in package
   device.  The program equals the one the interleaving system of Nonce/Conc.v
   hard-wires ... *)
Theorem C04_source_thread_program : Gen.NonceProg.prog = reference_prog.
Proof. reflexivity. Qed.
Print Assumptions C04_source_thread_program.

(* ... every other site is a Load or the Store(RejectAfterMessages) that the
   action Expire stands for, and ExpireCurrentKeypairs consists of exactly two
   such stores (current and next keypair) ... *)
Theorem C04_source_other_sites :
  forallb site_ok Gen.NonceProg.sites = true /\
  map snd (filter (fun s => String.eqb (fst s) "ExpireCurrentKeypairs") Gen.NonceProg.sites) =
    [OStore RejectAfterMessages; OStore RejectAfterMessages].
Proof. split; reflexivity. Qed.
Print Assumptions C04_source_other_sites.

(* ... so the all-schedules theorem holds of the interpreter run on the program
   extracted from the source: T < 2^13 flushers and any number of expiries, any
   interleaving of their atomic steps, any starting counter up to the limit. *)
Theorem C04_source_program_all_schedules :
  forall (T : nat) (n0 : N) (ks : nat -> nat) (sched : list action),
  N.of_nat T < 2 ^ 13 -> n0 <= Reject ->
  let c := prun Gen.NonceProg.prog T (init n0 ks) sched in
  NoDup (emitted c) /\ Forall (fun r => n0 <= r /\ r < Reject) (emitted c) /\ cell c + 1 < M64.
Proof. exact (prog_emitted_distinct_below_limit Gen.NonceProg.prog C04_source_thread_program). Qed.
Print Assumptions C04_source_program_all_schedules.

(* The interpreter on the reference program is Conc.step, step for step. *)
Theorem C04_interpreter_is_the_interleaving_system : forall T c a,
  pstep reference_prog T c a = step T c a.
Proof. exact pstep_reference. Qed.
Print Assumptions C04_interpreter_is_the_interleaving_system.

(* The interpreter distinguishes programs: with the clamp written as "take back
   my own increment" (sendNonce.Add(^uint64(0))) a counter is handed out twice. *)
Theorem C04_decrement_program_refuted :
  exists sched, has_dup (emitted (prun decrement_prog 2 (init (Reject - 1) (fun _ => 2%nat)) sched)) = true.
Proof. exact decrement_prog_refuted. Qed.
Print Assumptions C04_decrement_program_refuted.

(* A stress trace accepted by the checker really has the property. *)
Theorem C04_trace_checker_sound : forall ks, conc_holdsb ks = true ->
  forall k, In k ks -> NoDup (kt_ctrs k) /\ Forall (fun c => c < Reject) (kt_ctrs k).
Proof. exact conc_holdsb_sound. Qed.
Print Assumptions C04_trace_checker_sound.

(* Non-vacuity.  A container of 5 that straddles the limit: 3 numbered, 2 held. *)
Example C04_nonvacuous_number :
  number (Reject - 3) [10; 11; 12; 13; 14] =
  ([(10, Reject - 3); (11, Reject - 2); (12, Reject - 1)], [13; 14], Reject).
Proof. vm_compute. reflexivity. Qed.

(* Two flushers racing across the limit from Reject-1: one counter emitted, the
   cell overshoots to Reject+2 before the stores bring it back, three held. *)
Example C04_nonvacuous_race :
  let c := run 2 (init (Reject - 1) (fun _ => 2%nat))
             [Step 0; Step 1; Step 0; Step 1; Step 0; Step 1; Step 1; Step 0; Step 0; Step 1; Step 0; Step 1;
              Step 0; Step 1; Step 0; Step 1] in
  emitted c = [Reject - 1] /\ held c = 3%nat /\ cell c = Reject.
Proof. vm_compute. repeat split; reflexivity. Qed.

(* The slice model on a scenario: first packet triggers the handshake, the new
   session delivers it from counter 0; near the limit a batch of 4 is split. *)
Example C04_nonvacuous_slice :
  outs dstep dinit [TunBatch [1]; Answer 7; SetNonce (Reject - 2); AllowInit; TunBatch [2; 3; 4; 5]; Answer 8] =
  [ {| o_tx := []; o_init := 1 |};
    {| o_tx := [(7, 0, 1)]; o_init := 0 |};
    {| o_tx := []; o_init := 0 |};
    {| o_tx := []; o_init := 0 |};
    {| o_tx := [(7, Reject - 2, 2); (7, Reject - 1, 3)]; o_init := 1 |};
    {| o_tx := [(8, 0, 4); (8, 1, 5)]; o_init := 0 |} ].
Proof. vm_compute. reflexivity. Qed.

(* The device as RESPONDER: the remote party initiates and confirms; at 2^60 the
   device starts a handshake of its own; near the limit the batch is split. *)
Example C04_nonvacuous_responder :
  outs dstep dinit [RefInit 9; RefData; AllowInit; SetNonce (Rekey - 1); TunBatch [1; 2; 3];
                    AllowInit; SetNonce (Reject - 1); TunBatch [4; 5]; Answer 10] =
  [ {| o_tx := []; o_init := 0 |}; {| o_tx := []; o_init := 0 |}; {| o_tx := []; o_init := 0 |};
    {| o_tx := []; o_init := 0 |};
    {| o_tx := [(9, Rekey - 1, 1); (9, Rekey, 2); (9, Rekey + 1, 3)]; o_init := 1 |};
    {| o_tx := []; o_init := 0 |}; {| o_tx := []; o_init := 0 |};
    {| o_tx := [(9, Reject - 1, 4)]; o_init := 1 |};
    {| o_tx := [(10, 0, 5)]; o_init := 0 |} ].
Proof. vm_compute. reflexivity. Qed.

(* Bind errors: a batch of 4 of which 2 go out before the error; the next batch
   continues after the consumed counters; a refused initiation is repeated by the
   retransmit timer and the held packet goes out under the new key. *)
Example C04_nonvacuous_bind_errors :
  outs dstep dinit [TunBatch [1]; Answer 7; TunBatchErr [2; 3; 4; 5] 2 [4; 5]; TunBatch [6];
                    AllowInit; SetNonce Reject; TunBatchIErr [7]; Retransmit; Answer 8] =
  [ {| o_tx := []; o_init := 1 |}; {| o_tx := [(7, 0, 1)]; o_init := 0 |};
    {| o_tx := [(7, 1, 2); (7, 2, 3)]; o_init := 0 |}; {| o_tx := [(7, 5, 6)]; o_init := 0 |};
    {| o_tx := []; o_init := 0 |}; {| o_tx := []; o_init := 0 |};
    {| o_tx := []; o_init := 0 |}; {| o_tx := []; o_init := 1 |};
    {| o_tx := [(8, 0, 7)]; o_init := 0 |} ].
Proof. vm_compute. reflexivity. Qed.
