(* Property C07 — session-key lifecycle: rotation, key confirmation, expiry and re-keying.
   Only statements, closed by `exact`, with Print Assumptions.  [R evs] is the state of the
   slice model (Keypairs/Model.v) after the event list evs, from a freshly started peer;
   every theorem quantifies over ALL event lists. *)
From Coq Require Import String.
From WG Require Import Base.Prelude Gen.Constants Keypairs.Model Keypairs.Spec Keypairs.Check Keypairs.Proofs Keypairs.SpecProofs.
From WG Require Keypairs.FreshAst Gen.FreshAst Keypairs.FreshAstProofs.
Local Open Scope N_scope.

(* The numbers the property text names, as the code has them now (nanoseconds). *)
Theorem C07_constants :
  rekey_after_time = 120 * 1000000000 /\ reject_after_time = 180 * 1000000000 /\
  rekey_recv_time = 165 * 1000000000 /\ rekey_timeout = 5 * 1000000000 /\
  RejectAfterTime - KeepaliveTimeout - RekeyTimeout = 165 * 1000000000 /\
  t_rekey = 120 /\ t_rekey_recv = 165 /\ t_reject = 180.
Proof. repeat split; reflexivity. Qed.
Print Assumptions C07_constants.

(* At most three keys, with different ids and indices; every keypair entry of the index table
   is one of them. *)
Theorem C07_at_most_three_distinct : forall evs,
  let s := R evs in
  (length (keys s) <= 3)%nat /\ NoDup (map id (keys s)) /\ NoDup (map lidx (keys s)) /\
  (forall i k, lookup i (table s) = Some (Kp k) -> In k (keys s) /\ lidx k = i).
Proof. exact at_most_three_distinct. Qed.
Print Assumptions C07_at_most_three_distinct.

(* The honoured receiver indices are exactly those of the three slots and of the pending handshake. *)
Theorem C07_index_table_is_slots : forall evs i,
  let s := R evs in
  honoured s i = true <-> (In i (map lidx (keys s)) \/ hs s = Some i).
Proof. exact index_table_is_slots. Qed.
Print Assumptions C07_index_table_is_slots.

(* Hence a session whose index was rotated out of the slots is refused at once, with no effect. *)
Theorem C07_rotated_out_refused : forall evs sid i,
  let s := R evs in
  assoc sid (sessions s) = Some i -> ~ In i (map lidx (keys s)) ->
  step s (Recv sid) = (set_now s (now s + 1), out0).
Proof. exact rotated_out_refused. Qed.
Print Assumptions C07_rotated_out_refused.

(* Completing as initiator: the new key is current (initiator-made, age 0), next is empty, previous is
   the old next if there was one and else the old current; the indices of everything else are dropped. *)
Theorem C07_initiator_completion_rotates : forall evs k r,
  let s := R evs in
  let s' := fst (step s (Respond k r)) in
  let o := snd (step s (Respond k r)) in
  o_acc o = true ->
  exists i, nth_error (inits s) k = Some i /\ hs s = Some i /\
    cur s' = Some (mkKp (nsess s) true (now s + 1) i r) /\ next s' = None /\ prev s' = rotated_in s /\
    (forall p, prev s = Some p -> honoured s' (lidx p) = false) /\
    (forall n c, next s = Some n -> cur s = Some c -> honoured s' (lidx c) = false) /\
    honoured s' i = true /\ hs s' = None /\
    o_sent o = repeat (nsess s) (N.to_nat (if staged s =? 0 then 1 else staged s)) /\ o_init o = false.
Proof. exact initiator_completion_rotates. Qed.
Print Assumptions C07_initiator_completion_rotates.

(* The property's composite event (device initiates, remote answers) always completes. *)
Theorem C07_complete_initiator_accepted : forall evs r,
  o_acc (snd (step (fst (step (R evs) (Initiate true))) (Respond 0 r))) = true.
Proof. exact complete_initiator_accepted. Qed.
Print Assumptions C07_complete_initiator_accepted.

(* Completing as responder: the new key goes to next (unconfirmed), current is untouched, previous is
   emptied, nothing is sent but the response. *)
Theorem C07_responder_installs_unconfirmed : forall evs r,
  let s := R evs in
  let s' := fst (step s (CompleteResponder r)) in
  let o := snd (step s (CompleteResponder r)) in
  next s' = Some (mkKp (nsess s) false (now s + 1) (nidx s) r) /\ cur s' = cur s /\ prev s' = None /\
  o_sent o = [] /\ o_resp o = true /\ o_init o = false /\
  (forall p, prev s = Some p -> honoured s' (lidx p) = false) /\
  (forall n, next s = Some n -> honoured s' (lidx n) = false) /\
  (forall h, hs s = Some h -> honoured s' h = false) /\
  honoured s' (nidx s) = true /\ hs s' = None.
Proof. exact responder_installs_unconfirmed. Qed.
Print Assumptions C07_responder_installs_unconfirmed.

(* Every transport message goes out under the current key, never under next; a responder-made key
   is used only after a message received under it was accepted somewhere in the history. *)
Theorem C07_no_send_under_unconfirmed : forall evs e x,
  let s := R evs in
  In x (o_sent (snd (step s e))) ->
  exists k, cur (fst (step s e)) = Some k /\ id k = x /\
            (forall n, next (fst (step s e)) = Some n -> id n <> x) /\
            (initiator k = false -> confirmed (evs ++ [e]) x).
Proof. exact no_send_under_unconfirmed. Qed.
Print Assumptions C07_no_send_under_unconfirmed.

(* A transport message that fails authentication (forged under ANY index -- previous, current, next,
   retired -- or replayed) changes nothing but the clock and produces nothing. *)
Theorem C07_unauthentic_receive_inert : forall evs sid,
  let s := R evs in
  step s (Forged sid) = (set_now s (now s + 1), out0) /\
  step s (Replay sid) = (set_now s (now s + 1), out0).
Proof. exact unauthentic_receive_inert. Qed.
Print Assumptions C07_unauthentic_receive_inert.

(* In histories that may contain forged and replayed messages (C07_no_send_under_unconfirmed already
   quantifies over them): data under a responder-made key implies an AUTHENTIC accepted Recv under it
   in the history; forged/replayed receives never count. *)
Theorem C07_no_send_without_authentic_receive : forall evs e x k,
  In x (o_sent (snd (step (R evs) e))) -> cur (fst (step (R evs) e)) = Some k -> initiator k = false ->
  In (Recv x) (evs ++ [e]).
Proof. exact no_send_without_authentic_receive. Qed.
Print Assumptions C07_no_send_without_authentic_receive.

(* Restart (interface down/up = Peer.Stop + Peer.Start): no key, no pending handshake, nothing staged,
   nothing sent, and the index table honours NOTHING -- data under every session ever derived is refused.
   (All other theorems, in particular C07_index_table_is_slots, quantify over histories with restarts.) *)
Theorem C07_restart_refuses_all : forall evs,
  let s' := fst (step (R evs) Restart) in
  keys s' = [] /\ hs s' = None /\ staged s' = 0 /\ snd (step (R evs) Restart) = out0 /\
  (forall i, honoured s' i = false) /\
  (forall sid, step s' (Recv sid) = (set_now s' (now s' + 1), out0)).
Proof. exact restart_refuses_all. Qed.
Print Assumptions C07_restart_refuses_all.

(* Giving up a handshake attempt (last expiry of the retransmit timer) only flushes the staged packets.
   Since C07_initiator_rekeys_after_120_send holds in EVERY reachable state, an earlier abandoned attempt
   is no exception to "the initiator starts a new handshake when it sends after 120 s". *)
Theorem C07_abandon_only_flushes : forall evs,
  let s := R evs in
  step s Abandon = (set_staged (set_now s (now s + 1)) 0, out0).
Proof. exact abandon_only_flushes. Qed.
Print Assumptions C07_abandon_only_flushes.

Example C07_nonvacuous_abandon :
  map (fun o => (o_sent o, o_init o))
      (outs step init (CompleteInitiator 7 ++ [Tick (20 * sec); Initiate false; Abandon; Tick (101 * sec); Send; Tick (5 * sec); Keepalive])) =
    [([], true); ([0], false); ([], false); ([], true); ([], false); ([], false); ([0], true); ([], false); ([0], true)].
Proof. vm_compute. reflexivity. Qed.

(* The first message accepted under next promotes it: next -> current -> previous, old previous dropped. *)
Theorem C07_confirmation_promotes : forall evs n,
  let s := R evs in
  next s = Some n -> now s + 1 - created n <= reject_after_time ->
  let s' := fst (step s (Recv (id n))) in
  let o := snd (step s (Recv (id n))) in
  o_acc o = true /\ o_tun o = true /\ cur s' = Some n /\ prev s' = cur s /\ next s' = None /\
  (forall p, prev s = Some p -> honoured s' (lidx p) = false).
Proof. exact confirmation_promotes. Qed.
Print Assumptions C07_confirmation_promotes.

(* No key is used once 180 s have passed since it was created. *)
Theorem C07_no_use_after_180s_send : forall evs e x,
  let s := R evs in
  In x (o_sent (snd (step s e))) ->
  exists k, cur (fst (step s e)) = Some k /\ id k = x /\ now (fst (step s e)) - created k < reject_after_time.
Proof. exact no_use_after_180s_send. Qed.
Print Assumptions C07_no_use_after_180s_send.

Theorem C07_no_use_after_180s_recv : forall evs sid,
  let s := R evs in
  o_acc (snd (step s (Recv sid))) = true ->
  exists k, In k (keys s) /\ id k = sid /\ now s + 1 - created k <= reject_after_time.
Proof. exact no_use_after_180s_recv. Qed.
Print Assumptions C07_no_use_after_180s_recv.

Theorem C07_expired_key_refused : forall evs k,
  let s := R evs in
  In k (keys s) -> reject_after_time < now s + 1 - created k ->
  step s (Recv (id k)) = (set_now s (now s + 1), out0).
Proof. exact expired_key_refused. Qed.
Print Assumptions C07_expired_key_refused.

(* Sending -- a data packet from the TUN or a keepalive-only transmission (is_send e) -- under a live
   current key: everything staged goes out under it, and a handshake is started exactly when the key is
   initiator-made, older than 120 s, and the 5 s spacing allows. *)
Theorem C07_initiator_rekeys_after_120_send : forall evs k e,
  let s := R evs in
  is_send e ->
  cur s = Some k -> now s + 1 - created k < reject_after_time ->
  let s' := fst (step s e) in
  let o := snd (step s e) in
  o_sent o = repeat (id k) (N.to_nat (pending s e)) /\
  o_init o = (initiator k && (rekey_after_time <? now s + 1 - created k)) && negb (rate_limited (set_now s (now s + 1))) /\
  (o_init o = true -> hs s' = Some (nidx s) /\ honoured s' (nidx s) = true).
Proof. exact initiator_rekeys_after_120_send. Qed.
Print Assumptions C07_initiator_rekeys_after_120_send.

Theorem C07_send_kinds : is_send Send /\ is_send Keepalive /\
  forall s, pending s Send = staged s + 1 /\ pending s Keepalive = (if staged s =? 0 then 1 else staged s).
Proof. repeat split; [left|right]; reflexivity. Qed.
Print Assumptions C07_send_kinds.

(* Receiving while the current key is initiator-made: past 165 s a handshake is started, once
   (latch), if the spacing allows; before 165 s or with the latch set, none. *)
Theorem C07_initiator_rekeys_after_165_recv : forall evs sid k,
  let s := R evs in
  let s' := fst (step s (Recv sid)) in
  let o := snd (step s (Recv sid)) in
  o_acc o = true -> cur s' = Some k -> initiator k = true ->
  cur s = Some k /\
  (rekey_recv_time < now s + 1 - created k -> latch s = false ->
     o_init o = negb (rate_limited (set_now s (now s + 1))) /\ latch s' = true /\
     (o_init o = true -> hs s' = Some (nidx s))) /\
  (now s + 1 - created k <= rekey_recv_time \/ latch s = true -> o_init o = false).
Proof. exact initiator_rekeys_after_165_recv. Qed.
Print Assumptions C07_initiator_rekeys_after_165_recv.

(* ... and only the initiator: with a live responder-made current key neither sending nor
   receiving starts a handshake. *)
Theorem C07_responder_does_not_rekey : forall evs k,
  let s := R evs in
  cur s = Some k -> initiator k = false -> now s + 1 - created k < reject_after_time ->
  (forall e, is_send e -> o_init (snd (step s e)) = false) /\
  (forall sid, cur (fst (step s (Recv sid))) = Some k -> o_init (snd (step s (Recv sid))) = false).
Proof. exact responder_does_not_rekey. Qed.
Print Assumptions C07_responder_does_not_rekey.

(* With no current key, or one of 180 s or more, nothing is sent; the packet stays staged and a
   handshake is started (subject to the 5 s spacing). *)
Theorem C07_expired_current_forces_handshake : forall evs e,
  let s := R evs in
  is_send e ->
  (cur s = None \/ exists k, cur s = Some k /\ reject_after_time <= now s + 1 - created k) ->
  let s' := fst (step s e) in
  let o := snd (step s e) in
  o_sent o = [] /\ staged s' = pending s e /\
  o_init o = negb (rate_limited (set_now s (now s + 1))) /\
  (o_init o = true -> hs s' = Some (nidx s) /\ honoured s' (nidx s) = true).
Proof. exact expired_current_forces_handshake. Qed.
Print Assumptions C07_expired_current_forces_handshake.

(* While a key waits in next there is no previous key (so ReceivedWithKeypair's deletion of the
   old previous has nothing to delete in a sequential history: previous and next are never
   occupied together, the peer holds at most two keys at any time). *)
Theorem C07_next_excludes_previous : forall evs, next (R evs) <> None -> prev (R evs) = None.
Proof. exact next_excludes_previous. Qed.
Print Assumptions C07_next_excludes_previous.

Theorem C07_at_most_two_at_once : forall evs, (length (keys (R evs)) <= 2)%nat.
Proof. exact at_most_two_at_once. Qed.
Print Assumptions C07_at_most_two_at_once.

(* The executable property [holdsb] (Keypairs/Spec.v, the one evaluated on the device's observed
   traces) accepts the model's own behaviour on EVERY event list in which time moves in whole seconds
   (the harness's discipline; [holdsb] sees ages in whole seconds and cannot tell 180 s - 1 ns from
   179 s, see C07_boundary_180 below) and that has fewer than 10^9 - 1 events (every event takes 1 ns).
   Proved in Keypairs/SpecProofs.v by induction over the trace with an explicit relation between the
   model state and the checker's bookkeeping (session map, spacing, latch, confirmed keys, sub-second
   part of every age).  Hence: whenever the device agrees with the model (kind-1 comparison), the
   property check cannot raise a false alarm, and every clause of [holdsb] is a theorem of the model. *)
Theorem C07_model_satisfies_spec : forall evs,
  (forall d, In (Tick d) evs -> d mod sec = 0) -> N.of_nat (length evs) + 1 < sec ->
  holdsb (model_trace init evs) = true.
Proof. exact model_satisfies_spec. Qed.
Print Assumptions C07_model_satisfies_spec.

(* a key of exactly 180 s is no longer used for sending (>=) although it is still 179.99.. s old
   one nanosecond earlier: a trace with a tick that is not a whole number of seconds *)
Example C07_boundary_180 :
  let evs := CompleteInitiator 7 ++ [Tick (180 * sec - 2); Send] in
  map (fun o => (o_sent o, o_init o)) (outs step init evs) =
    [([], true); ([0], false); ([], false); ([], true)] /\
  holdsb (model_trace init evs) = false /\
  holdsb (model_trace init (CompleteInitiator 7 ++ [Tick (180 * sec); Send])) = true /\
  holdsb (model_trace init (CompleteInitiator 7 ++ [Tick (179 * sec); Send])) = true.
Proof. vm_compute. repeat split; reflexivity. Qed.

(* redundant with the theorem above; kept as an evaluated cross-check of the explorer used by the thorough tier *)
Theorem C07_model_satisfies_spec_depth4 : explore alphabet7 4 init sst0 = Some 16105.
Proof. vm_compute. reflexivity. Qed.
Print Assumptions C07_model_satisfies_spec_depth4.

Theorem C07_model_satisfies_spec_full_depth3 : explore alphabet_full 3 init sst0 = Some 6175.
Proof. vm_compute. reflexivity. Qed.
Print Assumptions C07_model_satisfies_spec_full_depth3.

(* Non-vacuity: a history that fills all three slots, confirms, ages keys past every limit. *)
Definition demo : list event :=
  CompleteInitiator 100 ++ [Send; Tick (121 * sec); Send] ++ [Respond 0 101] ++
  [CompleteResponder 102; Send; Recv 2; Send; Recv 0; Recv 1; Tick (166 * sec); Recv 1;
   Tick (15 * sec); Send; Recv 2; Recv 1].

Example C07_nonvacuous_outputs :
  map (fun o => (o_acc o, o_sent o, o_init o, o_tun o)) (outs step init demo) =
  [ (false, [], true, false);        (* forced initiation *)
    (true, [0], false, false);       (* completed as initiator: keepalive under key 0 *)
    (false, [0], false, false);      (* data under key 0 *)
    (false, [], false, false);
    (false, [0], true, false);       (* 121 s: sent under key 0 and re-key started *)
    (true, [1], false, false);       (* completed again: key 1 current, key 0 previous *)
    (true, [], false, false);        (* completed as responder: key 2 in next, nothing sent under it *)
    (false, [1], false, false);      (* still sending under key 1 *)
    (true, [], false, true);         (* data under next: confirmed *)
    (false, [2], false, false);      (* now sending under key 2 *)
    (false, [], false, false);       (* key 0 was rotated out: refused *)
    (true, [], false, true);         (* key 1 is previous: accepted *)
    (false, [], false, false);
    (true, [], false, true);         (* 166 s, current key 2 is responder-made: no re-key *)
    (false, [], false, false);
    (false, [], true, false);        (* 181 s: nothing sent, handshake instead *)
    (false, [], false, false);       (* 181 s: refused on receive *)
    (false, [], false, false) ].
Proof. vm_compute. reflexivity. Qed.

Example C07_nonvacuous_three_slots :
  let s := final step init (CompleteInitiator 100 ++ CompleteInitiator 101 ++ [CompleteResponder 102]) in
  map id (keys s) = [1; 2] /\ prev s = None /\
  let s2 := final step init (CompleteInitiator 100 ++ [CompleteResponder 101; Recv 1; CompleteResponder 102]) in
  map id (keys s2) = [1; 2] /\
  let s3 := final step init (CompleteInitiator 100 ++ [CompleteResponder 101] ++ CompleteInitiator 102) in
  map id (keys s3) = [1; 2] /\ map initiator (keys s3) = [false; true] /\ honoured s3 0 = false.
Proof. vm_compute. repeat split; reflexivity. Qed.

(* receive-side re-key at 166 s by the initiator, once *)
Example C07_nonvacuous_165 :
  map o_init (outs step init (CompleteInitiator 100 ++ [Tick (164 * sec); Recv 0; Tick (2 * sec); Recv 0; Tick (6 * sec); Recv 0]))
  = [true; false; false; false; false; true; false; false].
Proof. vm_compute. reflexivity. Qed.

(* forged messages under next / current / a retired key and a replay: nothing happens; the staged
   packet goes out only after the authentic message *)
Example C07_nonvacuous_forged :
  map (fun o => (o_acc o, o_sent o, o_tun o))
      (outs step init [CompleteResponder 7; Send; Forged 0; Send; Recv 0; Replay 0; Forged 0; Send]) =
  [(true, [], false); (false, [], false); (false, [], false); (false, [], false);
   (true, [0; 0], true); (false, [], false); (false, [], false); (false, [0], false)].
Proof. vm_compute. reflexivity. Qed.

(* restart with an unconfirmed key in next, a current key and a pending handshake: all gone *)
Example C07_nonvacuous_restart :
  let evs := CompleteInitiator 7 ++ [CompleteResponder 8; Send; Initiate true; Restart] in
  map id (keys (final step init evs)) = [] /\
  map id (keys (final step init (removelast evs))) = [0; 1] /\
  table (final step init evs) = [] /\ length (table (final step init (removelast evs))) = 3%nat /\
  map (fun o => (o_acc o, o_tun o)) (outs step (final step init evs) [Recv 0; Recv 1; Respond 0 9; Send]) =
    [(false, false); (false, false); (false, false); (false, false)].
Proof. vm_compute. repeat split; reflexivity. Qed.

(* keepalive-only sends: the initiator re-keys after 120 s, the responder does not *)
Example C07_nonvacuous_keepalive :
  map (fun o => (o_sent o, o_init o))
      (outs step init (CompleteInitiator 7 ++ [Keepalive; Tick (121 * sec); Keepalive; Keepalive])) =
    [([], true); ([0], false); ([0], false); ([], false); ([0], true); ([0], false)] /\
  map (fun o => (o_sent o, o_init o))
      (outs step init [CompleteResponder 7; Keepalive; Recv 0; Tick (121 * sec); Keepalive; Tick (60 * sec); Keepalive]) =
    [([], false); ([], false); ([0], false); ([], false); ([0], false); ([], false); ([], true)].
Proof. vm_compute. split; reflexivity. Qed.

Example C07_nonvacuous_spec_rejects :
  (* the checker is not vacuous: a trace in which data is sent under the unconfirmed key is rejected *)
  let tr := model_trace init [CompleteResponder 7; Send] in
  holdsb tr = true /\
  holdsb (map (fun ea => match fst ea with
                         | Send => (Send, mkObs [0] None false false (ob_prev (snd ea)) (ob_next (snd ea)) None
                                               (ob_table (snd ea)) (ob_hs (snd ea)) false 0 (ob_last (snd ea)))
                         | _ => ea end) tr) = false.
Proof. vm_compute. split; reflexivity. Qed.

(* The response-processing window (RoutineHandshake: ConsumeMessageResponse ... BeginSymmetricSession): whatever
   event [pre] (a data message under the old key, a timer's SendHandshakeInitiation) is handled inside it, a
   session that begins is a fresh one: new initiator key current, nothing unconfirmed, no handshake pending and
   the receive-side re-key latch CLEAR -- and the state is the one reached by handling [pre] first, so every
   theorem above (in particular C07_initiator_rekeys_after_165_recv) speaks about what follows. *)
Theorem C07_window_completion_starts_fresh : forall evs pre k r,
  let s := R evs in
  let s' := fst (step_window s pre k r) in
  o_acc (snd (step_window s pre k r)) = true ->
  latch s' = false /\ next s' = None /\ hs s' = None /\
  (exists c, cur s' = Some c /\ initiator c = true /\ ridx c = r /\ id c = nsess (fst (step s pre))) /\
  exists k', s' = R (evs ++ [pre; Respond k' r]).
Proof. exact window_completion_starts_fresh. Qed.
Print Assumptions C07_window_completion_starts_fresh.

(* non-vacuity: an initiator re-keying at 166 s receives data under the old key inside the window (the latch is
   set there, the initiation is suppressed by the 5 s spacing); the session begins, the latch is clear, and 166 s
   later a receive under the NEW key starts a handshake.  A timer-forced initiation inside the window voids the
   consumed response instead. *)
Example C07_nonvacuous_window :
  let s := final step init (CompleteInitiator 7 ++ [Tick (166 * sec); Initiate true]) in
  let w := step_window s (Recv 0) 0 8 in
  latch (fst (step s (Recv 0))) = true /\ o_init (snd (step s (Recv 0))) = false /\
  o_acc (snd w) = true /\ o_tun (snd w) = true /\ latch (fst w) = false /\
  map o_init (outs step (fst w) [Tick (166 * sec); Recv 1]) = [false; true] /\
  o_acc (snd (step_window s (Initiate true) 0 8)) = false /\ o_init (snd (step_window s (Initiate true) 0 8)) = true.
Proof. vm_compute. repeat split; reflexivity. Qed.

(* THE TIE TO THE SOURCE for the two rekey decisions (translator
   harness/cmd/kkfast, rerun on every check): Gen.FreshAst.kkf_sending_body /
   kkf_receiving_body are the bodies of Peer.keepKeyFreshSending (send.go) and
   Peer.keepKeyFreshReceiving (receive.go) as terms of the deep-embedded
   language of Keypairs/FreshAst.v; inputs: whether a current keypair exists,
   its counter, its role, its age in ns, the flag sentLastMinuteHandshake;
   outputs: the calls of SendHandshakeInitiation and the new flag.  Constants
   are evaluated by the translator from device/constants.go and proved equal
   to the compiler's values (FreshAstProofs.consts_agree).  For ALL inputs: *)
Theorem C07_source_rekey_after_send : forall i fl,
  (Keypairs.FreshAst.run Gen.FreshAst.kkf_sending_body i fl = Some ([false], fl) <->
   Keypairs.FreshAst.has_key i = true /\
   (Keypairs.FreshAst.nonce i > 2 ^ 60 \/
    (Keypairs.FreshAst.is_init i = true /\ Keypairs.FreshAst.age i > 120 * 10 ^ 9)))%Z /\
  (Keypairs.FreshAst.run Gen.FreshAst.kkf_sending_body i fl = Some ([false], fl) \/
   Keypairs.FreshAst.run Gen.FreshAst.kkf_sending_body i fl = Some ([], fl)).
Proof. exact Keypairs.FreshAstProofs.kkf_send. Qed.
Print Assumptions C07_source_rekey_after_send.

Theorem C07_source_rekey_after_receive : forall i fl,
  Keypairs.FreshAst.run Gen.FreshAst.kkf_receiving_body i fl = Some ([false], true) <->
  (Keypairs.FreshAst.has_key i = true /\ fl = false /\ Keypairs.FreshAst.is_init i = true /\
   Keypairs.FreshAst.age i > 165 * 10 ^ 9)%Z.
Proof. exact Keypairs.FreshAstProofs.kkf_recv. Qed.
Print Assumptions C07_source_rekey_after_receive.

Theorem C07_source_receive_is_the_model : forall s n,
  Model.keep_key_fresh_receiving s =
  match Keypairs.FreshAst.run Gen.FreshAst.kkf_receiving_body (Keypairs.FreshAstProofs.inp_of s n) (latch s) with
  | Some ([false], fl) => send_initiation (set_latch s fl)
  | Some ([], _) => (s, false)
  | _ => (s, false)
  end /\
  (forall c fl, Keypairs.FreshAst.run Gen.FreshAst.kkf_receiving_body (Keypairs.FreshAstProofs.inp_of s n) (latch s) = Some (c, fl) ->
                (c = [false] /\ fl = true) \/ (c = [] /\ fl = latch s)).
Proof. exact Keypairs.FreshAstProofs.kkf_recv_model. Qed.
Print Assumptions C07_source_receive_is_the_model.
