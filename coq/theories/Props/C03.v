(* Property C03 — the handshake is wire-compatible Noise_IKpsk2 and mutually
   authenticating.  Only statements, closed by `exact`, with Print Assumptions.

   Cryptography is symbolic (Sym/Term.v, an ordinary inductive type): that
   equal terms <=> equal bytes holds of X25519 / BLAKE2s / ChaCha20-Poly1305
   as implemented by golang.org/x/crypto is an assumption of the trusted base
   (DESIGN.md section 6), NOT an axiom here.  Noise/Model.v mirrors the Go
   code; Noise/Paper.v is the white-paper's section 5.4 (the specification);
   the tie of both to the running device is the co-simulation against package
   ref (Noise/Check.v, harness/cmd/c03). *)
From WG Require Import Base.Prelude Gen.Constants Sym.Term Noise.Msg Noise.Model Noise.Paper Noise.Proofs Noise.Inv Wire.Codec.
Local Open Scope N_scope.

(* The numbers the property text names, as the code has them now. *)
Theorem C03_constants :
  MessageInitiationSize = 148 /\ MessageResponseSize = 92 /\ MessageCookieReplySize = 64 /\
  MessageInitiationType = 1 /\ MessageResponseType = 2 /\ MessageCookieReplyType = 3 /\ MessageTransportType = 4 /\
  MessageInitiationType = Paper.type_initiation /\ MessageResponseType = Paper.type_response /\
  MessageTransportHeaderSize = 16 /\ MessageTransportSize = 32 /\ CookieRefreshTimeSecs = 120 /\
  N.of_nat (8 + NoisePublicKeySize + StaticFieldSize + TimestampFieldSize + Mac128Size + Mac128Size) = MessageInitiationSize /\
  N.of_nat (12 + NoisePublicKeySize + TagSize + Mac128Size + Mac128Size) = MessageResponseSize /\
  N.of_nat (8 + NonceSizeX + CookieFieldSize) = MessageCookieReplySize.
Proof. repeat split; reflexivity. Qed.
Print Assumptions C03_constants.

(* ---- the device model emits exactly the paper's messages ---------------- *)

(* CreateMessageInitiation + AddMacs = white-paper 5.4.2 + 5.4.4, for all keys,
   ephemerals, timestamps, indices and any previous handshake state. *)
Theorem C03_create_initiation_is_paper : forall (sdev : kid) (h : hs) (e : kid) (ts idx : N),
  ss h = dhn sdev (rstatic h) ->
  exists h' m s,
    create_init sdev h e ts idx = Some (h', m) /\
    Paper.initiation sdev e (TPub (rstatic h)) ts idx = Some (s, stamp_init (TPub (rstatic h)) None m) /\
    hash h' = H s /\ ck h' = C s /\ st h' = handshakeInitiationCreated /\
    leph h' = e /\ lidx h' = idx /\ psk h' = psk h /\ rstatic h' = rstatic h.
Proof. exact create_initiation_is_paper. Qed.
Print Assumptions C03_create_initiation_is_paper.

(* CreateMessageResponse + AddMacs = white-paper 5.4.3 + 5.4.4, from any state
   that holds the paper's (C, H) after an initiation. *)
Theorem C03_create_response_is_paper : forall (h : hs) (s : sym) (e : kid) (idx : N) (Ei_pub : term),
  st h = handshakeInitiationConsumed -> hash h = H s -> ck h = C s -> reph h = Ei_pub ->
  match create_resp h e idx with
  | Some (h', r) =>
      exists s', Paper.response s e Ei_pub (TPub (rstatic h)) (psk h) idx (ridx h)
                   = Some (s', stamp_resp (TPub (rstatic h)) None r) /\
        hash h' = H s' /\ ck h' = C s' /\ st h' = handshakeResponseCreated /\
        lidx h' = idx /\ ridx h' = ridx h
  | None => Paper.response s e Ei_pub (TPub (rstatic h)) (psk h) idx (ridx h) = None
  end.
Proof. exact create_response_is_paper. Qed.
Print Assumptions C03_create_response_is_paper.

(* ConsumeMessageInitiation accepts what the paper's responder accepts (known
   keys = the peer table), newer timestamp, flood gap passed; same (C, H). *)
Theorem C03_consume_initiation_is_paper : forall sdev peers flood m,
  peers_ok sdev peers ->
  match consume_init sdev peers flood m with
  | Some (pid, h') =>
      exists s ts h, Paper.consume_initiation sdev (known_in peers) m = Some (s, TPub pid, ts) /\
        In (pid, h) peers /\ lastTs h < ts /\ flood = false /\
        hash h' = H s /\ ck h' = C s /\ st h' = handshakeInitiationConsumed /\
        reph h' = i_eph m /\ ridx h' = i_sender m /\ psk h' = psk h /\ rstatic h' = pid /\ lastTs h' = ts
  | None =>
      match Paper.consume_initiation sdev (known_in peers) m with
      | None => True
      | Some (s, pk, ts) => exists pid h, pk = TPub pid /\ In (pid, h) peers /\ (ts <= lastTs h \/ flood = true)
      end
  end.
Proof. exact consume_initiation_is_paper. Qed.
Print Assumptions C03_consume_initiation_is_paper.

(* ConsumeMessageResponse accepts exactly what the paper's initiator accepts. *)
Theorem C03_consume_response_is_paper : forall sdev h s m,
  st h = handshakeInitiationCreated -> hash h = H s -> ck h = C s ->
  match consume_resp sdev h m, Paper.consume_response sdev (leph h) s (psk h) m with
  | Some h', Some s' => hash h' = H s' /\ ck h' = C s' /\ st h' = handshakeResponseConsumed /\
                        ridx h' = r_sender m /\ lidx h' = lidx h
  | None, None => True
  | _, _ => False
  end.
Proof. exact consume_response_is_paper. Qed.
Print Assumptions C03_consume_response_is_paper.

(* BeginSymmetricSession = white-paper 5.4.5, keys in the paper's direction. *)
Theorem C03_begin_session_is_paper : forall h s,
  ck h = C s ->
  (st h = handshakeResponseConsumed ->
     exists k, derive_keypair h = Some k /\ (kp_send k, kp_recv k) = Paper.initiator_keys s /\ kp_init k = true /\
               kp_lidx k = lidx h /\ kp_ridx k = ridx h) /\
  (st h = handshakeResponseCreated ->
     exists k, derive_keypair h = Some k /\ (kp_send k, kp_recv k) = Paper.responder_keys s /\ kp_init k = false /\
               kp_lidx k = lidx h /\ kp_ridx k = ridx h) /\
  (st h <> handshakeResponseConsumed -> st h <> handshakeResponseCreated -> derive_keypair h = None).
Proof. exact begin_session_is_paper. Qed.
Print Assumptions C03_begin_session_is_paper.

(* ---- a handshake completes with mirrored keys, both role assignments ------ *)

(* device = initiator, any paper party holding S_R (which knows the device's key) = responder:
   for ALL static / ephemeral keys, preshared key, timestamp, indices. *)
Theorem C03_handshake_completes_mirrored_device_initiator :
  forall (sdev sR eI eR : kid) (p : term) (ts idxI idxR : N) (known : term -> bool),
  known (TPub sdev) = true ->
  exists hI1 m1 s1 s2 m2 hI2 k,
    create_init sdev (new_handshake (Some sdev) sR p) eI ts idxI = Some (hI1, m1) /\
    (let m1' := stamp_init (TPub sR) None m1 in
     Paper.mac1_valid (TPub sR) (init_body m1') (i_mac1 m1') = true /\ i_mac2 m1' = TZero /\
     Paper.consume_initiation sR known m1' = Some (s1, TPub sdev, ts)) /\
    Paper.response s1 eR (i_eph m1) (TPub sdev) p idxR (i_sender m1) = Some (s2, m2) /\
    check_mac1 sdev (resp_body m2) (r_mac1 m2) = true /\
    consume_resp sdev hI1 m2 = Some hI2 /\
    derive_keypair hI2 = Some k /\
    kp_send k = snd (Paper.responder_keys s2) /\ kp_recv k = fst (Paper.responder_keys s2) /\
    kp_init k = true /\ kp_lidx k = idxI /\ kp_ridx k = idxR /\ r_receiver m2 = idxI.
Proof. exact handshake_completes_mirrored_device_initiator. Qed.
Print Assumptions C03_handshake_completes_mirrored_device_initiator.

(* paper party = initiator, device = responder. *)
Theorem C03_handshake_completes_mirrored_device_responder :
  forall (sdev sI eI eR : kid) (p : term) (ts idxI idxR : N),
  0 < ts ->
  exists s1 m1 h1 h2 m2 s2 k,
    Paper.initiation sI eI (TPub sdev) ts idxI = Some (s1, m1) /\
    check_mac1 sdev (init_body m1) (i_mac1 m1) = true /\
    consume_init sdev (one_peer sdev sI p) false m1 = Some (sI, h1) /\
    create_resp h1 eR idxR = Some (h2, m2) /\
    (let m2' := stamp_resp (TPub sI) None m2 in
     Paper.mac1_valid (TPub sI) (resp_body m2') (r_mac1 m2') = true /\ r_mac2 m2' = TZero /\
     r_receiver m2' = idxI /\
     Paper.consume_response sI eI s1 p m2' = Some s2) /\
    derive_keypair h2 = Some k /\
    fst (Paper.initiator_keys s2) = kp_recv k /\ snd (Paper.initiator_keys s2) = kp_send k /\
    kp_init k = false /\ kp_lidx k = idxR /\ kp_ridx k = idxI.
Proof. exact handshake_completes_mirrored_device_responder. Qed.
Print Assumptions C03_handshake_completes_mirrored_device_responder.

(* what one side seals under its send key the other opens under its receive key *)
Theorem C03_mirrored_keys_open : forall (k : term) (n : N) (P : term),
  aead_open k n (Paper.transport k n P) TEmpty = Some P.
Proof. intros. apply aead_open_seal. Qed.
Print Assumptions C03_mirrored_keys_open.

(* ---- sizes, layout, MAC1, MAC2 ------------------------------------------- *)

Theorem C03_sizes : forall mi mr mc,
  wf_init mi -> wf_resp mr -> wf_cookie mc ->
  N.of_nat (length (encode_init mi)) = 148 /\ N.of_nat (length (encode_resp mr)) = 92 /\
  N.of_nat (length (encode_cookie mc)) = 64.
Proof. intros mi mr mc Hi Hr Hc. split; [exact (init_size mi Hi)|]. split; [exact (resp_size mr Hr)|exact (cookie_size mc Hc)]. Qed.
Print Assumptions C03_sizes.

Theorem C03_decode_encode :
  (forall m, wf_init m -> decode_init (encode_init m) = Some m) /\
  (forall m, wf_resp m -> decode_resp (encode_resp m) = Some m) /\
  (forall m, wf_cookie m -> decode_cookie (encode_cookie m) = Some m) /\
  (forall m, wf_transport m -> decode_transport (encode_transport m) = Some m).
Proof.
  split; [exact decode_encode_init|]. split; [exact decode_encode_resp|].
  split; [exact decode_encode_cookie|exact decode_encode_transport].
Qed.
Print Assumptions C03_decode_encode.

(* MAC1 sits at size-32, MAC2 at size-16, MAC1 covers exactly the fields before it *)
Theorem C03_mac1_position :
  (forall m, wf_init m ->
     slice (encode_init m) (N.to_nat MessageInitiationSize - 32) 16 = wi_mac1 m /\
     slice (encode_init m) (N.to_nat MessageInitiationSize - 16) 16 = wi_mac2 m /\
     firstn (N.to_nat MessageInitiationSize - 32) (encode_init m)
       = concat [le32 (wi_type m); le32 (wi_sender m); wi_eph m; wi_static m; wi_ts m]) /\
  (forall m, wf_resp m ->
     slice (encode_resp m) (N.to_nat MessageResponseSize - 32) 16 = wr_mac1 m /\
     slice (encode_resp m) (N.to_nat MessageResponseSize - 16) 16 = wr_mac2 m /\
     firstn (N.to_nat MessageResponseSize - 32) (encode_resp m)
       = concat [le32 (wr_type m); le32 (wr_sender m); le32 (wr_receiver m); wr_eph m; wr_empty m]).
Proof. split; [exact mac1_position_init|exact mac1_position_resp]. Qed.
Print Assumptions C03_mac1_position.

(* MAC1 = Mac(Hash("mac1----" || S_peer), fields before it); MAC2 = 0 without a cookie;
   the receiver's CheckMAC1 accepts exactly that MAC1 *)
Theorem C03_mac1_and_mac2 : forall peer_pk body,
  fst (add_macs peer_pk None body) = TMac (THash2 LabelMac1 peer_pk) body /\
  snd (add_macs peer_pk None body) = TZero /\
  (forall sdev m1, check_mac1 sdev body m1 = true <-> m1 = fst (add_macs (TPub sdev) None body)).
Proof.
  intros. split; [reflexivity|]. split; [exact (mac2_zero_without_cookie peer_pk body)|].
  intros. apply mac1_checked_by_receiver.
Qed.
Print Assumptions C03_mac1_and_mac2.

Theorem C03_mac2_zero_on_wire :
  (forall m, wf_init m -> wi_mac2 m = zeros Mac128Size ->
     all_zero (slice (encode_init m) (N.to_nat MessageInitiationSize - 16) 16) = true) /\
  (forall m, wf_resp m -> wr_mac2 m = zeros Mac128Size ->
     all_zero (slice (encode_resp m) (N.to_nat MessageResponseSize - 16) 16) = true).
Proof. split; [exact mac2_zero_on_wire_init|exact mac2_zero_on_wire_resp]. Qed.
Print Assumptions C03_mac2_zero_on_wire.

(* ---- negative results, in the symbolic algebra ----------------------------- *)

(* responder: static key not in the peer map => rejected ... *)
Theorem C03_unknown_static_rejected : forall sdev peers flood (sI eI : kid) ts idx s m,
  (forall h, ~ In (sI, h) peers) ->
  Paper.initiation sI eI (TPub sdev) ts idx = Some (s, m) ->
  consume_init sdev peers flood m = None.
Proof. exact unknown_static_rejected. Qed.
Print Assumptions C03_unknown_static_rejected.

(* ... and the device state is unchanged and nothing is sent *)
Theorem C03_unknown_static_state_unchanged : forall d (sI eI : kid) ts idx s m er ir,
  (forall h, ~ In (sI, h) (hs_list d)) ->
  Paper.initiation sI eI (TPub (d_static d)) ts idx = Some (s, m) ->
  dev_step d (EInit m er ir) = (d, []).
Proof. exact unknown_static_state_unchanged. Qed.
Print Assumptions C03_unknown_static_state_unchanged.

(* an initiation built for another responder key is rejected, whatever its MACs *)
Theorem C03_wrong_responder_key_rejected : forall sdev peers flood (sI eI s' : kid) ts idx s m mac1 mac2,
  s' <> sdev ->
  Paper.initiation sI eI (TPub s') ts idx = Some (s, m) ->
  consume_init sdev peers flood
    {| i_type := i_type m; i_sender := i_sender m; i_eph := i_eph m; i_static := i_static m;
       i_ts := i_ts m; i_mac1 := mac1; i_mac2 := mac2 |} = None.
Proof. exact wrong_responder_key_rejected. Qed.
Print Assumptions C03_wrong_responder_key_rejected.

(* preshared keys differ, device initiator: response rejected, no keypair *)
Theorem C03_psk_mismatch_no_session_initiator :
  forall (sdev sR eI eR : kid) (p q : term) (ts idxI idxR : N) (known : term -> bool) hI1 m1 s1 s2 m2,
  p <> q ->
  create_init sdev (new_handshake (Some sdev) sR p) eI ts idxI = Some (hI1, m1) ->
  Paper.consume_initiation sR known (stamp_init (TPub sR) None m1) = Some (s1, TPub sdev, ts) ->
  Paper.response s1 eR (i_eph m1) (TPub sdev) q idxR (i_sender m1) = Some (s2, m2) ->
  consume_resp sdev hI1 m2 = None /\ derive_keypair hI1 = None.
Proof. exact psk_mismatch_initiator_rejects. Qed.
Print Assumptions C03_psk_mismatch_no_session_initiator.

(* preshared keys differ, device responder: the initiator rejects the response,
   and nothing it could seal with the keys its psk gives opens under the
   device's unconfirmed key (nor the reverse) *)
Theorem C03_psk_mismatch_no_session_responder :
  forall (sdev sI eI eR : kid) (p q : term) (ts idxI idxR : N) s1 m1 h1 h2 m2 k,
  p <> q ->
  Paper.initiation sI eI (TPub sdev) ts idxI = Some (s1, m1) ->
  consume_init sdev (one_peer sdev sI p) false m1 = Some (sI, h1) ->
  create_resp h1 eR idxR = Some (h2, m2) ->
  derive_keypair h2 = Some k ->
  Paper.consume_response sI eI s1 q (stamp_resp (TPub sI) None m2) = None /\
  (forall s2, Paper.consume_response_unchecked sI eI s1 q (stamp_resp (TPub sI) None m2) = Some s2 ->
     forall n n' P, aead_open (kp_recv k) n (Paper.transport (fst (Paper.initiator_keys s2)) n' P) TEmpty = None /\
                    aead_open (snd (Paper.initiator_keys s2)) n (Paper.transport (kp_send k) n' P) TEmpty = None).
Proof. exact psk_mismatch_responder_never_confirmed. Qed.
Print Assumptions C03_psk_mismatch_no_session_responder.

(* no session with a stranger, responder side: every accepted initiation IS the
   paper's initiation of a configured peer addressed to the device's true key *)
Theorem C03_no_session_with_stranger_responder : forall sdev peers flood m pid h',
  peers_ok sdev peers ->
  consume_init sdev peers flood m = Some (pid, h') ->
  exists e ts s pm h,
    In (pid, h) peers /\ i_eph m = TPub e /\
    Paper.initiation pid e (TPub sdev) ts (i_sender m) = Some (s, pm) /\
    i_type m = i_type pm /\ i_eph m = i_eph pm /\ i_static m = i_static pm /\ i_ts m = i_ts pm /\
    hash h' = H s /\ ck h' = C s.
Proof. exact accepted_initiation_is_from_configured_peer. Qed.
Print Assumptions C03_no_session_with_stranger_responder.

(* initiator side: every accepted response IS the paper's response to this very
   initiation, with the device's own preshared key for that peer *)
Theorem C03_no_session_with_stranger_initiator : forall sdev h s m h',
  st h = handshakeInitiationCreated -> hash h = H s -> ck h = C s ->
  consume_resp sdev h m = Some h' ->
  exists eR s' pm,
    r_eph m = TPub eR /\
    Paper.response s eR (TPub (leph h)) (TPub sdev) (psk h) (r_sender m) (r_receiver m) = Some (s', pm) /\
    r_type m = r_type pm /\ r_eph m = r_eph pm /\ r_empty m = r_empty pm /\
    hash h' = H s' /\ ck h' = C s'.
Proof. exact accepted_response_is_from_addressed_peer. Qed.
Print Assumptions C03_no_session_with_stranger_initiator.

(* every keypair of every peer, after ANY sequence of events, has the keys of
   the paper's section 5.4.5 for an exchange with THAT configured peer, the
   device's true key and the device's preshared key for that peer *)
Theorem C03_no_session_with_stranger : forall (d : dev) (evs : list ev),
  dev_ok d -> dev_ok (final dev_step d evs).
Proof. exact no_session_with_stranger. Qed.
Print Assumptions C03_no_session_with_stranger.

(* Restarts keep the configuration: after ANY sequence of events -- including
   Down/Up cycles, which stop and start every peer (Handshake.Clear), and cookie
   replies -- the preshared key, remote static key and static-static secret a
   peer's handshake functions use are the configured ones.  So the keypair
   invariant above, and with it psk_mismatch_no_session, speak about the
   CONFIGURED preshared key also after restarts. *)
Theorem C03_restart_keeps_psk_and_identity : forall (d : dev) (evs : list ev) (k : kid),
  NoDup (ids d) -> view (final dev_step d evs) k = view d k.
Proof. exact restart_keeps_psk_and_identity. Qed.
Print Assumptions C03_restart_keeps_psk_and_identity.

Theorem C03_psk_is_configured : forall (d : dev) (evs : list ev) (p : peer),
  NoDup (ids d) -> In p (d_peers (final dev_step d evs)) ->
  exists p0, In p0 (d_peers d) /\ p_id p0 = p_id p /\ psk (p_hs p) = psk (p_hs p0) /\
             rstatic (p_hs p) = rstatic (p_hs p0).
Proof. exact psk_is_configured. Qed.
Print Assumptions C03_psk_is_configured.

(* The cached static-static secret follows the identity: after ANY history incl.
   private-key changes (SetPrivateKey), restarts, handshakes and cookie replies,
   every peer's precomputedStaticStatic is DH(the device's CURRENT static key,
   that peer's static key) and remoteStatic is that peer's key -- exactly the
   premises ([peers_ok], [ss h = dhn sdev (rstatic h)]) of create_initiation_is_paper,
   consume_initiation_is_paper and handshake_completes_mirrored, which therefore
   apply under the new identity. *)
Theorem C03_ss_follows_identity : forall (d : dev) (evs : list ev),
  dev_ok d ->
  let d' := final dev_step d evs in
  peers_ok (d_static d') (hs_list d') /\
  forall p, In p (d_peers d') -> rstatic (p_hs p) = p_id p /\ ss (p_hs p) = dhn (d_static d') (p_id p).
Proof. exact ss_follows_identity. Qed.
Print Assumptions C03_ss_follows_identity.

(* SetPrivateKey installs the new key (unless it is the current one or a configured peer's) *)
Theorem C03_set_private_key_identity : forall d new,
  new <> d_static d -> (forall p, In p (d_peers d) -> p_id p <> new) ->
  d_static (fst (dev_step d (ESetPrivateKey new))) = new.
Proof. exact set_private_key_identity. Qed.
Print Assumptions C03_set_private_key_identity.

(* "absent a cookie": a cookie reply that does not authenticate under
   Hash("cookie--" || S_peer) with the last MAC1 sent as associated data leaves
   the device unchanged; MAC2 of later messages stays zero *)
Theorem C03_unauthentic_cookie_reply_ignored : forall d receiver nonce c,
  (forall p m1, find_any_index (d_peers d) receiver = Some p -> p_lastmac1 p = Some m1 ->
                aead_open (cookie_key (TPub (p_id p))) nonce c m1 = None) ->
  dev_step d (ECookie receiver nonce c) = (d, []).
Proof.
  intros d receiver nonce c H. cbn [dev_step].
  destruct (find_any_index (d_peers d) receiver) as [p|] eqn:E; [|reflexivity].
  destruct (p_lastmac1 p) as [m1|] eqn:E1; [|reflexivity].
  now rewrite (H p m1 eq_refl E1).
Qed.
Print Assumptions C03_unauthentic_cookie_reply_ignored.

(* a cookie expires: CookieRefreshTime (120 s) after it was received the device holds no
   cookie any more and MAC2 of what it emits is zero again *)
Theorem C03_expired_cookie_zero_mac2 : forall d p e ts idx c age,
  p_cookie p = Some (c, age) -> CookieRefreshTimeSecs <= age ->
  forall to m, In (OInit to m) (snd (send_initiation d p e ts idx)) -> i_mac2 m = TZero.
Proof. exact expired_cookie_zero_mac2. Qed.
Print Assumptions C03_expired_cookie_zero_mac2.

(* with a cookie held, MAC2 is the MAC under it over everything before the MAC2 field *)
Theorem C03_mac2_under_held_cookie : forall peer_pk c body,
  snd (add_macs peer_pk (Some c) body) = TMac c (TPair body (fst (add_macs peer_pk (Some c) body))).
Proof. reflexivity. Qed.
Print Assumptions C03_mac2_under_held_cookie.

(* A change of the private key between ConsumeMessageInitiation and CreateMessageResponse voids
   the consumed initiation: nothing is sent and the device is exactly the re-keyed device (every
   handshake cleared, no new keypair) -- no session under the new identity with an initiator that
   addressed the old one. *)
Theorem C03_key_change_voids_consumed_initiation : forall d m er idx new,
  set_key_noop d new = false ->
  exists d1, dev_step d (EInitKey m er idx new) = (rekey_dev d1 new, []) /\
             (d1 = d \/ exists p h1, In p (d_peers d) /\ d1 = upd_peer d (upd p h1 (p_kp p) (p_staged p))).
Proof. exact key_change_voids_consumed_initiation. Qed.
Print Assumptions C03_key_change_voids_consumed_initiation.

(* Under load: an initiation with a valid MAC1 and no valid MAC2 is answered by a cookie reply, and
   only by that, which its SENDER can open (Hash("cookie--" || device key), associated data = the
   sender's own MAC1, receiver = the sender's index); the same initiation with MAC2 under that
   cookie is then processed exactly as without load. *)
Theorem C03_cookie_reply_opens_at_initiator : forall d m er idx ck nonce,
  check_mac1 (d_static d) (init_body m) (i_mac1 m) = true ->
  i_mac2 m <> mac ck (TPair (init_body m) (i_mac1 m)) ->
  exists c, dev_step d (EInitLoad m er idx ck nonce) = (d, [OCookieReply (i_sender m) nonce c]) /\
            aead_open (cookie_key (TPub (d_static d))) nonce c (i_mac1 m) = Some ck.
Proof. exact cookie_reply_opens_at_initiator. Qed.
Print Assumptions C03_cookie_reply_opens_at_initiator.

Theorem C03_loaded_retry_with_cookie_as_unloaded : forall d m er idx ck nonce,
  check_mac1 (d_static d) (init_body m) (i_mac1 m) = true ->
  i_mac2 m = mac ck (TPair (init_body m) (i_mac1 m)) ->
  dev_step d (EInitLoad m er idx ck nonce) = init_step d m er idx.
Proof. exact loaded_retry_with_cookie_as_unloaded. Qed.
Print Assumptions C03_loaded_retry_with_cookie_as_unloaded.

(* ---- non-vacuity ------------------------------------------------------------ *)

(* device 1 with peers 2 (psk 7) and 3 (no psk): peer 2 initiates, the device
   answers, peer 2 sends data (accepted, written to the TUN, keys confirmed), a
   TUN packet goes out under the mirrored key; a stranger (4) is ignored. *)
Definition ex_dev : dev :=
  {| d_static := 1%nat;
     d_peers := [new_peer 2%nat (new_handshake (Some 1%nat) 2%nat (psk_term 7));
                 new_peer 3%nat (new_handshake (Some 1%nat) 3%nat (psk_term 0))];
     d_olds := [] |}.

Example C03_nonvacuous_responder :
  match Paper.initiation 2%nat 20%nat (TPub 1%nat) 5 1000 with
  | Some (s1, m1) =>
    match dev_step ex_dev (EInit m1 30%nat 2000) with
    | (d1, [OResp 2%nat r]) =>
      match Paper.consume_response 2%nat 20%nat s1 (psk_term 7) r with
      | Some s2 =>
        let '(ksend, krecv) := Paper.initiator_keys s2 in
        match dev_step d1 (EData 2000 0 (Paper.transport ksend 0 (TJunk 1))) with
        | (d2, [OTunWrite 2%nat]) =>
          match dev_step d2 (ETun 2%nat 0%nat 0 0) with
          | (_, [OTransport 2%nat 1000 key false]) => teqb key krecv
          | _ => false
          end
        | _ => false
        end
      | None => false
      end
    | _ => false
    end
  | None => false
  end = true.
Proof. vm_compute. reflexivity. Qed.

Example C03_nonvacuous_initiator :
  match dev_step ex_dev (ETun 3%nat 40%nat 9 3000) with
  | (d1, [OInit 3%nat m1]) =>
    match Paper.consume_initiation 3%nat (fun pk => teqb pk (TPub 1%nat)) m1 with
    | Some (s1, _, _) =>
      match Paper.response s1 50%nat (i_eph m1) (TPub 1%nat) (psk_term 0) 4000 (i_sender m1) with
      | Some (s2, r) =>
        match dev_step d1 (EResp r) with
        | (_, [OTransport 3%nat 4000 key false]) => teqb key (snd (Paper.responder_keys s2))
        | _ => false
        end
      | None => false
      end
    | None => false
    end
  | _ => false
  end = true.
Proof. vm_compute. reflexivity. Qed.

Example C03_nonvacuous_negative :
  (* stranger 4; right peer but wrong psk (ref side); initiation built for key 9 *)
  (match Paper.initiation 4%nat 20%nat (TPub 1%nat) 5 1000 with
   | Some (_, m) => match dev_step ex_dev (EInit m 30%nat 2000) with (_, []) => true | _ => false end
   | None => false end) &&
  (match Paper.initiation 2%nat 20%nat (TPub 1%nat) 5 1000 with
   | Some (s1, m1) =>
     match dev_step ex_dev (EInit m1 30%nat 2000) with
     | (_, [OResp _ r]) => match Paper.consume_response 2%nat 20%nat s1 (psk_term 8) r with None => true | Some _ => false end
     | _ => false
     end
   | None => false end) &&
  (match Paper.initiation 2%nat 20%nat (TPub 9%nat) 5 1000 with
   | Some (_, m) => match consume_init 1%nat (hs_list ex_dev) false m with None => true | Some _ => false end
   | None => false end) = true.
Proof. vm_compute. reflexivity. Qed.

Example C03_nonvacuous_wire :
  let m := {| wi_type := 1; wi_sender := 305419896; wi_eph := repeat 7 32; wi_static := repeat 8 48;
              wi_ts := repeat 9 28; wi_mac1 := repeat 10 16; wi_mac2 := zeros 16 |} in
  decode_init (encode_init m) = Some m /\ firstn 8 (encode_init m) = [1;0;0;0;120;86;52;18] /\
  length (encode_init m) = 148%nat.
Proof. vm_compute. repeat split; reflexivity. Qed.

Example C03_nonvacuous_dev_ok : dev_ok ex_dev.
Proof. exact (fresh_dev_ok 1%nat [(2%nat, psk_term 7); (3%nat, psk_term 0)]). Qed.

(* peer 2 (psk 7) completes a handshake, the device is restarted, then: a party with
   peer 2's static key but psk 8 (or none) is still refused, the right psk completes *)
Example C03_nonvacuous_restart :
  match Paper.initiation 2%nat 20%nat (TPub 1%nat) 5 1000 with
  | Some (_, m1) =>
    let d1 := fst (dev_step ex_dev (EInit m1 30%nat 2000)) in
    let d2 := fst (dev_step d1 ERestart) in
    match Paper.initiation 2%nat 21%nat (TPub 1%nat) 6 1001 with
    | Some (s1, m2) =>
      match dev_step d2 (EInit m2 31%nat 2001) with
      | (_, [OResp 2%nat r]) =>
          match Paper.consume_response 2%nat 21%nat s1 (psk_term 7) r,
                Paper.consume_response 2%nat 21%nat s1 (psk_term 0) r,
                Paper.consume_response 2%nat 21%nat s1 (psk_term 8) r with
          | Some _, None, None => true
          | _, _, _ => false
          end
      | _ => false
      end
    | None => false
    end
  | None => false
  end = true.
Proof. vm_compute. reflexivity. Qed.

(* a forged cookie reply (right index, wrong key) changes nothing: the retransmitted
   initiation has MAC2 zero; an authentic one makes MAC2 = Mac(cookie, ...) *)
Example C03_nonvacuous_cookie :
  match dev_step ex_dev (EKick 3%nat 40%nat 9 3000) with
  | (d1, [OInit 3%nat m1]) =>
    let forged := TAead (cookie_key (TPub 4%nat)) 1 (TC 100) (i_mac1 m1) in
    let genuine := TAead (cookie_key (TPub 3%nat)) 2 (TC 101) (i_mac1 m1) in
    match dev_step d1 (ECookie 3000 1 forged) with
    | (d2, []) =>
      match dev_step d2 (EKick 3%nat 41%nat 10 3001) with
      | (d3, [OInit 3%nat m2]) =>
        is_zero (i_mac2 m2) &&
        match dev_step d3 (ECookie 3001 2 (TAead (cookie_key (TPub 3%nat)) 2 (TC 101) (i_mac1 m2))) with
        | (d4, []) =>
          match dev_step d4 (EKick 3%nat 42%nat 11 3002) with
          | (_, [OInit 3%nat m3]) => teqb (i_mac2 m3) (TMac (TC 101) (TPair (init_body m3) (i_mac1 m3)))
          | _ => false
          end
        | _ => false
        end
      | _ => false
      end
    | _ => false
    end
  | _ => false
  end = true.
Proof. vm_compute. reflexivity. Qed.

(* key rotation 1 -> 9 with peers configured: an initiation for the old key is refused, one for
   the new key is answered and completes with mirrored keys; the device's own initiation carries
   the new key and opens at the peer; the old confirmed keypair no longer sends *)
Example C03_nonvacuous_key_change :
  match Paper.initiation 2%nat 20%nat (TPub 1%nat) 5 1000 with
  | Some (s0, m0) =>
    let d1 := fst (dev_step ex_dev (EInit m0 30%nat 2000)) in
    let d2 := fst (dev_step d1 (ESetPrivateKey 9%nat)) in
    match Paper.initiation 2%nat 21%nat (TPub 1%nat) 6 1001, Paper.initiation 2%nat 22%nat (TPub 9%nat) 7 1002 with
    | Some (_, mold), Some (s1, mnew) =>
      match dev_step d2 (EInit mold 31%nat 2001), dev_step d2 (EInit mnew 32%nat 2002) with
      | (_, []), (d3, [OResp 2%nat r]) =>
        match Paper.consume_response 2%nat 22%nat s1 (psk_term 7) r with
        | Some s2 =>
          match dev_step d3 (EKick 3%nat 40%nat 9 3000) with
          | (_, [OInit 3%nat mi]) =>
            match Paper.consume_initiation 3%nat (fun pk => teqb pk (TPub 9%nat)) mi with
            | Some _ => (d_static d3 =? 9)%nat
            | None => false
            end
          | _ => false
          end
        | None => false
        end
      | _, _ => false
      end
    | _, _ => false
    end
  | None => false
  end = true.
Proof. vm_compute. reflexivity. Qed.

(* authentic cookie, 50 s later still used, a further 121 s later expired: MAC2 zero in the
   initiation and in the response; a new authentic reply arms it again *)
Example C03_nonvacuous_cookie_expiry :
  match dev_step ex_dev (EKick 3%nat 40%nat 9 3000) with
  | (d1, [OInit 3%nat m1]) =>
    let d2 := fst (dev_step d1 (ECookie 3000 2 (TAead (cookie_key (TPub 3%nat)) 2 (TC 101) (i_mac1 m1)))) in
    let d3 := fst (dev_step d2 (EAge 50)) in
    match dev_step d3 (EKick 3%nat 41%nat 10 3001) with
    | (d4, [OInit 3%nat m2]) =>
      negb (is_zero (i_mac2 m2)) &&
      let d5 := fst (dev_step d4 (EAge 121)) in
      match dev_step d5 (EKick 3%nat 42%nat 11 3002), Paper.initiation 3%nat 20%nat (TPub 1%nat) 5 1000 with
      | (d6, [OInit 3%nat m3]), Some (_, mi) =>
        is_zero (i_mac2 m3) &&
        match dev_step d6 (EInit mi 30%nat 2000) with
        | (_, [OResp 3%nat r]) => is_zero (r_mac2 r)
        | _ => false
        end
      | _, _ => false
      end
    | _ => false
    end
  | _ => false
  end = true.
Proof. vm_compute. reflexivity. Qed.

(* responder role: the initiator, under load, answers the device's response with a cookie reply
   (receiver = sender index of the response, by then the index of the new keypair); the next
   response carries MAC2 under that cookie *)
Example C03_nonvacuous_cookie_for_responder :
  match Paper.initiation 2%nat 20%nat (TPub 1%nat) 5 1000, Paper.initiation 2%nat 21%nat (TPub 1%nat) 6 1001 with
  | Some (_, m1), Some (_, m2) =>
    match dev_step ex_dev (EInit m1 30%nat 2000) with
    | (d1, [OResp 2%nat r1]) =>
      let d2 := fst (dev_step d1 (ECookie 2000 1 (TAead (cookie_key (TPub 2%nat)) 1 (TC 100) (r_mac1 r1)))) in
      match dev_step d2 (EInit m2 31%nat 2001) with
      | (_, [OResp 2%nat r2]) => is_zero (r_mac2 r1) && teqb (r_mac2 r2) (TMac (TC 100) (TPair (resp_body r2) (r_mac1 r2)))
      | _ => false
      end
    | _ => false
    end
  | _, _ => false
  end = true.
Proof. vm_compute. reflexivity. Qed.

(* an initiation for key 1 is consumed, the key changes to 9 before the response is built:
   nothing is sent, peer 2 has no keypair and no open handshake *)
Example C03_nonvacuous_key_change_in_flight :
  match Paper.initiation 2%nat 20%nat (TPub 1%nat) 5 1000 with
  | Some (_, m1) =>
    match dev_step ex_dev (EInitKey m1 30%nat 2000 9%nat) with
    | (d1, []) =>
      (d_static d1 =? 9)%nat &&
      forallb (fun p => (st (p_hs p) =? handshakeZeroed) &&
                        match next (p_kp p), current (p_kp p) with None, None => true | _, _ => false end) (d_peers d1)
    | _ => false
    end
  | None => false
  end = true.
Proof. vm_compute. reflexivity. Qed.
