(* Property C08 — the allowed-IPs table is an exact longest-prefix-match map.
   Only statements, closed by `exact`, with Print Assumptions.
   Model: AllowedIPs/Trie.v (functional image of device/allowedips.go, one
   path-compressed trie per family).  Specification: AllowedIPs/Spec.v
   (association list masked prefix |-> owner, lpm by scanning it).
   [final step empty ops] is the table after the operation sequence [ops];
   [final sstep sempty ops] the specification map after the same sequence. *)
From WG Require Import Base.Prelude AllowedIPs.Trie AllowedIPs.Spec AllowedIPs.Proofs.

(* The numbers the property text names: prefix lengths 0..32 / 0..128 are the
   address widths of the two tables (net.IPv4len, net.IPv6len are Go standard
   library constants, not constants of /repo, so nothing in Gen.Constants
   applies).  The theorems below hold for prefixes and addresses of ANY length,
   in particular for every cidr 0..32 / 0..128. *)
Theorem C08_constants : W4 = 32 /\ W6 = 128.
Proof. split; reflexivity. Qed.
Print Assumptions C08_constants.

(* The representation invariant holds after every operation sequence: children
   extend their parent's prefix by the branch bit, nodes without owner have two
   children, no prefix is stored twice. *)
Theorem C08_wf_preserved : forall ops : list op,
  let s := final step empty ops in
  wf_table s /\ NoDup (map fst (contents (t4 s))) /\ NoDup (map fst (contents (t6 s))).
Proof. exact wf_preserved. Qed.
Print Assumptions C08_wf_preserved.

(* Each trie operation does to the stored (prefix, owner) set exactly what the
   specification operation does to the association list. *)
Theorem C08_contents_insert : forall t p x, wf [] t ->
  forall e, In e (contents (insert t p x)) <-> In e (sinsert (contents t) p x).
Proof. exact contents_insert. Qed.
Print Assumptions C08_contents_insert.

Theorem C08_contents_remove : forall t p x, wf [] t ->
  forall e, In e (contents (remove t p x)) <-> In e (sremove (contents t) p x).
Proof. exact contents_remove. Qed.
Print Assumptions C08_contents_remove.

Theorem C08_contents_remove_by_peer : forall t x, wf [] t ->
  forall e, In e (contents (remove_by_peer t x)) <-> In e (sremove_by_peer (contents t) x).
Proof. exact contents_remove_by_peer. Qed.
Print Assumptions C08_contents_remove_by_peer.

(* The longest-match walk returns the owner of the longest stored prefix
   containing the address, for every well-formed trie and every address. *)
Theorem C08_lookup_is_lpm : forall t pre a, wf pre t ->
  lookup t a = option_map snd (lpm (contents t) a).
Proof. exact lookup_is_lpm. Qed.
Print Assumptions C08_lookup_is_lpm.

(* What lpm means: the answer's prefix is stored, contains the address and no
   stored prefix containing the address is longer; no answer = no stored prefix
   contains the address. *)
Theorem C08_lpm_characterisation : forall (cs : amap) a,
  match lpm cs a with
  | Some (n, x) => (exists p, In (p, x) cs /\ prefixb p a = true /\ length p = n) /\
                   (forall p y, In (p, y) cs -> prefixb p a = true -> length p <= n)
  | None => forall p y, In (p, y) cs -> prefixb p a = false
  end.
Proof. exact lpm_characterisation. Qed.
Print Assumptions C08_lpm_characterisation.

(* MAIN: after ANY sequence of insertions, per-prefix removals and per-peer
   removals, in either family, looking up ANY address gives the longest-prefix
   match of the specification map. *)
Theorem C08_refines : forall (ops : list op) (f : fam) (a : bits),
  tlookup (final step empty ops) f a = slookup (ssel (final sstep sempty ops) f) a.
Proof. exact refines. Qed.
Print Assumptions C08_refines.

(* Inserting an already stored prefix reassigns it: the table (shape included)
   is the one that the last insertion alone would have produced, and the prefix
   has exactly the last owner. *)
Theorem C08_reinsert_reassigns : forall ops f a c x y,
  final step empty (ops ++ [Insert f a c x; Insert f a c y]) =
  final step empty (ops ++ [Insert f a c y]).
Proof. exact reinsert_reassigns. Qed.
Print Assumptions C08_reinsert_reassigns.

Theorem C08_reinsert_owner : forall ops f a c x y,
  let s := final step empty (ops ++ [Insert f a c x; Insert f a c y]) in
  In (mask a c, y) (contents (sel s f)) /\
  forall z, In (mask a c, z) (contents (sel s f)) -> z = y.
Proof. exact reinsert_owner. Qed.
Print Assumptions C08_reinsert_owner.

(* Address bits beyond the prefix length are ignored (Insert and Remove).  In
   the model the mask is applied at the API boundary, mirroring maskSelf and
   "cidr = min(common, cidr)"; that the Go code agrees is checked by the
   correspondence runs, which set host bits in 30-50% of the prefixes. *)
Theorem C08_host_bits_ignored : forall s f a a' c x,
  firstn c a = firstn c a' ->
  step s (Insert f a c x) = step s (Insert f a' c x) /\
  step s (Remove f a c x) = step s (Remove f a' c x).
Proof. exact host_bits_ignored. Qed.
Print Assumptions C08_host_bits_ignored.

(* The per-peer listing is exactly the set of masked prefixes the peer owns,
   without duplicates. *)
Theorem C08_entries_for_exact : forall ops f x,
  let l := tentries (final step empty ops) f x in
  NoDup l /\ forall p, In p l <-> In (p, x) (ssel (final sstep sempty ops) f).
Proof. exact entries_for_exact. Qed.
Print Assumptions C08_entries_for_exact.

(* Removing every entry leaves both tables empty (roots nil). *)
Theorem C08_remove_all_empty : forall ops,
  final sstep sempty ops = sempty -> final step empty ops = empty.
Proof. exact remove_all_empty. Qed.
Print Assumptions C08_remove_all_empty.

Theorem C08_remove_all_empty_family : forall ops f,
  ssel (final sstep sempty ops) f = [] -> sel (final step empty ops) f = Leaf.
Proof. exact remove_all_empty_family. Qed.
Print Assumptions C08_remove_all_empty_family.

(* The shape of the table is a function of the stored (prefix, owner) set: two
   well-formed tries with the same contents are equal node for node, so two
   histories that leave the same map leave identical tables.  (This is why the
   pre-order dump of the implementation's tries can be compared with the
   model's for equality, and why the order in which RemoveByPeer walks the
   peer's list - insertion order in Go, pre-order in the model - is irrelevant.) *)
Theorem C08_shape_canonical : forall t1 t2 pre1 pre2, wf pre1 t1 -> wf pre2 t2 ->
  (forall e, In e (contents t1) <-> In e (contents t2)) -> t1 = t2.
Proof. exact wf_canonical. Qed.
Print Assumptions C08_shape_canonical.

Theorem C08_history_independent : forall ops ops',
  (forall f e, In e (ssel (final sstep sempty ops) f) <-> In e (ssel (final sstep sempty ops') f)) ->
  final step empty ops = final step empty ops'.
Proof. exact history_independent. Qed.
Print Assumptions C08_history_independent.

Theorem C08_remove_by_peer_any_order : forall t x ks, wf [] t ->
  (forall k, In k ks <-> In k (entries_for t x)) ->
  fold_left (fun t p => remove t p x) ks t = remove_by_peer t x.
Proof. exact remove_by_peer_any_order. Qed.
Print Assumptions C08_remove_by_peer_any_order.

(* The sequential fact behind the CONCURRENT part of the check (look-ups racing
   with configuration changes): if P, owned by x, is the longest stored prefix
   containing the address a  ([stable t a P x] := wf [] t /\ In (P, x) (contents t)
   /\ prefixb P a = true /\ no stored prefix containing a is longer than P),
   then after ANY sequence of operations that leave (P, x) alone and do not add
   a longer prefix containing a  ([unrelated_op]: Insert of a prefix that is not
   P and not a longer prefix containing a; Remove of another prefix or for
   another peer; RemoveByPeer of another peer; anything in the other family)
   P is still the longest match and the look-up of a still answers x.  Hence
   every linearisation of look-ups of a with such operations gives x.  That the
   Go code IS linearisable (the RWMutex discipline of AllowedIPs) is not proved
   here; it is exercised by the concurrent stress runs of the check. *)
Theorem C08_lookup_stable_under_unrelated_ops : forall (churn : list op) s f a P x,
  stable (sel s f) a P x -> Forall (unrelated_op f a P x) churn ->
  stable (sel (final step s churn) f) a P x /\ tlookup (final step s churn) f a = Some x.
Proof. exact lookup_stable_under_unrelated_ops. Qed.
Print Assumptions C08_lookup_stable_under_unrelated_ops.

(* ---------- non-vacuity ---------- *)
Definition b (n : nat) (v : N) : bits :=    (* the n-bit big-endian numeral of v *)
  map (fun i => N.testbit v (N.of_nat (n - 1 - i))) (seq 0 n).

(* 8-bit toy addresses; the same model serves 32 and 128 bits.  The history
   forks (glue node), nests, reassigns, removes with the wrong and the right
   peer, collapses a glue node and empties the table. *)
Definition h1 : list op :=
  [Insert V4 (b 8 0xA0) 4 1; Insert V4 (b 8 0xB7) 4 2; Insert V4 (b 8 0xA8) 6 3;
   Insert V4 (b 8 0xFF) 0 4; Insert V4 (b 8 0xAF) 4 5].

Example C08_nonvacuous_lookup :
  map (tlookup (final step empty h1) V4) [b 8 0xA9; b 8 0xA1; b 8 0xB0; b 8 0x10]
  = [Some 3; Some 5; Some 2; Some 4]
  /\ t4 (final step empty h1)
     = Node [] (Some 4) Leaf
         (Node (b 3 5) None
            (Node (b 4 0xA) (Some 5) Leaf (Node (b 6 0x2A) (Some 3) Leaf Leaf))
            (Node (b 4 0xB) (Some 2) Leaf Leaf)).
Proof. vm_compute. split; reflexivity. Qed.

Example C08_nonvacuous_remove :
  let s := final step empty (h1 ++ [Remove V4 (b 8 0xB0) 4 9; Remove V4 (b 8 0xBF) 4 2; Remove V4 (b 8 0) 0 4]) in
  t4 s = Node (b 4 0xA) (Some 5) Leaf (Node (b 6 0x2A) (Some 3) Leaf Leaf)
  /\ tlookup s V4 (b 8 0xB0) = None /\ tentries s V4 5 = [b 4 0xA].
Proof. vm_compute. repeat split; reflexivity. Qed.

Example C08_nonvacuous_empty :
  final sstep sempty (h1 ++ [RemoveByPeer 5; RemoveByPeer 4; Remove V4 (b 8 0xA8) 6 3; RemoveByPeer 2]) = sempty
  /\ final step empty (h1 ++ [RemoveByPeer 5; RemoveByPeer 4; Remove V4 (b 8 0xA8) 6 3; RemoveByPeer 2]) = empty.
Proof. vm_compute. split; reflexivity. Qed.

(* [stable] and [unrelated_op] are inhabited by the shapes the stress runs use:
   0xB0/4 (peer 2) stays the longest match of 0xB5 while /0 comes and goes, a
   sibling and a longer prefix beside the address are churned. *)
Example C08_nonvacuous_stable :
  let s := final step empty h1 in
  let churn := [Remove V4 (b 8 0) 0 4; Insert V4 (b 8 0) 0 7; Insert V4 (b 8 0xB8) 5 7;
                RemoveByPeer 5; Insert V4 (b 8 0x80) 1 7; RemoveByPeer 7] in
  stable (sel s V4) (b 8 0xB5) (b 4 0xB) 2 /\ Forall (unrelated_op V4 (b 8 0xB5) (b 4 0xB) 2) churn /\
  tlookup (final step s churn) V4 (b 8 0xB5) = Some 2.
Proof.
  cbn zeta. split; [|split].
  - split; [apply (proj1 (C08_wf_preserved h1))|]. split; [vm_compute; tauto|]. split; [reflexivity|].
    intros p z H Hp. vm_compute in H.
    repeat (destruct H as [H|H]; [inversion H; subst; clear H; vm_compute in Hp; try discriminate; cbn; lia|]).
    destruct H.
  - repeat match goal with |- Forall _ (_ :: _) => apply Forall_cons | |- Forall _ [] => apply Forall_nil end; cbn [unrelated_op].
    + right; left. vm_compute. discriminate.
    + right; split; [vm_compute; discriminate|]. intros [_ H]. vm_compute in H. lia.
    + right; split; [vm_compute; discriminate|]. intros [H _]. vm_compute in H. discriminate.
    + discriminate.
    + right; split; [vm_compute; discriminate|]. intros [_ H]. vm_compute in H. lia.
    + discriminate.
  - vm_compute. reflexivity.
Qed.
