(* Property C15 — revocation: removed peers and replaced identities are cut off at once.
   Only statements, closed by `exact`, with Print Assumptions. *)
From WG Require Import Base.Prelude Gen.Constants Revoke.Model Revoke.Spec Revoke.Proofs Revoke.Inflight.
Local Open Scope N_scope.

(* The constants the model takes from the code. *)
Theorem C15_constants : QueueStagedSize = 128 /\ RejectAfterMessages = 2^64 - 2^13 - 1.
Proof. split; reflexivity. Qed.
Print Assumptions C15_constants.

(* Handshake messages present the current identity; handshake messages addressed to another identity (MAC1 and
   transcript under another static key) are refused without any effect — at every state reached by any event list. *)
Theorem C15_identity_change_new_handshakes : forall id evs e,
  let s := reached id evs in
  (forall to i d, In (OInit to i d) (snd (step s e)) -> d = d_ident s) /\
  (forall to i r d, In (OResp to i r d) (snd (step s e)) -> d = d_ident s) /\
  (forall from d oidx ridx, d <> d_ident s -> step s (EInitiation from d oidx ridx) = (s, [])) /\
  (forall idx from d ridx, d <> d_ident s -> step s (EResponse idx from d ridx) = (s, [])).
Proof. exact identity_change_new_handshakes. Qed.
Print Assumptions C15_identity_change_new_handshakes.

(* A transport message or a handshake response under an index that is not in the index table has no effect at all. *)
Theorem C15_unknown_index_refused : forall s idx,
  it_get idx (d_itab s) = None ->
  (forall src ka oidx, step s (ETransport idx src ka oidx) = (s, [])) /\
  (forall from id ridx, step s (EResponse idx from id ridx) = (s, [])).
Proof. exact unknown_index_refused. Qed.
Print Assumptions C15_unknown_index_refused.

(* Allowed-IPs entries only ever point at peers in the peer map, at every state reached by any event list; directly after
   remove=true nothing routes to the removed peer; after replace_peers nothing routes anywhere. *)
Theorem C15_removed_peer_unroutable : forall id evs pfx pk,
  route pfx (d_routes (reached id evs)) = Some pk -> has_peer pk (d_peers (reached id evs)) = true.
Proof. exact removed_peer_unroutable. Qed.
Print Assumptions C15_removed_peer_unroutable.

Theorem C15_removed_peer_unroutable_at_once : forall id evs pk pfx,
  route pfx (d_routes (reached id (evs ++ [ERemove pk]))) <> Some pk.
Proof. exact removed_peer_unroutable_at_once. Qed.
Print Assumptions C15_removed_peer_unroutable_at_once.

Theorem C15_replace_peers_unroutes_all : forall id evs pfx,
  route pfx (d_routes (reached id (evs ++ [EReplacePeers]))) = None.
Proof. exact replace_peers_unroutes_all. Qed.
Print Assumptions C15_replace_peers_unroutes_all.

(* The device's own public key is never in the peer map (a self-peer is ignored when added and dropped when the
   private key is set onto a configured peer's key). *)
Theorem C15_self_peer_dropped : forall id evs,
  has_peer (d_ident (reached id evs)) (d_peers (reached id evs)) = false.
Proof. exact self_peer_dropped. Qed.
Print Assumptions C15_self_peer_dropped.

(* The index table has no entry whose peer is not in the peer map (sessions and pending handshakes), at every state
   reached by any event list; right after remove=true no entry belongs to the removed peer; after replace_peers the
   table and the peer map are empty.  Together with C15_unknown_index_refused: every message under a removed peer's
   former sessions or pending handshakes is refused. *)
Theorem C15_removed_peer_indices_refused : forall id evs i e,
  In (i, e) (d_itab (reached id evs)) -> has_peer (e_peer e) (d_peers (reached id evs)) = true.
Proof. exact removed_peer_indices_refused. Qed.
Print Assumptions C15_removed_peer_indices_refused.

Theorem C15_removed_peer_sessions_gone : forall id evs pk i e,
  In (i, e) (d_itab (reached id (evs ++ [ERemove pk]))) -> e_peer e <> pk.
Proof. exact removed_peer_sessions_gone. Qed.
Print Assumptions C15_removed_peer_sessions_gone.

Theorem C15_replace_peers_empties_index_table : forall id evs,
  d_itab (reached id (evs ++ [EReplacePeers])) = [] /\ d_peers (reached id (evs ++ [EReplacePeers])) = [].
Proof. exact replace_peers_empties_index_table. Qed.
Print Assumptions C15_replace_peers_empties_index_table.

(* Whatever the device emits in a step (datagram or TUN write) belongs to a peer that is in the peer map before AND
   after the step: nothing is ever emitted toward a removed peer, nor by the removing step itself. *)
Theorem C15_removed_peer_no_output : forall id evs e o,
  In o (snd (step (reached id evs) e)) ->
  has_peer (out_peer o) (d_peers (reached id evs)) = true /\
  has_peer (out_peer o) (d_peers (fst (step (reached id evs) e))) = true.
Proof. exact removed_peer_no_output. Qed.
Print Assumptions C15_removed_peer_no_output.

(* Right after an identity change every current / next keypair is unusable for sending and no handshake is pending. *)
Theorem C15_identity_change_kills_keypairs : forall id evs k p,
  k <> d_ident (reached id evs) ->
  In p (d_peers (reached id (evs ++ [ESetKey k]))) ->
  usable (p_cur p) = false /\ usable (p_next p) = false /\ p_hs p = None.
Proof. exact identity_change_kills_keypairs. Qed.
Print Assumptions C15_identity_change_kills_keypairs.

(* After a private-key change no transport is emitted under any keypair created before it: every transport message,
   in every step from every reachable state, leaves under a keypair of the current identity epoch. *)
Theorem C15_identity_change_stops_old_sessions : forall id evs e to ridx ep,
  In (OTransport to ridx ep) (snd (step (reached id evs) e)) -> ep = d_epoch (reached id evs).
Proof. exact identity_change_stops_old_sessions. Qed.
Print Assumptions C15_identity_change_stops_old_sessions.

(* A response to whatever initiation the device sent before an identity change has no effect after it. *)
Theorem C15_identity_change_refuses_pending_responses : forall id evs k idx from d ridx,
  k <> d_ident (reached id evs) ->
  let s := reached id (evs ++ [ESetKey k]) in
  step s (EResponse idx from d ridx) = (s, []).
Proof. exact identity_change_refuses_pending_responses. Qed.
Print Assumptions C15_identity_change_refuses_pending_responses.

(* Non-vacuity and bounded instances: the executable specification with ALL its clauses (no output toward / index entry of /
   route to an unconfigured peer, no transport under a pre-change session, identity of handshakes, self-peer,
   refused indices) holds on the model's own trace of a scenario that places removals and key changes after one key,
   two keys, a pending handshake and staged packets. *)
Definition scenario : list ev :=
  [EAddPeer 1 true [1] 0; EAddPeer 2 true [2] 0; EAddPeer 3 false [3] 0; EUp;
   ETun 1 77; EResponse 77 1 100 9; ETun 1 0; EAge 1; EInitiation 1 100 88 10; ETransport 88 1 false 0;
   ETun 2 55; ETun 3 44; ETun 3 0;
   ESetKey 101; ETun 1 66; ETransport 88 1 false 0; EResponse 55 2 100 11; EAge 1;
   EInitiation 1 100 99 12; EInitiation 1 101 99 13; ETransport 99 1 true 0; ETun 1 0;
   ERemove 1; ETransport 99 1 true 0; ETransport 88 1 false 0; ETun 1 0; EResponse 66 1 101 14; EAge 1; EInitiation 1 101 98 15;
   ESetKey 2; ETun 2 0; EAddPeer 2 true [2] 0; EReplacePeers; ETun 3 0; EAddPeer 1 true [1] 0; ETransport 99 1 true 0].

Example C15_nonvacuous_spec_on_model : holdsb 100 (model_trace (init 100) scenario) = true.
Proof. vm_compute. reflexivity. Qed.

(* what the scenario does: sessions are made and used, the key change silences the old session for sending
   (a new initiation leaves instead), receiving under it still works, the removal cuts everything *)
Example C15_nonvacuous_outputs :
  outs step (init 100) scenario =
  [[]; []; []; []; [OInit 1 77 100]; [OTransport 1 9 0]; [OTransport 1 9 0]; []; [OResp 1 88 10 100]; [OTunWrite 1];
   [OInit 2 55 100]; []; [];
   []; [OInit 1 66 101]; [OTunWrite 1]; []; [];
   []; [OResp 1 99 13 101]; [OTransport 1 13 1]; [OTransport 1 13 1];
   []; []; []; []; []; []; [];
   []; []; []; []; []; []; []].
Proof. vm_compute. reflexivity. Qed.

(* the invariants behind the unfinished statements, checked at EVERY prefix of the scenario *)
Definition inv_b (s : state) : bool :=
  forallb (fun x => has_peer (e_peer (snd x)) (d_peers s)) (d_itab s) &&
  forallb (fun x => has_peer (snd x) (d_peers s)) (d_routes s) &&
  negb (has_peer (d_ident s) (d_peers s)) &&
  forallb (fun p => (match p_cur p with Some k => k_dead k || (k_epoch k =? d_epoch s) | None => true end) &&
                    (match p_next p with Some k => k_dead k || (k_epoch k =? d_epoch s) | None => true end)) (d_peers s).
Fixpoint inv_all (s : state) (evs : list ev) : bool :=
  inv_b s && match evs with [] => true | e :: r => inv_all (fst (step s e)) r end.
Example C15_invariants_on_scenario : inv_all (init 100) scenario = true.
Proof. vm_compute. reflexivity. Qed.

(* ---- revocations that land inside the device's own goroutines (Revoke/Inflight.v) ---- *)

(* The handshake worker handles a response in two halves without holding a lock in between: ConsumeMessageResponse, then
   BeginSymmetricSession + SendKeepalive.  With nothing in between, the two halves are exactly the atomic event. *)
Theorem C15_response_in_two_halves : forall s idx from ident ridx,
  step s (EResponse idx from ident ridx) = response_in_two s idx from ident ridx.
Proof. exact split_response_same. Qed.
Print Assumptions C15_response_in_two_halves.

(* A removal of the peer, replace_peers or a change of identity between the two halves makes the second half do nothing
   at all (no keypair, no index entry, no keepalive, no staged packet sent) — in ANY state, for any index. *)
Theorem C15_revocation_inside_response_worker : forall s pk idx ridx r,
  revokes s pk r = true ->
  begin_session (fst (step s r)) pk idx ridx = (fst (step s r), []).
Proof. exact response_worker_revoked. Qed.
Print Assumptions C15_revocation_inside_response_worker.

Theorem C15_response_revoked_in_flight : forall id evs idx from ident ridx pk r,
  let s := reached id evs in
  consume_response s idx from ident = Some pk ->
  revokes s pk r = true ->
  let s1 := fst (step s r) in
  begin_session s1 pk idx ridx = (s1, []).
Proof. exact response_revoked_in_flight. Qed.
Print Assumptions C15_response_revoked_in_flight.

(* The sequential sender reads the peer's running flag once per queued container; Peer.Stop clears it once.  Whatever was
   queued behind the k containers handled before the stop is given back, not transmitted — for every backlog. *)
Theorem C15_stopped_peer_backlog_not_transmitted : forall k m q x,
  In x (skipn k (sender (repeat true k ++ repeat false m) q)) -> x = None.
Proof. exact stopped_backlog_dropped. Qed.
Print Assumptions C15_stopped_peer_backlog_not_transmitted.

(* non-vacuity: the response is valid when consumed and WOULD send the staged packet; after each revocation it does not *)
Example C15_nonvacuous_response_worker :
  let s := reached 100 [EAddPeer 1 true [1] 0; EAddPeer 2 true [2] 0; EUp; ETun 1 77] in
  consume_response s 77 1 100 = Some 1 /\
  snd (begin_session s 1 77 9) = [OTransport 1 9 0] /\
  snd (begin_session (fst (step s (ESetKey 101))) 1 77 9) = [] /\
  snd (begin_session (fst (step s (ERemove 1))) 1 77 9) = [] /\
  snd (begin_session (fst (step s EReplacePeers)) 1 77 9) = [] /\
  snd (begin_session (fst (step s (ERemove 2))) 1 77 9) = [OTransport 1 9 0].
Proof. vm_compute. repeat split. Qed.

Example C15_nonvacuous_sender :
  sender [true; false; false; false] [OTransport 1 9 0; OTransport 1 9 0; OTransport 1 9 0] =
  [Some (OTransport 1 9 0); None; None].
Proof. reflexivity. Qed.
