(* Property C14 — timer-driven liveness: retries, keepalives, re-handshake,
   queued packets.  Only statements, closed by `exact`, with Print Assumptions.
   The model (Timers/Model.v) mirrors device/timers.go and the staging code of
   send.go / receive.go for one peer with explicit time; [idle] is the ideal
   clock (a pending timer's closure runs exactly at its deadline); jitter draws
   are universally quantified oracle inputs below RekeyTimeoutJitterMaxMs. *)
From WG Require Import Base.Prelude Gen.Constants Timers.Model Timers.Spec Timers.Proofs.
Local Open Scope N_scope.

(* The numbers the property text names, as the code has them now.  The code
   gives up when handshakeAttempts > MaxTimerHandshakes at a retransmit
   expiry: 1 first transmission + 19 retries = MaxTimerHandshakes + 2 = 20. *)
Theorem C14_constants :
  RekeyTimeout = 5 * sec /\ RekeyAttemptTime = 90 * sec /\ KeepaliveTimeout = 10 * sec /\
  MaxTimerHandshakes = 18 /\ MaxTimerHandshakes = RekeyAttemptTime / RekeyTimeout /\
  maxTransmissions = MaxTimerHandshakes + 2 /\ RekeyTimeoutJitterMaxMs = 334 /\
  jmax = (RekeyTimeoutJitterMaxMs - 1) * ms /\ p_rekey = RekeyTimeout /\ p_keepalive = KeepaliveTimeout /\
  p_newhs = KeepaliveTimeout + RekeyTimeout /\
  KeepaliveTimeout + RekeyTimeout = 15 * sec /\ QueueStagedSize = 128 /\
  RekeyAfterTime = 120 * sec /\ RejectAfterTime = 180 * sec.
Proof. repeat split; reflexivity. Qed.
Print Assumptions C14_constants.

(* Consecutive transmissions are 5 s to less than 5.334 s apart. *)
Theorem C14_retransmit_gaps : forall n t js i,
  Forall jit_ok js -> (S i < n)%nat ->
  let a := nth i (tx_times n t js) 0 in
  let b := nth (S i) (tx_times n t js) 0 in
  a + RekeyTimeout <= b /\ b < a + RekeyTimeout + RekeyTimeoutJitterMaxMs * ms.
Proof. exact retransmit_gaps. Qed.
Print Assumptions C14_retransmit_gaps.

(* The 20th transmission is 95 s .. 101.327 s after the first, giving up
   100 s .. 106.66 s after it. *)
Theorem C14_giveup_time_bounds : forall t js,
  Forall jit_ok js ->
  let times := tx_times 21 t js in
  t + 19 * RekeyTimeout <= nth 19 times 0 /\ nth 19 times 0 <= t + 19 * (RekeyTimeout + 333 * ms) /\
  t + 20 * RekeyTimeout <= nth 20 times 0 /\ nth 20 times 0 <= t + 20 * (RekeyTimeout + 333 * ms).
Proof. exact giveup_time_bounds. Qed.
Print Assumptions C14_giveup_time_bounds.

(* No response ever (no persistent keepalive): the first TUN batch triggers an
   initiation at t0, the retransmissions follow at t0 < t1 < ... < t19 with
   t(i+1) = t(i) + 5 s + jitter(i): exactly 20 transmissions; at the 20th
   expiry (tg) the staged queue is flushed, only the key-zeroing timer remains,
   so nothing is initiated for any horizon until new traffic (which starts a
   new attempt at once); a session established later by the peer sends nothing
   of what was queued. *)
Theorem C14_retransmit_schedule : forall ts t0 ids j0 js T fuel,
  RekeyTimeout + sec <= ts -> ts <= t0 -> jit_ok j0 -> Forall jit_ok js ->
  let s0 := started 0 ts in
  let r1 := step s0 (mkev t0 (ITun ids) j0) in
  let times := tx_times 20 t0 (j0 :: js) in
  let tg := nth 20 (tx_times 21 t0 (j0 :: js)) 0 in
  tg <= T -> T < tg + RejectAfterTime * 3 -> (21 <= fuel)%nat ->
  let r2 := idle fuel js T (fst r1) in
  snd r1 = [OInit] /\
  snd r2 = at_times (tl times) OInit /\
  length times = 20%nat /\
  staged (fst r2) = [] /\
  next_due (fst r2) = Some (TZero, tg + RejectAfterTime * 3) /\
  (forall t' ids' j', tg <= t' -> snd (step (fst r2) (mkev t' (ITun ids') j')) = [OInit]) /\
  (forall t' t'' j' j'', tg <= t' -> t' <= t'' -> t'' < t' + RekeyAfterTime ->
     let r3 := step (fst r2) (mkev t' IInit j') in
     snd r3 = [OResp] /\ snd (step (fst r3) (mkev t'' (IRecv None) j'')) = []).
Proof. exact retransmit_schedule. Qed.
Print Assumptions C14_retransmit_schedule.

(* With a shorter horizon exactly the transmissions that fit are made. *)
Theorem C14_retransmit_prefix : forall ts t0 ids j0 js T fuel n,
  RekeyTimeout + sec <= ts -> ts <= t0 -> jit_ok j0 -> Forall jit_ok js ->
  let r1 := step (started 0 ts) (mkev t0 (ITun ids) j0) in
  let times := tx_times 21 t0 (j0 :: js) in
  (n <= 19)%nat -> nth n times 0 <= T -> T < nth (S n) times 0 -> (21 <= fuel)%nat ->
  snd (idle fuel js T (fst r1)) = at_times (firstn n (tl times)) OInit.
Proof. exact retransmit_prefix. Qed.
Print Assumptions C14_retransmit_prefix.

(* Giving up discards what was queued in EVERY state — on a first handshake and
   on a re-handshake while the zero-key-material timer of an earlier session is
   still pending alike (the flush comes before the timer test in the code). *)
Theorem C14_giveup_always_discards : forall s d jr jn,
  pending (tm_retransmit s) = true -> MaxTimerHandshakes < attempts s ->
  snd (fire d jr jn TRetransmit s) = [] /\ staged (fst (fire d jr jn TRetransmit s)) = [] /\
  pending (tm_zero (fst (fire d jr jn TRetransmit s))) = active s || pending (tm_zero s).
Proof. exact giveup_always_discards. Qed.
Print Assumptions C14_giveup_always_discards.

(* Fault: Bind.Send returns an error for a retransmission.  It is an attempt all
   the same (lastSentHandshake, attempt counter and the retransmit timer are set
   as for a transmitted one): the next initiation follows 5 s + jitter after it. *)
Theorem C14_retransmit_after_send_error : forall ts t0 ids j0 j1 js T fuel,
  RekeyTimeout + sec <= ts -> ts <= t0 -> jit_ok j0 -> jit_ok j1 ->
  let r1 := step (started 0 ts) (mkev t0 (ITun ids) j0) in
  let d1 := t0 + RekeyTimeout + ms * fst j0 in
  let r2 := step (fst r1) (mkev d1 (IFail (IFire TRetransmit)) j1) in
  let d2 := d1 + RekeyTimeout + ms * fst j1 in
  d2 <= T -> T < d2 + RekeyTimeout -> (2 <= fuel)%nat ->
  snd r1 = [OInit] /\ snd r2 = [OErr 0] /\ snd (idle fuel js T (fst r2)) = [(d2, OInit)].
Proof. exact retransmit_after_send_error. Qed.
Print Assumptions C14_retransmit_after_send_error.

(* Restart (device Down, then Up at t'), whatever happened before and however
   recently a handshake message was sent: Start back-dates lastSentHandshake, so
   the 5 s rate limit does not hold the restarted peer back.  With a persistent
   keepalive it initiates at once; without, the first TUN batch does. *)
Theorem C14_restart_with_persistent_keepalive_initiates : forall s t t' j j',
  0 < pka s -> RekeyTimeout + sec <= t' ->
  snd (step (fst (step s (mkev t IStop j))) (mkev t' IStart j')) = [OInit].
Proof. exact restart_with_persistent_keepalive_initiates. Qed.
Print Assumptions C14_restart_with_persistent_keepalive_initiates.

Theorem C14_restart_then_traffic_initiates : forall s t t' t'' j j' j'' ids,
  pka s = 0 -> RekeyTimeout + sec <= t' -> t' <= t'' ->
  let r2 := step (fst (step s (mkev t IStop j))) (mkev t' IStart j') in
  snd r2 = [] /\ snd (step (fst r2) (mkev t'' (ITun ids) j'')) = [OInit].
Proof. exact restart_then_traffic_initiates. Qed.
Print Assumptions C14_restart_then_traffic_initiates.

(* Configuration path: a peer created together with its persistent-keepalive
   interval by one UAPI set operation on a device that is already up initiates
   at once (the keepalive that is due needs a session). *)
Theorem C14_configured_with_persistent_keepalive_initiates : forall p t j,
  0 < p -> RekeyTimeout + sec <= t ->
  snd (step (init_st p) (mkev t IConfigure j)) = [OInit].
Proof. exact configured_with_persistent_keepalive_initiates. Qed.
Print Assumptions C14_configured_with_persistent_keepalive_initiates.

(* A fresh (non-retry) initiation sent while the retransmit timer of an earlier
   initiation is still pending moves that timer: the next retransmission is due
   5 s + jitter after the fresh one, whatever the old deadline d was (so the
   chain of retries cannot die inside the new rate-limit window). *)
Theorem C14_fresh_initiation_rearms_retransmit : forall q i t d sh t1 ids j js T fuel,
  t <= t1 -> t1 + sh >= t + RekeyTimeout -> sh <= t -> jit_ok j ->
  let s1 := fst (step (rstate q i t d) (mkev t1 (IShiftHs sh) (0, 0))) in
  let r2 := step s1 (mkev t1 (ITun ids) j) in
  let d2 := t1 + RekeyTimeout + ms * fst j in
  d2 <= T -> T < d2 + RekeyTimeout -> (2 <= fuel)%nat ->
  snd r2 = [OInit] /\ next_due (fst r2) = Some (TRetransmit, d2) /\
  snd (idle fuel js T (fst r2)) = [(d2, OInit)].
Proof. exact fresh_initiation_rearms_retransmit. Qed.
Print Assumptions C14_fresh_initiation_rearms_retransmit.

(* Second episode on the same peer after a give-up (no restart in between): new
   traffic at t' starts a new attempt with the counter reset to 0, so its first
   expiry retransmits (attempts 1) instead of giving up at once. *)
Theorem C14_second_episode_after_giveup : forall i t g t' ids j j2,
  t + RekeyTimeout <= t' -> jit_ok j ->
  t' + RekeyTimeout + ms * fst j < g + RejectAfterTime * 3 ->
  let r := step (gstate i t g) (mkev t' (ITun ids) j) in
  let d := t' + RekeyTimeout + ms * fst j in
  snd r = [OInit] /\ attempts (fst r) = 0 /\ next_due (fst r) = Some (TRetransmit, d) /\
  snd (fire d (fst j2) (snd j2) TRetransmit (fst r)) = [OInit] /\
  attempts (fst (fire d (fst j2) (snd j2) TRetransmit (fst r))) = 1.
Proof. exact second_episode_after_giveup. Qed.
Print Assumptions C14_second_episode_after_giveup.

(* "if nothing authenticated arrives": every KIND of authenticated arrival deletes
   the new-handshake timer — a handshake initiation of the peer (any state); and,
   with nothing staged (so that no data is sent in the same step), a transport
   message (data or keepalive) and the response to the pending initiation. *)
Theorem C14_initiation_cancels_new_handshake : forall s t j,
  active s = true -> pending (tm_newhs (fst (step s (mkev t IInit j)))) = false.
Proof. exact initiation_cancels_new_handshake. Qed.
Print Assumptions C14_initiation_cancels_new_handshake.

Theorem C14_transport_cancels_new_handshake : forall s t j d k,
  active s = true -> staged s = [] -> kp_next s = None -> kp_cur s = Some k ->
  pending (tm_newhs (fst (step s (mkev t (IRecv d) j)))) = false.
Proof. exact transport_cancels_new_handshake. Qed.
Print Assumptions C14_transport_cancels_new_handshake.

Theorem C14_response_cancels_new_handshake : forall s t j,
  active s = true -> staged s = [] -> hs s = hsInitiationCreated ->
  pending (tm_newhs (fst (step s (mkev t IResp j)))) = false.
Proof. exact response_cancels_new_handshake. Qed.
Print Assumptions C14_response_cancels_new_handshake.

(* Data received at t on an established session and nothing sent since:
   exactly one keepalive, at t + 10 s. *)
Theorem C14_keepalive_after_10s_receive_only : forall s k t id j js T fuel,
  active s = true -> pka s = 0 -> staged s = [] -> kp_cur s = Some k -> kp_next s = None ->
  pending (tm_retransmit s) = false -> pending (tm_keepalive s) = false -> need_another s = false ->
  (pending (tm_zero s) = true -> T < deadline (tm_zero s)) ->
  kp_created k <= t -> t + KeepaliveTimeout - kp_created k <= RekeyAfterTime ->
  t + KeepaliveTimeout <= T -> (2 <= fuel)%nat ->
  let r1 := step s (mkev t (IRecv (Some id)) j) in
  let r2 := idle fuel js T (fst r1) in
  snd r1 = [OTun id] /\ snd r2 = [(t + KeepaliveTimeout, OKeepalive)].
Proof. exact keepalive_after_10s_receive_only. Qed.
Print Assumptions C14_keepalive_after_10s_receive_only.

(* Data sent at t and nothing authenticated received: a new handshake
   initiation at t + 15 s + jitter. *)
Theorem C14_new_handshake_after_15s_unanswered_send : forall s k t ids j js T fuel,
  active s = true -> pka s = 0 -> staged s = [] -> kp_cur s = Some k ->
  pending (tm_retransmit s) = false -> pending (tm_newhs s) = false ->
  (pending (tm_zero s) = true -> T < deadline (tm_zero s)) ->
  ids <> [] -> jit_ok j ->
  kp_created k <= t -> t - kp_created k <= RekeyAfterTime -> last_sent_hs s <= t ->
  let tn := t + KeepaliveTimeout + RekeyTimeout + ms * snd j in
  tn <= T -> T < tn + RekeyTimeout -> (2 <= fuel)%nat ->
  let r1 := step s (mkev t (ITun ids) j) in
  let r2 := idle fuel js T (fst r1) in
  snd r1 = map OData ids /\ snd r2 = [(tn, OInit)].
Proof. exact new_handshake_after_15s_unanswered_send. Qed.
Print Assumptions C14_new_handshake_after_15s_unanswered_send.

(* Persistent keepalive p: with the last authenticated packet at l and silence
   afterwards, keepalives at l + p, l + 2p, ..., as many as fit. *)
Theorem C14_persistent_keepalive_every_interval_of_silence : forall n s k p l js T fuel,
  active s = true -> pka s = p -> 0 < p -> staged s = [] -> kp_cur s = Some k ->
  pending (tm_retransmit s) = false -> pending (tm_keepalive s) = false ->
  pending (tm_newhs s) = false ->
  tm_persist s = {| pending := true; deadline := l + p * sec |} ->
  (pending (tm_zero s) = true -> T < deadline (tm_zero s)) ->
  kp_created k <= l -> T - kp_created k <= RekeyAfterTime ->
  l + N.of_nat n * (p * sec) <= T -> T < l + (N.of_nat n + 1) * (p * sec) -> (n < fuel)%nat ->
  snd (idle fuel js T s) = map (fun i => (l + N.of_nat i * (p * sec), OKeepalive)) (seq 1 n).
Proof. exact persistent_keepalive_every_interval_of_silence. Qed.
Print Assumptions C14_persistent_keepalive_every_interval_of_silence.

(* The staged queue holds the most recent QueueStagedSize CONTAINERS (one TUN
   read batch each), oldest dropped first. *)
Theorem C14_staged_keeps_most_recent : forall cs : list container,
  stage_all cs [] = skipn (length cs - N.to_nat QueueStagedSize) cs.
Proof. exact staged_keeps_most_recent. Qed.
Print Assumptions C14_staged_keeps_most_recent.

(* When the response arrives everything staged goes out at once, oldest first
   (a keepalive when nothing is staged). *)
Theorem C14_staged_flushed_oldest_first_on_completion : forall s t j,
  active s = true -> hs s = hsInitiationCreated ->
  let r := step s (mkev t IResp j) in
  snd r = (match staged s with [] => [OKeepalive] | q => map out_of_elem (concat q) end) /\
  staged (fst r) = [].
Proof. exact staged_flushed_oldest_first_on_completion. Qed.
Print Assumptions C14_staged_flushed_oldest_first_on_completion.

(* Responder role: the first transport message under the new key completes the
   handshake and flushes the staged queue. *)
Theorem C14_staged_flushed_on_confirmation : forall s t j k,
  active s = true -> kp_next s = Some k -> kp_created k <= t -> t - kp_created k <= RekeyAfterTime ->
  let r := step s (mkev t (IRecv None) j) in
  snd r = map out_of_elem (concat (staged s)) /\ staged (fst r) = [].
Proof. exact staged_flushed_on_confirmation. Qed.
Print Assumptions C14_staged_flushed_on_confirmation.

(* End to end: TUN batches c0, rest submitted within 5 s while no session
   exists produce one initiation; the response releases exactly the most
   recent 128 batches, oldest first. *)
Theorem C14_staged_end_to_end : forall ts t0 c0 (rest : list (N * list N * (N * N))) j0 tr jr,
  RekeyTimeout + sec <= ts -> ts <= t0 ->
  Forall (fun p => t0 <= fst (fst p) /\ fst (fst p) < t0 + RekeyTimeout) rest ->
  let evs := mkev t0 (ITun c0) j0 :: map (fun p => mkev (fst (fst p)) (ITun (snd (fst p))) (snd p)) rest in
  let cs := c0 :: map (fun p => snd (fst p)) rest in
  outs step (started 0 ts) evs = [OInit] :: map (fun _ => []) rest /\
  snd (step (final step (started 0 ts) evs) (mkev tr IResp jr)) =
    map OData (concat (skipn (length cs - N.to_nat QueueStagedSize) cs)).
Proof. exact staged_end_to_end. Qed.
Print Assumptions C14_staged_end_to_end.

(* Non-vacuity and the persistent-keepalive refinement of "gives up after 20":
   concrete runs of the model under the ideal clock. *)
Definition count_init (l : list (N * output)) : nat :=
  length (filter (fun p => output_eqb (snd p) OInit) l).

(* no persistent keepalive: 1 + 19 transmissions, then silence for 400 s *)
Example C14_nonvacuous_giveup :
  let r1 := step (started 0 (100 * sec)) (mkev (101 * sec) (ITun [1; 2]) (50, 0)) in
  let r2 := idle 40 [(100,0);(200,0);(333,0)] (600 * sec) (fst r1) in
  snd r1 = [OInit] /\ count_init (snd r2) = 19%nat /\ staged (fst r2) = [] /\
  holdsb 0 0 0 ([In (100 * sec) IStart; In (101 * sec) (ITun [1; 2]); Out (101 * sec) OInit]
                ++ map (fun p => Out (fst p) (snd p)) (snd r2) ++ [End (600 * sec)]) = true.
Proof. vm_compute. repeat split; reflexivity. Qed.

(* persistent keepalive 25 s: gives up after 20 transmissions, starts again
   25 s after the last one; persistent keepalive 1 s: never gives up *)
Example C14_persistent_keepalive_and_giveup :
  let a := step (init_st 25) (mkev (100 * sec) IStart (0, 0)) in
  let b := step (init_st 1) (mkev (100 * sec) IStart (0, 0)) in
  snd a = [OInit] /\ count_init (snd (idle 80 [] (219 * sec) (fst a))) = 19%nat /\
  count_init (snd (idle 80 [] (220 * sec) (fst a))) = 20%nat /\
  snd b = [OInit] /\ count_init (snd (idle 200 [] (400 * sec) (fst b))) = 60%nat.
Proof. vm_compute. repeat split; reflexivity. Qed.

(* FINDING (model and device agree, the literal property text does not): when a
   re-handshake starts while the new-handshake timer of an earlier unanswered
   send is still pending, that timer expires during the retry sequence; its
   callback SendHandshakeInitiation(false) resets handshakeAttempts BEFORE the
   5 s rate limit swallows the initiation, so the sequence has 1 + 20 = 21
   transmissions (22 when it expires after the third) and the give-up is ~5 s late. *)
Example C14_new_handshake_timer_resets_attempts :
  let s1 := fst (step (started 0 (1000 * sec)) (mkev (1000 * sec + 30 * ms) (ITun [1]) (0, 0))) in
  let r2 := step s1 (mkev (1000 * sec + 50 * ms) IResp (0, 0)) in           (* data 1 sent: timer armed *)
  let s3 := fst (step (fst r2) (mkev (1000 * sec + 150 * ms) (IShiftKeys (181 * sec)) (0, 0))) in
  let r4 := step s3 (mkev (1005 * sec + 400 * ms) (ITun [2]) (0, 0)) in       (* key too old: re-handshake *)
  let r5 := idle 60 [] (1200 * sec) (fst r4) in
  snd r2 = [OData 1] /\ snd r4 = [OInit] /\ count_init (snd r5) = 20%nat /\ staged (fst r5) = [].
Proof. vm_compute. repeat split; reflexivity. Qed.

(* the monitor rejects a schedule with a 10 s gap, a 21st transmission, a late keepalive *)
Example C14_monitor_rejects :
  holdsb 0 0 0 [In (100 * sec) IStart; In (101 * sec) (ITun [1]); Out (101 * sec) OInit;
                Out (111 * sec) OInit; End (112 * sec)] = false /\
  holdsb 0 0 0 [In (100 * sec) IStart; In (100 * sec) IInit; Out (100 * sec) OResp;
                In (101 * sec) (IRecv (Some 7)); Out (101 * sec) (OTun 7);
                Out (112 * sec) OKeepalive; End (113 * sec)] = false /\
  holdsb 0 0 0 [In (100 * sec) IStart; In (100 * sec) IInit; Out (100 * sec) OResp;
                In (101 * sec) (IRecv (Some 7)); Out (101 * sec) (OTun 7);
                Out (111 * sec) OKeepalive; End (113 * sec)] = true.
Proof. vm_compute. repeat split; reflexivity. Qed.
