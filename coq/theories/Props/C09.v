(* Property C09 — configuration protocol (UAPI): get always reflects the sets
   applied so far.  Only statements, closed by `exact`, with Print Assumptions.
   The model (Uapi/Model.v) mirrors device/uapi.go; "reachable" = the
   configuration after any finite sequence of set operations, Up and Down
   on a fresh device, for any bind behaviour (env) whose automatic port is a
   16-bit number. *)
From WG Require Import Base.Prelude Gen.Constants Uapi.Model Uapi.Spec Uapi.Proofs Uapi.Refine.
Local Open Scope N_scope.

(* The error codes the property text means, as the code has them now. *)
Theorem C09_constants :
  EInvalid = (-22)%Z /\ EProtocol = (-71)%Z /\ EPortInUse = (-98)%Z /\ EIO = (-5)%Z /\
  ipc_IpcErrorUnknown = (-55)%Z.
Proof. repeat split; reflexivity. Qed.
Print Assumptions C09_constants.

(* A set stops at its first invalid line, keeps what was applied before it and
   reports the matching code: if a set fails with r there is a line k such that
   the configuration is exactly the one a set of the first k lines produces,
   line k is invalid for the section it stands in with code r
   ([syntax_errno]: EPROTO without '=', EINVAL for a bad value / unknown or
   misplaced key, EIO for an over-long line) -- or it is a valid
   listen_port/fwmark line on which the bind failed (EADDRINUSE), which
   touches neither keys nor peers. *)
Theorem C09_error_prefix_semantics : forall e c ls c' r,
  ipc_set e c ls = (c', r) -> r <> 0%Z ->
  exists k l ck,
    nth_error ls k = Some l /\
    ipc_set e c (firstn k ls) = (ck, 0%Z) /\
    forallb (fun x => negb (is_blank x)) (firstn k ls) = true /\
    let dev := negb (existsb is_pk_line (firstn k ls)) in
    ( (syntax_errno dev l = r /\ c' = ck)
      \/ (r = EPortInUse /\ syntax_errno dev l = 0%Z /\ dev = true /\ bind_line l /\
          c_peers c' = c_peers ck /\ c_priv c' = c_priv ck /\ c_pub c' = c_pub ck) ).
Proof. exact error_prefix_semantics. Qed.
Print Assumptions C09_error_prefix_semantics.

(* get after a sequence of operations = get after the fold of the operations:
   the configuration after ops1 ++ ops2 is the one ops2 produces from where
   ops1 ended, and the error codes are the concatenation. *)
Theorem C09_set_sequence_composition : forall e (ops1 ops2 : list op),
  final (step e) fresh (ops1 ++ ops2) = final (step e) (final (step e) fresh ops1) ops2 /\
  outs (step e) fresh (ops1 ++ ops2) =
  outs (step e) fresh ops1 ++ outs (step e) (final (step e) fresh ops1) ops2.
Proof. exact set_sequence_composition. Qed.
Print Assumptions C09_set_sequence_composition.

(* The device's own public key is never the key of a peer. *)
Theorem C09_self_key_never_a_peer : forall e c,
  env_ok e -> reachable e c -> has_peer (c_pub c) (c_peers c) = false.
Proof. exact self_key_never_a_peer. Qed.
Print Assumptions C09_self_key_never_a_peer.

(* A prefix is listed by exactly one peer ... *)
Theorem C09_prefix_has_one_owner : forall e c p1 p2 q,
  env_ok e -> reachable e c ->
  In p1 (c_peers c) -> In p2 (c_peers c) -> In q (pr_ips p1) -> In q (pr_ips p2) -> p1 = p2.
Proof. exact prefix_has_one_owner. Qed.
Print Assumptions C09_prefix_has_one_owner.

(* ... once, and with its host bits cleared. *)
Theorem C09_peer_prefixes_distinct_and_masked : forall e c p,
  env_ok e -> reachable e c -> In p (c_peers c) -> NoDup (pr_ips p) /\ Forall masked (pr_ips p).
Proof. exact peer_prefixes_distinct_and_masked. Qed.
Print Assumptions C09_peer_prefixes_distinct_and_masked.

(* A private-key change onto a peer's key drops exactly that peer. *)
Theorem C09_private_key_change_drops_colliding_peer : forall e c s sk,
  parse_private s = Some sk -> sk <> c_priv c ->
  let c' := fst (ipc_set e c [LText KPrivateKey s]) in
  c_priv c' = sk /\ c_pub c' = pk e sk /\
  has_peer (pk e sk) (c_peers c') = false /\
  c_peers c' = filter (fun p => negb (pr_key p =? pk e sk)) (c_peers c).
Proof. exact private_key_change_drops_colliding_peer. Qed.
Print Assumptions C09_private_key_change_drops_colliding_peer.

(* Replaying the configuration keys of a get on a fresh device reproduces the
   configuration -- full statement (NOT a theorem: refuted below): *)
Definition C09_get_set_roundtrip_statement : Prop :=
  forall e c, env_ok e -> reachable e c ->
  exists c', ipc_set e fresh (ipc_get c) = (c', 0%Z) /\ mview c' = mview c.

(* the part that holds: every reachable configuration except "no private key
   and a peer with the all-zero public key" *)
Theorem C09_get_set_roundtrip_partial : forall e c,
  env_ok e -> reachable e c ->
  (c_priv c = 0 -> has_peer 0 (c_peers c) = false) ->
  exists c', ipc_set e fresh (ipc_get c) = (c', 0%Z) /\
             c_priv c' = c_priv c /\ c_port c' = c_port c /\ c_fwmark c' = c_fwmark c /\
             c_peers c' = c_peers c /\ mview c' = mview c.
Proof. exact get_set_roundtrip_partial. Qed.
Print Assumptions C09_get_set_roundtrip_partial.

(* The same with a decidable guard, in the form "replay (get c) = c":
   guard = the device has a private key, or no peer has the all-zero public
   key; [config_of] is (private key, port, fwmark, peers in order with their
   prefixes in order); [replay] = ipc_set on a fresh (down) device of the get
   output. *)
Theorem C09_get_set_roundtrip_guarded : forall e c,
  env_ok e -> reachable e c -> roundtrip_guard c = true ->
  snd (replay e c) = 0%Z /\ config_of (fst (replay e c)) = config_of c.
Proof. exact get_set_roundtrip_guarded. Qed.
Print Assumptions C09_get_set_roundtrip_guarded.

(* The guard is exact: wherever it fails (no private key and a peer with the
   all-zero key) the replay has no such peer, so the roundtrip fails. *)
Theorem C09_get_set_roundtrip_guard_exact : forall e c,
  env_ok e -> reachable e c -> roundtrip_guard c = false ->
  has_peer 0 (c_peers c) = true /\ has_peer 0 (c_peers (fst (replay e c))) = false /\
  config_of (fst (replay e c)) <> config_of c.
Proof. exact get_set_roundtrip_guard_exact. Qed.
Print Assumptions C09_get_set_roundtrip_guard_exact.

(* the faithful model refutes the full statement (private_key=K; private_key=0;
   public_key=0...0): candidate defect, see notes/C09.md *)
Theorem C09_get_set_roundtrip_refuted : ~ C09_get_set_roundtrip_statement.
Proof. exact get_set_roundtrip_refuted. Qed.
Print Assumptions C09_get_set_roundtrip_refuted.

(* Mirror model = protocol specification (Uapi/Spec.v: validity of a line by
   section kind, effect of a valid line on an abstract configuration whose
   allowed IPs are ONE prefix -> owner map): for every sequence of set
   operations, Up, Down and undelivered gets, the error codes are the same
   and so is the observable configuration (keys, port, fwmark, peers by key
   with their attributes and sorted prefixes). *)
Theorem C09_model_refines_spec : forall e ops,
  outs (step e) fresh ops = outs (sem_step e) afresh ops /\
  mview (final (step e) fresh ops) = view (final (sem_step e) afresh ops).
Proof. exact model_refines_spec. Qed.
Print Assumptions C09_model_refines_spec.

(* (this is the Definition model_refines_spec_statement of Uapi/Proofs.v) *)
Theorem C09_model_refines_spec_statement_holds : model_refines_spec_statement.
Proof. exact model_refines_spec_statement_holds. Qed.
Print Assumptions C09_model_refines_spec_statement_holds.

(* Value syntax: what get prints, set reads back. *)
Theorem C09_value_syntax_roundtrip : forall n k,
  (n < 2 ^ 16 -> parse_uint 16 (dec n) = Some n) /\
  (n < 2 ^ 32 -> parse_uint 32 (dec n) = Some n) /\
  (k < 2 ^ 256 -> parse_key (hex64 k) = Some k).
Proof. intros n k. repeat split; [apply parse_u16_dec|apply parse_u32_dec|apply parse_key_hex64]. Qed.
Print Assumptions C09_value_syntax_roundtrip.

(* Non-vacuity.  Boundary values of the port parser ... *)
Example C09_nonvacuous_values :
  parse_uint 16 [54;53;53;51;53] = Some 65535 /\ parse_uint 16 [54;53;53;51;54] = None /\
  parse_uint 16 [45;49] = None /\ parse_uint 16 [] = None /\ parse_uint 16 [48;120;49] = None /\
  parse_uint 16 [32;49] = None /\ parse_uint 16 [48;48;55] = Some 7 /\
  parse_uint 32 [52;50;57;52;57;54;55;50;57;53] = Some 4294967295 /\
  parse_uint 32 [52;50;57;52;57;54;55;50;57;54] = None.
Proof. vm_compute. repeat split; reflexivity. Qed.

(* ... clamping of private keys (FromMaybeZeroHex): 0100..00 and 00..0080 are
   not the zero key and both become 00..0040; the zero key stays zero (= no
   key); ff..ff becomes f8ff..ff7f; a clamped key is left alone ... *)
Example C09_nonvacuous_clamp :
  parse_private (hex64 (2 ^ 248)) = Some 64 /\ parse_private (hex64 128) = Some 64 /\
  parse_private (hex64 (7 * 2 ^ 248 + 128)) = Some 64 /\
  parse_private (hex64 0) = Some 0 /\ parse_private (hex64 64) = Some 64 /\
  parse_private (hex64 (2 ^ 256 - 1)) = Some (2 ^ 256 - 1 - 7 * 2 ^ 248 - 128).
Proof. vm_compute. repeat split; reflexivity. Qed.

(* ... and a history that meets the premises of the theorems: two peers, a
   prefix moving between them, an invalid line in the middle of a set (the
   lines before it stay applied), the device's own key as a peer, a
   private-key change onto a peer's key. *)
Definition nv_env : env := {| pk := fun x => x + 7; auto_port := 40000; busy := [9]; badmarks := [] |}.
Definition nv_pfx : prefix := {| p_v6 := false; p_addr := 167772165; p_bits := 24 |}.
Definition nv_ops : list op :=
  [OSet [LText KPrivateKey (hex64 (clamp 2)); LText KListenPort [55];
         LText KPublicKey (hex64 100); LAllowedIp false (Some nv_pfx);
         LText KPublicKey (hex64 72); LAllowedIp false (Some nv_pfx);
         LText KKeepalive [54;53;53;51;54]; LText KListenPort [56]];
   OSet [LText KPublicKey (hex64 (clamp 2 + 7)); LText KPresharedKey (hex64 5)];
   OUp;
   OSet [LText KListenPort [57]];
   OSet [LText KPrivateKey (hex64 193)]].
Example C09_nonvacuous_history :
  outs (step nv_env) fresh nv_ops = [EInvalid; 0%Z; 0%Z; EPortInUse; 0%Z] /\
  let c := final (step nv_env) fresh nv_ops in
  map pr_key (c_peers c) = [100] /\ c_port c = 0 /\ c_pub c = 72 /\
  map pr_ips (c_peers (final (step nv_env) fresh (firstn 1 nv_ops))) = [[]; [mask nv_pfx]].
Proof. vm_compute. repeat split; reflexivity. Qed.

(* The roundtrip guard is met by non-trivial configurations: a keyed device
   with a peer, port 0 after a failed bind (end of the history above); and a
   device WITHOUT private key with two peers, a moved prefix, an endpoint, a
   keepalive, port and fwmark -- and the replay reproduces them; the guard
   fails on the refuting history. *)
Definition rt_ops : list op :=
  [OSet [LText KListenPort [55]; LText KFwmark [57];
         LText KPublicKey (hex64 100); LAllowedIp false (Some nv_pfx); LEndpoint (Some 3);
         LText KPublicKey (hex64 72); LAllowedIp false (Some nv_pfx);
         LAllowedIp false (Some {| p_v6 := true; p_addr := 1; p_bits := 128 |});
         LText KKeepalive [50;53]; LText KPresharedKey (hex64 5)]].
Example C09_roundtrip_guard_nonvacuous :
  roundtrip_guard (final (step nv_env) fresh nv_ops) = true /\
  (let c := final (step nv_env) fresh rt_ops in
   roundtrip_guard c = true /\ c_priv c = 0 /\ map pr_key (c_peers c) = [100; 72] /\
   map (fun p => length (pr_ips p)) (c_peers c) = [0; 2]%nat /\
   replay nv_env c = (c, 0%Z)) /\
  roundtrip_guard (final (step refute_env) fresh refute_ops) = false.
Proof. vm_compute. repeat split; reflexivity. Qed.
