(* Property C20 — packet buffers and queue elements are conserved on every path.
   Only statements, closed by `exact`, with Print Assumptions. *)
From WG Require Import Base.Prelude Gen.Constants Pools.Model Pools.Spec Pools.Proofs.
Local Open Scope N_scope.

(* The constants the model takes from the code. *)
Theorem C20_constants : QueueStagedSize = 128 /\ RejectAfterMessages = 2^64 - 2^13 - 1.
Proof. split; reflexivity. Qed.
Print Assumptions C20_constants.

(* For every configuration and every list of events (TUN batches, datagram batches of every accept / drop kind,
   handshake messages of every type and validity, peer add / remove, replace_peers, identity change, down / up, close,
   counter-limit and key-age hooks): gets = puts + idle baseline + what rests in the staged queues, for each pool. *)
Theorem C20_conservation : forall c evs,
  let s := reached c evs in
  a_get (s_acc s) = vadd (a_put (s_acc s)) (vadd (base_of s) (resting (s_peers s))).
Proof. exact conservation. Qed.
Print Assumptions C20_conservation.

(* ... so the five counts read at a quiescent point are the idle baseline plus the staged packets *)
Theorem C20_conservation_counts : forall c evs,
  let s := reached c evs in outstanding s = vadd (base_of s) (resting (s_peers s)).
Proof. exact conservation_counts. Qed.
Print Assumptions C20_conservation_counts.

(* after Close, whatever follows, every pool has zero outstanding *)
Theorem C20_closed_zero : forall c evs evs',
  let s := reached c (evs ++ EClose :: evs') in
  outstanding s = vzero /\ a_get (s_acc s) = a_put (s_acc s).
Proof. exact closed_zero. Qed.
Print Assumptions C20_closed_zero.

(* the same when the device closes itself because the TUN read failed for good *)
Theorem C20_fatal_read_zero : forall c evs evs',
  let s := reached c (evs ++ EFatalRead :: evs') in
  outstanding s = vzero /\ a_get (s_acc s) = a_put (s_acc s).
Proof. exact fatal_read_zero. Qed.
Print Assumptions C20_fatal_read_zero.

(* while the interface is down nothing rests in any staged queue *)
Theorem C20_down_holds_nothing : forall c evs,
  s_up (reached c evs) = false -> resting (s_peers (reached c evs)) = vzero.
Proof. exact down_holds_nothing. Qed.
Print Assumptions C20_down_holds_nothing.

(* no pool ever gets back more than it handed out (counting form of "no buffer is owned by two packets") *)
Theorem C20_no_double_owner : forall c evs,
  let a := s_acc (reached c evs) in
  inC (a_put a) <= inC (a_get a) /\ outC (a_put a) <= outC (a_get a) /\ buf (a_put a) <= buf (a_get a) /\
  inE (a_put a) <= inE (a_get a) /\ outE (a_put a) <= outE (a_get a).
Proof. exact no_double_owner. Qed.
Print Assumptions C20_no_double_owner.

(* inbound containers and inbound elements are never held at a quiescent point *)
Theorem C20_inbound_pools_idle : forall c evs,
  inC (outstanding (reached c evs)) = 0 /\ inE (outstanding (reached c evs)) = 0.
Proof. exact inbound_pools_idle. Qed.
Print Assumptions C20_inbound_pools_idle.

(* With stragglers: containers that a receive routine / SendStagedPackets which had passed the isRunning test left in a
   stopped peer's autodraining queues behind Stop's terminator (event EStraggle).  The counts are the idle baseline +
   staged packets + what rests in the queues of configured peers + what removed peers' queues hold until the finalisers
   ran; Peer.Start (EUp) and the finalisers (EGC) give everything back. *)
Theorem C20_total_conservation : forall c evs,
  let x := xreached c evs in
  xoutstanding x = vadd (vadd (base_of (x_s x)) (resting (s_peers (x_s x)))) (vadd (lsum (x_lost x)) (x_garbage x)).
Proof. exact total_conservation. Qed.
Print Assumptions C20_total_conservation.

(* after Close and the queue finalisers (runtime.GC), whatever happened before, in between and afterwards: zero *)
Theorem C20_closed_gc_zero : forall c evs evs1 evs2,
  xoutstanding (xreached c (evs ++ EClose :: evs1 ++ EGC :: evs2)) = vzero.
Proof. exact closed_gc_zero. Qed.
Print Assumptions C20_closed_gc_zero.

(* the model's own traces satisfy the executable specification that is evaluated on the implementation's counts *)
Theorem C20_model_meets_spec : forall c evs, holdsb c (model_trace (xinit c) evs) = true.
Proof. exact model_meets_spec. Qed.
Print Assumptions C20_model_meets_spec.

(* A send call (SendKeepalive / SendStagedPackets) that reaches a peer only after Peer.Stop has returned — made by a
   caller that had looked the peer up while it was running — takes nothing, stages nothing, parks nothing: counts,
   staged queues, autodraining queues and garbage are what they were, whatever happened before (peer still configured,
   removed, device closed). *)
Theorem C20_late_send_neutral : forall c evs j,
  let x := xreached c evs in
  let x1 := xreached c (evs ++ [ELateSend j]) in
  xoutstanding x1 = xoutstanding x /\ resting (s_peers (x_s x1)) = resting (s_peers (x_s x)) /\
  lsum (x_lost x1) = lsum (x_lost x) /\ x_garbage x1 = x_garbage x.
Proof. exact late_send_neutral. Qed.
Print Assumptions C20_late_send_neutral.

(* ... and the life cycle Up, Down, late send call, removal and / or Close, collection ends at zero *)
Theorem C20_late_send_then_close_zero : forall c evs j evs1 evs2,
  xoutstanding (xreached c (evs ++ ELateSend j :: evs1 ++ EClose :: evs2 ++ [EGC])) = vzero.
Proof. exact late_send_then_close_zero. Qed.
Print Assumptions C20_late_send_then_close_zero.

(* late send calls after Down, after removal and after Close; a straggler flushed by a restart (the peer has a
   persistent keepalive: Up stages one keepalive for it, Down flushes it) *)
Example C20_late_send :
  let c := {| c_tun := 1; c_bind := 1; c_nrecv := 2 |} in
  map (fun x => (buf (o_counts (snd x)), outC (o_counts (snd x)), outE (o_counts (snd x))))
      (model_trace (xinit c)
         [EAddPeer 1 true; EUp; EDown; ELateSend 1; EStraggle 1 0 2; EUp; EDown; ERemovePeer 1; ELateSend 1; EClose;
          ELateSend 1; EGC])
  = [(1,0,1); (4,1,2); (1,0,1); (1,0,1); (3,1,3); (4,1,2); (1,0,1); (1,0,1); (1,0,1); (0,0,0); (0,0,0); (0,0,0)].
Proof. vm_compute. reflexivity. Qed.

(* Non-vacuity: a run that stages packets (for a peer without session), overflows nothing, exercises the counter limit
   with out-of-order re-staging, drop branches in both directions, down/up, removal and close. *)
Example C20_nonvacuous :
  let c := {| c_tun := 2; c_bind := 4; c_nrecv := 2 |} in
  map (fun x => (buf (o_counts (snd x)), outC (o_counts (snd x))))
      (model_trace (xinit c)
         [EAddPeer 1 false; EAddPeer 2 true; EUp; ETun [TRoute 1; TRoute 1; TDrop 0; TRoute 2; TRoute 9];
          ENet [DHs 3 1; DSkip 0; DData 1 1 0]; ENet [DData 1 1 0; DData 1 1 3; DHs 1 2]; ENet [DData 2 2 1];
          ESetNonce 1 (RejectAfterMessages - 1); ETun [TRoute 1; TRoute 1]; EDown; EUp; ERemovePeer 2; EClose; EGC])
  = [(4,0); (4,0); (13,1); (16,3); (14,2); (14,2); (12,0); (12,0); (13,1); (4,0); (13,1); (12,0); (0,0); (0,0)].
Proof. vm_compute. reflexivity. Qed.

(* stragglers: left in the queues while the device is down, flushed by Up; left again, removed with the peer (garbage),
   still outstanding after Close, zero after the finalisers *)
Example C20_stragglers :
  let c := {| c_tun := 1; c_bind := 1; c_nrecv := 2 |} in
  map (fun x => (inE (o_counts (snd x)), buf (o_counts (snd x)), outC (o_counts (snd x))))
      (model_trace (xinit c)
         [EAddPeer 1 false; EUp; EDown; EStraggle 1 2 3; EUp; EDown; EStraggle 1 1 0; ERemovePeer 1; EClose; EGC])
  = [(0,1,0); (0,3,0); (0,1,0); (2,6,1); (0,3,0); (0,1,0); (1,2,0); (1,2,0); (1,1,0); (0,0,0)].
Proof. vm_compute. reflexivity. Qed.

(* the staged queue drops its oldest container at QueueStagedSize *)
Example C20_overflow :
  let c := {| c_tun := 1; c_bind := 1; c_nrecv := 2 |} in
  outC (outstanding (reached c (EAddPeer 3 false :: EUp :: repeat (ETun [TRoute 3]) 140))) = 128.
Proof. vm_compute. reflexivity. Qed.
