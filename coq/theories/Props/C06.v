(* Property C06 — handshake messages: integrity, anti-replay, flood limit,
   monotone timestamps.  Only statements, closed by `exact`/`apply` of lemmas
   from Tai64n.Proofs and HsGate.Proofs, with Print Assumptions.

   Reading guide: [reach cfg now0 evs] is the state of the slice model after the
   event list evs (any datagrams, TUN packets, hook calls, restarts) starting
   from a freshly configured device; [recv st now src oidx m] is what the
   receive path does with the handshake message described by m arriving from
   address src at time now; "= (st, [])" says: no output (no reply, no session)
   and the whole modelled state unchanged (keys/slots, index table, endpoint,
   rx/tx counters, handshake state and indices, lastTimestamp, lastInitiation-
   Consumption, lastSentHandshake, staged packets). *)
From Coq Require Import String.
From Coq Require Import Sorting.Sorted.
From WG Require Import Base.Prelude Gen.Constants Tai64n.Model Tai64n.Proofs HsGate.Model HsGate.Spec HsGate.Proofs.
From WG Require Tai64n.TaiAst Gen.TaiAst Tai64n.TaiAstProofs.
Local Open Scope N_scope.

Definition reach (cfg : list (N * N * N)) (now0 : N) (evs : list event) : state :=
  final step (init cfg now0) evs.

(* The numbers the property text and the design name, as the code has them now. *)
Theorem C06_constants :
  HandshakeInitationRate * 50 = ns_per_s /\ HandshakeInitationRate = prop_rate /\ RekeyTimeout = 5 * ns_per_s /\
  whitener = 2^24 /\ tai_whitenerMask = 2^24 - 1 /\ whitener <= RekeyTimeout /\
  MessageInitiationSize = 148 /\ MessageResponseSize = 92 /\
  smac2 KInit = 132 /\ smac1 KInit = 116 /\ smac2 KResp = 76 /\ smac1 KResp = 60 /\
  MessageInitiationType = 1 /\ MessageResponseType = 2 /\ tai_base = 2^62 + 10.
Proof. repeat split; try reflexivity. exact rekey_ge_whitener. Qed.
Print Assumptions C06_constants.

(* ------------------------------------------------------------- the clock *)
Theorem C06_stamp_monotone : forall t1 t2, t1 <= t2 -> in_range t2 -> after (stamp t1) (stamp t2) = false.
Proof. exact stamp_monotone. Qed.
Print Assumptions C06_stamp_monotone.

Theorem C06_stamp_strict : forall t1 t2, t1 + 2^24 <= t2 -> in_range t2 -> after (stamp t2) (stamp t1) = true.
Proof. exact stamp_strict. Qed.
Print Assumptions C06_stamp_strict.

(* After on the 12 bytes is the order of the 96-bit numbers the model carries. *)
Theorem C06_after_is_numeric_order : forall a b, wf a -> wf b -> after a b = (val b <? val a).
Proof. exact after_val. Qed.
Print Assumptions C06_after_is_numeric_order.

(* ---------------------------------------- first sentence: inert messages *)
Theorem C06_bad_length_inert : forall cfg now0 evs now src oidx m,
  let st := reach cfg now0 evs in
  m_len m <> size_of (m_kind m) -> recv st now src oidx m = (st, []).
Proof. intros. apply bad_length_inert. assumption. Qed.
Print Assumptions C06_bad_length_inert.

Theorem C06_unknown_type_inert : forall cfg now0 evs now src oidx m,
  let st := reach cfg now0 evs in
  wire_type m <> type_of (m_kind m) -> recv st now src oidx m = (st, []).
Proof. intros. apply unknown_type_inert. assumption. Qed.
Print Assumptions C06_unknown_type_inert.

Theorem C06_bad_mac1_inert : forall cfg now0 evs now src oidx m,
  let st := reach cfg now0 evs in
  mac1_ok (m_kind m) m = false -> recv st now src oidx m = (st, []).
Proof. intros. apply bad_mac1_inert. assumption. Qed.
Print Assumptions C06_bad_mac1_inert.

(* every bit below smac2 = 8*132 resp. 8*76: the bytes covered by MAC1, and MAC1 *)
Theorem C06_altered_bit_fails_mac1 : forall m b,
  m_remac m = false -> In (Flip b) (m_muts m) -> b / 8 < smac2 (m_kind m) ->
  mac1_ok (m_kind m) m = false.
Proof. exact altered_bit_fails_mac1. Qed.
Print Assumptions C06_altered_bit_fails_mac1.

Theorem C06_altered_bit_inert : forall cfg now0 evs now src oidx m b,
  let st := reach cfg now0 evs in
  m_remac m = false -> In (Flip b) (m_muts m) -> b / 8 < smac2 (m_kind m) ->
  recv st now src oidx m = (st, []).
Proof. intros. apply bad_mac1_inert. eapply altered_bit_fails_mac1; eassumption. Qed.
Print Assumptions C06_altered_bit_inert.

Theorem C06_unaddressed_response_inert : forall cfg now0 evs now src oidx m,
  let st := reach cfg now0 evs in
  m_kind m = KResp -> loaded st = false -> addressed st m = false -> recv st now src oidx m = (st, []).
Proof. intros. apply unaddressed_response_inert; assumption. Qed.
Print Assumptions C06_unaddressed_response_inert.

(* The gate and MAC1 theorems above hold in EVERY reachable state, in particular
   while the device is under load; spelled out: a message whose MAC1 does not
   verify draws no cookie reply either.  Under load any other message leaves the
   state untouched and is answered by at most a cookie reply (C10's path). *)
Theorem C06_bad_mac1_silent_under_load : forall cfg now0 evs now src oidx m,
  let st := reach cfg now0 evs in
  loaded st = true -> mac1_ok (m_kind m) m = false -> recv st now src oidx m = (st, []).
Proof. intros. apply bad_mac1_inert. assumption. Qed.
Print Assumptions C06_bad_mac1_silent_under_load.

Theorem C06_under_load_only_cookie : forall cfg now0 evs now src oidx m,
  let st := reach cfg now0 evs in
  loaded st = true -> inert_ul st (recv st now src oidx m).
Proof. intros. apply under_load_only_cookie. assumption. Qed.
Print Assumptions C06_under_load_only_cookie.

(* AEAD-protected fields stay fatal when the sender recomputes MAC1. *)
Theorem C06_initiation_aead_inert : forall cfg now0 evs now src oidx m,
  let st := reach cfg now0 evs in
  m_kind m = KInit -> loaded st = false ->
  altered KInit FEphemeral m || altered KInit FEncStatic m || altered KInit FEncTimestamp m = true ->
  recv st now src oidx m = (st, []).
Proof. intros. apply initiation_aead_inert; assumption. Qed.
Print Assumptions C06_initiation_aead_inert.

Theorem C06_response_aead_inert : forall cfg now0 evs now src oidx m,
  let st := reach cfg now0 evs in
  m_kind m = KResp -> loaded st = false -> altered KResp FEphemeral m || altered KResp FEmpty m = true ->
  recv st now src oidx m = (st, []).
Proof. intros. apply response_aead_inert; assumption. Qed.
Print Assumptions C06_response_aead_inert.

(* ------------------------------ second sentence: anti-replay, flood limit *)
Theorem C06_initiation_replay_rejected : forall cfg now0 evs now src oidx m,
  let st := reach cfg now0 evs in
  m_kind m = KInit -> loaded st = false -> m_ts m <= last_ts (peers st (m_static m)) ->
  recv st now src oidx m = (st, []).
Proof. intros. apply initiation_replay_rejected; assumption. Qed.
Print Assumptions C06_initiation_replay_rejected.

Theorem C06_initiation_flood_rejected : forall cfg now0 evs now src oidx m,
  let st := reach cfg now0 evs in
  m_kind m = KInit -> loaded st = false -> now - last_cons (peers st (m_static m)) <= HandshakeInitationRate ->
  recv st now src oidx m = (st, []).
Proof. intros. apply initiation_flood_rejected; assumption. Qed.
Print Assumptions C06_initiation_flood_rejected.

(* history form: over every event list — including restarts (Down/Up: Peer.Stop,
   handshake.Clear, Peer.Start), under-load phases and hook calls — the
   timestamps of the initiations of peer p that the device answered (a response
   left) are strictly increasing: lastTimestamp survives handshake.Clear *)
Theorem C06_accepted_initiation_strictly_newer : forall cfg now0 evs p,
  StronglySorted N.lt (acc_ts p evs (outs step (init cfg now0) evs)).
Proof. exact accepted_initiation_strictly_newer. Qed.
Print Assumptions C06_accepted_initiation_strictly_newer.

(* --------------------------------- responses: one session, latest only *)
Theorem C06_response_once : forall cfg now0 evs e src m evs2 now' src' oidx' m',
  let st := reach cfg now0 evs in
  e_body e = BMsg src m -> m_kind m = KResp -> existsb is_trans (snd (step st e)) = true ->
  m_kind m' = KResp -> m_static m' = m_static m -> m_ans m' = m_ans m ->
  let st' := final step (fst (step st e)) evs2 in
  inert_ul st' (recv st' now' src' oidx' m').
Proof.
  intros. eapply response_once; try eassumption.
  apply seq_ok_final, seq_ok_init.
Qed.
Print Assumptions C06_response_once.

Theorem C06_response_only_for_latest_initiation : forall cfg now0 evs e to p s ts evs2 now' src' oidx' m',
  let st := reach cfg now0 evs in
  snd (step st e) = [OInit to p s ts] ->
  m_kind m' = KResp -> m_static m' = p -> m_ans m' <= nseq st ->
  let st' := final step (fst (step st e)) evs2 in
  inert_ul st' (recv st' now' src' oidx' m').
Proof.
  intros. eapply response_only_for_latest_initiation; try eassumption.
  apply seq_ok_final, seq_ok_init.
Qed.
Print Assumptions C06_response_only_for_latest_initiation.

(* Round 9b: [evs], [evs2] and [e] in the history theorems above and below range over ALL events
   of the model, including the composite event BRespWindow (something happens inside a handshake
   worker between ConsumeMessageResponse and BeginSymmetricSession). *)
(* ------------------------- event inside the response-processing window *)
(* For EVERY state: when the in-window event leaves the handshake of the peer in any state but
   responseConsumed, the worker that consumed the response installs nothing: outputs, index
   table, key slots, handshake, lastHandshake counter are those the in-window event alone
   produced; only rxBytes counts the response. *)
Theorem C06_window_supersede_no_session : forall st now src oidx m w p,
  resp_phase1 st m = Some p ->
  let st1 := set_peer st p (with_response_consumed (peers st p) src m) in
  let r2 := wact_step st1 now oidx w in
  hs_state (peers (fst r2) p) <> 4 ->
  let r := resp_window st now src oidx m w in
  snd r = snd r2 /\ table (fst r) = table (fst r2) /\ nseq (fst r) = nseq (fst r2) /\
  kcur (peers (fst r) p) = kcur (peers (fst r2) p) /\
  kprev (peers (fst r) p) = kprev (peers (fst r2) p) /\
  knext (peers (fst r) p) = knext (peers (fst r2) p) /\
  lh (peers (fst r) p) = lh (peers (fst r2) p) /\
  hs_state (peers (fst r) p) = hs_state (peers (fst r2) p) /\
  hs_local (peers (fst r) p) = hs_local (peers (fst r2) p) /\
  rx (peers (fst r) p) = rx (peers (fst r2) p) + m_len m /\
  forall q, q <> p -> peers (fst r) q = peers (fst r2) q.
Proof. exact window_supersede_no_session. Qed.
Print Assumptions C06_window_supersede_no_session.

(* the premise holds whenever a new initiation for the peer left inside the window, or an
   initiation of the peer was answered there *)
Theorem C06_window_new_initiation_supersedes : forall st now oidx w to p s ts,
  In (OInit to p s ts) (snd (wact_step st now oidx w)) ->
  hs_state (peers (fst (wact_step st now oidx w)) p) = 1.
Proof. exact wact_new_initiation. Qed.
Print Assumptions C06_window_new_initiation_supersedes.

Theorem C06_window_answered_initiation_supersedes : forall st now oidx w to p s r o,
  In (OResp to p s r o) (snd (wact_step st now oidx w)) ->
  hs_state (peers (fst (wact_step st now oidx w)) p) = 0.
Proof. exact wact_answered_initiation. Qed.
Print Assumptions C06_window_answered_initiation_supersedes.

Theorem C06_window_untouched_completes : forall st now src oidx m w p,
  resp_phase1 st m = Some p ->
  let st1 := set_peer st p (with_response_consumed (peers st p) src m) in
  let r2 := wact_step st1 now oidx w in
  hs_state (peers (fst r2) p) = 4 ->
  resp_window st now src oidx m w =
    (fst (begin_initiator (fst r2) p src m), snd r2 ++ snd (begin_initiator (fst r2) p src m)).
Proof. exact window_untouched_completes. Qed.
Print Assumptions C06_window_untouched_completes.

Theorem C06_window_unconsumable_response_inert : forall st now src oidx m,
  m_kind m = KResp -> loaded st = false -> resp_phase1 st m = None -> recv st now src oidx m = (st, []).
Proof. exact window_unconsumable_response_inert. Qed.
Print Assumptions C06_window_unconsumable_response_inert.

(* --------------------------------------- last sentence: emitted timestamps *)
(* is_reset: BShift, BRestart, and a window event that contains the time-shift hook *)
Theorem C06_emitted_timestamps_increasing : forall cfg now0 evs p,
  forallb (fun e => negb (is_reset e)) evs = true -> mono_from now0 evs ->
  StronglySorted N.lt (emitted_ts p (outs step (init cfg now0) evs)).
Proof. exact emitted_timestamps_increasing. Qed.
Print Assumptions C06_emitted_timestamps_increasing.

(* Finding F7: without the hypothesis "no reset of lastSentHandshake" (here: a
   Down/Up between two TUN packets 2 ms apart, no hook involved) the last
   sentence of the property is FALSE in the faithful model: both initiations
   carry the same whitened timestamp. *)
Theorem C06_emitted_timestamps_increasing_with_restart_refuted :
  exists (cfg : list (N * N * N)) (now0 : N) (evs : list event) (p : N),
    mono_from now0 evs /\
    forallb (fun e => match e_body e with BShift _ _ => false | _ => true end) evs = true /\
    ~ StronglySorted N.lt (emitted_ts p (outs step (init cfg now0) evs)).
Proof. exact emitted_timestamps_increasing_with_restart_refuted. Qed.
Print Assumptions C06_emitted_timestamps_increasing_with_restart_refuted.

(* ------------------------------------------------------------ non-vacuity *)
Definition ex_init (ts sender eph : N) (muts : list mut) (remac : bool) : msg :=
  {| m_kind := KInit; m_len := 148; m_muts := muts; m_remac := remac; m_mac1key := 0;
     m_sender := sender; m_receiver := 0; m_static := 1; m_to := 0; m_psk := 0; m_eph := eph;
     m_ts := ts; m_ans := 0 |}.
Definition ex_resp (sender receiver ans : N) (muts : list mut) : msg :=
  {| m_kind := KResp; m_len := 92; m_muts := muts; m_remac := false; m_mac1key := 0;
     m_sender := sender; m_receiver := receiver; m_static := 1; m_to := 0; m_psk := 0; m_eph := 9;
     m_ts := 0; m_ans := ans |}.
Definition T0 : N := 1700000000000000000.
Definition ev (dt oidx : N) (b : body) : event := {| e_now := T0 + dt; e_oidx := oidx; e_body := b |}.

(* valid initiation answered; bit flip in MAC1-covered byte, replay, equal
   timestamp and flood all silent; newer one 60 ms later answered; flip in MAC2
   still answered *)
Example C06_nonvacuous_initiations :
  map (@length out)
    (outs step (init [(1, 0, 1)] T0)
      [ ev 1000000 70 (BMsg 1 (ex_init 500 11 1 [] false));
        ev 70000000 71 (BMsg 1 (ex_init 600 12 2 [Flip 99] false));
        ev 71000000 72 (BMsg 1 (ex_init 500 11 1 [] false));
        ev 140000000 73 (BMsg 1 (ex_init 600 12 3 [] false));
        ev 141000000 74 (BMsg 1 (ex_init 700 13 4 [] false));
        ev 210000000 75 (BMsg 1 (ex_init 700 13 4 [] false));
        ev 280000000 76 (BMsg 1 (ex_init 800 14 5 [Flip 1100] false)) ])
  = [1; 0; 0; 1; 0; 1; 1]%nat.
Proof. vm_compute. reflexivity. Qed.

(* answered initiation; Down/Up; the same bytes 1 s later from another address,
   an older and an equal timestamp are all silent; a newer one is answered *)
Example C06_nonvacuous_replay_after_restart :
  map (@length out)
    (outs step (init [(1, 0, 1)] T0)
      [ ev 1000000 70 (BMsg 1 (ex_init 500 11 1 [] false));
        ev 2000000 0 BRestart;
        ev 1002000000 71 (BMsg 3 (ex_init 500 11 1 [] false));
        ev 2002000000 72 (BMsg 1 (ex_init 499 12 2 [] false));
        ev 3002000000 73 (BMsg 1 (ex_init 500 13 3 [] false));
        ev 4002000000 74 (BMsg 1 (ex_init 501 14 4 [] false)) ])
  = [1; 0; 0; 0; 0; 1]%nat
  /\ acc_ts 1 [ ev 1000000 70 (BMsg 1 (ex_init 500 11 1 [] false)); ev 2000000 0 BRestart;
               ev 4002000000 74 (BMsg 1 (ex_init 501 14 4 [] false)) ]
       (outs step (init [(1, 0, 1)] T0)
          [ ev 1000000 70 (BMsg 1 (ex_init 500 11 1 [] false)); ev 2000000 0 BRestart;
            ev 4002000000 74 (BMsg 1 (ex_init 501 14 4 [] false)) ]) = [500; 501].
Proof. split; vm_compute; reflexivity. Qed.

(* under load: flipped MAC1 bit, flipped covered bit, truncation: silent;
   the unaltered message: exactly a cookie reply, state untouched *)
Example C06_nonvacuous_under_load :
  outs step (init [(1, 0, 1)] T0)
      [ ev 1000000 0 (BLoad true);
        ev 2000000 70 (BMsg 1 (ex_init 500 11 1 [Flip 928] false));
        ev 3000000 70 (BMsg 1 (ex_init 500 11 1 [Flip 32] false));
        ev 4000000 70 (BMsg 1 {| m_kind := KInit; m_len := 147; m_muts := []; m_remac := false; m_mac1key := 0;
                                 m_sender := 11; m_receiver := 0; m_static := 1; m_to := 0; m_psk := 0; m_eph := 1;
                                 m_ts := 500; m_ans := 0 |});
        ev 5000000 70 (BMsg 1 (ex_init 500 11 1 [] false));
        ev 6000000 0 (BLoad false);
        ev 7000000 70 (BMsg 1 (ex_init 500 11 1 [] false)) ]
  = [[]; []; []; []; [OCookie 1 11]; []; [OResp 1 1 70 11 true]].
Proof. vm_compute. reflexivity. Qed.

(* two initiations of the device 6 s apart; response to the first one silent,
   to the second one opens a session (one transport leaves), second copy silent *)
Example C06_nonvacuous_responses :
  map (@length out)
    (outs step (init [(1, 0, 1)] T0)
      [ ev 1000000 50 (BTun 1 80);
        ev 6001000000 51 (BTun 1 80);
        ev 6002000000 0 (BMsg 1 (ex_resp 20 50 1 []));
        ev 6003000000 0 (BMsg 1 (ex_resp 21 51 1 []));
        ev 6004000000 0 (BMsg 1 (ex_resp 22 51 2 [Flip 100]));
        ev 6005000000 0 (BMsg 1 (ex_resp 22 51 2 []));
        ev 6006000000 0 (BMsg 1 (ex_resp 22 51 2 [])) ])
  = [1; 1; 0; 0; 0; 2; 0]%nat.
Proof. vm_compute. reflexivity. Qed.

(* the premises of emitted_timestamps_increasing are met by a history that
   emits two initiations *)
Example C06_nonvacuous_emitted :
  emitted_ts 1 (outs step (init [(1, 0, 1)] T0) [ev 1000000 50 (BTun 1 80); ev 6001000000 51 (BTun 1 80)])
  = [stamp_val (T0 + 1000000); stamp_val (T0 + 6001000000)]
  /\ stamp_val (T0 + 1000000) < stamp_val (T0 + 6001000000).
Proof. split; vm_compute; reflexivity. Qed.

(* window events: I1 (index 50) left; its answer R1 arrives and, inside the worker's window,
   (a) 6 s pass and I2 (index 51) leaves: only the initiation is seen, no session, handshake is
       the one of I2 with its index still a handshake index; R2 then opens the session;
   (b) SendHandshakeInitiation inside RekeyTimeout: nothing happens, R1 completes (keepalive);
   (c) the peer's own initiation is answered: a response leaves, the responder session sits in
       next, no initiator session *)
Example C06_nonvacuous_window_new_initiation :
  let evs := [ ev 1000000 50 (BTun 1 80);
               ev 2000000 51 (BRespWindow 1 (ex_resp 20 50 1 []) (WShiftInitiate 1 6000000000));
               ev 3000000 0 (BMsg 1 (ex_resp 21 51 2 [])) ] in
  map (@length out) (outs step (init [(1, 0, 1)] T0) evs) = [1; 1; 1]%nat /\
  let st := final step (init [(1, 0, 1)] T0) (firstn 2 evs) in
  (kcur (peers st 1), knext (peers st 1), lh (peers st 1), hs_state (peers st 1), hs_local (peers st 1), table st)
  = (None, None, 0, 1, 51, [{| t_idx := 51; t_peer := 1; t_hs := true |}]) /\
  kcur (peers (final step (init [(1, 0, 1)] T0) evs) 1) = Some {| k_local := 51; k_remote := 21; k_init := true |}.
Proof. vm_compute. repeat split; reflexivity. Qed.

Example C06_nonvacuous_window_suppressed_and_peer_initiation :
  map (@length out) (outs step (init [(1, 0, 1)] T0)
     [ ev 1000000 50 (BTun 1 80);
       ev 2000000 51 (BRespWindow 1 (ex_resp 20 50 1 []) (WInitiate 1 1)) ]) = [1; 1]%nat /\
  let evs := [ ev 1000000 50 (BTun 1 80);
               ev 2000000 70 (BRespWindow 1 (ex_resp 20 50 1 []) (WMsg 1 (ex_init 500 11 1 [] false))) ] in
  outs step (init [(1, 0, 1)] T0) evs = [[OInit 1 1 50 (stamp_val (T0 + 1000000))]; [OResp 1 1 70 11 true]] /\
  let st := final step (init [(1, 0, 1)] T0) evs in
  (kcur (peers st 1), knext (peers st 1), lh (peers st 1), hs_state (peers st 1))
  = (None, Some {| k_local := 70; k_remote := 11; k_init := false |}, 0, 0).
Proof. vm_compute. repeat split; reflexivity. Qed.

(* THE TIE TO THE SOURCE for the timestamps (translator harness/cmd/taiast, rerun
   on every check): Gen.TaiAst.after_body / stamp_body are the bodies of
   Timestamp.After and stamp of tai64n/tai64n.go as terms of the deep-embedded
   language of Tai64n/TaiAst.v (bytes.Compare as a lexicographic primitive,
   PutUint64/PutUint32 big-endian stores, uint64/uint32 arithmetic, the
   whitening mask from the const declarations).  The interpreted comparison is
   the model's comparison on the encodings, the interpreted stamp is the model's
   encoding, and two instants at least one whitening quantum apart are ordered
   strictly by the interpreted source. *)
Theorem C06_source_after_is_the_model : forall x y : ts,
  Tai64n.TaiAst.run_after Gen.TaiAst.after_body (encode x) (encode y) = Some (after x y).
Proof. exact Tai64n.TaiAstProofs.ast_after_correct. Qed.
Print Assumptions C06_source_after_is_the_model.

Theorem C06_source_stamp_is_the_model : forall t, (unix_s t < 2 ^ 62)%N ->
  Tai64n.TaiAst.run_stamp Gen.TaiAst.stamp_body (unix_s t) (nano_of t) = Some (encode (stamp t)).
Proof. exact Tai64n.TaiAstProofs.ast_stamp_instant. Qed.
Print Assumptions C06_source_stamp_is_the_model.

Theorem C06_source_stamps_strictly_ordered : forall t1 t2, (t1 + whitener <= t2)%N -> (unix_s t2 < 2 ^ 62)%N ->
  exists e1 e2, Tai64n.TaiAst.run_stamp Gen.TaiAst.stamp_body (unix_s t1) (nano_of t1) = Some e1 /\
                Tai64n.TaiAst.run_stamp Gen.TaiAst.stamp_body (unix_s t2) (nano_of t2) = Some e2 /\
                Tai64n.TaiAst.run_after Gen.TaiAst.after_body e2 e1 = Some true.
Proof. exact Tai64n.TaiAstProofs.ast_after_stamp_strict. Qed.
Print Assumptions C06_source_stamps_strictly_ordered.
