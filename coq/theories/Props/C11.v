(* Property C11 — endpoint roaming follows only fresh, authenticated packets.
   Only statements, closed by `exact`, with Print Assumptions.
   Model: Roaming/Model.v (SetEndpointFromPacket and its three call sites, SendBuffers,
   the UAPI endpoint= line, and the state that decides authenticity and freshness:
   timestamps / flood gap, the outstanding initiation, keypair slots with C05's filter). *)
From WG Require Import Base.Prelude Gen.Constants Replay.Model Replay.Spec
  Roaming.Model Roaming.Spec Roaming.Proofs Roaming.Check.
Local Open Scope N_scope.

Theorem C11_constants :
  HandshakeInitationRate = 20000000 /\ RekeyTimeout = 5 * 1000000000 /\
  RejectAfterMessages = 2^64 - 2^13 - 1 /\ W = 8128.
Proof. repeat split; reflexivity. Qed.
Print Assumptions C11_constants.

(* Main theorem, for every state, event and peer: if the peer's endpoint is different after the
   event, then the event was (i) an initiation that passed every check of the receive path for
   this peer, (ii) a response that did, (iii) a batch of transport messages of which at least
   one for this peer was accepted — the new value being the source of the LAST accepted one —
   or (iv) a UAPI endpoint= line for this peer; and the new endpoint is the source address
   (the configured address for (iv)). *)
Theorem C11_endpoint_changes_only_when : forall st e p,
  endpoint (fst (step st e)) p <> endpoint st p ->
  exists a,
    match e with
    | EInit now m _ => exists x, init_accepts st now m = Some x /\ p_id x = p /\ a = i_src m
    | EResp _ m _ => exists x, resp_accepts st m = Some x /\ p_id x = p /\ a = r_src m
    | EBatch _ l => accepted_srcs st l p <> [] /\ a = List.last (accepted_srcs st l p) (0, 0)
    | EUapi _ q b _ => q = p /\ a = b
    | _ => False
    end /\ endpoint (fst (step st e)) p = Some a.
Proof. exact endpoint_changes_only_when. Qed.
Print Assumptions C11_endpoint_changes_only_when.

(* What "passed every check" means, field by field of the construction descriptor. *)
Theorem C11_initiation_accepted_iff : forall st now m x,
  init_accepts st now m = Some x <->
  i_mac1 m = true /\ (exists p, i_static m = Some p /\ find_peer st p = Some x) /\ i_tsok m = true /\
  p_last_ts x < i_ts m /\ HandshakeInitationRate < now - p_last_consume x.
Proof. exact init_accepts_iff. Qed.
Print Assumptions C11_initiation_accepted_iff.

Theorem C11_response_accepted_iff : forall st m x,
  resp_accepts st m = Some x <->
  r_mac1 m = true /\ (exists p, r_owner m = Some p /\ find_peer st p = Some x) /\
  p_pending x = Some (r_hid m) /\ r_hid m <> 0.
Proof. exact resp_accepts_iff. Qed.
Print Assumptions C11_response_accepted_iff.

Theorem C11_transport_accepted_iff : forall st e x sl s,
  elem_accepts st e = Some (x, sl, s) <->
  exists p sid, t_owner e = Some (p, sid) /\ find_peer st p = Some x /\ slot_of x sid = Some (sl, s) /\
                s_expired s = false /\ t_tag e = true /\ accept (s_filter s) (t_ctr e) RejectAfterMessages = true.
Proof. exact elem_accepts_iff. Qed.
Print Assumptions C11_transport_accepted_iff.

(* which source wins in a batch: the last accepted element's *)
Theorem C11_batch_endpoint : forall l st q,
  endpoint (fst (recv_batch st l)) q =
  match accepted_srcs st l q with
  | [] => endpoint st q
  | s => Some (List.last s (0, 0))
  end.
Proof. exact batch_endpoint. Qed.
Print Assumptions C11_batch_endpoint.

(* The response to a roaming initiation goes to the new address, which is the endpoint from then on. *)
Theorem C11_reply_to_new_endpoint : forall st now m sid x,
  init_accepts st now m = Some x ->
  snd (step st (EInit now m sid)) = [OResp (i_src m) (p_id x)] /\
  endpoint (fst (step st (EInit now m sid))) (p_id x) = Some (i_src m).
Proof. exact reply_to_new_endpoint. Qed.
Print Assumptions C11_reply_to_new_endpoint.

(* Outside transport batches every datagram goes to the peer's endpoint as it is after the event. *)
Theorem C11_outputs_go_to_endpoint : forall st e,
  (forall now l, e <> EBatch now l) ->
  Forall (fun y => endpoint (fst (step st e)) (out_peer y) = Some (out_to y)) (snd (step st e)).
Proof. exact outputs_go_to_endpoint. Qed.
Print Assumptions C11_outputs_go_to_endpoint.

(* Forged, corrupted, replayed or stale datagrams leave the whole state as it was, whatever
   source they claim: bad MAC1, failing AEAD, unknown static, replayed or old timestamp, flood;
   a response with wrong index / no outstanding initiation; every cookie reply; every unknown
   datagram; a batch none of whose elements is accepted. *)
Theorem C11_forged_never_moves : forall st e,
  match e with
  | EInit now m _ => init_accepts st now m = None
  | EResp _ m _ => resp_accepts st m = None
  | ECookie _ _ | EOther _ _ => True
  | EBatch _ l => forall x, In x l -> elem_accepts st x = None
  | _ => False
  end ->
  step st e = (st, []).
Proof. exact forged_never_moves. Qed.
Print Assumptions C11_forged_never_moves.

Theorem C11_forged_initiation_rejected : forall st now m,
  i_mac1 m = false \/ i_static m = None \/ i_tsok m = false \/
  (exists p x, i_static m = Some p /\ find_peer st p = Some x /\
               (i_ts m <= p_last_ts x \/ now - p_last_consume x <= HandshakeInitationRate)) ->
  init_accepts st now m = None.
Proof. exact forged_initiation_rejected. Qed.
Print Assumptions C11_forged_initiation_rejected.

Theorem C11_forged_response_rejected : forall st m,
  r_mac1 m = false \/ r_owner m = None \/ r_hid m = 0 \/
  (exists p x, r_owner m = Some p /\ find_peer st p = Some x /\ p_pending x <> Some (r_hid m)) ->
  resp_accepts st m = None.
Proof. exact forged_response_rejected. Qed.
Print Assumptions C11_forged_response_rejected.

(* replayed and out-of-window counters are refused by the session's filter *)
Theorem C11_delivered_counter_refused : forall f c l,
  accept f c l = true -> accept (fst (sstep f (Validate c l))) c l = false.
Proof. exact delivered_counter_refused. Qed.
Print Assumptions C11_delivered_counter_refused.

Theorem C11_behind_window_refused : forall f c l, c + 8128 < mx f -> accept f c l = false.
Proof. exact behind_window_refused. Qed.
Print Assumptions C11_behind_window_refused.

(* All histories: as long as no event moves p (in the sense of the main theorem) the endpoint
   stays the configured one; and at the end of any history it is the address written by the
   last moving event. *)
Theorem C11_until_then_the_configured_endpoint : forall evs st p,
  quiet st evs p -> endpoint (final step st evs) p = endpoint st p.
Proof. exact until_then_the_configured_endpoint. Qed.
Print Assumptions C11_until_then_the_configured_endpoint.

Theorem C11_endpoint_is_last_move : forall pre e post st p a,
  find_peer (final step st pre) p <> None ->
  moves_to (final step st pre) e p a -> quiet (fst (step (final step st pre) e)) post p ->
  endpoint (final step st (pre ++ e :: post)) p = Some a.
Proof. exact endpoint_is_last_move. Qed.
Print Assumptions C11_endpoint_is_last_move.

(* Restarts (Device.Down / Device.Up: every peer stopped and started).  A restart drops sessions,
   the outstanding initiation and staged packets but keeps the endpoint and the greatest consumed
   timestamp; that timestamp never decreases in any history, so an initiation that was consumed
   once — or any with the same or an older timestamp — is never accepted again, after any later
   history including restarts, from any source: the state, and so the endpoint, stays as it is. *)
Theorem C11_restart_keeps_endpoints : forall now st p,
  endpoint (fst (step st (ERestart now))) p = endpoint st p.
Proof. intros now st p. exact (endpoint_restart now st p). Qed.
Print Assumptions C11_restart_keeps_endpoints.

Theorem C11_last_timestamp_monotone : forall st e q, last_ts st q <= last_ts (fst (step st e)) q.
Proof. exact last_timestamp_monotone. Qed.
Print Assumptions C11_last_timestamp_monotone.

Theorem C11_replayed_initiation_never_accepted : forall st now m sid x mid now2 m2 sid2,
  init_accepts st now m = Some x ->
  i_static m2 = i_static m -> i_ts m2 <= i_ts m ->
  let st2 := final step (fst (step st (EInit now m sid))) mid in
  step st2 (EInit now2 m2 sid2) = (st2, []).
Proof. exact replayed_initiation_never_accepted. Qed.
Print Assumptions C11_replayed_initiation_never_accepted.

(* Crossed handshakes: when the device's own initiation completes while it holds an unconfirmed
   responder keypair, the old current session is discarded; transport under it is refused
   whatever it claims, so it cannot move the endpoint. *)
Theorem C11_crossed_handshake_discards_current : forall st now m sid x s0 s1 e,
  resp_accepts st m = Some x -> p_cur x = Some s0 -> p_next x = Some s1 ->
  s_id s0 <> sid -> s_id s0 <> s_id s1 ->
  t_owner e = Some (p_id x, s_id s0) ->
  elem_accepts (fst (step st (EResp now m sid))) e = None.
Proof. exact crossed_handshake_discards_current. Qed.
Print Assumptions C11_crossed_handshake_discards_current.

(* Keypairs older than RejectAfterTime (180 s), whichever side made them: nothing is accepted under them. *)
Theorem C11_expired_keys_accept_nothing : forall st p x e,
  find_peer st p = Some x -> (exists sid, t_owner e = Some (p, sid)) ->
  elem_accepts (fst (step st (EAgeKeys p))) e = None.
Proof. exact expired_keys_accept_nothing. Qed.
Print Assumptions C11_expired_keys_accept_nothing.

(* Timestamps: seconds first, nanoseconds second; with C11_forged_initiation_rejected an initiation from an
   earlier second than the last consumed one is rejected even if its nanosecond part is larger. *)
Theorem C11_timestamp_order : forall s1 n1 s2 n2, n1 < 1000000000 -> n2 < 1000000000 ->
  (s1 * 1000000000 + n1 < s2 * 1000000000 + n2 <-> s1 < s2 \/ (s1 = s2 /\ n1 < n2)).
Proof. exact timestamp_order. Qed.
Print Assumptions C11_timestamp_order.

(* Non-vacuity: peer 2 configured at (1,5555).  A fresh initiation from (4,5555) moves it and is
   answered there; its replay from (7,1) does nothing; a batch [bad tag from (5,1); counter 0 from
   (6,2); counter 1 from (3,9); counter 0 again from (8,8)] leaves (3,9); UAPI sets (9,9);
   after a restart the replay from (7,1) and a transport message under the old session still do nothing. *)
Example C11_nonvacuous :
  let st0 := [peer0 2 (Some (1, 5555)) 1000000000000] in
  let i := {| i_src := (4, 5555); i_mac1 := true; i_static := Some 2; i_tsok := true; i_ts := 77 |} in
  let j := {| i_src := (7, 1); i_mac1 := true; i_static := Some 2; i_tsok := true; i_ts := 77 |} in
  let te a c tag := {| t_src := a; t_owner := Some (2, 1); t_tag := tag; t_ctr := c |} in
  let evs := [EInit 1000000001000 i 1; EShiftHs 2 1000000000; EInit 1000000002000 j 2;
              EBatch 1000000003000 [te (5, 1) 5 false; te (6, 2) 0 true; te (3, 9) 1 true; te (8, 8) 0 true];
              EUapi 1000000004000 2 (9, 9) 1;
              ERestart 1000000005000; EShiftHs 2 1000000000; EInit 1000000006000 j 3;
              EBatch 1000000007000 [te (8, 8) 7 true]] in
  (outs step st0 evs,
   map (fun k => endpoint (final step st0 (firstn k evs)) 2) [0; 1; 3; 4; 5; 9]%nat)
  = ([[OResp (4, 5555) 2]; []; []; []; []; []; []; []; []],
     [Some (1, 5555); Some (4, 5555); Some (4, 5555); Some (3, 9); Some (9, 9); Some (9, 9)]).
Proof. vm_compute. reflexivity. Qed.
