(* C13 — a program set whose lock-order edges all climb the rank is accepted by the rank checker
   (with constructed thread ranks), hence never deadlocks.  This is what lets a per-run fact about
   the edges EXTRACTED FROM THE SOURCE discharge the premise of the no-deadlock theorem. *)
From WG Require Import Base.Prelude Lifecycle.Locks Lifecycle.LockProofs Lifecycle.Edges.

Lemma In_remove1' (x y : nat * bool) h : In x (remove1 y h) -> In x h.
Proof.
  induction h as [|z h IH]; cbn [remove1]; auto.
  destruct (heq y z); intros H; [right; exact H|].
  destruct H as [H|H]; [left; exact H|right; auto].
Qed.

Lemma forallb_flat_map {A B} (f : B -> bool) (g : A -> list B) l :
  forallb f (flat_map g l) = true -> forall a, In a l -> forallb f (g a) = true.
Proof.
  induction l as [|x l IH]; cbn [flat_map]; intros H a Ha; [destruct Ha|].
  rewrite forallb_app in H. apply andb_true_iff in H as [H1 H2].
  destruct Ha as [<-|Ha]; auto.
Qed.

Lemma pairs_climb rank h ls :
  edges_climb rank (pairs h ls) = true ->
  forall x a, In x h -> In a ls -> S (rank (fst x)) < rank a.
Proof.
  unfold edges_climb, pairs. intros H x a Hx Ha.
  rewrite forallb_forall in H.
  assert (Hin : In (fst x, a) (flat_map (fun x0 => map (fun a0 => (fst x0, a0)) ls) h)).
  { apply in_flat_map. exists x. split; auto. apply in_map_iff. exists a. auto. }
  apply H in Hin. unfold edge_climbs in Hin. cbn [fst snd] in Hin. apply Nat.ltb_lt in Hin. exact Hin.
Qed.

Lemma list_max_ge l x : In x l -> x <= list_max l.
Proof.
  induction l as [|y l IH]; intros H; [destruct H|]. cbn [list_max fold_right].
  destruct H as [->|H]; [apply Nat.le_max_l|]. etransitivity; [apply IH; auto|apply Nat.le_max_r].
Qed.

Lemma min_rank_le_d rank ls d : min_rank rank ls d <= d.
Proof.
  induction ls as [|x ls IH]; cbn [min_rank fold_right]; [lia|].
  etransitivity; [apply Nat.le_min_r|exact IH].
Qed.
Lemma min_rank_le_in rank ls d : forall y, In y ls -> min_rank rank ls d <= rank y.
Proof.
  induction ls as [|x ls IH]; intros y Hy; [destruct Hy|]. cbn [min_rank fold_right].
  destruct Hy as [->|Hy]; [apply Nat.le_min_l|].
  etransitivity; [apply Nat.le_min_r|]. apply IH. exact Hy.
Qed.

Lemma min_rank_ge rank ls d m : (forall l, In l ls -> m <= rank l) -> m <= d -> m <= min_rank rank ls d.
Proof.
  induction ls as [|x ls IH]; cbn [min_rank fold_right]; intros H Hd; auto.
  apply Nat.min_glb; [apply H; left; auto|apply IH; auto]. intros l Hl. apply H. right; auto.
Qed.

Section Core.
  Variables (rank trank : nat -> nat) (ps : list (list instr)) (b B : nat) (aw : nat -> Prop).
  (* what the waiter needs to know about the rank of an awaited thread *)
  Hypothesis HW : forall u rx, aw u -> rx + 2 <= B ->
     (forall a, In a (acq (nth u ps [])) -> S rx < rank a) -> rx < trank u.

  Lemma ok_prog_of_edges : forall p h,
    struct_ok h p = true ->
    (forall x, In x h -> rank (fst x) + 2 <= B) ->
    (forall l, In l (acq p) -> b < rank l /\ rank l + 2 <= B) ->
    (forall u, In u (waits p) -> b < trank u /\ aw u) ->
    edges_climb rank (prog_edges ps h p) = true ->
    ok_prog rank trank b h p = true.
  Proof.
    induction p as [|i p IH]; intros h Hs Hh Ha Hw He.
    - cbn [struct_ok] in Hs. cbn [ok_prog]. exact Hs.
    - destruct i as [l|l|l|l|u]; cbn [struct_ok prog_edges ok_prog] in *.
      + unfold edges_climb in He. rewrite (forallb_app (edge_climbs rank) (pairs h [l])) in He. apply andb_true_iff in He as [He1 He2].
        destruct (Ha l (or_introl eq_refl)) as [Hb HB].
        apply andb_true_iff; split; [apply andb_true_iff; split|].
        * apply Nat.ltb_lt. exact Hb.
        * apply forallb_forall. intros x Hx. apply Nat.ltb_lt.
          pose proof (pairs_climb rank h [l] He1 x l Hx (or_introl eq_refl)). lia.
        * apply IH; auto.
          -- intros x [<-|Hx]; cbn [fst]; auto.
          -- intros l' Hl'. apply Ha. cbn [acq]. right; auto.
      + apply andb_true_iff in Hs as [Hs1 Hs2]. rewrite Hs1. cbn [andb].
        apply IH; auto. intros x Hx. apply Hh. eapply In_remove1'; eauto.
      + unfold edges_climb in He. rewrite (forallb_app (edge_climbs rank) (pairs h [l])) in He. apply andb_true_iff in He as [He1 He2].
        destruct (Ha l (or_introl eq_refl)) as [Hb HB].
        apply andb_true_iff; split; [apply andb_true_iff; split|].
        * apply Nat.ltb_lt. exact Hb.
        * apply forallb_forall. intros x Hx. apply Nat.ltb_lt.
          pose proof (pairs_climb rank h [l] He1 x l Hx (or_introl eq_refl)). lia.
        * apply IH; auto.
          -- intros x [<-|Hx]; cbn [fst]; auto.
          -- intros l' Hl'. apply Ha. cbn [acq]. right; auto.
      + apply andb_true_iff in Hs as [Hs1 Hs2]. rewrite Hs1. cbn [andb].
        apply IH; auto. intros x Hx. apply Hh. eapply In_remove1'; eauto.
      + unfold edges_climb in He. rewrite (forallb_app (edge_climbs rank) (pairs h (acq (nth u ps [])))) in He. apply andb_true_iff in He as [He1 He2].
        apply andb_true_iff; split; [apply andb_true_iff; split|].
        * apply Nat.ltb_lt. apply Hw. left; auto.
        * apply forallb_forall. intros x Hx. apply Nat.ltb_lt.
          apply HW; [apply Hw; left; auto|apply Hh; auto|].
          intros a Hain. exact (pairs_climb rank h _ He1 x a Hx Hain).
        * apply IH; auto. intros u' Hu'. apply Hw. right; auto.
  Qed.
End Core.

Lemma has_wait_waits p : has_wait p = false -> waits p = [].
Proof. induction p as [|[l|l|l|l|u] p IH]; cbn [has_wait waits]; auto; discriminate. Qed.

Section Thread.
  Variables (rank : nat -> nat) (ps : list (list instr)).
  Hypothesis Hwf : wf ps = true.
  Hypothesis Hpos : ranks_positive rank ps = true.
  Let B := big rank ps.
  Let trank := trank_of rank ps.

  Lemma acq_rank p l : In p ps -> In l (acq p) -> 2 <= rank l /\ rank l + 2 <= B.
  Proof.
    intros Hp Hl. split.
    - unfold ranks_positive in Hpos. rewrite forallb_forall in Hpos. specialize (Hpos p Hp).
      rewrite forallb_forall in Hpos. specialize (Hpos l Hl). apply Nat.ltb_lt in Hpos. lia.
    - unfold B, big. assert (rank l <= list_max (map rank (flat_map acq ps))); [|lia].
      apply list_max_ge. apply in_map. apply in_flat_map. exists p; auto.
  Qed.

  Lemma B_ge2 : 2 <= B.
  Proof. unfold B, big. lia. Qed.

  Lemma awaited_of_waits p u : In p ps -> In u (waits p) -> awaited ps u = true.
  Proof.
    intros Hp Hu. unfold awaited. apply existsb_exists. exists p. split; auto.
    apply existsb_exists. exists u. split; auto. apply Nat.eqb_refl.
  Qed.

  Lemma awaited_no_waits t : awaited ps t = true -> waits (nth t ps []) = [].
  Proof.
    unfold awaited. intros H. apply existsb_exists in H as (q & Hq & H).
    apply existsb_exists in H as (u & Hu & E). apply Nat.eqb_eq in E. subst u.
    unfold wf in Hwf. apply andb_true_iff in Hwf as [_ H2]. unfold two_level in H2.
    rewrite forallb_forall in H2. specialize (H2 q Hq). rewrite forallb_forall in H2.
    specialize (H2 t Hu). apply negb_true_iff in H2. apply has_wait_waits. exact H2.
  Qed.

  Lemma trank_awaited_pos u : awaited ps u = true -> In (nth u ps []) ps \/ acq (nth u ps []) = [] -> 1 <= trank u.
  Proof.
    intros Ha Hin. unfold trank, trank_of. rewrite Ha.
    destruct (acq (nth u ps [])) as [|l ls] eqn:E; [pose proof B_ge2; fold B; lia|].
    destruct Hin as [Hin|Hin]; [|discriminate].
    assert (2 <= min_rank rank (l :: ls) (big rank ps)); [|lia].
    apply min_rank_ge; [|apply B_ge2].
    intros x Hx. rewrite <- E in Hx. apply (acq_rank _ _ Hin Hx).
  Qed.

  Lemma nth_in_or_nil u : In (nth u ps []) ps \/ acq (nth u ps []) = [].
  Proof.
    destruct (Nat.lt_ge_cases u (length ps)) as [H|H].
    - left. apply nth_In. exact H.
    - right. rewrite nth_overflow; auto.
  Qed.

  Lemma HW_trank : forall u rx, awaited ps u = true -> rx + 2 <= B ->
     (forall a, In a (acq (nth u ps [])) -> S rx < rank a) -> rx < trank u.
  Proof.
    intros u rx Ha HB Hall. unfold trank, trank_of. rewrite Ha.
    destruct (acq (nth u ps [])) as [|l ls] eqn:E; [fold B; lia|].
    assert (rx + 2 <= min_rank rank (l :: ls) (big rank ps)); [|lia].
    apply min_rank_ge; [|exact HB]. intros x Hx. specialize (Hall x Hx). lia.
  Qed.

  Lemma thread_ok t p :
    In p ps -> nth t ps [] = p ->
    edges_climb rank (prog_edges ps [] p) = true ->
    ok_prog rank trank (trank t) [] p = true.
  Proof.
    intros Hp Hn He.
    assert (Hs : struct_ok [] p = true).
    { unfold wf in Hwf. apply andb_true_iff in Hwf as [H1 _]. rewrite forallb_forall in H1. auto. }
    apply (ok_prog_of_edges rank trank ps (trank t) B (fun u => awaited ps u = true)) with (h := []); auto.
    - intros u rx Ha HB Hall. apply HW_trank; auto.
    - intros x [].
    - intros l Hl. split; [|apply (acq_rank p l Hp Hl)].
      unfold trank, trank_of. destruct (awaited ps t) eqn:Ea; [|apply (acq_rank p l Hp) in Hl; lia].
      rewrite Hn. destruct (acq p) as [|l0 ls] eqn:E; [destruct Hl|].
      pose proof (min_rank_le_in rank (l0 :: ls) (big rank ps) l Hl) as Hle.
      assert (2 <= min_rank rank (l0 :: ls) (big rank ps)); [|lia].
      apply min_rank_ge; [|apply B_ge2]. intros x Hx. rewrite <- E in Hx. apply (acq_rank _ _ Hp Hx).
    - intros u Hu. pose proof (awaited_of_waits p u Hp Hu) as Hau. split; auto.
      assert (Et : trank t = 0).
      { unfold trank, trank_of. destruct (awaited ps t) eqn:Ea; auto.
        apply awaited_no_waits in Ea. rewrite Hn in Ea. rewrite Ea in Hu. destruct Hu. }
      rewrite Et. pose proof (trank_awaited_pos u Hau (nth_in_or_nil u)). lia.
  Qed.
End Thread.

Lemma all_ok_from_of_threads rank trank ps :
  (forall t p, In p ps -> nth t ps [] = p -> nth_error ps t = Some p -> ok_prog rank trank (trank t) [] p = true) ->
  forall suf pre, ps = pre ++ suf -> all_ok_from rank trank (length pre) suf = true.
Proof.
  intros H suf. induction suf as [|p suf IH]; intros pre E; cbn [all_ok_from]; auto.
  apply andb_true_iff; split.
  - apply H.
    + subst ps. apply in_or_app. right. left. auto.
    + subst ps. rewrite app_nth2; [|lia]. rewrite Nat.sub_diag. reflexivity.
    + subst ps. rewrite nth_error_app2; [|lia]. rewrite Nat.sub_diag. reflexivity.
  - specialize (IH (pre ++ [p])). rewrite app_length in IH. cbn [length] in IH.
    replace (length pre + 1) with (S (length pre)) in IH by lia. apply IH.
    rewrite <- app_assoc. exact E.
Qed.

Theorem edges_suffice : edges_suffice_statement.
Proof.
  intros rank ps Hwf Hpos He. unfold all_ok.
  apply (all_ok_from_of_threads rank (trank_of rank ps) ps) with (pre := []); auto.
  intros t p Hp Hn _. apply thread_ok; auto.
  unfold all_edges in He. exact (forallb_flat_map _ _ _ He p Hp).
Qed.

Corollary climbing_edges_never_deadlock : forall rank ps,
  wf ps = true -> ranks_positive rank ps = true -> edges_climb rank (all_edges ps) = true -> never_deadlocks ps.
Proof.
  intros rank ps H1 H2 H3. apply (rank_respecting_programs_never_deadlock rank (trank_of rank ps)).
  apply edges_suffice; auto.
Qed.

Lemma edges_climb_incl : forall rank a b, edges_incl a b = true -> edges_climb rank b = true -> edges_climb rank a = true.
Proof.
  intros rank a b Hi Hb. unfold edges_climb, edges_incl in *. rewrite forallb_forall in *.
  intros e He. specialize (Hi e He). unfold edge_mem in Hi. apply existsb_exists in Hi as (e' & He' & Eq).
  unfold edge_eqb in Eq. apply andb_true_iff in Eq as [E1 E2]. apply Nat.eqb_eq in E1, E2.
  specialize (Hb e' He'). unfold edge_climbs in *. rewrite E1, E2. exact Hb.
Qed.

(* every program set whose edges are among E never deadlocks, if the edges of E all climb *)
Corollary programs_within_edges_never_deadlock : forall rank ps E,
  wf ps = true -> ranks_positive rank ps = true ->
  edges_incl (all_edges ps) E = true -> edges_climb rank E = true -> never_deadlocks ps.
Proof.
  intros rank ps E H1 H2 H3 H4. apply (climbing_edges_never_deadlock rank); auto.
  eapply edges_climb_incl; eauto.
Qed.

Print Assumptions programs_within_edges_never_deadlock.
