(* C13 — proofs about the lifecycle automaton (Automaton.v).

   Invariants of reachable configurations (each with its own tstep-preservation lemma):
     M1/M2/M3  in_state/in_ipc/in_net (thr c t) = true <-> lks/lki/lkn c = Some t   (mutual exclusion)
     IA        a thread at BU2/BU3 -> bopen c = false
     IS        st_ok (thr c t) (st c): what the holder of state.mu knows about the state
     IO        bopen c or a thread at BU3 _ true -> st c = SUp, or the holder of state.mu is a
               pending closer (DN3, DN4, C4, C5)
     IP        peers c -> st c <> SClosed, or the holder of state.mu is at C4..C7
     IP2       (schedules without Start OpPeerStart, NoP) peers c -> st c = SUp, or the holder of
               state.mu is at DN3..DN6 / C4..C7
     Qc        (after closed and unlocked) st = SClosed, bind closed, peers stopped, nobody at BU3 _ true

   Theorems: no_double_open, open_follows_close (T1), closed_is_absorbing (T2), closed_no_reopen (T3),
   after_down_or_close_bind_closed_and_peers_stopped, down_stays_quiet (T4),
   peer_running_after_down_reachable (T5: Down returning does NOT imply peers stopped when a UAPI
   peer section races with it). *)
From WG Require Import Base.Prelude Lifecycle.Automaton.

(* ---------------------------------------------------------------- classifiers on program counters *)

(* holds state.mu *)
Definition in_state (p : pc) : bool :=
  match p with
  | U1 | U2 | U3 | U4 | U5 | U6 => true
  | BU0 KUp | BU1 KUp | BU2 KUp | BU3 KUp _ | BU4 KUp _ => true
  | D1 | DN2 _ | DN3 _ | DN4 _ | DN5 _ | DN6 _ | DN7 _ => true
  | C1 | C2 | C3 | C4 | C5 | C6 | C7 | C8 | C9 => true
  | _ => false
  end.

(* holds ipcMutex *)
Definition in_ipc (p : pc) : bool :=
  match p with
  | U4 | U5 => true
  | C2 | C3 | C4 | C5 | C6 | C7 | C8 => true
  | BU0 KListen | BU1 KListen | BU2 KListen | BU3 KListen _ | BU4 KListen _ | L1 => true
  | P1 | P2 _ | P3 | R1 | R2 => true
  | _ => false
  end.

(* holds net (as a writer) *)
Definition in_net (p : pc) : bool :=
  match p with
  | BU1 _ | BU2 _ | BU3 _ _ | BU4 _ _ | DN4 _ | DN5 _ | C5 | C6 => true
  | _ => false
  end.

(* between closeBindLocked and bind.Open *)
Definition bu23 (p : pc) : bool := match p with BU2 _ | BU3 _ _ => true | _ => false end.
(* about to call bind.Open *)
Definition bu3t (p : pc) : bool := match p with BU3 _ true => true | _ => false end.
(* has stored down/closed and will still call bind.Close *)
Definition pendclose (p : pc) : bool := match p with DN3 _ | DN4 _ | C4 | C5 => true | _ => false end.
(* has stored closed and will still stop the peers *)
Definition pendstopC (p : pc) : bool := match p with C4 | C5 | C6 | C7 => true | _ => false end.
(* has stored down/closed and will still stop the peers *)
Definition pendstop (p : pc) : bool :=
  match p with DN3 _ | DN4 _ | DN5 _ | DN6 _ | C4 | C5 | C6 | C7 => true | _ => false end.
(* inside the UAPI peer section *)
Definition isP (p : pc) : bool := match p with P0 | P1 | P2 _ | P3 => true | _ => false end.

Definition is_down (s : dstate) : bool := match s with SDown => true | _ => false end.

(* what a thread at p knows about the device state (it holds state.mu) *)
Definition st_ok (p : pc) (s : dstate) : bool :=
  match p with
  | U2 => is_down s
  | U3 | U4 | U5 | BU0 KUp | BU1 KUp | BU2 KUp | BU3 KUp _ | BU4 KUp _ | DN2 _ => is_up s
  | DN3 _ | DN4 _ | DN5 _ | DN6 _ => is_down s
  | DN7 _ => negb (is_up s)
  | C3 => negb (is_closed s)
  | C4 | C5 | C6 | C7 | C8 | C9 => is_closed s
  | _ => true
  end.

(* f holds of the program counter of the owner of lock l *)
Definition holder (f : pc -> bool) (l : option nat) (th : nat -> pc) : bool :=
  match l with Some u => f (th u) | None => false end.

(* ---------------------------------------------------------------- small lemmas *)

Lemma upd_same f t p : upd f t p t = p.
Proof. unfold upd. rewrite Nat.eqb_refl. reflexivity. Qed.

Lemma upd_other f t p u : u <> t -> upd f t p u = f u.
Proof. unfold upd. intros H. apply Nat.eqb_neq in H. rewrite H. reflexivity. Qed.

Lemma free_none l : free l = true -> l = None.
Proof. destruct l; [discriminate|reflexivity]. Qed.

Lemma iff_true_l (P : Prop) : (true = true <-> P) -> P.
Proof. intros [H _]. exact (H eq_refl). Qed.

Lemma iff_false_l (P : Prop) : (false = true <-> P) -> ~ P.
Proof. intros [_ H] HP. discriminate (H HP). Qed.

Lemma holder_self f l th t p : l = Some t -> holder f l (upd th t p) = f p.
Proof. intros ->. cbn. apply f_equal, upd_same. Qed.

Lemma holder_other f l th t p : l <> Some t -> holder f l (upd th t p) = holder f l th.
Proof.
  intros H. destruct l as [u|]; [|reflexivity]. cbn. rewrite upd_other; [reflexivity|congruence].
Qed.

Lemma holder_old f l th t : l = Some t -> holder f l th = f (th t).
Proof. intros ->. reflexivity. Qed.

Lemma bu23_in_net p : bu23 p = true -> in_net p = true.
Proof. destruct p; cbn; congruence. Qed.

Lemma bu3t_in_net p : bu3t p = true -> in_net p = true.
Proof. destruct p; cbn; congruence. Qed.

Lemma st_ok_nonstate p s : in_state p = false -> st_ok p s = true.
Proof. destruct p; try destruct k; cbn; congruence. Qed.

(* ---------------------------------------------------------------- the step, case by case *)

Ltac simp :=
  cbn [st bopen peers lks lki lkn thr goto set_st set_bopen set_peers set_lks set_lki set_lkn fst snd] in *.

(* invert H : tstep c t a = Some (c', o); leaves one goal per enabled case, with
   an equation thr c t = <pc> in the context *)
Ltac inv_step H :=
  unfold tstep in H;
  repeat match type of H with
  | context[match ?x with _ => _ end] => destruct x eqn:?
  end; try discriminate H;
  inversion H; subst; clear H;
  repeat match goal with F : free _ = true |- _ => apply free_none in F end;
  repeat match goal with
         | k : kont |- _ => destruct k
         | o : op |- _ => destruct o
         end;
  repeat match goal with |- context[after_bu _ ?ok] => is_var ok; destruct ok end;
  cbn [after_bu first_pc] in *.

Ltac norm_iff :=
  repeat match goal with
  | H : true = true <-> _ |- _ => apply iff_true_l in H
  | H : false = true <-> _ |- _ => apply iff_false_l in H
  end.

(* ---------------------------------------------------------------- M1-M3: who owns the mutexes *)

Definition M1 (c : cfg) : Prop := forall t, in_state (thr c t) = true <-> lks c = Some t.
Definition M2 (c : cfg) : Prop := forall t, in_ipc (thr c t) = true <-> lki c = Some t.
Definition M3 (c : cfg) : Prop := forall t, in_net (thr c t) = true <-> lkn c = Some t.

Ltac lock_step HM :=
  intros t'; simp; unfold upd;
  match goal with E : thr ?c ?t = _ |- _ =>
    pose proof (HM t) as L; rewrite E in L;
    destruct (Nat.eqb_spec t' t) as [->|n];
    [ | pose proof (HM t') as L' ];
    cbn [in_state in_ipc in_net] in *; norm_iff; intuition congruence
  end.

Lemma M1_step c t a c' o : tstep c t a = Some (c', o) -> M1 c -> M1 c'.
Proof. intros H HM. inv_step H; lock_step HM. Qed.

Lemma M2_step c t a c' o : tstep c t a = Some (c', o) -> M2 c -> M2 c'.
Proof. intros H HM. inv_step H; lock_step HM. Qed.

Lemma M3_step c t a c' o : tstep c t a = Some (c', o) -> M3 c -> M3 c'.
Proof. intros H HM. inv_step H; lock_step HM. Qed.

Lemma other_not_in (sec : pc -> bool) (th : nat -> pc) (l : option nat) t t' :
  (forall x, sec (th x) = true <-> l = Some x) -> l = Some t -> t' <> t -> sec (th t') = false.
Proof.
  intros HM L n. destruct (sec (th t')) eqn:Hs; [|reflexivity].
  apply HM in Hs. congruence.
Qed.

(* lock facts about the stepping thread: L1/L2/L3 : lk c = Some t  or  lk c <> Some t *)
Ltac facts HM1 HM2 HM3 :=
  match goal with E : thr ?c ?t = _ |- _ =>
    pose proof (HM1 t) as L1; pose proof (HM2 t) as L2; pose proof (HM3 t) as L3;
    rewrite E in L1, L2, L3; cbn [in_state in_ipc in_net] in L1, L2, L3; norm_iff
  end.

(* ---------------------------------------------------------------- (A) between Close and Open the bind is closed *)

Definition IA (c : cfg) : Prop := forall t, bu23 (thr c t) = true -> bopen c = false.

Lemma IA_step c t a c' o : tstep c t a = Some (c', o) -> M3 c -> IA c -> IA c'.
Proof.
  intros H HM3 HA. inv_step H; intros t'; simp;
  match goal with E : thr ?c ?t = _ |- _ =>
    destruct (Nat.eqb_spec t' t) as [->|n];
    [ rewrite upd_same; pose proof (HA t) as A; rewrite E in A; cbn [bu23] in *; solve [auto | congruence]
    | rewrite upd_other by assumption; pose proof (HA t') as A';
      first [ exact A' | intros; reflexivity
            | intros B; apply bu23_in_net in B; apply HM3 in B;
              pose proof (HM3 t) as L; rewrite E in L; cbn in L; norm_iff; congruence ] ]
  end.
Qed.

(* ---------------------------------------------------------------- (S) what the holder of state.mu knows about the state *)

Definition IS (c : cfg) : Prop := forall t, st_ok (thr c t) (st c) = true.

Lemma IS_step c t a c' o : tstep c t a = Some (c', o) -> M1 c -> IS c -> IS c'.
Proof.
  intros H HM1 HS. inv_step H; intros t'; simp;
  match goal with E : thr ?c ?t = _ |- _ =>
    destruct (Nat.eqb_spec t' t) as [->|n];
    [ rewrite upd_same; pose proof (HS t) as A; rewrite E in A;
      destruct (st c) eqn:ES; cbn in *; congruence
    | rewrite upd_other by assumption;
      first [ exact (HS t')
            | apply st_ok_nonstate; pose proof (HM1 t) as L; rewrite E in L; cbn in L; norm_iff;
              exact (other_not_in in_state (thr c) (lks c) t t' HM1 L n) ] ]
  end.
Qed.

(* ---------------------------------------------------------------- (O) an open bind has a reason *)

(* rewrite `holder` of the new configuration in the goal *)
Ltac holder_goal :=
  simp;
  try match goal with
  | |- context[holder ?f (Some ?t) (upd ?th ?t ?p)] => rewrite (holder_self f (Some t) th t p eq_refl)
  | |- context[holder ?f None ?th] => change (holder f None th) with false
  | L : ?l = Some ?t |- context[holder ?f ?l (upd ?th ?t ?p)] => rewrite (holder_self f l th t p L)
  | L : ?l <> Some ?t |- context[holder ?f ?l (upd ?th ?t ?p)] => rewrite (holder_other f l th t p L)
  end.

(* ... and of the old configuration in hypothesis A *)
Ltac holder_hyp A :=
  try match type of A with
  | context[holder ?f ?l ?th] =>
      match goal with
      | L : l = Some ?t, E : th ?t = _ |- _ => rewrite (holder_old f l th t L), E in A
      | F : l = None |- _ => rewrite F in A; change (holder f None th) with false in A
      end
  end.

Definition IO (c : cfg) : Prop :=
  forall t, bopen c || bu3t (thr c t) = true ->
            is_up (st c) || holder pendclose (lks c) (thr c) = true.

Lemma IO_step c t a c' o : tstep c t a = Some (c', o) -> M1 c -> M2 c -> M3 c -> IO c -> IO c'.
Proof.
  intros H HM1 HM2 HM3 HO. inv_step H; facts HM1 HM2 HM3; intros t'; holder_goal;
  match goal with E : thr ?c ?t = _ |- _ =>
    pose proof (HO t) as A; rewrite E in A; holder_hyp A;
    destruct (Nat.eqb_spec t' t) as [->|n];
    [ rewrite upd_same
    | rewrite upd_other by assumption; pose proof (HO t') as A'; holder_hyp A';
      try (assert (N3 : bu3t (thr c t') = false)
            by (destruct (bu3t (thr c t')) eqn:B; [|reflexivity]; apply bu3t_in_net in B;
                rewrite (other_not_in in_net (thr c) (lkn c) t t' HM3 L3 n) in B; discriminate B);
           rewrite N3 in * ) ];
    destruct (st c) eqn:ES; cbn [is_up bu3t pendclose orb] in *;
    repeat match goal with
    | |- context[bopen ?c] => destruct (bopen c)
    | |- context[bu3t ?p] => destruct (bu3t p)
    | |- context[holder ?f ?l ?th] => destruct (holder f l th)
    | _ : context[bopen ?c] |- _ => destruct (bopen c)
    | _ : context[bu3t ?p] |- _ => destruct (bu3t p)
    | _ : context[holder ?f ?l ?th] |- _ => destruct (holder f l th)
    end; cbn in *; solve [auto | congruence]
  end.
Qed.

(* ---------------------------------------------------------------- (P1) running peers on a closed device have a pending stopper *)

Ltac crush_bool :=
  repeat match goal with
  | |- context[peers ?c] => destruct (peers c)
  | |- context[holder ?f ?l ?th] => destruct (holder f l th)
  | _ : context[peers ?c] |- _ => destruct (peers c)
  | _ : context[holder ?f ?l ?th] |- _ => destruct (holder f l th)
  end; cbn in *; solve [auto | congruence].

Definition IP (c : cfg) : Prop :=
  peers c = true -> negb (is_closed (st c)) || holder pendstopC (lks c) (thr c) = true.

Lemma IP_step c t a c' o : tstep c t a = Some (c', o) -> M1 c -> M2 c -> M3 c -> IP c -> IP c'.
Proof.
  intros H HM1 HM2 HM3 HP. inv_step H; facts HM1 HM2 HM3; unfold IP; holder_goal;
  pose proof HP as A; unfold IP in A; holder_hyp A;
  destruct (st c) eqn:ES; cbn [is_closed negb pendstopC orb] in *; crush_bool.
Qed.

(* ---------------------------------------------------------------- (P2) without the UAPI peer section, running peers
   on a device that is not up have a pending stopper *)

Definition NoP (c : cfg) : Prop := forall t, isP (thr c t) = false.

Definition not_peerstart (x : nat * act) : bool :=
  match snd x with Start OpPeerStart => false | _ => true end.

Lemma NoP_step c t a c' o :
  tstep c t a = Some (c', o) -> not_peerstart (t, a) = true -> NoP c -> NoP c'.
Proof.
  intros H Ha HN. inv_step H; try discriminate Ha; intros t'; simp;
  match goal with E : thr ?c ?t = _ |- _ =>
    destruct (Nat.eqb_spec t' t) as [->|n];
    [ rewrite upd_same; pose proof (HN t) as A; rewrite E in A; cbn in *; congruence
    | rewrite upd_other by assumption; exact (HN t') ]
  end.
Qed.

Definition IP2 (c : cfg) : Prop :=
  peers c = true -> is_up (st c) || holder pendstop (lks c) (thr c) = true.

Lemma IP2_step c t a c' o :
  tstep c t a = Some (c', o) -> M1 c -> M2 c -> M3 c -> IS c -> NoP c -> IP2 c -> IP2 c'.
Proof.
  intros H HM1 HM2 HM3 HS HN HP. inv_step H; facts HM1 HM2 HM3; unfold IP2; holder_goal;
  pose proof HP as A; unfold IP2 in A; holder_hyp A;
  match goal with E : thr ?c ?t = _ |- _ =>
    pose proof (HS t) as S; pose proof (HN t) as N; rewrite E in S, N
  end;
  destruct (st c) eqn:ES; cbn [is_up is_down is_closed negb pendstop orb st_ok isP] in *;
  try discriminate; crush_bool.
Qed.

(* ---------------------------------------------------------------- the invariant of reachable configurations *)

Record Inv (c : cfg) : Prop := {
  inv_m1 : M1 c;    (* in_state (thr c t) = true <-> lks c = Some t *)
  inv_m2 : M2 c;    (* in_ipc   (thr c t) = true <-> lki c = Some t *)
  inv_m3 : M3 c;    (* in_net   (thr c t) = true <-> lkn c = Some t *)
  inv_a : IA c;     (* a thread at BU2/BU3 -> bind closed *)
  inv_s : IS c;     (* st_ok (thr c t) (st c) *)
  inv_o : IO c;     (* bind open or a thread at BU3 _ true -> up, or the state.mu holder still has to Close *)
  inv_p : IP c      (* peers running -> not closed, or the state.mu holder still has to stop them *)
}.

Lemma Inv_init : Inv init.
Proof.
  split; try (intros t; cbn; split; discriminate); try (intros t; cbn; congruence).
Qed.

Lemma Inv_step c t a c' o : tstep c t a = Some (c', o) -> Inv c -> Inv c'.
Proof.
  intros H [H1 H2 H3 HA HS HO HP]. split.
  - eapply M1_step; eauto.
  - eapply M2_step; eauto.
  - eapply M3_step; eauto.
  - eapply IA_step; eauto.
  - eapply IS_step; eauto.
  - eapply IO_step; eauto.
  - eapply IP_step; eauto.
Qed.

Lemma run_cons c t a r :
  run c ((t, a) :: r) =
  match tstep c t a with
  | Some (c1, o) => (fst (run c1 r), o ++ snd (run c1 r))
  | None => run c r
  end.
Proof.
  cbn [run]. destruct (tstep c t a) as [[c1 o]|]; [|reflexivity]. destruct (run c1 r); reflexivity.
Qed.

(* invariants along schedules whose choices all satisfy `ok` *)
Lemma run_ind_inv (I : cfg -> Prop) (ok : nat * act -> bool) :
  (forall c t a c' o, ok (t, a) = true -> I c -> tstep c t a = Some (c', o) -> I c') ->
  forall sched c, forallb ok sched = true -> I c -> I (fst (run c sched)).
Proof.
  intros Hs. induction sched as [|[t a] r IH]; intros c Hok Hc; [exact Hc|].
  cbn [forallb] in Hok. apply andb_prop in Hok as [Hk1 Hk2]. rewrite run_cons.
  destruct (tstep c t a) as [[c1 o]|] eqn:E; cbn [fst]; apply IH; eauto.
Qed.

Lemma run_inv sched : forall c, Inv c -> Inv (fst (run c sched)).
Proof.
  induction sched as [|[t a] r IH]; intros c Hc; [exact Hc|]. rewrite run_cons.
  destruct (tstep c t a) as [[c1 o]|] eqn:E; cbn [fst]; apply IH; [eapply Inv_step; eauto|exact Hc].
Qed.

Lemma reach_inv sched : Inv (reach sched).
Proof. apply run_inv, Inv_init. Qed.

(* ---------------------------------------------------------------- T1 *)

Lemma step_out c t a c' o :
  tstep c t a = Some (c', o) -> IA c ->
  (o = [] /\ bopen c' = bopen c) \/ (o = [OClose] /\ bopen c' = false)
  \/ (o = [OOpen] /\ bopen c = false /\ bopen c' = true).
Proof.
  intros H HA. inv_step H; simp;
  first [ left; split; reflexivity | right; left; split; reflexivity | right; right ];
  (split; [reflexivity|split; [|reflexivity]]);
  match goal with E : thr ?c ?t = _ |- _ => apply (HA t); rewrite E; reflexivity end.
Qed.

Lemma nodouble_run sched : forall c, Inv c -> nodoubleb (bopen c) (snd (run c sched)) = true.
Proof.
  induction sched as [|[t a] r IH]; intros c Hc; [reflexivity|]. rewrite run_cons.
  destruct (tstep c t a) as [[c1 o]|] eqn:E; [|apply IH; exact Hc]. cbn [snd].
  specialize (IH c1 (Inv_step _ _ _ _ _ E Hc)).
  destruct (step_out _ _ _ _ _ E (inv_a _ Hc)) as [[-> Hb]|[[-> Hb]|[-> [Hb1 Hb2]]]];
    cbn [app nodoubleb].
  - rewrite <- Hb. exact IH.
  - rewrite <- Hb. exact IH.
  - rewrite Hb1. rewrite Hb2 in IH. exact IH.
Qed.

Theorem no_double_open : forall sched, nodoubleb false (outputs sched) = true.
Proof. intros sched. exact (nodouble_run sched init Inv_init). Qed.

Lemma step_co c t a c' o pcl :
  tstep c t a = Some (c', o) -> M3 c -> (forall u, bu23 (thr c u) = true -> pcl = true) ->
  (o = [] /\ (forall u, bu23 (thr c' u) = true -> pcl = true)) \/ o = [OClose]
  \/ (o = [OOpen] /\ pcl = true /\ forall u, bu23 (thr c' u) = false).
Proof.
  intros H HM3 Hp. inv_step H; simp;
  match goal with E : thr ?c ?t = _ |- _ =>
    first
    [ left; split; [reflexivity|]; intros u;
      destruct (Nat.eqb_spec u t) as [->|n];
      [ rewrite upd_same; cbn [bu23]; intros B; try discriminate B; apply (Hp t); rewrite E; reflexivity
      | rewrite upd_other by assumption; apply Hp ]
    | right; left; reflexivity
    | right; right; split; [reflexivity|]; split;
      [ apply (Hp t); rewrite E; reflexivity
      | intros u; destruct (Nat.eqb_spec u t) as [->|n];
        [ rewrite upd_same; reflexivity
        | rewrite upd_other by assumption;
          destruct (bu23 (thr c u)) eqn:B; [|reflexivity]; apply bu23_in_net in B;
          pose proof (HM3 t) as L; rewrite E in L; cbn in L; norm_iff;
          rewrite (other_not_in in_net (thr c) (lkn c) t u HM3 L n) in B; discriminate B ] ] ]
  end.
Qed.

Lemma closeopen_run sched : forall c pcl, Inv c ->
  (forall u, bu23 (thr c u) = true -> pcl = true) -> closeopenb pcl (snd (run c sched)) = true.
Proof.
  induction sched as [|[t a] r IH]; intros c pcl Hc Hp; [reflexivity|]. rewrite run_cons.
  destruct (tstep c t a) as [[c1 o]|] eqn:E; [|apply IH; assumption]. cbn [snd].
  pose proof (Inv_step _ _ _ _ _ E Hc) as Hc1.
  destruct (step_co _ _ _ _ _ pcl E (inv_m3 _ Hc) Hp) as [[-> Hp1]|[->|[-> [-> Hp1]]]];
    cbn [app closeopenb andb].
  - apply IH; assumption.
  - apply IH; [assumption|reflexivity].
  - apply IH; [assumption|]. intros u B. rewrite Hp1 in B. discriminate B.
Qed.

Theorem open_follows_close : forall sched, closeopenb false (outputs sched) = true.
Proof.
  intros sched. apply closeopen_run; [exact Inv_init|]. intros u B. discriminate B.
Qed.

(* ---------------------------------------------------------------- T2 *)

Lemma closed_step c t a c' o : tstep c t a = Some (c', o) -> IS c -> st c = SClosed -> st c' = SClosed.
Proof.
  intros H HS Hc. inv_step H; simp; try congruence;
  match goal with E : thr ?c ?t = _ |- _ =>
    pose proof (HS t) as S; rewrite E, Hc in S; cbn in S; discriminate S
  end.
Qed.

Lemma closed_run sched : forall c, Inv c -> st c = SClosed -> st (fst (run c sched)) = SClosed.
Proof.
  induction sched as [|[t a] r IH]; intros c Hc Hcl; [exact Hcl|]. rewrite run_cons.
  destruct (tstep c t a) as [[c1 o]|] eqn:E; cbn [fst]; [|apply IH; assumption].
  apply IH; [eapply Inv_step; eauto|eapply closed_step; eauto using inv_s].
Qed.

Theorem closed_is_absorbing : forall sched1 sched2,
  st (reach sched1) = SClosed -> st (fst (run (reach sched1) sched2)) = SClosed.
Proof. intros sched1 sched2 H. apply closed_run; [apply reach_inv|exact H]. Qed.

(* ---------------------------------------------------------------- T3 *)

Definition Qc (c : cfg) : Prop :=
  st c = SClosed /\ bopen c = false /\ peers c = false /\ forall t, bu3t (thr c t) = false.

Lemma Qc_step c t a c' o :
  tstep c t a = Some (c', o) -> IS c -> Qc c -> Qc c' /\ no_open o = true.
Proof.
  intros H HS (Q1 & Q2 & Q3 & Q4). inv_step H; simp;
  match goal with E : thr ?c ?t = _ |- _ =>
    pose proof (HS t) as S; pose proof (Q4 t) as B; rewrite E in S, B; try rewrite Q1 in *;
    cbn in S, B; try discriminate;
    (split; [|reflexivity]); unfold Qc; simp; (split; [|split; [|split]]);
    try assumption; try reflexivity; try congruence;
    (intros u; destruct (Nat.eqb_spec u t) as [->|n];
     [ rewrite upd_same; reflexivity | rewrite upd_other by assumption; apply Q4 ])
  end.
Qed.

Lemma no_open_app a b : no_open (a ++ b) = no_open a && no_open b.
Proof. induction a as [|[|] a IH]; cbn [app no_open andb]; auto. Qed.

Lemma Qc_run sched : forall c, Inv c -> Qc c ->
  Qc (fst (run c sched)) /\ no_open (snd (run c sched)) = true.
Proof.
  induction sched as [|[t a] r IH]; intros c Hc HQ; [split; [exact HQ|reflexivity]|]. rewrite run_cons.
  destruct (tstep c t a) as [[c1 o]|] eqn:E; cbn [fst snd]; [|apply IH; assumption].
  destruct (Qc_step _ _ _ _ _ E (inv_s _ Hc) HQ) as [HQ1 Ho].
  destruct (IH c1 (Inv_step _ _ _ _ _ E Hc) HQ1) as [HQ2 Hos].
  split; [exact HQ2|]. rewrite no_open_app, Ho, Hos. reflexivity.
Qed.

(* nobody holds state.mu and the device is not up: bind closed, nobody about to open it *)
Lemma quiet c :
  IO c -> is_up (st c) = false -> holder pendclose (lks c) (thr c) = false ->
  bopen c = false /\ forall u, bu3t (thr c u) = false.
Proof.
  intros HO Hu Hh.
  assert (A : forall u, bopen c || bu3t (thr c u) = false).
  { intros u. destruct (bopen c || bu3t (thr c u)) eqn:B; [|reflexivity].
    apply HO in B. rewrite Hu, Hh in B. discriminate B. }
  split; [|intros u]; [specialize (A 0)|specialize (A u)]; apply orb_false_elim in A; tauto.
Qed.

Lemma bu3t_false_neq p : bu3t p = false -> forall k, p <> BU3 k true.
Proof. intros H k ->. discriminate H. Qed.

Lemma closed_unlocked_Qc c : Inv c -> st c = SClosed -> lks c = None -> Qc c.
Proof.
  intros Hc Hs Hl.
  destruct (quiet c (inv_o _ Hc)) as [Hb H3]; [rewrite Hs; reflexivity|rewrite Hl; reflexivity|].
  split; [exact Hs|split; [exact Hb|split; [|exact H3]]].
  destruct (peers c) eqn:P; [|reflexivity]. pose proof (inv_p _ Hc P) as A.
  rewrite Hs, Hl in A. discriminate A.
Qed.

Theorem closed_no_reopen : forall sched1 sched2, let c := reach sched1 in
  st c = SClosed -> lks c = None ->
  no_open (snd (run c sched2)) = true /\ bopen (fst (run c sched2)) = false
  /\ peers (fst (run c sched2)) = false.
Proof.
  intros sched1 sched2 c Hs Hl.
  destruct (Qc_run sched2 c (reach_inv sched1) (closed_unlocked_Qc c (reach_inv sched1) Hs Hl))
    as [(_ & Hb & Hp & _) Ho].
  auto.
Qed.

(* ---------------------------------------------------------------- T4 *)

Definition at_down_return (p : pc) : bool := match p with DN7 _ => true | _ => false end.
Definition at_close_return (p : pc) : bool := match p with C9 => true | _ => false end.
Definition no_peerstart (sched : list (nat * act)) : bool :=
  forallb (fun x => match snd x with Start OpPeerStart => false | _ => true end) sched.

(* invariant of schedules that never enter the UAPI peer section *)
Definition InvNoP (c : cfg) : Prop := Inv c /\ NoP c /\ IP2 c.

Lemma InvNoP_init : InvNoP init.
Proof.
  split; [exact Inv_init|split]; [intros t; reflexivity|]. unfold IP2. cbn. discriminate.
Qed.

Lemma InvNoP_step c t a c' o :
  not_peerstart (t, a) = true -> InvNoP c -> tstep c t a = Some (c', o) -> InvNoP c'.
Proof.
  intros Ha (Hc & HN & HP) H. split; [eapply Inv_step; eauto|split].
  - eapply NoP_step; eauto.
  - destruct Hc. eapply IP2_step; eauto.
Qed.

Lemma no_peerstart_inv sched : no_peerstart sched = true -> InvNoP (reach sched).
Proof.
  intros H. unfold reach.
  apply (run_ind_inv InvNoP not_peerstart InvNoP_step sched init H InvNoP_init).
Qed.

Theorem after_down_or_close_bind_closed_and_peers_stopped : forall sched t, let c := reach sched in
  (at_down_return (thr c t) = true \/ at_close_return (thr c t) = true) ->
  bopen c = false /\ (forall u k, thr c u <> BU3 k true)
  /\ (at_close_return (thr c t) = true -> peers c = false)
  /\ (no_peerstart sched = true -> peers c = false).
Proof.
  intros sched t c Hat. pose proof (reach_inv sched) as Hc. fold c in Hc.
  pose proof (inv_s _ Hc t) as S.
  assert (L : lks c = Some t).
  { apply (inv_m1 _ Hc). destruct Hat as [H|H]; destruct (thr c t); try discriminate H; reflexivity. }
  assert (Hu : is_up (st c) = false).
  { destruct Hat as [H|H]; destruct (thr c t); try discriminate H; cbn in S;
      destruct (st c); try discriminate S; reflexivity. }
  assert (Hh : forall f, f (thr c t) = false -> holder f (lks c) (thr c) = false).
  { intros f Hf. rewrite (holder_old f _ _ _ L). exact Hf. }
  destruct (quiet c (inv_o _ Hc) Hu) as [Hb H3].
  { apply Hh. destruct Hat as [H|H]; destruct (thr c t); try discriminate H; reflexivity. }
  split; [exact Hb|split; [|split]].
  - intros u k. apply bu3t_false_neq, H3.
  - intros H. destruct (peers c) eqn:P; [|reflexivity]. pose proof (inv_p _ Hc P) as A.
    rewrite Hh in A by (destruct (thr c t); try discriminate H; reflexivity).
    destruct (thr c t); try discriminate H. cbn in S. destruct (st c); discriminate.
  - intros Hn. destruct (no_peerstart_inv sched Hn) as (_ & _ & HP2). fold c in HP2.
    destruct (peers c) eqn:P; [|reflexivity]. pose proof (HP2 P) as A. rewrite Hu in A.
    rewrite Hh in A; [discriminate A|].
    destruct Hat as [H|H]; destruct (thr c t); try discriminate H; reflexivity.
Qed.

Theorem down_stays_quiet : forall sched, let c := reach sched in
  lks c = None -> st c <> SUp -> bopen c = false /\ (forall u k, thr c u <> BU3 k true).
Proof.
  intros sched c Hl Hs. pose proof (reach_inv sched) as Hc. fold c in Hc.
  destruct (quiet c (inv_o _ Hc)) as [Hb H3].
  - destruct (st c); try reflexivity. congruence.
  - rewrite Hl. reflexivity.
  - split; [exact Hb|]. intros u k. apply bu3t_false_neq, H3.
Qed.

(* ---------------------------------------------------------------- T5: Down does not stop a racing UAPI peer start *)

Definition race_sched : list (nat * act) :=
  (0, Start OpUp) :: repeat (0, Go true) 12 ++
  [(1, Start OpPeerStart); (1, Go true); (1, Go true)] ++
  (2, Start OpDown) :: repeat (2, Go true) 7 ++
  [(1, Go true)].

Lemma peer_running_after_down_reachable : exists sched t, let c := reach sched in
  thr c t = DN7 KDown /\ peers c = true /\ st c = SDown.
Proof. exists race_sched, 2. vm_compute. auto. Qed.

Print Assumptions no_double_open.
Print Assumptions open_follows_close.
Print Assumptions closed_is_absorbing.
Print Assumptions closed_no_reopen.
Print Assumptions after_down_or_close_bind_closed_and_peers_stopped.
Print Assumptions down_stays_quiet.
Print Assumptions peer_running_after_down_reachable.
