(* C13 — lock discipline of the control plane.
   Threads are straight-line programs over Lock/Unlock/RLock/RUnlock/WaitFor.
   Locks are Go sync.RWMutex (a sync.Mutex is an RWMutex that is never read-locked):

     Lock l    two phases, as in Go: (1) ANNOUNCE — take the writer slot (enabled iff no other
               writer owns it); from now on new RLocks block (writer preference);
               (2) ENTER — enabled once the active readers have drained.
     RLock l   enabled iff no writer owns the writer slot (holding OR pending).
     WaitFor u enabled iff thread u has run to completion (sync.WaitGroup.Wait on a goroutine
               set / a join; one instruction per awaited goroutine).

   Own small-step semantics; no proofs in this file (LockProofs.v has the generic theorem,
   Proofs.v the device instance).  The model is a superset of Go's behaviours in one respect:
   when a writer unlocks, waiting readers and the next writer race freely (Go lets the readers
   that were already waiting in first).  Stuck configurations coincide. *)
From WG Require Import Base.Prelude.

Inductive instr :=
| Lock (l : nat) | Unlock (l : nat)
| RLock (l : nat) | RUnlock (l : nat)
| WaitFor (u : nat).

(* held is ghost state: the locks this thread owns, with mode (true = write). *)
Record thread := { ann : bool; held : list (nat * bool); prog : list instr }.
Record lockst := { wown : option nat; readers : list nat }.
Record cfg := { threads : list thread; locks : nat -> lockst }.

Definition free : lockst := {| wown := None; readers := [] |}.
Definition upd (f : nat -> lockst) (l : nat) (v : lockst) : nat -> lockst :=
  fun x => if Nat.eqb x l then v else f x.

Definition heq (a b : nat * bool) : bool := Nat.eqb (fst a) (fst b) && Bool.eqb (snd a) (snd b).
Fixpoint remove1 (x : nat * bool) (l : list (nat * bool)) : list (nat * bool) :=
  match l with
  | [] => []
  | y :: t => if heq x y then t else y :: remove1 x t
  end.
Fixpoint remove_nat (x : nat) (l : list nat) : list nat :=
  match l with
  | [] => []
  | y :: t => if Nat.eqb x y then remove_nat x t else y :: remove_nat x t
  end.

Definition finished (c : cfg) (u : nat) : bool :=
  match nth_error (threads c) u with
  | Some th => match prog th with [] => true | _ => false end
  | None => true
  end.

Definition set_thread (c : cfg) (t : nat) (th : thread) (lk : nat -> lockst) : cfg :=
  {| threads := set_nth (threads c) t th; locks := lk |}.

(* One step of thread t; None = t is finished or blocked. *)
Definition step (c : cfg) (t : nat) : option cfg :=
  match nth_error (threads c) t with
  | None => None
  | Some th =>
      match prog th with
      | [] => None
      | Lock l :: p =>
          let ls := locks c l in
          if ann th then
            match readers ls with
            | [] => Some (set_thread c t {| ann := false; held := held th; prog := p |} (locks c))
            | _ :: _ => None
            end
          else
            match wown ls with
            | None => Some (set_thread c t {| ann := true; held := (l, true) :: held th; prog := prog th |}
                              (upd (locks c) l {| wown := Some t; readers := readers ls |}))
            | Some _ => None
            end
      | Unlock l :: p =>
          let ls := locks c l in
          Some (set_thread c t {| ann := false; held := remove1 (l, true) (held th); prog := p |}
                  (upd (locks c) l {| wown := None; readers := readers ls |}))
      | RLock l :: p =>
          let ls := locks c l in
          match wown ls with
          | None => Some (set_thread c t {| ann := false; held := (l, false) :: held th; prog := p |}
                            (upd (locks c) l {| wown := None; readers := t :: readers ls |}))
          | Some _ => None
          end
      | RUnlock l :: p =>
          let ls := locks c l in
          Some (set_thread c t {| ann := false; held := remove1 (l, false) (held th); prog := p |}
                  (upd (locks c) l {| wown := wown ls; readers := remove_nat t (readers ls) |}))
      | WaitFor u :: p =>
          if finished c u
          then Some (set_thread c t {| ann := false; held := held th; prog := p |} (locks c))
          else None
      end
  end.

Definition init (ps : list (list instr)) : cfg :=
  {| threads := map (fun p => {| ann := false; held := []; prog := p |}) ps; locks := fun _ => free |}.

(* A schedule is a list of thread ids; a disabled choice is skipped, so every reachable
   configuration is `run (init ps) sched` for some sched. *)
Fixpoint run (c : cfg) (sched : list nat) : cfg :=
  match sched with
  | [] => c
  | t :: r => match step c t with Some c' => run c' r | None => run c r end
  end.

(* Strict variant for explicit schedules: every choice must be enabled. *)
Fixpoint run_strict (c : cfg) (sched : list nat) : option cfg :=
  match sched with
  | [] => Some c
  | t :: r => match step c t with Some c' => run_strict c' r | None => None end
  end.

Definition all_done (c : cfg) : bool :=
  forallb (fun th => match prog th with [] => true | _ => false end) (threads c).

Definition enabledb (c : cfg) (t : nat) : bool :=
  match step c t with Some _ => true | None => false end.

(* stuck = somebody is unfinished and nobody can move: a deadlock *)
Definition stuckb (c : cfg) : bool :=
  negb (all_done c) && negb (existsb (enabledb c) (seq 0 (length (threads c)))).

(* ---------------------------------------------------------------- rank discipline *)

(* Static check of one program: along the program, every Lock/RLock takes a lock of rank
   strictly above every lock held at that point and strictly above the thread's own rank
   `base`; every WaitFor u happens with all held locks ranked strictly below trank u and with
   base < trank u; unlocks match a held lock of the right mode; nothing is held at the end. *)
Fixpoint ok_prog (rank trank : nat -> nat) (base : nat) (h : list (nat * bool)) (p : list instr) : bool :=
  match p with
  | [] => match h with [] => true | _ :: _ => false end
  | Lock l :: p' =>
      (base <? rank l) && forallb (fun x => rank (fst x) <? rank l) h
      && ok_prog rank trank base ((l, true) :: h) p'
  | RLock l :: p' =>
      (base <? rank l) && forallb (fun x => rank (fst x) <? rank l) h
      && ok_prog rank trank base ((l, false) :: h) p'
  | Unlock l :: p' => existsb (heq (l, true)) h && ok_prog rank trank base (remove1 (l, true) h) p'
  | RUnlock l :: p' => existsb (heq (l, false)) h && ok_prog rank trank base (remove1 (l, false) h) p'
  | WaitFor u :: p' =>
      (base <? trank u) && forallb (fun x => rank (fst x) <? trank u) h
      && ok_prog rank trank base h p'
  end.

Fixpoint all_ok_from (rank trank : nat -> nat) (t : nat) (ps : list (list instr)) : bool :=
  match ps with
  | [] => true
  | p :: r => ok_prog rank trank (trank t) [] p && all_ok_from rank trank (S t) r
  end.
Definition all_ok (rank trank : nat -> nat) (ps : list (list instr)) : bool := all_ok_from rank trank 0 ps.

(* The statement proved in LockProofs.v. *)
Definition never_deadlocks (ps : list (list instr)) : Prop :=
  forall sched, stuckb (run (init ps) sched) = false.

(* ---------------------------------------------------------------- search helper (unverified)
   Depth-first search for a stuck configuration; used only to FIND the explicit schedules of
   the `…_deadlocks` lemmas, which are then checked by run_strict + stuckb. *)
Fixpoint find_stuck (fuel : nat) (c : cfg) (acc : list nat) : option (list nat) :=
  match fuel with
  | O => None
  | S f =>
      if stuckb c then Some (rev acc)
      else
        (fix try (ts : list nat) : option (list nat) :=
           match ts with
           | [] => None
           | t :: r =>
               match step c t with
               | Some c' => match find_stuck f c' (t :: acc) with Some s => Some s | None => try r end
               | None => try r
               end
           end) (seq 0 (length (threads c)))
  end.
