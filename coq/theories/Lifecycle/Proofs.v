(* C13 — the device instance of the lock model (Locks.v): every public operation and every
   device goroutine of wireguard-go as a lock program, the rank order, the theorem that the
   operation set MINUS the listed inversions cannot deadlock, and for each listed inversion an
   explicit schedule of the FULL programs that reaches a stuck configuration.
   The lifecycle-automaton theorems are in AutomatonProofs.v, the generic lock theorem in
   LockProofs.v. *)
From WG Require Import Base.Prelude Lifecycle.Locks Lifecycle.LockProofs.

(* ---------------------------------------------------------------- lock classes (one peer) *)
Definition state := 0.  (* device.state.Mutex *)
Definition ipc := 1.    (* device.ipcMutex *)
Definition peers := 2.  (* device.peers.RWMutex *)
Definition pst := 3.    (* peer.state.Mutex (Start/Stop) *)
Definition trun := 4.   (* Timer.runningLock (held by the timer callback while it runs) *)
Definition net := 5.    (* device.net.RWMutex *)
Definition si := 6.     (* device.staticIdentity.RWMutex *)
Definition hs := 7.     (* peer.handshake.mutex *)
Definition kp := 8.     (* peer.keypairs.RWMutex *)
Definition itab := 9.   (* device.indexTable.RWMutex *)
Definition ep := 10.    (* peer.endpoint.Mutex *)
Definition aip := 11.   (* device.allowedips.mutex *)
Definition tmod := 12.  (* Timer.modifyingLock *)
Definition cc := 13.    (* device.cookieChecker.RWMutex *)
Definition cg := 14.    (* peer.cookieGenerator.RWMutex *)

(* The order the code follows everywhere except at the listed inversions. *)
Definition rank (l : nat) : nat :=
  match l with
  | 0 => 10 | 1 => 20 | 2 => 30 | 3 => 50 | 4 => 60 | 5 => 80 | 6 => 90 | 7 => 100 | 8 => 110
  | 9 => 120 | 10 => 130 | 11 => 140 | 12 => 150 | 13 => 160 | 14 => 170 | _ => 1000
  end.

(* ---------------------------------------------------------------- code fragments
   snd/rcv/rin/tunr = thread ids of the peer's RoutineSequentialSender / RoutineSequentialReceiver,
   of RoutineReceiveIncoming (net.stopping) and of RoutineReadFromTUN (state.stopping).
   inv = true: the code as it is; inv = false: the listed inversion sections left out. *)
Section Programs.
  Variables snd rcv rin tunr : nat.
  Variable inv : bool.

  Definition when (b : bool) (p : list instr) : list instr := if b then p else [].

  (* Peer.SendBuffers *)
  Definition send_buffers := [RLock net; Lock ep; Unlock ep; RUnlock net].
  (* Device.CreateMessageInitiation: staticIdentity.RLock, handshake.Lock, index table *)
  Definition create_initiation :=
    [RLock si; Lock hs; RLock itab; RUnlock itab; Lock itab; Unlock itab; Unlock hs; RUnlock si].
  (* Peer.SendHandshakeInitiation *)
  Definition send_hs_initiation :=
    [RLock hs; RUnlock hs; Lock hs; Unlock hs] ++ create_initiation
    ++ [Lock cg; Unlock cg; Lock tmod; Unlock tmod] ++ send_buffers ++ [Lock tmod; Unlock tmod].
  (* Peer.SendStagedPackets, worst case (no usable keypair) / Peer.SendKeepalive *)
  Definition send_staged := [RLock kp; RUnlock kp] ++ send_hs_initiation.
  (* Peer.timersStop: five times Timer.DelSync *)
  Definition timers_stop := [Lock tmod; Unlock tmod; Lock trun; Lock tmod; Unlock tmod; Unlock trun].
  (* Peer.ZeroAndFlushAll *)
  Definition zero_flush := [Lock kp; Lock itab; Unlock itab; Unlock kp; Lock hs; Lock itab; Unlock itab; Unlock hs].
  (* Peer.Stop: joins the two per-peer routines *)
  Definition peer_stop :=
    [Lock pst] ++ timers_stop ++ [WaitFor snd; WaitFor rcv] ++ zero_flush ++ [Unlock pst].
  (* Peer.Start *)
  Definition peer_start := [Lock pst; WaitFor snd; WaitFor rcv; Lock hs; Unlock hs; Unlock pst].
  (* Peer.ExpireCurrentKeypairs *)
  Definition expire_keypairs := [Lock hs; Lock itab; Unlock itab; Unlock hs; Lock kp; Unlock kp].
  (* Peer.BeginSymmetricSession *)
  Definition begin_session := [Lock hs; Lock kp; Lock itab; Unlock itab; Unlock kp; Unlock hs].

  (* Device.BindUpdate.  INVERSION E1: peers.RLock (markEndpointSrcForClearing loop) under net.Lock *)
  Definition bind_update :=
    [Lock net; WaitFor rin] ++ when inv [RLock peers; Lock ep; Unlock ep; RUnlock peers] ++ [Unlock net].

  Definition prog_up :=
    [Lock state] ++ bind_update ++ [Lock ipc; RLock peers] ++ peer_start ++ send_staged
    ++ [RUnlock peers; Unlock ipc; Unlock state].
  Definition prog_down :=
    [Lock state; Lock net; WaitFor rin; Unlock net; RLock peers] ++ peer_stop ++ [RUnlock peers; Unlock state].
  Definition prog_close :=
    [Lock state; Lock ipc; Lock net; WaitFor rin; Unlock net; RLock peers] ++ peer_stop
    ++ [RUnlock peers; Lock peers; Lock aip; Unlock aip; Lock pst; Unlock pst; Unlock peers;
        WaitFor tunr; Unlock ipc; Unlock state].
  Definition prog_bindupdate := bind_update.
  Definition prog_listen_port := [Lock ipc; Lock net; Unlock net] ++ bind_update ++ [Unlock ipc].
  (* INVERSION E1 again: BindSetMark *)
  Definition prog_fwmark :=
    [Lock ipc; Lock net] ++ when inv [RLock peers; Lock ep; Unlock ep; RUnlock peers] ++ [Unlock net; Unlock ipc].
  (* Device.RemovePeer (direct) and through UAPI *)
  Definition remove_peer := [Lock peers; Lock aip; Unlock aip] ++ peer_stop ++ [Unlock peers].
  Definition prog_remove_peer := [Lock ipc] ++ remove_peer ++ [Unlock ipc].
  (* Device.NewPeer.  INVERSION E3: peers.Lock under staticIdentity.RLock *)
  Definition new_peer :=
    when inv [RLock si] ++ [Lock peers; Lock cg; Unlock cg; Lock hs; Unlock hs; Lock ep; Unlock ep; Unlock peers]
    ++ when inv [RUnlock si].
  (* UAPI peer section: public_key (lookup or create), endpoint, allowed_ip, handlePostConfig *)
  Definition prog_add_peer :=
    [Lock ipc; RLock si; RUnlock si; RLock peers; RUnlock peers] ++ new_peer
    ++ [Lock ep; Unlock ep; Lock aip; Unlock aip] ++ peer_start ++ send_staged ++ send_staged ++ [Unlock ipc].
  (* Device.SetPrivateKey.  INVERSION E2: peers.Lock (and everything below it) under
     staticIdentity.Lock.  collide = the new public key equals the peer's: removePeerLocked. *)
  Definition set_private_key (collide : bool) :=
    when inv [Lock si] ++ [Lock peers; RLock hs]
    ++ when collide ([RUnlock hs; Lock aip; Unlock aip] ++ peer_stop ++ [RLock hs])
    ++ [Lock cc; Unlock cc; RUnlock hs] ++ expire_keypairs ++ [Unlock peers] ++ when inv [Unlock si].
  Definition prog_set_key (collide : bool) := [Lock ipc] ++ set_private_key collide ++ [Unlock ipc].
  (* IpcGetOperation.  INVERSION E4: peers.RLock under net.RLock + staticIdentity.RLock *)
  Definition prog_get :=
    [RLock ipc] ++ when inv [RLock net; RLock si]
    ++ [RLock peers; RLock hs; RUnlock hs; Lock ep; Unlock ep; RLock aip; RUnlock aip; RUnlock peers]
    ++ when inv [RUnlock si; RUnlock net] ++ [RUnlock ipc].

  (* goroutines *)
  Definition g_sender :=
    [Lock tmod; Unlock tmod] ++ send_buffers ++ [Lock tmod; Unlock tmod; RLock kp; RUnlock kp] ++ send_hs_initiation.
  Definition g_receiver :=
    [Lock kp; Unlock kp; Lock tmod; Unlock tmod; Lock ep; Unlock ep; Lock tmod; Unlock tmod; RLock kp; RUnlock kp]
    ++ send_hs_initiation ++ [RLock aip; RUnlock aip].
  Definition g_timer_retransmit :=
    [Lock trun; Lock tmod; Unlock tmod; Lock ep; Unlock ep] ++ send_hs_initiation ++ [Unlock trun].
  Definition g_timer_zero := [Lock trun; Lock tmod; Unlock tmod] ++ zero_flush ++ [Unlock trun].
  (* ConsumeMessageInitiation.  INVERSION E6: LookupPeer (peers.RLock) under staticIdentity.RLock *)
  Definition consume_initiation :=
    [RLock si] ++ when inv [RLock peers; RUnlock peers] ++ [RLock hs; RUnlock hs; Lock hs; Unlock hs; RUnlock si].
  (* ConsumeMessageResponse.  INVERSION E5: staticIdentity.RLock under handshake.RLock *)
  Definition consume_response :=
    [RLock itab; RUnlock itab; RLock hs] ++ when inv [RLock si; RUnlock si] ++ [RUnlock hs; Lock hs; Unlock hs].
  Definition send_hs_response :=
    [Lock hs; Unlock hs; Lock hs; RLock itab; RUnlock itab; Lock itab; Unlock itab; Unlock hs; Lock cg; Unlock cg]
    ++ begin_session ++ [Lock tmod; Unlock tmod] ++ send_buffers.
  Definition g_handshake :=
    [RLock cc; RUnlock cc] ++ consume_initiation ++ [Lock tmod; Unlock tmod; Lock ep; Unlock ep] ++ send_hs_response
    ++ [RLock cc; RUnlock cc] ++ consume_response ++ [Lock ep; Unlock ep] ++ begin_session ++ send_staged.
  Definition g_recv_incoming := [RLock itab; RUnlock itab; RLock itab; RUnlock itab].
  Definition g_tun_reader := [RLock aip; RUnlock aip] ++ send_staged.
End Programs.

(* ---------------------------------------------------------------- the device configuration
   thread ids: 0 Up, 1 Down, 2 Close, 3 BindUpdate (direct), 4 UAPI listen_port, 5 UAPI fwmark,
   6 UAPI remove peer, 7 UAPI peer section (add), 8 UAPI private_key (fresh key),
   9 UAPI private_key (collides with the peer's key), 10 UAPI get, 11 a second Down (TUN event),
   12 sender, 13 receiver, 14 timer (retransmit), 15 timer (zero key material),
   16 handshake worker, 17 RoutineReceiveIncoming, 18 RoutineReadFromTUN, 19 a second handshake worker *)
Definition device_programs (inv : bool) : list (list instr) :=
  let S := 12 in let R := 13 in let I := 17 in let T := 18 in
  [ prog_up S R I inv; prog_down S R I; prog_close S R I T; prog_bindupdate I inv; prog_listen_port I inv;
    prog_fwmark inv; prog_remove_peer S R; prog_add_peer S R inv; prog_set_key S R inv false;
    prog_set_key S R inv true; prog_get inv; prog_down S R I;
    g_sender; g_receiver; g_timer_retransmit; g_timer_zero; g_handshake inv; g_recv_incoming; g_tun_reader;
    g_handshake inv ].

(* Ranks of threads that are joined: the per-peer routines are awaited by Peer.Stop (holding
   peers and peer.state), RoutineReceiveIncoming by closeBindLocked (holding net),
   RoutineReadFromTUN by Close (holding state and ipc). *)
Definition trank (t : nat) : nat :=
  match t with
  | 12 | 13 => 70
  | 17 => 85
  | 18 => 25
  | _ => 0
  end.

Theorem device_locks_rank_ok : all_ok rank trank (device_programs false) = true.
Proof. vm_compute. reflexivity. Qed.

(* the same check REJECTS the code as it is: the elided sections are real violations of the order *)
Theorem device_full_code_violates_rank : all_ok rank trank (device_programs true) = false.
Proof. vm_compute. reflexivity. Qed.

Theorem device_minus_inversions_never_deadlocks : never_deadlocks (device_programs false).
Proof. apply (rank_respecting_programs_never_deadlock rank trank). exact device_locks_rank_ok. Qed.

(* ---------------------------------------------------------------- the listed inversions deadlock
   Each lemma: the FULL programs (inv = true) of the threads involved, an explicit schedule
   (every choice enabled: run_strict), and the configuration reached is stuck. *)
Definition deadlocks (ps : list (list instr)) (sched : list nat) : Prop :=
  match run_strict (init ps) sched with
  | Some c => stuckb c = true
  | None => False
  end.

Definition none := 99. (* a thread id that does not exist: WaitFor none passes *)
Definition rep (t n : nat) : list nat := List.repeat t n.

(* F3a (confirmed on the real code, replayed deterministically by the harness).
   0 BindUpdate: net.Lock held, about to take peers.RLock;  2 sender: blocked in SendBuffers on
   net.RLock;  1 UAPI remove: peers.Lock held, Peer.Stop waits for the sender. *)
Definition f3a_threads := [prog_bindupdate none true; prog_remove_peer 2 none; g_sender].
Lemma bindupdate_vs_removepeer_deadlocks :
  deadlocks f3a_threads (rep 0 3 ++ rep 2 3 ++ rep 1 18).
Proof. vm_compute. reflexivity. Qed.

(* F3b (confirmed, replayed).  0 UAPI private_key = the peer's key: staticIdentity.Lock and peers.Lock
   held, removePeerLocked -> Peer.Stop waits for the sender;  1 sender: after its send,
   keepKeyFreshSending -> SendHandshakeInitiation -> CreateMessageInitiation -> staticIdentity.RLock. *)
Definition f3b_threads := [prog_set_key 1 none true true; g_sender].
Lemma setprivatekey_collision_vs_sender_rekey_deadlocks :
  deadlocks f3b_threads (rep 0 22 ++ rep 1 18).
Proof. vm_compute. reflexivity. Qed.

(* F3c (candidate from reading, CONFIRMED by the stress harness, replayed).  Two parties:
   0 UAPI private_key (any new key): holds staticIdentity.Lock, ExpireCurrentKeypairs wants
   handshake.Lock;  1 ConsumeMessageResponse: holds handshake.RLock, wants staticIdentity.RLock. *)
Definition f3c_threads := [prog_set_key none none true false; consume_response true].
Lemma setprivatekey_vs_consume_response_deadlocks :
  deadlocks f3c_threads (rep 0 4 ++ rep 1 3 ++ rep 0 8).
Proof. vm_compute. reflexivity. Qed.

(* F3c, three-party form (observed by the stress harness with a private_key set to the SAME key):
   SetPrivateKey's staticIdentity.Lock is merely pending (writer preference);
   1 ConsumeMessageInitiation holds staticIdentity.RLock and wants handshake.Lock;
   2 ConsumeMessageResponse holds handshake.RLock and wants staticIdentity.RLock. *)
Definition f3c2_threads := [prog_set_key none none true false; consume_initiation true; consume_response true].
Lemma pending_setprivatekey_vs_consume_initiation_vs_consume_response_deadlocks :
  deadlocks f3c2_threads ([1] ++ rep 2 3 ++ rep 1 5 ++ rep 0 3).
Proof. vm_compute. reflexivity. Qed.

(* New (public Go API; not reachable through UAPI alone because upLocked holds ipcMutex; replayed):
   0 Up: holds peers.RLock in upLocked, SendKeepalive -> CreateMessageInitiation wants
   staticIdentity.RLock;  1 device.SetPrivateKey called directly: holds staticIdentity.Lock,
   wants peers.Lock. *)
Definition upkey_threads := [prog_up none none none true; set_private_key none none true false].
Lemma up_keepalive_vs_direct_setprivatekey_deadlocks :
  deadlocks upkey_threads (rep 0 29 ++ rep 1 3).
Proof. vm_compute. reflexivity. Qed.

(* E1, four-party form: Down (peers.RLock, Stop waits for the sender), sender (net.RLock),
   direct BindUpdate (net.Lock held, wants peers.RLock), a peers writer pending (NewPeer). *)
Definition down4_threads := [prog_down 2 none none; prog_bindupdate none true; g_sender; new_peer true].
Lemma down_vs_bindupdate_vs_pending_peers_writer_deadlocks :
  deadlocks down4_threads (rep 0 18 ++ rep 1 3 ++ rep 2 3 ++ [3; 3]).
Proof. vm_compute. reflexivity. Qed.

(* E2, three-party form (CONFIRMED on the real code by the thorough stress run, replayed with the
   receiver in the sender's place): 0 Down holds peers.RLock, Peer.Stop waits for the peer's
   routine;  2 that routine (sender after a send / receiver after a packet, key past a rekey
   threshold) is in CreateMessageInitiation wanting staticIdentity.RLock;  1 UAPI private_key
   (ANY key, no collision) holds staticIdentity.Lock and waits for peers.Lock. *)
Definition f3d_threads := [prog_down 2 none none; prog_set_key none none true false; g_sender].
Lemma down_vs_setprivatekey_vs_sender_rekey_deadlocks :
  deadlocks f3d_threads (rep 2 18 ++ rep 0 18 ++ rep 1 5).
Proof. vm_compute. reflexivity. Qed.

(* E2, three-party form through UAPI only (model-level candidate, NOT reproduced on the real code:
   the timer cannot be parked at a harness-owned point without also blocking Down's BindClose):
   0 Down holds peers.RLock, Peer.Stop -> Timer.DelSync waits for the running lock of
   2 the retransmit-timer callback, which wants staticIdentity.RLock (CreateMessageInitiation),
   1 UAPI private_key (any key) holds staticIdentity.Lock and waits for peers.Lock. *)
Definition e2t_threads := [prog_down none none none; prog_set_key none none true false; g_timer_retransmit].
Lemma down_vs_setprivatekey_vs_retransmit_timer_deadlocks :
  deadlocks e2t_threads (rep 2 13 ++ rep 0 12 ++ rep 1 5).
Proof. vm_compute. reflexivity. Qed.

(* E3 (direct API only: UAPI serialises these three): NewPeer holds staticIdentity.RLock and wants
   peers.Lock; RemovePeer holds peers.Lock, Stop waits for the sender; the sender wants
   staticIdentity.RLock behind a pending SetPrivateKey. *)
Definition e3_threads := [new_peer true; remove_peer 2 none; g_sender; set_private_key none none true false].
Lemma newpeer_vs_removepeer_vs_pending_setprivatekey_deadlocks :
  deadlocks e3_threads ([0] ++ rep 1 16 ++ [3] ++ rep 2 18).
Proof. vm_compute. reflexivity. Qed.

(* E4 (needs a direct RemovePeer): IpcGet holds net.RLock + staticIdentity.RLock and wants peers.RLock;
   RemovePeer holds peers.Lock, Stop waits for the sender; the sender wants net.RLock behind a
   pending BindUpdate. *)
Definition e4_threads := [prog_get true; remove_peer 2 none; g_sender; prog_bindupdate none true].
Lemma ipcget_vs_removepeer_vs_pending_bindupdate_deadlocks :
  deadlocks e4_threads (rep 0 3 ++ rep 1 16 ++ [3] ++ rep 2 3).
Proof. vm_compute. reflexivity. Qed.

(* E6 (needs a direct RemovePeer and SetPrivateKey): ConsumeMessageInitiation holds
   staticIdentity.RLock and wants peers.RLock (LookupPeer). *)
Definition e6_threads := [consume_initiation true; remove_peer 2 none; g_sender; set_private_key none none true false].
Lemma consume_initiation_lookup_vs_removepeer_vs_pending_setprivatekey_deadlocks :
  deadlocks e6_threads ([0] ++ rep 1 16 ++ [3] ++ rep 2 18).
Proof. vm_compute. reflexivity. Qed.

(* Sanity of the harness-side exclusions: with the overlap removed the same threads complete.
   (the elided programs are covered by device_minus_inversions_never_deadlocks; here: the full
   F3a programs run to completion when BindUpdate finishes before RemovePeer starts) *)
Definition steps (p : list instr) : nat :=
  fold_right (fun i n => match i with Lock _ => 2 + n | _ => 1 + n end) 0 p.
Lemma f3a_serialised_completes :
  match run_strict (init f3a_threads)
          (rep 0 (steps (prog_bindupdate none true)) ++ rep 2 (steps g_sender) ++ rep 1 (steps (prog_remove_peer 2 none))) with
  | Some c => all_done c = true
  | None => False
  end.
Proof. vm_compute. reflexivity. Qed.

Print Assumptions device_minus_inversions_never_deadlocks.
