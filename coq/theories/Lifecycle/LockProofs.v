(* C13 — generic theorem: programs that pass the static rank check never deadlock.

   Structure
     Inv rank trank c        invariant on configurations (per-thread ok_prog obligation +
                             "lock state implies ghost held state")
     init_inv / step_inv / run_inv
     blocker                 in a configuration where nobody can move, every unfinished thread
                             has an unfinished thread of strictly larger measure
     inv_not_stuck           Inv c -> stuckb c = false
     rank_respecting_programs_never_deadlock

   The measure of a thread is the rank of the lock it is about to take, or the thread-rank
   of the thread it is about to wait for.  Measures are bounded (finitely many threads), so
   an ever-ascending chain of blockers is impossible. *)
From WG Require Import Base.Prelude Lifecycle.Locks.

(* ---------------------------------------------------------------- list helpers *)

Lemma nth_error_set_nth_eq {A} (l : list A) i v x :
  nth_error l i = Some x -> nth_error (set_nth l i v) i = Some v.
Proof.
  revert i; induction l as [|h t IH]; intros [|i] H; cbn [nth_error set_nth] in *;
    try discriminate; auto.
Qed.

Lemma nth_error_set_nth_neq {A} (l : list A) i j v :
  i <> j -> nth_error (set_nth l i v) j = nth_error l j.
Proof.
  revert i j; induction l as [|h t IH]; intros [|i] [|j] H; cbn [nth_error set_nth];
    try reflexivity; try congruence.
  apply IH. congruence.
Qed.

(* remove1 only removes an entry that heq-matches *)
Lemma In_remove1 x y h : In x h -> heq y x = false -> In x (remove1 y h).
Proof.
  induction h as [|z t IH]; intros Hin Hne; cbn [remove1]; [exact Hin|].
  destruct Hin as [->|Hin].
  - rewrite Hne. left; reflexivity.
  - destruct (heq y z); [exact Hin|]. right. apply IH; assumption.
Qed.

Lemma In_remove_nat u t l : In u (remove_nat t l) -> u <> t /\ In u l.
Proof.
  induction l as [|y r IH]; cbn [remove_nat]; intros H; [destruct H|].
  destruct (Nat.eqb t y) eqn:E.
  - destruct (IH H) as [? ?]. split; [assumption|right; assumption].
  - destruct H as [<-|H].
    + split; [|left; reflexivity]. intros ->. rewrite Nat.eqb_refl in E. discriminate.
    + destruct (IH H) as [? ?]. split; [assumption|right; assumption].
Qed.

Lemma forallb_false_ex {A} (f : A -> bool) l :
  forallb f l = false -> exists x, In x l /\ f x = false.
Proof.
  induction l as [|a l IH]; cbn [forallb]; intros H; [discriminate|].
  destruct (f a) eqn:E.
  - destruct (IH H) as (x & Hx & Hf). exists x. split; [right; assumption|assumption].
  - exists a. split; [left; reflexivity|assumption].
Qed.

Section LockProofs.
  Variables rank trank : nat -> nat.

  (* ---------------------------------------------------------------- invariant *)

  (* (a) Per-thread obligation.  Not announced: the rest of the program passes the checker
     against the current ghost held list.  Announced (between the two phases of Lock l):
     (l,true) has already been pushed, the rank tests of that Lock against the old held list
     h' and the base are remembered, and the continuation passes the checker. *)
  Definition thread_ok (t : nat) (th : thread) : Prop :=
    if ann th then
      exists l p' h',
        prog th = Lock l :: p' /\ held th = (l, true) :: h' /\
        trank t < rank l /\
        forallb (fun x => rank (fst x) <? rank l) h' = true /\
        ok_prog rank trank (trank t) (held th) p' = true
    else ok_prog rank trank (trank t) (held th) (prog th) = true.

  (* thread u exists and its ghost state contains x *)
  Definition holder (c : cfg) (u : nat) (x : nat * bool) : Prop :=
    exists thu, nth_error (threads c) u = Some thu /\ In x (held thu).

  (* (b) Lock state implies ghost state (one direction is all the proof needs). *)
  Record Inv (c : cfg) : Prop := {
    inv_threads : forall t th, nth_error (threads c) t = Some th -> thread_ok t th;
    inv_wown : forall l u, wown (locks c l) = Some u -> holder c u (l, true);
    inv_readers : forall l u, In u (readers (locks c l)) -> holder c u (l, false)
  }.

  (* ---------------------------------------------------------------- init *)

  Lemma all_ok_from_nth k ps i p :
    all_ok_from rank trank k ps = true -> nth_error ps i = Some p ->
    ok_prog rank trank (trank (k + i)) [] p = true.
  Proof.
    revert k i; induction ps as [|q r IH]; intros k [|i] H Hn; cbn [nth_error] in Hn;
      try discriminate; cbn [all_ok_from] in H; apply andb_true_iff in H; destruct H as [H1 H2].
    - injection Hn as <-. rewrite Nat.add_0_r. exact H1.
    - replace (k + S i) with (S k + i) by lia. apply IH; assumption.
  Qed.

  Lemma init_inv ps : all_ok rank trank ps = true -> Inv (init ps).
  Proof.
    intros Hok. constructor.
    - intros t th Ht. unfold init in Ht. cbn [threads] in Ht.
      destruct (nth_error ps t) as [p|] eqn:Hp.
      + rewrite (map_nth_error _ _ _ Hp) in Ht. injection Ht as <-.
        unfold thread_ok. cbn [ann held prog].
        apply (all_ok_from_nth 0 ps t p); assumption.
      + apply nth_error_None in Hp.
        assert (nth_error (map (fun p => {| ann := false; held := []; prog := p |}) ps) t = None) as E
            by (apply nth_error_None; rewrite map_length; exact Hp).
        rewrite E in Ht. discriminate.
    - intros l u H. cbn in H. discriminate.
    - intros l u H. cbn in H. destruct H.
  Qed.

  (* ---------------------------------------------------------------- step preserves Inv *)

  (* Replacing thread t: other threads keep their ghost state; for t itself it is enough
     that the particular entry survives. *)
  Lemma holder_set_thread c t th th' lk u x :
    nth_error (threads c) t = Some th ->
    holder c u x ->
    (u = t -> In x (held th) -> In x (held th')) ->
    holder (set_thread c t th' lk) u x.
  Proof.
    intros Ht (thu & Hu & Hin) Hk. unfold holder, set_thread. cbn [threads].
    destruct (Nat.eq_dec u t) as [->|Hne].
    - exists th'. split; [eapply nth_error_set_nth_eq; eassumption|].
      rewrite Ht in Hu. injection Hu as <-. apply Hk; [reflexivity|assumption].
    - exists thu. split; [|assumption]. rewrite nth_error_set_nth_neq by congruence. assumption.
  Qed.

  (* Generic preservation: the new record of t is ok, and every writer slot / reader entry of
     the new lock map is either an old one whose ghost entry survives in t, or t itself with
     the entry present in the new ghost state. *)
  Lemma set_thread_inv c t th th' lk :
    Inv c -> nth_error (threads c) t = Some th -> thread_ok t th' ->
    (forall l u, wown (lk l) = Some u ->
        (wown (locks c l) = Some u /\ (u = t -> In (l, true) (held th) -> In (l, true) (held th')))
        \/ (u = t /\ In (l, true) (held th'))) ->
    (forall l u, In u (readers (lk l)) ->
        (In u (readers (locks c l)) /\ (u = t -> In (l, false) (held th) -> In (l, false) (held th')))
        \/ (u = t /\ In (l, false) (held th'))) ->
    Inv (set_thread c t th' lk).
  Proof.
    intros [Ha Hw Hr] Ht Hok HW HR.
    assert (Hself : forall x, In x (held th') -> holder (set_thread c t th' lk) t x).
    { intros x Hx. exists th'. split; [|exact Hx]. unfold set_thread. cbn [threads].
      eapply nth_error_set_nth_eq; eassumption. }
    constructor.
    - intros u thu Hu. unfold set_thread in Hu. cbn [threads] in Hu.
      destruct (Nat.eq_dec t u) as [<-|Hne].
      + rewrite (nth_error_set_nth_eq _ _ _ _ Ht) in Hu. injection Hu as <-. exact Hok.
      + rewrite nth_error_set_nth_neq in Hu by assumption. apply Ha; assumption.
    - intros l u H. cbn [set_thread locks] in H. destruct (HW l u H) as [[H1 H2]|[-> H2]].
      + eapply holder_set_thread; eauto.
      + apply Hself; assumption.
    - intros l u H. cbn [set_thread locks] in H. destruct (HR l u H) as [[H1 H2]|[-> H2]].
      + eapply holder_set_thread; eauto.
      + apply Hself; assumption.
  Qed.

  Lemma heq_mode_false l0 l m : heq (l0, m) (l, negb m) = false.
  Proof. unfold heq. cbn [fst snd]. destruct m; cbn; apply andb_false_r. Qed.

  Lemma heq_lock_false l0 l m m' : Nat.eqb l l0 = false -> heq (l0, m) (l, m') = false.
  Proof. intros E. unfold heq. cbn [fst snd]. rewrite Nat.eqb_sym, E. reflexivity. Qed.

  Lemma step_inv c t c' : Inv c -> step c t = Some c' -> Inv c'.
  Proof.
    intros HI Hs. unfold step in Hs.
    destruct (nth_error (threads c) t) as [th|] eqn:Ht; [|discriminate].
    pose proof (inv_threads c HI t th Ht) as Hok. unfold thread_ok in Hok.
    revert Hs Hok. destruct (prog th) as [|i p] eqn:Hp; [discriminate|].
    (* an announced thread is at a Lock: in all other cases ann th = false *)
    assert (Hann : (forall l, i <> Lock l) -> ann th = false).
    { intros Hi. destruct (ann th) eqn:Han; [|reflexivity]. exfalso.
      pose proof (inv_threads c HI t th Ht) as H. unfold thread_ok in H. rewrite Han in H.
      destruct H as (l & p' & h' & Hpr & _). rewrite Hp in Hpr. injection Hpr as -> _.
      eapply Hi; reflexivity. }
    destruct i as [l0|l0|l0|l0|u0].
    - (* Lock *)
      clear Hann. destruct (ann th) eqn:Han.
      + (* enter *)
        destruct (readers (locks c l0)) eqn:Hrd; [|discriminate].
        intros Hs (l & p' & h' & Hpr & Hh & Hb & Hf & Hok). injection Hs as <-.
        injection Hpr as -> ->.
        eapply set_thread_inv; [exact HI|exact Ht| | | ].
        * unfold thread_ok. cbn [ann held prog]. exact Hok.
        * intros l1 u H. left. split; [assumption|]. cbn [held]. auto.
        * intros l1 u H. left. split; [assumption|]. cbn [held]. auto.
      + (* announce *)
        destruct (wown (locks c l0)) eqn:Hwo; [discriminate|].
        intros Hs Hok. injection Hs as <-.
        cbn [ok_prog] in Hok. apply andb_true_iff in Hok. destruct Hok as [Hok H3].
        apply andb_true_iff in Hok. destruct Hok as [H1 H2]. apply Nat.ltb_lt in H1.
        eapply set_thread_inv; [exact HI|exact Ht| | | ].
        * unfold thread_ok. cbn [ann held prog]. exists l0, p, (held th). auto 6.
        * intros l u H. unfold upd in H. destruct (Nat.eqb l l0) eqn:E.
          -- apply Nat.eqb_eq in E. subst l. cbn [wown] in H. injection H as <-.
             right. split; [reflexivity|]. cbn [held]. left; reflexivity.
          -- left. split; [assumption|]. cbn [held]. intros _ Hin. right; assumption.
        * intros l u H. unfold upd in H. left. cbn [held]. split; [|intros _ Hin; right; assumption].
          destruct (Nat.eqb l l0) eqn:E; [|assumption].
          apply Nat.eqb_eq in E. subst l. exact H.
    - (* Unlock *)
      rewrite Hann by discriminate. intros Hs Hok. injection Hs as <-.
      cbn [ok_prog] in Hok. apply andb_true_iff in Hok. destruct Hok as [_ Hok].
      eapply set_thread_inv; [exact HI|exact Ht| | | ].
      + unfold thread_ok. cbn [ann held prog]. exact Hok.
      + intros l u H. unfold upd in H. destruct (Nat.eqb l l0) eqn:E; [discriminate|].
        left. split; [assumption|]. cbn [held]. intros _ Hin.
        apply In_remove1; [assumption|apply heq_lock_false; assumption].
      + intros l u H. unfold upd in H. left. cbn [held]. split.
        * destruct (Nat.eqb l l0) eqn:E; [|assumption]. apply Nat.eqb_eq in E. subst l. exact H.
        * intros _ Hin. apply In_remove1; [assumption|apply (heq_mode_false l0 l true)].
    - (* RLock *)
      rewrite Hann by discriminate.
      destruct (wown (locks c l0)) eqn:Hwo; [discriminate|].
      intros Hs Hok. injection Hs as <-.
      cbn [ok_prog] in Hok. apply andb_true_iff in Hok. destruct Hok as [_ Hok].
      eapply set_thread_inv; [exact HI|exact Ht| | | ].
      + unfold thread_ok. cbn [ann held prog]. exact Hok.
      + intros l u H. unfold upd in H. destruct (Nat.eqb l l0) eqn:E; [discriminate|].
        left. split; [assumption|]. cbn [held]. intros _ Hin. right; assumption.
      + intros l u H. unfold upd in H. cbn [held]. destruct (Nat.eqb l l0) eqn:E.
        * apply Nat.eqb_eq in E. subst l. cbn [readers] in H. destruct H as [<-|H].
          -- right. split; [reflexivity|left; reflexivity].
          -- left. split; [assumption|]. intros _ Hin. right; assumption.
        * left. split; [assumption|]. intros _ Hin. right; assumption.
    - (* RUnlock *)
      rewrite Hann by discriminate. intros Hs Hok. injection Hs as <-.
      cbn [ok_prog] in Hok. apply andb_true_iff in Hok. destruct Hok as [_ Hok].
      eapply set_thread_inv; [exact HI|exact Ht| | | ].
      + unfold thread_ok. cbn [ann held prog]. exact Hok.
      + intros l u H. unfold upd in H. left. cbn [held]. split.
        * destruct (Nat.eqb l l0) eqn:E; [|assumption]. apply Nat.eqb_eq in E. subst l. exact H.
        * intros _ Hin. apply In_remove1; [assumption|apply (heq_mode_false l0 l false)].
      + intros l u H. unfold upd in H. cbn [held]. destruct (Nat.eqb l l0) eqn:E.
        * apply Nat.eqb_eq in E. subst l. cbn [readers] in H.
          apply In_remove_nat in H. destruct H as [Hne H]. left. split; [assumption|].
          intros ->. contradiction.
        * left. split; [assumption|]. intros _ Hin.
          apply In_remove1; [assumption|apply heq_lock_false; assumption].
    - (* WaitFor *)
      rewrite Hann by discriminate.
      destruct (finished c u0); [|discriminate].
      intros Hs Hok. injection Hs as <-.
      cbn [ok_prog] in Hok. apply andb_true_iff in Hok. destruct Hok as [_ Hok].
      eapply set_thread_inv; [exact HI|exact Ht| | | ].
      + unfold thread_ok. cbn [ann held prog]. exact Hok.
      + intros l1 u H. left. split; [assumption|]. cbn [held]. auto.
      + intros l1 u H. left. split; [assumption|]. cbn [held]. auto.
  Qed.

  Lemma run_inv sched : forall c, Inv c -> Inv (run c sched).
  Proof.
    induction sched as [|t r IH]; intros c HI; cbn [run]; [exact HI|].
    destruct (step c t) as [c'|] eqn:Hs.
    - apply IH. eapply step_inv; eassumption.
    - apply IH. exact HI.
  Qed.

  (* ---------------------------------------------------------------- blocked threads *)

  (* Measure: what the thread is about to acquire / wait for. *)
  Definition meas (th : thread) : nat :=
    match prog th with
    | Lock l :: _ => rank l
    | RLock l :: _ => rank l
    | WaitFor u :: _ => trank u
    | _ => 0
    end.

  (* A thread that holds (l,m) and cannot move is unfinished and is waiting for something
     ranked strictly above l — except a pending writer of l itself (between announce and
     enter), which waits for the readers of l to drain. *)
  Lemma blocked_meas c u thu l m :
    thread_ok u thu -> nth_error (threads c) u = Some thu -> step c u = None ->
    In (l, m) (held thu) ->
    prog thu <> [] /\
    (rank l < meas thu \/ (m = true /\ ann thu = true /\ exists p, prog thu = Lock l :: p)).
  Proof.
    intros Hok Hu Hs Hin. unfold step in Hs. rewrite Hu in Hs. unfold thread_ok in Hok.
    destruct (ann thu) eqn:Han.
    - destruct Hok as (l' & p' & h' & Hpr & Hh & Hb & Hf & _).
      split; [rewrite Hpr; discriminate|].
      rewrite Hh in Hin. destruct Hin as [E|Hin].
      + injection E as -> <-. right. eauto.
      + left. unfold meas. rewrite Hpr.
        rewrite forallb_forall in Hf. apply Hf in Hin. cbn [fst] in Hin.
        apply Nat.ltb_lt in Hin. exact Hin.
    - unfold meas. revert Hs Hok. destruct (prog thu) as [|i p] eqn:Hp.
      + intros _ Hok. cbn [ok_prog] in Hok. destruct (held thu); [destruct Hin|discriminate].
      + intros Hs Hok. split; [discriminate|]. left.
        destruct i as [l0|l0|l0|l0|u0]; try discriminate;
          cbn [ok_prog] in Hok; apply andb_true_iff in Hok; destruct Hok as [Hok _];
          apply andb_true_iff in Hok; destruct Hok as [_ Hf];
          rewrite forallb_forall in Hf; apply Hf in Hin; cbn [fst] in Hin;
          apply Nat.ltb_lt in Hin; exact Hin.
  Qed.

  (* An unfinished thread that cannot move is waiting for something above its own rank. *)
  Lemma blocked_base c u thu :
    thread_ok u thu -> nth_error (threads c) u = Some thu -> step c u = None ->
    prog thu <> [] -> trank u < meas thu.
  Proof.
    intros Hok Hu Hs Hne. unfold step in Hs. rewrite Hu in Hs. unfold thread_ok in Hok.
    destruct (ann thu) eqn:Han.
    - destruct Hok as (l' & p' & h' & Hpr & Hh & Hb & Hf & _).
      unfold meas. rewrite Hpr. exact Hb.
    - unfold meas. revert Hs Hok. destruct (prog thu) as [|i p] eqn:Hp; [congruence|].
      intros Hs Hok.
      destruct i as [l0|l0|l0|l0|u0]; try discriminate;
        cbn [ok_prog] in Hok; apply andb_true_iff in Hok; destruct Hok as [Hok _];
        apply andb_true_iff in Hok; destruct Hok as [Hb _];
        apply Nat.ltb_lt in Hb; exact Hb.
  Qed.

  Section Stuck.
    Variable c : cfg.
    Hypothesis HI : Inv c.
    Hypothesis Hblk : forall t, step c t = None.

    (* an active reader of l is blocked above rank l *)
    Lemma reader_blocker l r :
      In r (readers (locks c l)) ->
      exists thr, nth_error (threads c) r = Some thr /\ prog thr <> [] /\ rank l < meas thr.
    Proof.
      intros Hr. destruct (inv_readers c HI l r Hr) as (thr & Hn & Hin).
      exists thr. split; [assumption|].
      destruct (blocked_meas c r thr l false (inv_threads c HI r thr Hn) Hn (Hblk r) Hin)
        as [Hne [Hlt|[Hf _]]]; [|discriminate].
      split; assumption.
    Qed.

    (* if the writer slot of l is taken, somebody unfinished is blocked above rank l:
       the owner itself, or (if the owner is still pending) one of the readers of l *)
    Lemma writer_blocker l w :
      wown (locks c l) = Some w ->
      exists u thu, nth_error (threads c) u = Some thu /\ prog thu <> [] /\ rank l < meas thu.
    Proof.
      intros Hw. destruct (inv_wown c HI l w Hw) as (thw & Hn & Hin).
      destruct (blocked_meas c w thw l true (inv_threads c HI w thw Hn) Hn (Hblk w) Hin)
        as [Hne [Hlt|(_ & Han & p & Hp)]].
      - exists w, thw. auto.
      - pose proof (Hblk w) as Hs. unfold step in Hs. rewrite Hn, Hp, Han in Hs.
        destruct (readers (locks c l)) as [|r rs] eqn:Hrd; [discriminate|].
        destruct (reader_blocker l r) as (thr & ? & ? & ?); [rewrite Hrd; left; reflexivity|].
        exists r, thr. auto.
    Qed.

    (* every unfinished thread has an unfinished thread of strictly larger measure *)
    Lemma blocker t th :
      nth_error (threads c) t = Some th -> prog th <> [] ->
      exists u thu, nth_error (threads c) u = Some thu /\ prog thu <> [] /\ meas th < meas thu.
    Proof.
      intros Ht Hne. pose proof (Hblk t) as Hs. unfold step in Hs. rewrite Ht in Hs.
      unfold meas at 1. revert Hs. destruct (prog th) as [|i p] eqn:Hp; [congruence|].
      destruct i as [l|l|l|l|u]; try discriminate.
      - destruct (ann th).
        + destruct (readers (locks c l)) as [|r rs] eqn:Hrd; [discriminate|]. intros _.
          destruct (reader_blocker l r) as (thr & ? & ? & ?); [rewrite Hrd; left; reflexivity|].
          exists r, thr. auto.
        + destruct (wown (locks c l)) as [w|] eqn:Hw; [|discriminate]. intros _.
          eapply writer_blocker; eassumption.
      - destruct (wown (locks c l)) as [w|] eqn:Hw; [|discriminate]. intros _.
        eapply writer_blocker; eassumption.
      - destruct (finished c u) eqn:Hf; [discriminate|]. intros _.
        unfold finished in Hf.
        destruct (nth_error (threads c) u) as [thu|] eqn:Hu; [|discriminate].
        assert (Hnu : prog thu <> []) by (destruct (prog thu); [discriminate|discriminate]).
        exists u, thu. split; [assumption|]. split; [assumption|].
        eapply blocked_base; eauto. eapply inv_threads; eassumption.
    Qed.

    (* measures are bounded, so ascending forever is impossible *)
    Lemma no_ascending K :
      (forall th, In th (threads c) -> meas th < K) ->
      forall n t th, nth_error (threads c) t = Some th -> prog th <> [] ->
                     K - meas th <= n -> False.
    Proof.
      intros HK. induction n as [|n IH]; intros t th Ht Hne Hn.
      - pose proof (HK th (nth_error_In _ _ Ht)). lia.
      - destruct (blocker t th Ht Hne) as (u & thu & Hu & Hnu & Hlt).
        pose proof (HK thu (nth_error_In _ _ Hu)).
        apply (IH u thu Hu Hnu). lia.
    Qed.
  End Stuck.

  Lemma measures_bounded (l : list thread) : exists K, forall th, In th l -> meas th < K.
  Proof.
    induction l as [|a l [K IH]].
    - exists 0. intros th [].
    - exists (S (Nat.max K (meas a))). intros th [<-|H]; [lia|].
      specialize (IH th H). lia.
  Qed.

  (* Key lemma: a configuration satisfying the invariant is never stuck. *)
  Lemma inv_not_stuck c : Inv c -> stuckb c = false.
  Proof.
    intros HI. unfold stuckb.
    destruct (all_done c) eqn:Hd; [reflexivity|].
    destruct (existsb (enabledb c) (seq 0 (length (threads c)))) eqn:He; [reflexivity|].
    exfalso.
    assert (Hblk : forall t, step c t = None).
    { intros t. destruct (step c t) as [c'|] eqn:Hs; [|reflexivity]. exfalso.
      destruct (lt_dec t (length (threads c))) as [Hlt|Hge].
      - assert (existsb (enabledb c) (seq 0 (length (threads c))) = true) as E.
        { apply existsb_exists. exists t. split; [apply in_seq; lia|].
          unfold enabledb. rewrite Hs. reflexivity. }
        congruence.
      - unfold step in Hs. rewrite (proj2 (nth_error_None _ _)) in Hs by lia. discriminate. }
    unfold all_done in Hd. apply forallb_false_ex in Hd. destruct Hd as (th & Hin & Hp).
    destruct (In_nth_error _ _ Hin) as [t Ht].
    destruct (measures_bounded (threads c)) as [K HK].
    apply (no_ascending c HI Hblk K HK (K - meas th) t th Ht); [|lia].
    destruct (prog th); [discriminate|discriminate].
  Qed.

  Theorem never_deadlocks_of_all_ok ps : all_ok rank trank ps = true -> never_deadlocks ps.
  Proof.
    intros Hok sched. apply inv_not_stuck. apply run_inv. apply init_inv. exact Hok.
  Qed.
End LockProofs.

Theorem rank_respecting_programs_never_deadlock :
  forall (rank trank : nat -> nat) (ps : list (list instr)),
    all_ok rank trank ps = true -> never_deadlocks ps.
Proof. intros rank trank ps. apply never_deadlocks_of_all_ok. Qed.

Print Assumptions rank_respecting_programs_never_deadlock.
