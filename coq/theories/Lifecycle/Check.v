(* Trace validation for C13: the observed bind log + public-API call log of one stress round is
   judged by the monitor of Automaton.v (the property's clauses on observable traces).
   Depends only on Automaton.v (no proof files). *)
From WG Require Import Base.Prelude Lifecycle.Automaton.
From WG Require Import Base.Ints.
Local Open Scope N_scope.

(* Events arrive as primitive integers  code + 32 * call id  (see harness/cmd/c13/stress.go):
   0 open, 1 close, 2 send accepted, 3 open attempted while open, 4 send refused (bind closed),
   5/6 invoke/return Up, 7/8 Down, 9/10 Close, 11/12 any other call,
   13 the harness found a peer running (end of an observation), 14/15 invoke/return of a UAPI set
   with a peer section, 16 begin of an observation, 17 the harness found a receive loop parked
   in its loop (end of an observation). *)
Definition decode1 (x : N) : list obs :=
  let code := x mod 32 in
  let id := x / 32 in
  match code with
  | 0 => [BOpen]
  | 1 => [BClose]
  | 2 => [BSend]
  | 3 => [BOpen]          (* the sim refused it, the device still CALLED Open on an open bind *)
  | 4 => [BRefused]
  | 5 => [InvUp id] | 6 => [RetUp id]
  | 7 => [InvDown id] | 8 => [RetDown id]
  | 9 => [InvClose id] | 10 => [RetClose id]
  | 11 => [InvOther id] | 12 => [RetOther id]
  | 13 => [PeerRunning id]
  | 16 => [ObsBegin id]
  | 17 => [RecvLoopRunning id]
  | 18 => [SendEnter id] | 19 => [SendExit id]
  | 14 => [InvPeerCfg id] | 15 => [RetPeerCfg id]
  | _ => []
  end.

Record case := { c_trace : list obs }.
Definition mk (l : list Uint63.int) : case := {| c_trace := flat_map (fun x => decode1 (n_of_int x)) l |}.

(* kind 1 = the trace does not have the shape the model's outputs always have (an Open not
            directly preceded by a Close): the implementation differs from the automaton;
   kind 2 = a clause of the property fails on the observed trace; position = event index,
            the violated clause is reported as 100 * clause + ... in the third component:
            (case, kind, 1000 * clause + position capped) *)
Definition check_case (k : case) : list (N * N) :=
  let v := monitor mon0 (c_trace k) 0 in
  map (fun p => if (fst p =? 5) || (fst p =? 9) then (1, 1000000 * fst p + snd p)
                else if fst p =? 6 then (3, 1000000 * 6 + snd p)      (* kind 3 = informational only *)
                else (2, 1000000 * fst p + snd p)) v.

Fixpoint check_cases (ks : list case) (idx : N) : list (N * N * N) :=
  match ks with
  | [] => []
  | k :: ks' => map (fun p => (idx, fst p, snd p)) (check_case k) ++ check_cases ks' (idx + 1)
  end.

(* statistics: [events; opens; closes; send runs; refused runs; Up calls; Down calls;
   clean Down returns (quiet windows opened); Close returns; cases with >= 2 opens and a quiet window] *)
Fixpoint count_obs (f : obs -> bool) (l : list obs) : N :=
  match l with [] => 0 | e :: r => (if f e then 1 else 0) + count_obs f r end.

Fixpoint quiet_windows (m : mon) (tr : list obs) : N :=
  match tr with
  | [] => 0
  | e :: r =>
      let m1 := fst (mstep m e) in
      (if negb (m_quiet m) && m_quiet m1 then 1 else 0) + quiet_windows m1 r
  end.

Definition case_stats (k : case) : list N :=
  let tr := c_trace k in
  let opens := count_obs (fun e => match e with BOpen => true | _ => false end) tr in
  let qw := quiet_windows mon0 tr in
  [ N.of_nat (length tr);
    opens;
    count_obs (fun e => match e with BClose => true | _ => false end) tr;
    count_obs (fun e => match e with BSend => true | _ => false end) tr;
    count_obs (fun e => match e with BRefused => true | _ => false end) tr;
    count_obs (fun e => match e with InvUp _ => true | _ => false end) tr;
    count_obs (fun e => match e with InvDown _ => true | _ => false end) tr;
    qw;
    count_obs (fun e => match e with RetClose _ => true | _ => false end) tr;
    if (2 <=? opens) && (1 <=? qw) then 1 else 0 ].

Fixpoint addl (a b : list N) : list N :=
  match a, b with
  | x :: a', y :: b' => (x + y) :: addl a' b'
  | _, _ => []
  end.

Definition stats (ks : list case) : list N :=
  fold_left (fun acc k => addl acc (case_stats k)) ks [0;0;0;0;0;0;0;0;0;0].

(* per-case non-triviality flags, for the measured distinct_nontrivial count *)
Definition nontrivial (ks : list case) : list N :=
  map (fun k => nth 9 (case_stats k) 0) ks.
