(* C13 — lifecycle automaton of device.go at the granularity of its critical sections.

   Device state: down/up/closed  x  bind open?  x  peers running?  x  owners of the three
   control-plane mutexes that order these operations (state.mu, ipcMutex, net — the net
   RWMutex only with its writers: readers are in Locks.v).
   Threads: an unbounded family of callers; an idle caller may start any operation, so every
   interleaving of any number of callers, each running any sequence of operations, is a
   schedule.  One step = one critical-section-sized atomic action of one thread:

     changeState(up)   U0 lock state; U1 read old; U2 store up; BindUpdate; U3 lock ipc;
                       U4 start peers; U5 unlock ipc; U6 unlock state
                       (Open failed: "bring the device all the way back down" = the down path)
     changeState(down) D0 lock state; D1 read old; DN2 store down; DN3 lock net; DN4 bind.Close;
                       DN5 unlock net; DN6 stop peers; DN7 unlock state
     Close             C0 lock state; C1 lock ipc; C2 closed already?; C3 store closed; C4 lock net;
                       C5 bind.Close; C6 unlock net; C7 stop + remove peers; C8 unlock ipc; C9 unlock state
     BindUpdate        BU0 lock net; BU1 closeBindLocked (bind.Close); BU2 the racy isUp() read —
                       a separate atomic step, its result carried in the program counter;
                       BU3 bind.Open (may fail) if the read said up; BU4 unlock net
                       called from upLocked (KUp), directly (KDirect), from UAPI listen_port (KListen)
     UAPI listen_port  L0 lock ipc; BindUpdate; L1 unlock ipc
     UAPI peer section P0 lock ipc; P1 the racy isUp() read of handlePostConfig; P2 Peer.Start
                       (which itself refuses on a closed device); P3 unlock ipc
     UAPI remove peer  R0 lock ipc; R1 Peer.Stop; R2 unlock ipc

   Outputs = the calls made on the bind: Open, Close.  No proofs in this file. *)
From WG Require Import Base.Prelude.

Inductive dstate := SDown | SUp | SClosed.
Inductive out := OOpen | OClose.

Inductive kont := KUp | KDirect | KListen. (* caller of BindUpdate *)
Inductive dk := KDown | KUpFailed.         (* who runs the down path *)

Inductive pc :=
| Idle
| U0 | U1 | U2 | U3 | U4 | U5 | U6
| BU0 (k : kont) | BU1 (k : kont) | BU2 (k : kont) | BU3 (k : kont) (sawup : bool) | BU4 (k : kont) (ok : bool)
| D0 | D1 | DN2 (k : dk) | DN3 (k : dk) | DN4 (k : dk) | DN5 (k : dk) | DN6 (k : dk) | DN7 (k : dk)
| C0 | C1 | C2 | C3 | C4 | C5 | C6 | C7 | C8 | C9
| L0 | L1
| P0 | P1 | P2 (sawup : bool) | P3
| R0 | R1 | R2.

Inductive op := OpUp | OpDown | OpClose | OpBindUpdate | OpListenPort | OpPeerStart | OpPeerRemove.

(* What the schedule chooses for a thread: start an operation (only when idle) or take the
   next step; `b` resolves the one nondeterministic outcome (bind.Open succeeding). *)
Inductive act := Start (o : op) | Go (b : bool).

Record cfg := {
  st : dstate; bopen : bool; peers : bool;
  lks : option nat; lki : option nat; lkn : option nat;
  thr : nat -> pc
}.

Definition upd (f : nat -> pc) (t : nat) (p : pc) : nat -> pc := fun x => if Nat.eqb x t then p else f x.

Definition init : cfg :=
  {| st := SDown; bopen := false; peers := false; lks := None; lki := None; lkn := None; thr := fun _ => Idle |}.

Definition first_pc (o : op) : pc :=
  match o with
  | OpUp => U0 | OpDown => D0 | OpClose => C0 | OpBindUpdate => BU0 KDirect
  | OpListenPort => L0 | OpPeerStart => P0 | OpPeerRemove => R0
  end.

Definition is_up (s : dstate) : bool := match s with SUp => true | _ => false end.
Definition is_closed (s : dstate) : bool := match s with SClosed => true | _ => false end.

Definition free (l : option nat) : bool := match l with None => true | Some _ => false end.

(* helpers that rebuild the record *)
Definition goto (c : cfg) (t : nat) (p : pc) : cfg :=
  {| st := st c; bopen := bopen c; peers := peers c; lks := lks c; lki := lki c; lkn := lkn c; thr := upd (thr c) t p |}.
Definition set_st (c : cfg) (s : dstate) : cfg :=
  {| st := s; bopen := bopen c; peers := peers c; lks := lks c; lki := lki c; lkn := lkn c; thr := thr c |}.
Definition set_bopen (c : cfg) (b : bool) : cfg :=
  {| st := st c; bopen := b; peers := peers c; lks := lks c; lki := lki c; lkn := lkn c; thr := thr c |}.
Definition set_peers (c : cfg) (b : bool) : cfg :=
  {| st := st c; bopen := bopen c; peers := b; lks := lks c; lki := lki c; lkn := lkn c; thr := thr c |}.
Definition set_lks (c : cfg) (l : option nat) : cfg :=
  {| st := st c; bopen := bopen c; peers := peers c; lks := l; lki := lki c; lkn := lkn c; thr := thr c |}.
Definition set_lki (c : cfg) (l : option nat) : cfg :=
  {| st := st c; bopen := bopen c; peers := peers c; lks := lks c; lki := l; lkn := lkn c; thr := thr c |}.
Definition set_lkn (c : cfg) (l : option nat) : cfg :=
  {| st := st c; bopen := bopen c; peers := peers c; lks := lks c; lki := lki c; lkn := l; thr := thr c |}.

Definition after_bu (k : kont) (ok : bool) : pc :=
  match k with
  | KUp => if ok then U3 else DN2 KUpFailed
  | KDirect => Idle
  | KListen => L1
  end.

(* One step of thread t.  None = not enabled (blocked on a mutex, or the action does not fit
   the thread's program counter). *)
Definition tstep (c : cfg) (t : nat) (a : act) : option (cfg * list out) :=
  match thr c t, a with
  | Idle, Start o => Some (goto c t (first_pc o), [])
  | Idle, Go _ => None
  | _, Start _ => None
  (* changeState(up) *)
  | U0, Go _ => if free (lks c) then Some (goto (set_lks c (Some t)) t U1, []) else None
  | U1, Go _ => match st c with
                | SDown => Some (goto c t U2, [])
                | _ => Some (goto c t U6, [])          (* closed: ignored; up: nothing to do *)
                end
  | U2, Go _ => Some (goto (set_st c SUp) t (BU0 KUp), [])
  | U3, Go _ => if free (lki c) then Some (goto (set_lki c (Some t)) t U4, []) else None
  | U4, Go _ => Some (goto (set_peers c (if is_closed (st c) then peers c else true)) t U5, [])
  | U5, Go _ => Some (goto (set_lki c None) t U6, [])
  | U6, Go _ => Some (goto (set_lks c None) t Idle, [])
  (* BindUpdate *)
  | BU0 k, Go _ => if free (lkn c) then Some (goto (set_lkn c (Some t)) t (BU1 k), []) else None
  | BU1 k, Go _ => Some (goto (set_bopen c false) t (BU2 k), [OClose])
  | BU2 k, Go _ => Some (goto c t (BU3 k (is_up (st c))), [])
  | BU3 k true, Go true => Some (goto (set_bopen c true) t (BU4 k true), [OOpen])
  | BU3 k true, Go false => Some (goto c t (BU4 k false), [])          (* bind.Open failed *)
  | BU3 k false, Go _ => Some (goto c t (BU4 k true), [])              (* not up: return nil *)
  | BU4 k ok, Go _ => Some (goto (set_lkn c None) t (after_bu k ok), [])
  (* changeState(down) and the failed-up path *)
  | D0, Go _ => if free (lks c) then Some (goto (set_lks c (Some t)) t D1, []) else None
  | D1, Go _ => match st c with
                | SUp => Some (goto c t (DN2 KDown), [])
                | _ => Some (goto c t (DN7 KDown), [])
                end
  | DN2 k, Go _ => Some (goto (set_st c SDown) t (DN3 k), [])
  | DN3 k, Go _ => if free (lkn c) then Some (goto (set_lkn c (Some t)) t (DN4 k), []) else None
  | DN4 k, Go _ => Some (goto (set_bopen c false) t (DN5 k), [OClose])
  | DN5 k, Go _ => Some (goto (set_lkn c None) t (DN6 k), [])
  | DN6 k, Go _ => Some (goto (set_peers c false) t (DN7 k), [])
  | DN7 k, Go _ => Some (goto (set_lks c None) t Idle, [])
  (* Close *)
  | C0, Go _ => if free (lks c) then Some (goto (set_lks c (Some t)) t C1, []) else None
  | C1, Go _ => if free (lki c) then Some (goto (set_lki c (Some t)) t C2, []) else None
  | C2, Go _ => if is_closed (st c) then Some (goto c t C8, []) else Some (goto c t C3, [])
  | C3, Go _ => Some (goto (set_st c SClosed) t C4, [])
  | C4, Go _ => if free (lkn c) then Some (goto (set_lkn c (Some t)) t C5, []) else None
  | C5, Go _ => Some (goto (set_bopen c false) t C6, [OClose])
  | C6, Go _ => Some (goto (set_lkn c None) t C7, [])
  | C7, Go _ => Some (goto (set_peers c false) t C8, [])
  | C8, Go _ => Some (goto (set_lki c None) t C9, [])
  | C9, Go _ => Some (goto (set_lks c None) t Idle, [])
  (* UAPI listen_port *)
  | L0, Go _ => if free (lki c) then Some (goto (set_lki c (Some t)) t (BU0 KListen), []) else None
  | L1, Go _ => Some (goto (set_lki c None) t Idle, [])
  (* UAPI peer section: handlePostConfig *)
  | P0, Go _ => if free (lki c) then Some (goto (set_lki c (Some t)) t P1, []) else None
  | P1, Go _ => Some (goto c t (P2 (is_up (st c))), [])
  | P2 true, Go _ => Some (goto (set_peers c (if is_closed (st c) then peers c else true)) t P3, [])
  | P2 false, Go _ => Some (goto c t P3, [])
  | P3, Go _ => Some (goto (set_lki c None) t Idle, [])
  (* UAPI remove peer *)
  | R0, Go _ => if free (lki c) then Some (goto (set_lki c (Some t)) t R1, []) else None
  | R1, Go _ => Some (goto (set_peers c false) t R2, [])
  | R2, Go _ => Some (goto (set_lki c None) t Idle, [])
  end.

(* Schedules: a disabled choice is skipped, so every reachable configuration and every
   emitted output sequence is obtained from some schedule. *)
Fixpoint run (c : cfg) (sched : list (nat * act)) : cfg * list out :=
  match sched with
  | [] => (c, [])
  | (t, a) :: r =>
      match tstep c t a with
      | Some (c1, o) => let '(c2, os) := run c1 r in (c2, o ++ os)
      | None => run c r
      end
  end.

Definition reach (sched : list (nat * act)) : cfg := fst (run init sched).
Definition outputs (sched : list (nat * act)) : list out := snd (run init sched).

(* ---------------------------------------------------------------- specification on bind-call traces *)

(* never two Opens without a Close in between; `o` = is the bind open before the trace *)
Fixpoint nodoubleb (o : bool) (l : list out) : bool :=
  match l with
  | [] => true
  | OOpen :: r => negb o && nodoubleb true r
  | OClose :: r => nodoubleb false r
  end.

(* stronger shape produced by BindUpdate: every Open directly follows a Close,
   i.e. the projection is in (Close+ Open)* Close*;  `pc` = was the previous call a Close *)
Fixpoint closeopenb (prevclose : bool) (l : list out) : bool :=
  match l with
  | [] => true
  | OOpen :: r => prevclose && closeopenb false r
  | OClose :: r => closeopenb true r
  end.

Fixpoint no_open (l : list out) : bool :=
  match l with
  | [] => true
  | OOpen :: _ => false
  | OClose :: r => no_open r
  end.

(* ---------------------------------------------------------------- observed traces (harness) *)

(* What the harness sees: the bind's own log merged with the call log of the public API,
   ordered by one global sequence number.  The invoke number is taken before the call starts,
   the return number after it returned. *)
Inductive obs :=
| BOpen | BClose | BSend | BRefused       (* bind.Open; bind.Close; datagrams accepted by the open bind; Send on the closed bind *)
| InvUp (id : N) | RetUp (id : N)
| InvDown (id : N) | RetDown (id : N)
| InvClose (id : N) | RetClose (id : N)
| InvOther (id : N) | RetOther (id : N)
| InvPeerCfg (id : N) | RetPeerCfg (id : N)   (* a UAPI set with a peer section (handlePostConfig may start the peer) *)
| ObsBegin (id : N)                             (* the harness is about to read the peers' run state (number taken BEFORE the reads) *)
| PeerRunning (id : N)                          (* ... and found a peer running (number taken AFTER the reads) *)
| RecvLoopRunning (id : N)
| SendEnter (id : N)                            (* a bind.Send call has started (stamped inside sim.Bind.Send's gate, before the datagram is handed over) *)
| SendExit (id : N).                            (* ... and is about to complete *)                     (* ... and found a RoutineReceiveIncoming goroutine parked in its loop (two scans) *)

Local Open Scope N_scope.

(* Monitor state.  A Down that returns is CLEAN when no Up call was in flight at its invocation
   and none was invoked before it returned: only then does "the device is down" follow from
   "Down returned" (otherwise the Up may legitimately have won).  After a clean Down returned
   the window stays quiet until the next Up is invoked; after Close returned it is quiet for ever. *)
Record mon := {
  m_open : bool;            (* bind open according to the log *)
  m_prevclose : bool;       (* last Open/Close event was a Close *)
  m_upfl : N;               (* Up calls in flight *)
  m_upgen : N;              (* Up calls invoked so far *)
  m_downs : list (N * N);   (* Down calls in flight that were clean at invocation: (id, upgen then) *)
  m_quiet : bool;           (* a clean Down returned and no Up was invoked since *)
  m_closed : bool;          (* Close returned *)
  (* the same for "peers stopped" (theorem after_down_..., conjunct no_peerstart): a Down is
     p-clean when neither an Up nor a UAPI peer section was in flight at its invocation nor
     invoked before it returned; the p-quiet window ends at the next Up / peer section *)
  m_psfl : N;               (* UAPI peer sections in flight *)
  m_cfggen : N;             (* Up calls + UAPI peer sections invoked so far *)
  m_pdowns : list (N * N);  (* Down calls in flight that were p-clean at invocation: (id, cfggen then) *)
  m_pquiet : bool;
  (* observations in progress that began inside a p-quiet window (id, cfggen then) / after Close returned *)
  m_obsq : list (N * N);
  m_obsc : list (N * N);
  (* observations that began inside a quiet window (clean Down returned, no Up invoked): (id, upgen then) *)
  m_obsr : list (N * N);
  (* bind.Send calls that started while the bind was open and have not completed *)
  m_sends : list (N * N)
}.

Definition mon0 : mon :=
  {| m_open := false; m_prevclose := false; m_upfl := 0; m_upgen := 0; m_downs := []; m_quiet := false; m_closed := false;
     m_psfl := 0; m_cfggen := 0; m_pdowns := []; m_pquiet := false; m_obsq := []; m_obsc := []; m_obsr := []; m_sends := [] |}.

Fixpoint lookup (id : N) (l : list (N * N)) : option N :=
  match l with
  | [] => None
  | (i, g) :: r => if i =? id then Some g else lookup id r
  end.
Fixpoint remove_id (id : N) (l : list (N * N)) : list (N * N) :=
  match l with
  | [] => []
  | (i, g) :: r => if i =? id then remove_id id r else (i, g) :: remove_id id r
  end.

(* Violated clauses: 1 = Open while open; 2 = Open or accepted Send in a quiet window after a
   clean Down returned; 3 = Open or accepted Send after Close returned; 4 = bind still open when
   a clean Down / Close returned; 7 = a receive loop observed parked in its loop, the whole
   observation lying inside a quiet window or after Close returned;
   8 = a bind.Send call that started on the open bind is still in progress when a clean Down /
   Close returns (the datagram can still go out after the caller was told the device is down);
   NOT clauses of the property: 5 (model conformance) = Open not directly preceded by Close;
   9 (model conformance) = bind.Close called while a bind.Send that started on the open bind is
   in progress (the model, like the code, holds net.RLock across the send);
   6 (informational) = a peer observed running inside a p-quiet window or after Close returned --
   the property text does not demand stopped peers after Down (the bind is closed), and a Down
   that finds the device already down does not stop a peer started by the handlePostConfig race. *)
Definition mset (m : mon) (o pc : bool) (upfl upgen : N) (downs : list (N * N)) (q cl : bool)
                (psfl cfggen : N) (pdowns : list (N * N)) (pq : bool) : mon :=
  {| m_open := o; m_prevclose := pc; m_upfl := upfl; m_upgen := upgen; m_downs := downs; m_quiet := q; m_closed := cl;
     m_psfl := psfl; m_cfggen := cfggen; m_pdowns := pdowns; m_pquiet := pq; m_obsq := m_obsq m; m_obsc := m_obsc m; m_obsr := m_obsr m; m_sends := m_sends m |}.
Definition mset_obs (m : mon) (oq oc orr : list (N * N)) : mon :=
  {| m_open := m_open m; m_prevclose := m_prevclose m; m_upfl := m_upfl m; m_upgen := m_upgen m; m_downs := m_downs m;
     m_quiet := m_quiet m; m_closed := m_closed m; m_psfl := m_psfl m; m_cfggen := m_cfggen m; m_pdowns := m_pdowns m;
     m_pquiet := m_pquiet m; m_obsq := oq; m_obsc := oc; m_obsr := orr; m_sends := m_sends m |}.
Definition mset_sends (m : mon) (ss : list (N * N)) : mon :=
  {| m_open := m_open m; m_prevclose := m_prevclose m; m_upfl := m_upfl m; m_upgen := m_upgen m; m_downs := m_downs m;
     m_quiet := m_quiet m; m_closed := m_closed m; m_psfl := m_psfl m; m_cfggen := m_cfggen m; m_pdowns := m_pdowns m;
     m_pquiet := m_pquiet m; m_obsq := m_obsq m; m_obsc := m_obsc m; m_obsr := m_obsr m; m_sends := ss |}.
Definition sending (m : mon) : bool := match m_sends m with [] => false | _ :: _ => true end.

Definition mstep (m : mon) (e : obs) : mon * list N :=
  match e with
  | BOpen =>
      (mset m true false (m_upfl m) (m_upgen m) (m_downs m) (m_quiet m) (m_closed m) (m_psfl m) (m_cfggen m) (m_pdowns m) (m_pquiet m),
       (if m_open m then [1] else []) ++ (if m_closed m then [3] else if m_quiet m then [2] else [])
       ++ (if m_prevclose m then [] else [5]))
  | BClose =>
      (mset m false true (m_upfl m) (m_upgen m) (m_downs m) (m_quiet m) (m_closed m) (m_psfl m) (m_cfggen m) (m_pdowns m) (m_pquiet m),
       if sending m then [9] else [])
  | BSend => (m, if m_closed m then [3] else if m_quiet m then [2] else [])
  | BRefused => (m, [])
  | InvUp _ =>
      (mset m (m_open m) (m_prevclose m) (m_upfl m + 1) (m_upgen m + 1) (m_downs m) false (m_closed m)
            (m_psfl m) (m_cfggen m + 1) (m_pdowns m) false, [])
  | RetUp _ =>
      (mset m (m_open m) (m_prevclose m) (m_upfl m - 1) (m_upgen m) (m_downs m) (m_quiet m) (m_closed m)
            (m_psfl m) (m_cfggen m) (m_pdowns m) (m_pquiet m), [])
  | InvPeerCfg _ =>
      (mset m (m_open m) (m_prevclose m) (m_upfl m) (m_upgen m) (m_downs m) (m_quiet m) (m_closed m)
            (m_psfl m + 1) (m_cfggen m + 1) (m_pdowns m) false, [])
  | RetPeerCfg _ =>
      (mset m (m_open m) (m_prevclose m) (m_upfl m) (m_upgen m) (m_downs m) (m_quiet m) (m_closed m)
            (m_psfl m - 1) (m_cfggen m) (m_pdowns m) (m_pquiet m), [])
  | InvDown id =>
      (mset m (m_open m) (m_prevclose m) (m_upfl m) (m_upgen m)
            (if m_upfl m =? 0 then (id, m_upgen m) :: m_downs m else m_downs m) (m_quiet m) (m_closed m)
            (m_psfl m) (m_cfggen m)
            (if (m_upfl m =? 0) && (m_psfl m =? 0) then (id, m_cfggen m) :: m_pdowns m else m_pdowns m) (m_pquiet m), [])
  | RetDown id =>
      let clean := match lookup id (m_downs m) with Some g => g =? m_upgen m | None => false end in
      let pclean := match lookup id (m_pdowns m) with Some g => g =? m_cfggen m | None => false end in
      (mset m (m_open m) (m_prevclose m) (m_upfl m) (m_upgen m) (remove_id id (m_downs m)) (m_quiet m || clean) (m_closed m)
            (m_psfl m) (m_cfggen m) (remove_id id (m_pdowns m)) (m_pquiet m || pclean),
       (if clean && m_open m then [4] else []) ++ (if clean && sending m then [8] else []))
  | InvClose _ => (m, [])
  | RetClose _ =>
      (mset m (m_open m) (m_prevclose m) (m_upfl m) (m_upgen m) (m_downs m) (m_quiet m) true
            (m_psfl m) (m_cfggen m) (m_pdowns m) (m_pquiet m),
       (if m_open m then [4] else []) ++ (if sending m then [8] else []))
  | SendEnter id => (if m_open m then mset_sends m ((id, 0) :: m_sends m) else m, [])
  | SendExit id => (mset_sends m (remove_id id (m_sends m)), [])
  | ObsBegin id =>
      (mset_obs m (if m_pquiet m then (id, m_cfggen m) :: m_obsq m else m_obsq m)
                  (if m_closed m then (id, 0) :: m_obsc m else m_obsc m)
                  (if m_quiet m then (id, m_upgen m) :: m_obsr m else m_obsr m), [])
  | PeerRunning id =>
      (* INFORMATIONAL (clause 6, never a violation of the property): counted only if the whole
         observation lay after Close returned or inside a p-quiet window *)
      let inq := match lookup id (m_obsq m) with Some g => g =? m_cfggen m | None => false end in
      let inc := match lookup id (m_obsc m) with Some _ => true | None => false end in
      (mset_obs m (remove_id id (m_obsq m)) (m_obsc m) (m_obsr m), if inq || inc then [6] else [])
  | RecvLoopRunning id =>
      (* clause 7: "the device has stopped its receive loops": the whole observation lay after
         Close returned, or inside a quiet window (began quiet, no Up invoked since) *)
      let inr := match lookup id (m_obsr m) with Some g => g =? m_upgen m | None => false end in
      let inc := match lookup id (m_obsc m) with Some _ => true | None => false end in
      (mset_obs m (m_obsq m) (m_obsc m) (remove_id id (m_obsr m)), if inr || inc then [7] else [])
  | InvOther _ | RetOther _ => (m, [])
  end.

(* all violated clauses with their positions *)
Fixpoint monitor (m : mon) (tr : list obs) (i : N) : list (N * N) :=
  match tr with
  | [] => []
  | e :: r => let '(m1, v) := mstep m e in map (fun k => (k, i)) v ++ monitor m1 r (i + 1)
  end.

(* the property on an observed trace: clauses 1-4, 7 and 8 *)
Definition holdsb (tr : list obs) : bool :=
  forallb (fun p => (fst p =? 5) || (fst p =? 6) || (fst p =? 9)) (monitor mon0 tr 0).
(* informational: some peer was seen running where the model (without the handlePostConfig race
   and without no-op Downs) has them stopped *)
Definition saw_running_peerb (tr : list obs) : bool :=
  existsb (fun p => fst p =? 6) (monitor mon0 tr 0).
(* conformance with the model's stronger output shape: clause 5 *)
Definition conformsb (tr : list obs) : bool :=
  forallb (fun p => negb ((fst p =? 5) || (fst p =? 9))) (monitor mon0 tr 0).

(* the bind-call projection of an observed trace, to connect with nodoubleb *)
Fixpoint bind_calls (tr : list obs) : list out :=
  match tr with
  | [] => []
  | BOpen :: r => OOpen :: bind_calls r
  | BClose :: r => OClose :: bind_calls r
  | _ :: r => bind_calls r
  end.
