(* C13 — comparison of the lock-order edges extracted from the source (Gen/LockEdges.v, by
   harness/cmd/c13locks) with the rank order and with the lock model.  Evaluated per run by a
   generated file (out/C13/lockedges/LockEdgesRun.v); no proofs here. *)
From WG Require Import Base.Prelude Lifecycle.Locks Lifecycle.Edges Lifecycle.Proofs.

(* The rank-violating class pairs of the code as it is (the listed inversions E1-E6 and what
   follows from E2 = SetPrivateKey stopping peers under staticIdentity.Lock):
     net -> peers   E1 BindUpdate / BindSetMark, E4 IpcGetOperation
     si  -> peers   E2 SetPrivateKey, E3 NewPeer, E4 IpcGetOperation, E6 ConsumeMessageInitiation
     si  -> pst, si -> trun, si -> net (join)   E2: removePeerLocked -> Peer.Stop under staticIdentity.Lock
     hs  -> si      E5 ConsumeMessageResponse *)
Definition known_inversions : list (nat * nat) :=
  [(net, peers); (si, peers); (si, pst); (si, trun); (si, net); (hs, si)].
(* same-class nesting: si -> si through the join in Peer.Stop is finding F3b itself *)
Definition known_self_edges : list (nat * nat) := [(si, si)].

Definition minus (a b : list (nat * nat)) : list (nat * nat) := filter (fun e => negb (edge_mem e b)) a.

(* rank-violating edges of the code that are not listed: a NEW lock-order inversion *)
Definition new_inversions (code : list (nat * nat)) : list (nat * nat) :=
  filter (fun e => negb (edge_climbs rank e)) (minus code known_inversions).
Definition new_self_edges (self : list (nat * nat)) : list (nat * nat) := minus self known_self_edges.
(* listed inversions that the code no longer has (only a note) *)
Definition gone_inversions (code : list (nat * nat)) : list (nat * nat) := minus known_inversions code.
Definition code_minus_inversions (code : list (nat * nat)) : list (nat * nat) := minus code known_inversions.

(* model vs code (notes): edges of the hand-written programs that the extractor does not see,
   and non-inversion edges of the code that no program of the model has *)
Definition model_edges (inv : bool) : list (nat * nat) := edge_dedup (all_edges (device_programs inv)).
Definition model_not_in_code (code self : list (nat * nat)) : list (nat * nat) := minus (model_edges true) (code ++ self).
Definition code_not_in_model (code : list (nat * nat)) : list (nat * nat) := minus code (model_edges true).

Definition rank_fn := rank.
