(* C13 — lock-order EDGES: the class-level abstraction shared by the lock model (Locks.v) and by
   the extractor that reads /repo's source (harness/cmd/c13locks -> Gen/LockEdges.v).

   An edge (h, a) says: somewhere a thread holds a lock of class h (in any mode) while it
   acquires a lock of class a, or while it WAITS for a goroutine that acquires a lock of class a
   (join edges: sync.WaitGroup.Wait on a goroutine set).  No proofs in this file. *)
From WG Require Import Base.Prelude Lifecycle.Locks.

(* locks a program acquires *)
Fixpoint acq (p : list instr) : list nat :=
  match p with
  | [] => []
  | Lock l :: r | RLock l :: r => l :: acq r
  | _ :: r => acq r
  end.

Fixpoint has_wait (p : list instr) : bool :=
  match p with
  | [] => false
  | WaitFor _ :: _ => true
  | _ :: r => has_wait r
  end.

Fixpoint waits (p : list instr) : list nat :=
  match p with
  | [] => []
  | WaitFor u :: r => u :: waits r
  | _ :: r => waits r
  end.

Definition pairs (h : list (nat * bool)) (ls : list nat) : list (nat * nat) :=
  flat_map (fun x => map (fun a => (fst x, a)) ls) h.

(* edges of one program inside the program set ps (join edges need the awaited programs) *)
Fixpoint prog_edges (ps : list (list instr)) (h : list (nat * bool)) (p : list instr) : list (nat * nat) :=
  match p with
  | [] => []
  | Lock l :: r => pairs h [l] ++ prog_edges ps ((l, true) :: h) r
  | RLock l :: r => pairs h [l] ++ prog_edges ps ((l, false) :: h) r
  | Unlock l :: r => prog_edges ps (remove1 (l, true) h) r
  | RUnlock l :: r => prog_edges ps (remove1 (l, false) h) r
  | WaitFor u :: r => pairs h (acq (nth u ps [])) ++ prog_edges ps h r
  end.

Definition all_edges (ps : list (list instr)) : list (nat * nat) :=
  flat_map (prog_edges ps []) ps.

(* the structural half of ok_prog: unlocks match a held lock of the right mode, nothing is held
   at the end *)
Fixpoint struct_ok (h : list (nat * bool)) (p : list instr) : bool :=
  match p with
  | [] => match h with [] => true | _ :: _ => false end
  | Lock l :: r => struct_ok ((l, true) :: h) r
  | RLock l :: r => struct_ok ((l, false) :: h) r
  | Unlock l :: r => existsb (heq (l, true)) h && struct_ok (remove1 (l, true) h) r
  | RUnlock l :: r => existsb (heq (l, false)) h && struct_ok (remove1 (l, false) h) r
  | WaitFor _ :: r => struct_ok h r
  end.

(* two-level waiting, as in the device: a goroutine that is awaited (sender, receiver,
   RoutineReceiveIncoming, RoutineReadFromTUN) does not itself wait, and nobody waits for a
   thread that waits *)
Definition awaited (ps : list (list instr)) (u : nat) : bool :=
  existsb (fun p => existsb (Nat.eqb u) (waits p)) ps.

Definition two_level (ps : list (list instr)) : bool :=
  forallb (fun p => forallb (fun u => negb (has_wait (nth u ps []))) (waits p)) ps.

Definition wf (ps : list (list instr)) : bool :=
  forallb (struct_ok []) ps && two_level ps.

(* every edge climbs the rank by at least 2 (room for the rank of an awaited thread between the
   locks held by the waiter and the locks the awaited thread takes); ranks are positive *)
Definition edge_climbs (rank : nat -> nat) (e : nat * nat) : bool := S (rank (fst e)) <? rank (snd e).
Definition edges_climb (rank : nat -> nat) (es : list (nat * nat)) : bool := forallb (edge_climbs rank) es.
Definition ranks_positive (rank : nat -> nat) (ps : list (list instr)) : bool :=
  forallb (fun p => forallb (fun l => 1 <? rank l) (acq p)) ps.

(* the thread ranks the theorem constructs: an awaited thread sits just below the lowest lock
   it takes (or very high if it takes none); everybody else at 0 *)
Definition big (rank : nat -> nat) (ps : list (list instr)) : nat :=
  S (S (list_max (map rank (flat_map acq ps)))).
Definition min_rank (rank : nat -> nat) (ls : list nat) (d : nat) : nat :=
  fold_right (fun l m => Nat.min (rank l) m) d ls.
Definition trank_of (rank : nat -> nat) (ps : list (list instr)) (u : nat) : nat :=
  if awaited ps u
  then match acq (nth u ps []) with
       | [] => big rank ps
       | ls => pred (min_rank rank ls (big rank ps))
       end
  else 0.

(* membership of an edge list in another, for comparing model edges with code edges *)
Definition edge_eqb (a b : nat * nat) : bool := Nat.eqb (fst a) (fst b) && Nat.eqb (snd a) (snd b).
Definition edge_mem (e : nat * nat) (es : list (nat * nat)) : bool := existsb (edge_eqb e) es.
Definition edges_incl (a b : list (nat * nat)) : bool := forallb (fun e => edge_mem e b) a.
Fixpoint edge_dedup (es : list (nat * nat)) : list (nat * nat) :=
  match es with
  | [] => []
  | e :: r => if edge_mem e r then edge_dedup r else e :: edge_dedup r
  end.

(* THE STATEMENT proved in EdgeProofs.v:
   a well-formed program set whose edges all climb is accepted by the rank checker with the
   constructed thread ranks, hence (LockProofs) never deadlocks. *)
Definition edges_suffice_statement : Prop :=
  forall (rank : nat -> nat) (ps : list (list instr)),
    wf ps = true -> ranks_positive rank ps = true -> edges_climb rank (all_edges ps) = true ->
    all_ok rank (trank_of rank ps) ps = true.
