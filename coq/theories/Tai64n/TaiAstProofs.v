(* C06, source tie for the timestamps: the interpreter of Tai64n/TaiAst.v run on the terms that harness/cmd/taiast
   generated from tai64n/tai64n.go (Gen/TaiAst.v) equals the hand-written mirror Tai64n/Model.v:
   interpreted After = Model.after_bytes on ALL byte strings (hence Model.after on encodings), and interpreted
   stamp = Model.encode (Model.stamp ..) for all t.Unix() < 2^62 and t.Nanosecond() < 10^9.
   The script follows the shape of the generated terms; the theorems are semantic. *)
From Coq Require Import String.
From WG Require Import Base.Prelude Gen.Constants Tai64n.Model Tai64n.Proofs Tai64n.TaiAst Gen.TaiAst.
Local Open Scope N_scope.

(* the constants the translator resolved from the source are those of Gen/Constants.v (compiled values) *)
Lemma src_constants : src_base = tai_base /\ src_whitenerMask = tai_whitenerMask /\ timestamp_size = 12%nat.
Proof. repeat split; reflexivity. Qed.

(* ---- bytes.Compare(...) > 0 is Model.after_bytes ---- *)
Lemma bytes_compare_after a : forall b, (0 <? bytes_compare a b)%Z = after_bytes a b.
Proof.
  unfold after_bytes. induction a as [|x a IH]; intros [|y b]; cbn [bytes_compare lex_cmp]; try reflexivity.
  destruct (N.compare_spec x y) as [E|L|G].
  - subst y. rewrite N.ltb_irrefl. apply IH.
  - destruct (N.ltb_spec x y); [reflexivity|lia].
  - destruct (N.ltb_spec x y); [lia|]. destruct (N.ltb_spec y x); [reflexivity|lia].
Qed.

(* ---- PutUintNN: least-significant-last peeling is Model.be_bytes ---- *)
Lemma be_bytes_snoc k : forall v, be_bytes (S k) v = be_bytes k (v / 256) ++ [v mod 256].
Proof.
  induction k as [|k IH]; intros v.
  - cbn [be_bytes app N.of_nat]. rewrite N.pow_0_r, N.div_1_r. reflexivity.
  - change (be_bytes (S (S k)) v) with
      ((v / 256 ^ N.of_nat (S k)) mod 256 :: be_bytes (S k) (v mod 256 ^ N.of_nat (S k))).
    rewrite IH. change (be_bytes (S k) (v / 256)) with
      (((v / 256) / 256 ^ N.of_nat k) mod 256 :: be_bytes k ((v / 256) mod 256 ^ N.of_nat k)).
    rewrite pow256_succ. pose proof (pow256_pos k) as Hc. set (c := 256 ^ N.of_nat k) in *.
    rewrite (N.mod_mul_r v 256 c) by lia.
    rewrite N.div_div by lia.
    replace ((v mod 256 + 256 * ((v / 256) mod c)) / 256) with ((v / 256) mod c).
    2:{ generalize ((v / 256) mod c). intros q. lia. }
    replace ((v mod 256 + 256 * ((v / 256) mod c)) mod 256) with (v mod 256).
    2:{ generalize ((v / 256) mod c). intros q. lia. }
    reflexivity.
Qed.

Lemma put_be_is_be_bytes k : forall v, put_be k v = be_bytes k v.
Proof.
  unfold put_be. induction k as [|k IH]; intros v; [reflexivity|].
  cbn [le_bytes rev]. rewrite IH. symmetry. apply be_bytes_snoc.
Qed.

Ltac step :=
  cbn [exec eval evalb evali eval_slice andthen lookup TaiAst.replace binop_sem cmpop_sem put_slice
       unix nanosecond scalars arrays String.eqb Ascii.eqb Bool.eqb andb
       Nat.leb Nat.add length repeat firstn skipn app].

(* ---- After ---- *)
Theorem ast_after_bytes : forall a b, run_after after_body a b = Some (after_bytes a b).
Proof.
  intros a b. unfold run_after, after_body. step.
  rewrite bytes_compare_after. reflexivity.
Qed.

Theorem ast_after_correct : forall x y : ts,
  run_after after_body (encode x) (encode y) = Some (after x y).
Proof. intros. apply ast_after_bytes. Qed.

(* ---- stamp ---- *)
Lemma be_bytes_len8 v : exists b0 b1 b2 b3 b4 b5 b6 b7, be_bytes 8 v = [b0;b1;b2;b3;b4;b5;b6;b7].
Proof. cbn [be_bytes]. repeat eexists. Qed.
Lemma be_bytes_len4 v : exists b0 b1 b2 b3, be_bytes 4 v = [b0;b1;b2;b3].
Proof. cbn [be_bytes]. repeat eexists. Qed.

Theorem ast_stamp_correct : forall s n, s < 2 ^ 62 -> n < 1000000000 ->
  run_stamp stamp_body s n =
  Some (encode {| secs := (tai_base + s) mod 2 ^ 64; nanos := N.ldiff n tai_whitenerMask |}).
Proof.
  intros s n Hs Hn. change (2 ^ 62) with 4611686018427387904 in Hs.
  unfold run_stamp, stamp_body, encode. cbn [secs nanos]. step.
  rewrite !put_be_is_be_bytes.
  change (width U64) with (2 ^ 64). change 4611686018427387914 with tai_base. change 16777215 with tai_whitenerMask.
  rewrite (N.mod_small s) by (change (2 ^ 64) with 18446744073709551616; lia).
  rewrite (N.mod_small n (width U32)) by (cbn [width]; lia).
  destruct (be_bytes_len8 ((tai_base + s) mod 2 ^ 64)) as (b0&b1&b2&b3&b4&b5&b6&b7&->).
  destruct (be_bytes_len4 (N.ldiff n tai_whitenerMask)) as (c0&c1&c2&c3&->).
  step. reflexivity.
Qed.

(* on instants (nanoseconds since the epoch), as Model.stamp is stated *)
Theorem ast_stamp_instant : forall t, unix_s t < 2 ^ 62 ->
  run_stamp stamp_body (unix_s t) (nano_of t) = Some (encode (stamp t)).
Proof.
  intros t H. rewrite ast_stamp_correct by (first [assumption | apply nano_of_lt]). reflexivity.
Qed.

(* C06's last sentence on the interpreted source: instants at least one whitening quantum apart are strictly
   ordered by the interpreted After on the interpreted stamps; an earlier-or-equal instant is never After. *)
Theorem ast_after_stamp_strict : forall t1 t2, t1 + whitener <= t2 -> unix_s t2 < 2 ^ 62 ->
  exists e1 e2, run_stamp stamp_body (unix_s t1) (nano_of t1) = Some e1 /\
                run_stamp stamp_body (unix_s t2) (nano_of t2) = Some e2 /\
                run_after after_body e2 e1 = Some true.
Proof.
  intros t1 t2 Hle H2.
  assert (R2 : in_range t2).
  { unfold in_range, tai_base. change (2 ^ 62) with 4611686018427387904 in H2.
    change (2 ^ 64) with 18446744073709551616. lia. }
  assert (Hle' : t1 <= t2) by lia.
  assert (H1 : unix_s t1 < 2 ^ 62).
  { unfold unix_s, ns_per_s in *. change (2 ^ 62) with 4611686018427387904 in *. lia. }
  exists (encode (stamp t1)), (encode (stamp t2)).
  rewrite !ast_stamp_instant by assumption. repeat split.
  rewrite ast_after_bytes. f_equal. apply (stamp_strict t1 t2 Hle R2).
Qed.

Theorem ast_after_stamp_monotone : forall t1 t2, t1 <= t2 -> unix_s t2 < 2 ^ 62 ->
  exists e1 e2, run_stamp stamp_body (unix_s t1) (nano_of t1) = Some e1 /\
                run_stamp stamp_body (unix_s t2) (nano_of t2) = Some e2 /\
                run_after after_body e1 e2 = Some false.
Proof.
  intros t1 t2 Hle H2.
  assert (R2 : in_range t2).
  { unfold in_range, tai_base. change (2 ^ 62) with 4611686018427387904 in H2.
    change (2 ^ 64) with 18446744073709551616. lia. }
  assert (H1 : unix_s t1 < 2 ^ 62).
  { unfold unix_s, ns_per_s in *. change (2 ^ 62) with 4611686018427387904 in *. lia. }
  exists (encode (stamp t1)), (encode (stamp t2)).
  rewrite !ast_stamp_instant by assumption. repeat split.
  rewrite ast_after_bytes. f_equal. apply (stamp_monotone t1 t2 Hle R2).
Qed.

(* smoke test of the executable interpreter (redundant with the theorems) *)
Definition grid_secs : list N := [0; 1; 255; 256; 1700000000; 4294967295; 4294967296; 4611686018427387903].
Definition grid_nano : list N := [0; 1; 16777215; 16777216; 16777217; 33554431; 33554432; 999999999].
Definition stamp_diff (body : stmt) : list (N * N) :=
  flat_map (fun s => flat_map (fun n =>
    let m := encode {| secs := (tai_base + s) mod 2 ^ 64; nanos := N.ldiff n tai_whitenerMask |} in
    match run_stamp body s n with
    | Some l => if list_eq_dec N.eq_dec l m then [] else [(s, n)]
    | None => [(s, n)]
    end) grid_nano) grid_secs.
Definition grid_ts : list ts :=
  flat_map (fun s => map (fun n => {| secs := s; nanos := n |}) [0; 1; 16777216; 4278190080; 4294967295])
           [0; 1; 255; 256; 65536; 4611686018427387914; 4611686018427387915; 18446744073709551615].
Definition after_diff (body : stmt) : list (ts * ts) :=
  flat_map (fun x => flat_map (fun y =>
    match run_after body (encode x) (encode y) with
    | Some b => if Bool.eqb b (after x y) then [] else [(x, y)]
    | None => [(x, y)]
    end) grid_ts) grid_ts.
Lemma ast_agrees_on_grid : stamp_diff stamp_body = [] /\ after_diff after_body = [].
Proof. split; vm_compute; reflexivity. Qed.

Print Assumptions ast_after_bytes.
Print Assumptions ast_after_correct.
Print Assumptions ast_stamp_correct.
Print Assumptions ast_stamp_instant.
Print Assumptions ast_after_stamp_strict.
Print Assumptions ast_after_stamp_monotone.
