(* Deep-embedded mini-language for the bodies of stamp and Timestamp.After (tai64n/tai64n.go) and an executable
   interpreter.  The terms are produced from the Go SOURCE by harness/cmd/taiast (Gen/TaiAst.v);
   Tai64n/TaiAstProofs.v proves interpreter = Tai64n/Model.v.  No proofs here, and no dependency on the model.

   Semantics.  Scalars are N, each expression node carries its Go type (uint64 / uint32, decided by the translator):
   +, - wrap modulo 2^width; &, |, &^ are N.land, N.lor, N.ldiff; a conversion uintNN(e) is e mod 2^NN.
   EUnix / ENanosecond are the two inputs t.Unix() and t.Nanosecond() (given as N: instants before 1970 are outside
   the model, as in Tai64n/Model.v).  Byte arrays are lists of N; `var x Timestamp` is n zero bytes.
   x[k:] is the suffix from k (None if k > len, Go panics).  binary.BigEndian.PutUintNN(b, v) writes the NN/8 low
   bytes of v into b[0..], most significant first: the last byte is v mod 256, the one before (v/256) mod 256, ...
   (None if b is shorter, Go panics).  bytes.Compare is lexicographic with result -1/0/1 (shorter prefix is smaller).
   *Unknown nodes and reads of undeclared names yield None.  No loops, so no fuel. *)
From Coq Require Import String.
From WG Require Import Base.Prelude.
Local Open Scope N_scope.

Inductive ty := U64 | U32.
Definition width (t : ty) : N :=
  match t with U64 => 18446744073709551616 | U32 => 4294967296 end.

Inductive binop := OAdd | OSub | OAnd | OOr | OAndNot.
Inductive cmpop := CGe | CGt | CLe | CLt | CEq | CNe.

Inductive expr :=
| EConst (n : N)
| EVar (x : string)                         (* local scalar *)
| EUnix                                     (* t.Unix() of the time.Time parameter *)
| ENanosecond                               (* t.Nanosecond() *)
| EConv (t : ty) (e : expr)                 (* uint64(e), uint32(e) *)
| EBin (t : ty) (o : binop) (a b : expr)    (* a o b at type t *)
| EUnknown (what : string).

Inductive slice :=
| SlFrom (x : string) (off : nat)           (* x[off:]; x[:] is SlFrom x 0 *)
| SlUnknown (what : string).

Inductive iexpr :=                          (* signed int expressions *)
| ICompareBytes (a b : slice)               (* bytes.Compare(a, b) *)
| IConst (z : Z)
| IUnknown (what : string).

Inductive bexpr :=
| BCmpI (o : cmpop) (a b : iexpr)
| BUnknown (what : string).

Inductive stmt :=
| SSkip
| SSeq (a b : stmt)
| SVarArr (x : string) (n : nat)            (* var x Timestamp: [n]byte, zeroed *)
| SAssign (x : string) (e : expr)           (* x := e *)
| SPutBE (k : nat) (dst : slice) (e : expr) (* binary.BigEndian.PutUint64 (k = 8) / PutUint32 (k = 4) *)
| SReturnArr (x : string)
| SReturnB (b : bexpr)
| SUnknown (what : string).

Record state := { unix : N; nanosecond : N; scalars : list (string * N); arrays : list (string * list N) }.

Inductive result := RBytes (l : list N) | RBool (b : bool).
Inductive outcome :=
| Normal (st : state)
| Returned (r : result).

Fixpoint lookup {A} (x : string) (e : list (string * A)) : option A :=
  match e with
  | [] => None
  | (y, v) :: t => if String.eqb x y then Some v else lookup x t
  end.

Fixpoint replace {A} (x : string) (v : A) (e : list (string * A)) : list (string * A) :=
  match e with
  | [] => []
  | (y, w) :: t => if String.eqb x y then (y, v) :: t else (y, w) :: replace x v t
  end.

Definition binop_sem (t : ty) (o : binop) (x y : N) : N :=
  match o with
  | OAdd => (x + y) mod width t
  | OSub => (x + width t - y) mod width t
  | OAnd => N.land x y
  | OOr => N.lor x y
  | OAndNot => N.ldiff x y
  end.

Fixpoint eval (e : expr) (st : state) : option N :=
  match e with
  | EConst n => Some n
  | EVar x => lookup x (scalars st)
  | EUnix => Some (unix st)
  | ENanosecond => Some (nanosecond st)
  | EConv t a => match eval a st with Some x => Some (x mod width t) | None => None end
  | EBin t o a b =>
      match eval a st with
      | Some x => match eval b st with Some y => Some (binop_sem t o x y) | None => None end
      | None => None
      end
  | EUnknown _ => None
  end.

Definition eval_slice (s : slice) (st : state) : option (list N) :=
  match s with
  | SlFrom x off =>
      match lookup x (arrays st) with
      | Some a => if Nat.leb off (length a) then Some (skipn off a) else None
      | None => None
      end
  | SlUnknown _ => None
  end.

(* bytes.Compare *)
Fixpoint bytes_compare (a b : list N) : Z :=
  match a, b with
  | [], [] => 0%Z
  | [], _ :: _ => (-1)%Z
  | _ :: _, [] => 1%Z
  | x :: a', y :: b' => if x <? y then (-1)%Z else if y <? x then 1%Z else bytes_compare a' b'
  end.

Definition evali (e : iexpr) (st : state) : option Z :=
  match e with
  | ICompareBytes a b =>
      match eval_slice a st with
      | Some x => match eval_slice b st with Some y => Some (bytes_compare x y) | None => None end
      | None => None
      end
  | IConst z => Some z
  | IUnknown _ => None
  end.

Definition cmpop_sem (o : cmpop) (x y : Z) : bool :=
  match o with
  | CGe => (y <=? x)%Z
  | CGt => (y <? x)%Z
  | CLe => (x <=? y)%Z
  | CLt => (x <? y)%Z
  | CEq => (x =? y)%Z
  | CNe => negb (x =? y)%Z
  end.

Definition evalb (b : bexpr) (st : state) : option bool :=
  match b with
  | BCmpI o a b =>
      match evali a st with
      | Some x => match evali b st with Some y => Some (cmpop_sem o x y) | None => None end
      | None => None
      end
  | BUnknown _ => None
  end.

(* the k low bytes of v, least significant first; PutUintNN stores them in reverse *)
Fixpoint le_bytes (k : nat) (v : N) : list N :=
  match k with
  | O => []
  | S k' => v mod 256 :: le_bytes k' (v / 256)
  end.
Definition put_be (k : nat) (v : N) : list N := rev (le_bytes k v).

Definition put_slice (k : nat) (dst : slice) (v : N) (st : state) : option state :=
  match dst with
  | SlFrom x off =>
      match lookup x (arrays st) with
      | Some a =>
          if Nat.leb (off + k) (length a)
          then Some {| unix := unix st; nanosecond := nanosecond st; scalars := scalars st;
                       arrays := replace x (firstn off a ++ put_be k v ++ skipn (off + k) a) (arrays st) |}
          else None
      | None => None
      end
  | SlUnknown _ => None
  end.

Definition andthen (r : option outcome) (k : state -> option outcome) : option outcome :=
  match r with
  | Some (Normal st) => k st
  | other => other
  end.

Fixpoint exec (s : stmt) (st : state) : option outcome :=
  match s with
  | SSkip => Some (Normal st)
  | SSeq a b => andthen (exec a st) (exec b)
  | SVarArr x n =>
      Some (Normal {| unix := unix st; nanosecond := nanosecond st; scalars := scalars st;
                      arrays := (x, repeat 0 n) :: arrays st |})
  | SAssign x e =>
      match eval e st with
      | Some v => Some (Normal {| unix := unix st; nanosecond := nanosecond st;
                                  scalars := (x, v) :: scalars st; arrays := arrays st |})
      | None => None
      end
  | SPutBE k dst e =>
      match eval e st with
      | Some v => match put_slice k dst v st with Some st' => Some (Normal st') | None => None end
      | None => None
      end
  | SReturnArr x => match lookup x (arrays st) with Some a => Some (Returned (RBytes a)) | None => None end
  | SReturnB b => match evalb b st with Some v => Some (Returned (RBool v)) | None => None end
  | SUnknown _ => None
  end.

(* stamp(t): the inputs are t.Unix() and t.Nanosecond() *)
Definition run_stamp (body : stmt) (secs nano : N) : option (list N) :=
  match exec body {| unix := secs; nanosecond := nano; scalars := []; arrays := [] |} with
  | Some (Returned (RBytes l)) => Some l
  | _ => None
  end.

(* t1.After(t2) *)
Definition run_after (body : stmt) (t1 t2 : list N) : option bool :=
  match exec body {| unix := 0; nanosecond := 0; scalars := [];
                     arrays := [("t1"%string, t1); ("t2"%string, t2)] |} with
  | Some (Returned (RBool b)) => Some b
  | _ => None
  end.
