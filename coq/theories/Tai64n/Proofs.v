(* Facts about the whitened TAI64N clock (property C06, last sentence). *)
From WG Require Import Base.Prelude Gen.Constants Tai64n.Model.
Local Open Scope N_scope.

(* ---- nano &^ whitenerMask is rounding down to a multiple of 2^24 ---- *)
Lemma mask_is_ones : tai_whitenerMask = N.ones 24.
Proof. reflexivity. Qed.

Lemma whitener_val : whitener = 2^24.
Proof. reflexivity. Qed.

Lemma ldiff_mask x : N.ldiff x tai_whitenerMask = (x / 2^24) * 2^24.
Proof.
  rewrite mask_is_ones, N.ldiff_ones_r, N.shiftl_mul_pow2, N.shiftr_div_pow2. reflexivity.
Qed.

Lemma nano_of_lt t : nano_of t < ns_per_s.
Proof. unfold nano_of. apply N.mod_lt. discriminate. Qed.

Lemma whitened_le x : (x / 2^24) * 2^24 <= x.
Proof. change (2^24) with 16777216. lia. Qed.

(* ---- big-endian bytes: lexicographic order = numeric order ---- *)
Lemma be_bytes_length k x : length (be_bytes k x) = k.
Proof. revert x; induction k as [|k IH]; intros x; cbn [be_bytes length]; [reflexivity|]. now rewrite IH. Qed.

Lemma pow256_pos k : 0 < 256 ^ N.of_nat k.
Proof. apply N.neq_0_lt_0, N.pow_nonzero. discriminate. Qed.

Lemma pow256_succ k : 256 ^ N.of_nat (S k) = 256 * 256 ^ N.of_nat k.
Proof. rewrite Nat2N.inj_succ, N.pow_succ_r'. reflexivity. Qed.

Lemma split_cmp B q1 r1 q2 r2 :
  r1 < B -> r2 < B ->
  (B * q1 + r1 ?= B * q2 + r2) = match q1 ?= q2 with Eq => r1 ?= r2 | c => c end.
Proof.
  intros H1 H2.
  destruct (N.compare_spec q1 q2) as [E|L|G].
  - subst q2. destruct (N.compare_spec r1 r2) as [E|L|G].
    + subst. apply N.compare_refl.
    + apply N.compare_lt_iff. lia.
    + apply N.compare_gt_iff. lia.
  - apply N.compare_lt_iff.
    assert (B * (q1 + 1) <= B * q2) by (apply N.mul_le_mono_l; lia). lia.
  - apply N.compare_gt_iff.
    assert (B * (q2 + 1) <= B * q1) by (apply N.mul_le_mono_l; lia). lia.
Qed.

Lemma be_cmp k : forall x y, x < 256 ^ N.of_nat k -> y < 256 ^ N.of_nat k ->
  lex_cmp (be_bytes k x) (be_bytes k y) = (x ?= y).
Proof.
  induction k as [|k IH]; intros x y Hx Hy.
  - cbn in Hx, Hy. assert (x = 0) by lia. assert (y = 0) by lia. subst. reflexivity.
  - cbn [be_bytes lex_cmp]. rewrite pow256_succ in Hx, Hy.
    set (B := 256 ^ N.of_nat k) in *.
    assert (HB : 0 < B) by apply pow256_pos.
    assert (HBn : B <> 0) by lia.
    assert (Hqx : x / B < 256) by (apply N.div_lt_upper_bound; lia).
    assert (Hqy : y / B < 256) by (apply N.div_lt_upper_bound; lia).
    rewrite (N.mod_small (x / B) 256), (N.mod_small (y / B) 256) by assumption.
    assert (Hrx : x mod B < B) by (apply N.mod_lt; exact HBn).
    assert (Hry : y mod B < B) by (apply N.mod_lt; exact HBn).
    rewrite (IH (x mod B) (y mod B) Hrx Hry).
    rewrite (N.div_mod x B HBn) at 3. rewrite (N.div_mod y B HBn) at 3.
    symmetry. apply split_cmp; assumption.
Qed.

Lemma lex_cmp_app a1 : forall b1 a2 b2, length a1 = length b1 ->
  lex_cmp (a1 ++ a2) (b1 ++ b2) = match lex_cmp a1 b1 with Eq => lex_cmp a2 b2 | c => c end.
Proof.
  induction a1 as [|x a1 IH]; intros [|y b1] a2 b2 H; cbn [length] in H; try discriminate.
  - reflexivity.
  - cbn [app lex_cmp]. destruct (x ?= y); try reflexivity. apply IH. congruence.
Qed.

Lemma encode_cmp a b : wf a -> wf b ->
  lex_cmp (encode a) (encode b) = (val a ?= val b).
Proof.
  intros [Ha1 Ha2] [Hb1 Hb2]. unfold encode, val.
  rewrite lex_cmp_app by (now rewrite !be_bytes_length).
  rewrite (be_cmp 8), (be_cmp 4) by assumption.
  rewrite (N.mul_comm (secs a)), (N.mul_comm (secs b)).
  symmetry. apply split_cmp; assumption.
Qed.

(* t1.After(t2) on the 12 bytes is "greater" on the 96-bit numbers. *)
Lemma after_val a b : wf a -> wf b -> after a b = (val b <? val a).
Proof.
  intros Ha Hb. unfold after, after_bytes. rewrite (encode_cmp a b Ha Hb).
  destruct (N.compare_spec (val a) (val b)) as [E|L|G]; symmetry.
  - apply N.ltb_ge. lia.
  - apply N.ltb_ge. lia.
  - apply N.ltb_lt. exact G.
Qed.

Lemma val_of_val v : val (of_val v) = v.
Proof. unfold val, of_val. cbn [secs nanos]. change (2^32) with 4294967296. lia. Qed.

Lemma wf_of_val v : v < 2^96 -> wf (of_val v).
Proof. unfold wf, of_val. cbn [secs nanos]. change (2^96) with 79228162514264337593543950336.
  change (2^64) with 18446744073709551616. change (2^32) with 4294967296. lia. Qed.

(* ---- the stamp function ---- *)
Lemma stamp_secs t : in_range t -> secs (stamp t) = tai_base + unix_s t.
Proof. intros H. unfold stamp. cbn [secs]. apply N.mod_small. exact H. Qed.

Lemma stamp_nanos t : nanos (stamp t) = (nano_of t / 2^24) * 2^24.
Proof. unfold stamp. cbn [nanos]. apply ldiff_mask. Qed.

Lemma stamp_wf t : in_range t -> wf (stamp t).
Proof.
  intros H. split.
  - rewrite stamp_secs by exact H. exact H.
  - rewrite stamp_nanos. pose proof (nano_of_lt t) as Hn. pose proof (whitened_le (nano_of t)) as Hw.
    unfold ns_per_s in Hn. change (2^32) with 4294967296. lia.
Qed.

Lemma in_range_le t1 t2 : t1 <= t2 -> in_range t2 -> in_range t1.
Proof.
  unfold in_range, unix_s, ns_per_s. intros H H2.
  assert (t1 / 1000000000 <= t2 / 1000000000) by (apply N.div_le_mono; lia). lia.
Qed.

Lemma val_stamp t : in_range t ->
  val (stamp t) = (tai_base + unix_s t) * 2^32 + (nano_of t / 2^24) * 2^24.
Proof. intros H. unfold val. rewrite stamp_secs, stamp_nanos by exact H. reflexivity. Qed.

(* Decomposition used by both theorems: t = 10^9 * s + n. *)
Lemma split_t t : t = ns_per_s * unix_s t + nano_of t /\ nano_of t < ns_per_s.
Proof. unfold unix_s, nano_of, ns_per_s. split; [apply N.div_mod; discriminate | apply N.mod_lt; discriminate]. Qed.

Lemma val_stamp_mono t1 t2 : t1 <= t2 -> in_range t2 -> val (stamp t1) <= val (stamp t2).
Proof.
  intros Hle H2. pose proof (in_range_le _ _ Hle H2) as H1.
  rewrite !val_stamp by assumption.
  destruct (split_t t1) as [E1 L1], (split_t t2) as [E2 L2].
  set (s1 := unix_s t1) in *. set (s2 := unix_s t2) in *.
  set (n1 := nano_of t1) in *. set (n2 := nano_of t2) in *.
  unfold ns_per_s in *. change (2^32) with 4294967296. change (2^24) with 16777216.
  assert (s1 <= s2) by lia.
  destruct (N.eq_dec s1 s2) as [E|NE].
  - subst s2. assert (n1 <= n2) by lia. lia.
  - assert (s1 + 1 <= s2) by lia. lia.
Qed.

Lemma val_stamp_strict t1 t2 : t1 + whitener <= t2 -> in_range t2 -> val (stamp t1) < val (stamp t2).
Proof.
  rewrite whitener_val. intros Hle H2.
  assert (Hle' : t1 <= t2) by (change (2^24) with 16777216 in Hle; lia).
  pose proof (in_range_le _ _ Hle' H2) as H1.
  rewrite !val_stamp by assumption.
  destruct (split_t t1) as [E1 L1], (split_t t2) as [E2 L2].
  set (s1 := unix_s t1) in *. set (s2 := unix_s t2) in *.
  set (n1 := nano_of t1) in *. set (n2 := nano_of t2) in *.
  unfold ns_per_s in *. change (2^32) with 4294967296. change (2^24) with 16777216 in *.
  assert (s1 <= s2) by lia.
  destruct (N.eq_dec s1 s2) as [E|NE].
  - subst s2. assert (n1 + 16777216 <= n2) by lia. lia.
  - assert (s1 + 1 <= s2) by lia. lia.
Qed.

(* The clock never runs backwards through whitening ... *)
Theorem stamp_monotone t1 t2 : t1 <= t2 -> in_range t2 -> after (stamp t1) (stamp t2) = false.
Proof.
  intros Hle H2. pose proof (in_range_le _ _ Hle H2) as H1.
  rewrite after_val by (apply stamp_wf; assumption).
  apply N.ltb_ge. apply val_stamp_mono; assumption.
Qed.

(* ... and two instants at least one whitening quantum (2^24 ns) apart get
   strictly ordered stamps. *)
Theorem stamp_strict t1 t2 : t1 + whitener <= t2 -> in_range t2 -> after (stamp t2) (stamp t1) = true.
Proof.
  intros Hle H2.
  assert (Hle' : t1 <= t2) by (rewrite whitener_val in Hle; change (2^24) with 16777216 in Hle; lia).
  pose proof (in_range_le _ _ Hle' H2) as H1.
  rewrite after_val by (apply stamp_wf; assumption).
  apply N.ltb_lt. apply val_stamp_strict; assumption.
Qed.

(* Closer than that, they can coincide (the root of finding F7). *)
Lemma stamp_equal_within_quantum :
  exists t1 t2, t1 < t2 /\ in_range t2 /\ stamp t1 = stamp t2.
Proof. exists 1700000000000000000, 1700000000016000000. repeat split; vm_compute; reflexivity. Qed.

(* unstamp is the least instant with a given stamp. *)
Lemma unstamp_stamp_le t : in_range t -> unstamp (stamp t) <= t.
Proof.
  intros H. unfold unstamp. rewrite stamp_secs, stamp_nanos by exact H.
  destruct (split_t t) as [E L]. set (s := unix_s t) in *. set (n := nano_of t) in *.
  unfold ns_per_s in *. change (2^24) with 16777216.
  replace (tai_base + s - tai_base) with s by lia. lia.
Qed.
