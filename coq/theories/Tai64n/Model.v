(* Mirror of tai64n/tai64n.go.

     func stamp(t time.Time) Timestamp {
         secs := base + uint64(t.Unix())
         nano := uint32(t.Nanosecond()) &^ whitenerMask
         binary.BigEndian.PutUint64(tai64n[:], secs)
         binary.BigEndian.PutUint32(tai64n[8:], nano)
     }
     func (t1 Timestamp) After(t2 Timestamp) bool { return bytes.Compare(t1[:], t2[:]) > 0 }

   An instant is a number of nanoseconds since the Unix epoch (N, so not before
   1970: t.Unix() >= 0); secs wraps like uint64.  No proofs in this file. *)
From WG Require Import Base.Prelude Gen.Constants.
Local Open Scope N_scope.

Definition ns_per_s : N := 1000000000.

(* The two big-endian fields of the 12-byte value. *)
Record ts := { secs : N; nanos : N }.

Definition unix_s (t : N) : N := t / ns_per_s.
Definition nano_of (t : N) : N := t mod ns_per_s.

Definition stamp (t : N) : ts :=
  {| secs := (tai_base + unix_s t) mod 2^64;
     nanos := N.ldiff (nano_of t) tai_whitenerMask |}.

(* binary.BigEndian.PutUintXX: k bytes, most significant first. *)
Fixpoint be_bytes (k : nat) (x : N) : list N :=
  match k with
  | O => []
  | S k' => (x / 256 ^ N.of_nat k') mod 256 :: be_bytes k' (x mod 256 ^ N.of_nat k')
  end.

Definition encode (a : ts) : list N := be_bytes 8 (secs a) ++ be_bytes 4 (nanos a).

(* bytes.Compare *)
Fixpoint lex_cmp (a b : list N) : comparison :=
  match a, b with
  | [], [] => Eq
  | [], _ => Lt
  | _, [] => Gt
  | x :: a', y :: b' => match x ?= y with Eq => lex_cmp a' b' | c => c end
  end.

Definition after_bytes (a b : list N) : bool :=
  match lex_cmp a b with Gt => true | _ => false end.

(* t1.After(t2) *)
Definition after (a b : ts) : bool := after_bytes (encode a) (encode b).

(* The 96-bit big-endian number the 12 bytes spell; the handshake model
   (HsGate) carries timestamps as this number. *)
Definition val (a : ts) : N := secs a * 2^32 + nanos a.
Definition wf (a : ts) : Prop := secs a < 2^64 /\ nanos a < 2^32.
Definition of_val (v : N) : ts := {| secs := v / 2^32; nanos := v mod 2^32 |}.

(* Inverse on stamps: the earliest instant with this stamp (used by the
   checker to bracket the device's clock reading). *)
Definition unstamp (a : ts) : N := (secs a - tai_base) * ns_per_s + nanos a.

(* Instants the theorems talk about: secs does not wrap (until year 1.4e11). *)
Definition in_range (t : N) : Prop := tai_base + unix_s t < 2^64.

Definition whitener : N := tai_whitenerMask + 1.
