(* Symbolic cryptography for the handshake properties (C03; reused by C06/C10).

   An ORDINARY inductive type: no axioms.  Every "law" of the primitives the
   protocol relies on is a lemma about this type:
     - DH commutativity is the normal form  dh a (Pub b) = DH{min a b, max a b};
     - collision freedom of Hash/Mac/Kdf and injectivity of Aead are the
       injectivity of constructors;
     - AEAD integrity is  aead_open  succeeding only on a term built by
       Aead with the same key, nonce and associated data.
   That equal terms <=> equal bytes holds of the real primitives
   (golang.org/x/crypto) is an ASSUMPTION of the trusted base (DESIGN.md
   section 6), not an axiom here.

   All constructors have a fixed number of term arguments (concatenations are
   nested pairs), so equality is decidable by a plain Fixpoint. *)
From WG Require Import Base.Prelude.

(* Private keys (static and ephemeral alike) are atoms named by a number. *)
Definition kid := nat.

Inductive term :=
| TC (n : nat)                      (* protocol constant / label bytes *)
| TN (n : N)                        (* a number rendered as bytes: timestamp, index, type word *)
| TPub (k : kid)                    (* public key of private key k *)
| TDH (a b : kid)                   (* shared secret of a and b, a <= b (normal form) *)
| THash1 (a : term)                 (* Hash(a) *)
| THash2 (a b : term)               (* Hash(a || b) *)
| TMac (key data : term)            (* keyed BLAKE2s-128 *)
| TKdf (i : nat) (key input : term) (* i-th output of HKDF(key, input); KDF1/2/3 share outputs *)
| TAead (k : term) (n : N) (p ad : term)
| TPair (a b : term)                (* a || b *)
| TEmpty                            (* the empty byte string *)
| TZero                             (* all-zero bytes of the length required by the context *)
| TPsk (n : nat)                    (* a non-zero preshared key *)
| TJunk (n : nat).                  (* bytes of no structure *)

Fixpoint teqb (x y : term) : bool :=
  match x, y with
  | TC a, TC b => Nat.eqb a b
  | TN a, TN b => N.eqb a b
  | TPub a, TPub b => Nat.eqb a b
  | TDH a b, TDH c d => Nat.eqb a c && Nat.eqb b d
  | THash1 a, THash1 b => teqb a b
  | THash2 a b, THash2 c d => teqb a c && teqb b d
  | TMac a b, TMac c d => teqb a c && teqb b d
  | TKdf i a b, TKdf j c d => Nat.eqb i j && teqb a c && teqb b d
  | TAead k n p a, TAead k' n' p' a' => teqb k k' && N.eqb n n' && teqb p p' && teqb a a'
  | TPair a b, TPair c d => teqb a c && teqb b d
  | TEmpty, TEmpty => true
  | TZero, TZero => true
  | TPsk a, TPsk b => Nat.eqb a b
  | TJunk a, TJunk b => Nat.eqb a b
  | _, _ => false
  end.

Lemma teqb_spec x : forall y, teqb x y = true <-> x = y.
Proof.
  induction x; destruct y; cbn [teqb]; try (split; discriminate);
  rewrite ?andb_true_iff, ?Nat.eqb_eq, ?N.eqb_eq, ?IHx, ?IHx1, ?IHx2, ?IHx3;
  try (split; [intros; repeat match goal with H : _ /\ _ |- _ => destruct H end; subst; reflexivity
              | intros H; inversion H; subst; repeat split; reflexivity]).
  all: try tauto.
Qed.

Lemma teqb_refl x : teqb x x = true.
Proof. now apply teqb_spec. Qed.

Lemma teqb_neq x y : x <> y -> teqb x y = false.
Proof. intros H. destruct (teqb x y) eqn:E; [apply teqb_spec in E; contradiction|reflexivity]. Qed.

Lemma teqb_false x y : teqb x y = false -> x <> y.
Proof. intros E H. subst. rewrite teqb_refl in E. discriminate. Qed.

Lemma term_eq_dec (x y : term) : {x = y} + {x <> y}.
Proof.
  destruct (teqb x y) eqn:E; [left; now apply teqb_spec|right; now apply teqb_false].
Qed.

(* --- Diffie-Hellman ---------------------------------------------------- *)

Definition dhn (a b : kid) : term := TDH (Nat.min a b) (Nat.max a b).

(* sharedSecret(priv a, public P).  A public value that is not a curve point
   of a known private key gives no usable secret (the code's all-zero check
   is modelled by None: low-order points are the only inputs that reach it). *)
Definition dh (a : kid) (P : term) : option term :=
  match P with TPub b => Some (dhn a b) | _ => None end.

Lemma dhn_comm a b : dhn a b = dhn b a.
Proof. unfold dhn. now rewrite Nat.min_comm, Nat.max_comm. Qed.

Lemma dh_comm a b : dh a (TPub b) = dh b (TPub a).
Proof. cbn [dh]. now rewrite dhn_comm. Qed.

Lemma dhn_inj a b c d : dhn a b = dhn c d -> (a = c /\ b = d) \/ (a = d /\ b = c).
Proof. unfold dhn. intros H. inversion H. lia. Qed.

Lemma dhn_cancel a b c : dhn a b = dhn a c -> b = c.
Proof. intros H. apply dhn_inj in H. lia. Qed.

(* --- hash / kdf -------------------------------------------------------- *)

Definition mixHash (h d : term) : term := THash2 h d.
Definition kdf1 (c d : term) : term := TKdf 1 c d.
Definition kdf2 (c d : term) : term * term := (TKdf 1 c d, TKdf 2 c d).
Definition kdf3 (c d : term) : term * term * term := (TKdf 1 c d, TKdf 2 c d, TKdf 3 c d).
Definition mixKey (c d : term) : term := kdf1 c d.

Lemma kdf_outputs_distinct c d i j : i <> j -> TKdf i c d <> TKdf j c d.
Proof. intros H E. inversion E. contradiction. Qed.

Lemma kdf_inj i c d j c' d' : TKdf i c d = TKdf j c' d' -> i = j /\ c = c' /\ d = d'.
Proof. intros E. inversion E. auto. Qed.

Lemma hash2_inj a b c d : THash2 a b = THash2 c d -> a = c /\ b = d.
Proof. intros E. inversion E. auto. Qed.

(* --- AEAD -------------------------------------------------------------- *)

Definition aead_seal (key : term) (n : N) (p ad : term) : term := TAead key n p ad.

Definition aead_open (key : term) (n : N) (c ad : term) : option term :=
  match c with
  | TAead k n' p a => if teqb k key && N.eqb n n' && teqb a ad then Some p else None
  | _ => None
  end.

Lemma aead_open_seal k n p ad : aead_open k n (aead_seal k n p ad) ad = Some p.
Proof. unfold aead_open, aead_seal. now rewrite !teqb_refl, N.eqb_refl. Qed.

(* integrity: whatever opens was sealed with this key, nonce and ad *)
Lemma aead_open_inv k n c ad p : aead_open k n c ad = Some p -> c = TAead k n p ad.
Proof.
  destruct c; cbn [aead_open]; try discriminate.
  destruct (teqb c1 k) eqn:E1; cbn [andb]; [|discriminate].
  destruct (N.eqb n n0) eqn:E2; cbn [andb]; [|discriminate].
  destruct (teqb c3 ad) eqn:E3; [|discriminate].
  intros H; inversion H; subst. apply teqb_spec in E1, E3. apply N.eqb_eq in E2. now subst.
Qed.

Lemma aead_open_wrong_key k k' n n' p ad ad' :
  k <> k' -> aead_open k' n' (TAead k n p ad) ad' = None.
Proof. intros H. cbn [aead_open]. now rewrite (teqb_neq _ _ H). Qed.

Lemma aead_open_wrong_ad k n p ad ad' :
  ad <> ad' -> aead_open k n (TAead k n p ad) ad' = None.
Proof. intros H. cbn [aead_open]. rewrite (teqb_neq _ _ H). now rewrite andb_false_r. Qed.

Lemma aead_open_wrong_nonce k n n' p ad :
  n <> n' -> aead_open k n' (TAead k n p ad) ad = None.
Proof.
  intros H. cbn [aead_open]. replace (N.eqb n' n) with false; [now rewrite andb_false_r|].
  symmetry. apply N.eqb_neq. congruence.
Qed.

(* --- MAC --------------------------------------------------------------- *)

Definition mac (key data : term) : term := TMac key data.
Definition mac_ok (key data tag : term) : bool := teqb tag (TMac key data).

Lemma mac_ok_inv key data tag : mac_ok key data tag = true -> tag = TMac key data.
Proof. apply teqb_spec. Qed.

(* is_zero of the code: only the all-zero string *)
Definition is_zero (t : term) : bool := match t with TZero => true | _ => false end.

Lemma dhn_not_zero a b : is_zero (dhn a b) = false.
Proof. reflexivity. Qed.
