(* Concurrent callers of Ratelimiter.Allow: the atomic steps of the code as a
   small-step interleaving semantics over a pool of threads, one Allow call
   per thread (sequencing calls inside a thread only removes schedules).

     Start      rate.mu.RLock(); entry = rate.table[ip]; RUnlock()
     Miss       entry == nil was seen
       code as found ([fixed = false]):
         Miss -> Created e      entry = new(...); entry.lastTime = rate.timeNow()
         Created e -> Done      rate.mu.Lock(); rate.table[ip] = entry; Unlock(); return true
                                (no second look at the table)
       repaired ([fixed = true]):
         Miss -> Done | Found   rate.mu.Lock(); re-check; insert a new entry and
                                return true, or fall through with the entry found
     Found p    entry.mu.Lock(); refill at timeNow(); charge; Unlock(); return
   Environment: the clock advances (Tick), a collection pass runs (Collect).
   Entries are heap objects: the table maps an address to a pointer, and a
   thread that has looked an entry up keeps its pointer. *)
From WG Require Import Base.Prelude Gen.Constants Ratelimit.Model Ratelimit.Spec Ratelimit.Proofs.
Local Open Scope Z_scope.

Inductive pc := Start | Miss | Created (e : entry) | Found (p : nat) | Done (d : bool).
Record thread := { th_addr : N; th_pc : pc }.

Record cstate := {
  heap : list entry;
  ctbl : N -> option nat;
  clock : Z;
  log : list ev;            (* newest first *)
  pool : list thread
}.

Inductive label := Run (i : nat) | Tick (d : Z) | Collect.

Definition dflt : entry := {| e_last := 0; e_tok := 0 |}.

Definition charge (e : entry) (now : Z) : entry * bool :=
  let t1 := refill e now in
  if cost <? t1 then ({| e_last := now; e_tok := t1 - cost |}, true)
  else ({| e_last := now; e_tok := t1 |}, false).

Definition goto (s : cstate) (i : nat) (a : N) (p : pc) : cstate :=
  {| heap := heap s; ctbl := ctbl s; clock := clock s; log := log s;
     pool := set_nth (pool s) i {| th_addr := a; th_pc := p |} |}.

Definition insert (s : cstate) (i : nat) (a : N) (e : entry) : cstate :=
  {| heap := heap s ++ [e];
     ctbl := fun b => if N.eqb b a then Some (length (heap s)) else ctbl s b;
     clock := clock s;
     log := (a, e_last e, true) :: log s;
     pool := set_nth (pool s) i {| th_addr := a; th_pc := Done true |} |}.

Definition fresh (now : Z) : entry := {| e_last := now; e_tok := maxTokens - cost |}.

Definition tstep (fixed : bool) (s : cstate) (i : nat) : cstate :=
  match nth_error (pool s) i with
  | None => s
  | Some th =>
      let a := th_addr th in
      match th_pc th with
      | Start => goto s i a (match ctbl s a with None => Miss | Some p => Found p end)
      | Miss =>
          if fixed
          then match ctbl s a with
               | None => insert s i a (fresh (clock s))
               | Some p => goto s i a (Found p)
               end
          else goto s i a (Created (fresh (clock s)))
      | Created e => insert s i a e
      | Found p =>
          let '(e', d) := charge (nth p (heap s) dflt) (clock s) in
          {| heap := set_nth (heap s) p e'; ctbl := ctbl s; clock := clock s;
             log := (a, clock s, d) :: log s;
             pool := set_nth (pool s) i {| th_addr := a; th_pc := Done d |} |}
      | Done _ => s
      end
  end.

Definition collect (s : cstate) : cstate :=
  {| heap := heap s;
     ctbl := fun a => match ctbl s a with
                      | Some p => if keep (nth p (heap s) dflt) (clock s) then Some p else None
                      | None => None
                      end;
     clock := clock s; log := log s; pool := pool s |}.

Definition cstep (fixed : bool) (s : cstate) (l : label) : cstate :=
  match l with
  | Run i => tstep fixed s i
  | Tick d => {| heap := heap s; ctbl := ctbl s; clock := clock s + d; log := log s; pool := pool s |}
  | Collect => collect s
  end.

Definition crun (fixed : bool) (s : cstate) (sched : list label) : cstate :=
  fold_left (cstep fixed) sched s.

Definition init (now : Z) (addrs : list N) : cstate :=
  {| heap := []; ctbl := fun _ => None; clock := now; log := [];
     pool := map (fun a => {| th_addr := a; th_pc := Start |}) addrs |}.

(* ---- schedules ---- *)
Definition holds_pointer (th : thread) : Prop :=
  match th_pc th with Found _ => True | _ => False end.

(* the clock only moves forward and stays below [hi]; [strict]: no collection
   pass while a caller is between its lookup and its charge *)
Definition label_ok (strict : bool) (hi : Z) (s : cstate) (l : label) : Prop :=
  match l with
  | Run _ => True
  | Tick d => 0 <= d /\ clock s + d <= hi
  | Collect => if strict then Forall (fun th => ~ holds_pointer th) (pool s) else True
  end.

Fixpoint sched_ok (fixed strict : bool) (hi : Z) (s : cstate) (sched : list label) : Prop :=
  match sched with
  | [] => True
  | l :: r => label_ok strict hi s l /\ sched_ok fixed strict hi (cstep fixed s l) r
  end.

(* the envelope over the part [w] of a schedule that follows any prefix [pre]:
   the admissions of [a] logged during [w] against the clock time spent in [w] *)
Definition window_envelope (fixed : bool) (s0 : cstate) (pre w : list label) (a : N) : Prop :=
  let s1 := crun fixed s0 pre in
  let s2 := crun fixed s1 w in
  exists new, log s2 = new ++ log s1 /\
              admitted a new * cost <= maxTokens + (clock s2 - clock s1).

(* ================= the code as found: refuted (finding F2) ================= *)
Definition addr_x : N := 7.
(* three callers for a new address take the miss branch before any of them
   inserts; three later callers find the last entry inserted *)
Definition f2_schedule : list label :=
  [Run 0; Run 1; Run 2;          (* lookups: all miss *)
   Run 0; Run 1; Run 2;          (* three entries created *)
   Run 0; Run 1; Run 2;          (* three inserts, the last one wins: 3 admitted *)
   Run 3; Run 3; Run 4; Run 4; Run 5; Run 5].  (* 200 -> 150 -> 100 -> 50 ms of tokens: 3 more *)

Lemma f2_schedule_ok : sched_ok false true 0 (init 0 (repeat addr_x 6)) f2_schedule.
Proof. vm_compute. repeat split; try discriminate. Qed.

Lemma f2_admitted :
  map (fun e => snd e) (log (crun false (init 0 (repeat addr_x 6)) f2_schedule))
  = [true; true; true; true; true; true] /\
  clock (crun false (init 0 (repeat addr_x 6)) f2_schedule) = 0.
Proof. vm_compute. split; reflexivity. Qed.

(* With the code as found there is a pool of callers and a schedule (clock
   frozen, no collection pass) whose admissions break the envelope. *)
Theorem conc_rate_envelope_refuted :
  exists addrs sched a,
    sched_ok false true 0 (init 0 addrs) sched /\
    ~ window_envelope false (init 0 addrs) [] sched a.
Proof.
  exists (repeat addr_x 6), f2_schedule, addr_x. split; [exact f2_schedule_ok|].
  intros (new & Hl & Hb). cbn [crun fold_left] in Hl, Hb.
  change (log (init 0 (repeat addr_x 6))) with (@nil ev) in Hl. rewrite app_nil_r in Hl. subst new.
  revert Hb. vm_compute. intros H. apply H. reflexivity.
Qed.

(* k racing callers are all admitted, for any k (here by computation for 16,
   the number used on the real code; 16 + 3 = 19 admissions at a frozen clock). *)
Definition race_schedule (k : nat) : list label :=
  map Run (seq 0 k) ++ map Run (seq 0 k) ++ map Run (seq 0 k).
Lemma f2_sixteen :
  let s := crun false (init 0 (repeat addr_x 24))
                (race_schedule 16 ++ flat_map (fun i => [Run i; Run i]) (seq 16 8)) in
  admitted addr_x (log s) = 19 /\ clock s = 0.
Proof. vm_compute. split; reflexivity. Qed.

(* ====== repaired insertion, collection pass racing with a caller: refuted ======
   A caller that has looked its entry up keeps the pointer; a collection pass
   may delete the entry from the table before the caller charges it.  Four
   such callers drain the orphaned (full) entry while four others create and
   drain a new one: 8 admissions at one instant. *)
Definition stale_prefix : list label :=
  [Run 0; Run 0;                         (* caller 0 creates the entry at time 0 *)
   Tick (gcTime + 1);
   Run 1; Run 2; Run 3; Run 4].          (* four callers look it up *)
Definition stale_window : list label :=
  [Collect;                              (* idle for more than a second: deleted *)
   Run 1; Run 2; Run 3; Run 4;           (* charge the orphan: 4 admitted *)
   Run 5; Run 5; Run 6; Run 6; Run 7; Run 7; Run 8; Run 8].  (* new entry: 4 admitted *)

Theorem conc_collect_race_refuted :
  exists addrs pre w a,
    sched_ok true false (2^40) (init 0 addrs) (pre ++ w) /\
    ~ window_envelope true (init 0 addrs) pre w a.
Proof.
  exists (repeat addr_x 9), stale_prefix, stale_window, addr_x. split.
  - vm_compute. repeat split; discriminate.
  - intros (new & Hl & Hb).
    assert (E : log (crun true (crun true (init 0 (repeat addr_x 9)) stale_prefix) stale_window)
                = repeat (addr_x, gcTime + 1, true) 8 ++ log (crun true (init 0 (repeat addr_x 9)) stale_prefix))
      by (vm_compute; reflexivity).
    rewrite E in Hl. apply app_inv_tail in Hl. subst new.
    revert Hb. vm_compute. intros H. apply H. reflexivity.
Qed.

(* ================= repaired insertion: all schedules ================= *)
Record CInv (lo : Z) (s : cstate) : Prop := {
  I_clock : Ctx lo (clock s);
  I_heap : forall a p, ctbl s a = Some p ->
             (p < length (heap s))%nat /\
             0 <= e_tok (nth p (heap s) dflt) <= maxTokens /\
             lo <= e_last (nth p (heap s) dflt) <= clock s;
  I_inj : forall a b p, ctbl s a = Some p -> ctbl s b = Some p -> a = b;
  I_pool : Forall (fun th => match th_pc th with
                             | Found p => ctbl s (th_addr th) = Some p
                             | Created _ => False
                             | _ => True
                             end) (pool s)
}.

(* what the bucket of [a] would hold now *)
Definition cvt (s : cstate) (a : N) : Z :=
  match ctbl s a with
  | None => maxTokens
  | Some p => let e := nth p (heap s) dflt in Z.min maxTokens (e_tok e + (clock s - e_last e))
  end.

Lemma Forall_set_nth {A} (P : A -> Prop) l i v : Forall P l -> P v -> Forall P (set_nth l i v).
Proof.
  revert i; induction l as [|h t IH]; intros i Hl Hv; [constructor|].
  inversion Hl; subst. destruct i; cbn [set_nth]; constructor; auto.
Qed.

Lemma Forall_nth_error {A} (P : A -> Prop) l i x : Forall P l -> nth_error l i = Some x -> P x.
Proof. intros H E. rewrite Forall_forall in H. apply H. eapply nth_error_In; eauto. Qed.

Lemma nth_set_same (l : list entry) p v : (p < length l)%nat -> nth p (set_nth l p v) dflt = v.
Proof.
  intros H. rewrite nth_set_nth. rewrite Nat.eqb_refl.
  destruct (Nat.ltb_spec p (length l)); [reflexivity|lia].
Qed.
Lemma nth_set_other (l : list entry) p q v : q <> p -> nth q (set_nth l p v) dflt = nth q l dflt.
Proof. intros H. rewrite nth_set_nth. destruct (Nat.eqb_spec q p); [contradiction|reflexivity]. Qed.

Definition step_claim (s s' : cstate) (a : N) : Prop :=
  exists new, log s' = new ++ log s /\
              admitted a new * cost + cvt s' a <= cvt s a + (clock s' - clock s).

Lemma claim_same_log s s' a :
  log s' = log s -> cvt s' a <= cvt s a + (clock s' - clock s) -> step_claim s s' a.
Proof. intros L H. exists []. split; [exact L|]. cbn [admitted]. lia. Qed.

(* a step that only moves a thread's program counter *)
Lemma goto_ok lo s i a p :
  CInv lo s -> (match p with Found q => ctbl s a = Some q | Created _ => False | _ => True end) ->
  CInv lo (goto s i a p) /\ forall b, step_claim s (goto s i a p) b.
Proof.
  intros [Ic Ih Ij Ip] Hp. split.
  - constructor; cbn [goto heap ctbl clock pool]; auto.
    apply Forall_set_nth; auto.
  - intros b. apply claim_same_log; [reflexivity|]. unfold cvt. cbn [goto heap ctbl clock]. lia.
Qed.

Lemma insert_ok lo s i a :
  CInv lo s -> ctbl s a = None ->
  CInv lo (insert s i a (fresh (clock s))) /\ forall b, step_claim s (insert s i a (fresh (clock s))) b.
Proof.
  intros [Ic Ih Ij Ip] Hn. pose proof consts_ok as (K1 & K2 & K3 & K4).
  assert (Hc : lo <= clock s) by (destruct Ic as (_ & _ & ?); lia).
  split.
  - constructor; cbn [insert heap ctbl clock pool]; auto.
    + intros b p. rewrite app_length. cbn [length]. destruct (N.eqb_spec b a) as [->|Hne].
      * intros E. inversion E; subst p. rewrite app_nth2 by lia. rewrite Nat.sub_diag. cbn [nth fresh e_tok e_last].
        split; [lia|]. lia.
      * intros E. destruct (Ih b p E) as (H1 & H2 & H3). rewrite app_nth1 by lia. split; [lia|]. auto.
    + intros b c p. destruct (N.eqb_spec b a) as [->|Hb], (N.eqb_spec c a) as [->|Hc']; intros E1 E2; auto.
      * inversion E1; subst p. apply Ih in E2. lia.
      * inversion E2; subst p. apply Ih in E1. lia.
      * eapply Ij; eauto.
    + apply Forall_set_nth; [|cbn; exact I].
      refine (Forall_impl _ _ Ip). intros th H. destruct (th_pc th); auto.
      destruct (N.eqb_spec (th_addr th) a) as [E|]; auto. rewrite E in H. congruence.
  - intros b. unfold step_claim. cbn [insert log clock]. exists [(a, e_last (fresh (clock s)), true)]. split; [reflexivity|].
    unfold cvt. cbn [insert heap ctbl clock admitted fresh e_last].
    destruct (N.eqb_spec b a) as [->|Hne].
    + rewrite Hn. rewrite N.eqb_refl. cbn [andb]. rewrite app_nth2 by lia. rewrite Nat.sub_diag. cbn [nth fresh e_tok e_last]. lia.
    + destruct (N.eqb_spec a b) as [->|_]; [contradiction|]. cbn [andb].
      destruct (ctbl s b) as [p|] eqn:E; [|lia].
      destruct (Ih b p E) as (H1 & _). rewrite app_nth1 by lia. lia.
Qed.

Definition update (s : cstate) (i : nat) (a : N) (p : nat) (e' : entry) (d : bool) : cstate :=
  {| heap := set_nth (heap s) p e'; ctbl := ctbl s; clock := clock s;
     log := (a, clock s, d) :: log s;
     pool := set_nth (pool s) i {| th_addr := a; th_pc := Done d |} |}.

Lemma update_ok lo s i a p e' (d : bool) :
  CInv lo s -> ctbl s a = Some p ->
  0 <= e_tok e' <= maxTokens -> e_last e' = clock s ->
  (if d then cost else 0) + e_tok e' = cvt s a ->
  CInv lo (update s i a p e' d) /\ forall b, step_claim s (update s i a p e' d) b.
Proof.
  intros [Ic Ih Ij Ip] Ha Ht' Hl' Hpay. pose proof consts_ok as (K1 & K2 & K3 & K4).
  destruct (Ih a p Ha) as (Hp & Ht & Hl).
  assert (Hc : lo <= clock s) by (destruct Ic as (_ & _ & ?); lia).
  split.
  - constructor; cbn [update heap ctbl clock pool]; auto.
    + intros b q E. rewrite set_nth_length. destruct (Nat.eq_dec q p) as [->|Hq].
      * rewrite nth_set_same by lia. split; [lia|]. lia.
      * rewrite nth_set_other by exact Hq. apply (Ih b q E).
    + apply Forall_set_nth; [exact Ip|cbn; exact I].
  - intros b. unfold step_claim. cbn [update log clock].
    exists [(a, clock s, d)]. split; [reflexivity|].
    unfold cvt at 1. cbn [update heap ctbl clock admitted].
    destruct (N.eqb_spec a b) as [<-|Hne]; cbn [andb].
    + rewrite Ha, nth_set_same by lia. destruct d; lia.
    + unfold cvt. destruct (ctbl s b) as [q|] eqn:E; [|lia].
      assert (q <> p) by (intros ->; apply Hne; eapply Ij; eauto).
      rewrite nth_set_other by assumption. lia.
Qed.

Lemma charge_ok lo s i a p :
  CInv lo s -> ctbl s a = Some p ->
  let '(e', d) := charge (nth p (heap s) dflt) (clock s) in
  CInv lo (update s i a p e' d) /\ forall b, step_claim s (update s i a p e' d) b.
Proof.
  intros Inv Ha. pose proof consts_ok as (K1 & K2 & K3 & K4).
  destruct (I_heap lo s Inv a p Ha) as (Hp & Ht & Hl).
  pose proof (I_clock lo s Inv) as Ic.
  unfold charge.
  rewrite (refill_exact lo (clock s) (nth p (heap s) dflt) (clock s) Ic Ht Hl ltac:(lia)).
  assert (Hcv : cvt s a = Z.min maxTokens (e_tok (nth p (heap s) dflt) + (clock s - e_last (nth p (heap s) dflt))))
    by (unfold cvt; rewrite Ha; reflexivity).
  rewrite <- Hcv.
  assert (Hr : 0 <= cvt s a <= maxTokens) by lia.
  destruct (cost <? cvt s a) eqn:Ec; [apply Z.ltb_lt in Ec|apply Z.ltb_ge in Ec];
    apply update_ok; auto; cbn [e_tok e_last]; lia.
Qed.

Lemma tstep_ok lo s i :
  CInv lo s -> CInv lo (tstep true s i) /\ forall b, step_claim s (tstep true s i) b.
Proof.
  intros Inv. unfold tstep.
  destruct (nth_error (pool s) i) as [th|] eqn:En.
  2:{ split; [exact Inv|]. intros b. apply claim_same_log; [reflexivity|lia]. }
  pose proof (Forall_nth_error _ _ _ _ (I_pool lo s Inv) En) as Hth. cbv beta in Hth.
  destruct (th_pc th) as [| |e|p|d] eqn:Epc.
  - destruct (ctbl s (th_addr th)) as [p|] eqn:E; apply goto_ok; auto.
  - destruct (ctbl s (th_addr th)) as [p|] eqn:E; [apply goto_ok; auto|apply insert_ok; auto].
  - contradiction.
  - pose proof (charge_ok lo s i (th_addr th) p Inv Hth) as H.
    destruct (charge (nth p (heap s) dflt) (clock s)) as [e' d]. exact H.
  - split; [exact Inv|]. intros b. apply claim_same_log; [reflexivity|lia].
Qed.

Lemma tick_ok lo s d :
  CInv lo s -> 0 <= d -> clock s + d <= lo + 2^62 ->
  CInv lo (cstep true s (Tick d)) /\ forall b, step_claim s (cstep true s (Tick d)) b.
Proof.
  intros [Ic Ih Ij Ip] Hd Hb. cbn [cstep]. split.
  - constructor; cbn [heap ctbl clock pool]; auto.
    + unfold Ctx in *. lia.
    + intros a p E. destruct (Ih a p E) as (H1 & H2 & H3). split; [auto|]. lia.
  - intros b. apply claim_same_log; [reflexivity|]. unfold cvt. cbn [heap ctbl clock].
    destruct (ctbl s b); lia.
Qed.

Lemma collect_ok lo s :
  CInv lo s -> Forall (fun th => ~ holds_pointer th) (pool s) ->
  CInv lo (collect s) /\ forall b, step_claim s (collect s) b.
Proof.
  intros [Ic Ih Ij Ip] Hq. pose proof consts_ok as (K1 & K2 & K3 & K4). split.
  - constructor; cbn [collect heap ctbl clock pool]; auto.
    + intros a p. destruct (ctbl s a) as [q|] eqn:E; [|discriminate].
      destruct (keep (nth q (heap s) dflt) (clock s)); [|discriminate].
      intros H; inversion H; subst. apply (Ih a _ E).
    + intros a b p. destruct (ctbl s a) as [q|] eqn:Ea; [|discriminate].
      destruct (keep (nth q (heap s) dflt) (clock s)); [|discriminate].
      destruct (ctbl s b) as [r|] eqn:Eb; [|discriminate].
      destruct (keep (nth r (heap s) dflt) (clock s)); [|discriminate].
      intros H1 H2; inversion H1; inversion H2; subst. eapply Ij; eauto.
    + rewrite Forall_forall in *. intros th Hin. specialize (Ip th Hin). specialize (Hq th Hin).
      unfold holds_pointer in Hq. destruct (th_pc th); auto. exfalso; apply Hq; exact I.
  - intros b. apply claim_same_log; [reflexivity|]. unfold cvt. cbn [collect heap ctbl clock].
    destruct (ctbl s b) as [p|] eqn:E; [|lia].
    destruct (Ih b p E) as (H1 & H2 & H3).
    assert (Hc : lo <= clock s) by (destruct Ic as (_ & _ & ?); lia).
    rewrite (keep_exact lo (clock s) _ (clock s) Ic H3 ltac:(lia)).
    destruct (gcTime <? clock s - e_last (nth p (heap s) dflt)) eqn:El; cbn [negb]; [|lia].
    apply Z.ltb_lt in El. lia.
Qed.

Lemma cstep_ok lo s l :
  CInv lo s -> label_ok true (lo + 2^62) s l ->
  CInv lo (cstep true s l) /\ forall b, step_claim s (cstep true s l) b.
Proof.
  intros Inv Hl. destruct l as [i|d|].
  - apply tstep_ok; exact Inv.
  - destruct Hl. apply tick_ok; auto.
  - apply collect_ok; auto.
Qed.

Lemma crun_ok lo : forall sched s,
  CInv lo s -> sched_ok true true (lo + 2^62) s sched ->
  CInv lo (crun true s sched) /\ forall b, step_claim s (crun true s sched) b.
Proof.
  induction sched as [|l r IH]; intros s Inv Ok.
  - split; [exact Inv|]. intros b. apply claim_same_log; [reflexivity|]. cbn. lia.
  - destruct Ok as [Hl Ok]. destruct (cstep_ok lo s l Inv Hl) as [Inv1 C1].
    destruct (IH (cstep true s l) Inv1 Ok) as [Inv2 C2]. split; [exact Inv2|].
    intros b. destruct (C1 b) as (n1 & L1 & B1). destruct (C2 b) as (n2 & L2 & B2).
    exists (n2 ++ n1). change (crun true s (l :: r)) with (crun true (cstep true s l) r). split.
    + rewrite L2, L1, app_assoc. reflexivity.
    + rewrite admitted_app. lia.
Qed.

Lemma sched_ok_app fixed strict hi : forall a s b,
  sched_ok fixed strict hi s (a ++ b) ->
  sched_ok fixed strict hi s a /\ sched_ok fixed strict hi (crun fixed s a) b.
Proof.
  induction a as [|l a IH]; intros s b H; cbn [app sched_ok crun fold_left] in *; [auto|].
  destruct H as [H1 H2]. apply IH in H2. tauto.
Qed.

Lemma cinv_init lo addrs : Base lo -> CInv lo (init lo addrs).
Proof.
  intros [B1 B2]. constructor; cbn [init heap ctbl clock pool].
  - unfold Ctx. rewrite pow62 in *. lia.
  - discriminate.
  - discriminate.
  - apply Forall_forall. intros th Hin. apply in_map_iff in Hin. destruct Hin as (a & <- & _). exact I.
Qed.

(* Repaired insertion: for every pool of callers (any addresses), every
   schedule of their atomic steps, clock ticks and collection passes in which
   no pass falls between a caller's lookup and its charge, and every window of
   that schedule, the admissions n of any address during the window satisfy
   n * packetCost <= maxTokens + (clock time spent in the window). *)
Theorem conc_rate_envelope_all_schedules : forall lo addrs pre w a,
  - 2^63 <= lo -> lo + 2^62 < 2^63 ->
  sched_ok true true (lo + 2^62) (init lo addrs) (pre ++ w) ->
  window_envelope true (init lo addrs) pre w a.
Proof.
  intros lo addrs pre w a B1 B2 Ok. apply sched_ok_app in Ok. destruct Ok as [Ok1 Ok2].
  destruct (crun_ok lo pre _ (cinv_init lo addrs (conj B1 B2)) Ok1) as [Inv1 _].
  destruct (crun_ok lo w _ Inv1 Ok2) as [Inv2 C].
  destruct (C a) as (new & L & Bd). exists new. split; [exact L|].
  assert (H1 : cvt (crun true (init lo addrs) pre) a <= maxTokens).
  { unfold cvt. destruct (ctbl _ a); lia. }
  assert (H2 : 0 <= cvt (crun true (crun true (init lo addrs) pre) w) a).
  { unfold cvt. pose proof consts_ok. destruct (ctbl _ a) as [p|] eqn:E; [|lia].
    destruct (I_heap lo _ Inv2 a p E) as (_ & Ht & Hl). lia. }
  lia.
Qed.
