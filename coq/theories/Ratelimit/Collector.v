(* The collector goroutine of Ratelimiter.Init and a caller of Allow that
   inserts a new address: who holds the table lock rate.mu, who waits for it,
   and the blocking send on rate.stopReset that Allow performs, with the lock
   held, when its insert makes the table non-empty.

     collector:  select { stopReset: (re)start the ticker | tick: cleanup() }
                 cleanup = Lock; delete idle entries; Unlock; report "empty"
                 [stop = true] (the code): an empty report stops the ticker
     caller:     Lock; insert; if len == 1 then send on stopReset; Unlock

   The table is abstracted to its size 0 / 1 / 2 (= two or more).  Finite
   state space: the theorem is proved by computing a set of states closed
   under every step and checking that none of them is stuck. *)
From WG Require Import Base.Prelude.
Local Open Scope nat_scope.

Inductive cpc := CSelect | CWantLock | CHold | CRet (empty : bool).
Inductive apc := AIdle | AWantLock | AHold | ASend.
Inductive owner := Free | ByCaller | ByCollector.

Record st := { size : nat; lock : owner; ticker : bool; col : cpc; cal : apc }.

Inductive label :=
| Tick            (* the ticker fires and the collector's select takes it *)
| CLock           (* cleanup acquires rate.mu *)
| CPass (k : nat) (* cleanup leaves k entries, unlocks, returns k == 0 *)
| CBack           (* back to the select; an empty report stops the ticker *)
| AStart          (* a caller for a new address finds no entry *)
| ALock           (* it acquires rate.mu *)
| AInsert         (* inserts; the first entry of the table requires the send *)
| ARendezvous.    (* the collector, in its select, receives the send *)

Definition upd_col s c := {| size := size s; lock := lock s; ticker := ticker s; col := c; cal := cal s |}.
Definition upd_cal s a := {| size := size s; lock := lock s; ticker := ticker s; col := col s; cal := a |}.

Definition step (stop : bool) (s : st) (l : label) : st :=
  match l, col s, cal s, lock s with
  | Tick, CSelect, _, _ => if ticker s then upd_col s CWantLock else s
  | CLock, CWantLock, _, Free =>
      {| size := size s; lock := ByCollector; ticker := ticker s; col := CHold; cal := cal s |}
  | CPass k, CHold, _, _ =>
      if k <=? size s
      then {| size := k; lock := Free; ticker := ticker s; col := CRet (k =? 0); cal := cal s |}
      else s
  | CBack, CRet e, _, _ =>
      {| size := size s; lock := lock s; ticker := if stop && e then false else ticker s;
         col := CSelect; cal := cal s |}
  | AStart, _, AIdle, _ => upd_cal s AWantLock
  | ALock, _, AWantLock, Free =>
      {| size := size s; lock := ByCaller; ticker := ticker s; col := col s; cal := AHold |}
  | AInsert, _, AHold, _ =>
      if size s =? 0
      then {| size := 1; lock := ByCaller; ticker := ticker s; col := col s; cal := ASend |}
      else {| size := 2; lock := Free; ticker := ticker s; col := col s; cal := AIdle |}
  | ARendezvous, CSelect, ASend, _ =>
      {| size := size s; lock := Free; ticker := true; col := CSelect; cal := AIdle |}
  | _, _, _, _ => s
  end.

Definition init : st := {| size := 0; lock := Free; ticker := false; col := CSelect; cal := AIdle |}.
Definition run (stop : bool) (s : st) (sched : list label) : st := fold_left (step stop) sched s.

Definition all_labels : list label :=
  [Tick; CLock; CPass 0; CPass 1; CPass 2; CBack; AStart; ALock; AInsert; ARendezvous].

Definition cpc_eqb a b := match a, b with
  | CSelect, CSelect | CWantLock, CWantLock | CHold, CHold => true
  | CRet x, CRet y => Bool.eqb x y | _, _ => false end.
Definition apc_eqb a b := match a, b with
  | AIdle, AIdle | AWantLock, AWantLock | AHold, AHold | ASend, ASend => true | _, _ => false end.
Definition owner_eqb a b := match a, b with
  | Free, Free | ByCaller, ByCaller | ByCollector, ByCollector => true | _, _ => false end.
Definition st_eqb a b :=
  (size a =? size b) && owner_eqb (lock a) (lock b) && Bool.eqb (ticker a) (ticker b) &&
  cpc_eqb (col a) (col b) && apc_eqb (cal a) (cal b).

(* a call is in progress and no step of anybody changes anything any more *)
Definition stuckb (stop : bool) (s : st) : bool :=
  negb (apc_eqb (cal s) AIdle) && forallb (fun l => st_eqb (step stop s l) s) all_labels.

(* ---- reachable set by closure ---- *)
Definition mem (s : st) (l : list st) : bool := existsb (st_eqb s) l.
Fixpoint explore (stop : bool) (fuel : nat) (seen frontier : list st) : list st :=
  match fuel with
  | O => seen
  | S f =>
      let next := flat_map (fun s => map (step stop s) all_labels) frontier in
      let fresh := fold_left (fun acc s => if mem s seen || mem s acc then acc else s :: acc) next [] in
      match fresh with
      | [] => seen
      | _ => explore stop f (fresh ++ seen) fresh
      end
  end.
Definition reach (stop : bool) : list st := explore stop 64 [init] [init].
Definition closedb (stop : bool) (r : list st) : bool :=
  mem init r && forallb (fun s => forallb (fun l => mem (step stop s l) r) all_labels) r.

Lemma st_eqb_eq a b : st_eqb a b = true -> a = b.
Proof.
  destruct a as [n1 l1 t1 c1 a1], b as [n2 l2 t2 c2 a2]. unfold st_eqb. cbn [size lock ticker col cal].
  rewrite !andb_true_iff. intros ((((H1 & H2) & H3) & H4) & H5).
  apply Nat.eqb_eq in H1. apply Bool.eqb_prop in H3. subst.
  destruct l1, l2; try discriminate. all: destruct c1 as [| | |x], c2 as [| | |y]; try discriminate.
  all: destruct a1, a2; try discriminate; try reflexivity.
  all: cbn in H4; apply Bool.eqb_prop in H4; subst; reflexivity.
Qed.

Lemma mem_in s r : mem s r = true -> In s r.
Proof. unfold mem. rewrite existsb_exists. intros (x & Hx & E). apply st_eqb_eq in E. subst. exact Hx. Qed.

(* steps with a label outside [all_labels] (CPass k, k > 2) do nothing: sizes are at most 2 *)
Definition small (s : st) : Prop := size s <= 2.

Lemma reach_closed : closedb true (reach true) = true.
Proof. vm_compute. reflexivity. Qed.
Lemma reach_small : forallb (fun s => size s <=? 2) (reach true) = true.
Proof. vm_compute. reflexivity. Qed.
Lemma reach_not_stuck : forallb (fun s => negb (stuckb true s)) (reach true) = true.
Proof. vm_compute. reflexivity. Qed.

Lemma step_in_reach s l : In s (reach true) -> In (step true s l) (reach true).
Proof.
  intros Hs. pose proof reach_closed as C. unfold closedb in C. apply andb_true_iff in C. destruct C as [_ C].
  rewrite forallb_forall in C. specialize (C s Hs). rewrite forallb_forall in C.
  pose proof reach_small as Sm. rewrite forallb_forall in Sm. specialize (Sm s Hs). apply Nat.leb_le in Sm.
  assert (Hl : In l all_labels \/ exists k, l = CPass k /\ 2 < k).
  { destruct l; try (left; cbn; tauto). destruct k as [|[|[|k]]]; try (left; cbn; tauto).
    right. eexists. split; [reflexivity|lia]. }
  destruct Hl as [Hl|(k & -> & Hk)].
  - apply mem_in. apply C. exact Hl.
  - assert (E : step true s (CPass k) = s).
    { unfold step. destruct (col s); try reflexivity. destruct (Nat.leb_spec k (size s)); [lia|reflexivity]. }
    rewrite E. exact Hs.
Qed.

(* The code as it is: whatever the schedule of ticks, collection passes (any
   number of entries deleted) and arrivals of new addresses, the limiter never
   reaches a state in which a call is in progress and nothing can move. *)
Theorem collector_never_stuck : forall sched, stuckb true (run true init sched) = false.
Proof.
  intros sched.
  assert (H : In (run true init sched) (reach true)).
  { unfold run. assert (Hi : In init (reach true)).
    { apply mem_in. pose proof reach_closed as C. unfold closedb in C. apply andb_true_iff in C. tauto. }
    revert Hi. generalize init. induction sched as [|l r IH]; intros s Hs; cbn [fold_left]; [exact Hs|].
    apply IH. apply step_in_reach. exact Hs. }
  pose proof reach_not_stuck as N. rewrite forallb_forall in N. specialize (N _ H).
  apply negb_true_iff in N. exact N.
Qed.

(* Without stopping the ticker on an empty table: a tick can be taken while the
   table is empty; if the caller that makes it non-empty holds the lock at that
   moment, the collector waits for the lock and the caller for the collector. *)
Definition stuck_schedule : list label :=
  [AStart; ALock; AInsert; ARendezvous;   (* first address: ticker started *)
   Tick; CLock; CPass 0; CBack;           (* idle > 1 s: table emptied, ticker NOT stopped *)
   AStart; ALock;                         (* a new address: caller holds rate.mu *)
   Tick;                                  (* tick: cleanup waits for rate.mu *)
   AInsert].                              (* len == 1: blocking send, nobody receives *)
Theorem collector_stuck_without_stop :
  stuckb false (run false init stuck_schedule) = true /\
  stuckb true (run true init stuck_schedule) = false.
Proof. vm_compute. split; reflexivity. Qed.
