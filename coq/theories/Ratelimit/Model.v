(* Executable mirror of ratelimiter/ratelimiter.go (Allow, cleanup), sequential
   meaning: one call at a time (the concurrent steps are in Conc.v).
   Times are int64 nanoseconds (the harness clock is time.Unix(0, ns));
   tokens are int64.  The two places where the width matters are explicit:
     now.Sub(lastTime).Nanoseconds()   saturates at +-2^63   (time.Time.Sub)
     entry.tokens += ...               wraps modulo 2^64     (int64 addition)
   No proofs in this file. *)
From WG Require Import Base.Prelude Gen.Constants.
Local Open Scope Z_scope.

Definition cost : Z := Z.of_N rl_packetCost.
Definition maxTokens : Z := Z.of_N rl_maxTokens.
Definition gcTime : Z := Z.of_N rl_garbageCollectTime.

Definition wrap64 (z : Z) : Z := (z + 2^63) mod 2^64 - 2^63.
Definition sat64 (z : Z) : Z := Z.max (- 2^63) (Z.min (2^63 - 1) z).
(* now.Sub(last).Nanoseconds() *)
Definition elapsed (now last : Z) : Z := sat64 (now - last).

Record entry := { e_last : Z; e_tok : Z }.

(* The Go map, pointwise; [keys] only serves len(rate.table). *)
Definition table := N -> option entry.
Definition tempty : table := fun _ => None.
Definition put (a : N) (e : entry) (t : table) : table :=
  fun b => if N.eqb b a then Some e else t b.

Record state := { tbl : table; keys : list N }.
Definition empty : state := {| tbl := tempty; keys := [] |}.

(* entry.tokens += elapsed; cap at maxTokens *)
Definition refill (e : entry) (now : Z) : Z :=
  let t0 := wrap64 (e_tok e + elapsed now (e_last e)) in
  if maxTokens <? t0 then maxTokens else t0.

(* Allow on the table alone *)
Definition allow_t (t : table) (a : N) (now : Z) : table * bool :=
  match t a with
  | None => (put a {| e_last := now; e_tok := maxTokens - cost |} t, true)
  | Some e =>
      let t1 := refill e now in
      if cost <? t1 then (put a {| e_last := now; e_tok := t1 - cost |} t, true)
      else (put a {| e_last := now; e_tok := t1 |} t, false)
  end.

(* an entry survives a collection pass at [now] *)
Definition keep (e : entry) (now : Z) : bool := negb (gcTime <? elapsed now (e_last e)).

Definition cleanup_t (t : table) (now : Z) : table :=
  fun a => match t a with
           | Some e => if keep e now then Some e else None
           | None => None
           end.

Definition allow (s : state) (a : N) (now : Z) : state * bool :=
  let '(t', d) := allow_t (tbl s) a now in
  ({| tbl := t';
      keys := match tbl s a with None => a :: keys s | Some _ => keys s end |}, d).

Definition cleanup (s : state) (now : Z) : state :=
  {| tbl := cleanup_t (tbl s) now;
     keys := filter (fun a => match tbl s a with Some e => keep e now | None => false end) (keys s) |}.

(* Operations of a history and what is observed of each. *)
Inductive op := Arrive (a : N) (now : Z) | Gc (now : Z).
Inductive res := Dec (d : bool) | Len (n : N).

Definition time_of (o : op) : Z := match o with Arrive _ n => n | Gc n => n end.

(* [gc = false]: collection passes are skipped (the reference behaviour for
   "forgotten without changing any later decision"). *)
Definition step (gc : bool) (s : state) (o : op) : state * res :=
  match o with
  | Arrive a now => let '(s', d) := allow s a now in (s', Dec d)
  | Gc now =>
      let s' := if gc then cleanup s now else s in
      (s', Len (N.of_nat (length (keys s'))))
  end.

(* decisions of a result list *)
Fixpoint decs (rs : list res) : list bool :=
  match rs with
  | [] => []
  | Dec d :: r => d :: decs r
  | Len _ :: r => decs r
  end.
