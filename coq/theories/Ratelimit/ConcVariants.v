(* Variants of the lock-section model of Conc.v, to locate what the envelope
   theorem depends on.  The sections of the real code are
     Allow:    lookup under RLock | insert under Lock with a second look |
               refill/charge under the entry lock
     cleanup:  ONE section under Lock (scan and delete together)
   Variants expressible here:
     insertion   NoRecheck     no second look (the code before the F2 repair)
                 Recheck       the code
                 RecheckAdmit  second look, but a caller that finds somebody
                               else's entry returns true without charging it
     collection  VCollect      the code (atomic pass)
                 VScan / VDelete  two sections: idle entries are noted under
                               RLock, deleted later under Lock without looking
                               at them again
   [vstep Recheck] restricted to VRun / VTick / VCollect is [cstep true], for
   which Conc.conc_rate_envelope_all_schedules holds; each other variant is
   refuted by an explicit schedule. *)
From WG Require Import Base.Prelude Gen.Constants Ratelimit.Model Ratelimit.Spec Ratelimit.Proofs Ratelimit.Conc.
Local Open Scope Z_scope.

Inductive ins_mode := NoRecheck | Recheck | RecheckAdmit.
Record vstate := { vs : cstate; marked : list N }.
Inductive vlabel := VRun (i : nat) | VTick (d : Z) | VCollect | VScan (keys : list N) | VDelete.

(* second look finds an entry: admitted, nothing charged *)
Definition admit_free (s : cstate) (i : nat) (a : N) : cstate :=
  {| heap := heap s; ctbl := ctbl s; clock := clock s; log := (a, clock s, true) :: log s;
     pool := set_nth (pool s) i {| th_addr := a; th_pc := Done true |} |}.

Definition vtstep (m : ins_mode) (s : cstate) (i : nat) : cstate :=
  match m with
  | NoRecheck => tstep false s i
  | Recheck => tstep true s i
  | RecheckAdmit =>
      match nth_error (pool s) i with
      | Some th =>
          match th_pc th, ctbl s (th_addr th) with
          | Miss, Some _ => admit_free s i (th_addr th)
          | _, _ => tstep true s i
          end
      | None => s
      end
  end.

Definition idle_now (s : cstate) (a : N) : bool :=
  match ctbl s a with
  | Some p => negb (keep (nth p (heap s) dflt) (clock s))
  | None => false
  end.

Definition drop (s : cstate) (ks : list N) : cstate :=
  {| heap := heap s;
     ctbl := fun a => if existsb (N.eqb a) ks then None else ctbl s a;
     clock := clock s; log := log s; pool := pool s |}.

Definition vstep (m : ins_mode) (s : vstate) (l : vlabel) : vstate :=
  match l with
  | VRun i => {| vs := vtstep m (vs s) i; marked := marked s |}
  | VTick d => {| vs := cstep true (vs s) (Tick d); marked := marked s |}
  | VCollect => {| vs := collect (vs s); marked := marked s |}
  | VScan keys => {| vs := vs s; marked := filter (idle_now (vs s)) keys |}
  | VDelete => {| vs := drop (vs s) (marked s); marked := [] |}
  end.

Definition vrun (m : ins_mode) (s : vstate) (sched : list vlabel) : vstate := fold_left (vstep m) sched s.
Definition vinit (now : Z) (addrs : list N) : vstate := {| vs := init now addrs; marked := [] |}.

Definition lift (l : label) : vlabel :=
  match l with Run i => VRun i | Tick d => VTick d | Collect => VCollect end.

(* the code's variant is the model the theorem is about *)
Lemma vstep_is_cstep s l : vs (vstep Recheck s (lift l)) = cstep true (vs s) l.
Proof. destruct l; reflexivity. Qed.
Lemma vrun_is_crun : forall sched s, vs (vrun Recheck s (map lift sched)) = crun true (vs s) sched.
Proof.
  induction sched as [|l r IH]; intros s; [reflexivity|].
  cbn [map vrun fold_left crun]. change (fold_left (vstep Recheck) (map lift r) (vstep Recheck s (lift l)))
    with (vrun Recheck (vstep Recheck s (lift l)) (map lift r)).
  rewrite IH, vstep_is_cstep. reflexivity.
Qed.

(* admissions of [a] logged at clock time [t] *)
Definition admitted_at (a : N) (t : Z) (l : list ev) : Z :=
  admitted a (filter (fun e => Z.eqb (snd (fst e)) t) l).

(* ---- RecheckAdmit: k callers that all looked up before the first insert ---- *)
Definition free_schedule : list vlabel :=
  [VRun 0; VRun 1; VRun 2;       (* three lookups, all miss *)
   VRun 0;                       (* first caller inserts: admitted *)
   VRun 1; VRun 2;               (* second look finds the entry: admitted, not charged *)
   VRun 3; VRun 3; VRun 4; VRun 4; VRun 5; VRun 5].  (* the bucket still holds 200 ms: 3 more *)
Theorem recheck_admit_refuted :
  let s := vs (vrun RecheckAdmit (vinit 0 (repeat addr_x 6)) free_schedule) in
  admitted_at addr_x 0 (log s) = 6 /\ clock s = 0 /\ ~ (6 * cost <= maxTokens + 0) /\
  admitted_at addr_x 0 (log (vs (vrun Recheck (vinit 0 (repeat addr_x 6)) free_schedule))) = 4.
Proof. vm_compute. repeat split; try reflexivity. intros H; apply H; reflexivity. Qed.

(* ---- two-section collection: an entry used between scan and delete ---- *)
Definition addr_y : N := 8.
Definition split_pool : list N := addr_x :: addr_y :: repeat addr_x 8.
Definition split_schedule (two_sections : bool) : list vlabel :=
  [VRun 0; VRun 0; VRun 1; VRun 1;            (* entries for x and y at time 0 *)
   VTick (gcTime + 1)] ++                     (* both idle for more than gcTime *)
  (if two_sections then [VScan [addr_x; addr_y]] else [VCollect]) ++
  [VRun 2; VRun 2; VRun 3; VRun 3; VRun 4; VRun 4; VRun 5; VRun 5] ++   (* a burst from x *)
  (if two_sections then [VDelete] else []) ++
  [VRun 6; VRun 6; VRun 7; VRun 7; VRun 8; VRun 8; VRun 9; VRun 9].      (* and four more *)
Theorem split_collect_refuted :
  let t := gcTime + 1 in
  admitted_at addr_x t (log (vs (vrun Recheck (vinit 0 split_pool) (split_schedule true)))) = 8 /\
  ~ (8 * cost <= maxTokens + 0) /\
  admitted_at addr_x t (log (vs (vrun Recheck (vinit 0 split_pool) (split_schedule false)))) = 4.
Proof. vm_compute. repeat split; try reflexivity. intros H; apply H; reflexivity. Qed.
